(* The remaining half of C04 for the functional reading of get_critical_path (Model/CritImpl.cp_model): if dag_longest_path returns a
   path of maximal weight of the graph it is given (the sink graph), the reported cells add up to cp_opt -- so, with
   Proofs/CritImpl.cp_model_certificate and Proofs/CritCert.cert_sound, the reported lines are a longest dependency chain.
   Needs what the sink graph is: its `latency` look-up is characterised edge by edge (the sink_lookup lemmas). *)
From Coq Require Import ZArith QArith Lqa List Bool String Lia.
From OV Require Import Model.Num Model.Deps Model.CritPath Proofs.CritPathQ Proofs.CritCert
     Model.PyLcd Model.LcdPost Model.CritImpl Proofs.PyLcdFacts Proofs.LcdPost Proofs.CritImpl.
Import ListNotations.
Local Open Scope list_scope.

(* ------------------------------------------------------------------ nx.DiGraph as a container: look-ups after add_edge *)
Lemma node_eqb_refl a : node_eqb a a = true.
Proof. destruct a; cbn; apply Z.eqb_refl. Qed.
Lemma node_eqb_neq a b : a <> b -> node_eqb a b = false.
Proof. intros H. destruct (node_eqb a b) eqn:E; [apply node_eqb_eq in E; contradiction | reflexivity]. Qed.
Lemma node_eqb_spec a b : reflect (a = b) (node_eqb a b).
Proof. destruct (node_eqb a b) eqn:E; constructor; [apply node_eqb_eq; exact E | intros ->; rewrite node_eqb_refl in E; discriminate]. Qed.

Section NxFacts.
  Context {T : Type}.
  Implicit Types (g : nxg T) (a : list (node * T)).

  Lemma adj_get_set a v w v' : adj_get (adj_set a v w) v' = if node_eqb v v' then POk w else adj_get a v'.
  Proof.
    induction a as [|[x y] a IH]; cbn [adj_set adj_get].
    - destruct (node_eqb v v'); reflexivity.
    - destruct (node_eqb_spec x v) as [->|Ne]; cbn [adj_get].
      + destruct (node_eqb v v'); reflexivity.
      + rewrite IH. destruct (node_eqb_spec x v') as [->|Ne']; [|reflexivity].
        rewrite (node_eqb_neq v v') by (intros ->; contradiction). reflexivity.
  Qed.

  Lemma nx_lookup_add_node g n u v : nx_edge_latency (nx_add_node g n) u v = nx_edge_latency g u v.
  Proof.
    induction g as [|[m a] g IH]; cbn [nx_add_node nx_edge_latency].
    - destruct (node_eqb n u); reflexivity.
    - destruct (node_eqb m n); cbn [nx_edge_latency]; [reflexivity|]. rewrite IH. reflexivity.
  Qed.

  Lemma nx_add_node_in g n : In n (nx_nodes (nx_add_node g n)).
  Proof.
    unfold nx_nodes. induction g as [|[m a] g IH]; cbn [nx_add_node map fst]; [left; reflexivity|].
    destruct (node_eqb_spec m n) as [->|_]; cbn [map fst]; [left; reflexivity | right; exact IH].
  Qed.
  Lemma nx_add_node_keeps g n m : In m (nx_nodes g) -> In m (nx_nodes (nx_add_node g n)).
  Proof.
    unfold nx_nodes. induction g as [|[x a] g IH]; intros H; [contradiction|]. cbn [nx_add_node].
    destruct (node_eqb x n); cbn [map fst] in *; [exact H|]. destruct H as [H|H]; [left; exact H | right; apply IH; exact H].
  Qed.

  Lemma nx_lookup_set_edge g u v w u' v' : In u (nx_nodes g) ->
    nx_edge_latency (nx_set_edge g u v w) u' v' = if andb (node_eqb u u') (node_eqb v v') then POk w else nx_edge_latency g u' v'.
  Proof.
    unfold nx_nodes. induction g as [|[m a] g IH]; intros H; [contradiction|]. cbn [nx_set_edge].
    destruct (node_eqb_spec m u) as [->|Ne]; cbn [nx_edge_latency].
    - destruct (node_eqb_spec u u') as [->|Ne']; cbn [andb].
      + apply adj_get_set.
      + reflexivity.
    - cbn [map fst] in H. destruct H as [H|H]; [contradiction|]. rewrite (IH H).
      destruct (node_eqb_spec m u') as [->|Ne']; [|reflexivity].
      rewrite (node_eqb_neq u u') by (intros ->; contradiction). reflexivity.
  Qed.

  Lemma nx_lookup_add_edge g u v w u' v' :
    nx_edge_latency (nx_add_edge g u v w) u' v' = if andb (node_eqb u u') (node_eqb v v') then POk w else nx_edge_latency g u' v'.
  Proof.
    unfold nx_add_edge. rewrite nx_lookup_set_edge by (apply nx_add_node_keeps; apply nx_add_node_in).
    rewrite !nx_lookup_add_node. reflexivity.
  Qed.

  (* a sequence of add_edge calls: the last one for a node pair decides *)
  Definition op := (node * node * T)%type.
  Definition apply_ops (g : nxg T) (ops : list op) : nxg T := fold_left (fun g0 o => nx_add_edge g0 (fst (fst o)) (snd (fst o)) (snd o)) ops g.
  Definition op_is (u v : node) (o : op) : bool := andb (node_eqb (fst (fst o)) u) (node_eqb (snd (fst o)) v).
  Fixpoint last_op (ops : list op) (u v : node) : option T :=
    match ops with
    | [] => None
    | o :: r => match last_op r u v with Some w => Some w | None => if op_is u v o then Some (snd o) else None end
    end.

  Lemma lookup_ops : forall ops g u v,
    nx_edge_latency (apply_ops g ops) u v = match last_op ops u v with Some w => POk w | None => nx_edge_latency g u v end.
  Proof.
    induction ops as [|o ops IH]; intros g u v; [reflexivity|]. unfold apply_ops in *. cbn [fold_left last_op]. rewrite IH.
    destruct (last_op ops u v); [reflexivity|]. rewrite nx_lookup_add_edge. unfold op_is. destruct (andb _ _); reflexivity.
  Qed.

  Lemma last_op_in : forall ops u v w, last_op ops u v = Some w -> exists o, In o ops /\ op_is u v o = true /\ snd o = w.
  Proof.
    induction ops as [|o ops IH]; intros u v w H; [discriminate|]. cbn [last_op] in H. destruct (last_op ops u v) as [w'|] eqn:E.
    - inversion H; subst. destruct (IH u v w E) as (o' & Hin & Hm & Hw). exists o'. split; [right; exact Hin | split; assumption].
    - destruct (op_is u v o) eqn:M; [|discriminate]. inversion H; subst. exists o. split; [left; reflexivity | split; [exact M | reflexivity]].
  Qed.

  Lemma last_op_unique : forall ops u v w, (exists o, In o ops /\ op_is u v o = true) ->
    (forall o, In o ops -> op_is u v o = true -> snd o = w) -> last_op ops u v = Some w.
  Proof.
    induction ops as [|o ops IH]; intros u v w (o' & Hin & Hm) Hu; [contradiction|]. cbn [last_op].
    destruct (last_op ops u v) as [w'|] eqn:E.
    - destruct (last_op_in ops u v w' E) as (o2 & Hin2 & Hm2 & <-). f_equal. apply Hu; [right; exact Hin2 | exact Hm2].
    - destruct Hin as [<-|Hin].
      + rewrite Hm. f_equal. apply Hu; [left; reflexivity | exact Hm].
      + rewrite (IH u v w) in E; [discriminate | exists o'; split; assumption | intros o2 H2; apply Hu; right; exact H2].
  Qed.

  Lemma lookup_nodes_only : forall (ns : list node) g u v, (forall u' v', nx_edge_latency g u' v' = PErr PKeyError) ->
    nx_edge_latency (nx_add_nodes_from g ns) u v = PErr PKeyError.
  Proof.
    unfold nx_add_nodes_from. induction ns as [|n ns IH]; intros g u v H; [apply H|]. cbn [fold_left]. apply IH.
    intros u' v'. rewrite nx_lookup_add_node. apply H.
  Qed.
End NxFacts.

(* ------------------------------------------------------------------ the sink graph, edge by edge *)
Section Sink.
  Context {I : Type} (ln : I -> Z) (lat : I -> Q).
  Variable self_dg : nxg Q.
  Variable heap : list I.
  Notation edges := (nx_edges_data self_dg).

  Definition merged_ops (e : node * node * Q) : list (op (T:=Q)) :=
    if node_is_load_of (fst (fst e)) (snd (fst e))
    then map (fun e2 => (fst (fst e), snd (fst e2), nadd QNum (snd e) (snd e2))) (nx_out_edges_data self_dg (snd (fst e)))
    else [e].
  Definition sink_ops : list (op (T:=Q)) :=
    flat_map merged_ops edges ++ map (fun i => (Line (ln i), Line sink, lat i)) heap.

  Lemma apply_ops_app (g : nxg Q) a b : apply_ops (apply_ops g a) b = apply_ops g (a ++ b).
  Proof. unfold apply_ops. rewrite fold_left_app. reflexivity. Qed.

  Lemma add_merged_ops (g : nxg Q) e : add_merged QNum self_dg g e = apply_ops g (merged_ops e).
  Proof.
    unfold add_merged, merged_ops. destruct (node_is_load_of (fst (fst e)) (snd (fst e))); [|reflexivity].
    unfold apply_ops. generalize (nx_out_edges_data self_dg (snd (fst e))). intros l. revert g.
    induction l as [|e2 l IH]; intros g; [reflexivity|]. cbn [fold_left map fst snd]. apply IH.
  Qed.

  Lemma fold_merged_ops : forall l (g : nxg Q), fold_left (add_merged QNum self_dg) l g = apply_ops g (flat_map merged_ops l).
  Proof.
    induction l as [|e l IH]; intros g; [reflexivity|]. cbn [fold_left flat_map]. rewrite <- apply_ops_app, <- add_merged_ops. apply IH.
  Qed.
  Lemma fold_sink_ops : forall (h : list I) (g : nxg Q),
    fold_left (fun g0 i => nx_add_edge g0 (Line (ln i)) (Line sink) (lat i)) h g = apply_ops g (map (fun i => (Line (ln i), Line sink, lat i)) h).
  Proof. induction h as [|i h IH]; intros g; [reflexivity|]. cbn [fold_left map]. rewrite IH. reflexivity. Qed.

  Lemma sink_graph_ops : sink_graph QNum ln lat self_dg heap = apply_ops (nx_add_nodes_from nx_empty (nx_nodes self_dg)) sink_ops.
  Proof. unfold sink_graph, sink_ops. cbv zeta. rewrite fold_merged_ops, fold_sink_ops, apply_ops_app. reflexivity. Qed.

  Lemma sink_lookup u v : nx_edge_latency (sink_graph QNum ln lat self_dg heap) u v =
    match last_op sink_ops u v with Some w => POk w | None => PErr PKeyError end.
  Proof.
    rewrite sink_graph_ops, lookup_ops. destruct (last_op sink_ops u v); [reflexivity|].
    apply lookup_nodes_only. intros u' v'. reflexivity.
  Qed.

  Lemma out_edges_in n u v w : In (u, v, w) (nx_out_edges_data self_dg n) <-> u = n /\ In (u, v, w) edges.
  Proof.
    unfold nx_out_edges_data, nx_edges_data. rewrite !in_flat_map. split.
    - intros ([m a] & Hin & H). cbn [fst snd] in H. destruct (node_eqb_spec m n) as [->|_]; [|contradiction].
      apply in_map_iff in H. destruct H as ([v0 w0] & E & Hv). inversion E; subst. split; [reflexivity|].
      eexists. split; [exact Hin|]. cbn [fst snd]. apply in_map_iff. exists (v, w). split; [reflexivity | exact Hv].
    - intros (En & [m a] & Hin & H). cbn [fst snd] in H. apply in_map_iff in H. destruct H as ([v0 w0] & E & Hv). inversion E; subst.
      eexists. split; [exact Hin|]. cbn [fst snd]. rewrite node_eqb_refl. apply in_map_iff. exists (v, w). split; [reflexivity | exact Hv].
  Qed.

  Lemma is_load_of_true s d : node_is_load_of s d = true -> exists a, s = Load a /\ d = Line a.
  Proof. destruct s as [x|x], d as [y|y]; cbn; try discriminate. intros H. apply Z.eqb_eq in H. subst. eauto. Qed.

  (* what an add_edge call of the construction is *)
  Lemma sink_ops_in o : In o sink_ops ->
    (In o edges /\ node_is_load_of (fst (fst o)) (snd (fst o)) = false) \/
    (exists a WL b W, o = (Load a, b, nadd QNum WL W) /\ In (Load a, Line a, WL) edges /\ In (Line a, b, W) edges) \/
    (exists i, In i heap /\ o = (Line (ln i), Line sink, lat i)).
  Proof.
    unfold sink_ops. intros H. apply in_app_or in H. destruct H as [H|H].
    - apply in_flat_map in H. destruct H as (e & He & Ho). unfold merged_ops in Ho.
      destruct (node_is_load_of (fst (fst e)) (snd (fst e))) eqn:L.
      + right. left. apply in_map_iff in Ho. destruct Ho as ([[u2 v2] w2] & <- & H2). cbn [fst snd] in *.
        destruct (is_load_of_true _ _ L) as (a & Es & Ed). destruct e as [[s d] w]. cbn [fst snd] in *. subst s d.
        apply out_edges_in in H2. destruct H2 as (-> & H2). exists a, w, v2, w2. repeat split; assumption.
      + left. destruct Ho as [<-|[]]. split; [exact He | exact L].
    - right. right. apply in_map_iff in H. destruct H as (i & <- & Hi). exists i. split; [exact Hi | reflexivity].
  Qed.

  Lemma op_is_true u v (o : op (T:=Q)) : op_is u v o = true <-> fst (fst o) = u /\ snd (fst o) = v.
  Proof.
    unfold op_is. rewrite andb_true_iff. split; intros (A & B).
    - split; apply node_eqb_eq; assumption.
    - subst. split; apply node_eqb_refl.
  Qed.

  (* well-formed self.dg and kernel *)
  Hypothesis G1 : NoDup (map ekey edges).
  Hypothesis G2 : forall u v w, In (u, v, w) edges -> (exists b, v = Line b /\ (0 <= b)%Z) /\ (0 <= node_int u)%Z.
  Hypothesis G4 : forall a v w, In (Load a, v, w) edges -> v = Line a.
  Hypothesis ND : NoDup (map ln heap).

  Lemma sink_lookup_edge a b W : In (Line a, Line b, W) edges -> last_op sink_ops (Line a) (Line b) = Some W.
  Proof.
    intros H. apply last_op_unique.
    - exists (Line a, Line b, W). split; [|apply op_is_true; split; reflexivity].
      unfold sink_ops. apply in_or_app. left. apply in_flat_map. exists (Line a, Line b, W). split; [exact H|]. left. reflexivity.
    - intros o Ho Hm. apply op_is_true in Hm. destruct Hm as (E1 & E2).
      destruct (sink_ops_in o Ho) as [(Hin & _)|[(a' & WL & b' & W' & -> & _ & _)|(i & _ & ->)]]; cbn [fst snd] in *.
      + destruct o as [[u v] w]. cbn [fst snd] in *. subst. exact (edge_unique self_dg G1 _ _ _ _ Hin H).
      + discriminate.
      + inversion E2 as [Eb]. destruct (G2 _ _ _ H) as ((b0 & Eb0 & Hb0) & _). inversion Eb0; subst. unfold sink in Hb0. lia.
  Qed.

  Lemma sink_lookup_load a WL b W : In (Load a, Line a, WL) edges -> In (Line a, Line b, W) edges ->
    last_op sink_ops (Load a) (Line b) = Some (nadd QNum WL W).
  Proof.
    intros HL H. apply last_op_unique.
    - exists (Load a, Line b, nadd QNum WL W). split; [|apply op_is_true; split; reflexivity].
      unfold sink_ops. apply in_or_app. left. apply in_flat_map. exists (Load a, Line a, WL). split; [exact HL|].
      unfold merged_ops. cbn [fst snd node_is_load_of]. rewrite Z.eqb_refl. apply in_map_iff. exists (Line a, Line b, W). split; [reflexivity|].
      apply out_edges_in. split; [reflexivity | exact H].
    - intros o Ho Hm. apply op_is_true in Hm. destruct Hm as (E1 & E2).
      destruct (sink_ops_in o Ho) as [(Hin & Hl)|[(a' & WL' & b' & W' & -> & HL' & H')|(i & _ & ->)]]; cbn [fst snd] in *.
      + destruct o as [[u v] w]. cbn [fst snd] in *. subst. pose proof (G4 _ _ _ Hin) as Ev. inversion Ev; subst.
        cbn in Hl. rewrite Z.eqb_refl in Hl. discriminate.
      + inversion E1; subst a'. subst b'. rewrite (edge_unique self_dg G1 _ _ _ _ HL' HL), (edge_unique self_dg G1 _ _ _ _ H' H). reflexivity.
      + discriminate.
  Qed.

  Lemma sink_lookup_sink i : In i heap -> last_op sink_ops (Line (ln i)) (Line sink) = Some (lat i).
  Proof.
    intros Hi. apply last_op_unique.
    - exists (Line (ln i), Line sink, lat i). split; [|apply op_is_true; split; reflexivity].
      unfold sink_ops. apply in_or_app. right. apply in_map_iff. exists i. split; [reflexivity | exact Hi].
    - intros o Ho Hm. apply op_is_true in Hm. destruct Hm as (E1 & E2).
      destruct (sink_ops_in o Ho) as [(Hin & _)|[(a' & WL & b' & W' & -> & _ & H')|(j & Hj & ->)]]; cbn [fst snd] in *.
      + destruct o as [[u v] w]. cbn [fst snd] in *. subst. destruct (G2 _ _ _ Hin) as ((b0 & Eb0 & Hb0) & _). inversion Eb0; subst. unfold sink in Hb0. lia.
      + discriminate.
      + inversion E1 as [El]. rewrite (nodup_map_inj ln heap j i ND Hj Hi El). reflexivity.
  Qed.
End Sink.

(* ------------------------------------------------------------------ paths of a graph, with their weight *)
Inductive gpath (G : nxg Q) : list node -> Q -> Prop :=
| gp_one n : gpath G [n] 0
| gp_cons u v r x W : nx_edge_latency G u v = POk x -> gpath G (v :: r) W -> gpath G (u :: v :: r) (x + W).

(* dag_longest_path(G, weight="latency"): a path of G of maximal weight *)
Definition longest_ok (G : nxg Q) (p0 : list node) : Prop :=
  exists W0, gpath G p0 W0 /\ forall p W, gpath G p W -> W <= W0.

Lemma gpath_snoc_inv G : forall p z W, gpath G (p ++ [z]) W -> p <> [] ->
  exists W1 y, gpath G p W1 /\ nx_edge_latency G (last p z) z = POk y /\ W == W1 + y.
Proof.
  induction p as [|a p IH]; intros z W H Hne; [congruence|]. destruct p as [|b p].
  - cbn [app] in H. inversion H; subst. match goal with H0 : gpath G [z] _ |- _ => inversion H0; subst end.
    exists 0, x. split; [constructor|]. split; [assumption | lra].
  - cbn [app] in H. inversion H; subst.
    destruct (IH z W0 ltac:(assumption) ltac:(discriminate)) as (W1 & y & H1 & H2 & E).
    exists (x + W1), y. split; [constructor; assumption|]. split; [exact H2 | lra].
Qed.

Lemma gpath_nonempty G p W : gpath G p W -> p <> [].
Proof. intros H. destruct H; discriminate. Qed.

(* ------------------------------------------------------------------ every chain of the kernel is a path of the sink graph *)
Section ChainPaths.
  Context {I : Type} (ln : I -> Z) (lat : I -> Q).
  Variable self_dg : nxg Q.
  Variable heap : list I.
  Notation edges := (nx_edges_data self_dg).
  Hypothesis G1 : NoDup (map ekey edges).
  Hypothesis G2 : forall u v w, In (u, v, w) edges -> (exists b, v = Line b /\ (0 <= b)%Z) /\ (0 <= node_int u)%Z.
  Hypothesis G4 : forall a v w, In (Load a, v, w) edges -> v = Line a.
  Hypothesis ND : NoDup (map ln heap).
  Hypothesis NN : forall i, In i heap -> (0 <= ln i)%Z.
  Notation G := (sink_graph QNum ln lat self_dg heap).
  Notation g := (to_edges self_dg).
  Notation k := (kernel_of ln lat heap).
  Definition nline (n : nat) : node := Line (Z.of_nat n).

  Lemma kernel_in n l : In (n, l) k -> exists i, In i heap /\ ln i = Z.of_nat n /\ lat i = l.
  Proof.
    unfold kernel_of. rewrite map_map. intros H. revert H. clear -NN. induction heap as [|x h IH]; intros H; [contradiction|].
    cbn [map combine] in H. destruct H as [E|H].
    - inversion E; subst. exists x. split; [left; reflexivity|]. split; [|reflexivity]. rewrite Z2Nat.id; [reflexivity | apply NN; left; reflexivity].
    - destruct IH as (i & Hi & A & B); [intros j Hj; apply NN; right; exact Hj | exact H|]. exists i. split; [right; exact Hi | split; assumption].
  Qed.

  Lemma has_edge_in n m w : has_edge g n m w -> In (nline n, nline m, w) edges.
  Proof.
    intros H. apply (has_edge_of self_dg G2 w (Z.of_nat n) (Z.of_nat m)); [rewrite !Nat2Z.id; exact H | lia | lia].
  Qed.

  Lemma to_edges_load_in n w : In ((n, true), n, w) g -> In (Load (Z.of_nat n), nline n, w) edges.
  Proof.
    unfold to_edges. intros H. apply in_map_iff in H. destruct H as ([[u v] w'] & E & Hi). unfold to_edge in E. cbn [fst snd] in E.
    injection E as E1 E2 E3 E4. subst w'. destruct (G2 u v w Hi) as ((b & -> & Hb) & Hu). destruct u as [a|a]; [discriminate|]. cbn [node_int] in *.
    unfold nline. replace (Z.of_nat n) with a by lia. replace a with b at 2 by lia. exact Hi.
  Qed.

  Lemma G_edge n m w : has_edge g n m w -> nx_edge_latency G (nline n) (nline m) = POk w.
  Proof.
    intros H. apply has_edge_in in H. unfold nline in *. rewrite sink_lookup, (sink_lookup_edge ln lat self_dg heap G1 G2 _ _ _ H). reflexivity.
  Qed.
  Lemma G_sink n l : In (n, l) k -> nx_edge_latency G (nline n) (Line sink) = POk l.
  Proof.
    intros H. destruct (kernel_in n l H) as (i & Hi & A & B). unfold nline. rewrite <- A, <- B, sink_lookup.
    rewrite (sink_lookup_sink ln lat self_dg heap G2 ND i Hi). reflexivity.
  Qed.

  Lemma lchain_gpath : forall c e, lchain g c e -> forall l, In (last_of c, l) k ->
    exists W, gpath G (map nline c ++ [Line sink]) W /\ W == e + l.
  Proof.
    intros c e H. induction H as [n | n m c w e He Hl IH]; intros l Hin.
    - exists (l + 0). split; [|lra]. cbn [map app]. apply gp_cons; [apply G_sink; exact Hin | constructor].
    - rewrite last_of_cons2 in Hin. destruct (IH l Hin) as (W & HW & EW). exists (w + W). split; [|lra].
      cbn [map app] in *. apply gp_cons; [apply G_edge; exact He | exact HW].
  Qed.

  (* ... with its full length: the load stage of the first instruction is folded into the first edge *)
  Theorem chain_has_gpath c e n l : chain g c e -> last_of c = n -> In (n, l) k ->
    exists p W, gpath G p W /\ W == clen g c e l.
  Proof.
    intros Hc El Hin. subst n. destruct (chain_lchain g c e Hc) as (e' & Hl & Ee).
    destruct Hl as [n | n m c' w e0 He Hl'].
    - destruct (lchain_gpath [n] 0 (lc_one g n) l Hin) as (W & HW & EW). eexists _, W. split; [exact HW|]. unfold clen. lra.
    - destruct (loadw_spec g n) as [L0|Lin].
      + destruct (lchain_gpath _ _ (lc_cons g n m c' w e0 He Hl') l Hin) as (W & HW & EW). eexists _, W. split; [exact HW|].
        unfold clen, first_of. cbn [hd]. rewrite L0. lra.
      + (* the line has a load node *)
        pose proof (to_edges_load_in n _ Lin) as HL.
        rewrite last_of_cons2 in Hin. destruct (lchain_gpath _ _ Hl' l Hin) as (W & HW & EW).
        exists (Load (Z.of_nat n) :: map nline (m :: c') ++ [Line sink]), (nadd QNum (loadw QNum g n) w + W). split.
        * cbn [map app] in *. apply gp_cons; [|exact HW]. apply has_edge_in in He. unfold nline in *. rewrite sink_lookup.
          rewrite (sink_lookup_load ln lat self_dg heap G1 G4 _ _ _ _ HL He). reflexivity.
        * unfold clen, first_of. cbn [hd]. rewrite cpadd_eq. lra.
  Qed.
End ChainPaths.

(* ------------------------------------------------------------------ the cells along a chain add up to the weights plus the last latency *)
Lemma plain_sum : forall steps c0 (c : cfun) vl,
  NoDup (lines c0 steps) -> (forall z, In z (map snd steps) -> c z == 0) ->
  cells_sum (map (fun z => (Z.to_nat z, cset (acc_fun (srcs c0 steps) c) (last_line c0 steps) vl z)) (lines c0 steps))
  == match steps with [] => vl | _ :: _ => c c0 + fold_right (fun wc a => fst wc + a) 0 steps + vl end.
Proof.
  induction steps as [|[w c1] r IH]; intros c0 c vl ND HZ.
  - unfold lines, last_line. cbn [map last cells_sum fold_right snd srcs acc_fun]. unfold cset. rewrite Z.eqb_refl. lra.
  - rewrite last_line_cons. cbn [fst snd] in *.
    set (c' := cset c c0 (nadd QNum (c c0) w)).
    set (c3 := cset (acc_fun (srcs c0 ((w, c1) :: r)) c) (last_line c1 r) vl).
    assert (ND1 : NoDup (lines c1 r)) by (inversion ND; assumption).
    assert (Hnot : ~ In c0 (lines c1 r)) by (inversion ND; assumption).
    assert (E0 : c3 c0 = nadd QNum (c c0) w).
    { unfold c3, cset at 1. destruct (Z.eqb_spec c0 (last_line c1 r)) as [E|_]; [exfalso; apply Hnot; rewrite E; apply last_line_in|].
      cbn [srcs acc_fun fst snd]. rewrite acc_fun_other by (intros Hin; apply Hnot; apply srcs_keys; exact Hin).
      unfold cset. rewrite Z.eqb_refl. reflexivity. }
    change (lines c0 ((w, c1) :: r)) with (c0 :: lines c1 r).
    change (map (fun z => (Z.to_nat z, c3 z)) (c0 :: lines c1 r)) with ((Z.to_nat c0, c3 c0) :: map (fun z => (Z.to_nat z, c3 z)) (lines c1 r)).
    change (cells_sum ((Z.to_nat c0, c3 c0) :: map (fun z => (Z.to_nat z, c3 z)) (lines c1 r)))
      with (c3 c0 + cells_sum (map (fun z => (Z.to_nat z, c3 z)) (lines c1 r))).
    assert (Ec : c' c1 == 0).
    { unfold c', cset. destruct (Z.eqb_spec c1 c0) as [E|_]; [exfalso; apply Hnot; rewrite <- E; left; reflexivity|]. apply HZ. left. reflexivity. }
    assert (IH' := IH c1 c' vl ND1). unfold c3. cbn [srcs acc_fun fst snd]. fold c'. rewrite IH'.
    + assert (E1 : cset (acc_fun (srcs c1 r) c') (last_line c1 r) vl c0 = nadd QNum (c c0) w).
      { unfold cset at 1. destruct (Z.eqb_spec c0 (last_line c1 r)) as [E|_]; [exfalso; apply Hnot; rewrite E; apply last_line_in|].
        rewrite acc_fun_other by (intros Hin; apply Hnot; apply srcs_keys; exact Hin). unfold c', cset. rewrite Z.eqb_refl. reflexivity. }
      rewrite E1, cpadd_eq. cbn [fold_right fst]. destruct r; cbn [fold_right]; lra.
    + intros z Hz. unfold c', cset. destruct (Z.eqb_spec z c0) as [E|_]; [exfalso; apply Hnot; rewrite <- E; right; exact Hz|].
      apply HZ. right. exact Hz.
Qed.

(* ------------------------------------------------------------------ cells that pass cert_ok never add up to more than cp_opt *)
Lemma cert_ok_sum_le g k lat cells :
  nonneg_edges g -> forward_ok g [] k -> (forall n l, lat n = Some l -> In (n, l) k) ->
  cert_ok QNum g lat true cells = true -> cells_sum cells <= cp_opt QNum g k.
Proof.
  intros Hw FO Hlat Hok. destruct cells as [|[n x] [|[m y] rest]]; [discriminate| |].
  - rewrite cert_ok_one in Hok. destruct (lat n) as [l|] eqn:L; [|discriminate]. apply neqb_iff in Hok.
    pose proof (cp_opt_ge_single g k n l Hw FO (Hlat _ _ L)). cbn [cells_sum fold_right snd]. lra.
  - destruct (cert_ok_head _ _ _ _ _ _ _ Hok) as (w & He & Hx & Hs).
    assert (S0 : exists b, cells_spec g lat b ((n, x) :: (m, y) :: rest)).
    { destruct Hx as [Hx|Hx]; [exists false | exists true]; eapply cs_step; eassumption. }
    destruct S0 as (b & S0). destruct (spec_lchain _ _ _ _ S0) as (e & l & Hl & L & Hv).
    destruct (lchain_chain _ _ _ Hl) as (e' & Hc & Ee).
    pose proof (cp_opt_upper g k Hw FO _ _ _ l Hc eq_refl (Hlat _ _ L)) as U.
    cbn [map fst] in U, Hv. unfold first_of in U. cbn [hd] in U. pose proof (loadw_nonneg g n Hw) as P.
    unfold clen, first_of in Hv. cbn [hd] in Hv. destruct b; lra.
Qed.

(* ------------------------------------------------------------------ what an edge of the sink graph is *)
Section SinkSound.
  Context {I : Type} (ln : I -> Z) (lat : I -> Q).
  Variable self_dg : nxg Q.
  Variable heap : list I.
  Notation edges := (nx_edges_data self_dg).
  Hypothesis G2 : forall u v w, In (u, v, w) edges -> (exists b, v = Line b /\ (0 <= b)%Z) /\ (0 <= node_int u)%Z.
  Hypothesis G4 : forall a v w, In (Load a, v, w) edges -> v = Line a.
  Notation G := (sink_graph QNum ln lat self_dg heap).

  Lemma G_lookup_op u v x : nx_edge_latency G u v = POk x -> exists o, In o (sink_ops ln lat self_dg heap) /\ fst (fst o) = u /\ snd (fst o) = v /\ snd o = x.
  Proof.
    rewrite sink_lookup. destruct (last_op _ u v) as [w|] eqn:E; [|discriminate]. intros H. inversion H; subst.
    destruct (last_op_in _ _ _ _ E) as (o & Hin & Hm & Hw). apply op_is_true in Hm. exists o. tauto.
  Qed.

  Lemma S_line a b x : nx_edge_latency G (Line a) (Line b) = POk x -> b <> sink -> In (Line a, Line b, x) edges.
  Proof.
    intros H Hb. destruct (G_lookup_op _ _ _ H) as (o & Hin & E1 & E2 & E3).
    destruct (sink_ops_in ln lat self_dg heap o Hin) as [(Hi & _)|[(a' & WL & b' & W' & -> & _ & _)|(i & _ & ->)]]; cbn [fst snd] in *.
    - destruct o as [[u v] w]. cbn [fst snd] in *. subst. exact Hi.
    - discriminate.
    - inversion E2. congruence.
  Qed.

  Lemma S_sink a y : nx_edge_latency G (Line a) (Line sink) = POk y -> exists i, In i heap /\ ln i = a /\ lat i = y.
  Proof.
    intros H. destruct (G_lookup_op _ _ _ H) as (o & Hin & E1 & E2 & E3).
    destruct (sink_ops_in ln lat self_dg heap o Hin) as [(Hi & _)|[(a' & WL & b' & W' & -> & _ & _)|(i & Hi & ->)]]; cbn [fst snd] in *.
    - destruct o as [[u v] w]. cbn [fst snd] in *. subst. destruct (G2 _ _ _ Hi) as ((b0 & Eb0 & Hb0) & _). inversion Eb0; subst. unfold sink in Hb0. lia.
    - discriminate.
    - inversion E1. exists i. repeat split; assumption.
  Qed.

  Lemma S_load a b x : nx_edge_latency G (Load a) (Line b) = POk x ->
    exists WL W, x = nadd QNum WL W /\ In (Load a, Line a, WL) edges /\ In (Line a, Line b, W) edges.
  Proof.
    intros H. destruct (G_lookup_op _ _ _ H) as (o & Hin & E1 & E2 & E3).
    destruct (sink_ops_in ln lat self_dg heap o Hin) as [(Hi & Hl)|[(a' & WL & b' & W' & -> & HL & HW)|(i & _ & ->)]]; cbn [fst snd] in *.
    - destruct o as [[u v] w]. cbn [fst snd] in *. subst. pose proof (G4 _ _ _ Hi) as Ev. inversion Ev; subst.
      cbn in Hl. rewrite Z.eqb_refl in Hl. discriminate.
    - inversion E1; subst a'. subst b'. exists WL, W'. repeat split; [symmetry; exact E3 | exact HL | exact HW].
    - discriminate.
  Qed.
End SinkSound.

(* ------------------------------------------------------------------ sums *)
Lemma fold_nadd_sum : forall (ws : list (Z * Q)) p0, fold_left (fun a zw => nadd QNum a (snd zw)) ws p0 == p0 + fold_right (fun zw a => snd zw + a) 0 ws.
Proof.
  induction ws as [|zw ws IH]; intros p0; cbn [fold_left fold_right]; [lra|]. rewrite IH, cpadd_eq. lra.
Qed.
Lemma srcs_sum : forall steps c0, fold_right (fun zw a => snd zw + a) 0 (srcs c0 steps) == fold_right (fun wc a => fst wc + a) 0 steps.
Proof. induction steps as [|wc r IH]; intros c0; cbn [srcs fold_right fst snd]; [lra|]. rewrite IH. lra. Qed.

Lemma last_cons {A} : forall (l : list A) x d, last (x :: l) d = last l x.
Proof. induction l as [|y l IH]; intros x d; [reflexivity|]. change (last (x :: y :: l) d) with (last (y :: l) d). rewrite !IH. reflexivity. Qed.

Lemma fix_path_inv lp0 lp : fix_path lp0 = POk lp ->
  exists first rest1, (lp0 = first :: rest1 \/ lp0 = (first :: rest1) ++ [Line sink]) /\
    lp = match first with Line _ => first :: rest1 | Load n => Load n :: Line n :: rest1 end.
Proof.
  unfold fix_path. intros H. destruct (py_last lp0) as [lst|] eqn:El; [|discriminate]. cbn [pbind] in H.
  destruct (node_eq_int lst sink) eqn:Es.
  - destruct (py_nth (py_drop_last lp0) 0) as [first|] eqn:E; [|discriminate]. cbn [pbind] in H. inversion H as [H1]. clear H.
    unfold py_nth in E. destruct (py_drop_last lp0) as [|f rest1] eqn:Ed; [discriminate|]. cbn in E. inversion E; subst f.
    exists first, rest1. split.
    + right. unfold py_last in El. destruct lp0 as [|x r]; [discriminate|]. inversion El as [El']. unfold py_drop_last in Ed.
      rewrite <- Ed. destruct lst as [z|z]; [|discriminate]. cbn in Es. apply Z.eqb_eq in Es. subst z.
      rewrite (app_removelast_last (Line sink) (l := x :: r)) at 1 by discriminate. f_equal. f_equal.
      destruct r as [|y r']; [cbn in El' |- *; exact El' | cbn [last] in El' |- *; rewrite <- El'; apply last_default].
    + destruct first as [z|n]; cbn [node_int node_eq_int negb]; [rewrite Z.eqb_refl|]; reflexivity.
  - destruct (py_nth lp0 0) as [first|] eqn:E; [|discriminate]. cbn [pbind] in H. inversion H as [H1]. clear H.
    unfold py_nth in E. destruct lp0 as [|f rest1]; [discriminate|]. cbn in E. inversion E; subst f.
    exists first, rest1. split; [left; reflexivity|].
    destruct first as [z|n]; cbn [node_int node_eq_int negb]; [rewrite Z.eqb_refl|]; reflexivity.
Qed.

(* ------------------------------------------------------------------ MAIN: the cells add up to at least the weight of dag_longest_path's answer *)
Section Optimal.
  Context {I : Type} (ln : I -> Z) (lat lcp : I -> Q) (set_lcp : I -> Q -> I).
  Hypothesis ln_set : forall i v, ln (set_lcp i v) = ln i.
  Hypothesis lat_set : forall i v, lat (set_lcp i v) = lat i.
  Hypothesis lcp_set : forall i v, lcp (set_lcp i v) = v.
  Variable self_dg : nxg Q.
  Notation edges := (nx_edges_data self_dg).
  Hypothesis G1 : NoDup (map ekey edges).
  Hypothesis G2 : forall u v w, In (u, v, w) edges -> (exists b, v = Line b /\ (0 <= b)%Z) /\ (0 <= node_int u)%Z.
  Hypothesis G4 : forall a v w, In (Load a, v, w) edges -> v = Line a.
  Hypothesis GW : forall u v w, In (u, v, w) edges -> 0 <= w.
  Variable heap : list I.
  Hypothesis ND : NoDup (map ln heap).
  Hypothesis NN : forall i, In i heap -> (0 <= ln i)%Z.
  Hypothesis LN : forall i, In i heap -> 0 <= lat i.
  Hypothesis G3 : forall a b w, In (Line a, Line b, w) edges -> (pos (map ln heap) a < pos (map ln heap) b)%nat.
  Notation G := (sink_graph QNum ln lat self_dg heap).
  Notation k := (kernel_of ln lat heap).

  Definition steps_sum (steps : list (Q * Z)) : Q := fold_right (fun wc a => fst wc + a) 0 steps.

  Lemma steps_sum_nonneg : forall steps c0, nxlinked self_dg c0 steps -> 0 <= steps_sum steps.
  Proof.
    induction steps as [|wc r IH]; intros c0 H; [unfold steps_sum; cbn; lra|]. destruct H as (H1 & H2).
    unfold steps_sum in *. cbn [fold_right]. pose proof (GW _ _ _ (nx_latency_in _ _ _ _ H1)). specialize (IH _ H2). lra.
  Qed.

  (* a path of the sink graph over instruction nodes weighs what self.dg says *)
  Lemma gpath_plain_w : forall steps c0 W, gpath G (map Line (lines c0 steps)) W -> nxlinked self_dg c0 steps ->
    (forall z, In z (map snd steps) -> (0 <= z)%Z) -> W == steps_sum steps.
  Proof.
    induction steps as [|[w c1] r IH]; intros c0 W H Hnx Hz.
    - unfold lines in H. cbn [map] in H. inversion H; subst. unfold steps_sum. cbn. lra.
    - destruct Hnx as (H1 & H2). cbn [fst snd] in *. change (map Line (lines c0 ((w, c1) :: r))) with (Line c0 :: map Line (lines c1 r)) in H.
      unfold lines at 1 in H. cbn [map] in H. inversion H as [|u v r0 x W' Hx HW]; subst.
      assert (Hc1 : c1 <> sink) by (specialize (Hz c1 (or_introl eq_refl)); unfold sink; lia).
      pose proof (S_line ln lat self_dg heap _ _ x Hx Hc1) as Hin. pose proof (nx_latency_in _ _ _ _ H1) as Hin'.
      rewrite (edge_unique self_dg G1 _ _ _ _ Hin Hin').
      change (Line c1 :: map Line (map snd r)) with (map Line (lines c1 r)) in HW.
      rewrite (IH c1 W' HW H2) by (intros z Hzz; apply Hz; right; exact Hzz). unfold steps_sum. cbn [fold_right fst]. lra.
  Qed.

  Lemma lat_nonneg_of (h : list I) : map lat h = map lat heap -> forall j, In j h -> 0 <= lat j.
  Proof.
    intros A j Hj. assert (Hin : In (lat j) (map lat heap)) by (rewrite <- A; apply in_map; exact Hj).
    apply in_map_iff in Hin. destruct Hin as (j0 & <- & Hj0). apply LN. exact Hj0.
  Qed.

  Theorem cp_model_sum_ge is_dag longest refs heap' W0 :
    cp_model QNum ln lat lcp set_lcp is_dag longest self_dg heap = POk (refs, heap') ->
    gpath G (longest G) W0 -> W0 <= cells_sum (cells_of ln lcp refs heap').
  Proof.
    unfold cp_model. intros H HW0.
    destruct (py_max_key_idx _ (map lat heap)) as [mx|]; [|discriminate]. cbn [pbind] in H.
    destruct (is_dag self_dg); [|discriminate].
    destruct (fix_path (longest _)) as [lp|] eqn:Efix; [|discriminate]. cbn [pbind] in H.
    destruct (py_for lp heap _) as [h1|] eqn:Ez; [|discriminate]. cbn [pbind] in H.
    destruct (py_for (py_pairwise lp) _ _) as [[h2 pl]|] eqn:Ea; [|discriminate]. cbn [pbind fst snd] in H.
    destruct (py_last lp) as [lst|] eqn:El; [|discriminate]. cbn [pbind] in H.
    destruct (node_by_lineno ln h2 (node_int lst)) as [r|] eqn:Er; [|discriminate]. cbn [pbind] in H.
    destruct (zero_loop ln lat lcp set_lcp ln_set lat_set lcp_set lp heap h1 (c_init ln lcp heap) ND (R_init ln lcp heap ND) Ez) as (R1 & L1 & A1 & In1).
    assert (ND1 : NoDup (map ln h1)) by (rewrite L1; exact ND).
    destruct (acc_loop ln lat lcp set_lcp ln_set lat_set lcp_set self_dg _ _ _ _ _ _ ND1 R1 Ea) as (ws & F & R2 & L2 & A2 & Epl).
    assert (ND2 : NoDup (map ln h2)) by (rewrite L2; exact ND1).
    destruct (by_line ln set_lcp h2 (node_int lst) r ND2 Er) as (il & Hdl & Hil & Hzl & Hsetl).
    unfold set_cp at 1 in H. rewrite Hdl in H. cbn [pbind] in H. rewrite (Hsetl lat) in H. cbn [pbind] in H.
    set (h3 := upd ln set_lcp h2 (node_int lst) lat) in *.
    assert (L3 : map ln h3 = map ln heap) by (unfold h3; rewrite (upd_ln ln set_lcp ln_set), L2, L1; reflexivity).
    assert (A3 : map lat h3 = map lat heap) by (unfold h3; rewrite (upd_lat ln lat set_lcp lat_set), A2, A1; reflexivity).
    assert (ND3 : NoDup (map ln h3)) by (rewrite L3; exact ND).
    assert (NN3 : forall j, In j h3 -> (0 <= ln j)%Z).
    { intros j Hj. assert (Hin : In (ln j) (map ln heap)) by (rewrite <- L3; apply in_map; exact Hj).
      apply in_map_iff in Hin. destruct Hin as (j0 & <- & Hj0). apply NN. exact Hj0. }
    assert (K3 : kernel_of ln lat h3 = k) by (unfold kernel_of; rewrite L3, A3; reflexivity).
    assert (R3 : R ln lcp h3 (cset (acc_fun ws (zfun (c_init ln lcp heap) (map node_int lp))) (node_int lst) (lat il))).
    { unfold h3. apply (R_upd ln lcp set_lcp ln_set lcp_set); [exact R2|]. intros j Hj Ej.
      rewrite (nodup_map_inj ln h2 j il ND2 Hj Hil (eq_trans Ej (eq_sym Hzl))). reflexivity. }
    assert (Hil3 : In (set_lcp il (lat il)) h3).
    { unfold h3, upd. apply in_map_iff. exists il. rewrite Hzl, Z.eqb_refl. split; [reflexivity | exact Hil]. }
    assert (Hr3 : nth_error h3 r = Some (set_lcp il (lat il))).
    { unfold h3, upd. pose proof Hdl as Hd'. unfold py_deref, py_nth in Hd'. destruct (nth_error h2 r) as [x|] eqn:En; [|discriminate].
      inversion Hd'; subst x. rewrite (map_nth_error _ _ _ En), Hzl, Z.eqb_refl. reflexivity. }
    clearbody h3.
    set (vl := lat il) in *.
    assert (Hvl : 0 <= vl) by (unfold vl; rewrite <- (lat_set il (lat il)); apply (lat_nonneg_of h3 A3); exact Hil3).
    assert (Hlatl : lookup k (Z.to_nat (node_int lst)) = Some vl).
    { pose proof (lookup_kernel ln lat h3 (set_lcp il (lat il)) ND3 NN3 Hil3) as LK. rewrite ln_set, lat_set, Hzl, K3 in LK. exact LK. }
    assert (Hpl : pl == fold_right (fun zw a => snd zw + a) 0 ws).
    { rewrite Epl, fold_nadd_sum. cbn [n0 QNum]. lra. }
    clear Epl.
    assert (Hsub0 : forall z, In (Line z) lp -> In z (map ln heap)).
    { intros z Hz. rewrite Forall_forall in In1. exact (In1 (Line z) Hz). }
    (* the sink weight of an instruction on the path is its latency *)
    assert (Hy : forall y, nx_edge_latency G (Line (node_int lst)) (Line sink) = POk y -> y = vl).
    { intros y Hyy. destruct (S_sink ln lat self_dg heap G2 _ _ Hyy) as (i & Hi & Ei & <-).
      pose proof (lookup_kernel ln lat heap i ND NN Hi) as LK. rewrite Ei, Hlatl in LK. inversion LK. reflexivity. }
    (* the shape of the path and the bound on W0 *)
    assert (Shape : exists c0 steps (c : cfun),
              (forall z, existsb (fun n => node_eq_int n z) lp = existsb (Z.eqb z) (lines c0 steps)) /\
              (forall z, In z (lines c0 steps) -> In z (map ln heap)) /\
              nxlinked self_dg c0 steps /\ node_int lst = last_line c0 steps /\
              acc_fun ws (zfun (c_init ln lcp heap) (map node_int lp)) = acc_fun (srcs c0 steps) c /\
              (forall z, In z (map snd steps) -> c z == 0) /\
              c c0 + steps_sum steps == pl /\ 0 <= c c0 /\
              W0 <= match steps with [] => vl | _ :: _ => pl + vl end).
    { destruct (fix_path_inv _ _ Efix) as (first & rest1 & Hlp0 & Elp).
      destruct first as [c0|c0].
      - (* the path starts at an instruction *)
        subst lp. destruct (plain_steps self_dg G2 rest1 c0 ws F) as (steps & -> & -> & Hnx).
        assert (Elst : node_int lst = last_line c0 steps).
        { unfold py_last in El. inversion El. rewrite (last_map_f Line). reflexivity. }
        assert (Eints : map node_int (Line c0 :: map Line (map snd steps)) = lines c0 steps)
          by (unfold lines; cbn [map node_int]; rewrite map_map; cbn [node_int]; rewrite map_id; reflexivity).
        assert (Hsub : forall z, In z (lines c0 steps) -> In z (map ln heap)).
        { intros z Hz. apply Hsub0. change (Line c0 :: map Line (map snd steps)) with (map Line (lines c0 steps)). apply in_map. exact Hz. }
        assert (Hz0 : forall z, In z (map snd steps) -> (0 <= z)%Z).
        { intros z Hz. assert (Hin : In z (map ln heap)) by (apply Hsub; right; exact Hz). apply in_map_iff in Hin.
          destruct Hin as (j & <- & Hj). apply NN. exact Hj. }
        exists c0, steps, (zfun (c_init ln lcp heap) (map node_int (Line c0 :: map Line (map snd steps)))).
        split; [intros z; apply (existsb_lines (lines c0 steps) z)|]. split; [exact Hsub|]. split; [exact Hnx|]. split; [exact Elst|].
        split; [reflexivity|]. split; [intros z Hz; rewrite Eints, zfun_in by (right; exact Hz); reflexivity|].
        rewrite Eints, zfun_in by (left; reflexivity).
        assert (Es : steps_sum steps == pl) by (rewrite Hpl, srcs_sum; reflexivity).
        split; [lra|]. split; [lra|].
        (* W0 *)
        change (Line c0 :: map Line (map snd steps)) with (map Line (lines c0 steps)) in Hlp0.
        assert (HB : W0 <= steps_sum steps + vl).
        { destruct Hlp0 as [E0|E0]; rewrite E0 in HW0.
          - rewrite (gpath_plain_w steps c0 W0 HW0 Hnx Hz0). lra.
          - destruct (gpath_snoc_inv G _ _ _ HW0 ltac:(discriminate)) as (W1 & y & H1 & H2 & E).
            rewrite (gpath_plain_w steps c0 W1 H1 Hnx Hz0) in E.
            assert (Ely : last (map Line (lines c0 steps)) (Line sink) = Line (node_int lst)).
            { unfold lines. cbn [map]. rewrite (last_default (map Line (map snd steps)) (Line c0) (Line sink) (Line c0)).
              cbn [last]. destruct (map Line (map snd steps)) eqn:Em.
              - destruct steps; [|discriminate]. rewrite Elst. reflexivity.
              - rewrite <- Em, (last_map_f Line), Elst. reflexivity. }
            rewrite Ely in H2. rewrite (Hy y H2) in E. lra. }
        destruct steps; [unfold steps_sum in HB; cbn in HB; lra | lra].
      - (* the path starts at the load stage of its first instruction *)
        subst lp.
        change (py_pairwise (Load c0 :: Line c0 :: rest1)) with ((Load c0, Line c0) :: py_pairwise (Line c0 :: rest1)) in F.
        inversion F as [|sd zw l l' HP F']; subst. destruct HP as (E1 & E2). destruct zw as [z wl]. cbn [fst snd node_int] in E1, E2. subst z.
        destruct (plain_steps self_dg G2 rest1 c0 l' F') as (steps & -> & -> & Hnx).
        assert (Elst : node_int lst = last_line c0 steps).
        { unfold py_last in El. inversion El. cbn [last]. destruct (map Line (map snd steps)) as [|x l0] eqn:Em.
          - destruct steps; [reflexivity | discriminate].
          - rewrite (last_default l0 x (Load c0) (Line c0)), <- Em, (last_map_f Line). reflexivity. }
        assert (Eints : map node_int (Load c0 :: Line c0 :: map Line (map snd steps)) = c0 :: lines c0 steps)
          by (unfold lines; cbn [map node_int]; rewrite map_map; cbn [node_int]; rewrite map_id; reflexivity).
        set (c := zfun (c_init ln lcp heap) (map node_int (Load c0 :: Line c0 :: map Line (map snd steps)))) in *.
        assert (NDl : NoDup (lines c0 steps)) by (apply (increasing_nodup (map ln heap)); apply (nxlinked_increasing ln self_dg heap G3); exact Hnx).
        assert (Hsub : forall z, In z (lines c0 steps) -> In z (map ln heap)).
        { intros z Hz. apply Hsub0. right. change (Line c0 :: map Line (map snd steps)) with (map Line (lines c0 steps)). apply in_map. exact Hz. }
        assert (Hz0 : forall z, In z (map snd steps) -> (0 <= z)%Z).
        { intros z Hz. assert (Hin : In z (map ln heap)) by (apply Hsub; right; exact Hz). apply in_map_iff in Hin.
          destruct Hin as (j & <- & Hj). apply NN. exact Hj. }
        assert (Hwl : 0 <= wl) by (apply (GW _ _ _ (nx_latency_in _ _ _ _ E2))).
        assert (Ec0 : c c0 = 0) by (unfold c; rewrite Eints; apply zfun_in; left; reflexivity).
        exists c0, steps, (cset c c0 (nadd QNum (c c0) wl)).
        split; [intros z; cbn [existsb node_eq_int orb]; apply (existsb_lines (lines c0 steps) z)|]. split; [exact Hsub|].
        split; [exact Hnx|]. split; [exact Elst|]. split; [reflexivity|].
        split.
        { intros z Hz. unfold cset. destruct (Z.eqb_spec z c0) as [->|_]; [inversion NDl; contradiction|].
          unfold c. rewrite Eints, zfun_in by (right; right; exact Hz). reflexivity. }
        assert (Ecc : cset c c0 (nadd QNum (c c0) wl) c0 == wl) by (unfold cset; rewrite Z.eqb_refl, Ec0, cpadd_eq; lra).
        assert (Es : wl + steps_sum steps == pl).
        { rewrite Hpl. cbn [fold_right snd]. rewrite srcs_sum. reflexivity. }
        split; [rewrite Ecc; exact Es|]. split; [rewrite Ecc; exact Hwl|].
        (* W0 *)
        destruct steps as [|[w1 c1] rs].
        + (* only the load node (and possibly the sink behind it, which is not an edge) *)
          cbn [map] in Hlp0. destruct Hlp0 as [E0|E0]; rewrite E0 in HW0.
          * inversion HW0; subst. exact Hvl.
          * cbn [app] in HW0. inversion HW0 as [|u v r0 x W' Hx HW']; subst.
            destruct (S_load ln lat self_dg heap G4 _ _ _ Hx) as (WL & W & _ & _ & Hbad).
            destruct (G2 _ _ _ Hbad) as ((b0 & Eb0 & Hb0) & _). inversion Eb0; subst. unfold sink in Hb0. lia.
        + assert (Hstep : forall W1, gpath G (Load c0 :: map Line (lines c1 rs)) W1 -> W1 == wl + steps_sum ((w1, c1) :: rs)).
          { intros W1 H1. unfold lines at 1 in H1. cbn [map] in H1. inversion H1 as [|u v r0 x W' Hx HW']; subst.
            destruct Hnx as (Hn1 & Hn2). cbn [fst snd] in *.
            destruct (S_load ln lat self_dg heap G4 _ _ _ Hx) as (WL & W & -> & HL & HW).
            rewrite (edge_unique self_dg G1 _ _ _ _ HL (nx_latency_in _ _ _ _ E2)), (edge_unique self_dg G1 _ _ _ _ HW (nx_latency_in _ _ _ _ Hn1)).
            change (Line c1 :: map Line (map snd rs)) with (map Line (lines c1 rs)) in HW'.
            rewrite (gpath_plain_w rs c1 W' HW' Hn2) by (intros z Hz; apply Hz0; right; exact Hz).
            unfold steps_sum. cbn [fold_right fst]. rewrite cpadd_eq. lra. }
          change (Load c0 :: map Line (map snd ((w1, c1) :: rs))) with (Load c0 :: map Line (lines c1 rs)) in Hlp0.
          destruct Hlp0 as [E0|E0]; rewrite E0 in HW0.
          * rewrite (Hstep W0 HW0). lra.
          * destruct (gpath_snoc_inv G _ _ _ HW0 ltac:(discriminate)) as (W1 & y & H1 & H2 & E).
            rewrite (Hstep W1 H1) in E.
            assert (Ely : last (Load c0 :: map Line (lines c1 rs)) (Line sink) = Line (node_int lst)).
            { rewrite last_cons. unfold lines. cbn [map]. rewrite last_cons, (last_map_f Line), Elst, last_line_cons. reflexivity. }
            rewrite Ely in H2. rewrite (Hy y H2) in E. lra. }
    destruct Shape as (c0 & steps & c & Hex & Hsub & Hnx & Elst & Eacc & Hzero & Hc0 & Hc0n & HB).
    assert (Hsn : 0 <= steps_sum steps) by (apply (steps_sum_nonneg steps c0 Hnx)).
    assert (HB' : W0 <= pl + vl) by (destruct steps; [unfold steps_sum in *; cbn in *; lra | exact HB]).
    destruct (py_deref h3 r) as [i2|] eqn:Ed2; [|discriminate]. cbn [pbind] in H.
    assert (Ei2 : lat i2 = vl).
    { unfold py_deref, py_nth in Ed2. rewrite Hr3 in Ed2. inversion Ed2. apply lat_set. }
    destruct (py_deref h3 mx) as [im|] eqn:Edm; [|discriminate]. cbn [pbind] in H.
    destruct (nltb QNum _ (lat im)) eqn:Elt.
    - (* the single instruction with the greatest latency: it exceeds the path *)
      unfold set_cp in H. rewrite Edm in H. cbn [pbind] in H.
      unfold py_deref, py_nth in Edm. destruct (nth_error h3 mx) as [im'|] eqn:Em; [|discriminate]. inversion Edm; subst im'.
      assert (Eset : py_heap_set h3 mx (set_lcp im (lat im)) = POk (upd ln set_lcp h3 (ln im) lat))
        by (rewrite (heap_set_split h3 mx im _ Em), (upd_split ln set_lcp h3 (ln im) lat mx im ND3 Em eq_refl); reflexivity).
      rewrite Eset in H. cbn [pbind] in H. inversion H; subst refs heap'. clear H.
      unfold cells_of. cbn [map]. unfold upd. rewrite (map_nth_error _ _ _ Em). rewrite Z.eqb_refl, lcp_set. cbn [cells_sum fold_right snd].
      cbn [nltb QNum] in Elt. unfold Qltb in Elt. apply negb_true_iff in Elt.
      assert (~ lat im <= nadd QNum pl (lat i2)) by (intros C; apply Qle_bool_iff in C; congruence).
      rewrite Ei2 in *. pose proof (cpadd_eq pl vl). lra.
    - (* the path *)
      rewrite (py_filterM_deref (fun i => existsb (fun n => node_eq_int n (ln i)) lp) h3) in H. cbn [pbind] in H.
      inversion H; subst refs heap'. clear H.
      set (c3 := cset (acc_fun ws (zfun (c_init ln lcp heap) (map node_int lp))) (node_int lst) vl) in *.
      assert (Ecells : cells_of ln lcp (py_filter_idx (fun i => existsb (fun n => node_eq_int n (ln i)) lp) h3) h3 =
                map (fun z => (Z.to_nat z, c3 z)) (lines c0 steps)).
      { unfold cells_of, py_filter_idx.
        rewrite <- (map_map (nth_error h3) (fun o => match o with Some i => (Z.to_nat (ln i), lcp i) | None => (0%nat, 0) end)).
        rewrite (filter_idx_nth _ h3 []). rewrite map_map.
        rewrite <- (filter_increasing (map ln heap) (lines c0 steps) ND Hsub (nxlinked_increasing ln self_dg heap G3 steps c0 Hnx)) at 1.
        rewrite <- L3, filter_map_comm, map_map.
        rewrite (filter_ext _ (fun i => existsb (Z.eqb (ln i)) (lines c0 steps))) by (intros i; apply Hex).
        apply map_ext_in. intros i Hi. apply filter_In in Hi. rewrite (R3 i (proj1 Hi)). reflexivity. }
      rewrite Ecells. unfold c3. rewrite Eacc, Elst.
      rewrite (plain_sum steps c0 c vl (increasing_nodup (map ln heap) _ (nxlinked_increasing ln self_dg heap G3 steps c0 Hnx)) Hzero).
      destruct steps; [exact HB | unfold steps_sum in *; lra].
  Qed.
End Optimal.

(* ------------------------------------------------------------------ THE THEOREM: with a correct dag_longest_path the reported cells add up to cp_opt *)
Section Final.
  Context {I : Type} (ln : I -> Z) (lat lcp : I -> Q) (set_lcp : I -> Q -> I).
  Hypothesis ln_set : forall i v, ln (set_lcp i v) = ln i.
  Hypothesis lat_set : forall i v, lat (set_lcp i v) = lat i.
  Hypothesis lcp_set : forall i v, lcp (set_lcp i v) = v.
  Variable self_dg : nxg Q.
  Notation edges := (nx_edges_data self_dg).
  Hypothesis G1 : NoDup (map ekey edges).
  Hypothesis G2 : forall u v w, In (u, v, w) edges -> (exists b, v = Line b /\ (0 <= b)%Z) /\ (0 <= node_int u)%Z.
  Hypothesis G4 : forall a v w, In (Load a, v, w) edges -> v = Line a.
  Variable heap : list I.
  Hypothesis ND : NoDup (map ln heap).
  Hypothesis NN : forall i, In i heap -> (0 <= ln i)%Z.
  Hypothesis LN : forall i, In i heap -> 0 <= lat i.
  Hypothesis G3 : forall a b w, In (Line a, Line b, w) edges -> (pos (map ln heap) a < pos (map ln heap) b)%nat.
  Hypothesis Hw : nonneg_edges (to_edges self_dg).
  Hypothesis FO : forward_ok (to_edges self_dg) [] (kernel_of ln lat heap).
  Notation G := (sink_graph QNum ln lat self_dg heap).

  Lemma edges_nonneg u v w : In (u, v, w) edges -> 0 <= w.
  Proof.
    intros H. apply (Hw (Z.to_nat (node_int u)) (is_load u) (Z.to_nat (node_int v)) w). unfold to_edges. apply in_map_iff.
    exists (u, v, w). split; [reflexivity | exact H].
  Qed.

  Theorem cp_model_optimal is_dag longest refs heap' :
    longest_ok G (longest G) ->
    cp_model QNum ln lat lcp set_lcp is_dag longest self_dg heap = POk (refs, heap') ->
    cert_value QNum (cells_of ln lcp refs heap') == cp_opt QNum (to_edges self_dg) (kernel_of ln lat heap).
  Proof.
    intros (W0 & HW0 & Hmax) H. rewrite cert_value_sum. apply Qle_antisym.
    - destruct (cp_model_certificate ln lat lcp set_lcp ln_set lat_set lcp_set self_dg G1 G2 heap ND NN G3 is_dag longest refs heap' H) as (Hc & _ & _).
      apply (cert_ok_sum_le (to_edges self_dg) (kernel_of ln lat heap) (lookup (kernel_of ln lat heap)) _ Hw FO); [|exact Hc].
      intros n l. apply lookup_in.
    - apply Qle_trans with W0.
      + destruct (cp_opt_attained (to_edges self_dg) (kernel_of ln lat heap) Hw) as [E0|(c & e & n & l & Hc & El & Hin & Eopt)].
        * rewrite E0. apply (Hmax [Line 0%Z] 0). constructor.
        * destruct (chain_has_gpath ln lat self_dg heap G1 G2 G4 ND NN c e n l Hc El Hin) as (p & W & Hp & EW).
          pose proof (Hmax p W Hp). unfold clen in EW. lra.
      + exact (cp_model_sum_ge ln lat lcp set_lcp ln_set lat_set lcp_set self_dg G1 G2 G4 edges_nonneg heap ND NN LN G3 is_dag longest refs heap' W0 H HW0).
  Qed.
End Final.
