(* Lemmas about Model/Parallel.v: the comparisons are total orders, sorting is invariant under
   permutation, de-duplication yields a duplicate-free list whose element set only depends on
   the element set of the input, hence post is permutation invariant; partial results. *)
From Coq Require Import ZArith List Bool Permutation Lia.
From OV Require Import Model.Parallel.
Import ListNotations.
Open Scope Z_scope.

(* ------------------------------------------------------------------ total comparisons *)
Record TotalCmp {A} (c : A -> A -> comparison) : Prop := {
  tc_eq : forall a b, c a b = Eq <-> a = b;
  tc_opp : forall a b, c b a = CompOpp (c a b);
  tc_trans : forall a b d, c a b = Lt -> c b d = Lt -> c a d = Lt }.

Lemma tc_Z : TotalCmp Z.compare.
Proof.
  split.
  - apply Z.compare_eq_iff.
  - intros. apply Z.compare_antisym.
  - intros a b d. rewrite !Z.compare_lt_iff. lia.
Qed.

Lemma tc_refl {A} (c : A -> A -> comparison) (T : TotalCmp c) a : c a a = Eq.
Proof. apply (tc_eq c T). reflexivity. Qed.

Lemma tc_pair {A B} (ca : A -> A -> comparison) (cb : B -> B -> comparison) :
  TotalCmp ca -> TotalCmp cb -> TotalCmp (cmp_pair ca cb).
Proof.
  intros Ta Tb. split.
  - intros [a1 b1] [a2 b2]. unfold cmp_pair, lexc. simpl. split.
    + destruct (ca a1 a2) eqn:E; try discriminate. intros H.
      apply (tc_eq ca Ta) in E. apply (tc_eq cb Tb) in H. congruence.
    + intros H. inversion H. subst. rewrite (tc_refl ca Ta). apply (tc_refl cb Tb).
  - intros [a1 b1] [a2 b2]. unfold cmp_pair, lexc. simpl.
    rewrite (tc_opp ca Ta a1 a2). destruct (ca a1 a2); simpl; auto. apply (tc_opp cb Tb).
  - intros [a1 b1] [a2 b2] [a3 b3]. unfold cmp_pair, lexc. simpl.
    destruct (ca a1 a2) eqn:E1; try discriminate; destruct (ca a2 a3) eqn:E2; try discriminate; intros H1 H2.
    + apply (tc_eq ca Ta) in E1, E2. subst. rewrite (tc_refl ca Ta). eapply (tc_trans cb Tb); eauto.
    + apply (tc_eq ca Ta) in E1. subst. rewrite E2. reflexivity.
    + apply (tc_eq ca Ta) in E2. subst. rewrite E1. reflexivity.
    + rewrite (tc_trans ca Ta _ _ _ E1 E2). reflexivity.
Qed.

Lemma tc_list {A} (c : A -> A -> comparison) : TotalCmp c -> TotalCmp (cmp_list c).
Proof.
  intros T. split.
  - induction a as [|x a IH]; destruct b as [|y b]; simpl; split; try discriminate; auto.
    + unfold lexc. destruct (c x y) eqn:E; try discriminate. intros H.
      apply (tc_eq c T) in E. apply IH in H. congruence.
    + intros H. inversion H. subst. rewrite (tc_refl c T). simpl. apply IH. reflexivity.
  - induction a as [|x a IH]; destruct b as [|y b]; simpl; auto.
    unfold lexc. rewrite (tc_opp c T x y). destruct (c x y); simpl; auto.
  - induction a as [|x a IH]; destruct b as [|y b]; destruct d as [|z d]; simpl; try discriminate; auto.
    unfold lexc.
    destruct (c x y) eqn:E1; try discriminate; destruct (c y z) eqn:E2; try discriminate; intros H1 H2.
    + apply (tc_eq c T) in E1, E2. subst. rewrite (tc_refl c T). eapply IH; eauto.
    + apply (tc_eq c T) in E1. subst. rewrite E2. reflexivity.
    + apply (tc_eq c T) in E2. subst. rewrite E1. reflexivity.
    + rewrite (tc_trans c T _ _ _ E1 E2). reflexivity.
Qed.

Lemma tc_edge : TotalCmp cmp_edge.
Proof. apply tc_pair; apply tc_Z. Qed.
Lemma tc_lp : TotalCmp cmp_lp.
Proof. apply tc_list, tc_edge. Qed.
Lemma tc_item : TotalCmp cmp_item.
Proof. apply tc_pair; [apply tc_Z | apply tc_lp]. Qed.
Lemma tc_key : TotalCmp (cmp_list Z.compare).
Proof. apply tc_list, tc_Z. Qed.

Lemma eqb_of_true {A} (c : A -> A -> comparison) (T : TotalCmp c) a b : eqb_of c a b = true <-> a = b.
Proof.
  unfold eqb_of. rewrite <- (tc_eq c T). destruct (c a b); split; congruence.
Qed.

(* a boolean "may stand before" relation good enough for canonical sorting *)
Record GoodLe {A} (le : A -> A -> bool) : Prop := {
  gl_total : forall a b, le a b = false -> le b a = true;
  gl_antisym : forall a b, le a b = true -> le b a = true -> a = b;
  gl_trans : forall a b d, le a b = true -> le b d = true -> le a d = true }.

Lemma tc_gt_trans {A} (c : A -> A -> comparison) (T : TotalCmp c) a b d :
  c a b = Gt -> c b d = Gt -> c a d = Gt.
Proof.
  intros H1 H2.
  assert (c b a = Lt) by (rewrite (tc_opp c T), H1; reflexivity).
  assert (c d b = Lt) by (rewrite (tc_opp c T), H2; reflexivity).
  rewrite (tc_opp c T). rewrite (tc_trans c T d b a); auto.
Qed.

Lemma good_leb {A} (c : A -> A -> comparison) : TotalCmp c -> GoodLe (leb_of c).
Proof.
  intros T. unfold leb_of. split.
  - intros a b. rewrite (tc_opp c T a b). destruct (c a b); simpl; congruence.
  - intros a b. rewrite (tc_opp c T a b). destruct (c a b) eqn:E; simpl; try congruence.
    intros. apply (tc_eq c T). assumption.
  - intros a b d. destruct (c a b) eqn:E1; try discriminate; destruct (c b d) eqn:E2; try discriminate; intros _ _.
    + apply (tc_eq c T) in E1, E2. subst. rewrite (tc_refl c T). reflexivity.
    + apply (tc_eq c T) in E1. subst. rewrite E2. reflexivity.
    + apply (tc_eq c T) in E2. subst. rewrite E1. reflexivity.
    + rewrite (tc_trans c T _ _ _ E1 E2). reflexivity.
Qed.

Lemma good_geb {A} (c : A -> A -> comparison) : TotalCmp c -> GoodLe (geb_of c).
Proof.
  intros T. unfold geb_of. split.
  - intros a b. rewrite (tc_opp c T a b). destruct (c a b); simpl; congruence.
  - intros a b. rewrite (tc_opp c T a b). destruct (c a b) eqn:E; simpl; try congruence.
    intros. apply (tc_eq c T). assumption.
  - intros a b d. destruct (c a b) eqn:E1; try discriminate; destruct (c b d) eqn:E2; try discriminate; intros _ _.
    + apply (tc_eq c T) in E1, E2. subst. rewrite (tc_refl c T). reflexivity.
    + apply (tc_eq c T) in E1. subst. rewrite E2. reflexivity.
    + apply (tc_eq c T) in E2. subst. rewrite E1. reflexivity.
    + rewrite (tc_gt_trans c T _ _ _ E1 E2). reflexivity.
Qed.

(* ------------------------------------------------------------------ sorting *)
Section SortFacts.
  Context {A : Type} (le : A -> A -> bool) (G : GoodLe le).

  Lemma insert_perm a l : Permutation (insert le a l) (a :: l).
  Proof.
    induction l as [|x r IH]; simpl; auto.
    destruct (le a x); auto.
    eapply perm_trans; [apply perm_skip, IH | apply perm_swap].
  Qed.

  Lemma isort_perm l : Permutation (isort le l) l.
  Proof.
    induction l as [|a r IH]; simpl; auto.
    eapply perm_trans; [apply insert_perm | apply perm_skip, IH].
  Qed.

  Lemma insert_comm a b l : insert le a (insert le b l) = insert le b (insert le a l).
  Proof.
    induction l as [|x r IH]; simpl.
    - destruct (le a b) eqn:Eab; destruct (le b a) eqn:Eba; auto.
      + rewrite (gl_antisym le G a b Eab Eba). reflexivity.
      + apply (gl_total le G) in Eab. congruence.
    - destruct (le a x) eqn:Eax; destruct (le b x) eqn:Ebx; simpl.
      + destruct (le a b) eqn:Eab; destruct (le b a) eqn:Eba; simpl; rewrite ?Eax, ?Ebx; auto.
        * rewrite (gl_antisym le G a b Eab Eba). reflexivity.
        * apply (gl_total le G) in Eab. congruence.
      + rewrite Eax.
        destruct (le b a) eqn:Eba.
        * rewrite (gl_trans le G b a x Eba Eax) in Ebx. discriminate.
        * simpl. rewrite Ebx. reflexivity.
      + rewrite Ebx.
        destruct (le a b) eqn:Eab.
        * rewrite (gl_trans le G a b x Eab Ebx) in Eax. discriminate.
        * simpl. rewrite Eax. reflexivity.
      + rewrite Eax, Ebx. rewrite IH. reflexivity.
  Qed.

  Lemma isort_perm_eq l l' : Permutation l l' -> isort le l = isort le l'.
  Proof.
    induction 1; simpl; auto.
    - rewrite IHPermutation. reflexivity.
    - apply insert_comm.
    - congruence.
  Qed.
End SortFacts.

(* ------------------------------------------------------------------ per-path facts *)
Definition sumZ (l : list Z) : Z := fold_right Z.add 0 l.
Definition canon (lp : list edge) : item := (sumZ (map snd lp), lp).

Lemma fold_left_sum l acc : fold_left (fun a (e : edge) => a + snd e) l acc = acc + sumZ (map snd l).
Proof.
  revert acc. induction l as [|e r IH]; simpl; intros; [lia|]. rewrite IH. lia.
Qed.

Lemma sumZ_perm l l' : Permutation l l' -> sumZ l = sumZ l'.
Proof. induction 1; simpl; lia. Qed.

(* the latency sum is computed from the sorted latency path (kernel_dg.py sums `lat_path` after `lat_path.sort()`): it is a
   function of the sorted latency path by construction, which makes "which duplicate is kept" irrelevant *)
Lemma lat_sum_canon lp : (lat_sum lp, lp) = canon lp.
Proof. unfold canon, lat_sum. f_equal. rewrite fold_left_sum. reflexivity. Qed.

(* over Z (exact arithmetic) the sum in path order -- what the code computed before it summed the sorted list -- is the same number *)
Lemma lat_sum_path_order off p : lat_sum p = lat_sum (lat_path off p).
Proof.
  unfold lat_sum, lat_path. rewrite !fold_left_sum. f_equal.
  transitivity (sumZ (map snd (map (mapback off) p))).
  - rewrite map_map. simpl. reflexivity.
  - apply sumZ_perm, Permutation_map, Permutation_sym, isort_perm.
Qed.

Lemma lat_path_nil off p : lat_path off p = [] <-> p = [].
Proof.
  unfold lat_path. split; intros H.
  - destruct p; auto. exfalso.
    assert (P := isort_perm (leb_of cmp_edge) (map (mapback off) (e :: p))).
    rewrite H in P. apply Permutation_nil in P. discriminate.
  - subst. reflexivity.
Qed.

Lemma mem_lp_In lp seen : mem_lp lp seen = true <-> In lp seen.
Proof.
  unfold mem_lp. rewrite existsb_exists. split.
  - intros (x & Hx & E). apply (eqb_of_true cmp_lp tc_lp) in E. subst. assumption.
  - intros H. exists lp. split; auto. apply (eqb_of_true cmp_lp tc_lp). reflexivity.
Qed.

(* ------------------------------------------------------------------ de-duplication *)
Lemma lp_eq_dec (a b : list edge) : {a = b} + {a <> b}.
Proof. repeat decide equality. Qed.

Lemma dedup_In off l : forall seen it,
  In it (dedup off seen l) <->
  exists p, In p l /\ it = canon (lat_path off p) /\ ~ In (lat_path off p) seen.
Proof.
  induction l as [|q r IH]; intros seen it; simpl.
  - split; [tauto | intros (p & [] & _)].
  - destruct (mem_lp (lat_path off q) seen) eqn:M.
    + apply mem_lp_In in M. rewrite IH. split.
      * intros (p & Hp & E & N). exists p. auto.
      * intros (p & [Hp|Hp] & E & N).
        -- subst. contradiction.
        -- exists p. auto.
    + assert (N0 : ~ In (lat_path off q) seen) by (rewrite <- mem_lp_In; congruence).
      simpl. rewrite IH. rewrite lat_sum_canon. split.
      * intros [E | (p & Hp & E & N)].
        -- exists q. auto.
        -- exists p. split; auto. split; auto. intros C. apply N. right. assumption.
      * intros (p & [Hp|Hp] & E & N).
        -- subst. left. reflexivity.
        -- destruct (lp_eq_dec (lat_path off q) (lat_path off p)) as [Eq|Ne].
           ++ left. rewrite Eq. symmetry. assumption.
           ++ right. exists p. split; auto. split; auto. intros [C|C]; auto.
  Qed.

Lemma dedup_NoDup off l : forall seen, NoDup (map snd (dedup off seen l)).
Proof.
  induction l as [|q r IH]; intros seen; simpl; [constructor|].
  destruct (mem_lp (lat_path off q) seen); auto.
  simpl. constructor; auto.
  intros C. apply in_map_iff in C. destruct C as (it & E & Hit).
  apply dedup_In in Hit. destruct Hit as (p & _ & Eit & N). subst it. simpl in E.
  apply N. left. symmetry. assumption.
Qed.

Lemma NoDup_of_map {A B} (f : A -> B) l : NoDup (map f l) -> NoDup l.
Proof.
  induction l; simpl; intros H; constructor; inversion H; subst; auto.
  intros C. apply H2. apply in_map. assumption.
Qed.

Lemma dedup_perm off l l' : Permutation l l' -> Permutation (dedup off [] l) (dedup off [] l').
Proof.
  intros P. apply NoDup_Permutation.
  - eapply NoDup_of_map, dedup_NoDup.
  - eapply NoDup_of_map, dedup_NoDup.
  - intros it. rewrite !dedup_In. split; intros (p & Hp & R); exists p; split; auto.
    + eapply Permutation_in; eauto.
    + eapply Permutation_in; [apply Permutation_sym|]; eauto.
Qed.

Lemma existsb_perm {A} (f : A -> bool) l l' : Permutation l l' -> existsb f l = existsb f l'.
Proof.
  intros P. destruct (existsb f l) eqn:E1; destruct (existsb f l') eqn:E2; auto.
  - apply existsb_exists in E1. destruct E1 as (x & Hx & Fx).
    assert (existsb f l' = true) by (apply existsb_exists; exists x; split; auto; eapply Permutation_in; eauto).
    congruence.
  - apply existsb_exists in E2. destruct E2 as (x & Hx & Fx).
    assert (existsb f l = true) by (apply existsb_exists; exists x; split; auto;
      eapply Permutation_in; [apply Permutation_sym|]; eauto).
    congruence.
Qed.

Lemma post_perm off l l' : Permutation l l' -> post off l = post off l'.
Proof.
  intros P. unfold post. rewrite (existsb_perm is_nil l l' P).
  destruct (existsb is_nil l'); [reflexivity|].
  unfold sort_desc.
  rewrite (isort_perm_eq _ (good_geb cmp_item tc_item) _ _ (dedup_perm off l l' P)). reflexivity.
Qed.

(* ------------------------------------------------------------------ schedules *)
Lemma concat_all_nil {A} (ls : list (list A)) : Forall (fun l => l = []) ls -> concat ls = [].
Proof. induction 1; simpl; subst; auto. Qed.

Lemma interleave_perm {A} (ls : list (list A)) l : Interleave ls l -> Permutation l (concat ls).
Proof.
  induction 1.
  - rewrite concat_all_nil; auto.
  - rewrite concat_app in *. simpl in *. apply Permutation_cons_app. assumption.
Qed.

Lemma concat_perm {A} (a b : list (list A)) : Permutation a b -> Permutation (concat a) (concat b).
Proof.
  induction 1; simpl; auto.
  - apply Permutation_app_head. assumption.
  - rewrite !app_assoc. apply Permutation_app_tail, Permutation_app_comm.
  - eapply perm_trans; eauto.
Qed.

(* every schedule of workers whose chunks cover the kernel gives the sequential answer *)
Lemma parallel_eq_sequential_gen off paths_from (part : list (Z * Z)) (k : list Z) bl :
  concat (map (pyslice k) part) = k ->
  Interleave (worker_blocks paths_from part k) bl ->
  lcd_parallel off bl = lcd_sequential off paths_from k.
Proof.
  intros Cov I. unfold lcd_parallel, lcd_sequential. apply post_perm.
  apply interleave_perm in I. apply concat_perm in I.
  eapply perm_trans; [exact I|].
  unfold worker_blocks. rewrite flat_map_concat_map.
  pattern k at 2. rewrite <- Cov. rewrite concat_map. rewrite !map_map. apply Permutation_refl.
Qed.

(* ------------------------------------------------------------------ dictionary *)
Lemma key_eqb_true a b : key_eqb a b = true <-> a = b.
Proof. apply (eqb_of_true _ tc_key). Qed.

Lemma dict_set_fresh d k v : ~ In k (map fst d) -> dict_set d k v = d ++ [(k, v)].
Proof.
  induction d as [|[k' v'] r IH]; simpl; intros N; auto.
  destruct (key_eqb k k') eqn:E.
  - apply key_eqb_true in E. subst. exfalso. apply N. left. reflexivity.
  - rewrite IH; auto.
Qed.

Definition entry_of (it : item) : entry := (key_of it, value_of it).

Lemma build_nocollide_gen items : forall d,
  NoDup (map fst d ++ map key_of items) ->
  fold_left (fun d it => dict_set d (key_of it) (value_of it)) items d = d ++ map entry_of items.
Proof.
  induction items as [|it r IH]; intros d N; simpl.
  - rewrite app_nil_r. reflexivity.
  - rewrite dict_set_fresh.
    + rewrite IH.
      * rewrite <- app_assoc. reflexivity.
      * rewrite map_app. simpl. rewrite <- app_assoc. simpl.
        simpl in N. assumption.
    + simpl in N. apply NoDup_remove_2 in N. intros C. apply N. apply in_or_app. left. assumption.
Qed.

Lemma build_nocollide items : NoDup (map key_of items) -> build items = map entry_of items.
Proof. intros N. unfold build. rewrite build_nocollide_gen; auto. Qed.

(* whatever collides: every entry of the dictionary is the entry of one of the items *)
Lemma dict_set_In d k v e : In e (dict_set d k v) -> e = (k, v) \/ In e d.
Proof.
  induction d as [|[k' v'] r IH]; simpl.
  - intros [H|[]]; auto.
  - destruct (key_eqb k k') eqn:E; simpl.
    + apply key_eqb_true in E. subst. intros [H|H]; auto.
    + intros [H|H]; auto. apply IH in H. tauto.
Qed.

Lemma build_In_gen items : forall d e,
  In e (fold_left (fun d it => dict_set d (key_of it) (value_of it)) items d) ->
  In e d \/ exists it, In it items /\ e = entry_of it.
Proof.
  induction items as [|it r IH]; simpl; intros d e H; auto.
  apply IH in H. destruct H as [H | (it' & Hi & E)].
  - apply dict_set_In in H. destruct H as [H|H]; auto. right. exists it. auto.
  - right. exists it'. auto.
Qed.

Lemma build_In items e : In e (build items) -> exists it, In it items /\ e = entry_of it.
Proof. intros H. apply build_In_gen in H. destruct H as [[]|H]; auto. Qed.

(* ------------------------------------------------------------------ partial results *)
(* no two different latency paths share their line list *)
Definition key_inj (off : Z) (all : list path) : Prop :=
  forall p q, In p all -> In q all ->
    map fst (lat_path off p) = map fst (lat_path off q) -> lat_path off p = lat_path off q.

Lemma dedup_keys_NoDup off all : key_inj off all -> NoDup (map key_of (dedup off [] all)).
Proof.
  intros KI.
  assert (G : forall l, NoDup (map snd l) ->
              (forall a b, In a l -> In b l -> key_of a = key_of b -> snd a = snd b) ->
              NoDup (map key_of l)).
  { induction l as [|a r IH]; simpl; intros N Hk; constructor.
    - inversion N; subst. intros C. apply in_map_iff in C. destruct C as (b & E & Hb).
      apply H1. apply in_map_iff. exists b. split; [|assumption]. symmetry. apply Hk; simpl; auto.
    - inversion N; subst. apply IH; auto. }
  apply G; [apply dedup_NoDup|].
  intros a b Ha Hb E. apply dedup_In in Ha, Hb.
  destruct Ha as (p & Hp & Ea & _), Hb as (q & Hq & Eb & _). subst. unfold key_of, canon in *. simpl in *.
  apply KI; auto.
Qed.

Lemma post_entries_nocollide off all :
  key_inj off all -> existsb is_nil all = false ->
  post off all = Some (map entry_of (sort_desc (dedup off [] all))).
Proof.
  intros KI E. unfold post. rewrite E. f_equal. apply build_nocollide.
  eapply Permutation_NoDup.
  - apply Permutation_map, Permutation_sym. unfold sort_desc. apply isort_perm.
  - apply dedup_keys_NoDup. assumption.
Qed.

Lemma incl_no_nil (ps all : list path) : incl ps all -> existsb is_nil all = false -> existsb is_nil ps = false.
Proof.
  intros I E. destruct (existsb is_nil ps) eqn:E2; auto.
  apply existsb_exists in E2. destruct E2 as (x & Hx & Fx).
  assert (existsb is_nil all = true) by (apply existsb_exists; exists x; auto). congruence.
Qed.

Lemma key_inj_incl off ps all : incl ps all -> key_inj off all -> key_inj off ps.
Proof. intros I K p q Hp Hq. apply K; auto. Qed.

Lemma partial_sound_lemma off ps all D :
  incl ps all -> key_inj off all -> post off all = Some D ->
  exists d, post off ps = Some d /\ forall e, In e d -> In e D.
Proof.
  intros I KI HD.
  assert (En : existsb is_nil all = false).
  { unfold post in HD. destruct (existsb is_nil all); congruence. }
  rewrite (post_entries_nocollide off all KI En) in HD. inversion HD; subst D. clear HD.
  rewrite (post_entries_nocollide off ps (key_inj_incl off ps all I KI) (incl_no_nil ps all I En)).
  eexists. split; [reflexivity|].
  intros e He. apply in_map_iff in He. destruct He as (it & E & Hit). subst e.
  apply in_map. unfold sort_desc in *.
  eapply Permutation_in in Hit; [|apply isort_perm].
  eapply Permutation_in; [apply Permutation_sym, isort_perm|].
  apply dedup_In in Hit. destruct Hit as (p & Hp & E & _).
  apply dedup_In. exists p. split; auto.
Qed.

(* without any hypothesis: every reported entry is the entry of a path that was delivered *)
Lemma partial_genuine_lemma off ps d e :
  post off ps = Some d -> In e d ->
  exists p, In p ps /\ p <> [] /\ e = entry_of (lat_sum (lat_path off p), lat_path off p).
Proof.
  unfold post. destruct (existsb is_nil ps) eqn:En; [discriminate|]. intros H He. inversion H; subst d.
  apply build_In in He. destruct He as (it & Hit & E).
  unfold sort_desc in Hit. eapply Permutation_in in Hit; [|apply isort_perm].
  apply dedup_In in Hit. destruct Hit as (p & Hp & Eit & _).
  exists p. split; auto. split.
  - intros C. subst p. assert (existsb is_nil ps = true) by (apply existsb_exists; exists []; auto). congruence.
  - rewrite lat_sum_canon. congruence.
Qed.

(* ------------------------------------------------------------------ slices that tile a list *)
Lemma firstn_split {A} (a : nat) : forall (b : nat) (k : list A),
  (a <= b)%nat -> firstn a k ++ firstn (b - a) (skipn a k) = firstn b k.
Proof.
  induction a as [|a IH]; intros b k H; simpl.
  - rewrite Nat.sub_0_r. reflexivity.
  - destruct k as [|x k]; simpl.
    + rewrite !firstn_nil. reflexivity.
    + destruct b as [|b]; [lia|]. simpl. f_equal. apply IH. lia.
Qed.

Lemma pyslice_nonneg {A} (k : list A) (s e : Z) :
  0 <= s -> 0 <= e ->
  pyslice k (s, e) =
  firstn (Nat.min (Z.to_nat e) (length k) - Nat.min (Z.to_nat s) (length k))
         (skipn (Nat.min (Z.to_nat s) (length k)) k).
Proof.
  intros Hs He. unfold pyslice, clamp. simpl.
  destruct (s <? 0) eqn:E1; [apply Z.ltb_lt in E1; lia|].
  destruct (e <? 0) eqn:E2; [apply Z.ltb_lt in E2; lia|].
  f_equal; [|f_equal]; lia.
Qed.

(* W chunks of width w (the last ones cut at the end of the list) tile the list when W*w >= length *)
Lemma chunks_cover {A} (k : list A) (w W : nat) :
  (length k <= W * w)%nat ->
  concat (map (fun t => pyslice k (Z.of_nat (t * w), Z.min (Z.of_nat ((t + 1) * w)) (Z.of_nat (length k))))
              (seq 0 W)) = k.
Proof.
  intros H.
  assert (G : forall V, concat (map (fun t => pyslice k (Z.of_nat (t * w), Z.min (Z.of_nat ((t + 1) * w)) (Z.of_nat (length k))))
              (seq 0 V)) = firstn (Nat.min (V * w) (length k)) k).
  { induction V as [|V IH].
    - simpl. reflexivity.
    - rewrite seq_S, map_app, concat_app, IH. simpl. rewrite app_nil_r.
      rewrite pyslice_nonneg by lia.
      replace (Nat.min (Z.to_nat (Z.of_nat (V * w))) (length k)) with (Nat.min (V * w) (length k)) by lia.
      replace (Nat.min (Z.to_nat (Z.min (Z.of_nat ((V + 1) * w)) (Z.of_nat (length k)))) (length k))
        with (Nat.min (w + V * w) (length k)) by lia.
      apply firstn_split. lia. }
  rewrite G. rewrite Nat.min_r by lia. apply firstn_all.
Qed.

(* Python clamps the upper bound of a slice: an explicit min(e, len) changes nothing *)
Lemma pyslice_clamp_end {A} (k : list A) (s e : Z) :
  0 <= e -> pyslice k (s, e) = pyslice k (s, Z.min e (Z.of_nat (length k))).
Proof.
  intros He. unfold pyslice, clamp. simpl.
  destruct (e <? 0) eqn:E1; [apply Z.ltb_lt in E1; lia|].
  destruct (Z.min e (Z.of_nat (length k)) <? 0) eqn:E2; [apply Z.ltb_lt in E2; lia|].
  replace (Z.min (Z.min e (Z.of_nat (length k))) (Z.of_nat (length k))) with (Z.min e (Z.of_nat (length k))) by lia.
  reflexivity.
Qed.
