(* Facts about the translator prelude Model/PyLcd.v (loops, comprehensions, the heap of self.kernel, sort, dict). *)
From Coq Require Import ZArith List Bool String Lia Permutation.
From OV Require Import Model.Num Model.PyLcd.
Import ListNotations.
Local Open Scope list_scope.

Lemma pbind_ok_id {A} (r : pres A) : pbind r (fun x => POk x) = r.
Proof. destruct r; reflexivity. Qed.

Lemma pbind_assoc {A B C} (r : pres A) (f : A -> pres B) (g : B -> pres C) :
  pbind (pbind r f) g = pbind r (fun x => pbind (f x) g).
Proof. destruct r; reflexivity. Qed.

Lemma pbind_ext {A B} (r r' : pres A) (f g : A -> pres B) : r = r' -> (forall x, f x = g x) -> pbind r f = pbind r' g.
Proof. intros -> H. destruct r'; [apply H | reflexivity]. Qed.

(* ------------------------------------------------------------------ loops *)
Lemma py_for_ext {A S} (f g : A -> S -> pres S) : (forall x s, f x s = g x s) -> forall l s, py_for l s f = py_for l s g.
Proof.
  intros H. induction l as [|x l IH]; intros s; [reflexivity|]. cbn [py_for]. rewrite H.
  destruct (g x s); [cbn [pbind]; apply IH | reflexivity].
Qed.

Lemma py_for_ext_in {A S} (f g : A -> S -> pres S) : forall l s, (forall x s, In x l -> f x s = g x s) -> py_for l s f = py_for l s g.
Proof.
  induction l as [|x l IH]; intros s H; [reflexivity|]. cbn [py_for]. rewrite H by (left; reflexivity).
  destruct (g x s); [cbn [pbind]; apply IH; intros; apply H; right; assumption | reflexivity].
Qed.

Lemma py_for_app {A S} (f : A -> S -> pres S) : forall l1 l2 s, py_for (l1 ++ l2) s f = pbind (py_for l1 s f) (fun s' => py_for l2 s' f).
Proof.
  induction l1 as [|x l1 IH]; intros l2 s; [reflexivity|]. cbn [app py_for]. destruct (f x s); [cbn [pbind]; apply IH | reflexivity].
Qed.

(* a loop whose body never raises is a fold *)
Lemma py_for_fold {A S} (F : A -> S -> pres S) (g : S -> A -> S) :
  (forall x s, F x s = POk (g s x)) -> forall l s, py_for l s F = POk (fold_left g l s).
Proof.
  intros H. induction l as [|x l IH]; intros s; [reflexivity|]. cbn [py_for fold_left]. rewrite H. cbn [pbind]. apply IH.
Qed.

(* acc.append(f x) for x in l *)
Lemma py_for_append {A B} (F : A -> list B -> pres (list B)) (f : A -> B) :
  (forall x acc, F x acc = POk (acc ++ [f x])) -> forall l acc, py_for l acc F = POk (acc ++ map f l).
Proof.
  intros H. induction l as [|x l IH]; intros acc; [cbn; rewrite app_nil_r; reflexivity|].
  cbn [py_for map]. rewrite H. cbn [pbind]. rewrite IH, <- app_assoc. reflexivity.
Qed.

(* acc.extend(f x) for x in l *)
Lemma py_for_extend {A B} (F : A -> list B -> pres (list B)) (f : A -> list B) :
  (forall x acc, F x acc = POk (acc ++ f x)) -> forall l acc, py_for l acc F = POk (acc ++ flat_map f l).
Proof.
  intros H. induction l as [|x l IH]; intros acc; [cbn; rewrite app_nil_r; reflexivity|].
  cbn [py_for flat_map]. rewrite H. cbn [pbind]. rewrite IH, <- app_assoc. reflexivity.
Qed.

(* ------------------------------------------------------------------ comprehensions *)
Lemma py_mapM_ext {A B} (f g : A -> pres B) : (forall x, f x = g x) -> forall l, py_mapM f l = py_mapM g l.
Proof. intros H. induction l as [|x l IH]; [reflexivity|]. cbn [py_mapM]. rewrite H, IH. reflexivity. Qed.

Lemma py_mapM_ext_in {A B} (f g : A -> pres B) : forall l, (forall x, In x l -> f x = g x) -> py_mapM f l = py_mapM g l.
Proof.
  induction l as [|x l IH]; intros H; [reflexivity|]. cbn [py_mapM]. rewrite H by (left; reflexivity).
  rewrite IH by (intros; apply H; right; assumption). reflexivity.
Qed.

Lemma py_mapM_pure {A B} (f : A -> B) : forall l, py_mapM (fun x => POk (f x)) l = POk (map f l).
Proof. induction l as [|x l IH]; [reflexivity|]. cbn [py_mapM pbind map]. rewrite IH. reflexivity. Qed.

Lemma py_mapM_ok {A B} (f : A -> pres B) : forall l r, py_mapM f l = POk r -> Forall2 (fun x y => f x = POk y) l r.
Proof.
  induction l as [|x l IH]; intros r H; [inversion H; constructor|]. cbn [py_mapM] in H.
  destruct (f x) as [y|] eqn:E; [|discriminate]. cbn [pbind] in H. destruct (py_mapM f l) as [ys|] eqn:E2; [|discriminate].
  cbn [pbind] in H. inversion H; subst. constructor; [exact E | apply IH; reflexivity].
Qed.

Lemma py_filterM_ext {A} (f g : A -> pres bool) : (forall x, f x = g x) -> forall l, py_filterM f l = py_filterM g l.
Proof. intros H. induction l as [|x l IH]; [reflexivity|]. cbn [py_filterM]. rewrite H, IH. reflexivity. Qed.

Lemma py_filterM_pure {A} (f : A -> bool) : forall l, py_filterM (fun x => POk (f x)) l = POk (filter f l).
Proof. induction l as [|x l IH]; [reflexivity|]. cbn [py_filterM pbind filter]. rewrite IH. cbn [pbind]. reflexivity. Qed.

(* ------------------------------------------------------------------ the heap *)
Lemma py_deref_app {A} (pre : list A) x post : py_deref (pre ++ x :: post) (List.length pre) = POk x.
Proof. unfold py_deref, py_nth. rewrite nth_error_app2 by lia. rewrite Nat.sub_diag. reflexivity. Qed.

Lemma py_deref_lt {A} (h : list A) r : r < List.length h -> exists x, py_deref h r = POk x /\ nth_error h r = Some x.
Proof.
  intros H. unfold py_deref, py_nth. destruct (nth_error h r) as [x|] eqn:E; [exists x; split; reflexivity|].
  apply nth_error_None in E. lia.
Qed.

(* [f(x) for x in self.kernel] and [x for x in self.kernel if p(x)] read the current objects *)
Lemma py_mapM_deref_gen {A B} (f : A -> B) : forall (h pre : list A),
  py_mapM (fun r => t <- py_deref (pre ++ h) r ;; POk (f t)) (seq (List.length pre) (List.length h)) = POk (map f h).
Proof.
  induction h as [|x h IH]; intros pre; [reflexivity|]. cbn [List.length seq py_mapM map].
  rewrite py_deref_app. cbn [pbind]. specialize (IH (pre ++ [x])). rewrite <- app_assoc, app_length in IH. cbn [app List.length] in IH.
  rewrite Nat.add_1_r in IH. rewrite IH. reflexivity.
Qed.
Lemma py_mapM_deref {A B} (f : A -> B) (h : list A) :
  py_mapM (fun r => t <- py_deref h r ;; POk (f t)) (py_refs h) = POk (map f h).
Proof. exact (py_mapM_deref_gen f h []). Qed.

Lemma py_filterM_deref_gen {A} (p : A -> bool) : forall (h pre : list A),
  py_filterM (fun r => t <- py_deref (pre ++ h) r ;; POk (p t)) (seq (List.length pre) (List.length h))
  = POk (py_filter_idx_from p h (List.length pre)).
Proof.
  induction h as [|x h IH]; intros pre; [reflexivity|]. cbn [List.length seq py_filterM py_filter_idx_from].
  rewrite py_deref_app. cbn [pbind]. specialize (IH (pre ++ [x])). rewrite <- app_assoc, app_length in IH. cbn [app List.length] in IH.
  rewrite Nat.add_1_r in IH. rewrite IH. cbn [pbind]. destruct (p x); reflexivity.
Qed.
Lemma py_filterM_deref {A} (p : A -> bool) (h : list A) :
  py_filterM (fun r => t <- py_deref h r ;; POk (p t)) (py_refs h) = POk (py_filter_idx p h).
Proof. exact (py_filterM_deref_gen p h []). Qed.

(* positions of the items satisfying p: increasing, exactly those *)
Lemma py_filter_idx_from_spec {A} (p : A -> bool) : forall (h : list A) k i,
  In i (py_filter_idx_from p h k) <-> exists x, k <= i /\ nth_error h (i - k) = Some x /\ p x = true.
Proof.
  induction h as [|y h IH]; intros k i; cbn [py_filter_idx_from].
  - split; [intros [] | intros (x & _ & E & _); destruct (i - k); discriminate].
  - assert (Hr : In i (py_filter_idx_from p h (S k)) <-> exists x, S k <= i /\ nth_error h (i - S k) = Some x /\ p x = true) by apply IH.
    destruct (p y) eqn:Py.
    + cbn [In]. rewrite Hr. split.
      * intros [<-|(x & L & E & Px)].
        -- exists y. rewrite Nat.sub_diag. repeat split; [lia | exact Py].
        -- exists x. replace (i - k) with (S (i - S k)) by lia. repeat split; [lia | exact E | exact Px].
      * intros (x & L & E & Px). destruct (Nat.eq_dec i k) as [->|Ne]; [left; reflexivity|right].
        exists x. replace (i - k) with (S (i - S k)) in E by lia. repeat split; [lia | exact E | exact Px].
    + rewrite Hr. split.
      * intros (x & L & E & Px). exists x. replace (i - k) with (S (i - S k)) by lia. repeat split; [lia | exact E | exact Px].
      * intros (x & L & E & Px). destruct (Nat.eq_dec i k) as [->|Ne].
        -- rewrite Nat.sub_diag in E. cbn in E. inversion E; subst. congruence.
        -- exists x. replace (i - k) with (S (i - S k)) in E by lia. repeat split; [lia | exact E | exact Px].
Qed.

Lemma py_filter_idx_from_head {A} (p : A -> bool) : forall (h : list A) k i r,
  py_filter_idx_from p h k = i :: r ->
  k <= i /\ (exists x, nth_error h (i - k) = Some x /\ p x = true) /\
  forall j x, k <= j < i -> nth_error h (j - k) = Some x -> p x = false.
Proof.
  induction h as [|y h IH]; intros k i r H; cbn [py_filter_idx_from] in H; [discriminate|].
  destruct (p y) eqn:Py.
  - inversion H; subst. split; [lia|]. split; [exists y; rewrite Nat.sub_diag; split; [reflexivity | exact Py]|]. intros; lia.
  - destruct (IH _ _ _ H) as (L & (x & E & Px) & Hmin). split; [lia|]. split.
    + exists x. replace (i - k) with (S (i - S k)) by lia. split; [exact E | exact Px].
    + intros j x' Hj E'. destruct (Nat.eq_dec j k) as [->|Ne].
      * rewrite Nat.sub_diag in E'. cbn in E'. inversion E'; subst. exact Py.
      * replace (j - k) with (S (j - S k)) in E' by lia. apply (Hmin j x'); [lia | exact E'].
Qed.

(* ------------------------------------------------------------------ sort *)
Lemma py_insert_perm {A} (lt : A -> A -> bool) x : forall l, Permutation (py_insert lt x l) (x :: l).
Proof.
  induction l as [|y l IH]; [reflexivity|]. cbn [py_insert]. destruct (lt y x); [|reflexivity].
  rewrite IH. apply perm_swap.
Qed.
Lemma py_sort_perm {A} (lt : A -> A -> bool) : forall l, Permutation (py_sort lt l) l.
Proof.
  induction l as [|x l IH]; [reflexivity|]. unfold py_sort in *. cbn [fold_right]. rewrite py_insert_perm. constructor. exact IH.
Qed.
Lemma py_sort_rev_perm {A} (lt : A -> A -> bool) l : Permutation (py_sort_rev lt l) l.
Proof. unfold py_sort_rev. rewrite <- Permutation_rev, py_sort_perm, <- Permutation_rev. reflexivity. Qed.
Lemma py_sort_rev_In {A} (lt : A -> A -> bool) l x : In x (py_sort_rev lt l) <-> In x l.
Proof. split; apply Permutation_in; [|symmetry]; apply py_sort_rev_perm. Qed.
Lemma py_sort_In {A} (lt : A -> A -> bool) l x : In x (py_sort lt l) <-> In x l.
Proof. split; apply Permutation_in; [|symmetry]; apply py_sort_perm. Qed.

(* a sort through an injection that respects the order *)
Lemma py_insert_map {A B} (f : A -> B) (ltA : A -> A -> bool) (ltB : B -> B -> bool) :
  (forall a b, ltB (f a) (f b) = ltA a b) -> forall x l, py_insert ltB (f x) (map f l) = map f (py_insert ltA x l).
Proof.
  intros H x. induction l as [|y l IH]; [reflexivity|]. cbn [map py_insert]. rewrite H. destruct (ltA y x); [|reflexivity].
  cbn [map]. rewrite IH. reflexivity.
Qed.
Lemma py_sort_map {A B} (f : A -> B) (ltA : A -> A -> bool) (ltB : B -> B -> bool) :
  (forall a b, ltB (f a) (f b) = ltA a b) -> forall l, py_sort ltB (map f l) = map f (py_sort ltA l).
Proof.
  intros H. induction l as [|x l IH]; [reflexivity|]. unfold py_sort in *. cbn [map fold_right]. rewrite IH. apply py_insert_map. exact H.
Qed.

(* ------------------------------------------------------------------ dicts *)
Lemma py_dict_set_keys {V} : forall (d : list (string * V)) k v,
  map fst (py_dict_set d k v) = if existsb (String.eqb k) (map fst d) then map fst d else map fst d ++ [k].
Proof.
  induction d as [|[k' v'] d IH]; intros k v; [reflexivity|]. cbn [py_dict_set map fst existsb].
  destruct (String.eqb k k') eqn:E; [reflexivity|]. cbn [map fst orb]. rewrite IH. destruct (existsb (String.eqb k) (map fst d)); reflexivity.
Qed.

Lemma py_dict_set_In {V} : forall (d : list (string * V)) k v e, NoDup (map fst d) ->
  (In e (py_dict_set d k v) <-> e = (k, v) \/ (In e d /\ fst e <> k)).
Proof.
  induction d as [|[k' v'] d IH]; intros k v e ND; cbn [py_dict_set].
  - cbn [In]. split; [intros [<-|[]]; left; reflexivity | intros [->|([] & _)]; left; reflexivity].
  - inversion ND as [|? ? Hnot ND']; subst. destruct (String.eqb k k') eqn:E.
    + apply String.eqb_eq in E. subst k'. cbn [In]. split.
      * intros [<-|H]; [left; reflexivity|]. right. split; [right; exact H|]. intros <-. apply Hnot. apply in_map. exact H.
      * intros [->|([<-|H] & Ne)]; [left; reflexivity | cbn [fst] in Ne; congruence | right; exact H].
    + apply String.eqb_neq in E. cbn [In]. rewrite (IH k v e ND'). split.
      * intros [<-|[->|(H & Ne)]].
        -- right. split; [left; reflexivity|]. cbn [fst]. congruence.
        -- left. reflexivity.
        -- right. split; [right; exact H | exact Ne].
      * intros [->|([<-|H] & Ne)]; [right; left; reflexivity | left; reflexivity | right; right; split; assumption].
Qed.

Lemma py_dict_set_nodup {V} (d : list (string * V)) k v : NoDup (map fst d) -> NoDup (map fst (py_dict_set d k v)).
Proof.
  intros ND. rewrite py_dict_set_keys. destruct (existsb (String.eqb k) (map fst d)) eqn:E; [exact ND|].
  apply NoDup_rev in ND. rewrite <- (rev_involutive (map fst d ++ [k])). apply NoDup_rev. rewrite rev_app_distr. cbn [rev app].
  constructor; [|exact ND]. rewrite <- in_rev. intros Hin.
  assert (existsb (String.eqb k) (map fst d) = true) by (apply existsb_exists; exists k; split; [exact Hin | apply String.eqb_refl]).
  congruence.
Qed.

Lemma py_dict_set_has_key {V} (d : list (string * V)) k v : In (k, v) (py_dict_set d k v).
Proof.
  induction d as [|[k' v'] d IH]; cbn [py_dict_set]; [left; reflexivity|].
  destruct (String.eqb k k') eqn:E; [apply String.eqb_eq in E; subst; left; reflexivity | right; exact IH].
Qed.

Lemma py_dict_set_keeps_keys {V} (d : list (string * V)) k v k0 : In k0 (map fst d) -> In k0 (map fst (py_dict_set d k v)).
Proof.
  intros H. rewrite py_dict_set_keys. destruct (existsb (String.eqb k) (map fst d)); [exact H | apply in_or_app; left; exact H].
Qed.

(* a loop over the references of the heap whose body reads the objects but does not change them *)
Lemma py_for_refs_gen {A S} (F : nat -> S -> pres S) (f : S -> A -> S) : forall (h pre : list A) s,
  (forall r i s, nth_error (pre ++ h) r = Some i -> F r s = POk (f s i)) ->
  py_for (seq (List.length pre) (List.length h)) s F = POk (fold_left f h s).
Proof.
  induction h as [|x h IH]; intros pre s H; [reflexivity|]. cbn [List.length seq py_for fold_left].
  rewrite (H (List.length pre) x s) by (rewrite nth_error_app2 by lia; rewrite Nat.sub_diag; reflexivity). cbn [pbind].
  specialize (IH (pre ++ [x]) (f s x)). rewrite app_length in IH. cbn [List.length] in IH. rewrite Nat.add_1_r in IH.
  apply IH. intros r i s0 Hr. apply H. rewrite <- app_assoc in Hr. exact Hr.
Qed.
Lemma py_for_refs {A S} (F : nat -> S -> pres S) (f : S -> A -> S) (h : list A) s :
  (forall r i s, nth_error h r = Some i -> F r s = POk (f s i)) -> py_for (py_refs h) s F = POk (fold_left f h s).
Proof. intros H. exact (py_for_refs_gen F f h [] s H). Qed.

Lemma py_deref_some {A} (h : list A) r i : nth_error h r = Some i -> py_deref h r = POk i.
Proof. intros H. unfold py_deref, py_nth. rewrite H. reflexivity. Qed.
