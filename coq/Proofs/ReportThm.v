(* C13: the property lemmas about report_model / dict_model (restated as Theorems in Props/C13.v). *)
From Coq Require Import ZArith QArith List Bool String Ascii Arith Lia.
From Coq Require Import PrimFloat SpecFloat FloatOps.
From OV Require Import Model.Num Model.Fmt Model.Report Proofs.Fmt Proofs.Report.
Import ListNotations.

(* pieces of wf_analysis *)
Lemma wf_parts : forall a, wf_analysis a = true ->
  (forall l, In l (a_kernel a) -> List.length (l_press l) = List.length (a_ports a))
  /\ nodupb (map l_num (a_kernel a)) = true
  /\ sublist_cp (a_cp a) (a_kernel a) = true
  /\ (forall l, In l (a_kernel a) -> fl_tp_unkwn (l_flags l) = true -> l_instr l = true).
Proof.
  intros a H. unfold wf_analysis in H.
  apply andb_prop in H. destruct H as [H1 H]. apply andb_prop in H. destruct H as [H2 H].
  apply andb_prop in H. destruct H as [H3 H]. apply andb_prop in H. destruct H as [H4 _].
  rewrite forallb_forall in H1, H4.
  split; [intros l Hl; apply Nat.eqb_eq; exact (H1 l Hl)|]. split; [exact H2|]. split; [exact H3|].
  intros l Hl Hu. specialize (H4 l Hl). rewrite Hu in H4. simpl in H4. rewrite orb_false_r in H4. exact H4.
Qed.

Lemma report_model_some : forall q a r, report_model q a = Some r ->
  a_kernel a <> [] /\
  rows r = map (row_of a (port_lens a)) (a_kernel a) /\
  lcd_list r = map lcd_row_of (sort_by_key (a_lcd a)) /\
  w_arch (warns r) = print_arch_warning q /\
  w_length (warns r) = print_length_warning q (List.length (a_kernel a)) /\
  w_lcd_timeout (warns r) = a_timed_out a /\
  let suppressed := andb (negb (q_ignore_unknown q)) (match unknown_lines (a_kernel a) with [] => false | _ => true end) in
  summary r = (if suppressed then None
               else Some {| s_press := press_cells (a_ports a) (port_lens a) [] (tp_sum (a_kernel a));
                            s_cp := f_sum (map cp_lat (a_cp a)); s_lcd := lcd_sum a |}) /\
  w_missing (warns r) = (if suppressed then Some (List.length (unknown_lines (a_kernel a))) else None).
Proof.
  intros q a r H. unfold report_model in H.
  destruct (a_kernel a) as [|l k] eqn:K; [discriminate|].
  injection H as <-. simpl. repeat split; discriminate.
Qed.

Lemma unknown_nil_iff : forall k, unknown_lines k = [] <-> forall l, In l k -> fl_tp_unkwn (l_flags l) = false.
Proof.
  intros k. unfold unknown_lines. induction k as [|l k IH]; simpl.
  - split; [intros _ l []|reflexivity].
  - destruct (fl_tp_unkwn (l_flags l)) eqn:E.
    + split; [discriminate|]. intros H. specialize (H l (or_introl eq_refl)). congruence.
    + rewrite IH. split.
      * intros H x [<-|Hx]; [exact E|apply H; exact Hx].
      * intros H x Hx. apply H. right. exact Hx.
Qed.

(* ------------------------------------------------------------------ totals_iff / warning_count *)
Lemma totals_iff_proof : forall q a r, report_model q a = Some r ->
  (summary r <> None <-> (q_ignore_unknown q = true \/ forall l, In l (a_kernel a) -> fl_tp_unkwn (l_flags l) = false)).
Proof.
  intros q a r H. destruct (report_model_some q a r H) as (_ & _ & _ & _ & _ & _ & Hs & _).
  rewrite Hs. rewrite <- unknown_nil_iff.
  destruct (q_ignore_unknown q); simpl.
  - split; [intros _; left; reflexivity|discriminate].
  - destruct (unknown_lines (a_kernel a)); simpl.
    + split; [intros _; right; reflexivity|discriminate].
    + split; [congruence|]. intros [X|X]; discriminate.
Qed.

Definition x_rows (r : report) : list row := filter (fun w => has_X (r_flags w)) (rows r).

Lemma count_x_rows : forall a plens k,
  (forall l, In l k -> fl_tp_unkwn (l_flags l) = true -> l_instr l = true) ->
  List.length (filter (fun w => has_X (r_flags w)) (map (row_of a plens) k)) = List.length (unknown_lines k).
Proof.
  intros a plens. induction k as [|l k IH]; intros W; [reflexivity|].
  unfold unknown_lines in *. simpl.
  assert (E : has_X (if l_instr l then flag_symbols (l_flags l) else " "%string) = fl_tp_unkwn (l_flags l)).
  { destruct (l_instr l) eqn:I; [apply flag_symbols_X|].
    destruct (fl_tp_unkwn (l_flags l)) eqn:U; [|reflexivity].
    rewrite (W l (or_introl eq_refl) U) in I. discriminate. }
  rewrite E. destruct (fl_tp_unkwn (l_flags l)); simpl; rewrite IH; try reflexivity;
    intros x Hx; apply W; right; exact Hx.
Qed.

Lemma warning_count_proof : forall q a r, report_model q a = Some r ->
  (forall n, w_missing (warns r) = Some n ->
     q_ignore_unknown q = false /\ n = List.length (unknown_lines (a_kernel a)) /\ (0 < n)%nat /\ summary r = None
     /\ (wf_analysis a = true -> n = List.length (x_rows r)))
  /\ (w_missing (warns r) = None <-> summary r <> None).
Proof.
  intros q a r H. destruct (report_model_some q a r H) as (_ & Hr & _ & _ & _ & _ & Hs & Hm).
  rewrite Hs, Hm. split.
  - intros n. destruct (q_ignore_unknown q); simpl; [discriminate|].
    destruct (unknown_lines (a_kernel a)) as [|u us] eqn:U; simpl; [discriminate|].
    intros E. injection E as <-. repeat split; try (simpl; lia).
    intros W. unfold x_rows. rewrite Hr, count_x_rows; [rewrite U; reflexivity|].
    exact (proj2 (proj2 (proj2 (wf_parts a W)))).
  - destruct (andb _ _); split; congruence.
Qed.

(* ------------------------------------------------------------------ x_marks_iff_unknown *)
Lemma x_marks_proof : forall q a r, report_model q a = Some r ->
  Forall2 (fun w d => r_num w = d_num d /\
             (has_X (r_flags w) = true -> fl_tp_unkwn (d_flags d) = true) /\
             (wf_analysis a = true -> has_X (r_flags w) = fl_tp_unkwn (d_flags d)))
          (rows r) (dd_kernel (dict_model q a)).
Proof.
  intros q a r H. destruct (report_model_some q a r H) as (_ & Hr & _).
  rewrite Hr. unfold dict_model. simpl dd_kernel.
  apply Forall2_map_same. intros l Hl. simpl.
  split; [reflexivity|]. split.
  - destruct (l_instr l); [rewrite flag_symbols_X; tauto|discriminate].
  - intros W. destruct (l_instr l) eqn:I; [apply flag_symbols_X|].
    destruct (fl_tp_unkwn (l_flags l)) eqn:U; [|reflexivity].
    rewrite (proj2 (proj2 (proj2 (wf_parts a W))) l Hl U) in I. discriminate.
Qed.

(* ------------------------------------------------------------------ cells_agree *)
Lemma f_biteq_refl : forall x, f_biteq x x = true.
Proof.
  intros x. unfold f_biteq. destruct (Prim2SF x) as [s|s| |s m e]; simpl.
  - apply eqb_reflx. - apply eqb_reflx. - reflexivity.
  - rewrite eqb_reflx, Pos.eqb_refl, Z.eqb_refl. reflexivity.
Qed.

Lemma cells_agree_proof : forall q a r, report_model q a = Some r -> wf_analysis a = true ->
  Forall2 (fun w d =>
             r_num w = d_num d
             /\ Forall2 cell_shows (r_press w) (d_press d)
             /\ (forall v, r_cp w = Some v -> f_biteq v (d_lat_cp d) = true)
             /\ (forall v, r_lcd w = Some v -> v = d_lat_lcd d)
             /\ (r_lcd w = None -> d_lat_lcd d = 0%float))
          (rows r) (dd_kernel (dict_model q a)).
Proof.
  intros q a r H W. destruct (report_model_some q a r H) as (_ & Hr & _).
  destruct (wf_parts a W) as (Wlen & Wnd & Wcp & _).
  rewrite Hr. unfold dict_model. simpl dd_kernel.
  apply Forall2_map_same. intros l Hl. simpl.
  split; [reflexivity|]. split.
  - apply press_cells_shows; [symmetry; apply Wlen; exact Hl|].
    rewrite port_lens_length. symmetry. apply Wlen. exact Hl.
  - split.
    + intros v Hv. destruct (cp_cell_some _ _ _ Hv) as [e [He [En <-]]].
      destruct (sublist_cp_nums _ _ Wcp e He) as [l' [Hl' [En' Hb]]].
      assert (l' = l) by (apply (nodupb_inj (a_kernel a)); try assumption; congruence).
      subst l'. exact Hb.
    + split.
      * intros v Hv. rewrite Hv. reflexivity.
      * intros Hn. rewrite Hn. reflexivity.
Qed.

(* a blank pressure cell means: value zero and port not used by the line's micro-ops; a shown one the opposite *)
Lemma blank_cell_iff_proof : forall plen used v,
  press_cell plen used v = Blank <-> (f_is_zero v = true /\ used = false).
Proof. exact press_cell_blank_iff. Qed.

(* ------------------------------------------------------------------ summary_is_totals *)
Definition shown_cp (r : report) : list float := flat_map (fun w => opt_list (r_cp w)) (rows r).

Lemma shown_cp_model : forall a plens k,
  flat_map (fun w => opt_list (r_cp w)) (map (row_of a plens) k) = flat_map (fun l => opt_list (cp_cell (a_cp a) (l_num l))) k.
Proof. intros a plens. induction k as [|l k IH]; simpl; [reflexivity|]. rewrite IH. reflexivity. Qed.

Lemma summary_is_totals_proof : forall q a r s, report_model q a = Some r -> summary r = Some s ->
  let d := dict_model q a in
  (* per-port totals *)
  (wf_analysis a = true -> List.length (tp_sum (a_kernel a)) = List.length (a_ports a) ->
     Forall2 cell_shows (s_press s) (dd_sum_press d))
  /\ dd_sum_press d = d_totals (dd_kernel d)
  (* critical path *)
  /\ s_cp s = dd_cp d
  /\ (wf_analysis a = true -> s_cp s = f_sum (shown_cp r))
  (* loop-carried dependencies *)
  /\ s_lcd s = dd_lcd d
  /\ (a_lcd a = [] -> s_lcd s = 0%float)
  /\ (forall e, In e (a_lcd a) -> leQ (lcd_lat e) (s_lcd s))
  /\ (a_lcd a <> [] -> exists e, In e (a_lcd a) /\ lcd_lat e = s_lcd s).
Proof.
  intros q a r s H Hs d. destruct (report_model_some q a r H) as (_ & Hr & _ & _ & _ & _ & Hsum & _).
  rewrite Hs in Hsum. destruct (andb _ _); [discriminate|]. injection Hsum as ->. simpl.
  split.
  { intros W L. apply press_cells_shows; [symmetry; exact L|]. rewrite port_lens_length. symmetry. exact L. }
  split.
  { symmetry. exact (d_totals_model a). }
  split; [reflexivity|]. split.
  { intros W. destruct (wf_parts a W) as (_ & Wnd & Wcp & _).
    unfold shown_cp. rewrite Hr, shown_cp_model, (shown_cp_cells _ _ Wcp Wnd). reflexivity. }
  split; [reflexivity|].
  unfold lcd_sum. assert (L := longest_lcd_spec (a_lcd a)).
  destruct (longest_lcd (a_lcd a)) as [m|].
  - destruct L as [Lin Lall]. split; [intros E; rewrite E in Lin; destruct Lin|].
    split; [exact Lall|]. intros _. exists m. split; [exact Lin|reflexivity].
  - split; [reflexivity|]. split; [rewrite L; intros e []|]. intros N. congruence.
Qed.

(* the LCD column marks exactly the members of the dependency the summary figure comes from *)
Lemma lcd_column_proof : forall q a r, report_model q a = Some r ->
  match longest_lcd (a_lcd a) with
  | None => forall w, In w (rows r) -> r_lcd w = None
  | Some m => In m (a_lcd a) /\ lcd_lat m = lcd_sum a /\
              forall w, In w (rows r) -> (r_lcd w <> None <-> In (r_num w) (map fst (lcd_deps m)))
  end.
Proof.
  intros q a r H. destruct (report_model_some q a r H) as (_ & Hr & _).
  assert (L := longest_lcd_spec (a_lcd a)). unfold lcd_sum.
  assert (G : forall n deps, dict_get n deps <> None <-> In n (map fst deps)).
  { intros n. induction deps as [|[k v] t IH]; simpl; [tauto|].
    destruct (dict_get n t) eqn:E.
    - split; [intros _; right; apply IH; discriminate|discriminate].
    - destruct (Z.eqb_spec k n) as [->|N].
      + split; [intros _; left; reflexivity|discriminate].
      + split; [congruence|]. intros [X|X]; [congruence|]. apply IH in X. congruence. }
  rewrite Hr. destruct (longest_lcd (a_lcd a)) as [m|] eqn:E.
  - split; [exact (proj1 L)|]. split; [reflexivity|].
    intros w Hw. apply in_map_iff in Hw. destruct Hw as [l [<- _]]. simpl.
    unfold lcd_lines. rewrite E. apply G.
  - intros w Hw. apply in_map_iff in Hw. destruct Hw as [l [<- _]]. simpl.
    unfold lcd_lines. rewrite E. reflexivity.
Qed.

(* ------------------------------------------------------------------ warnings from the request *)
Lemma arch_warning_iff_proof : forall q a r, report_model q a = Some r ->
  (w_arch (warns r) = true <-> q_arch q = None)
  /\ (In "ArchWarning"%string (dd_warnings (dict_model q a)) <-> q_arch q = None).
Proof.
  intros q a r H. destruct (report_model_some q a r H) as (_ & _ & _ & Ha & _).
  rewrite Ha. unfold dict_model, print_arch_warning. simpl dd_warnings.
  destruct (q_arch q); simpl.
  - split; [split; discriminate|]. split; [|discriminate].
    intros X. exfalso.
    destruct (print_length_warning q _), (a_timed_out a), (unknown_lines (a_kernel a)); simpl in X;
      repeat (destruct X as [X|X]; [discriminate X|]); exact X.
  - split; [tauto|]. split; [reflexivity|]. intros _. left. reflexivity.
Qed.

Definition selection_consistent (q : request) (a : analysis) : Prop :=
  q_lines_given q = false ->
  (q_marker_found q = true -> (List.length (a_kernel a) < q_parsed q)%nat)
  /\ (q_marker_found q = false -> List.length (a_kernel a) = q_parsed q).

Lemma length_warning_iff_proof : forall q a r, report_model q a = Some r -> selection_consistent q a ->
  (w_length (warns r) = true <-> (q_lines_given q = false /\ q_marker_found q = false /\ (100 < q_parsed q)%nat)).
Proof.
  intros q a r H S. destruct (report_model_some q a r H) as (_ & _ & _ & _ & Hl & _).
  rewrite Hl. unfold print_length_warning. unfold selection_consistent in S.
  destruct (q_lines_given q); [split; [discriminate|intros [X _]; discriminate]|].
  destruct (S eq_refl) as [S1 S2]. rewrite andb_true_iff, Nat.eqb_eq, Nat.ltb_lt.
  destruct (q_marker_found q).
  - specialize (S1 eq_refl). split; [lia|intros (_ & X & _); discriminate].
  - specialize (S2 eq_refl). split; [intros [A B]; repeat split; lia|intros (_ & _ & B); lia].
Qed.

Lemma lcd_warning_iff_proof : forall q a r, report_model q a = Some r ->
  w_lcd_timeout (warns r) = a_timed_out a.
Proof. intros q a r H. exact (proj1 (proj2 (proj2 (proj2 (proj2 (proj2 (report_model_some q a r H))))))). Qed.

(* ------------------------------------------------------------------ LCD list *)
Lemma lcd_list_complete_proof : forall q a r, report_model q a = Some r ->
  (forall e, In e (a_lcd a) ->
     exists w, In w (lcd_list r) /\ lr_lat w = lcd_lat e /\ lr_members w = map fst (lcd_deps e)
               /\ (forall n v t, lcd_deps e = (n, v) :: t -> lr_first w = n))
  /\ (forall w, In w (lcd_list r) -> exists e, In e (a_lcd a) /\ w = lcd_row_of e)
  /\ List.length (lcd_list r) = List.length (a_lcd a).
Proof.
  intros q a r H. destruct (report_model_some q a r H) as (_ & _ & Hl & _). rewrite Hl.
  split; [|split].
  - intros e He. exists (lcd_row_of e). split.
    + apply in_map. apply sort_by_key_In. exact He.
    + simpl. repeat split. intros n v t E. rewrite E. reflexivity.
  - intros w Hw. apply in_map_iff in Hw. destruct Hw as [e [<- He]]. exists e.
    split; [apply sort_by_key_In; exact He|reflexivity].
  - rewrite map_length. apply sort_by_key_length.
Qed.

(* ------------------------------------------------------------------ default architecture *)
Lemma default_arch_by_isa_proof : forall q,
  (forall a, q_arch q = Some a -> arch_used q = a)
  /\ (q_arch q = None ->
      arch_used q = if q_first_parse_ok q
                    then (if (q_cnt_x86 q <? q_cnt_a64 q)%nat then "V2" else "SPR")%string
                    else (if (q_cnt_x86 q <? q_cnt_a64 q)%nat then "SPR" else "V2")%string).
Proof.
  intros q. unfold arch_used, detect_isa. split.
  - intros a E. rewrite E. reflexivity.
  - intros E. rewrite E. destruct (q_first_parse_ok q), (q_cnt_x86 q <? q_cnt_a64 q)%nat; reflexivity.
Qed.

(* ------------------------------------------------------------------ a shown cell reads back at its precision *)
Lemma shown_cell_reads_back_proof : forall c v, cell_shows c v -> f_is_finite v = true ->
  (c = Blank /\ f_to_Q v == 0)
  \/ (exists dg d, c = Shown dg v /\ read_decimal (render_cell c) = Some d /\ d_scale d = dg
                   /\ dec_to_Q d == Qround_he dg (f_to_Q v)).
Proof.
  intros c v [[-> Z]|[dg [-> _]]] F.
  - left. split; [reflexivity|]. unfold f_is_zero in Z. unfold f_to_Q.
    destruct (Prim2SF v); try discriminate. reflexivity.
  - right. destruct (fmt_fixed_reads_back_Q dg v F) as [d [R [S [_ Q]]]].
    exists dg, d. repeat split; assumption.
Qed.
