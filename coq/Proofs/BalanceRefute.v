(* Part C: the hypotheses of the one-pass feasibility theorems (Proofs/BalanceMulti.v, Proofs/BalancePass.v) are
   necessary -- refutations of the stronger statements by vm_compute witnesses, exact rationals (QNum). *)
From Coq Require Import QArith Qround Qfield Lqa Lia List Bool Arith String ZArith PrimFloat.
From OV Require Import Model.Num Model.Pressure Proofs.ListSpec Proofs.Feasible Proofs.PressureQ Proofs.BalanceFrame
  Proofs.BalanceSingle Proofs.BalanceMulti Proofs.BalancePass.
Import ListNotations.
Open Scope Q_scope.
Local Notation length := List.length (only parsing).

(* an instruction as the semantic stage builds it: throughput 1, uniform row, plain micro-op list *)
Definition mk_ins (ports : list string) (us : list (uop (T:=Q))) : instr (T:=Q) :=
  mkinstr 1 (match avg_pressure_list QNum ports us with Ok v => v | Err _ => [] end) (UList us).

Lemma not_feasible_by_hall P eps us v S :
  0 <= eps -> load P S v < confined_cycles S us - eps * card P S * nonconfined S us -> ~ Feasible P eps us v.
Proof. intros He H F. pose proof (feasible_hall P eps us v S He F). lra. Qed.

Lemma not_feasible_by_total P eps us v :
  ~ sumn P v == sumn (length us) (fun u => uc (uget us u)) -> ~ Feasible P eps us v.
Proof. intros H F. apply H. apply (feasible_total P eps us v F). Qed.

(* ================================================================ (a) the slack 1/100 cannot be lowered to 1/200 *)
(* ports 0,1; instruction 0 = [0.0099 cycles on port 0 ; 0.2102 cycles on 0|1], instruction 1 = 10 cycles on port 0.
   The second micro-op (share 0.1051) drains port 0: after 10 steps its difference is 0.0051 (rounds to 0.01: rule 2
   does not fire), after the 11th the CELL is 0.005, round(0.005, 2) = 0.0: rule 1 hands the residual over and zeroes
   the cell -- together with the 0.0099 cycles of the first micro-op, which can only run on port 0.  No exact zero is
   met, every hypothesis of balance_pass_feasible holds, and the row [0; 0.2201] is NOT feasible with any slack
   below 0.0099 per (micro-op, port). *)
Definition s2_ports : list string := ["0"; "1"]%string.
Definition s2_uops : list (uop (T:=Q)) := [(99 # 10000, ["0"]%string); (2102 # 10000, ["0"; "1"]%string)].
Definition s2_kernel : list (instr (T:=Q)) := [mk_ins s2_ports s2_uops; mk_ins s2_ports [(10, ["0"]%string)]].

Lemma s2_start : all_start_ok s2_ports s2_kernel.
Proof. apply all_start_okb_ok. vm_compute. reflexivity. Qed.

Theorem slack_below_granularity_refuted :
  exists ports k k', all_start_ok ports k /\ balance QNum ports k = Ok (k', 0%nat) /\
    forall eps, 0 <= eps -> eps < 99 # 10000 ->
      ~ Feasible (length ports) eps (uopsQ ports (nth 0 k' dins)) (qnth (i_pp (nth 0 k' dins))).
Proof.
  exists s2_ports, s2_kernel. eexists. split; [exact s2_start|]. split; [vm_compute; reflexivity|].
  intros eps He Hlt. apply (not_feasible_by_hall _ _ _ _ (fun p => Nat.eqb p 0) He).
  match goal with |- load ?P ?S ?v < confined_cycles ?S ?us - eps * card ?P ?S * nonconfined ?S ?us =>
    assert (E1 : load P S v == 0) by (vm_compute; reflexivity);
    assert (E2 : confined_cycles S us == 99 # 10000) by (vm_compute; reflexivity);
    assert (E3 : card P S == 1) by (vm_compute; reflexivity);
    assert (E4 : nonconfined S us == 1) by (vm_compute; reflexivity);
    rewrite E1, E2, E3, E4 end.
  lra.
Qed.

Corollary slack_200_refuted :
  exists ports k k', all_start_ok ports k /\ balance QNum ports k = Ok (k', 0%nat) /\
    ~ Feasible (length ports) (1 # 200) (uopsQ ports (nth 0 k' dins)) (qnth (i_pp (nth 0 k' dins))).
Proof.
  destruct slack_below_granularity_refuted as (ports & k & k' & A & B & C).
  exists ports, k, k'. split; [exact A|]. split; [exact B|]. apply C; lra.
Qed.

(* ================================================================ (b) the share hypothesis is necessary *)
(* instr_okb asks of every multi-port micro-op: share > m/200 (m = number of micro-ops of the instruction).  With the
   weaker "share > 1/200" (the share rounds to a positive hundredth) the theorem is false: ports 0,1,2; instruction 0 =
   [0.2102 on 2|0 ; 0.024 on 0|2|1] (second share 0.008 <= 2/200), two more instructions load ports 1 and 2.
   The first micro-op zeroes the cell of port 2 INCLUDING the second one's 0.008; the second loop then starts with a
   zero cell among its ports, rule 1 zeroes the wrong cell (`zero_index` = first cell that rounds to 0): port 1 stays at
   -0.002 and the row total drops from 0.2342 to 0.2322.  No exact zero is met, the pass returns Ok. *)
Definition uop_okb_weak (ports : list string) (u : uop (T:=Q)) : bool :=
  Qle_bool 0 (fst u) && nodupb (resolve ports (snd u)) && negb (Nat.eqb (length (snd u)) 0) &&
  ((length (snd u) <? 2)%nat || negb (Qle_bool (fst u / inject_Z (Z.of_nat (length (snd u)))) (1 # 200))).

Definition start_ok_weak (ports : list string) (ins : instr (T:=Q)) : Prop :=
  exists us, i_uops ins = UList us /\ forallb (uop_okb_weak ports) us = true /\
             avg_pressure_list QNum ports us = Ok (i_pp ins).

Definition sh_ports : list string := ["0"; "1"; "2"]%string.
Definition sh_uops : list (uop (T:=Q)) := [(1051 # 5000, ["2"; "0"]%string); (3 # 125, ["0"; "2"; "1"]%string)].
Definition sh_kernel : list (instr (T:=Q)) :=
  [mk_ins sh_ports sh_uops; mk_ins sh_ports [(3, ["1"]%string)]; mk_ins sh_ports [(2, ["2"]%string)]].

Theorem share_hypothesis_refuted :
  exists ports k k',
    (forall ins, In ins k -> start_ok_weak ports ins) /\ balance QNum ports k = Ok (k', 0%nat) /\
    i_pp (nth 0 k' dins) = [1171 # 5000; - (1 # 500); 0] /\
    (forall eps, ~ Feasible (length ports) eps (uopsQ ports (nth 0 k' dins)) (qnth (i_pp (nth 0 k' dins)))).
Proof.
  exists sh_ports, sh_kernel. eexists. split; [|split; [vm_compute; reflexivity|split; [reflexivity|]]].
  - intros ins [E|[E|[E|[]]]]; subst ins; eexists; (split; [reflexivity|]); split; vm_compute; reflexivity.
  - intros eps. apply not_feasible_by_total. vm_compute. discriminate.
Qed.

(* ================================================================ (c) an exact zero used to break alignment *)
(* The balancer BEFORE the repair of rule 1: in the branch `min(instr_ports) == 0.0` nothing was deleted from
   `differences`, so the list kept a stale entry while `indices` lost the port.  rule1_old is a verbatim copy of the
   old rule; bstep_old .. balance_uops_old are the model's functions with rule1 replaced by rule1_old. *)
Section Old.
  Context {T : Type} (N : NumOps T).
  Definition rule1_old (ps : list T) (mn : T) (pp1 : list T) (ind : list nat) (ip2 df2 : list T)
    : res (list T * list nat * list T * list T * nat) :=
    m <- list_min N ip2 ;;
    if nleb N (nround2 N m) (zero N) then
      r0 <- (if negb (neqb N m (zero N)) then
               mini <- index_of N ps mn ;;
               ipa <- add_at N ip2 mini m ;;
               m2 <- list_min N ipa ;;
               dfa <- add_at N df2 mini m2 ;;
               m3 <- list_min N ipa ;; kk <- index_of N ipa m3 ;;
               dfb <- del_nth dfa kk ;;
               ppa <- setmany pp1 ind ipa ;;
               zs <- filter_res (fun p => v <- nth_res ppa p ;;
                                          Ok (orb (neqb N (nround2 N v) (zero N)) (nltb N v (zero N)))) ind ;;
               match zs with
               | [] => Err EIndex
               | zi :: _ => ppb <- set_nth ppa zi (zero N) ;; Ok (ppb, ipa, dfb, 0%nat)
               end
             else Ok (pp1, ip2, df2, 1%nat)) ;;
      let '(pp', ip', df', ex) := r0 in
      ind' <- filter_res (fun p => v <- nth_res pp' p ;; Ok (nltb N (zero N) v)) ind ;;
      ip'' <- getmany pp' ind' ;;
      Ok (pp', ind', ip'', df', ex)
    else Ok (pp1, ind, ip2, df2, 0%nat).

  Definition bstep_old (k : list (instr (T:=T))) (idx : nat) (s : bstate (T:=T)) : res (bstate (T:=T)) :=
    let pp := b_pp s in let ind := b_ind s in let ip := b_ip s in let df := b_df s in let ps := b_ps s in
    mx <- list_max N ps ;; maxi <- index_of N ps mx ;;
    mn <- list_min N ps ;; mini <- index_of N ps mn ;;
    ip1 <- sub_at N ip maxi (INC N) ;; ip2 <- add_at N ip1 mini (INC N) ;;
    df1 <- sub_at N df maxi (INC N) ;; df2 <- add_at N df1 mini (INC N) ;;
    pp1 <- setmany pp ind ip2 ;;
    r1 <- rule1_old ps mn pp1 ind ip2 df2 ;;
    let '(pp2, ind2, ip3, df3, ex) := r1 in
    r2 <- rule2 N pp2 ind2 ip3 df3 ;;
    let '(ind3, ip4, df4) := r2 in
    ps' <- getmany (tp_sum N (set_pp k idx pp2)) ind3 ;;
    Ok (mkb pp2 ind3 ip4 df4 ps' (b_exact0 s + ex)).

  Fixpoint bloop_old (n : nat) (k : list (instr (T:=T))) (idx : nat) (s : bstate (T:=T)) : res (bstate (T:=T)) :=
    match n with
    | O => Ok s
    | S n' => match b_ip s with
              | [_] => Ok s
              | _ => s' <- bstep_old k idx s ;; bloop_old n' k idx s'
              end
    end.

  Definition balance_uop_old (ports : list string) (k : list (instr (T:=T))) (idx : nat) (pp : list T) (u : uop (T:=T))
    : res (list T * nat) :=
    let '(c, ps) := u in
    ind <- indices_of ports ps ;;
    psums <- getmany (tp_sum N (set_pp k idx pp)) ind ;;
    ip <- getmany pp ind ;;
    if all_equal N psums then Ok (pp, 0%nat)
    else
      let share := ndiv N c (nofZ N (Z.of_nat (List.length ps))) in
      let df := map (fun _ => share) ps in
      let n := Z.to_nat (ntrunc N (nmul N c (ndiv N (nofZ N 1) (INC N)))) in
      s <- bloop_old n k idx (mkb pp ind ip df psums 0%nat) ;;
      Ok (b_pp s, b_exact0 s).

  Fixpoint balance_uops_old (ports : list string) (k : list (instr (T:=T))) (idx : nat) (pp : list T)
           (us : list (uop (T:=T))) (ex : nat) : res (list T * nat) :=
    match us with
    | [] => Ok (pp, ex)
    | u :: r => '(pp', e) <- balance_uop_old ports k idx pp u ;;
                balance_uops_old ports (set_pp k idx pp') idx pp' r (ex + e)%nat
    end.
End Old.

(* ports 0..3; instruction 0 = [0.4 cycles on 0|1|2|3 ; 0.05 cycles on port 2] (shares 0.1 > 2/200: instr_okb holds);
   the other instructions load port 0 with 10, port 2 with 5, port 3 with 2 cycles.  Port 0 is drained to EXACTLY 0
   after 10 steps; the old rule left its entry in `differences`, rule 2 then deleted the index at that POSITION -- the
   innocent port 1 -- and port 2 was capped by the difference of port 1 (0.2) instead of its own (0.1): it lost its whole
   cell, including the 0.05 cycles that can only run on port 2.  Old result [0; 0.2; 0; 0.25], two exact zeros.  *)
Definition ez_ports : list string := ["0"; "1"; "2"; "3"]%string.
Definition ez_uops : list (uop (T:=Q)) := [(2 # 5, ["0"; "1"; "2"; "3"]%string); (1 # 20, ["2"]%string)].
Definition ez_kernel : list (instr (T:=Q)) :=
  [mk_ins ez_ports ez_uops; mk_ins ez_ports [(10, ["0"]%string)]; mk_ins ez_ports [(5, ["2"]%string)];
   mk_ins ez_ports [(2, ["3"]%string)]].

Theorem old_rule1_exact_zero_refuted :
  exists ports k idx us pp pp' e,
    instr_okb ports us = true /\ avg_pressure_list QNum ports us = Ok pp /\
    all_start_ok ports k /\ i_uops (nth idx k dins) = UList us /\
    balance_uops_old QNum ports k idx pp us 0 = Ok (pp', e) /\ e = 2%nat /\
    forall eps, 0 <= eps -> eps < 1 # 20 -> ~ Feasible (length ports) eps (map (toU ports) us) (qnth pp').
Proof.
  exists ez_ports, ez_kernel, 0%nat, ez_uops. eexists. eexists. eexists.
  split; [vm_compute; reflexivity|]. split; [vm_compute; reflexivity|]. split; [|split; [reflexivity|]].
  - apply all_start_okb_ok. vm_compute. reflexivity.
  - split; [vm_compute; reflexivity|]. split; [reflexivity|].
    intros eps He Hlt. apply (not_feasible_by_hall _ _ _ _ (fun p => Nat.eqb p 2) He).
    match goal with |- load ?P ?S ?v < confined_cycles ?S ?us - eps * card ?P ?S * nonconfined ?S ?us =>
      assert (E1 : load P S v == 0) by (vm_compute; reflexivity);
      assert (E2 : confined_cycles S us == 1 # 20) by (vm_compute; reflexivity);
      assert (E3 : card P S == 1) by (vm_compute; reflexivity);
      assert (E4 : nonconfined S us == 1) by (vm_compute; reflexivity);
      rewrite E1, E2, E3, E4 end.
    lra.
Qed.

(* the same event on the BIT-EXACT binary64 model, with the input that failed on the implementation before the repair
   (one pass): instruction 0 = [0.08 cycles on A|B|C|D ; 0.05 cycles on C]; 0.02 - 0.01 - 0.01 is exactly 0.0 in
   binary64.  Old rule: row [0.0; 0.04; 0.03; 0.06...05] -- port C carries 0.03 although 0.05 cycles can only run there. *)
Open Scope float_scope.
Definition fz_ports : list string := ["A"; "B"; "C"; "D"]%string.
Definition fz_uops : list (uop (T:=float)) :=
  [(0x1.47ae147ae147bp-4, ["A"; "B"; "C"; "D"]%string); (0x1.999999999999ap-5, ["C"]%string)].
Definition fz_ins (us : list (uop (T:=float))) : instr (T:=float) :=
  mkinstr 1 (match avg_pressure_list FNum fz_ports us with Ok v => v | Err _ => [] end) (UList us).
Definition fz_kernel : list (instr (T:=float)) :=
  [fz_ins fz_uops; fz_ins [(10, ["A"]%string)]; fz_ins [(5, ["C"]%string)]; fz_ins [(2, ["D"]%string)]].

Theorem old_rule1_exact_zero_binary64_refuted :
  exists pp pp' e,
    avg_pressure_list FNum fz_ports fz_uops = Ok pp /\
    balance_uops_old FNum fz_ports fz_kernel 0 pp fz_uops 0 = Ok (pp', e) /\ e = 1%nat /\
    f_list_biteq pp' [0; 0x1.47ae147ae147bp-5; 0x1.eb851eb851eb8p-6; 0x1.eb851eb851eb9p-5] = true /\
    PrimFloat.ltb (nth 2 pp' 0) 0x1.999999999999ap-5 = true.
Proof.
  eexists. eexists. eexists. split; [vm_compute; reflexivity|]. split; [vm_compute; reflexivity|].
  split; [reflexivity|]. split; vm_compute; reflexivity.
Qed.
Close Scope float_scope.

(* ... and the repaired rule on the same exact-rational input: two exact zeros are met (counter 2), the row is
   [0; 0.4; 0.05; 0] -- port 2 keeps the 0.05 cycles confined to it (an instance of balance_pass_feasible, which
   no longer has a hypothesis on the counter) *)
Example repaired_rule1_on_exact_zero_witness :
  all_start_ok ez_ports ez_kernel /\
  exists k', balance QNum ez_ports ez_kernel = Ok (k', 2%nat) /\ i_pp (nth 0 k' dins) = [0; 2 # 5; 1 # 20; 0].
Proof.
  split.
  - apply all_start_okb_ok. vm_compute. reflexivity.
  - eexists. split; [vm_compute; reflexivity|]. reflexivity.
Qed.
