(* The model's average_port_pressure, instantiated with exact rationals, computes the uniform
   split of Proofs/Feasible.v; hence it is feasible with slack 0. *)
From Coq Require Import QArith Qfield Lqa Lia List Bool Arith String ZArith.
From OV Require Import Model.Num Model.Pressure Proofs.Feasible.
Import ListNotations.
Open Scope Q_scope.

(* ---------------------------------------------------------------- list-operation specs *)
Lemma nth_res_ok {A} (l : list A) i x d : nth_res l i = Ok x -> nth i l d = x /\ (i < List.length l)%nat.
Proof.
  unfold nth_res. destruct (nth_error l i) eqn:E; [|discriminate].
  intros H. inversion H; subst. split.
  - apply nth_error_nth. exact E.
  - apply nth_error_Some. congruence.
Qed.

Lemma set_nth_ok {A} (l : list A) i v l' d :
  set_nth l i v = Ok l' ->
  List.length l' = List.length l /\ nth i l' d = v /\ (forall j, j <> i -> nth j l' d = nth j l d).
Proof.
  revert i l'. induction l as [|x l IH]; intros i l' H; [destruct i; discriminate|].
  destruct i as [|i]; simpl in H.
  - inversion H; subst. simpl. repeat split. intros j Hj. destruct j; [congruence|reflexivity].
  - destruct (set_nth l i v) as [r|e] eqn:E; simpl in H; [|discriminate].
    inversion H; subst. destruct (IH _ _ E) as (L & N & O). simpl. repeat split.
    + congruence.
    + exact N.
    + intros j Hj. destruct j; [reflexivity|]. apply O. congruence.
Qed.

Lemma find_index_spec {A} (f : A -> bool) l k i :
  find_index f l k = Some i -> (k <= i)%nat /\ (i - k < List.length l)%nat.
Proof.
  revert k. induction l as [|x l IH]; intros k H; simpl in H; [discriminate|].
  destruct (f x).
  - inversion H; subst. simpl. lia.
  - apply IH in H. simpl. lia.
Qed.

Lemma port_index_lt ports p i : port_index ports p = Some i -> (i < List.length ports)%nat.
Proof. unfold port_index. intros H. apply find_index_spec in H. lia. Qed.

(* names -> port numbers (unresolvable names are dropped; avg_pressure raises on them) *)
Fixpoint resolve (ports : list string) (ps : list string) : list nat :=
  match ps with
  | [] => []
  | p :: r => match port_index ports p with Some i => i :: resolve ports r | None => resolve ports r end
  end.

Definition toU (ports : list string) (u : uop (T:=Q)) : uopQ := mkU (fst u) (resolve ports (snd u)).

Definition qnth (l : list Q) (j : nat) : Q := nth j l 0.

Lemma avg_add_ports_spec ports share : forall ps acc acc',
  avg_add_ports QNum ports acc share ps = Ok acc' ->
  NoDup (resolve ports ps) ->
  List.length acc' = List.length acc /\ List.length (resolve ports ps) = List.length ps /\
  forall j, qnth acc' j == qnth acc j + (if memb j (resolve ports ps) then share else 0).
Proof.
  induction ps as [|p ps IH]; intros acc acc' H ND.
  - simpl in H. inversion H; subst. repeat split. intros j. simpl. ring.
  - cbn [avg_add_ports] in H. cbn [resolve] in *.
    destruct (port_index ports p) as [i|] eqn:PI; [|discriminate].
    destruct (nth_res acc i) as [x|] eqn:NR; cbn [bind] in H; [|discriminate].
    destruct (set_nth acc i (nadd QNum x share)) as [acc1|] eqn:SN; cbn [bind] in H; [|discriminate].
    inversion ND as [|? ? Hnotin ND']; subst.
    destruct (IH _ _ H ND') as (L & L2 & V).
    destruct (set_nth_ok _ _ _ _ 0 SN) as (L1 & N1 & O1).
    destruct (nth_res_ok _ _ _ 0 NR) as (N0 & _).
    repeat split; [congruence | simpl; congruence |].
    intros j. rewrite V. unfold memb at 2. cbn [existsb]. fold (memb j (resolve ports ps)).
    unfold qnth in *. destruct (Nat.eqb j i) eqn:E; cbn [orb].
    + apply Nat.eqb_eq in E. subst j. rewrite N1. cbn [nadd QNum]. rewrite Qred_correct, N0.
      destruct (memb i (resolve ports ps)) eqn:M; [apply memb_In in M; contradiction | ring].
    + apply Nat.eqb_neq in E. rewrite (O1 j E). ring.
Qed.

Definition wf_names (ports : list string) (u : uop (T:=Q)) : Prop :=
  0 <= fst u /\ NoDup (resolve ports (snd u)) /\ snd u <> [].

Lemma avg_go_spec ports : forall us acc v,
  avg_go QNum ports acc us = Ok v ->
  (forall u, In u us -> wf_names ports u) ->
  List.length v = List.length acc /\
  forall j, qnth v j == qnth acc j + sumn (List.length us) (fun k => ushare (uget (map (toU ports) us) k) j).
Proof.
  induction us as [|[c ps] us IH]; intros acc v H WF.
  - simpl in H. inversion H; subst. split; [reflexivity|]. intros j. simpl. ring.
  - cbn [avg_go] in H.
    destruct (avg_add_ports QNum ports acc _ ps) as [acc1|] eqn:A; cbn [bind] in H; [|discriminate].
    destruct (WF (c, ps) (or_introl eq_refl)) as (Hc & ND & Hne).
    destruct (avg_add_ports_spec _ _ _ _ _ A ND) as (L1 & LR & V1).
    destruct (IH _ _ H (fun u Hu => WF u (or_intror Hu))) as (L2 & V2).
    split; [congruence|]. intros j. rewrite V2, V1.
    (* re-index the sum: element 0 is the new micro-op *)
    assert (Hshift : forall n (f : nat -> Q), sumn (S n) f == f 0%nat + sumn n (fun k => f (S k))).
    { clear. induction n as [|n IHn]; intros f; [simpl; ring|].
      change (sumn (S (S n)) f) with (sumn (S n) f + f (S n)). rewrite IHn. simpl. ring. }
    cbn [List.length map]. rewrite Hshift.
    assert (E0 : ushare (uget (toU ports (c, ps) :: map (toU ports) us) 0) j
                 == (if memb j (resolve ports ps) then ndiv QNum c (nofZ QNum (Z.of_nat (List.length ps))) else 0)).
    { unfold uget, ushare, toU. cbn [nth uc up fst snd]. rewrite LR. cbn [ndiv nofZ QNum].
      destruct (memb j (resolve ports ps)); [rewrite Qred_correct|]; reflexivity. }
    rewrite E0.
    assert (E : sumn (List.length us) (fun k => ushare (uget (toU ports (c, ps) :: map (toU ports) us) (S k)) j)
              == sumn (List.length us) (fun k => ushare (uget (map (toU ports) us) k) j)).
    { apply sumn_ext. intros; reflexivity. }
    rewrite E. unfold uget. ring.
Qed.

Theorem avg_pressure_is_uniform ports us v :
  avg_pressure_list QNum ports us = Ok v ->
  (forall u, In u us -> wf_names ports u) ->
  List.length v = List.length ports /\
  forall j, qnth v j == uniform (map (toU ports) us) j.
Proof.
  unfold avg_pressure_list. intros H WF.
  destruct (avg_go_spec _ _ _ _ H WF) as (L & V). split.
  - rewrite L, map_length. reflexivity.
  - intros j. rewrite V. unfold uniform. rewrite map_length.
    assert (Z0 : qnth (map (fun _ : string => zero QNum) ports) j == 0).
    { unfold qnth. clear. revert j. induction ports as [|p ports IH]; intros [|j]; simpl; try reflexivity. apply IH. }
    rewrite Z0. ring.
Qed.

Lemma resolve_lt ports ps p : In p (resolve ports ps) -> (p < List.length ports)%nat.
Proof.
  induction ps as [|q ps IH]; simpl; [tauto|].
  destruct (port_index ports q) eqn:E; [|exact IH].
  intros [H|H]; [subst; eapply port_index_lt; eassumption | auto].
Qed.

Lemma resolve_nonempty ports ps acc share acc' :
  avg_add_ports QNum ports acc share ps = Ok acc' -> ps <> [] -> resolve ports ps <> [].
Proof.
  destruct ps as [|p ps]; [congruence|]. intros H _. cbn [avg_add_ports] in H. cbn [resolve].
  destruct (port_index ports p); [discriminate | discriminate].
Qed.

Lemma avg_go_resolves ports : forall us acc v u,
  avg_go QNum ports acc us = Ok v -> (u < List.length us)%nat ->
  snd (nth u us (0, [])) <> [] -> resolve ports (snd (nth u us (0, []))) <> [].
Proof.
  induction us as [|[c ps] us IH]; intros acc v u H Hu Hne; [simpl in Hu; lia|].
  cbn [avg_go] in H.
  destruct (avg_add_ports QNum ports acc _ ps) as [acc1|] eqn:A; cbn [bind] in H; [|discriminate].
  destruct u as [|u].
  - cbn [nth snd] in *. eapply resolve_nonempty; eassumption.
  - cbn [nth] in *. eapply IH; eauto. simpl in Hu. lia.
Qed.

(* the pressure vector computed by the model for uniform scheduling is a feasible split, slack 0 *)
Theorem uniform_model_feasible ports us v :
  avg_pressure_list QNum ports us = Ok v ->
  (forall u, In u us -> wf_names ports u) ->
  Feasible (List.length ports) 0 (map (toU ports) us) (qnth v).
Proof.
  intros H WF.
  destruct (avg_pressure_is_uniform _ _ _ H WF) as (L & V).
  assert (WFU : forall u, (u < List.length (map (toU ports) us))%nat -> wf_uop (List.length ports) (uget (map (toU ports) us) u)).
  { intros u Hu. rewrite map_length in Hu. unfold uget.
    rewrite (nth_indep _ dflt (toU ports (0, []))) by (rewrite map_length; exact Hu).
    rewrite map_nth. destruct (WF (nth u us (0, [])) (nth_In _ _ Hu)) as (Hc & ND & Hne).
    unfold wf_uop, toU. cbn [uc up]. repeat split; auto.
    - intros p Hp. eapply resolve_lt; eassumption.
    - eapply avg_go_resolves; eauto. }
  destruct (uniform_feasible (List.length ports) (map (toU ports) us) WFU) as (sh & A & B & C & D).
  exists sh. repeat split; auto. intros p Hp. rewrite V. apply D. exact Hp.
Qed.
