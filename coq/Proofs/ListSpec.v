(* Specifications of the Python-list operations of Model/Pressure.v *)
From Coq Require Import List Arith Lia.
From OV Require Import Model.Num Model.Pressure.
Import ListNotations.

Lemma nth_res_ok {A} (l : list A) i x d : nth_res l i = Ok x -> nth i l d = x /\ i < length l.
Proof.
  unfold nth_res. destruct (nth_error l i) eqn:E; [|discriminate].
  intros H. inversion H; subst. split.
  - apply nth_error_nth. exact E.
  - apply nth_error_Some. congruence.
Qed.

Lemma set_nth_ok {A} (l : list A) i v l' d :
  set_nth l i v = Ok l' ->
  length l' = length l /\ nth i l' d = v /\ (forall j, j <> i -> nth j l' d = nth j l d).
Proof.
  revert i l'. induction l as [|x l IH]; intros i l' H; [destruct i; discriminate|].
  destruct i as [|i]; simpl in H.
  - inversion H; subst. simpl. repeat split. intros j Hj. destruct j; [congruence|reflexivity].
  - destruct (set_nth l i v) as [r|e] eqn:E; simpl in H; [|discriminate].
    inversion H; subst. destruct (IH _ _ E) as (L & N & O). simpl. repeat split.
    + congruence.
    + exact N.
    + intros j Hj. destruct j; [reflexivity|]. apply O. congruence.
Qed.

Lemma setzip_frame {A} (d : A) : forall idx vals l l',
  setzip l idx vals = Ok l' ->
  length l' = length l /\ forall j, ~ In j idx -> nth j l' d = nth j l d.
Proof.
  induction idx as [|i idx IH]; intros vals l l' H.
  - simpl in H. inversion H; subst. auto.
  - destruct vals as [|v vals]; simpl in H.
    + inversion H; subst. auto.
    + destruct (set_nth l i v) as [l1|] eqn:E; cbn [bind] in H; [|discriminate].
      destruct (set_nth_ok _ _ _ _ d E) as (L1 & _ & O1).
      destruct (IH _ _ _ H) as (L2 & O2). split; [congruence|].
      intros j Hj. rewrite O2 by (intros C; apply Hj; right; exact C).
      apply O1. intros C. apply Hj. left. congruence.
Qed.

Lemma setmany_frame {A} (d : A) idx vals l l' :
  setmany l idx vals = Ok l' ->
  length l' = length l /\ forall j, ~ In j idx -> nth j l' d = nth j l d.
Proof.
  unfold setmany. destruct idx as [|i [|i2 idx]].
  - apply setzip_frame.
  - destruct vals as [|v [|v2 vals]]; try discriminate.
    intros H. destruct (set_nth_ok _ _ _ _ d H) as (L & _ & O). split; [exact L|].
    intros j Hj. apply O. intros C. apply Hj. left. congruence.
  - apply setzip_frame.
Qed.

Lemma del_nth_incl {A} : forall (l : list A) i l', del_nth l i = Ok l' -> incl l' l.
Proof.
  induction l as [|x l IH]; intros i l' H; [destruct i; discriminate|].
  destruct i as [|i]; simpl in H.
  - inversion H; subst. apply incl_tl, incl_refl.
  - destruct (del_nth l i) as [r|] eqn:E; cbn [bind] in H; [|discriminate].
    inversion H; subst. intros y [Hy|Hy]; [left; exact Hy | right; eapply IH; eauto].
Qed.
