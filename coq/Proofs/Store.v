(* C18 -- proofs about the shared-store model (Model/Store.v). *)
From Coq Require Import List Arith Bool PeanoNat Lia.
From OV Require Import Model.Store.
Import ListNotations.

(* ------------------------------------------------------------------ association lists *)
Lemma update_same : forall (A : Type) k (v : A) c, lookup k c = Some v -> update k v c = c.
Proof.
  induction c as [|[k' v'] t IH]; simpl; intros H; [discriminate|].
  destruct (Nat.eqb k k') eqn:E.
  - apply Nat.eqb_eq in E. subst. inversion H. reflexivity.
  - rewrite IH; auto.
Qed.

Lemma lookup_update_eq : forall (A : Type) k (v : A) c, lookup k (update k v c) = Some v.
Proof.
  induction c as [|[k' v'] t IH]; simpl.
  - rewrite Nat.eqb_refl. reflexivity.
  - destruct (Nat.eqb k k') eqn:E; simpl.
    + rewrite Nat.eqb_refl. reflexivity.
    + rewrite E. exact IH.
Qed.

Lemma lookup_update_neq : forall (A : Type) k k' (v : A) c, k <> k' -> lookup k' (update k v c) = lookup k' c.
Proof.
  induction c as [|[k2 v2] t IH]; simpl; intros N.
  - destruct (Nat.eqb k' k) eqn:E; auto. apply Nat.eqb_eq in E. congruence.
  - destruct (Nat.eqb k k2) eqn:E; simpl.
    + apply Nat.eqb_eq in E. subst k2.
      destruct (Nat.eqb k' k) eqn:E2; auto. apply Nat.eqb_eq in E2. congruence.
    + destruct (Nat.eqb k' k2); auto.
Qed.

(* ------------------------------------------------------------------ costing with the copy never writes *)
Lemma cost_copy_frame : forall isa dflt d i, snd (cost CopyThenExtend isa dflt d i) = d.
Proof. intros isa dflt d [| |e h|e l [s|] h]; reflexivity. Qed.

Lemma cost_all_copy_frame : forall isa dflt is d, snd (cost_all CopyThenExtend isa dflt d is) = d.
Proof.
  induction is as [|i t IH]; intros d; simpl; auto.
  pose proof (cost_copy_frame isa dflt d i) as H.
  destruct (cost CopyThenExtend isa dflt d i) as [r d1]. simpl in H. subst d1.
  specialize (IH d). destruct (cost_all CopyThenExtend isa dflt d t) as [rs d2]. simpl in *. exact IH.
Qed.

(* with the copy, a line's cost is a function of the line and the (unchanged) tables alone: the report is a `map` *)
Lemma cost_all_copy_map : forall isa dflt is d,
  fst (cost_all CopyThenExtend isa dflt d is) = map (fun i => fst (cost CopyThenExtend isa dflt d i)) is.
Proof.
  induction is as [|i t IH]; intros d; simpl; auto.
  pose proof (cost_copy_frame isa dflt d i) as H.
  destruct (cost CopyThenExtend isa dflt d i) as [r d1] eqn:E. simpl in H. subst d1.
  specialize (IH d). destruct (cost_all CopyThenExtend isa dflt d t) as [rs d2]. simpl in *. rewrite IH. reflexivity.
Qed.

(* ------------------------------------------------------------------ statics are never written, in any mode *)
Lemma analyse_statics : forall disk st md s r,
  let s' := snd (analyse disk st md s r) in
  dflt_operands s' = dflt_operands s /\ dflt_hidden s' = dflt_hidden s /\ dflt_sem s' = dflt_sem s /\
  parser_x86 s' = parser_x86 s /\ parser_a64 s' = parser_a64 s.
Proof.
  intros. unfold s', analyse. cbv zeta.
  destruct (cost_all md _ _ _ _) as [rep d']. simpl. repeat split.
Qed.

Lemma run_dflt : forall disk st md h s, dflt_operands (run disk st md h s) = dflt_operands s.
Proof.
  induction h as [|r t IH]; intros s; simpl; auto.
  rewrite IH. apply analyse_statics.
Qed.

(* ------------------------------------------------------------------ frame *)
Lemma store_eta : forall s, with_cache s (cache s) = s.
Proof. destruct s; reflexivity. Qed.

Theorem analyse_frame_reuse : forall disk s r, loaded s r -> snd (analyse disk Reuse CopyThenExtend s r) = s.
Proof.
  intros disk s r [Hi Ha]. unfold analyse.
  destruct (lookup (r_isa r) (cache s)) as [di|] eqn:Ei; [|congruence].
  destruct (lookup (r_arch r) (cache s)) as [da|] eqn:Ea; [|congruence].
  cbv zeta.
  assert (Li : load disk Reuse (r_isa r) (cache s) = di) by (unfold load; rewrite Ei; reflexivity).
  rewrite Li. rewrite (update_same _ _ _ _ Ei).
  assert (La : load disk Reuse (r_arch r) (cache s) = da) by (unfold load; rewrite Ea; reflexivity).
  rewrite La.
  pose proof (cost_all_copy_frame di (dflt_operands s) (r_instrs r) da) as F.
  destruct (cost_all CopyThenExtend di (dflt_operands s) da (r_instrs r)) as [rep d']. simpl in *. subst d'.
  rewrite (update_same _ _ _ _ Ea). apply store_eta.
Qed.

Definition pristine_c (disk : nat -> mdata) (c : list (nat * mdata)) : Prop :=
  forall p d, lookup p c = Some d -> d = disk p.

Lemma load_pristine : forall disk st p c, pristine_c disk c -> load disk st p c = disk p.
Proof.
  intros disk st p c P. unfold load. destruct st; [destruct (lookup p c); reflexivity|].
  destruct (lookup p c) eqn:E; auto.
Qed.

Lemma pristine_update : forall disk p c, pristine_c disk c -> pristine_c disk (update p (disk p) c).
Proof.
  intros disk p c P q d H. destruct (Nat.eq_dec p q) as [->|N].
  - rewrite lookup_update_eq in H. congruence.
  - rewrite lookup_update_neq in H by exact N. apply P. exact H.
Qed.

Theorem analyse_frame_pristine : forall disk st s r,
  pristine disk s -> loaded s r -> snd (analyse disk st CopyThenExtend s r) = s.
Proof.
  intros disk st s r P [Hi Ha]. unfold analyse.
  destruct (lookup (r_isa r) (cache s)) as [di|] eqn:Ei; [|congruence].
  destruct (lookup (r_arch r) (cache s)) as [da|] eqn:Ea; [|congruence]. cbv zeta.
  assert (Pc : pristine_c disk (cache s)) by exact P.
  rewrite (load_pristine disk st (r_isa r) (cache s) Pc).
  pose proof (P _ _ Ei) as Xi. pose proof (P _ _ Ea) as Xa. subst di da.
  rewrite (update_same _ _ _ _ Ei).
  rewrite (load_pristine disk st (r_arch r) (cache s) Pc).
  pose proof (cost_all_copy_frame (disk (r_isa r)) (dflt_operands s) (r_instrs r) (disk (r_arch r))) as F.
  destruct (cost_all CopyThenExtend (disk (r_isa r)) (dflt_operands s) (disk (r_arch r)) (r_instrs r)) as [rep d'].
  simpl in *. subst d'. rewrite (update_same _ _ _ _ Ea). apply store_eta.
Qed.

(* every store, also one whose models are not pristine or not yet loaded: what is loaded stays as it is *)
Lemma lookup_update_load : forall disk k c p (d : mdata),
  lookup p c = Some d -> lookup p (update k (load disk Reuse k c) c) = Some d.
Proof.
  intros disk k c p d H. destruct (Nat.eq_dec k p) as [->|N].
  - rewrite lookup_update_eq. unfold load. rewrite H. reflexivity.
  - rewrite lookup_update_neq by exact N. exact H.
Qed.

Theorem analyse_keeps_loaded : forall disk s r p d,
  lookup p (cache s) = Some d -> lookup p (cache (snd (analyse disk Reuse CopyThenExtend s r))) = Some d.
Proof.
  intros disk s r p d H. unfold analyse. cbv zeta.
  set (c1 := update (r_isa r) (load disk Reuse (r_isa r) (cache s)) (cache s)).
  assert (H1 : lookup p c1 = Some d) by (apply lookup_update_load; exact H).
  pose proof (cost_all_copy_frame (load disk Reuse (r_isa r) (cache s)) (dflt_operands s) (r_instrs r)
                                  (load disk Reuse (r_arch r) c1)) as F.
  destruct (cost_all CopyThenExtend _ _ _ _) as [rep d']. simpl in *. subst d'.
  apply lookup_update_load. exact H1.
Qed.

Theorem analyse_pristine : forall disk st s r,
  pristine disk s -> pristine disk (snd (analyse disk st CopyThenExtend s r)).
Proof.
  intros disk st s r P. unfold analyse. cbv zeta.
  assert (Pc : pristine_c disk (cache s)) by exact P.
  rewrite (load_pristine disk st (r_isa r) (cache s) Pc).
  assert (P1 : pristine_c disk (update (r_isa r) (disk (r_isa r)) (cache s))) by (apply pristine_update; exact Pc).
  rewrite (load_pristine disk st (r_arch r) _ P1).
  pose proof (cost_all_copy_frame (disk (r_isa r)) (dflt_operands s) (r_instrs r) (disk (r_arch r))) as F.
  destruct (cost_all CopyThenExtend _ _ _ _) as [rep d']. simpl in *. subst d'.
  unfold pristine. simpl. apply pristine_update. exact P1.
Qed.

Lemma run_pristine : forall disk st h s, pristine disk s -> pristine disk (run disk st CopyThenExtend h s).
Proof.
  induction h as [|r t IH]; intros s P; simpl; auto.
  apply IH. apply analyse_pristine. exact P.
Qed.

Lemma fresh_pristine : forall disk, pristine disk fresh.
Proof. intros disk p d H. discriminate H. Qed.

(* ------------------------------------------------------------------ reports *)
Lemma report_pristine : forall disk st s r,
  pristine disk s ->
  fst (analyse disk st CopyThenExtend s r) =
  fst (cost_all CopyThenExtend (disk (r_isa r)) (dflt_operands s) (disk (r_arch r)) (r_instrs r)).
Proof.
  intros disk st s r P. unfold analyse. cbv zeta.
  assert (Pc : pristine_c disk (cache s)) by exact P.
  rewrite (load_pristine disk st (r_isa r) (cache s) Pc).
  assert (P1 : pristine_c disk (update (r_isa r) (disk (r_isa r)) (cache s))) by (apply pristine_update; exact Pc).
  rewrite (load_pristine disk st (r_arch r) _ P1).
  destruct (cost_all CopyThenExtend _ _ _ _) as [rep d']. reflexivity.
Qed.

Theorem history_independent_gen : forall disk st s0 h r,
  pristine disk s0 ->
  fst (analyse disk st CopyThenExtend (run disk st CopyThenExtend h s0) r) = fst (analyse disk st CopyThenExtend s0 r).
Proof.
  intros disk st s0 h r P.
  rewrite (report_pristine disk st _ r (run_pristine disk st h s0 P)).
  rewrite (report_pristine disk st s0 r P).
  rewrite run_dflt. reflexivity.
Qed.

Theorem repeat_same_gen : forall disk st s r,
  pristine disk s ->
  fst (analyse disk st CopyThenExtend (snd (analyse disk st CopyThenExtend s r)) r) = fst (analyse disk st CopyThenExtend s r).
Proof. intros disk st s r P. exact (history_independent_gen disk st s [r] r P). Qed.

(* the shipped constructor re-reads the model file for every request: between requests nothing of the cache is ever
   read back, whatever the composition does to it *)
Theorem reload_masks_gen : forall disk md s s' r,
  dflt_operands s = dflt_operands s' ->
  fst (analyse disk Reload md s r) = fst (analyse disk Reload md s' r).
Proof.
  intros disk md s s' r E. unfold analyse. cbv zeta.
  assert (L : forall p c, load disk Reload p c = disk p) by (intros p c; unfold load; reflexivity).
  rewrite !L. rewrite E.
  destruct (cost_all md _ _ _ _) as [rep d']. reflexivity.
Qed.

(* ------------------------------------------------------------------ the witness: zen2, addq $1,(%rax) then vaddpd (%rax),%xmm0,%xmm1
   micro-op codes: 1 = ALU (1 cycle on 4567), 2 = FP add (1 on 23), 3 = load (1 on 8,9 + 8D,9D),
                   4 = store address (1 on 8,9,10), 5 = store data (1 on 10D) *)
Definition w_zen2 : mdata := MData [[1]; [2]] [[3]] [[4; 5]] [3] [4; 5] [].
Definition w_isa : mdata := MData [] [] [] [] [] [[7]].
Definition w_disk (p : nat) : mdata := match p with 0 => w_zen2 | _ => w_isa end.
Definition w_rmw : request := Req 0 1 [Composed 0 (Some (LRow 0)) (Some (SRow 0)) (Some 0)].
Definition w_load : request := Req 0 1 [Composed 1 (Some (LRow 0)) None None].
Definition w_loaded : store := Store [(1, w_isa); (0, w_zen2)] [] [] [] [] [].

Lemma w_loaded_is_loaded : loaded w_loaded w_rmw /\ pristine w_disk w_loaded.
Proof.
  split; [split; simpl; discriminate|].
  intros p d H. simpl in H.
  destruct p as [|[|p]]; simpl in H; inversion H; reflexivity.
Qed.

Lemma frame_refuted_w : snd (analyse w_disk Reuse ExtendInPlace w_loaded w_rmw) <> w_loaded.
Proof. vm_compute. discriminate. Qed.

Lemma later_load_has_store_uops :
  map lr_uops (fst (analyse w_disk Reuse ExtendInPlace (run w_disk Reuse ExtendInPlace [w_rmw] fresh) w_load)) = [[2; 3; 4; 5]]
  /\ map lr_uops (fst (analyse w_disk Reuse ExtendInPlace fresh w_load)) = [[2; 3]].
Proof. split; vm_compute; reflexivity. Qed.

Lemma history_refuted_w :
  fst (analyse w_disk Reuse ExtendInPlace (run w_disk Reuse ExtendInPlace [w_rmw] fresh) w_load)
  <> fst (analyse w_disk Reuse ExtendInPlace fresh w_load).
Proof. vm_compute. discriminate. Qed.

Lemma repeat_refuted_w :
  let r := Req 0 1 [Composed 0 (Some (LRow 0)) (Some (SRow 0)) None] in
  fst (analyse w_disk Reuse ExtendInPlace (snd (analyse w_disk Reuse ExtendInPlace fresh r)) r)
  <> fst (analyse w_disk Reuse ExtendInPlace fresh r).
Proof. vm_compute. discriminate. Qed.

(* inside ONE request the shipped composition is visible even with per-request reloading: the load line of
   [addq $1,(%rax) ; vaddpd (%rax),..] is costed differently from the same line analysed alone *)
Lemma within_request_refuted_w :
  nth 1 (map lr_uops (fst (analyse w_disk Reload ExtendInPlace fresh
           (Req 0 1 [Composed 0 (Some (LRow 0)) (Some (SRow 0)) None; Composed 1 (Some (LRow 0)) None None])))) []
  <> nth 0 (map lr_uops (fst (analyse w_disk Reload ExtendInPlace fresh w_load))) [].
Proof. vm_compute. discriminate. Qed.
