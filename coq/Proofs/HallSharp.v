(* A sharper form of Hall's condition for feasible splits with slack (Proofs/Feasible.v, Proofs/Optimum.v): the slack
   eps is paid once per PAIR (micro-op not confined to S, port of S that this micro-op may use) -- a micro-op that cannot
   use any port of S costs nothing.  Then the kernel-level weak duality with that slack. *)
From Coq Require Import QArith Qfield Lqa Lia List Bool Arith.
From OV Require Import Proofs.Feasible Proofs.Optimum.
Import ListNotations.
Open Scope Q_scope.

(* ports of S that the micro-op may use *)
Definition pairs (P : nat) (S : nat -> bool) (u : uopQ) : Q :=
  sumn P (fun p => if S p && memb p (up u) then 1 else 0).

Definition slack_pairs (P : nat) (S : nat -> bool) (us : list uopQ) : Q :=
  sumn (length us) (fun u => if confined S (uget us u) then 0 else pairs P S (uget us u)).

Lemma sumn_scale_l n c f : sumn n (fun i => c * f i) == c * sumn n f.
Proof. induction n as [|n IH]; simpl; [ring|]. rewrite IH. ring. Qed.

Lemma pairs_nonneg P S u : 0 <= pairs P S u.
Proof. unfold pairs. induction P as [|n IH]; simpl; [lra|]. destruct (S n && memb n (up u)); lra. Qed.

Lemma pairs_le_card P S u : pairs P S u <= card P S.
Proof.
  unfold pairs, card. apply sumn_le. intros p _. destruct (S p); cbn [andb]; [|lra]. destruct (memb p (up u)); lra.
Qed.

Theorem feasible_hall_sharp P eps us v (S : nat -> bool) :
  0 <= eps -> Feasible P eps us v ->
  confined_cycles S us - eps * slack_pairs P S us <= load P S v.
Proof.
  intros He (sh & Hlo & Hs & Hrow & Hv).
  unfold load.
  rewrite (sumn_ext P _ (fun p => sumn (length us) (fun u => if S p then sh u p else 0))).
  2:{ intros p Hp. destruct (S p).
      - apply Hv; assumption.
      - symmetry. apply sumn_zero. intros; reflexivity. }
  rewrite sumn_swap.
  unfold confined_cycles, slack_pairs.
  assert (Key : forall u, (u < length us)%nat ->
     (if confined S (uget us u) then uc (uget us u) else 0)
     - eps * (if confined S (uget us u) then 0 else pairs P S (uget us u))
     <= sumn P (fun p => if S p then sh u p else 0)).
  { intros u Hu. destruct (confined S (uget us u)) eqn:C.
    - rewrite (sumn_ext P (fun p => if S p then sh u p else 0) (sh u)).
      + rewrite (Hrow u Hu). lra.
      + intros p Hp. destruct (S p) eqn:Sp; [reflexivity|].
        symmetry. apply Hs; auto. intros Hin.
        unfold confined in C. rewrite forallb_forall in C. rewrite (C p Hin) in Sp. discriminate.
    - unfold pairs. rewrite <- sumn_scale_l.
      assert (H : sumn P (fun p => - (eps * (if S p && memb p (up (uget us u)) then 1 else 0)))
                  <= sumn P (fun p => if S p then sh u p else 0)).
      { apply sumn_le. intros p Hp. destruct (S p); cbn [andb].
        - destruct (memb p (up (uget us u))) eqn:M.
          + specialize (Hlo u p Hu Hp). lra.
          + assert (E : sh u p == 0).
            { apply Hs; auto. intros Hin. apply memb_In in Hin. congruence. }
            rewrite E. lra.
        - lra. }
      assert (E : sumn P (fun p => - (eps * (if S p && memb p (up (uget us u)) then 1 else 0)))
                  == - sumn P (fun p => eps * (if S p && memb p (up (uget us u)) then 1 else 0))).
      { clear. induction P as [|n IH]; simpl; [ring|]. rewrite IH. ring. }
      rewrite E in H. lra. }
  assert (G : forall n, (n <= length us)%nat ->
     sumn n (fun u => if confined S (uget us u) then uc (uget us u) else 0)
     - eps * sumn n (fun u => if confined S (uget us u) then 0 else pairs P S (uget us u))
     <= sumn n (fun u => sumn P (fun p => if S p then sh u p else 0))).
  { induction n as [|n IH]; intros Hn; simpl; [lra|].
    specialize (IH ltac:(lia)). specialize (Key n ltac:(lia)). lra. }
  apply G. lia.
Qed.

(* ---- kernel level ---- *)
Definition kpairs (P : nat) (S : nat -> bool) (ks : list kinstr) : Q :=
  sumn (length ks) (fun i => slack_pairs P S (fst (kget ks i))).

Theorem kernel_hall_sharp P eps ks S :
  0 <= eps ->
  (forall i, (i < length ks)%nat -> Feasible P eps (fst (kget ks i)) (snd (kget ks i))) ->
  kconfined S ks - eps * kpairs P S ks <= load P S (kload ks).
Proof.
  intros He HF. unfold kload. rewrite load_sum. unfold kconfined, kpairs.
  assert (G : forall n, (n <= length ks)%nat ->
    sumn n (fun i => confined_cycles S (fst (kget ks i))) - eps * sumn n (fun i => slack_pairs P S (fst (kget ks i)))
    <= sumn n (fun i => load P S (snd (kget ks i)))).
  { induction n as [|n IH]; intros Hn; simpl; [lra|].
    specialize (IH ltac:(lia)).
    pose proof (feasible_hall_sharp P eps _ _ S He (HF n ltac:(lia))). lra. }
  apply G. lia.
Qed.

Theorem opt_is_lower_bound_sharp P eps ks S B :
  0 <= eps ->
  (forall i, (i < length ks)%nat -> Feasible P eps (fst (kget ks i)) (snd (kget ks i))) ->
  (forall p, (p < P)%nat -> kload ks p <= B) ->
  kconfined S ks - eps * kpairs P S ks <= card P S * B.
Proof.
  intros He HF HB. pose proof (kernel_hall_sharp P eps ks S He HF). pose proof (load_le_card P S _ B HB). lra.
Qed.

(* non-vacuity / the bound is sharper: two micro-ops, S = {0}: the one on port 1 only costs nothing *)
Example slack_pairs_example :
  slack_pairs 2 (fun p => Nat.eqb p 0) [mkU 1 [0; 1]%nat; mkU 1 [1%nat]] == 1 /\
  nonconfined (fun p => Nat.eqb p 0) [mkU 1 [0; 1]%nat; mkU 1 [1%nat]] == 2.
Proof. split; vm_compute; reflexivity. Qed.
