(* Facts about the role assignment model (Model/Roles.v), DESIGN.md C03 "roles_spec". *)
From Coq Require Import List Bool String Arith Lia.
From OV Require Import Model.Num Model.Pressure Model.Deps Model.Roles.
Import ListNotations.

Definition no_mem (l : list opnd) : Prop := forall o, In o l -> match o with OMem _ => False | _ => True end.

Lemma writeback_no_mem l : no_mem l -> writeback_bases l = [].
Proof.
  induction l as [|o l IH]; intros H; [reflexivity|]. cbn [writeback_bases flat_map].
  assert (Ho := H o (or_introl eq_refl)). destruct o; try contradiction; cbn; apply IH; intros x Hx; apply H; right; exact Hx.
Qed.

Lemma mark_base_no_mem l : no_mem l -> map mark_base l = l.
Proof.
  induction l as [|o l IH]; intros H; [reflexivity|]. cbn [map].
  assert (Ho := H o (or_introl eq_refl)). rewrite IH by (intros x Hx; apply H; right; exact Hx).
  destruct o; try contradiction; reflexivity.
Qed.

(* a dependency-breaking idiom written with equal, non-memory operands: everything is a destination, nothing is read *)
Theorem zero_idiom_roles x86 e ops :
  e_idiom e = true -> all_equal_keys ops = true ->
  no_mem (map fst ops) -> no_mem (map fst (e_hidden e)) ->
  assign_roles x86 (Some e) ops = ([], map fst ops ++ map fst (e_hidden e), []).
Proof.
  intros Hi Heq Hops Hhid. unfold assign_roles, apply_found. rewrite Hi, Heq. cbn [andb].
  destruct x86; [reflexivity|].
  assert (ND : no_mem (map fst ops ++ map fst (e_hidden e))).
  { intros o Ho. apply in_app_or in Ho. destruct Ho; [apply Hops | apply Hhid]; assumption. }
  cbn [writeback_bases flat_map app map]. rewrite app_nil_r. rewrite writeback_no_mem by exact ND.
  rewrite mark_base_no_mem by exact ND. reflexivity.
Qed.


Lemma existsb_mem_false (f : memop -> bool) (l : list opnd) :
  no_mem l -> existsb (fun d => match d with OMem m => f m | _ => false end) l = false.
Proof.
  induction l as [|o l IH]; intros H; [reflexivity|]. cbn [existsb].
  assert (Ho := H o (or_introl eq_refl)). rewrite IH by (intros x Hx; apply H; right; exact Hx).
  destruct o; try contradiction; reflexivity.
Qed.

Theorem zero_idiom_reads_nothing {T : Type} (dep : regop -> regop -> bool) x86 e ops (l : line (T:=T)) :
  e_idiom e = true -> all_equal_keys ops = true ->
  no_mem (map fst ops) -> no_mem (map fst (e_hidden e)) ->
  l_sem l = Some (assign_roles x86 (Some e) ops) ->
  forall a, is_read dep a l = false.
Proof.
  intros Hi Heq Hops Hhid Hsem a. rewrite (zero_idiom_roles x86 e ops Hi Heq Hops Hhid) in Hsem.
  unfold is_read, srcs, dsts. rewrite Hsem. cbn [app existsb orb]. rewrite app_nil_r.
  apply existsb_mem_false.
  intros o Ho. apply in_app_or in Ho. destruct Ho; [apply Hops | apply Hhid]; assumption.
Qed.

(* default roles: x86 -- the last operand is the only destination; AArch64 -- the first one *)
Theorem default_roles_x86 (ops : list popnd) :
  (2 <= List.length ops)%nat ->
  assign_roles true None ops = (removelast (map fst ops), [last (map fst ops) OOther], []).
Proof.
  intros H. unfold assign_roles, default_roles.
  destruct ops as [|a [|b r]]; cbn [List.length] in H; try lia. reflexivity.
Qed.

Theorem default_roles_single x86 (a : popnd) :
  (match fst a with OMem _ => False | _ => True end) ->
  assign_roles x86 None [a] = ([fst a], [], []).
Proof.
  intros H. unfold assign_roles, default_roles. cbn [map]. destruct x86; [reflexivity|].
  destruct (fst a); try contradiction; reflexivity.
Qed.

(* operands with role (source, destination) = (true, true) are both read and written: they land in src_dst *)
Theorem rmw_in_srcdst x86 e ops i o k :
  andb (e_idiom e) (all_equal_keys ops) = false ->
  nth_error ops i = Some (o, k) -> nth_error (e_roles e) i = Some (true, true) ->
  let '(_, _, sd) := assign_roles x86 (Some e) ops in In (if x86 then o else mark_base o) sd.
Proof.
  intros Hn Ho Hr. unfold assign_roles, apply_found. rewrite Hn.
  assert (Hin : In o (by_role (map fst ops) (e_roles e) is_srcdst)).
  { unfold by_role. apply in_map_iff. exists (o, (true, true)). split; [reflexivity|].
    apply filter_In. split; [|reflexivity].
    clear Hn. revert i Ho Hr. generalize (e_roles e). induction ops as [|[o' k'] ops IH]; intros rs i Ho Hr.
    - destruct i; discriminate.
    - destruct rs as [|r rs]; [destruct i; discriminate|]. destruct i as [|i]; cbn in Ho, Hr.
      + inversion Ho; inversion Hr; subst. left. reflexivity.
      + right. eapply IH; eassumption. }
  destruct x86.
  - apply in_or_app. left. exact Hin.
  - apply in_map. apply in_or_app. left. apply in_or_app. left. apply in_or_app. left. exact Hin.
Qed.

(* AArch64: the base register of every pre/post-indexed memory operand that has a role is registered as read+written *)
Theorem writeback_base_in_srcdst e ops m b :
  let '(s0, d0, sd0) := match e with Some en => apply_found en ops | None => default_roles false ops end in
  (In (OMem m) s0 \/ In (OMem m) d0 \/ In (OMem m) sd0) ->
  orb (m_pre m) (m_post m) = true -> m_base m = Some b ->
  let '(_, _, sd) := assign_roles false e ops in In (OReg (mkR (r_name b) (r_prefix b) true)) sd.
Proof.
  unfold assign_roles.
  destruct (match e with Some en => apply_found en ops | None => default_roles false ops end) as [[s0 d0] sd0].
  intros Hin Hpp Hb.
  assert (WB : forall l, In (OMem m) l -> In (OReg (mkR (r_name b) (r_prefix b) true)) (writeback_bases l)).
  { intros l Hl. unfold writeback_bases. apply in_flat_map. exists (OMem m). split; [exact Hl|]. rewrite Hpp, Hb. left. reflexivity. }
  assert (MK : forall x, mark_base (OReg x) = OReg x) by reflexivity.
  apply in_map_iff. exists (OReg (mkR (r_name b) (r_prefix b) true)). split; [reflexivity|].
  destruct Hin as [H|[H|H]].
  - apply in_or_app. left. apply in_or_app. right. apply WB. exact H.
  - apply in_or_app. right. apply WB. apply in_or_app. left. exact H.
  - apply in_or_app. right. apply WB. apply in_or_app. right. apply in_or_app. left. exact H.
Qed.
