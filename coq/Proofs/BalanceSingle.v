(* One micro-op balancing loop on a SINGLE-MICRO-OP instruction, exact rationals (QNum):
   the loop keeps the instruction's total, keeps every cell non-negative and keeps its own invariant
   (every still-balanced cell > 1/200), whatever the `differences` list (b_df) contains.
   Consequence: the balanced pressure of a single-micro-op instruction is a feasible split, slack 0. *)
From Coq Require Import QArith Qround Qfield Lqa Lia List Bool Arith String ZArith.
From OV Require Import Model.Num Model.Pressure Proofs.ListSpec Proofs.Feasible Proofs.PressureQ Proofs.BalanceFrame.
Import ListNotations.
Open Scope Q_scope.
Local Notation length := List.length (only parsing).

(* ================================================================ rounding to hundredths *)
Lemma Zrhe_spec num den :
  let z := Zround_half_even num den in
  (2 * z * Zpos den - Zpos den <= 2 * num)%Z /\ (2 * num <= 2 * z * Zpos den + Zpos den)%Z /\
  ((2 * num = 2 * z * Zpos den + Zpos den \/ 2 * num = 2 * z * Zpos den - Zpos den)%Z -> Z.even z = true).
Proof.
  unfold Zround_half_even. cbv zeta.
  pose proof (Z.div_mod num (Zpos den) ltac:(lia)) as DM.
  pose proof (Z.mod_pos_bound num (Zpos den) ltac:(lia)) as MB.
  set (q := (num / Zpos den)%Z) in *. set (r := (num mod Zpos den)%Z) in *.
  set (d := Zpos den) in *. clearbody q r d.
  destruct (2 * r ?= d)%Z eqn:C.
  - apply Z.compare_eq in C.
    destruct (Z.even q) eqn:E.
    + split; [lia | split; [lia | intros _; exact E]].
    + split; [lia | split; [lia | intros _]].
      rewrite Z.add_1_r, Z.even_succ, <- Z.negb_even, E. reflexivity.
  - change (2 * r < d)%Z in C. split; [lia | split; [lia | intros [T|T]; exfalso; lia]].
  - change (2 * r > d)%Z in C. split; [lia | split; [lia | intros [T|T]; exfalso; lia]].
Qed.

(* round(x, 2) <= 0  <->  x <= 0.005 (ties go to the even hundredth 0.00) *)
Lemma Qround2_le0 x : Qround2 x <= 0 <-> x <= 1 # 200.
Proof.
  unfold Qround2. rewrite Qred_correct. destruct x as [n d]. cbn [Qnum Qden].
  destruct (Zrhe_spec (n * 100) d) as (H1 & H2 & HT).
  set (z := Zround_half_even (n * 100) d) in *.
  unfold Qle. cbn [Qnum Qden]. split; intros H.
  - lia.
  - destruct (Z_le_gt_dec z 0) as [L|G]; [lia|]. exfalso.
    assert (A : (z * Zpos d >= Zpos d)%Z) by nia.
    assert (B : (z * Zpos d = Zpos d)%Z) by lia.
    assert (Z1 : z = 1%Z) by nia.
    assert (E : Z.even z = true) by (apply HT; right; lia).
    rewrite Z1 in E. discriminate.
Qed.

Lemma Qround2_ge0 x : 0 <= Qround2 x <-> - (1 # 200) <= x.
Proof.
  unfold Qround2. rewrite Qred_correct. destruct x as [n d]. cbn [Qnum Qden].
  destruct (Zrhe_spec (n * 100) d) as (H1 & H2 & HT).
  set (z := Zround_half_even (n * 100) d) in *.
  unfold Qle. cbn [Qnum Qden Qopp]. split; intros H.
  - lia.
  - destruct (Z_le_gt_dec 0 z) as [L|G]; [lia|]. exfalso.
    assert (A : (z * Zpos d <= - Zpos d)%Z) by nia.
    assert (B : (z * Zpos d = - Zpos d)%Z) by lia.
    assert (Z1 : z = (-1)%Z) by nia.
    assert (E : Z.even z = true) by (apply HT; left; lia).
    rewrite Z1 in E. discriminate.
Qed.

Lemma Qround2_eq0 x : - (1 # 200) <= x -> x <= 1 # 200 -> Qround2 x == 0.
Proof.
  intros A B. apply Qle_antisym; [apply Qround2_le0; exact B | apply Qround2_ge0; exact A].
Qed.

Lemma Qround2_pos x : 1 # 200 < x -> 0 < Qround2 x.
Proof.
  intros H. apply Qnot_le_lt. intros C. apply Qround2_le0 in C. lra.
Qed.

(* ================================================================ QNum comparisons *)
Lemma qleb_true a b : nleb QNum a b = true <-> a <= b.
Proof. cbn [nleb QNum]. unfold Qleb. apply Qle_bool_iff. Qed.

Lemma qltb_true a b : nltb QNum a b = true <-> a < b.
Proof.
  cbn [nltb QNum]. unfold Qltb. rewrite negb_true_iff. split; intros H.
  - apply Qnot_le_lt. intros C. apply Qle_bool_iff in C. congruence.
  - destruct (Qle_bool b a) eqn:E; [|reflexivity]. apply Qle_bool_iff in E. lra.
Qed.

Lemma qeqb_true a b : neqb QNum a b = true <-> a == b.
Proof. cbn [neqb QNum]. unfold Qeqb. apply Qeq_bool_iff. Qed.

Lemma INC_Q : INC QNum = 1 # 100.
Proof. reflexivity. Qed.

(* ================================================================ list facts *)
Fixpoint lsum (l : list Q) : Q := match l with [] => 0 | x :: r => x + lsum r end.

Definition vals_at (pp : list Q) (ind : list nat) : list Q := map (fun p => nth p pp 0) ind.

Lemma vals_at_nth pp ind j : (j < length ind)%nat -> nth j (vals_at pp ind) 0 = nth (nth j ind 0%nat) pp 0.
Proof.
  intros H. unfold vals_at.
  rewrite (nth_indep _ 0 ((fun p => nth p pp 0) 0%nat)) by (rewrite map_length; exact H).
  exact (map_nth (fun p => nth p pp 0) ind 0%nat j).
Qed.

Lemma vals_at_length pp ind : length (vals_at pp ind) = length ind.
Proof. apply map_length. Qed.

Lemma sumn_shift n (f : nat -> Q) : sumn (S n) f == f 0%nat + sumn n (fun k => f (S k)).
Proof.
  induction n as [|n IHn]; [simpl; ring|].
  change (sumn (S (S n)) f) with (sumn (S n) f + f (S n)). rewrite IHn. simpl. ring.
Qed.

Lemma lsum_sumn l : lsum l == sumn (length l) (qnth l).
Proof.
  induction l as [|x l IH]; [reflexivity|].
  cbn [lsum length]. rewrite sumn_shift, IH. unfold qnth. cbn [nth]. reflexivity.
Qed.

Lemma nth_res_nth {A} (l : list A) i d : (i < length l)%nat -> nth_res l i = Ok (nth i l d).
Proof. intros H. unfold nth_res. rewrite (nth_error_nth' l d H). reflexivity. Qed.

Lemma set_nth_lsum : forall l i v l', set_nth l i v = Ok l' -> lsum l' == lsum l - nth i l 0 + v.
Proof.
  induction l as [|x l IH]; intros i v l' H; [destruct i; discriminate|].
  destruct i as [|i]; simpl in H.
  - inversion H; subst. simpl. ring.
  - destruct (set_nth l i v) as [r|] eqn:E; cbn [bind] in H; [|discriminate].
    inversion H; subst. cbn [lsum nth]. rewrite (IH _ _ _ E). ring.
Qed.

Lemma getmany_go_spec (l : list Q) : forall idx xs,
  getmany_go l idx = Ok xs -> (forall p, In p idx -> (p < length l)%nat) /\ xs = vals_at l idx.
Proof.
  induction idx as [|i idx IH]; intros xs H; simpl in H.
  - inversion H; subst. split; [intros p []|reflexivity].
  - destruct (nth_res l i) as [x|] eqn:E; cbn [bind] in H; [|discriminate].
    destruct (getmany_go l idx) as [r|] eqn:G; cbn [bind] in H; [|discriminate].
    inversion H; subst. destruct (IH _ eq_refl) as (R & V).
    destruct (nth_res_ok _ _ _ 0 E) as (N & L). split.
    + intros p [Hp|Hp]; [subst; exact L | apply R; exact Hp].
    + cbn [vals_at map]. fold (vals_at l idx). rewrite N, V. reflexivity.
Qed.

Lemma getmany_go_intro (l : list Q) : forall idx,
  (forall p, In p idx -> (p < length l)%nat) -> getmany_go l idx = Ok (vals_at l idx).
Proof.
  induction idx as [|i idx IH]; intros R; [reflexivity|].
  cbn [getmany_go]. rewrite (nth_res_nth l i 0) by (apply R; left; reflexivity). cbn [bind].
  rewrite IH by (intros p Hp; apply R; right; exact Hp). reflexivity.
Qed.

Lemma getmany_spec (l : list Q) idx xs :
  getmany l idx = Ok xs -> idx <> [] /\ (forall p, In p idx -> (p < length l)%nat) /\ xs = vals_at l idx.
Proof.
  unfold getmany. destruct idx as [|i idx]; [discriminate|]. intros H.
  destruct (getmany_go_spec _ _ _ H). split; [discriminate | split; assumption].
Qed.

Lemma getmany_intro (l : list Q) idx :
  idx <> [] -> (forall p, In p idx -> (p < length l)%nat) -> getmany l idx = Ok (vals_at l idx).
Proof.
  unfold getmany. destruct idx as [|i idx]; [congruence|]. intros _. apply getmany_go_intro.
Qed.

Lemma getmany_go_length {A} (l : list A) : forall idx xs, getmany_go l idx = Ok xs -> length xs = length idx.
Proof.
  induction idx as [|i idx IH]; intros xs H; simpl in H.
  - inversion H; reflexivity.
  - destruct (nth_res l i) as [x|]; cbn [bind] in H; [|discriminate].
    destruct (getmany_go l idx) as [r|] eqn:G; cbn [bind] in H; [|discriminate].
    inversion H; subst. simpl. f_equal. apply IH. reflexivity.
Qed.

Lemma getmany_length {A} (l : list A) idx xs : getmany l idx = Ok xs -> length xs = length idx.
Proof. unfold getmany. destruct idx; [discriminate|]. apply getmany_go_length. Qed.

Lemma setzip_spec : forall idx vals l l',
  setzip l idx vals = Ok l' -> NoDup idx -> length vals = length idx ->
  vals_at l' idx = vals /\ lsum l' == lsum l - lsum (vals_at l idx) + lsum vals.
Proof.
  induction idx as [|i idx IH]; intros vals l l' H ND LV.
  - destruct vals; [|discriminate]. simpl in H. inversion H; subst. split; [reflexivity|]. simpl. ring.
  - destruct vals as [|v vals]; [discriminate|]. simpl in H.
    destruct (set_nth l i v) as [l1|] eqn:E; cbn [bind] in H; [|discriminate].
    inversion ND as [|? ? Hnotin ND']; subst.
    destruct (IH _ _ _ H ND' ltac:(simpl in LV; lia)) as (V & S).
    destruct (setzip_frame 0 _ _ _ _ H) as (L2 & O2).
    destruct (set_nth_ok _ _ _ _ 0 E) as (L1 & N1 & O1).
    assert (EV : vals_at l1 idx = vals_at l idx).
    { unfold vals_at. apply map_ext_in. intros p Hp. apply O1. intros C. subst. contradiction. }
    split.
    + cbn [vals_at map]. fold (vals_at l' idx). rewrite V, (O2 i Hnotin), N1. reflexivity.
    + rewrite S, EV, (set_nth_lsum _ _ _ _ E). cbn [vals_at map lsum]. fold (vals_at l idx). ring.
Qed.

Lemma setmany_setzip {A} (l : list A) idx vals :
  length vals = length idx -> setmany l idx vals = setzip l idx vals.
Proof.
  intros LV. unfold setmany. destruct idx as [|i [|i2 idx]]; try reflexivity.
  destruct vals as [|v [|v2 vals]]; try discriminate. simpl.
  destruct (set_nth l i v); reflexivity.
Qed.

Lemma setmany_spec idx vals l l' :
  setmany l idx vals = Ok l' -> NoDup idx -> length vals = length idx ->
  length l' = length l /\ vals_at l' idx = vals /\
  (forall j, ~ In j idx -> nth j l' 0 = nth j l 0) /\
  lsum l' == lsum l - lsum (vals_at l idx) + lsum vals.
Proof.
  intros H ND LV. destruct (setmany_frame 0 _ _ _ _ H) as (L & O).
  rewrite setmany_setzip in H by exact LV.
  destruct (setzip_spec _ _ _ _ H ND LV) as (V & S). repeat split; assumption.
Qed.

Lemma add_at_spec l i d l' :
  add_at QNum l i d = Ok l' ->
  (i < length l)%nat /\ length l' = length l /\ nth i l' 0 == nth i l 0 + d /\
  (forall j, j <> i -> nth j l' 0 = nth j l 0) /\ lsum l' == lsum l + d.
Proof.
  unfold add_at. intros H.
  destruct (nth_res l i) as [x|] eqn:E; cbn [bind] in H; [|discriminate].
  destruct (nth_res_ok _ _ _ 0 E) as (N & L).
  destruct (set_nth_ok _ _ _ _ 0 H) as (L1 & N1 & O1).
  pose proof (set_nth_lsum _ _ _ _ H) as S.
  repeat split; try assumption.
  - rewrite N1. cbn [nadd QNum]. rewrite Qred_correct, N. reflexivity.
  - rewrite S. cbn [nadd QNum]. rewrite Qred_correct, N. ring.
Qed.

Lemma sub_at_spec l i d l' :
  sub_at QNum l i d = Ok l' ->
  (i < length l)%nat /\ length l' = length l /\ nth i l' 0 == nth i l 0 - d /\
  (forall j, j <> i -> nth j l' 0 = nth j l 0) /\ lsum l' == lsum l - d.
Proof.
  unfold sub_at. intros H.
  destruct (nth_res l i) as [x|] eqn:E; cbn [bind] in H; [|discriminate].
  destruct (nth_res_ok _ _ _ 0 E) as (N & L).
  destruct (set_nth_ok _ _ _ _ 0 H) as (L1 & N1 & O1).
  pose proof (set_nth_lsum _ _ _ _ H) as S.
  repeat split; try assumption.
  - rewrite N1. cbn [nsub QNum]. rewrite Qred_correct, N. reflexivity.
  - rewrite S. cbn [nsub QNum]. rewrite Qred_correct, N. ring.
Qed.

Lemma list_min_spec l m : list_min QNum l = Ok m -> In m l /\ forall x, In x l -> m <= x.
Proof.
  unfold list_min. destruct l as [|a r]; [discriminate|]. intros H. inversion H as [Hm]. clear H.
  assert (G : forall r a, let m := fold_left (fun m y => if nltb QNum y m then y else m) r a in
                          (m = a \/ In m r) /\ m <= a /\ forall y, In y r -> m <= y).
  { clear. induction r as [|y r IH]; intros a; cbn [fold_left].
    - split; [left; reflexivity|]. split; [lra|]. intros y [].
    - destruct (nltb QNum y a) eqn:E.
      + apply qltb_true in E. destruct (IH y) as (I & L & A). split; [|split].
        * destruct I as [I|I]; [right; left; symmetry; exact I | right; right; exact I].
        * lra.
        * intros z [Hz|Hz]; [subst; exact L | apply A; exact Hz].
      + assert (a <= y).
        { apply Qnot_lt_le. intros C. apply qltb_true in C. congruence. }
        destruct (IH a) as (I & L & A). split; [|split].
        * destruct I as [I|I]; [left; exact I | right; right; exact I].
        * exact L.
        * intros z [Hz|Hz]; [subst; lra | apply A; exact Hz]. }
  destruct (G r a) as (I & L & A). split.
  - destruct I as [I|I]; [left; symmetry; exact I | right; exact I].
  - intros x [Hx|Hx]; [subst; exact L | apply A; exact Hx].
Qed.

Lemma index_of_lt {T} (N : NumOps T) l v i : index_of N l v = Ok i -> (i < length l)%nat.
Proof.
  unfold index_of. destruct (find_index _ l 0) as [j|] eqn:E; [|discriminate].
  intros H. inversion H; subst. apply find_index_spec in E. lia.
Qed.

Lemma filter_res_spec (f : nat -> res bool) : forall l l',
  filter_res f l = Ok l' -> (forall p, In p l' -> In p l /\ f p = Ok true) /\ (NoDup l -> NoDup l').
Proof.
  induction l as [|p l IH]; intros l' H; simpl in H.
  - inversion H; subst. split; [intros p [] | auto].
  - destruct (f p) as [b|] eqn:Fp; cbn [bind] in H; [|discriminate].
    destruct (filter_res f l) as [r|] eqn:E; cbn [bind] in H; [|discriminate].
    inversion H; subst. destruct (IH _ eq_refl) as (I & ND). destruct b.
    + split.
      * intros q [Hq|Hq]; [subst; split; [left; reflexivity | exact Fp]|].
        destruct (I q Hq). split; [right|]; assumption.
      * intros D. inversion D; subst. constructor; [|auto].
        intros C. destruct (I _ C). contradiction.
    + split.
      * intros q Hq. destruct (I q Hq). split; [right|]; assumption.
      * intros D. inversion D; subst. auto.
Qed.

Lemma del_nth_NoDup {A} : forall (l : list A) i l', del_nth l i = Ok l' -> NoDup l -> NoDup l'.
Proof.
  induction l as [|x l IH]; intros i l' H ND; [destruct i; discriminate|].
  inversion ND; subst. destruct i as [|i]; simpl in H.
  - inversion H; subst. assumption.
  - destruct (del_nth l i) as [r|] eqn:E; cbn [bind] in H; [|discriminate].
    inversion H; subst. constructor; [|eapply IH; eauto].
    intros C. apply (del_nth_incl _ _ _ E) in C. contradiction.
Qed.

Lemma fres_nth (g : Q -> bool) pp p :
  (p < length pp)%nat -> (v <- nth_res pp p ;; Ok (g v)) = Ok true -> g (nth p pp 0) = true.
Proof. intros L H. rewrite (nth_res_nth pp p 0 L) in H. cbn [bind] in H. congruence. Qed.

(* ================================================================ the loop invariant *)
(* every index still being balanced is distinct, in range, and its cell is > 1/200; ip is the list of those cells *)
Definition Inv3 (pp : list Q) (ind : list nat) (ip : list Q) : Prop :=
  NoDup ind /\ ind <> [] /\ (forall p, In p ind -> (p < length pp)%nat /\ 1 # 200 < nth p pp 0) /\
  ip = vals_at pp ind.

Definition Inv (s : @bstate Q) : Prop :=
  Inv3 (b_pp s) (b_ind s) (b_ip s) /\ length (b_ps s) = length (b_ind s).

(* cells at a list of ports, seen through positions *)
Lemma port_view (P : Q -> Prop) pp ind vals maxi :
  vals_at pp ind = vals ->
  (forall j, (j < length ind)%nat -> j <> maxi -> P (nth j vals 0)) ->
  forall p, In p ind -> p <> nth maxi ind 0%nat -> P (nth p pp 0).
Proof.
  intros V H p Hp Hne. apply (In_nth _ _ 0%nat) in Hp. destruct Hp as (j & Hj & E). subst p.
  rewrite <- (vals_at_nth pp ind j Hj), V. apply H; [exact Hj|]. intros C. subst. apply Hne. reflexivity.
Qed.

(* ---- rule 1, given the shape of the entries after the +-INC move ---- *)
Lemma rule1_inv ps mn pp1 ind ip2 df2 mini maxi pp2 ind2 ip3 df3 ex :
  NoDup ind -> ind <> [] -> (forall p, In p ind -> (p < length pp1)%nat) ->
  vals_at pp1 ind = ip2 ->
  index_of QNum ps mn = Ok mini -> (mini < length ind)%nat -> (maxi < length ind)%nat ->
  - (1 # 200) < nth maxi ip2 0 ->
  (forall j, (j < length ind)%nat -> j <> maxi -> 1 # 200 < nth j ip2 0) ->
  (mini <> maxi -> (1 # 200) + (1 # 100) < nth mini ip2 0) ->
  (mini = maxi -> 1 # 200 < nth maxi ip2 0) ->
  rule1 QNum ps mn pp1 ind ip2 df2 = Ok (pp2, ind2, ip3, df3, ex) ->
  Inv3 pp2 ind2 ip3 /\ incl ind2 ind /\ length pp2 = length pp1 /\
  (forall p, In p ind -> 0 <= nth p pp2 0) /\ lsum pp2 == lsum pp1.
Proof.
  intros ND NE RG VA IM Lmini Lmaxi Bmax Both Bmini Bsame H.
  assert (Lip : length ip2 = length ind) by (rewrite <- VA; apply vals_at_length).
  unfold rule1 in H.
  destruct (list_min QNum ip2) as [m|] eqn:E0; cbn [bind] in H; [|discriminate].
  destruct (list_min_spec _ _ E0) as (Min & Mle).
  destruct (nleb QNum (nround2 QNum m) (zero QNum)) eqn:Fire.
  2:{ (* rule 1 does not fire: every entry is > 1/200 *)
    inversion H; subst pp2 ind2 ip3 df3 ex.
    assert (Hm : 1 # 200 < m).
    { apply Qnot_le_lt. intros C. apply Qround2_le0 in C. apply qleb_true in C.
      change (zero QNum) with 0 in Fire. cbn [nround2 QNum] in Fire. congruence. }
    assert (All : forall p, In p ind -> 1 # 200 < nth p pp1 0).
    { intros p Hp. apply (In_nth _ _ 0%nat) in Hp. destruct Hp as (j & Hj & E). subst p.
      rewrite <- (vals_at_nth pp1 ind j Hj), VA.
      apply Qlt_le_trans with m; [exact Hm|]. apply Mle. apply nth_In. lia. }
    split; [|split; [apply incl_refl | split; [reflexivity | split; [|reflexivity]]]].
    - split; [exact ND | split; [exact NE | split; [|symmetry; exact VA]]].
      intros p Hp. split; [apply RG | apply All]; exact Hp.
    - intros p Hp. specialize (All p Hp). lra. }
  (* rule 1 fires: the minimum is <= 1/200, so it sits at position maxi *)
  assert (Hm : m <= 1 # 200).
  { apply Qround2_le0. apply qleb_true. exact Fire. }
  apply (In_nth _ _ 0) in Min. destruct Min as (jm & Hjm & Ejm).
  assert (jm = maxi).
  { destruct (Nat.eq_dec jm maxi) as [e|n]; [exact e|]. exfalso.
    specialize (Both jm ltac:(lia) n). rewrite Ejm in Both. lra. }
  subst jm.
  assert (NE2 : mini <> maxi).
  { intros C. specialize (Bsame C). rewrite Ejm in Bsame. lra. }
  specialize (Bmini NE2). rewrite Ejm in Bmax.
  set (pmax := nth maxi ind 0%nat).
  assert (Ipmax : In pmax ind) by (apply nth_In; exact Lmaxi).
  change (zero QNum) with 0 in H.
  destruct (negb (neqb QNum m 0)) eqn:NZ.
  - (* residual m <> 0 is handed to the entry at mini, the cell of m is zeroed *)
    rewrite IM in H. cbn [bind] in H.
    destruct (add_at QNum ip2 mini m) as [ipa|] eqn:AA; cbn [bind] in H; [|discriminate].
    destruct (list_min QNum ipa) as [m2|]; cbn [bind] in H; [|discriminate].
    destruct (add_at QNum df2 mini m2) as [dfa|]; cbn [bind] in H; [|discriminate].
    destruct (index_of QNum ipa m2) as [kk|]; cbn [bind] in H; [|discriminate].
    destruct (del_nth dfa kk) as [dfb|]; cbn [bind] in H; [|discriminate].
    destruct (setmany pp1 ind ipa) as [ppa|] eqn:SM; cbn [bind] in H; [|discriminate].
    destruct (filter_res _ ind) as [zs|] eqn:FZ in H; cbn [bind] in H; [|discriminate].
    destruct zs as [|zi zs]; [discriminate|].
    destruct (set_nth ppa zi 0) as [ppb|] eqn:SZ; cbn [bind] in H; [|discriminate].
    destruct (filter_res _ ind) as [ind2'|] eqn:F2 in H; cbn [bind] in H; [|discriminate].
    destruct (getmany ppb ind2') as [ip2'|] eqn:GM; cbn [bind] in H; [|discriminate].
    inversion H; subst pp2 ind2 ip3 df3 ex. clear H.
    destruct (add_at_spec _ _ _ _ AA) as (_ & LA & Vmini & Voth & SA).
    assert (Amax : nth maxi ipa 0 = m) by (rewrite Voth by (intros C; apply NE2; symmetry; exact C); exact Ejm).
    assert (Aoth : forall j, (j < length ind)%nat -> j <> maxi -> 1 # 200 < nth j ipa 0).
    { intros j Hj Hne. destruct (Nat.eq_dec j mini) as [e|n].
      - subst j. rewrite Vmini. lra.
      - rewrite (Voth j n). apply Both; assumption. }
    destruct (setmany_spec _ _ _ _ SM ND ltac:(lia)) as (Lppa & VAa & Fa & Sa).
    assert (Pmax : nth pmax ppa 0 = m).
    { unfold pmax. rewrite <- (vals_at_nth ppa ind maxi Lmaxi), VAa. exact Amax. }
    pose proof (port_view (fun x => 1 # 200 < x) ppa ind ipa maxi VAa Aoth) as Poth. cbv beta in Poth.
    fold pmax in Poth.
    (* the zero_index is the cell of m *)
    destruct (filter_res_spec _ _ _ FZ) as (IZ & _).
    destruct (IZ zi (or_introl eq_refl)) as (Izi & Fzi).
    assert (zi = pmax).
    { destruct (Nat.eq_dec zi pmax) as [e|n]; [exact e|]. exfalso.
      specialize (Poth zi Izi n).
      apply fres_nth in Fzi; [|rewrite Lppa; apply RG; exact Izi].
      apply orb_true_iff in Fzi. destruct Fzi as [Fz|Fz].
      - apply qeqb_true in Fz. cbn [nround2 QNum] in Fz.
        pose proof (Qround2_pos _ Poth) as R. change (zero QNum) with 0 in Fz. lra.
      - apply qltb_true in Fz. change (zero QNum) with 0 in Fz. lra. }
    subst zi.
    destruct (set_nth_ok _ _ _ _ 0 SZ) as (Lppb & Nb & Ob).
    pose proof (set_nth_lsum _ _ _ _ SZ) as Sb.
    destruct (filter_res_spec _ _ _ F2) as (I2 & ND2). specialize (ND2 ND).
    destruct (getmany_spec _ _ _ GM) as (NE2' & RG2 & V2).
    assert (Keep : forall p, In p ind2' -> In p ind /\ p <> pmax).
    { intros p Hp. destruct (I2 p Hp) as (Ip & Fp). split; [exact Ip|]. intros C. subst p.
      apply fres_nth in Fp; [|rewrite Lppb, Lppa; apply RG; exact Ip].
      rewrite Nb in Fp. apply qltb_true in Fp. change (zero QNum) with 0 in Fp. lra. }
    split; [|split; [|split; [|split]]].
    + split; [exact ND2 | split; [exact NE2' | split; [|exact V2]]].
      intros p Hp. destruct (Keep p Hp) as (Ip & Np). split; [apply RG2; exact Hp|].
      rewrite (Ob p Np). apply Poth; assumption.
    + intros p Hp. apply (Keep p Hp).
    + congruence.
    + intros p Hp. destruct (Nat.eq_dec p pmax) as [e|n].
      * subst p. rewrite Nb. lra.
      * rewrite (Ob p n). specialize (Poth p Hp n). lra.
    + rewrite Sb, Pmax, Sa, VA, SA. ring.
  - (* m == 0: nothing is moved, the index of the exact zero is dropped (and its entry of the differences list) *)
    destruct (zipfilter_res _ ind df2) as [dfz|]; cbn [bind] in H; [|discriminate].
    destruct (filter_res _ ind) as [ind2'|] eqn:F2 in H; cbn [bind] in H; [|discriminate].
    destruct (getmany pp1 ind2') as [ip2'|] eqn:GM; cbn [bind] in H; [|discriminate].
    inversion H; subst pp2 ind2 ip3 df3 ex. clear H.
    assert (M0 : m == 0).
    { apply negb_false_iff in NZ. apply qeqb_true in NZ. exact NZ. }
    assert (Pmax : nth pmax pp1 0 = m).
    { unfold pmax. rewrite <- (vals_at_nth pp1 ind maxi Lmaxi), VA. exact Ejm. }
    pose proof (port_view (fun x => 1 # 200 < x) pp1 ind ip2 maxi VA Both) as Poth. cbv beta in Poth.
    fold pmax in Poth.
    destruct (filter_res_spec _ _ _ F2) as (I2 & ND2). specialize (ND2 ND).
    destruct (getmany_spec _ _ _ GM) as (NE2' & RG2 & V2).
    assert (Keep : forall p, In p ind2' -> In p ind /\ p <> pmax).
    { intros p Hp. destruct (I2 p Hp) as (Ip & Fp). split; [exact Ip|]. intros C. subst p.
      apply fres_nth in Fp; [|apply RG; exact Ip].
      rewrite Pmax in Fp. apply qltb_true in Fp. change (zero QNum) with 0 in Fp. lra. }
    split; [|split; [|split; [|split]]].
    + split; [exact ND2 | split; [exact NE2' | split; [|exact V2]]].
      intros p Hp. destruct (Keep p Hp) as (Ip & Np). split; [apply RG2; exact Hp|].
      apply Poth; assumption.
    + intros p Hp. apply (Keep p Hp).
    + reflexivity.
    + intros p Hp. destruct (Nat.eq_dec p pmax) as [e|n].
      * subst p. rewrite Pmax. lra.
      * specialize (Poth p Hp n). lra.
    + reflexivity.
Qed.

(* ---- rule 2 only deletes one index (whatever the differences list says) ---- *)
Lemma rule2_inv pp ind ip df ind' ip' df' :
  Inv3 pp ind ip -> rule2 QNum pp ind ip df = Ok (ind', ip', df') ->
  Inv3 pp ind' ip' /\ incl ind' ind.
Proof.
  intros (ND & NE & RG & V) H. unfold rule2 in H.
  destruct (list_min QNum df) as [md|]; cbn [bind] in H; [|discriminate].
  destruct (nleb QNum (nround2 QNum md) (zero QNum)).
  2:{ inversion H; subst. split; [|apply incl_refl]. repeat split; auto; apply RG; assumption. }
  destruct (index_of QNum df md) as [kd|]; cbn [bind] in H; [|discriminate].
  destruct (del_nth ind kd) as [i'|] eqn:D; cbn [bind] in H; [|discriminate].
  destruct (getmany pp i') as [ipn|] eqn:GM; cbn [bind] in H; [|discriminate].
  destruct (del_nth df kd) as [dfn|]; cbn [bind] in H; [|discriminate].
  inversion H; subst ind' ip' df'. clear H.
  pose proof (del_nth_incl _ _ _ D) as I.
  destruct (getmany_spec _ _ _ GM) as (NE' & RG' & V').
  split; [|exact I].
  split; [eapply del_nth_NoDup; eassumption | split; [exact NE' | split; [|exact V']]].
  intros p Hp. apply RG. apply I. exact Hp.
Qed.

(* ---- one iteration ---- *)
Lemma bstep_inv k idx s s' :
  Inv s -> bstep QNum k idx s = Ok s' ->
  Inv s' /\ incl (b_ind s') (b_ind s) /\ length (b_pp s') = length (b_pp s) /\
  (forall p, In p (b_ind s) -> 0 <= nth p (b_pp s') 0) /\
  lsum (b_pp s') == lsum (b_pp s).
Proof.
  intros ((ND & NE & RG & V) & LPS) H. unfold bstep in H.
  destruct (list_max QNum (b_ps s)) as [mx|]; cbn [bind] in H; [|discriminate].
  destruct (index_of QNum (b_ps s) mx) as [maxi|] eqn:IMX; cbn [bind] in H; [|discriminate].
  destruct (list_min QNum (b_ps s)) as [mn|]; cbn [bind] in H; [|discriminate].
  destruct (index_of QNum (b_ps s) mn) as [mini|] eqn:IMN; cbn [bind] in H; [|discriminate].
  destruct (sub_at QNum (b_ip s) maxi (INC QNum)) as [ip1|] eqn:S1; cbn [bind] in H; [|discriminate].
  destruct (add_at QNum ip1 mini (INC QNum)) as [ip2|] eqn:A2; cbn [bind] in H; [|discriminate].
  destruct (sub_at QNum (b_df s) maxi (INC QNum)) as [df1|]; cbn [bind] in H; [|discriminate].
  destruct (add_at QNum df1 mini (INC QNum)) as [df2|]; cbn [bind] in H; [|discriminate].
  destruct (setmany (b_pp s) (b_ind s) ip2) as [pp1|] eqn:SM; cbn [bind] in H; [|discriminate].
  destruct (rule1 QNum (b_ps s) mn pp1 (b_ind s) ip2 df2) as [[[[[pp2 ind2] ip3] df3] ex]|] eqn:R1;
    cbn [bind] in H; [|discriminate].
  destruct (rule2 QNum pp2 ind2 ip3 df3) as [[[ind3 ip4] df4]|] eqn:R2; cbn [bind] in H; [|discriminate].
  destruct (getmany _ ind3) as [ps'|] eqn:GP in H; cbn [bind] in H; [|discriminate].
  inversion H; subst s'. clear H. cbn [b_ind b_pp b_ip b_ps].
  rewrite INC_Q in *.
  pose proof IMN as IMN'. apply index_of_lt in IMX. apply index_of_lt in IMN. rewrite LPS in IMX, IMN.
  destruct (sub_at_spec _ _ _ _ S1) as (_ & L1 & V1max & V1oth & Sum1).
  destruct (add_at_spec _ _ _ _ A2) as (_ & L2 & V2min & V2oth & Sum2).
  assert (Lip : length (b_ip s) = length (b_ind s)) by (rewrite V; apply vals_at_length).
  assert (Hip : forall j, (j < length (b_ind s))%nat -> 1 # 200 < nth j (b_ip s) 0).
  { intros j Hj. rewrite V, vals_at_nth by exact Hj. apply RG. apply nth_In. exact Hj. }
  destruct (setmany_spec _ _ _ _ SM ND ltac:(lia)) as (Lpp1 & VA1 & F1 & Sum3).
  assert (SumPP : lsum pp1 == lsum (b_pp s)).
  { rewrite Sum3, <- V, Sum2, Sum1. ring. }
  assert (RG1 : forall p, In p (b_ind s) -> (p < length pp1)%nat).
  { intros p Hp. rewrite Lpp1. apply RG. exact Hp. }
  assert (Bmax : - (1 # 200) < nth maxi ip2 0).
  { specialize (Hip maxi IMX). destruct (Nat.eq_dec maxi mini) as [e|n].
    - subst mini. rewrite V2min, V1max. lra.
    - rewrite (V2oth maxi n), V1max. lra. }
  assert (Both : forall j, (j < length (b_ind s))%nat -> j <> maxi -> 1 # 200 < nth j ip2 0).
  { intros j Hj Hne. specialize (Hip j Hj). destruct (Nat.eq_dec j mini) as [e|n].
    - subst j. rewrite V2min, (V1oth mini Hne). lra.
    - rewrite (V2oth j n), (V1oth j Hne). exact Hip. }
  assert (Bmini : mini <> maxi -> (1 # 200) + (1 # 100) < nth mini ip2 0).
  { intros Hne. specialize (Hip mini IMN). rewrite V2min, (V1oth mini Hne). lra. }
  assert (Bsame : mini = maxi -> 1 # 200 < nth maxi ip2 0).
  { intros E. subst mini. specialize (Hip maxi IMX). rewrite V2min, V1max. lra. }
  destruct (rule1_inv _ _ _ _ _ _ mini maxi _ _ _ _ _ ND NE RG1 VA1 IMN' IMN IMX Bmax Both Bmini Bsame R1)
    as (I3 & Inc1 & Lpp2 & NN & Sum4).
  destruct (rule2_inv _ _ _ _ _ _ _ I3 R2) as (I4 & Inc2).
  split; [split; [exact I4|]|split; [|split; [|split]]].
  - apply getmany_length in GP. exact GP.
  - eapply incl_tran; eassumption.
  - congruence.
  - exact NN.
  - rewrite Sum4. exact SumPP.
Qed.

(* ---- the loop ---- *)
Lemma bloop_inv k idx : forall n s s',
  Inv s -> bloop QNum n k idx s = Ok s' ->
  Inv s' /\ incl (b_ind s') (b_ind s) /\ length (b_pp s') = length (b_pp s) /\
  (forall p, In p (b_ind s) -> 0 <= nth p (b_pp s') 0) /\
  lsum (b_pp s') == lsum (b_pp s).
Proof.
  induction n as [|n IH]; intros s s' I H; simpl in H.
  - inversion H; subst s'. split; [exact I|]. split; [apply incl_refl|]. split; [reflexivity|].
    split; [|reflexivity]. intros p Hp. destruct I as ((_ & _ & RG & _) & _). destruct (RG p Hp). lra.
  - assert (G : (exists s1, bstep QNum k idx s = Ok s1 /\ bloop QNum n k idx s1 = Ok s') \/ s' = s).
    { destruct (b_ip s) as [|x [|y r]].
      - destruct (bstep QNum k idx s) as [s1|] eqn:B; cbn [bind] in H; [|discriminate]. left. eauto.
      - right. inversion H. reflexivity.
      - destruct (bstep QNum k idx s) as [s1|] eqn:B; cbn [bind] in H; [|discriminate]. left. eauto. }
    destruct G as [(s1 & B & L)|E].
    + destruct (bstep_inv _ _ _ _ I B) as (I1 & Inc1 & L1 & N1 & S1).
      destruct (IH _ _ I1 L) as (I2 & Inc2 & L2 & N2 & S2).
      destruct (bloop_frame QNum 0 _ _ _ _ _ L) as (_ & (_ & O)).
      split; [exact I2|]. split; [eapply incl_tran; eassumption|]. split; [congruence|].
      split; [|rewrite S2; exact S1].
      intros p Hp. destruct (in_dec Nat.eq_dec p (b_ind s1)) as [i|ni].
      * apply N2. exact i.
      * rewrite (O p ni). apply N1. exact Hp.
    + subst s'. split; [exact I|]. split; [apply incl_refl|]. split; [reflexivity|].
      split; [|reflexivity]. intros p Hp. destruct I as ((_ & _ & RG & _) & _). destruct (RG p Hp). lra.
Qed.

(* ================================================================ statements in the model's vocabulary *)
Lemma Inv_intro (s : @bstate Q) :
  NoDup (b_ind s) -> getmany (b_pp s) (b_ind s) = Ok (b_ip s) -> length (b_ps s) = length (b_ind s) ->
  (forall x, In x (b_ip s) -> 1 # 200 < x) -> Inv s.
Proof.
  intros ND GM LPS GT. destruct (getmany_spec _ _ _ GM) as (NE & RG & V).
  split; [|exact LPS]. split; [exact ND | split; [exact NE | split; [|exact V]]].
  intros p Hp. split; [apply RG; exact Hp|]. apply GT. rewrite V. unfold vals_at.
  apply (in_map (fun p => nth p (b_pp s) 0)). exact Hp.
Qed.

Lemma Inv_elim (s : @bstate Q) :
  Inv s ->
  NoDup (b_ind s) /\ getmany (b_pp s) (b_ind s) = Ok (b_ip s) /\ length (b_ps s) = length (b_ind s) /\
  (forall x, In x (b_ip s) -> 1 # 200 < x).
Proof.
  intros ((ND & NE & RG & V) & LPS). split; [exact ND|]. split; [|split; [exact LPS|]].
  - rewrite V. apply getmany_intro; [exact NE|]. intros p Hp. apply RG. exact Hp.
  - intros x Hx. rewrite V in Hx. unfold vals_at in Hx. apply in_map_iff in Hx.
    destruct Hx as (p & E & Hp). subst x. apply RG. exact Hp.
Qed.

(* One balancing loop, any kernel context, any number of iterations, ARBITRARY differences list b_df:
   (1) total preserved, (2) cells at the micro-op's indices stay >= 0 (and so does every cell that was >= 0),
   (3) the invariant survives, (4) nothing outside the indices changes. *)
Theorem bloop_single_exact k idx n (s s' : @bstate Q) :
  NoDup (b_ind s) ->
  getmany (b_pp s) (b_ind s) = Ok (b_ip s) ->
  length (b_ps s) = length (b_ind s) ->
  (forall x, In x (b_ip s) -> 1 # 200 < x) ->
  bloop QNum n k idx s = Ok s' ->
  lsum (b_pp s') == lsum (b_pp s) /\
  (forall p, In p (b_ind s) -> 0 <= nth p (b_pp s') 0) /\
  (forall p, 0 <= nth p (b_pp s) 0 -> 0 <= nth p (b_pp s') 0) /\
  (NoDup (b_ind s') /\ incl (b_ind s') (b_ind s) /\ getmany (b_pp s') (b_ind s') = Ok (b_ip s') /\
   length (b_ps s') = length (b_ind s') /\ (forall x, In x (b_ip s') -> 1 # 200 < x)) /\
  length (b_pp s') = length (b_pp s) /\
  (forall j, ~ In j (b_ind s) -> nth j (b_pp s') 0 = nth j (b_pp s) 0).
Proof.
  intros ND GM LPS GT H.
  pose proof (Inv_intro s ND GM LPS GT) as I.
  destruct (bloop_inv _ _ _ _ _ I H) as (I' & Inc & L & NN & S).
  destruct (bloop_frame QNum 0 _ _ _ _ _ H) as (_ & (_ & O)).
  destruct (Inv_elim _ I') as (ND' & GM' & LPS' & GT').
  split; [exact S|]. split; [exact NN|]. split; [|split; [|split; [exact L | exact O]]].
  - intros p Hp. destruct (in_dec Nat.eq_dec p (b_ind s)) as [i|ni]; [apply NN; exact i|].
    rewrite (O p ni). exact Hp.
  - repeat (split; [assumption|]). assumption.
Qed.

(* the same with the sum written as in Proofs/Feasible.v *)
Corollary bloop_single_total k idx n (s s' : @bstate Q) :
  NoDup (b_ind s) -> getmany (b_pp s) (b_ind s) = Ok (b_ip s) -> length (b_ps s) = length (b_ind s) ->
  (forall x, In x (b_ip s) -> 1 # 200 < x) ->
  bloop QNum n k idx s = Ok s' ->
  sumn (length (b_pp s')) (qnth (b_pp s')) == sumn (length (b_pp s)) (qnth (b_pp s)).
Proof.
  intros ND GM LPS GT H. rewrite <- !lsum_sumn.
  apply (bloop_single_exact k idx n s s' ND GM LPS GT H).
Qed.

(* ================================================================ one micro-op *)
Lemma indices_of_resolve {T} (N : NumOps T) ports : forall ps ind,
  indices_of ports ps = Ok ind -> resolve ports ps = ind /\ length ind = length ps.
Proof.
  induction ps as [|p ps IH]; intros ind H; simpl in H.
  - inversion H; subst. split; reflexivity.
  - cbn [resolve]. destruct (port_index ports p) as [i|]; [|discriminate].
    destruct (indices_of ports ps) as [r|]; cbn [bind] in H; [|discriminate].
    inversion H; subst. destruct (IH _ eq_refl) as (R & L). split; [rewrite R; reflexivity | simpl; congruence].
Qed.

(* balance_uop on a vector whose cells at the micro-op's (pairwise different) ports are all > 1/200 *)
Theorem balance_uop_single_exact ports k idx pp c ps ind pp' e :
  indices_of ports ps = Ok ind -> NoDup ind ->
  (forall p, In p ind -> 1 # 200 < nth p pp 0) ->
  balance_uop QNum ports k idx pp (c, ps) = Ok (pp', e) ->
  lsum pp' == lsum pp /\
  (forall p, In p ind -> 0 <= nth p pp' 0) /\
  length pp' = length pp /\
  (forall j, ~ In j ind -> nth j pp' 0 = nth j pp 0).
Proof.
  intros IO ND GT H. unfold balance_uop in H. rewrite IO in H. cbn [bind] in H.
  destruct (getmany _ ind) as [psums|] eqn:GP in H; cbn [bind] in H; [|discriminate].
  destruct (getmany pp ind) as [ip|] eqn:GM; cbn [bind] in H; [|discriminate].
  destruct (all_equal QNum psums).
  - inversion H; subst pp' e. split; [reflexivity|]. split; [|split; [reflexivity | reflexivity]].
    intros p Hp. specialize (GT p Hp). lra.
  - destruct (bloop QNum _ k idx _) as [s|] eqn:B in H; cbn [bind] in H; [|discriminate].
    inversion H; subst pp' e. clear H.
    destruct (getmany_spec _ _ _ GM) as (NE & RG & V).
    assert (LP : length psums = length ind) by (apply getmany_length in GP; exact GP).
    assert (GT' : forall x, In x ip -> 1 # 200 < x).
    { intros x Hx. rewrite V in Hx. unfold vals_at in Hx. apply in_map_iff in Hx.
      destruct Hx as (p & E & Hp). subst x. apply GT. exact Hp. }
    destruct (bloop_single_exact k idx _ (mkb pp ind ip _ psums 0%nat) s ND GM LP GT' B) as (S & NN & _ & _ & L & O).
    cbn [b_pp b_ind] in *. repeat (split; [assumption|]). assumption.
Qed.

(* ================================================================ feasibility of a single-micro-op instruction *)
(* uniform pressure of the instruction [(c, ps)], then one balancing loop in any kernel context:
   the result is a feasible split of the micro-op, slack 0 *)
Theorem single_uop_balance_feasible ports k idx c ps pp pp' e :
  avg_pressure_list QNum ports [(c, ps)] = Ok pp ->
  wf_names ports (c, ps) ->
  1 # 200 < c / inject_Z (Z.of_nat (length ps)) ->
  balance_uop QNum ports k idx pp (c, ps) = Ok (pp', e) ->
  Feasible (length ports) 0 [toU ports (c, ps)] (qnth pp').
Proof.
  intros AV WF GT H.
  assert (exists ind, indices_of ports ps = Ok ind) as (ind & IO).
  { unfold balance_uop in H. destruct (indices_of ports ps); [eauto | discriminate]. }
  destruct (indices_of_resolve QNum _ _ _ IO) as (RS & LI).
  assert (WF' : forall u, In u [(c, ps)] -> wf_names ports u) by (intros u [E|[]]; subst; exact WF).
  destruct (avg_pressure_is_uniform _ _ _ AV WF') as (LP & UV).
  pose proof (uniform_model_feasible _ _ _ AV WF') as FU.
  destruct WF as (Hc & ND & Hne). cbn [fst snd] in *. rewrite RS in ND.
  assert (UV' : forall j, qnth pp j == if memb j ind then c / inject_Z (Z.of_nat (length ps)) else 0).
  { intros j. rewrite UV. unfold uniform, uget, ushare, toU. cbn [map length sumn nth uc up fst snd].
    rewrite RS, LI. destruct (memb j ind); ring. }
  assert (GT' : forall p, In p ind -> 1 # 200 < nth p pp 0).
  { intros p Hp. specialize (UV' p). unfold qnth in UV'. rewrite UV'.
    apply memb_In in Hp. rewrite Hp. exact GT. }
  destruct (balance_uop_single_exact _ _ _ _ _ _ _ _ _ IO ND GT' H) as (S & NN & L & O).
  assert (Z' : forall p, ~ In p ind -> qnth pp' p == 0).
  { intros p Hp. unfold qnth. rewrite (O p Hp). specialize (UV' p). unfold qnth in UV'. rewrite UV'.
    destruct (memb p ind) eqn:M; [apply memb_In in M; contradiction | reflexivity]. }
  exists (fun _ p => qnth pp' p). split; [|split; [|split]].
  - intros u p _ _. destruct (in_dec Nat.eq_dec p ind) as [i|ni].
    + specialize (NN p i). unfold qnth. lra.
    + rewrite (Z' p ni). lra.
  - intros u p Hu _ Hnot. cbn [length] in Hu. assert (u = 0%nat) by lia. subst u.
    unfold uget, toU in Hnot. cbn [nth up snd] in Hnot. rewrite RS in Hnot. apply Z'. exact Hnot.
  - intros u Hu. cbn [length] in Hu. assert (u = 0%nat) by lia. subst u.
    unfold uget, toU. cbn [nth uc fst].
    rewrite <- LP, <- L, <- lsum_sumn, S, lsum_sumn, LP.
    rewrite (feasible_total _ _ _ _ FU). cbn [map length sumn]. unfold uget, toU. cbn [nth uc fst]. ring.
  - intros p _. cbn [length sumn]. ring.
Qed.

(* the same through balance_uops (the per-instruction loop) for the one-element micro-op list *)
Corollary single_uop_instruction_feasible ports k idx c ps pp ex pp' e :
  avg_pressure_list QNum ports [(c, ps)] = Ok pp ->
  wf_names ports (c, ps) ->
  1 # 200 < c / inject_Z (Z.of_nat (length ps)) ->
  balance_uops QNum ports k idx pp [(c, ps)] ex = Ok (pp', e) ->
  Feasible (length ports) 0 [toU ports (c, ps)] (qnth pp').
Proof.
  intros AV WF GT H. cbn [balance_uops] in H.
  destruct (balance_uop QNum ports k idx pp (c, ps)) as [[pp1 e1]|] eqn:B; cbn [bind] in H; [|discriminate].
  inversion H; subst pp' e. eapply single_uop_balance_feasible; eassumption.
Qed.

(* ================================================================ non-vacuity *)
(* 3 ports; instruction 0 has ONE micro-op (1 cycle on ports 0|1), instruction 1 puts 1/2 cycle on port 0.
   The loop runs 100 iterations and really moves 1/4 cycle from port 0 to port 1. *)
Definition ex_ports : list string := ["0"; "1"; "2"]%string.
Definition ex_uop : uop (T:=Q) := (1, ["0"; "1"]%string).
Definition ex_kernel : list (instr (T:=Q)) :=
  [mkinstr 1 [1 # 2; 1 # 2; 0] (UList [ex_uop]); mkinstr 1 [1 # 2; 0; 0] (UList [(1 # 2, ["0"%string])])].

Example single_uop_nonvacuous :
  avg_pressure_list QNum ex_ports [ex_uop] = Ok [1 # 2; 1 # 2; 0] /\
  wf_names ex_ports ex_uop /\
  1 # 200 < fst ex_uop / inject_Z (Z.of_nat (length (snd ex_uop))) /\
  balance_uop QNum ex_ports ex_kernel 0 [1 # 2; 1 # 2; 0] ex_uop = Ok ([1 # 4; 3 # 4; 0], 0%nat).
Proof.
  split; [vm_compute; reflexivity|]. split; [|split; [vm_compute; reflexivity | vm_compute; reflexivity]].
  unfold wf_names. split; [vm_compute; discriminate|]. split; [|discriminate].
  vm_compute. repeat constructor; simpl; intuition discriminate.
Qed.

(* the hypotheses of bloop_single_exact on the start state of that loop, and a run of it *)
Example bloop_single_nonvacuous :
  let s := mkb [1 # 2; 1 # 2; 0] [0; 1]%nat [1 # 2; 1 # 2] [7; 7; 7] [1; 1 # 2] 0%nat in
  NoDup (b_ind s) /\ getmany (b_pp s) (b_ind s) = Ok (b_ip s) /\ length (b_ps s) = length (b_ind s) /\
  (forall x, In x (b_ip s) -> 1 # 200 < x) /\
  exists s', bloop QNum 100 ex_kernel 0 s = Ok s' /\ b_pp s' = [1 # 4; 3 # 4; 0].
Proof.
  cbv zeta. cbn [b_pp b_ind b_ip b_ps]. split; [repeat constructor; simpl; intuition discriminate|].
  split; [reflexivity|]. split; [reflexivity|]. split.
  - intros x [E|[E|[]]]; subst; reflexivity.
  - eexists. split; vm_compute; reflexivity.
Qed.

(* rule 1 really fires in exact arithmetic: 3/8 cycle on three ports (1/8 each), port 0 heavily loaded by the
   other instruction; the entry of port 0 reaches 1/200, is handed over and zeroed.  Total stays 3/8. *)
Example rule1_fires_nonvacuous :
  let u : uop (T:=Q) := (3 # 8, ["0"; "1"; "2"]%string) in
  let k := [mkinstr 1 [1 # 8; 1 # 8; 1 # 8] (UList [u]); mkinstr 1 [5; 0; 0] (UList [(5, ["0"%string])])] in
  balance_uop QNum ex_ports k 0 [1 # 8; 1 # 8; 1 # 8] u = Ok ([0; 19 # 100; 37 # 200], 0%nat).
Proof. vm_compute. reflexivity. Qed.

(* ================================================================ restatements with the sums of Proofs/Feasible.v *)
Theorem bloop_single_exact_sumn k idx n (s s' : @bstate Q) :
  NoDup (b_ind s) ->
  getmany (b_pp s) (b_ind s) = Ok (b_ip s) ->
  length (b_ps s) = length (b_ind s) ->
  (forall x, In x (b_ip s) -> 1 # 200 < x) ->
  bloop QNum n k idx s = Ok s' ->
  sumn (length (b_pp s')) (qnth (b_pp s')) == sumn (length (b_pp s)) (qnth (b_pp s)) /\
  (forall p, In p (b_ind s) -> 0 <= qnth (b_pp s') p) /\
  (forall p, 0 <= qnth (b_pp s) p -> 0 <= qnth (b_pp s') p) /\
  (NoDup (b_ind s') /\ incl (b_ind s') (b_ind s) /\ getmany (b_pp s') (b_ind s') = Ok (b_ip s') /\
   length (b_ps s') = length (b_ind s') /\ (forall x, In x (b_ip s') -> 1 # 200 < x)) /\
  length (b_pp s') = length (b_pp s) /\
  (forall j, ~ In j (b_ind s) -> qnth (b_pp s') j = qnth (b_pp s) j).
Proof.
  intros ND GM LPS GT H. rewrite <- !lsum_sumn. unfold qnth.
  exact (bloop_single_exact k idx n s s' ND GM LPS GT H).
Qed.

Theorem balance_uop_single_exact_sumn ports k idx pp c ps ind pp' e :
  indices_of ports ps = Ok ind -> NoDup ind ->
  (forall p, In p ind -> 1 # 200 < qnth pp p) ->
  balance_uop QNum ports k idx pp (c, ps) = Ok (pp', e) ->
  sumn (length pp') (qnth pp') == sumn (length pp) (qnth pp) /\
  (forall p, In p ind -> 0 <= qnth pp' p) /\
  length pp' = length pp /\
  (forall j, ~ In j ind -> qnth pp' j = qnth pp j).
Proof.
  intros IO ND GT H. rewrite <- !lsum_sumn. unfold qnth in *.
  exact (balance_uop_single_exact ports k idx pp c ps ind pp' e IO ND GT H).
Qed.
