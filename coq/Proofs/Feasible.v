(* Feasible fractional splits of micro-ops over ports, over exact rationals (DESIGN.md C01/C02).
   Ports are numbered 0..P-1; a micro-op is (cycles, list of admissible ports). *)
From Coq Require Import QArith Qfield Lqa Lia List Bool Arith.
Import ListNotations.
Open Scope Q_scope.

(* ---------------------------------------------------------------- finite sums *)
Fixpoint sumn (n : nat) (f : nat -> Q) : Q :=
  match n with O => 0 | S k => sumn k f + f k end.

Lemma sumn_ext n f g : (forall i, (i < n)%nat -> f i == g i) -> sumn n f == sumn n g.
Proof.
  induction n as [|n IH]; intros H; simpl; [reflexivity|].
  rewrite IH by (intros; apply H; lia). rewrite (H n) by lia. reflexivity.
Qed.

Lemma sumn_plus n f g : sumn n (fun i => f i + g i) == sumn n f + sumn n g.
Proof. induction n as [|n IH]; simpl; [ring|]. rewrite IH. ring. Qed.

Lemma sumn_zero n f : (forall i, (i < n)%nat -> f i == 0) -> sumn n f == 0.
Proof.
  induction n as [|n IH]; intros H; simpl; [reflexivity|].
  rewrite IH by (intros; apply H; lia). rewrite (H n) by lia. ring.
Qed.

Lemma sumn_le n f g : (forall i, (i < n)%nat -> f i <= g i) -> sumn n f <= sumn n g.
Proof.
  induction n as [|n IH]; intros H; simpl; [lra|].
  assert (sumn n f <= sumn n g) by (apply IH; intros; apply H; lia).
  assert (f n <= g n) by (apply H; lia). lra.
Qed.

Lemma sumn_const n c : sumn n (fun _ => c) == inject_Z (Z.of_nat n) * c.
Proof.
  induction n as [|n IH]; [simpl; ring|].
  cbn [sumn]. rewrite IH, Nat2Z.inj_succ. unfold Z.succ. rewrite inject_Z_plus. ring.
Qed.

Lemma sumn_swap n m (f : nat -> nat -> Q) :
  sumn n (fun i => sumn m (fun j => f i j)) == sumn m (fun j => sumn n (fun i => f i j)).
Proof.
  induction n as [|n IH]; simpl.
  - symmetry. apply sumn_zero. intros; reflexivity.
  - rewrite IH. rewrite <- sumn_plus. reflexivity.
Qed.

Lemma sumn_single n a x : (a < n)%nat -> sumn n (fun p => if Nat.eqb p a then x else 0) == x.
Proof.
  induction n as [|n IH]; intros H; [lia|]. simpl.
  destruct (Nat.eqb n a) eqn:E.
  - apply Nat.eqb_eq in E. subst. rewrite sumn_zero; [ring|].
    intros i Hi. destruct (Nat.eqb i a) eqn:E'; [apply Nat.eqb_eq in E'; lia | reflexivity].
  - apply Nat.eqb_neq in E. rewrite IH by lia. ring.
Qed.

Definition memb (p : nat) (l : list nat) : bool := existsb (Nat.eqb p) l.

Lemma memb_In p l : memb p l = true <-> In p l.
Proof.
  unfold memb. rewrite existsb_exists. split.
  - intros (x & Hx & E). apply Nat.eqb_eq in E. subst. exact Hx.
  - intros H. exists p. split; [exact H | apply Nat.eqb_refl].
Qed.

Lemma sumn_indicator n l x :
  NoDup l -> (forall p, In p l -> (p < n)%nat) ->
  sumn n (fun p => if memb p l then x else 0) == inject_Z (Z.of_nat (length l)) * x.
Proof.
  induction l as [|a l IH]; intros ND Hlt.
  - simpl. rewrite sumn_zero; [ring | intros; reflexivity].
  - inversion ND as [|? ? Hnotin ND']; subst.
    rewrite (sumn_ext n _ (fun p => (if Nat.eqb p a then x else 0) + (if memb p l then x else 0))).
    + rewrite sumn_plus, sumn_single by (apply Hlt; left; reflexivity).
      rewrite IH by (auto; intros; apply Hlt; right; assumption).
      cbn [length]. rewrite Nat2Z.inj_succ. unfold Z.succ. rewrite inject_Z_plus. ring.
    + intros p _. unfold memb at 1. cbn [existsb]. fold (memb p l).
      destruct (Nat.eqb p a) eqn:E; cbn [orb].
      * apply Nat.eqb_eq in E. subst.
        destruct (memb a l) eqn:M; [apply memb_In in M; contradiction | ring].
      * destruct (memb p l); ring.
Qed.

(* ---------------------------------------------------------------- micro-ops and feasibility *)
Record uopQ := mkU { uc : Q; up : list nat }.
Definition dflt : uopQ := mkU 0 [].
Definition uget (us : list uopQ) (u : nat) : uopQ := nth u us dflt.

Definition wf_uop (P : nat) (u : uopQ) : Prop :=
  0 <= uc u /\ NoDup (up u) /\ (forall p, In p (up u) -> (p < P)%nat) /\ up u <> [].

Definition Feasible (P : nat) (eps : Q) (us : list uopQ) (v : nat -> Q) : Prop :=
  exists sh : nat -> nat -> Q,
    (forall u p, (u < length us)%nat -> (p < P)%nat -> - eps <= sh u p) /\
    (forall u p, (u < length us)%nat -> (p < P)%nat -> ~ In p (up (uget us u)) -> sh u p == 0) /\
    (forall u, (u < length us)%nat -> sumn P (sh u) == uc (uget us u)) /\
    (forall p, (p < P)%nat -> v p == sumn (length us) (fun u => sh u p)).

(* --- consequences --- *)
Lemma feasible_lower P eps us v :
  Feasible P eps us v -> forall p, (p < P)%nat -> - (inject_Z (Z.of_nat (length us)) * eps) <= v p.
Proof.
  intros (sh & Hlo & _ & _ & Hv) p Hp. rewrite (Hv p Hp).
  assert (H : sumn (length us) (fun _ => - eps) <= sumn (length us) (fun u => sh u p))
    by (apply sumn_le; intros; apply Hlo; assumption).
  rewrite sumn_const in H. lra.
Qed.

Lemma feasible_nonneg P us v : Feasible P 0 us v -> forall p, (p < P)%nat -> 0 <= v p.
Proof. intros H p Hp. pose proof (feasible_lower _ _ _ _ H p Hp). lra. Qed.

Lemma feasible_support P eps us v :
  Feasible P eps us v -> forall p, (p < P)%nat -> (forall u, (u < length us)%nat -> ~ In p (up (uget us u))) -> v p == 0.
Proof.
  intros (sh & _ & Hs & _ & Hv) p Hp Hno. rewrite (Hv p Hp).
  apply sumn_zero. intros u Hu. apply Hs; auto.
Qed.

Lemma feasible_total P eps us v :
  Feasible P eps us v -> sumn P v == sumn (length us) (fun u => uc (uget us u)).
Proof.
  intros (sh & _ & _ & Hrow & Hv).
  rewrite (sumn_ext P v (fun p => sumn (length us) (fun u => sh u p))) by (intros; apply Hv; assumption).
  rewrite sumn_swap. apply sumn_ext. intros u Hu. apply Hrow. exact Hu.
Qed.

(* Hall's condition: load of a port set S >= cycles confined to S, minus eps per (non-confined micro-op, port of S) *)
Definition confined (S : nat -> bool) (u : uopQ) : bool := forallb S (up u).
Definition load (P : nat) (S : nat -> bool) (v : nat -> Q) : Q := sumn P (fun p => if S p then v p else 0).
Definition confined_cycles (S : nat -> bool) (us : list uopQ) : Q :=
  sumn (length us) (fun u => if confined S (uget us u) then uc (uget us u) else 0).
Definition card (P : nat) (S : nat -> bool) : Q := sumn P (fun p => if S p then 1 else 0).
Definition nonconfined (S : nat -> bool) (us : list uopQ) : Q :=
  sumn (length us) (fun u => if confined S (uget us u) then 0 else 1).

Lemma feasible_hall P eps us v (S : nat -> bool) :
  0 <= eps -> Feasible P eps us v ->
  confined_cycles S us - eps * card P S * nonconfined S us <= load P S v.
Proof.
  intros He (sh & Hlo & Hs & Hrow & Hv).
  unfold load.
  rewrite (sumn_ext P _ (fun p => sumn (length us) (fun u => if S p then sh u p else 0))).
  2:{ intros p Hp. destruct (S p).
      - apply Hv; assumption.
      - symmetry. apply sumn_zero. intros; reflexivity. }
  rewrite sumn_swap.
  unfold confined_cycles, nonconfined.
  assert (Hc : forall n, 0 <= sumn n (fun p => if S p then 1 else 0)).
  { induction n; simpl; [lra|]. destruct (S n); lra. }
  assert (Key : forall u, (u < length us)%nat ->
     (if confined S (uget us u) then uc (uget us u) else 0)
     - eps * card P S * (if confined S (uget us u) then 0 else 1)
     <= sumn P (fun p => if S p then sh u p else 0)).
  { intros u Hu. destruct (confined S (uget us u)) eqn:C.
    - (* support inside S: the masked row sum is the full row sum *)
      rewrite (sumn_ext P (fun p => if S p then sh u p else 0) (sh u)).
      + rewrite (Hrow u Hu). lra.
      + intros p Hp. destruct (S p) eqn:Sp; [reflexivity|].
        symmetry. apply Hs; auto. intros Hin.
        unfold confined in C. rewrite forallb_forall in C. rewrite (C p Hin) in Sp. discriminate.
    - unfold card.
      assert (H : sumn P (fun p => - eps * (if S p then 1 else 0)) <= sumn P (fun p => if S p then sh u p else 0)).
      { apply sumn_le. intros p Hp. destruct (S p).
        - specialize (Hlo u p Hu Hp). lra.
        - lra. }
      assert (E : sumn P (fun p => - eps * (if S p then 1 else 0)) == - eps * sumn P (fun p => if S p then 1 else 0)).
      { clear. induction P as [|n IH]; simpl; [ring|]. rewrite IH. ring. }
      rewrite E in H. lra. }
  assert (G : forall n, (n <= length us)%nat ->
     sumn n (fun u => if confined S (uget us u) then uc (uget us u) else 0)
     - eps * card P S * sumn n (fun u => if confined S (uget us u) then 0 else 1)
     <= sumn n (fun u => sumn P (fun p => if S p then sh u p else 0))).
  { induction n as [|n IH]; intros Hn; simpl; [lra|].
    specialize (IH ltac:(lia)). specialize (Key n ltac:(lia)). lra. }
  apply G. lia.
Qed.

(* ---------------------------------------------------------------- the uniform split *)
Definition ushare (u : uopQ) (p : nat) : Q :=
  if memb p (up u) then uc u / inject_Z (Z.of_nat (length (up u))) else 0.
Definition uniform (us : list uopQ) (p : nat) : Q := sumn (length us) (fun u => ushare (uget us u) p).

Lemma length_pos_inj (l : list nat) : l <> [] -> ~ inject_Z (Z.of_nat (length l)) == 0.
Proof.
  intros H E. destruct l; [congruence|]. cbn [length] in E.
  rewrite Nat2Z.inj_succ in E. unfold Qeq in E. simpl in E. lia.
Qed.

Theorem uniform_feasible P us :
  (forall u, (u < length us)%nat -> wf_uop P (uget us u)) -> Feasible P 0 us (uniform us).
Proof.
  intros WF. exists (fun u p => ushare (uget us u) p). split; [|split; [|split]].
  - intros u p Hu Hp. destruct (WF u Hu) as (Hc & _ & _ & Hne). unfold ushare.
    destruct (memb p (up (uget us u))); [|lra].
    assert (0 < inject_Z (Z.of_nat (length (up (uget us u))))).
    { destruct (up (uget us u)); [congruence|]. cbn [length]. rewrite Nat2Z.inj_succ.
      unfold Qlt. simpl. lia. }
    assert (0 <= uc (uget us u) / inject_Z (Z.of_nat (length (up (uget us u))))).
    { apply Qle_shift_div_l; [assumption | lra]. }
    lra.
  - intros u p Hu Hp Hnot. unfold ushare.
    destruct (memb p (up (uget us u))) eqn:M; [apply memb_In in M; contradiction | reflexivity].
  - intros u Hu. destruct (WF u Hu) as (_ & ND & Hlt & Hne). unfold ushare.
    rewrite sumn_indicator by assumption. field. apply length_pos_inj. exact Hne.
  - intros p Hp. reflexivity.
Qed.
