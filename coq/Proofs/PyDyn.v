(* Lemmas about the dynamic layer Model/PyDyn.v that proofs over translated code use:
   truth-level reasoning for `and` / `or` chains (a conjunct may evaluate to any value; only its truth and
   whether it raises matter), and the closing `if <chain>: return True / return False`. *)
From Coq Require Import String List Bool ZArith.
From OV Require Import Model.PyDyn.
Import ListNotations.

Lemma tvl_lift : forall r h, r = lift h -> tvl r h.
Proof. intros r [b|] ->; simpl; eauto. Qed.

Lemma tvl_bool : forall r b, r = Ok (PBool b) -> tvl r (Some b).
Proof. intros r b ->. simpl. eauto. Qed.

Lemma tvl_and : forall A k hA hB, tvl A hA -> tvl (k tt) hB -> tvl (py_and A k) (hand hA hB).
Proof.
  intros A k [[|]|] hB HA HB; simpl in *.
  - destruct HA as (v & -> & Hv). unfold py_and. simpl. rewrite Hv. exact HB.
  - destruct HA as (v & -> & Hv). unfold py_and. simpl. rewrite Hv. eauto.
  - rewrite HA. reflexivity.
Qed.

Lemma tvl_or : forall A k hA hB, tvl A hA -> tvl (k tt) hB -> tvl (py_or A k) (hor hA hB).
Proof.
  intros A k [[|]|] hB HA HB; simpl in *.
  - destruct HA as (v & -> & Hv). unfold py_or. simpl. rewrite Hv. eauto.
  - destruct HA as (v & -> & Hv). unfold py_or. simpl. rewrite Hv. exact HB.
  - rewrite HA. reflexivity.
Qed.

Lemma tvl_and_b : forall A k a b, tvl A (Some a) -> tvl (k tt) (Some b) -> tvl (py_and A k) (Some (a && b)).
Proof. intros A k a b HA HB. pose proof (tvl_and A k _ _ HA HB) as H. destruct a; exact H. Qed.

Lemma tvl_or_b : forall A k a b, tvl A (Some a) -> tvl (k tt) (Some b) -> tvl (py_or A k) (Some (a || b)).
Proof. intros A k a b HA HB. pose proof (tvl_or A k _ _ HA HB) as H. destruct a; exact H. Qed.

(* if <e>: return True else: return False *)
Lemma tvl_final : forall X h,
  tvl X h -> bind X (fun t => if py_truth t then Ok (PBool true) else Ok (PBool false)) = lift h.
Proof.
  intros X [b|] H; simpl in *.
  - destruct H as (v & -> & Hv). simpl. rewrite Hv. destruct b; reflexivity.
  - rewrite H. reflexivity.
Qed.

Lemma tvl_ext : forall r h h', tvl r h -> h = h' -> tvl r h'.
Proof. intros; subst; auto. Qed.

(* the two string equalities are the same function *)
Lemma key_eqb_eq : forall a b, key_eqb a b = String.eqb a b.
Proof.
  induction a as [|c a IH]; destruct b as [|d b]; simpl; auto.
  all: try (rewrite IH; destruct (Ascii.eqb c d); reflexivity).
Qed.

Lemma assoc_dict_find : forall k l, assoc k l = dict_find k l.
Proof. induction l as [|[k' v] t IH]; simpl; auto. all: try (rewrite key_eqb_eq, IH; reflexivity). Qed.

Lemma py_getitem_lit_eq : forall c k, py_getitem_lit c k = py_getitem c (PStr k).
Proof. intros [] k; simpl; auto. all: try (rewrite assoc_dict_find; reflexivity). Qed.
