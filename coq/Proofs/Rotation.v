(* Towards rotation invariance of the loop-carried dependencies (DESIGN.md C14).
   Part 1 (about the model): the dependency scan is PREFIX-DETERMINED -- what it reports about the first m following
            instructions does not depend on what comes after them.  Hence the edges of the doubled kernel between two
            positions a < b depend only on the instructions a..b: they are a window of the edges of the periodic stream.
   Part 2 (abstract): for ANY periodic, window-independent edge relation on stream positions, the cross-iteration paths
            seen through the window [0, 2n) and through the rotated window [r, r + 2n) correspond one to one, with the same
            member instructions (positions modulo n) and the same edge weights.
   The glue between the two parts (positions vs. the line numbers of Model/Deps.lcd_entries) is proved in Proofs/RotationGlue.v. *)
From Coq Require Import ZArith List Bool String Lia Arith.
From OV Require Import Model.Num Model.Pressure Model.Deps.
Import ListNotations.

(* ---------------------------------------------------------------- Part 1 *)
Section Prefix.
  Context {T : Type} (dep : regop -> regop -> bool).
  Notation line := (line (T:=T)).

  (* the scan as a run that also says whether it stopped and in which tracking state it continues *)
  Fixpoint scan_run (fd : bool) (d : opnd) (rest : list line) (s : rstate) : list (nat * dflag) * option rstate :=
    match rest with
    | [] => ([], Some s)
    | l :: more =>
      let s1 := update_changes s (l_chg l) in
      let s2 := update_changes s1 (l_chg_post l) in
      let continue (out : list (nat * dflag)) (stop : bool) :=
        if stop then (out, None) else let '(o, r) := scan_run fd d more s2 in (out ++ o, r) in
      match d with
      | OReg r => continue (if is_read dep d l then [(l_no l, if r_pidx r then FPIndexed else FPlain)] else []) (is_written dep d l)
      | OFlag _ => if fd then continue (if is_read dep d l then [(l_no l, FPlain)] else []) (is_written dep d l)
                   else continue [] false
      | OMem m =>
        continue (if is_memload m l s1 then [(l_no l, FStoreLoad)] else []) (is_memstore m l)
      | OOther => continue [] false
      end
    end.

  Lemma scan_is_run fd d : forall rest s, scan dep fd d rest s = fst (scan_run fd d rest s).
  Proof.
    induction rest as [|l more IH]; intros s; [reflexivity|]. cbn [scan scan_run].
    set (s2 := update_changes (update_changes s (l_chg l)) (l_chg_post l)).
    specialize (IH s2). destruct (scan_run fd d more s2) as [o r] eqn:R. cbn [fst] in IH.
    destruct d as [rg|fl|m|].
    - destruct (is_written dep (OReg rg) l); [reflexivity|]. cbn [fst]. rewrite IH. reflexivity.
    - destruct fd.
      + destruct (is_written dep (OFlag fl) l); [reflexivity|]. cbn [fst]. rewrite IH. reflexivity.
      + cbn [fst app]. exact IH.
    - destruct (is_memstore m l); [reflexivity|]. cbn [fst]. rewrite IH. reflexivity.
    - cbn [fst app]. exact IH.
  Qed.

  Definition then_run (a : list (nat * dflag) * option rstate) (k : rstate -> list (nat * dflag) * option rstate)
    : list (nat * dflag) * option rstate :=
    match a with
    | (o, None) => (o, None)
    | (o, Some s') => let '(o', r) := k s' in (o ++ o', r)
    end.

  (* running over pre ++ post = running over pre, then (unless stopped) over post from the reached state *)
  Lemma scan_run_app fd d : forall pre post s,
    scan_run fd d (pre ++ post) s = then_run (scan_run fd d pre s) (scan_run fd d post).
  Proof.
    induction pre as [|l more IH]; intros post s.
    - cbn [app scan_run then_run]. destruct (scan_run fd d post s); reflexivity.
    - cbn [app scan_run].
      set (s2 := update_changes (update_changes s (l_chg l)) (l_chg_post l)).
      specialize (IH post s2).
      assert (K : forall (out : list (nat * dflag)) (stop : bool),
        (if stop then (out, @None rstate) else let '(o, r) := scan_run fd d (more ++ post) s2 in (out ++ o, r)) =
        then_run (if stop then (out, @None rstate) else let '(o, r) := scan_run fd d more s2 in (out ++ o, r)) (scan_run fd d post)).
      { intros out stop. destruct stop; [reflexivity|]. rewrite IH. unfold then_run.
        destruct (scan_run fd d more s2) as [o [s'|]]; [|reflexivity].
        destruct (scan_run fd d post s') as [o' r]. rewrite app_assoc. reflexivity. }
      destruct d as [rg|fl|m|].
      + apply K.
      + destruct fd; [apply K | exact (K [] false)].
      + apply K.
      + exact (K [] false).
  Qed.

  (* PREFIX DETERMINATION: the reports about `pre` are a prefix of the reports about `pre ++ post`, and the rest concerns `post` only *)
  Theorem scan_prefix_determined fd d (pre post : list line) s :
    exists tail, scan dep fd d (pre ++ post) s = scan dep fd d pre s ++ tail /\
                 forall n f, In (n, f) tail -> exists l, In l post /\ l_no l = n.
  Proof.
    rewrite !scan_is_run, scan_run_app. unfold then_run.
    destruct (scan_run fd d pre s) as [o [s'|]] eqn:R; cbn [fst].
    - destruct (scan_run fd d post s') as [o' r] eqn:R'. exists o'. split; [reflexivity|].
      intros n f Hin. assert (E : o' = scan dep fd d post s') by (rewrite scan_is_run, R'; reflexivity).
      rewrite E in Hin. clear -Hin.
      revert s' Hin. induction post as [|l more IH]; intros s' Hin; [contradiction|]. cbn [scan] in Hin.
      assert (Rec : forall s2, In (n, f) (scan dep fd d more s2) -> exists l0, In l0 (l :: more) /\ l_no l0 = n).
      { intros s2 Hr. destruct (IH _ Hr) as (l0 & A & B). exists l0. split; [right; exact A | exact B]. }
      assert (Here : forall fl0, In (n, f) [(l_no l, fl0)] -> exists l0, In l0 (l :: more) /\ l_no l0 = n).
      { intros fl0 [E|[]]. inversion E. exists l. split; [left|]; reflexivity. }
      destruct d as [rg|fl|m|].
      + destruct (is_written dep (OReg rg) l).
        * destruct (is_read dep (OReg rg) l); [eapply Here; exact Hin | contradiction].
        * apply in_app_or in Hin. destruct Hin as [H|H]; [|eapply Rec; exact H].
          destruct (is_read dep (OReg rg) l); [eapply Here; exact H | contradiction].
      + destruct fd; [|eapply Rec; exact Hin].
        destruct (is_written dep (OFlag fl) l).
        * destruct (is_read dep (OFlag fl) l); [eapply Here; exact Hin | contradiction].
        * apply in_app_or in Hin. destruct Hin as [H|H]; [|eapply Rec; exact H].
          destruct (is_read dep (OFlag fl) l); [eapply Here; exact H | contradiction].
      + idtac.
        destruct (is_memstore m l).
        * destruct (is_memload m l _); [eapply Here; exact Hin | contradiction].
        * apply in_app_or in Hin. destruct Hin as [H|H]; [|eapply Rec; exact H].
          destruct (is_memload m l _); [eapply Here; exact H | contradiction].
      + eapply Rec; exact Hin.
    - exists []. split; [rewrite app_nil_r; reflexivity | intros n f []].
  Qed.
End Prefix.

(* ---------------------------------------------------------------- Part 2 *)
Section Windows.
  Variable W : Type.                               (* edge weights *)
  Variable n : nat.                                (* period = number of instructions of the loop body *)
  Variable E : nat -> nat -> option W.             (* edge between stream positions a < b, if any *)
  Hypothesis n_pos : 0 < n.
  Hypothesis E_forward : forall a b w, E a b = Some w -> a < b.
  Hypothesis E_periodic : forall a b, E (a + n) (b + n) = E a b.

  (* a path a = p0 -> p1 -> ... -> b, as the list of (source position, weight) *)
  Inductive spath : nat -> nat -> list (nat * W) -> Prop :=
  | sp_last a b w : E a b = Some w -> spath a b [(a, w)]
  | sp_step a c b w p : E a c = Some w -> c <> b -> spath c b p -> spath a b ((a, w) :: p).

  Definition shiftp (p : list (nat * W)) : list (nat * W) := map (fun x => (fst x + n, snd x)) p.
  (* canonical form: members as instructions of the loop body (position modulo n) with their edge weights *)
  Definition canon (p : list (nat * W)) : list (nat * W) := map (fun x => (fst x mod n, snd x)) p.

  Lemma spath_shift a b p : spath a b p -> spath (a + n) (b + n) (shiftp p).
  Proof.
    induction 1 as [a b w H | a c b w p H Hne _ IH]; cbn [shiftp map fst snd].
    - constructor. rewrite E_periodic. exact H.
    - eapply sp_step; [rewrite E_periodic; exact H | lia | exact IH].
  Qed.

  Lemma canon_shift p : canon (shiftp p) = canon p.
  Proof.
    unfold canon, shiftp. rewrite map_map. apply map_ext. intros [x w]. cbn [fst snd].
    f_equal. rewrite <- Nat.add_mod_idemp_r by lia. rewrite Nat.mod_same by lia. rewrite Nat.add_0_r. reflexivity.
  Qed.

  (* all positions of a path lie between its end points *)
  Lemma spath_range a b p : spath a b p -> a < b /\ forall x w, In (x, w) p -> a <= x < b.
  Proof.
    induction 1 as [a b w H | a c b w p H Hne Hp IH].
    - pose proof (E_forward _ _ _ H). split; [lia|]. intros x w0 [Hin|[]]. inversion Hin; subst. lia.
    - pose proof (E_forward _ _ _ H). destruct IH as (Hcb & Hall). split; [lia|].
      intros x w0 [Hin|Hin]; [inversion Hin; subst; lia|]. specialize (Hall _ _ Hin). lia.
  Qed.

  (* the cross-iteration paths visible in the window starting at r (roots r <= j < r + n, path j -> j + n) *)
  Definition in_window (r : nat) (p : list (nat * W)) : Prop := exists j, r <= j < r + n /\ spath j (j + n) p.

  (* ROTATION: every cross-iteration path of the unrotated window has a counterpart in the rotated one with the same
     members and weights, and conversely *)
  Theorem rotation_paths_correspond r : r < n ->
    (forall p, in_window 0 p -> exists p', in_window r p' /\ canon p' = canon p) /\
    (forall p', in_window r p' -> exists p, in_window 0 p /\ canon p = canon p').
  Proof.
    intros Hr. split.
    - intros p (j & Hj & Hp). destruct (le_lt_dec r j) as [Hge|Hlt].
      + exists p. split; [exists j; split; [lia | exact Hp] | reflexivity].
      + exists (shiftp p). split; [|apply canon_shift].
        exists (j + n). split; [lia|]. apply spath_shift. exact Hp.
    - intros p' (j & Hj & Hp). destruct (le_lt_dec n j) as [Hge|Hlt].
      + (* j in [n, r+n): shift back by n *)
        assert (Back : forall a b q, spath (a + n) (b + n) q -> exists q0, spath a b q0 /\ shiftp q0 = q).
        { intros a b q H. remember (a + n) as a' eqn:Ea. remember (b + n) as b' eqn:Eb. revert a b Ea Eb.
          induction H as [a' b' w H | a' c b' w q H Hne Hq IH]; intros a b Ea Eb; subst.
          - exists [(a, w)]. split; [constructor; rewrite <- E_periodic; exact H | reflexivity].
          - pose proof (E_forward _ _ _ H). destruct (IH (c - n) b ltac:(lia) eq_refl) as (q0 & Hq0 & Es).
            exists ((a, w) :: q0). split.
            + eapply sp_step; [rewrite <- E_periodic; replace (c - n + n) with c by lia; exact H | lia | exact Hq0].
            + cbn [shiftp map fst snd]. unfold shiftp in Es. rewrite Es. reflexivity. }
        replace j with ((j - n) + n) in Hp by lia. replace (j - n + n + n) with ((j - n + n) + n) in Hp by lia.
        destruct (Back (j - n) (j - n + n) p' Hp) as (q0 & Hq0 & Es).
        exists q0. split; [exists (j - n); split; [lia | exact Hq0] | rewrite <- Es; symmetry; apply canon_shift].
      + exists p'. split; [exists j; split; [lia | exact Hp] | reflexivity].
  Qed.
End Windows.
