(* C10 -- `members_okb` (Model/PostMembers.v) holds on every line of the language: the text of a register-list member
   (gr_elem_word: prefix letter, number, optional .lanes-shape) determines the grammar's fields of the member, so the grammar
   element list_element is a function of the member's text and gr_stage answers it correctly for EVERY member. *)
From Coq Require Import String Ascii List Bool ZArith NArith Lia.
From OV Require Import Model.PyString Model.PyDyn Model.PyPost Model.LexA64 Model.ParseA64 Model.SyntaxA64 Model.PostA64 Model.PostMembers.
From OV Require Import Proofs.PyDyn Proofs.PyPost Proofs.ParseA64Regs.
Import ListNotations.
Open Scope string_scope.

(* the leading digits of a string and the rest *)
Fixpoint dtake (s : string) : string * string :=
  match s with
  | EmptyString => ("", "")
  | String c r => if is_digit c then (String c (fst (dtake r)), snd (dtake r)) else ("", s)
  end.
Definition nodigit_head (a : string) : Prop := match a with EmptyString => True | String c _ => is_digit c = false end.
Lemma dtake_app : forall s a, sall is_digit s = true -> nodigit_head a -> dtake (s ++ a) = (s, a).
Proof.
  induction s as [|c r IH]; intros a H N.
  - destruct a as [|c r]; [reflexivity|]. cbn in N. cbn. rewrite N. reflexivity.
  - cbn in H. apply andb_true_iff in H. destruct H as [D H]. cbn. rewrite D, (IH a H N). reflexivity.
Qed.

Definition num_fact (n : nat) : bool := sall is_digit (nat_str n) && Z.eqb (dec_val (nat_str n)) (Z.of_nat n).
Lemma num_facts : forall n, Nat.ltb n 32 = true -> num_fact n = true.
Proof. apply below32. vm_compute. reflexivity. Qed.
Lemma nat_str_inj : forall n m, Nat.ltb n 32 = true -> Nat.ltb m 32 = true -> nat_str n = nat_str m -> n = m.
Proof.
  intros n m Hn Hm E. pose proof (num_facts n Hn) as A. pose proof (num_facts m Hm) as B. unfold num_fact in A, B.
  apply andb_true_iff in A. apply andb_true_iff in B. destruct A as [_ A], B as [_ B]. apply Z.eqb_eq in A. apply Z.eqb_eq in B.
  rewrite E in A. lia.
Qed.

Lemma lanes_digits : forall l, mem_str l lanes_all = true -> sall is_digit l = true.
Proof.
  intros l H. apply mem_str_In in H. assert (F : forallb (sall is_digit) lanes_all = true) by (vm_compute; reflexivity).
  rewrite forallb_forall in F. apply F. exact H.
Qed.
Lemma shape_nodigit : forall s, memb s shapes_all = true -> is_digit s = false.
Proof.
  intros s H. unfold memb in H. apply existsb_exists in H. destruct H as (x & I & E). unfold ceq in E. apply Ascii.eqb_eq in E. subst x.
  assert (F : forallb (fun c => negb (is_digit c)) shapes_all = true) by (vm_compute; reflexivity).
  rewrite forallb_forall in F. apply negb_true_iff. apply F. exact I.
Qed.

Definition arr_word (a : option (string * ascii)) : string := match a with None => "" | Some (l, s) => "." ++ l ++ s1 s end.
Lemma elem_word_shape : forall e, gr_elem_word e = gr_prefix e ++ nat_str (w_num e) ++ arr_word (w_arr e).
Proof. intros [c n [[l s]|]]; reflexivity. Qed.
Lemma prefix_one : forall e, exists c, gr_prefix e = String c "".
Proof. intros e. unfold gr_prefix, s1. destruct (is_scalar e); eexists; reflexivity. Qed.
Lemma arr_nodigit : forall a, nodigit_head (arr_word a).
Proof. intros [[l s]|]; cbn; auto. Qed.

Lemma word_inj : forall e e', elem_okb e = true -> elem_okb e' = true -> gr_elem_word e' = gr_elem_word e -> gr_same e' e = true.
Proof.
  intros e e' H H' E. rewrite !elem_word_shape in E.
  destruct (prefix_one e) as (p & P), (prefix_one e') as (p' & P'). rewrite P, P' in E. cbn [append] in E. inversion E as [[Ep En]].
  unfold elem_okb, wreg_okb in H, H'. rewrite !andb_true_iff in H, H'. destruct H as ((Hn & Ha) & _), H' as ((Hn' & Ha') & _).
  pose proof (num_facts _ Hn) as F. pose proof (num_facts _ Hn') as F'. unfold num_fact in F, F'.
  apply andb_true_iff in F. apply andb_true_iff in F'. destruct F as [D _], F' as [D' _].
  assert (S : (nat_str (w_num e'), arr_word (w_arr e')) = (nat_str (w_num e), arr_word (w_arr e))).
  { rewrite <- (dtake_app _ _ D' (arr_nodigit (w_arr e'))), <- (dtake_app _ _ D (arr_nodigit (w_arr e))). rewrite En. reflexivity. }
  inversion S as [[S1 S2]]. pose proof (nat_str_inj _ _ Hn' Hn S1) as NN.
  unfold gr_same. rewrite P, P', Ep, NN, String.eqb_refl, Nat.eqb_refl. cbn [andb].
  destruct (w_arr e) as [[l s]|], (w_arr e') as [[l' s']|]; cbn in S2; try discriminate; [|reflexivity].
  rewrite !andb_true_iff in Ha, Ha'. destruct Ha as (_ & Hl & Hs), Ha' as (_ & Hl' & Hs').
  inversion S2 as [S3].
  assert (T : (l', s1 s') = (l, s1 s)).
  { rewrite <- (dtake_app l' (s1 s') (lanes_digits _ Hl')), <- (dtake_app l (s1 s) (lanes_digits _ Hl)); [rewrite S3; reflexivity| |];
      cbn; apply shape_nodigit; assumption. }
  inversion T. subst. cbn. rewrite String.eqb_refl, Ascii.eqb_refl. reflexivity.
Qed.

Lemma members_elem_ok : forall fx ops, forallb (wop_okb fx) ops = true -> forall e, In e (flat_map op_members ops) -> elem_okb e = true.
Proof.
  intros fx ops H e I. apply in_flat_map in I. destruct I as (o & Io & Ie). rewrite forallb_forall in H. specialize (H o Io).
  destruct o as [r|els i|a b i|h n|h f|h w|w|b t c]; cbn [op_members] in Ie; try contradiction; cbn [wop_okb] in H; rewrite !andb_true_iff in H.
  - destruct H as (_ & F & _). rewrite forallb_forall in F. apply F. exact Ie.
  - destruct H as (A & B & _). destruct Ie as [<-|[<-|[]]]; assumption.
Qed.

Theorem members_ok : forall fx l, wline_okb fx l = true -> members_okb l = true.
Proof.
  intros fx l H. unfold members_okb. destruct l as [mn ops c|n c|n ps c|raw]; try reflexivity.
  cbn [wline_okb] in H. rewrite !andb_true_iff in H. destruct H as (_ & _ & _ & F & _).
  cbn [line_members]. apply forallb_forall. intros e Ie. apply forallb_forall. intros e' Ie'.
  destruct (String.eqb (gr_elem_word e') (gr_elem_word e)) eqn:W; [|reflexivity]. cbn [implb].
  apply String.eqb_eq in W. apply word_inj; [eapply members_elem_ok; eassumption..|exact W].
Qed.
