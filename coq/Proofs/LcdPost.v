(* The functional reading of the translated LCD code (Model/LcdPost.v, data level of the Python: int line numbers, node lists,
   edge-by-edge latency look-ups, str keys) is the hand model of Model/Deps.v:
     prepare_model          = (lcd_offset, doubled)                                          [prepare_is_model]
     dedup_model            = Deps.dedup [] of the entries entry_of of the paths            [dedup_model_is_dedup]
     post_model on the paths the model enumerates in the doubled kernel
                            = dict_of (sort(reverse=True) (lcd_entries))                    [post_model_is_lcd_entries]
   plus what the dictionary construction does (dict_of_spec: one entry per key, every item's key present, values are item
   values) and what _get_node_by_lineno returns (node_by_lineno_spec).  Generic in the numeric instance; the only law used is
   that `<=` is `== or not >` on latencies (sort_law: Python sorts with `<`, the hand model with `<=`). *)
From Coq Require Import ZArith List Bool String Lia Permutation QArith.
From OV Require Import Model.Num Model.Deps Proofs.LCD Model.PyLcd Model.LcdPost Proofs.PyLcdFacts.
Import ListNotations.
Local Open Scope list_scope.
Local Open Scope nat_scope.

Section Bridge.
  Context {T : Type} (N : NumOps T).
  Notation line := (line (T:=T)).
  Notation entry := (entry (T:=T)).

  Definition sort_law : Prop := forall a b : T, nleb N a b = if neqb N b a then true else negb (nltb N b a).

  (* ---------------------------------------------------------------- _get_node_by_lineno *)
  Lemma node_by_lineno_spec {I} (get : I -> Z) (heap : list I) z :
    match node_by_lineno get heap z with
    | POk k => exists i, nth_error heap k = Some i /\ get i = z /\ forall j i', j < k -> nth_error heap j = Some i' -> get i' <> z
    | PErr e => e = PIndexError /\ forall i, In i heap -> get i <> z
    end.
  Proof.
    unfold node_by_lineno, py_filter_idx. destruct (py_filter_idx_from (fun i => Z.eqb (get i) z) heap 0) as [|k r] eqn:E.
    - split; [reflexivity|]. intros i Hin Hz. destruct (In_nth_error _ _ Hin) as (j & Hj).
      assert (In j (py_filter_idx_from (fun i => Z.eqb (get i) z) heap 0)).
      { apply py_filter_idx_from_spec. exists i. rewrite Nat.sub_0_r. repeat split; [lia | exact Hj | apply Z.eqb_eq; exact Hz]. }
      rewrite E in H. destruct H.
    - destruct (py_filter_idx_from_head _ _ _ _ _ E) as (_ & (x & Hx & Px) & Hmin). rewrite Nat.sub_0_r in Hx.
      exists x. split; [exact Hx|]. split; [apply Z.eqb_eq; exact Px|]. intros j i' Hj Hi' Hz.
      specialize (Hmin j i' ltac:(lia)). rewrite Nat.sub_0_r in Hmin. specialize (Hmin Hi'). apply Z.eqb_eq in Hz. congruence.
  Qed.

  (* ---------------------------------------------------------------- offset and the doubled kernel *)
  Definition zget (l : line) : Z := Z.of_nat (l_no l).
  Definition zset (l : line) (z : Z) : line := mkL (Z.to_nat z) (l_sem l) (l_lat l) (l_lat_wo l) (l_loadnode l) (l_chg l) (l_chg_post l).

  Lemma fold_max_of_nat : forall (l : list nat) a, fold_left Z.max (map Z.of_nat l) (Z.of_nat a) = Z.of_nat (fold_left Nat.max l a).
  Proof. induction l as [|x l IH]; intros a; [reflexivity|]. cbn [map fold_left]. rewrite <- Nat2Z.inj_max. apply IH. Qed.

  Theorem prepare_is_model (k : list line) :
    prepare_model zget zset k = match k with [] => PErr PValueError | _ => POk (Z.of_nat (lcd_offset k), doubled k) end.
  Proof.
    unfold prepare_model. destruct k as [|x r]; [reflexivity|]. change (map zget (x :: r)) with (zget x :: map zget r). cbv iota beta zeta.
    assert (E : (Z.max 1000 (fold_left Z.max (map zget r) (zget x) + 1))%Z = Z.of_nat (lcd_offset (x :: r))).
    { unfold lcd_offset, max_line, zget. cbn [map fold_left]. rewrite Nat.max_0_l.
      rewrite <- (map_map (@l_no T) Z.of_nat), fold_max_of_nat. lia. }
    rewrite E. f_equal. f_equal. unfold doubled. f_equal. apply map_ext. intros l. unfold zset, shift, zget. f_equal. lia.
  Qed.

  (* ---------------------------------------------------------------- one path *)
  Definition inj (sw : nat * T) : Z * T := (Z.of_nat (fst sw), snd sw).
  Definition inj_entry (e : entry) : item (T:=T) := (fst e, map inj (snd e)).
  (* the nodes of the model's path p (sources with the weight of the edge leaving them) that ends in t *)
  Definition nodes_of (p : list (nat * T)) (t : nat) : list Z := map (fun sw => Z.of_nat (fst sw)) p ++ [Z.of_nat t].
  (* the latency look-up answers the weights recorded along p *)
  Fixpoint lat_along (lat : Z -> Z -> pres T) (p : list (nat * T)) (t : nat) : Prop :=
    match p with
    | [] => True
    | (u, w) :: r => lat (Z.of_nat u) (Z.of_nat (match r with [] => t | (v, _) :: _ => v end)) = POk w /\ lat_along lat r t
    end.

  Lemma zback_of_nat off s : zback (Z.of_nat off) (Z.of_nat s) = Z.of_nat (back off s).
  Proof. unfold zback, back. destruct (Nat.leb_spec off s); destruct (Z.leb_spec (Z.of_nat off) (Z.of_nat s)); lia. Qed.

  Lemma pairwise_cons2 {A} (a b : A) r : py_pairwise (a :: b :: r) = (a, b) :: py_pairwise (b :: r).
  Proof. reflexivity. Qed.
  Lemma nodes_of_cons u w r t : nodes_of ((u, w) :: r) t = Z.of_nat u :: nodes_of r t.
  Proof. reflexivity. Qed.

  Lemma walk_path lat off : forall p t d0 lp, lat_along lat p t ->
    py_for (py_pairwise (nodes_of p t)) (d0, lp) (step_edge lat (Z.of_nat off)) =
    POk (match p with [] => d0 | _ => Some (Z.of_nat t) end,
         lp ++ map (fun sw => inj (back off (fst sw), snd sw)) p).
  Proof.
    induction p as [|[u w] r IH]; intros t d0 lp H.
    - cbn. rewrite app_nil_r. reflexivity.
    - destruct H as (Hw & Hr). destruct r as [|[v w'] r'].
      + cbn [nodes_of map app fst py_pairwise py_for]. unfold step_edge at 1. cbn [fst snd]. rewrite Hw. cbn [pbind map snd fst].
        unfold inj. cbn [fst snd]. rewrite zback_of_nat. reflexivity.
      + specialize (IH t (Some (Z.of_nat v)) (lp ++ [(zback (Z.of_nat off) (Z.of_nat u), w)]) Hr).
        rewrite (nodes_of_cons u w), (nodes_of_cons v w'), pairwise_cons2, <- (nodes_of_cons v w'). cbn [py_for].
        unfold step_edge at 1. cbn [fst snd]. rewrite Hw. cbn [pbind]. rewrite IH.
        cbn [map]. unfold inj at 3. cbn [fst snd]. rewrite zback_of_nat, <- app_assoc. reflexivity.
  Qed.

  (* the latency sum of the code (over the sorted lat_path, int line numbers) is the hand model's sum_pairs *)
  Lemma sum_sorted_inj (l : list (nat * T)) : sum_sorted N (map inj l) = sum_pairs N l.
  Proof.
    unfold sum_sorted, sum_pairs. generalize (n0 N). induction l as [|x l IH]; intros a; [reflexivity|]. cbn [map fold_left]. apply IH.
  Qed.

  (* ---------------------------------------------------------------- sort, membership *)
  Lemma lt_pair_le (L : sort_law) (x y : nat * T) : pair_le N x y = negb (lt_pair N (inj y) (inj x)).
  Proof.
    unfold pair_le, lt_pair, py_tuple_lt, inj. cbn [fst snd].
    destruct (Z.eqb_spec (Z.of_nat (fst y)) (Z.of_nat (fst x))) as [E|E].
    - apply Nat2Z.inj in E. rewrite E, Nat.ltb_irrefl, Nat.eqb_refl. cbn [orb andb]. rewrite L.
      destruct (neqb N (snd y) (snd x)); reflexivity.
    - assert (fst y <> fst x) by congruence.
      destruct (Nat.ltb_spec (fst x) (fst y)); destruct (Z.ltb_spec (Z.of_nat (fst y)) (Z.of_nat (fst x))); try lia; cbn [orb negb]; try reflexivity.
      destruct (Nat.eqb_spec (fst x) (fst y)); [lia | reflexivity].
  Qed.

  Lemma py_sort_is_sort_pairs (L : sort_law) (l : list (nat * T)) : py_sort (lt_pair N) (map inj l) = map inj (sort_pairs N l).
  Proof.
    rewrite (py_sort_map inj (fun a b => lt_pair N (inj a) (inj b))) by reflexivity. f_equal.
    unfold py_sort, sort_pairs. induction l as [|x l IH]; [reflexivity|]. cbn [fold_right]. rewrite IH.
    generalize (fold_right (ins N) [] l). intros s. induction s as [|y s IHs]; [reflexivity|].
    cbn [py_insert ins]. rewrite (lt_pair_le L x y). destruct (lt_pair N (inj y) (inj x)); cbn [negb]; [rewrite IHs|]; reflexivity.
  Qed.

  Lemma eq_pairs_inj : forall a b : list (nat * T), eq_pairs N (map inj a) (map inj b) = pairs_eqb N a b.
  Proof.
    induction a as [|x a IH]; intros [|y b]; try reflexivity. cbn [map]. unfold eq_pairs in *. cbn [py_list_eq]. rewrite IH.
    unfold pairs_eqb at 2. fold (pairs_eqb N a b). unfold eq_pair, py_tuple_eq, inj. cbn [fst snd].
    destruct (Z.eqb_spec (Z.of_nat (fst x)) (Z.of_nat (fst y))) as [E|E]; destruct (Nat.eqb_spec (fst x) (fst y)); try lia; try reflexivity.
  Qed.

  Lemma mem_inj a seen : py_set_mem (eq_pairs N) (map inj a) (map (map inj) seen) = existsb (pairs_eqb N a) seen.
  Proof.
    unfold py_set_mem. induction seen as [|s seen IH]; [reflexivity|]. cbn [map existsb]. rewrite eq_pairs_inj, IH. reflexivity.
  Qed.

  (* ---------------------------------------------------------------- all paths: the de-duplication *)
  Definition entries_of (off : nat) (ps : list (list (nat * T) * nat)) : list entry := map (fun pt => entry_of N off (fst pt)) ps.
  Definition all_nodes (ps : list (list (nat * T) * nat)) : list (list Z) := map (fun pt => nodes_of (fst pt) (snd pt)) ps.

  Lemma step_path_on_path (L : sort_law) lat off p t d0 seen deps0 : p <> [] -> lat_along lat p t ->
    step_path N lat (Z.of_nat off) (nodes_of p t) (d0, map (map inj) seen, deps0) =
    POk (Some (zback (Z.of_nat off) (Z.of_nat t)),
         map (map inj) (if existsb (pairs_eqb N (snd (entry_of N off p))) seen then seen else snd (entry_of N off p) :: seen),
         if existsb (pairs_eqb N (snd (entry_of N off p))) seen then deps0 else deps0 ++ [inj_entry (entry_of N off p)]).
  Proof.
    intros Hne Hlat. unfold step_path. cbn [fst snd]. rewrite (walk_path lat off p t d0 [] Hlat). cbn [pbind fst snd app].
    assert (Eb : py_bound (match p with [] => d0 | _ :: _ => Some (Z.of_nat t) end) = POk (Z.of_nat t)) by (destruct p; [congruence | reflexivity]).
    rewrite Eb. cbn [pbind].
    rewrite <- (map_map (fun sw0 => (back off (fst sw0), snd sw0)) inj), (py_sort_is_sort_pairs L), mem_inj, sum_sorted_inj.
    unfold entry_of, inj_entry. cbv zeta. cbn [fst snd]. destruct (existsb _ seen); reflexivity.
  Qed.

  Lemma dedup_loop (L : sort_law) lat off : forall (ps : list (list (nat * T) * nat)) d0 seen deps0,
    (forall p t, In (p, t) ps -> p <> [] /\ lat_along lat p t) ->
    exists d' seen',
      py_for (all_nodes ps) (d0, map (map inj) seen, deps0) (step_path N lat (Z.of_nat off)) =
      POk (d', seen', deps0 ++ map inj_entry (dedup N seen (entries_of off ps))).
  Proof.
    induction ps as [|[p t] ps IH]; intros d0 seen deps0 H.
    - eexists _, _. cbn. rewrite app_nil_r. reflexivity.
    - destruct (H p t (or_introl eq_refl)) as (Hne & Hlat).
      assert (H' : forall p t, In (p, t) ps -> p <> [] /\ lat_along lat p t) by (intros; apply H; right; assumption).
      unfold all_nodes. cbn [map py_for fst snd]. rewrite (step_path_on_path L lat off p t d0 seen deps0 Hne Hlat). cbn [pbind].
      unfold entries_of. cbn [map fst dedup]. fold (entries_of off ps). fold (all_nodes ps).
      destruct (existsb (pairs_eqb N (snd (entry_of N off p))) seen).
      + apply IH. exact H'.
      + destruct (IH (Some (zback (Z.of_nat off) (Z.of_nat t))) (snd (entry_of N off p) :: seen) (deps0 ++ [inj_entry (entry_of N off p)]) H')
          as (d' & seen' & E).
        exists d', seen'. rewrite E. cbn [map]. rewrite <- app_assoc. reflexivity.
  Qed.

  Theorem dedup_model_is_dedup (L : sort_law) lat off (ps : list (list (nat * T) * nat)) :
    (forall p t, In (p, t) ps -> p <> [] /\ lat_along lat p t) ->
    dedup_model N lat (Z.of_nat off) (all_nodes ps) [] = POk (map inj_entry (dedup N [] (entries_of off ps))).
  Proof.
    intros H. unfold dedup_model. destruct (dedup_loop L lat off ps None [] [] H) as (d' & seen' & E).
    cbn [map] in E. rewrite E. reflexivity.
  Qed.

  (* ---------------------------------------------------------------- the dictionary *)
  Section Dict.
    Context {I : Type} (get : I -> Z) (heap : list I).
    Notation value := (lcd_value (T:=T)).

    Lemma dict_loop_spec : forall (items : list (item (T:=T))) (d0 d : list (string * value)),
      NoDup (map fst d0) -> py_for items d0 (step_item get heap) = POk d ->
      NoDup (map fst d) /\
      (forall k v, In (k, v) d -> In (k, v) d0 \/ exists it, In it items /\ k = lcd_key (snd it) /\ item_value get heap it = POk v) /\
      (forall it, In it items -> In (lcd_key (snd it)) (map fst d)) /\
      (forall k, In k (map fst d0) -> In k (map fst d)).
    Proof.
      induction items as [|it items IH]; intros d0 d ND H.
      - inversion H; subst. repeat split; [exact ND | intros; left; assumption | intros it [] | intros; assumption].
      - cbn [py_for] in H. unfold step_item at 1 in H. destruct (item_value get heap it) as [v|e] eqn:V; [|discriminate].
        cbn [pbind] in H. set (d1 := py_dict_set d0 (lcd_key (snd it)) v) in *.
        destruct (IH d1 d (py_dict_set_nodup _ _ _ ND) H) as (ND' & S & C & K). split; [exact ND'|]. split; [|split].
        + intros k v0 Hin. destruct (S k v0 Hin) as [H1|(it' & Hi & Hk & Hv)].
          * apply (py_dict_set_In d0 (lcd_key (snd it)) v (k, v0) ND) in H1. destruct H1 as [E|(H1 & _)].
            -- inversion E; subst. right. exists it. split; [left; reflexivity|]. split; [reflexivity | exact V].
            -- left. exact H1.
          * right. exists it'. split; [right; exact Hi|]. split; assumption.
        + intros it' [<-|Hi]; [|apply C; exact Hi]. apply K. apply (in_map fst _ _ (py_dict_set_has_key d0 (lcd_key (snd it)) v)).
        + intros k Hk. apply K. apply py_dict_set_keeps_keys. exact Hk.
    Qed.

    (* what dict_of returns: one entry per key; every entry is the value of an item with that key; every item's key is present *)
    Theorem dict_of_spec (items : list (item (T:=T))) d : dict_of get heap items = POk d ->
      NoDup (map fst d) /\
      (forall k v, In (k, v) d -> exists it, In it items /\ k = lcd_key (snd it) /\ item_value get heap it = POk v) /\
      (forall it, In it items -> In (lcd_key (snd it)) (map fst d)).
    Proof.
      intros H. destruct (dict_loop_spec items [] d (NoDup_nil _) H) as (ND & S & C & _). split; [exact ND|]. split; [|exact C].
      intros k v Hin. destruct (S k v Hin) as [[]|E]. exact E.
    Qed.

    (* without two items of one key the dictionary lists the items in their order *)
    Lemma dict_loop_distinct : forall (items : list (item (T:=T))) (d0 d : list (string * value)),
      NoDup (map fst d0 ++ map (fun it => lcd_key (snd it)) items) -> py_for items d0 (step_item get heap) = POk d ->
      exists vs, py_mapM (item_value get heap) items = POk vs /\ d = d0 ++ combine (map (fun it => lcd_key (snd it)) items) vs.
    Proof.
      induction items as [|it items IH]; intros d0 d ND H.
      - inversion H; subst. exists []. split; [reflexivity|]. cbn. rewrite app_nil_r. reflexivity.
      - cbn [py_for] in H. unfold step_item at 1 in H. destruct (item_value get heap it) as [v|e] eqn:V; [|discriminate].
        cbn [pbind] in H. cbn [map] in ND.
        assert (Hfresh : existsb (String.eqb (lcd_key (snd it))) (map fst d0) = false).
        { destruct (existsb _ _) eqn:E; [|reflexivity]. apply existsb_exists in E. destruct E as (k & Hk & E). apply String.eqb_eq in E. subst k.
          exfalso. apply NoDup_remove_2 in ND. apply ND. apply in_or_app. left. exact Hk. }
        assert (Eset : py_dict_set d0 (lcd_key (snd it)) v = d0 ++ [(lcd_key (snd it), v)]).
        { clear -Hfresh. induction d0 as [|[k' v'] d0 IHd]; [reflexivity|]. cbn [map fst existsb] in Hfresh. apply orb_false_iff in Hfresh.
          destruct Hfresh as (E1 & E2). cbn [py_dict_set]. rewrite E1, (IHd E2). reflexivity. }
        rewrite Eset in H. destruct (IH (d0 ++ [(lcd_key (snd it), v)]) d) as (vs & Hvs & Ed).
        + rewrite map_app. cbn [map fst]. rewrite <- app_assoc. cbn [app].
          apply NoDup_remove_1 in ND as ND1. apply NoDup_remove_2 in ND as ND2.
          apply (NoDup_Add (a := lcd_key (snd it)) (l := map fst d0 ++ map (fun it0 => lcd_key (snd it0)) items)); [apply Add_app | split; assumption].
        + exact H.
        + exists (v :: vs). cbn [py_mapM]. rewrite V. cbn [pbind]. rewrite Hvs. cbn [pbind]. split; [reflexivity|].
          rewrite Ed, <- app_assoc. reflexivity.
    Qed.

    Lemma deps_spec : forall (l : list (Z * T)) deps,
      py_mapM (fun ll => r <- node_by_lineno get heap (fst ll) ;; POk (r, snd ll)) l = POk deps ->
      Forall2 (fun ll rw => node_by_lineno get heap (fst ll) = POk (fst rw) /\ snd rw = snd ll) l deps.
    Proof.
      intros l deps H. apply py_mapM_ok in H. induction H as [|ll rw l deps H1 _ IH]; constructor; [|exact IH].
      destruct (node_by_lineno get heap (fst ll)) as [r|]; [|discriminate]. cbn [pbind] in H1. inversion H1; subst. split; reflexivity.
    Qed.

    (* an item's value: latency, the objects of its lines (first object of self.kernel with that line number), the root *)
    Lemma item_value_spec (it : item (T:=T)) root deps lat : item_value get heap it = POk (root, deps, lat) ->
      lat = fst it /\
      Forall2 (fun ll rw => node_by_lineno get heap (fst ll) = POk (fst rw) /\ snd rw = snd ll) (snd it) deps /\
      exists first rest, snd it = first :: rest /\ node_by_lineno get heap (fst first) = POk root.
    Proof.
      unfold item_value. intros H. destruct (py_nth (snd it) 0) as [first|] eqn:E1; [|discriminate]. cbn [pbind] in H.
      destruct (node_by_lineno get heap (fst first)) as [r|] eqn:E2; [|discriminate]. cbn [pbind] in H.
      destruct (py_mapM _ (snd it)) as [ds|] eqn:E3; [|discriminate]. cbn [pbind] in H. inversion H; subst.
      split; [reflexivity|]. split; [apply deps_spec; exact E3|].
      unfold py_nth in E1. destruct (snd it) as [|f rest]; [discriminate|]. cbn in E1. inversion E1; subst.
      exists first, rest. split; [reflexivity | exact E2].
    Qed.
  End Dict.

  (* ---------------------------------------------------------------- with the paths the model enumerates *)
  Section WithModel.
    Variable dep : regop -> regop -> bool.
    Variables (fwd pidx : T) (fd : bool).

    (* the latency look-up of the doubled kernel's graph agrees with the model graph *)
    Definition lat_agrees (g : list (edge (T:=T))) (lat : Z -> Z -> pres T) : Prop :=
      forall u v w, In (v, w) (succs g u) -> lat (Z.of_nat u) (Z.of_nat v) = POk w.

    Lemma vpath_head (g : list (edge (T:=T))) u t p : vpath g u t p -> exists w r, p = (u, w) :: r.
    Proof. intros H. destruct H; eexists _, _; reflexivity. Qed.

    Lemma vpath_lat_along (g : list (edge (T:=T))) lat : lat_agrees g lat -> forall u t p, vpath g u t p -> p <> [] /\ lat_along lat p t.
    Proof.
      intros A u t p H. induction H as [u t w Hs | u v t w p Hs Hne Hp IH].
      - split; [discriminate|]. cbn. split; [apply A; exact Hs | exact I].
      - split; [discriminate|]. destruct (vpath_head _ _ _ _ Hp) as (w' & r & ->). cbn [lat_along]. split; [apply A; exact Hs | apply IH].
    Qed.

    (* all_paths as the model's search delivers them: per instruction (in kernel order) its paths to its copy *)
    Definition model_paths (K : list line) : list (list (nat * T) * nat) :=
      let off := lcd_offset K in
      let g := create_dg N dep fwd pidx fd (doubled K) in
      flat_map (fun l => map (fun p => (p, l_no l + off)) (paths (2 * List.length K + 2) g (l_no l) (l_no l + off))) K.

    Lemma entries_of_model_paths K :
      dedup N [] (entries_of (lcd_offset K) (model_paths K)) = lcd_entries N dep fwd pidx fd K.
    Proof.
      unfold lcd_entries, entries_of, model_paths. cbv zeta. f_equal. rewrite flat_map_concat_map, concat_map, map_map.
      rewrite flat_map_concat_map. f_equal. apply map_ext. intros l. rewrite map_map. reflexivity.
    Qed.

    Theorem post_model_is_lcd_entries (L : sort_law) {I} (get : I -> Z) heap lat (K : list line) :
      lat_agrees (create_dg N dep fwd pidx fd (doubled K)) lat ->
      post_model N get lat heap (Z.of_nat (lcd_offset K)) (all_nodes (model_paths K)) [] =
      dict_of get heap (py_sort_rev (lt_item N) (map inj_entry (lcd_entries N dep fwd pidx fd K))).
    Proof.
      intros A. unfold post_model. rewrite (dedup_model_is_dedup L).
      - cbn [pbind]. rewrite entries_of_model_paths. reflexivity.
      - intros p t Hin. unfold model_paths in Hin. cbv zeta in Hin. apply in_flat_map in Hin. destruct Hin as (l & _ & Hin).
        apply in_map_iff in Hin. destruct Hin as (p' & E & Hp). inversion E; subst.
        apply paths_sound in Hp. exact (vpath_lat_along _ lat A _ _ _ Hp).
    Qed.
  End WithModel.
End Bridge.

(* the order law holds for exact rationals *)
Lemma sort_law_Q : sort_law QNum.
Proof.
  intros a b. cbn [nleb neqb nltb QNum]. unfold Qleb, Qeqb, Qltb. rewrite negb_involutive.
  destruct (Qeq_bool b a) eqn:E; [|reflexivity]. apply Qeq_bool_iff in E. apply Qle_bool_iff. rewrite E. apply Qle_refl.
Qed.
