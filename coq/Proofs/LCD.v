(* Loop-carried dependencies (Model/Deps.v): the path enumeration is sound and complete for the simple paths
   of the dependency graph, and the de-duplication keeps exactly one representative per class of equal
   sorted (line, latency) lists -- the first one (DESIGN.md C05). Generic in the numeric instance. *)
From Coq Require Import ZArith List Bool String Lia.
From OV Require Import Model.Num Model.Pressure Model.Deps.
Import ListNotations.

Section Paths.
  Context {T : Type} (N : NumOps T).
  Notation edge := (edge (T:=T)).

  (* a dependency path u -> ... -> t, written as the list of (source, weight of the edge leaving it) *)
  Inductive vpath (g : list edge) : nat -> nat -> list (nat * T) -> Prop :=
  | vp_last u t w : In (t, w) (succs g u) -> vpath g u t [(u, w)]
  | vp_step u v t w p : In (v, w) (succs g u) -> v <> t -> vpath g v t p -> vpath g u t ((u, w) :: p).

  Lemma paths_sound g : forall fuel u t p, In p (paths fuel g u t) -> vpath g u t p.
  Proof.
    induction fuel as [|f IH]; intros u t p H; [contradiction|].
    cbn [paths] in H. apply in_flat_map in H. destruct H as ([v w] & Hs & Hp).
    destruct (Nat.eqb v t) eqn:E.
    - apply Nat.eqb_eq in E. subst v. destruct Hp as [Hp|[]]. subst p. constructor. exact Hs.
    - apply Nat.eqb_neq in E. apply in_map_iff in Hp. destruct Hp as (q & Eq & Hq). subst p.
      eapply vp_step; eauto.
  Qed.

  Lemma paths_complete g : forall fuel u t p, vpath g u t p -> List.length p <= fuel -> In p (paths fuel g u t).
  Proof.
    induction fuel as [|f IH]; intros u t p H L.
    - destruct H; simpl in L; lia.
    - cbn [paths]. apply in_flat_map. destruct H as [u t w Hs | u v t w p Hs Hne Hp].
      + exists (t, w). split; [exact Hs|]. rewrite Nat.eqb_refl. left. reflexivity.
      + exists (v, w). split; [exact Hs|]. destruct (Nat.eqb v t) eqn:E; [apply Nat.eqb_eq in E; contradiction|].
        apply in_map. apply IH; [exact Hp | simpl in L; lia].
  Qed.

  (* ---- de-duplication ---- *)
  Variable keq : list (nat * T) -> list (nat * T) -> bool.
  Hypothesis keq_refl : forall a, keq a a = true.
  Hypothesis keq_sym : forall a b, keq a b = keq b a.
  Hypothesis keq_trans : forall a b c, keq a b = true -> keq b c = true -> keq a c = true.

  Fixpoint dedup_by (seen : list (list (nat * T))) (es : list (entry (T:=T))) : list (entry (T:=T)) :=
    match es with
    | [] => []
    | e :: r => if existsb (keq (snd e)) seen then dedup_by seen r else e :: dedup_by (snd e :: seen) r
    end.

  Lemma dedup_subset : forall es seen e, In e (dedup_by seen es) -> In e es.
  Proof.
    induction es as [|x es IH]; intros seen e H; [contradiction|]. cbn [dedup_by] in H.
    destruct (existsb (keq (snd x)) seen).
    - right. eapply IH; eassumption.
    - destruct H as [H|H]; [left; exact H | right; eapply IH; eassumption].
  Qed.

  (* every input entry is represented (by key) in the output or was already seen *)
  Lemma dedup_covers : forall es seen e, In e es ->
    existsb (keq (snd e)) seen = true \/ exists e', In e' (dedup_by seen es) /\ keq (snd e) (snd e') = true.
  Proof.
    induction es as [|x es IH]; intros seen e H; [contradiction|]. cbn [dedup_by].
    destruct (existsb (keq (snd x)) seen) eqn:S.
    - destruct H as [H|H]; [subst; left; exact S | apply IH; exact H].
    - destruct H as [H|H].
      + subst. right. exists e. split; [left; reflexivity | apply keq_refl].
      + destruct (IH (snd x :: seen) e H) as [A|(e' & A & B)].
        * cbn [existsb] in A. apply orb_true_iff in A. destruct A as [A|A].
          -- right. exists x. split; [left; reflexivity | exact A].
          -- left. exact A.
        * right. exists e'. split; [right; exact A | exact B].
  Qed.

  (* output keys are pairwise different and different from everything seen before *)
  Lemma dedup_fresh : forall es seen e, In e (dedup_by seen es) -> existsb (keq (snd e)) seen = false.
  Proof.
    induction es as [|x es IH]; intros seen e H; [contradiction|]. cbn [dedup_by] in H.
    destruct (existsb (keq (snd x)) seen) eqn:S.
    - eapply IH; eassumption.
    - destruct H as [H|H]; [subst; exact S|].
      specialize (IH _ _ H). cbn [existsb] in IH. apply orb_false_iff in IH. apply IH.
  Qed.

  Lemma dedup_nodup : forall es seen, NoDup (dedup_by seen es) /\
    forall a b, In a (dedup_by seen es) -> In b (dedup_by seen es) -> keq (snd a) (snd b) = true -> a = b.
  Proof.
    induction es as [|x es IH]; intros seen; cbn [dedup_by].
    - split; [constructor | intros a b []].
    - destruct (existsb (keq (snd x)) seen) eqn:S; [apply IH|].
      destruct (IH (snd x :: seen)) as (ND & U). split.
      + constructor; [|exact ND]. intros Hin. pose proof (dedup_fresh _ _ _ Hin) as F.
        cbn [existsb] in F. apply orb_false_iff in F. destruct F as [F _]. rewrite keq_refl in F. discriminate.
      + intros a b [Ha|Ha] [Hb|Hb] K.
        * congruence.
        * subst a. pose proof (dedup_fresh _ _ _ Hb) as F. cbn [existsb] in F. apply orb_false_iff in F.
          destruct F as [F _]. rewrite keq_sym in F. congruence.
        * subst b. pose proof (dedup_fresh _ _ _ Ha) as F. cbn [existsb] in F. apply orb_false_iff in F.
          destruct F as [F _]. congruence.
        * apply U; assumption.
  Qed.
End Paths.
