(* C13: the number of integer digits printed by fmt_fixed is at least the number of integer digits of the value itself --
   so the minimum-width field of '{:W.Pf}' with W = len(str(float(v)).split(".")[0]) (frontend._get_port_pressure) never pads. *)
From Coq Require Import ZArith List Bool String Ascii Lia.
From Coq Require Import PrimFloat SpecFloat FloatOps.
From OV Require Import Model.Num Model.Fmt Model.Report Proofs.Fmt.
Import ListNotations.
Open Scope Z_scope.

Lemma digit_val_range : forall c d, digit_val c = Some d -> 0 <= d <= 9 /\ Ascii.eqb c "."%char = false.
Proof.
  intros c d H. unfold digit_val in H.
  destruct (andb (48 <=? nat_of_ascii c)%nat (nat_of_ascii c <=? 57)%nat) eqn:E; [|discriminate].
  apply andb_prop in E. destruct E as [E1 E2]. apply Nat.leb_le in E1, E2. inversion H; subst. split; [lia|].
  destruct (Ascii.eqb c "."%char) eqn:C; [|reflexivity]. apply Ascii.eqb_eq in C. subst c. cbn in E1. lia.
Qed.

Lemma digit_val_zero : forall c, digit_val c = Some 0 -> c = "0"%char.
Proof.
  intros c H. unfold digit_val in H.
  destruct (andb (48 <=? nat_of_ascii c)%nat (nat_of_ascii c <=? 57)%nat) eqn:E; [|discriminate].
  apply andb_prop in E. destruct E as [E1 E2]. apply Nat.leb_le in E1, E2. inversion H as [H0].
  assert (N : nat_of_ascii c = 48%nat) by lia. rewrite <- (ascii_nat_embedding c), N. reflexivity.
Qed.

Lemma slen_app' : forall a b : string, String.length (a ++ b) = (String.length a + String.length b)%nat.
Proof. induction a as [|x a IH]; intros; cbn; [reflexivity|]. f_equal. apply IH. Qed.
Lemma sapp_nil_r' : forall a : string, (a ++ "")%string = a.
Proof. induction a as [|x a IH]; cbn; [reflexivity|]. f_equal. exact IH. Qed.

Lemma read_go_all_digits : forall s acc, all_digits s = true ->
  exists w, read_go s acc false 0 = Some (acc * pow10 (String.length s) + w, 0%nat) /\ 0 <= w < pow10 (String.length s).
Proof.
  induction s as [|c s IH]; intros acc H.
  - exists 0. cbn. split; [f_equal; f_equal; lia|lia].
  - cbn [all_digits] in H. destruct (digit_val c) as [d|] eqn:D; [|discriminate]. cbn [andb] in H.
    destruct (digit_val_range c d D) as (R & ND). rewrite (read_go_step c s acc false 0%nat d ND D).
    destruct (IH (acc * 10 + d) H) as (w & E & B). exists (d * pow10 (String.length s) + w). rewrite E.
    cbn [String.length]. rewrite pow10_S. assert (P := pow10_pos (String.length s)). split; [f_equal; f_equal; ring|nia].
Qed.

Lemma strip0_lead : forall s c r, strip0 s = String c r -> Ascii.eqb c "0"%char = true -> r = EmptyString.
Proof.
  induction s as [|a s IH]; intros c r H Z; [discriminate|]. cbn [strip0] in H. destruct s as [|b s'].
  - inversion H. reflexivity.
  - destruct (Ascii.eqb a "0"%char) eqn:A.
    + exact (IH c r H Z).
    + inversion H; subst. congruence.
Qed.

Lemma int_digits_bounds : forall v, 0 <= v ->
  v < pow10 (String.length (int_digits v))
  /\ (1 <= String.length (int_digits v))%nat
  /\ (1 <= v -> pow10 (String.length (int_digits v) - 1) <= v).
Proof.
  intros v Hv. destruct (int_digits_spec v EmptyString Hv) as (R & c & r & d & E & D).
  rewrite sapp_nil_r' in R, E. cbn [read_go] in R.
  assert (AD : all_digits (int_digits v) = true).
  { unfold int_digits, digits_fix. apply strip0_all_digits. apply all_digits_acc; [exact Hv|reflexivity]. }
  destruct (read_go_all_digits (int_digits v) 0 AD) as (w & E1 & B1). rewrite R in E1. assert (E2 : v = w) by (injection E1; lia).
  split; [lia|]. split; [rewrite E; cbn; lia|]. intros H1.
  rewrite E in *. cbn [String.length]. replace (S (String.length r) - 1)%nat with (String.length r) by lia.
  destruct (digit_val_range c d D) as (Rd & ND). rewrite (read_go_step c r 0 false 0%nat d ND D) in R.
  cbn [all_digits] in AD. rewrite D in AD. cbn [andb] in AD.
  destruct (read_go_all_digits r (0 * 10 + d) AD) as (w' & E3 & B3). rewrite R in E3. assert (E4 : v = (0 * 10 + d) * pow10 (String.length r) + w') by (injection E3; lia).
  assert (P := pow10_pos (String.length r)).
  destruct (Z.eq_dec d 0) as [D0|D0].
  - subst d. apply digit_val_zero in D. subst c. unfold int_digits in E.
    pose proof (strip0_lead _ _ _ E eq_refl) as Er. subst r. cbn in *. lia.
  - nia.
Qed.

Lemma int_digits_len_mono : forall a b, 0 <= a <= b -> (String.length (int_digits a) <= String.length (int_digits b))%nat.
Proof.
  intros a b H. destruct (int_digits_bounds a (proj1 H)) as (Ua & Na & La).
  destruct (int_digits_bounds b ltac:(lia)) as (Ub & Nb & Lb).
  destruct (Z.eq_dec a 0) as [->|A0]; [vm_compute String.length at 1; exact Nb|].
  specialize (La ltac:(lia)).
  destruct (le_lt_dec (String.length (int_digits a)) (String.length (int_digits b))) as [L|G]; [exact L|exfalso].
  assert (M : pow10 (String.length (int_digits b)) <= pow10 (String.length (int_digits a) - 1)).
  { unfold pow10. apply Z.pow_le_mono_r; lia. }
  lia.
Qed.

Lemma Zround_half_even_ge_floor : forall n d, n / Zpos d <= Zround_half_even n d.
Proof.
  intros n d. unfold Zround_half_even. destruct (2 * (n mod Z.pos d) ?= Z.pos d); [destruct (Z.even _)| |]; lia.
Qed.

(* the integer digits in front of the decimal point never get fewer by rounding *)
Theorem left_len_le_fmt_fixed : forall d v, (left_len v <= String.length (fmt_fixed d v))%nat.
Proof.
  intros d v. unfold left_len, fmt_fixed. destruct (f_decode v) as [s num den|s|] eqn:E.
  - assert (Hn : 0 <= num) by (eapply f_decode_nonneg; exact E).
    rewrite !slen_app'. assert (P := pow10_pos d).
    assert (M : (String.length (int_digits (num / Z.pos den)) <= String.length (int_digits (fmt_units d num den / pow10 d)))%nat).
    { apply int_digits_len_mono. split; [apply Z.div_pos; lia|].
      apply Z.div_le_lower_bound; [exact P|]. unfold fmt_units.
      eapply Z.le_trans; [|apply Zround_half_even_ge_floor].
      apply Z.div_le_lower_bound; [lia|].
      assert (Q := Z.mul_div_le num (Z.pos den) ltac:(lia)). nia. }
    destruct s; cbn [String.length]; lia.
  - destruct s; cbn; lia.
  - cbn; lia.
Qed.
