(* Soundness and completeness of the critical-path CERTIFICATE (DESIGN.md C04).
   The check evaluates, per kernel, the boolean certificate
       cert_ok g lat true cells  &&  cert_value cells = cp_opt g k
   (Model/CritPath.v; `cells` = the lines the implementation reports as critical path with their CP cells).
   This file proves, over exact rationals and for EVERY graph / line list / cell list, what a passed certificate means:
     - the reported lines form a dependency chain of g,
     - every cell is the weight the chain semantics assigns to its position (cells_spec: edge latency; first cell of a
       chain of >= 2 lines: load stage + edge latency; last cell: the instruction's latency),
     - the chain's length is cp_opt g k, hence (cp_opt_upper) no chain of the kernel is longer,
   and conversely that every longest chain, reported with the cells of the chain semantics, passes the certificate. *)
From Coq Require Import ZArith QArith Lqa List Bool String Lia.
From OV Require Import Model.Num Model.Pressure Model.Deps Model.CritPath Proofs.CritPathQ Proofs.DepsGraph.
Import ListNotations.
Open Scope Q_scope.

(* ---------------------------------------------------------------- vocabulary *)
(* length of chain c (edge-sum e) whose last instruction has latency l: the expression of C04_cp_bounds_every_chain *)
Definition clen (g : list qedge) (c : list nat) (e l : Q) : Q :=
  (match c with _ :: _ :: _ => e + loadw QNum g (first_of c) | _ => e end) + l.

Definition cells_sum (c : list (nat * Q)) : Q := fold_right (fun p a => snd p + a) 0 c.

(* the whole certificate, as the correspondence shards evaluate it (harness/deps.py `check`, with FNum / f_biteq) *)
Definition cp_certificate {T : Type} (N : NumOps T) (g : list (edge (T:=T))) (k : list (nat * T))
           (lat : nat -> option T) (cells : list (nat * T)) : bool :=
  andb (cert_ok N g lat true cells) (neqb N (cert_value N cells) (cp_opt N g k)).

(* DECLARATIVE cell semantics, independent of cert_ok: what each CP cell of a reported chain has to be.
   first = the list starts at the first line of the chain (so a load stage of that line is added to its cell). *)
Inductive cells_spec (g : list qedge) (lat : nat -> option Q) : bool -> list (nat * Q) -> Prop :=
| cs_last (first : bool) (n : nat) (x l : Q) : lat n = Some l -> x == l -> cells_spec g lat first [(n, x)]
| cs_step (first : bool) (n : nat) (x : Q) (m : nat) (y : Q) (rest : list (nat * Q)) (w : Q) :
    has_edge g n m w ->
    x == (if first then loadw QNum g n + w else w) ->
    cells_spec g lat false ((m, y) :: rest) ->
    cells_spec g lat first ((n, x) :: (m, y) :: rest).

(* every (u, v) carries one weight: true of create_dg (networkx add_edge overwrites), see create_dg_functional below *)
Definition edges_functional (g : list qedge) : Prop :=
  forall u v w w', has_edge g u v w -> has_edge g u v w' -> w == w'.

Definition nonneg_edges (g : list qedge) : Prop := forall s isld t w, In ((s, isld), t, w) g -> 0 <= w.

(* c (ending in line n with latency l of k) is a longest chain of the kernel *)
Definition longest_chain (g : list qedge) (k : list (nat * Q)) (c : list nat) (e l : Q) : Prop :=
  forall c' e' n' l', chain g c' e' -> last_of c' = n' -> In (n', l') k -> clen g c' e' l' <= clen g c e l.

(* ---------------------------------------------------------------- numbers *)
Lemma neqb_iff (x y : Q) : neqb QNum x y = true <-> x == y.
Proof. cbn [neqb QNum]. unfold Qeqb. apply Qeq_bool_iff. Qed.

Lemma cert_value_fold : forall (c : list (nat * Q)) a,
  fold_left (fun a (p : nat * Q) => nadd QNum a (snd p)) c a == a + cells_sum c.
Proof.
  induction c as [|[n x] c IH]; intros a; cbn [fold_left cells_sum fold_right snd].
  - lra.
  - rewrite IH. pose proof (cpadd_eq a x) as A. fold (cells_sum c). lra.
Qed.

Lemma cert_value_sum (c : list (nat * Q)) : cert_value QNum c == cells_sum c.
Proof. unfold cert_value. rewrite cert_value_fold. cbn [n0 QNum]. lra. Qed.

Lemma clen_proper g c e e' l : e == e' -> clen g c e l == clen g c e' l.
Proof. intros E. unfold clen. destruct c as [|a [|b c]]; lra. Qed.

(* ---------------------------------------------------------------- weight g u v = the (last) edge u -> v *)
Definition wstep (u v : nat) (m : option Q) (e : qedge) : option Q :=
  let '((s, isld), t, w) := e in
  if andb (negb isld) (andb (Nat.eqb s u) (Nat.eqb t v)) then Some w else m.

Lemma weight_unfold (g : list qedge) u v : weight g u v = fold_left (wstep u v) g None.
Proof. reflexivity. Qed.

Lemma weight_fold_sound u v : forall (g : list qedge) acc w,
  fold_left (wstep u v) g acc = Some w -> acc = Some w \/ has_edge g u v w.
Proof.
  induction g as [|[[[s isld] t] w'] g IH]; intros acc w H; cbn [fold_left] in H; [left; exact H|].
  apply IH in H. destruct H as [H|H]; [|right; right; exact H].
  unfold wstep in H. destruct isld; cbn [negb andb] in H; [left; exact H|].
  destruct (Nat.eqb s u) eqn:Es; cbn [andb] in H; [|left; exact H].
  destruct (Nat.eqb t v) eqn:Et; [|left; exact H].
  apply Nat.eqb_eq in Es, Et. subst. inversion H; subst. right. left. reflexivity.
Qed.

Lemma weight_fold_some u v : forall (g : list qedge) x, exists y, fold_left (wstep u v) g (Some x) = Some y.
Proof.
  induction g as [|a g IH]; intros x; cbn [fold_left]; [eauto|].
  assert (exists z, wstep u v (Some x) a = Some z) as (z & ->).
  { destruct a as [[[s isld] t] w']. unfold wstep. destruct (andb (negb isld) (andb (Nat.eqb s u) (Nat.eqb t v))); eauto. }
  apply IH.
Qed.

Lemma weight_fold_complete u v w : forall (g : list qedge) acc,
  has_edge g u v w -> exists y, fold_left (wstep u v) g acc = Some y.
Proof.
  induction g as [|a g IH]; intros acc H; [contradiction|]. destruct H as [E|H].
  - subst a. cbn [fold_left]. unfold wstep at 2. rewrite !Nat.eqb_refl. cbn [negb andb]. apply weight_fold_some.
  - cbn [fold_left]. apply IH. exact H.
Qed.

Lemma weight_sound (g : list qedge) u v w : weight g u v = Some w -> has_edge g u v w.
Proof. rewrite weight_unfold. intros H. apply weight_fold_sound in H. destruct H as [H|H]; [discriminate|exact H]. Qed.

Lemma weight_complete (g : list qedge) u v w : has_edge g u v w -> exists w', weight g u v = Some w' /\ has_edge g u v w'.
Proof.
  intros H. destruct (weight_fold_complete u v w g None H) as (y & Hy).
  exists y. split; [exact Hy|]. apply weight_sound. exact Hy.
Qed.

(* the load-stage rule: loadw g n is the weight of (the last) load edge (n, load) -> n, 0 when the line has no load node *)
Lemma loadw_fold_spec n : forall (g : list qedge) a,
  let r := fold_left (fun m (e : qedge) => let '((s, isld), t, w) := e in
                          if andb isld (andb (Nat.eqb s n) (Nat.eqb t n)) then w else m) g a in
  r = a \/ In ((n, true), n, r) g.
Proof.
  induction g as [|[[[s isld] t] w] g IH]; intros a; cbn [fold_left]; [left; reflexivity|].
  cbv zeta in IH.
  match goal with |- context [fold_left ?f g ?a'] => destruct (IH a') as [E|E] end.
  - cbv zeta. rewrite E.
    destruct isld; cbn [andb]; [|left; reflexivity].
    destruct (Nat.eqb s n) eqn:Es; cbn [andb]; [|left; reflexivity].
    destruct (Nat.eqb t n) eqn:Et; [|left; reflexivity].
    apply Nat.eqb_eq in Es, Et. subst. right. left. reflexivity.
  - right. right. exact E.
Qed.

Lemma loadw_spec (g : list qedge) n : loadw QNum g n = 0 \/ In ((n, true), n, loadw QNum g n) g.
Proof. unfold loadw. apply (loadw_fold_spec n g (n0 QNum)). Qed.

(* ---------------------------------------------------------------- chains, cons view *)
Inductive lchain (g : list qedge) : list nat -> Q -> Prop :=
| lc_one n : lchain g [n] 0
| lc_cons n m c w e : has_edge g n m w -> lchain g (m :: c) e -> lchain g (n :: m :: c) (w + e).

Lemma chain_cons g : forall c e, chain g c e -> forall n w, has_edge g n (first_of c) w ->
  exists e', chain g (n :: c) e' /\ e' == w + e.
Proof.
  intros c e H. induction H as [m | c a b w' e H IH He]; intros n w Hn.
  - exists (0 + w). split; [|lra]. apply (ch_snoc g [] n m w 0); [apply ch_one | exact Hn].
  - rewrite first_snoc in Hn. destruct (IH n w Hn) as (e' & Hc & Ee).
    exists (e' + w'). split; [|lra]. apply (ch_snoc g (n :: c) a b w' e'); assumption.
Qed.

Lemma lchain_chain g : forall c e, lchain g c e -> exists e', chain g c e' /\ e' == e.
Proof.
  intros c e H. induction H as [n | n m c w e He Hl IH].
  - exists 0. split; [constructor|lra].
  - destruct IH as (e' & Hc & Ee). destruct (chain_cons g _ _ Hc n w He) as (e'' & Hc' & Ee').
    exists e''. split; [exact Hc'|lra].
Qed.

Lemma lchain_snoc g : forall c n e m w, lchain g (c ++ [n]) e -> has_edge g n m w ->
  exists e', lchain g (c ++ [n; m]) e' /\ e' == e + w.
Proof.
  induction c as [|a c IH]; intros n e m w H He.
  - cbn [app] in H. inversion H; subst. exists (w + 0). split; [|lra]. cbn [app]. apply lc_cons; [exact He|apply lc_one].
  - cbn [app] in H. inversion H as [n0 E1 E2 | n0 m0 c0 w0 e0 He0 Hl0 E1 E2]; subst.
    + destruct c; discriminate.
    + assert (Ec : c ++ [n; m] = m0 :: (c0 ++ [m])).
      { change [n; m] with ([n] ++ [m]). rewrite app_assoc. match goal with E : _ = c ++ [n] |- _ => rewrite <- E end. reflexivity. }
      assert (Hl : lchain g (c ++ [n]) e0).
      { match goal with E : _ = c ++ [n] |- _ => rewrite <- E end. exact Hl0. }
      destruct (IH n e0 m w Hl He) as (e' & Hl' & Ee).
      exists (w0 + e'). split; [|lra]. cbn [app]. rewrite Ec. apply lc_cons; [exact He0|]. rewrite <- Ec. exact Hl'.
Qed.

Lemma chain_lchain g : forall c e, chain g c e -> exists e', lchain g c e' /\ e' == e.
Proof.
  intros c e H. induction H as [n | c n m w e H IH He].
  - exists 0. split; [constructor|lra].
  - destruct IH as (e' & Hl & Ee). destruct (lchain_snoc g c n e' m w Hl He) as (e'' & Hl' & Ee').
    exists e''. split; [exact Hl'|lra].
Qed.

Lemma last_of_cons2 (n m : nat) c : last_of (n :: m :: c) = last_of (m :: c).
Proof. reflexivity. Qed.

Lemma lchain_nonneg g : nonneg_edges g -> forall c e, lchain g c e -> 0 <= e.
Proof.
  intros Hw c e H. induction H as [n | n m c w e He Hl IH]; [lra|].
  pose proof (Hw _ _ _ _ He). lra.
Qed.

(* ---------------------------------------------------------------- cert_ok => cells_spec *)
Lemma cert_ok_cons2 g lat first n x m y rest :
  cert_ok QNum g lat first ((n, x) :: (m, y) :: rest) =
  match weight g n m with
  | None => false
  | Some w => andb (orb (neqb QNum x w) (andb first (neqb QNum x (nadd QNum (loadw QNum g n) w))))
                   (cert_ok QNum g lat false ((m, y) :: rest))
  end.
Proof. reflexivity. Qed.

Lemma cert_ok_one g lat first n x :
  cert_ok QNum g lat first [(n, x)] = match lat n with Some l => neqb QNum x l | None => false end.
Proof. reflexivity. Qed.

Lemma cert_ok_tail_spec g lat : forall cells, cert_ok QNum g lat false cells = true -> cells_spec g lat false cells.
Proof.
  induction cells as [|[n x] cells IH]; intros H; [discriminate|].
  destruct cells as [|[m y] rest].
  - rewrite cert_ok_one in H. destruct (lat n) as [l|] eqn:L; [|discriminate].
    apply neqb_iff in H. eapply cs_last; eassumption.
  - rewrite cert_ok_cons2 in H. destruct (weight g n m) as [w|] eqn:W; [|discriminate].
    apply andb_true_iff in H. destruct H as [Hx Hr]. cbn [andb] in Hx. rewrite orb_false_r in Hx.
    apply neqb_iff in Hx. eapply cs_step; [apply weight_sound; exact W | exact Hx | apply IH; exact Hr].
Qed.

Lemma cert_ok_head g lat n x m y rest :
  cert_ok QNum g lat true ((n, x) :: (m, y) :: rest) = true ->
  exists w, has_edge g n m w /\ (x == w \/ x == loadw QNum g n + w) /\ cells_spec g lat false ((m, y) :: rest).
Proof.
  intros H. rewrite cert_ok_cons2 in H. destruct (weight g n m) as [w|] eqn:W; [|discriminate].
  apply andb_true_iff in H. destruct H as [Hx Hr]. exists w. split; [apply weight_sound; exact W|].
  split; [|apply cert_ok_tail_spec; exact Hr].
  apply orb_true_iff in Hx. destruct Hx as [Hx|Hx].
  - left. apply neqb_iff. exact Hx.
  - right. cbn [andb] in Hx. apply neqb_iff in Hx. pose proof (cpadd_eq (loadw QNum g n) w). lra.
Qed.

(* cells that follow the chain semantics describe a chain and add up to its length *)
Lemma spec_lchain g lat : forall first cells, cells_spec g lat first cells ->
  exists e l, lchain g (map fst cells) e /\ lat (last_of (map fst cells)) = Some l /\
              cells_sum cells == (if first then clen g (map fst cells) e l else e + l).
Proof.
  intros first cells H. induction H as [first n x l L Hx | first n x m y rest w He Hx Hs IH].
  - exists 0, l. split; [apply lc_one|]. split; [exact L|].
    cbn [cells_sum fold_right snd map fst]. unfold clen. destruct first; lra.
  - destruct IH as (e & l & Hl & L & Hsum). exists (w + e), l.
    cbn [map fst] in *. split; [apply lc_cons; assumption|]. split; [rewrite last_of_cons2; exact L|].
    change (cells_sum ((n, x) :: (m, y) :: rest)) with (x + cells_sum ((m, y) :: rest)).
    unfold clen, first_of. cbn [hd]. destruct first; lra.
Qed.

(* ---------------------------------------------------------------- SOUNDNESS *)
Theorem cert_sound g k lat cells :
  nonneg_edges g -> forward_ok g [] k ->
  (forall n l, lat n = Some l -> In (n, l) k) ->
  cert_ok QNum g lat true cells = true ->
  cert_value QNum cells == cp_opt QNum g k ->
  cells_spec g lat true cells /\
  exists e l, chain g (map fst cells) e /\ lat (last_of (map fst cells)) = Some l /\
    clen g (map fst cells) e l == cells_sum cells /\
    clen g (map fst cells) e l == cp_opt QNum g k /\
    longest_chain g k (map fst cells) e l.
Proof.
  intros Hw FO Hlat Hok Hsum. rewrite cert_value_sum in Hsum.
  assert (Spec : cells_spec g lat true cells).
  { destruct cells as [|[n x] [|[m y] rest]]; [discriminate| |].
    - rewrite cert_ok_one in Hok. destruct (lat n) as [l|] eqn:L; [|discriminate].
      apply neqb_iff in Hok. eapply cs_last; eassumption.
    - destruct (cert_ok_head _ _ _ _ _ _ _ Hok) as (w & He & [Hx|Hx] & Hs).
      + (* the first cell omits the load stage: only possible when there is none *)
        assert (S0 : cells_spec g lat false ((n, x) :: (m, y) :: rest)) by (eapply cs_step; eassumption).
        destruct (spec_lchain _ _ _ _ S0) as (e & l & Hl & L & Hv).
        destruct (lchain_chain _ _ _ Hl) as (e' & Hc & Ee).
        pose proof (cp_opt_upper g k Hw FO _ _ _ l Hc eq_refl (Hlat _ _ L)) as U.
        cbn [map fst] in U. unfold first_of in U. cbn [hd] in U.
        pose proof (loadw_nonneg g n Hw) as P.
        eapply cs_step; [exact He| |exact Hs]. lra.
      + eapply cs_step; eassumption. }
  split; [exact Spec|].
  destruct (spec_lchain _ _ _ _ Spec) as (e & l & Hl & L & Hv).
  destruct (lchain_chain _ _ _ Hl) as (e' & Hc & Ee).
  pose proof (clen_proper g (map fst cells) e' e l Ee) as P.
  exists e', l. split; [exact Hc|]. split; [exact L|]. split; [lra|]. split; [lra|].
  intros c' e0 n' l' Hc' El' Hin'.
  pose proof (cp_opt_upper g k Hw FO c' e0 n' l' Hc' El' Hin') as U. fold (clen g c' e0 l') in U. lra.
Qed.

(* what the boolean certificate of the shards says, in one statement *)
Corollary cp_certificate_sound g k lat cells :
  nonneg_edges g -> forward_ok g [] k ->
  (forall n l, lat n = Some l -> In (n, l) k) ->
  cp_certificate QNum g k lat cells = true ->
  cells_spec g lat true cells /\
  exists e l, chain g (map fst cells) e /\ lat (last_of (map fst cells)) = Some l /\
    clen g (map fst cells) e l == cells_sum cells /\
    clen g (map fst cells) e l == cp_opt QNum g k /\
    longest_chain g k (map fst cells) e l.
Proof.
  intros Hw FO Hlat H. unfold cp_certificate in H. apply andb_true_iff in H. destruct H as [H1 H2].
  apply neqb_iff in H2. apply cert_sound; assumption.
Qed.

(* a passed certificate and a strictly longer chain cannot coexist *)
Corollary cp_certificate_rejects_non_maximal g k lat cells c e n l :
  nonneg_edges g -> forward_ok g [] k ->
  (forall n l, lat n = Some l -> In (n, l) k) ->
  chain g c e -> last_of c = n -> In (n, l) k -> cells_sum cells < clen g c e l ->
  cp_certificate QNum g k lat cells = false.
Proof.
  intros Hw FO Hlat Hc El Hin Hlt. destruct (cp_certificate QNum g k lat cells) eqn:C; [|reflexivity]. exfalso.
  destruct (cp_certificate_sound g k lat cells Hw FO Hlat C) as (_ & e0 & l0 & _ & _ & S & _ & Lg).
  pose proof (Lg c e n l Hc El Hin). lra.
Qed.

(* ---------------------------------------------------------------- the latency function of the shards *)
(* forward_ok makes the line numbers of k distinct, so `lookup k` is the latency function of k *)
Lemma forward_ok_fresh g : forall k done n l, forward_ok g done k -> In (n, l) k -> ~ In n done.
Proof.
  induction k as [|[a la] k IH]; intros done n l FO Hin; [contradiction|].
  destruct FO as (Hnot & _ & FO'). destruct Hin as [E|Hin].
  - inversion E; subst. exact Hnot.
  - intros Hd. apply (IH (a :: done) n l FO' Hin). right. exact Hd.
Qed.

Lemma lookup_in : forall (k : list (nat * Q)) n l, lookup k n = Some l -> In (n, l) k.
Proof.
  induction k as [|[a la] k IH]; intros n l H; [discriminate|]. cbn [lookup] in H.
  destruct (Nat.eqb n a) eqn:E.
  - apply Nat.eqb_eq in E. inversion H; subst. left. reflexivity.
  - right. apply IH. exact H.
Qed.

Lemma forward_ok_lookup g : forall k done n l, forward_ok g done k -> In (n, l) k -> lookup k n = Some l.
Proof.
  induction k as [|[a la] k IH]; intros done n l FO Hin; [contradiction|]. cbn [lookup].
  destruct FO as (Hnot & _ & FO'). destruct Hin as [E|Hin].
  - inversion E; subst. rewrite Nat.eqb_refl. reflexivity.
  - destruct (Nat.eqb n a) eqn:E.
    + apply Nat.eqb_eq in E. subst. exfalso. apply (forward_ok_fresh g k (a :: done) a l FO' Hin). left. reflexivity.
    + eapply IH; eassumption.
Qed.

(* the shards pass  fun n => option_map l_lat (find (fun l => l_no l =? n) lines)  and  k = map (l_no, l_lat) lines:
   that function IS lookup k *)
Lemma find_is_lookup {A T : Type} (no : A -> nat) (f : A -> T) : forall (ls : list A) n,
  option_map f (find (fun l => Nat.eqb (no l) n) ls) = lookup (map (fun l => (no l, f l)) ls) n.
Proof.
  induction ls as [|a ls IH]; intros n; [reflexivity|]. cbn [find map lookup].
  rewrite (Nat.eqb_sym n (no a)). destruct (Nat.eqb (no a) n); [reflexivity|apply IH].
Qed.

Corollary cp_certificate_sound_lookup g k cells :
  nonneg_edges g -> forward_ok g [] k ->
  cp_certificate QNum g k (lookup k) cells = true ->
  cells_spec g (lookup k) true cells /\
  exists e l, chain g (map fst cells) e /\ In (last_of (map fst cells), l) k /\
    clen g (map fst cells) e l == cells_sum cells /\
    clen g (map fst cells) e l == cp_opt QNum g k /\
    longest_chain g k (map fst cells) e l.
Proof.
  intros Hw FO H.
  destruct (cp_certificate_sound g k (lookup k) cells Hw FO (lookup_in k) H) as (S & e & l & Hc & L & R).
  split; [exact S|]. exists e, l. split; [exact Hc|]. split; [apply lookup_in; exact L|exact R].
Qed.

(* ---------------------------------------------------------------- COMPLETENESS *)
(* the cells the chain semantics assigns to chain c whose last line has latency l *)
Fixpoint cells_of (g : list qedge) (l : Q) (first : bool) (c : list nat) : list (nat * Q) :=
  match c with
  | [] => []
  | n :: rest =>
    match rest with
    | [] => [(n, l)]
    | m :: _ => (n, match weight g n m with
                    | Some w => if first then loadw QNum g n + w else w
                    | None => 0
                    end) :: cells_of g l false rest
    end
  end.

Lemma cells_of_fst g l : forall c first, map fst (cells_of g l first c) = c.
Proof.
  induction c as [|n c IH]; intros first; [reflexivity|].
  destruct c as [|m c]; [reflexivity|].
  change (cells_of g l first (n :: m :: c)) with
    ((n, match weight g n m with Some w => if first then loadw QNum g n + w else w | None => 0 end) :: cells_of g l false (m :: c)).
  cbn [map fst]. rewrite IH. reflexivity.
Qed.

Lemma cells_of_cons g l first m c : exists y rest, cells_of g l first (m :: c) = (m, y) :: rest.
Proof. destruct c as [|b c]; cbn [cells_of]; eauto. Qed.

Lemma cells_of_ok g lat l : edges_functional g -> forall c e, lchain g c e -> lat (last_of c) = Some l ->
  forall first,
  cert_ok QNum g lat first (cells_of g l first c) = true /\
  cells_spec g lat first (cells_of g l first c) /\
  cells_sum (cells_of g l first c) == (if first then clen g c e l else e + l).
Proof.
  intros Fun c e H. induction H as [n | n m c w e He Hl IH]; intros L first.
  - cbn [cells_of]. split; [|split].
    + rewrite cert_ok_one. change (last_of [n]) with n in L. rewrite L. apply neqb_iff. reflexivity.
    + eapply cs_last; [exact L|reflexivity].
    + cbn [cells_sum fold_right snd]. unfold clen. destruct first; lra.
  - rewrite last_of_cons2 in L. destruct (IH L false) as (Ok & Sp & Sm).
    destruct (weight_complete g n m w He) as (w' & W & He').
    pose proof (Fun _ _ _ _ He He') as Ew.
    change (cells_of g l first (n :: m :: c)) with
      ((n, match weight g n m with Some w => if first then loadw QNum g n + w else w | None => 0 end) :: cells_of g l false (m :: c)).
    rewrite W. destruct (cells_of_cons g l false m c) as (y & rest & Ec). rewrite Ec in *.
    split; [|split].
    + rewrite cert_ok_cons2, W, Ok, andb_true_r. destruct first.
      * apply orb_true_iff. right. cbn [andb]. apply neqb_iff. pose proof (cpadd_eq (loadw QNum g n) w'). lra.
      * apply orb_true_iff. left. apply neqb_iff. reflexivity.
    + eapply cs_step; [exact He'|reflexivity|exact Sp].
    + change (cells_sum ((n, if first then loadw QNum g n + w' else w') :: (m, y) :: rest))
        with ((if first then loadw QNum g n + w' else w') + cells_sum ((m, y) :: rest)).
      unfold clen, first_of. cbn [hd]. destruct first; lra.
Qed.

(* a longest chain has length cp_opt *)
Lemma longest_is_opt g k c e n l :
  nonneg_edges g -> forward_ok g [] k ->
  chain g c e -> last_of c = n -> In (n, l) k -> 0 <= l ->
  longest_chain g k c e l -> clen g c e l == cp_opt QNum g k.
Proof.
  intros Hw FO Hc El Hin Hl Lg.
  pose proof (cp_opt_upper g k Hw FO c e n l Hc El Hin) as U. fold (clen g c e l) in U.
  destruct (cp_opt_attained g k Hw) as [Z|(c' & e' & n' & l' & Hc' & El' & Hin' & Hv)].
  - rewrite Z in *. destruct (chain_lchain _ _ _ Hc) as (e0 & Hl0 & Ee).
    pose proof (lchain_nonneg g Hw _ _ Hl0). pose proof (loadw_nonneg g (first_of c) Hw).
    unfold clen in *. destruct c as [|a [|b c]]; lra.
  - pose proof (Lg c' e' n' l' Hc' El' Hin') as G. fold (clen g c' e' l') in Hv. lra.
Qed.

Theorem longest_has_cert g k lat c e n l :
  nonneg_edges g -> forward_ok g [] k -> edges_functional g ->
  chain g c e -> last_of c = n -> In (n, l) k -> lat n = Some l -> 0 <= l ->
  longest_chain g k c e l ->
  exists cells, map fst cells = c /\ cells_spec g lat true cells /\ cells_sum cells == clen g c e l /\
                cp_certificate QNum g k lat cells = true.
Proof.
  intros Hw FO Fun Hc El Hin L Hl Lg.
  pose proof (longest_is_opt g k c e n l Hw FO Hc El Hin Hl Lg) as Opt.
  destruct (chain_lchain _ _ _ Hc) as (e0 & Hl0 & Ee). subst n.
  destruct (cells_of_ok g lat l Fun c e0 Hl0 L true) as (Ok & Sp & Sm).
  pose proof (clen_proper g c e0 e l Ee) as P.
  exists (cells_of g l true c). split; [apply cells_of_fst|]. split; [exact Sp|]. split; [lra|].
  unfold cp_certificate. rewrite Ok. cbn [andb]. apply neqb_iff. rewrite cert_value_sum. lra.
Qed.

Corollary longest_has_cert_lookup g k c e n l :
  nonneg_edges g -> forward_ok g [] k -> edges_functional g ->
  chain g c e -> last_of c = n -> In (n, l) k -> 0 <= l ->
  longest_chain g k c e l ->
  exists cells, map fst cells = c /\ cells_spec g (lookup k) true cells /\ cells_sum cells == clen g c e l /\
                cp_certificate QNum g k (lookup k) cells = true.
Proof.
  intros Hw FO Fun Hc El Hin Hl Lg. eapply longest_has_cert; try eassumption.
  eapply forward_ok_lookup; eassumption.
Qed.

(* any chain at all yields cells accepted by cert_ok whose sum is the chain's length: the comparison with cp_opt is
   the only part of the certificate that can reject an honestly reported chain *)
Theorem chain_cells_pass_cert_ok g lat c e l :
  edges_functional g -> chain g c e -> lat (last_of c) = Some l ->
  exists cells, map fst cells = c /\ cert_ok QNum g lat true cells = true /\ cert_value QNum cells == clen g c e l.
Proof.
  intros Fun Hc L. destruct (chain_lchain _ _ _ Hc) as (e0 & Hl0 & Ee).
  destruct (cells_of_ok g lat l Fun c e0 Hl0 L true) as (Ok & _ & Sm).
  exists (cells_of g l true c). split; [apply cells_of_fst|]. split; [exact Ok|].
  rewrite cert_value_sum. pose proof (clen_proper g c e0 e l Ee). lra.
Qed.

(* the graphs the model builds (create_dg = last_wins o emit) carry one weight per (u, v) *)
Lemma create_dg_functional dep fwd pidx fd (k : list (line (T:=Q))) :
  edges_functional (create_dg QNum dep fwd pidx fd k).
Proof.
  intros u v w w' H1 H2. unfold has_edge in *.
  rewrite (create_dg_one_edge_per_pair QNum dep fwd pidx fd k (u, false) v w w' H1 H2). reflexivity.
Qed.

(* ---------------------------------------------------------------- the hypotheses as booleans *)
(* nonneg_edges and forward_ok are decidable; these checkers (generic in the number type, so a shard can evaluate them
   next to the certificate) reflect them over QNum *)
Section InputsOk.
  Context {T : Type} (N : NumOps T).
  Definition nonneg_edgesb (g : list (edge (T:=T))) : bool :=
    forallb (fun e : edge (T:=T) => let '((_, _), _, w) := e in nleb N (n0 N) w) g.
  Fixpoint forward_okb (g : list (edge (T:=T))) (done : list nat) (k : list (nat * T)) : bool :=
    match k with
    | [] => true
    | (n, _) :: r =>
      andb (negb (existsb (Nat.eqb n) done))
           (andb (forallb (fun e : edge (T:=T) => let '((s, isld), t, _) := e in
                                                  if andb (negb isld) (Nat.eqb t n) then existsb (Nat.eqb s) done else true) g)
                 (forward_okb g (n :: done) r))
    end.
  Definition cert_inputs_okb (g : list (edge (T:=T))) (k : list (nat * T)) : bool :=
    andb (nonneg_edgesb g) (forward_okb g [] k).
End InputsOk.

Lemma existsb_eqb_in n : forall l, existsb (Nat.eqb n) l = true <-> In n l.
Proof.
  intros l. rewrite existsb_exists. split.
  - intros (x & Hin & E). apply Nat.eqb_eq in E. subst. exact Hin.
  - intros H. exists n. split; [exact H|apply Nat.eqb_refl].
Qed.

Lemma nonneg_edgesb_sound (g : list qedge) : nonneg_edgesb QNum g = true -> nonneg_edges g.
Proof.
  intros H s isld t w Hin. unfold nonneg_edgesb in H. rewrite forallb_forall in H.
  specialize (H _ Hin). cbn in H. apply Qle_bool_iff in H. exact H.
Qed.

Lemma forward_okb_sound (g : list qedge) : forall k done, forward_okb g done k = true -> forward_ok g done k.
Proof.
  induction k as [|[n l] k IH]; intros done H; [exact I|].
  cbn [forward_okb] in H. apply andb_true_iff in H. destruct H as [H1 H]. apply andb_true_iff in H. destruct H as [H2 H3].
  cbn [forward_ok]. split; [|split].
  - intros Hin. apply existsb_eqb_in in Hin. rewrite Hin in H1. discriminate.
  - intros s w He. rewrite forallb_forall in H2. specialize (H2 _ He). cbn beta iota in H2.
    rewrite Nat.eqb_refl in H2. cbn [negb andb] in H2. apply existsb_eqb_in. exact H2.
  - apply IH. exact H3.
Qed.

Theorem cp_certificate_sound_checked g k cells :
  cert_inputs_okb QNum g k = true ->
  cp_certificate QNum g k (lookup k) cells = true ->
  cells_spec g (lookup k) true cells /\
  exists e l, chain g (map fst cells) e /\ In (last_of (map fst cells), l) k /\
    clen g (map fst cells) e l == cells_sum cells /\
    clen g (map fst cells) e l == cp_opt QNum g k /\
    longest_chain g k (map fst cells) e l.
Proof.
  intros H C. unfold cert_inputs_okb in H. apply andb_true_iff in H. destruct H as [H1 H2].
  apply cp_certificate_sound_lookup; [apply nonneg_edgesb_sound; exact H1 | apply forward_okb_sound; exact H2 | exact C].
Qed.
