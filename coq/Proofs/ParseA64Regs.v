(* C10 -- finite register universe: classification facts by exhaustive evaluation (registers 0-31). *)
From Coq Require Import String Ascii List Bool Arith NArith ZArith Lia.
From OV Require Import Model.LexA64 Model.ParseA64 Model.SyntaxA64 Proofs.ParseA64Round.
Import ListNotations.
Open Scope string_scope.

(* ---------------------------------------------------------------- decidable equality of classifications *)
Definition idx_dec : forall a b : idx, {a = b} + {a <> b}.
Proof. decide equality; [apply string_dec | apply Z.eq_dec]. Defined.
Definition ostr_dec : forall a b : option string, {a = b} + {a <> b}.
Proof. decide equality; apply string_dec. Defined.
Definition reg_dec : forall a b : reg, {a = b} + {a <> b}.
Proof.
  decide equality; try apply ostr_dec; try apply string_dec.
  decide equality. apply idx_dec.
Defined.
Definition rkind_dec : forall a b : rkind, {a = b} + {a <> b}.
Proof. decide equality. Defined.
Definition wcls_dec : forall a b : wcls, {a = b} + {a <> b}.
Proof.
  decide equality; try apply string_dec; try apply Z.eq_dec; try apply rkind_dec; try apply reg_dec; try apply bool_dec.
  decide equality. decide equality; apply string_dec.
Defined.
Definition wcls_eqb (a b : wcls) : bool := if wcls_dec a b then true else false.
Lemma wcls_eqb_eq : forall a b, wcls_eqb a b = true -> a = b.
Proof. intros a b. unfold wcls_eqb. destruct (wcls_dec a b); [auto|discriminate]. Qed.

(* ---------------------------------------------------------------- shift-operator spellings across configurations
   fx_pre is the widest reading (a word that merely starts with one of the eight operators): a word that is not
   shift-like under fx_pre is not shift-like under any configuration, so the finite sweeps below run once. *)
Definition fx_pre : fixes := mkfx false false true false.
Lemma shift_split_mono : forall fx w, shift_split fx_pre w = None -> shift_split fx w = None.
Proof.
  intros fx w H. unfold shift_split in *.
  set (P := fun op : string => prefix_of op (lower w)) in *.
  assert (E : filter P (shift_ops fx_pre) = []).
  { destruct (filter P (shift_ops fx_pre)); [reflexivity|]. simpl in H. discriminate. }
  unfold shift_ops in *. cbn [fx_sxtx fx_pre] in E. rewrite filter_app in E. apply app_eq_nil in E. destruct E as [E1 E2].
  rewrite filter_app, E1. simpl app.
  destruct (fx_sxtx fx); [rewrite E2|]; reflexivity.
Qed.
Lemma hsp_mono : forall fx w, has_shift_prefix fx_pre w = false -> has_shift_prefix fx w = false.
Proof.
  intros fx w H. unfold has_shift_prefix in *. apply orb_false_iff in H. destruct H as [H1 H2]. rewrite H2, orb_false_r.
  destruct (shift_split fx_pre w) eqn:E; [discriminate|]. rewrite (shift_split_mono fx w E). reflexivity.
Qed.

(* ---------------------------------------------------------------- the finite register universe *)
Definition all_pres : list ascii := (scalar_pres ++ vec_pres ++ pred_pres)%list.
Definition all_arrs : list (option (string * ascii)) :=
  None :: flat_map (fun l => map (fun s => Some (l, s)) shapes_all) lanes_all.
Definition all_wregs : list wreg :=
  flat_map (fun c => flat_map (fun n => map (mkwreg c n) all_arrs) (seq 0 32)) all_pres.
Definition kind_of (r : wreg) : rkind := if is_pred r then KPred else if is_vec r then KVec else KScalar.

Definition reg_fact (r : wreg) : bool :=
  andb (wcls_eqb (classify (reg_word r)) (CReg (den_wreg r) (kind_of r)))
  (andb (negb (has_shift_prefix fx_pre (reg_word r)))
  (andb (Z.eqb (dec_val (nat_str (w_num r))) (Z.of_nat (w_num r)))
  (andb (String.eqb (r_name (den_wreg r)) (nat_str (w_num r))) (word_ok (reg_word r))))).

Lemma all_reg_facts : forallb (fun r => implb (wreg_okb r) (reg_fact r)) all_wregs = true.
Proof. vm_compute. reflexivity. Qed.

Lemma memb_In : forall c l, memb c l = true -> In c l.
Proof.
  intros c l H. unfold memb in H. apply existsb_exists in H. destruct H as (x & Hx & E).
  apply Ascii.eqb_eq in E. subst. exact Hx.
Qed.
Lemma mem_str_In : forall s l, mem_str s l = true -> In s l.
Proof.
  intros s l H. unfold mem_str in H. apply existsb_exists in H. destruct H as (x & Hx & E).
  apply String.eqb_eq in E. subst. exact Hx.
Qed.

Lemma all_wregs_complete : forall r, wreg_okb r = true -> In r all_wregs.
Proof.
  intros [c n a] H. unfold wreg_okb in H. cbn [w_num w_pre w_arr] in H. apply andb_true_iff in H. destruct H as [Hn Ha].
  apply Nat.ltb_lt in Hn. unfold all_wregs.
  assert (Hc : In c all_pres).
  { destruct a as [[l s]|].
    - apply andb_true_iff in Ha. destruct Ha as [Ha _]. apply memb_In in Ha. unfold all_pres.
      apply in_or_app. right. exact Ha.
    - apply memb_In in Ha. exact Ha. }
  apply in_flat_map. exists c. split; [exact Hc|]. apply in_flat_map. exists n. split; [apply in_seq; lia|].
  apply in_map. unfold all_arrs. destruct a as [[l s]|]; [|left; reflexivity].
  right. apply andb_true_iff in Ha. destruct Ha as [_ Ha]. apply andb_true_iff in Ha. destruct Ha as [Hl Hs].
  apply in_flat_map. exists l. split; [apply mem_str_In; exact Hl|]. apply (in_map (fun s0 => Some (l, s0))). apply memb_In. exact Hs.
Qed.

Lemma reg_facts : forall r, wreg_okb r = true -> reg_fact r = true.
Proof.
  intros r H. pose proof all_reg_facts as F. rewrite forallb_forall in F.
  specialize (F r (all_wregs_complete r H)). rewrite H in F. exact F.
Qed.

Lemma classify_reg : forall r, wreg_okb r = true -> classify (reg_word r) = CReg (den_wreg r) (kind_of r).
Proof.
  intros r H. pose proof (reg_facts r H) as F. unfold reg_fact in F. apply andb_true_iff in F. destruct F as [F _].
  apply wcls_eqb_eq. exact F.
Qed.
Lemma reg_no_shift : forall fx r, wreg_okb r = true -> has_shift_prefix fx (reg_word r) = false.
Proof.
  intros fx r H. apply hsp_mono. pose proof (reg_facts r H) as F. unfold reg_fact in F. apply andb_true_iff in F. destruct F as [_ F].
  apply andb_true_iff in F. destruct F as [F _]. apply negb_true_iff in F. exact F.
Qed.
Lemma reg_num_val : forall r, wreg_okb r = true -> dec_val (r_name (den_wreg r)) = Z.of_nat (w_num r).
Proof.
  intros r H. pose proof (reg_facts r H) as F. unfold reg_fact in F. apply andb_true_iff in F. destruct F as [_ F].
  apply andb_true_iff in F. destruct F as [_ F]. apply andb_true_iff in F. destruct F as [F1 F2].
  apply andb_true_iff in F2. destruct F2 as [F2 _].
  apply String.eqb_eq in F2. rewrite F2. apply Z.eqb_eq. exact F1.
Qed.
Lemma reg_word_ok : forall r, wreg_okb r = true -> word_ok (reg_word r) = true.
Proof.
  intros r H. pose proof (reg_facts r H) as F. unfold reg_fact in F. apply andb_true_iff in F. destruct F as [_ F].
  apply andb_true_iff in F. destruct F as [_ F]. apply andb_true_iff in F. destruct F as [_ F].
  apply andb_true_iff in F. destruct F as [_ F]. exact F.
Qed.

(* ---------------------------------------------------------------- the finite alias / condition / extend spellings *)
Definition sp_fact (w : string) : bool :=
  andb (wcls_eqb (classify w) (CReg (plain "x" "sp") KSp))
  (andb (negb (has_shift_prefix fx_pre w))
        (String.eqb (mem_base_name (plain "x" "sp") KSp w) (den_base_name (BSp w)))).
Lemma sp_facts : forall w, mem_str w sp_words = true -> sp_fact w = true.
Proof.
  intros w H. apply mem_str_In in H. unfold sp_words in H. simpl in H.
  repeat (destruct H as [<-|H]; [vm_compute; reflexivity|]). destruct H.
Qed.
Definition zr_fact (w : string) : bool :=
  andb (wcls_eqb (classify w) (CReg (den_wregop (RZr w)) KZr)) (negb (has_shift_prefix fx_pre w)).
Lemma zr_facts : forall w, mem_str w zr_words = true -> zr_fact w = true.
Proof.
  intros w H. apply mem_str_In in H. unfold zr_words in H. simpl in H.
  repeat (destruct H as [<-|H]; [vm_compute; reflexivity|]). destruct H.
Qed.
Definition cond_fact (w : string) : bool :=
  andb (wcls_eqb (classify w) (CCond (upper w))) (negb (has_shift_prefix fx_pre w)).
Lemma cond_facts : forall w, mem_str w cond_words = true -> cond_fact w = true.
Proof.
  intros w H. apply mem_str_In in H.
  assert (F : forallb cond_fact cond_words = true) by (vm_compute; reflexivity).
  rewrite forallb_forall in F. exact (F w H).
Qed.
(* every spelling of an extend operator of configuration fx is read by that configuration as the whole-word
   operator, and it is one that scales the index *)
Definition ext_fact (fx : fixes) (op : string) : bool :=
  andb (match shift_split fx op with Some (o, EmptyString) => andb (String.eqb o (lower op)) (mem_str o (valid_shift_ops fx)) | _ => false end)
       (negb (String.eqb (lower op) "mul")).
Lemma ext_facts : forall fx op, mem_str op (ext_words fx) = true -> ext_fact fx op = true.
Proof.
  intros fx w H. apply mem_str_In in H.
  assert (F : forallb (ext_fact fx) (ext_words fx) = true).
  { destruct fx as [a b c d]. destruct a, c; vm_compute; reflexivity. }
  rewrite forallb_forall in F. exact (F w H).
Qed.

(* all the finite spellings are lexable words *)
Lemma sp_word_ok : forall w, mem_str w sp_words = true -> word_ok w = true.
Proof.
  intros w H. apply mem_str_In in H.
  assert (F : forallb word_ok sp_words = true) by (vm_compute; reflexivity).
  rewrite forallb_forall in F. exact (F w H).
Qed.
Lemma zr_word_ok : forall w, mem_str w zr_words = true -> word_ok w = true.
Proof.
  intros w H. apply mem_str_In in H.
  assert (F : forallb word_ok zr_words = true) by (vm_compute; reflexivity).
  rewrite forallb_forall in F. exact (F w H).
Qed.
Lemma cond_word_ok : forall w, mem_str w cond_words = true -> word_ok w = true.
Proof.
  intros w H. apply mem_str_In in H.
  assert (F : forallb word_ok cond_words = true) by (vm_compute; reflexivity).
  rewrite forallb_forall in F. exact (F w H).
Qed.
Lemma ext_word_ok : forall fx w, mem_str w (ext_words fx) = true -> word_ok w = true.
Proof.
  intros fx w H. apply mem_str_In in H.
  assert (F : forallb word_ok (ext_words fx) = true).
  { destruct fx as [a b c d]. destruct c; vm_compute; reflexivity. }
  rewrite forallb_forall in F. exact (F w H).
Qed.
