(* C09 -- proofs about the parse_file model: line numbers, verbatim text, count, split/join. *)
From Coq Require Import String Ascii List Bool NArith Arith Lia Sorted.
From OV Require Import Model.ParseX86 Model.ParseFileX86.
Import ListNotations.

Lemma L_S l : L (S_ l) = l.
Proof. apply list_ascii_of_string_of_list_ascii. Qed.
Lemma S_L s : S_ (L s) = s.
Proof. apply string_of_list_ascii_of_string. Qed.

(* ---------------------------------------------------------------- split / join *)
Lemma split_nl_nonempty l : split_nl l <> [].
Proof.
  induction l as [|c r IH]; simpl; [discriminate|].
  destruct (is_nl c); [discriminate|].
  destruct (split_nl r); [contradiction|discriminate].
Qed.

Lemma join_split l : join_nl (split_nl l) = l.
Proof.
  induction l as [|c r IH]; simpl; [reflexivity|].
  destruct (is_nl c) eqn:E.
  - unfold is_nl in E. apply Ascii.eqb_eq in E. subst c.
    destruct (split_nl r) as [|h t] eqn:S; [exfalso; eapply split_nl_nonempty; eauto|].
    simpl. simpl in IH. rewrite IH. reflexivity.
  - destruct (split_nl r) as [|h t] eqn:S; [exfalso; eapply split_nl_nonempty; eauto|].
    simpl in *. destruct t; simpl in *; rewrite <- IH; reflexivity.
Qed.

Lemma split_no_nl l : Forall (fun p => forallb (fun c => negb (is_nl c)) p = true) (split_nl l).
Proof.
  induction l as [|c r IH]; simpl; [repeat constructor|].
  destruct (is_nl c) eqn:E.
  - constructor; [reflexivity|assumption].
  - destruct (split_nl r) as [|h t]; [repeat constructor; simpl; rewrite E; reflexivity|].
    inversion IH; subst. constructor; [simpl; rewrite E; simpl; assumption|assumption].
Qed.

Lemma split_length l : length (split_nl l) = S (length (filter is_nl l)).
Proof.
  induction l as [|c r IH]; simpl; [reflexivity|].
  destruct (is_nl c); simpl; [rewrite IH; reflexivity|].
  destruct (split_nl r) as [|h t] eqn:S; [exfalso; eapply split_nl_nonempty; eauto|].
  simpl in *. assumption.
Qed.

(* ---------------------------------------------------------------- numbering *)
Definition nonblank (l : chars) : bool := negb (blank l).

Lemma numbers_positions ls : forall i, map fl_number (parse_lines i ls) = positions_from i ls.
Proof.
  induction ls as [|l r IH]; intro i; simpl; [reflexivity|].
  destruct (blank l); simpl; rewrite IH; reflexivity.
Qed.

Lemma positions_shift ls : forall i, positions_from i ls = map (fun p => p + i) (positions_from 0 ls).
Proof.
  induction ls as [|l r IH]; intro i; simpl; [reflexivity|].
  rewrite (IH (S i)), (IH 1).
  destruct (blank l); simpl; rewrite map_map; [|f_equal]; apply map_ext; intro; lia.
Qed.

(* positions_from agrees with the textbook definition: indices of the elements that are not blank *)
Lemma positions_spec ls : forall i,
  positions_from i ls = map fst (filter (fun p => nonblank (snd p)) (combine (seq i (length ls)) ls)).
Proof.
  induction ls as [|l r IH]; intro i; simpl; [reflexivity|].
  unfold nonblank at 1. simpl. destruct (blank l); simpl; rewrite IH; reflexivity.
Qed.

Lemma positions_in ls p :
  In p (positions_from 0 ls) <-> (p < length ls /\ blank (nth p ls []) = false).
Proof.
  assert (G : forall ls i p, In p (positions_from i ls) <-> (i <= p /\ p - i < length ls /\ blank (nth (p - i) ls []) = false)).
  { clear. induction ls as [|l r IH]; intros i p; simpl.
    - split; [contradiction|]. intros (_ & H & _). lia.
    - destruct (blank l) eqn:B; simpl; rewrite IH.
      + split.
        * intros (H1 & H2 & H3). replace (p - i) with (S (p - S i)) by lia. repeat split; try lia. assumption.
        * intros (H1 & H2 & H3). destruct (p - i) as [|k] eqn:K; [congruence|].
          replace (p - S i) with k by lia. repeat split; try lia. assumption.
      + split.
        * intros [H | (H1 & H2 & H3)].
          -- subst. rewrite Nat.sub_diag. repeat split; try lia. assumption.
          -- replace (p - i) with (S (p - S i)) by lia. repeat split; try lia. assumption.
        * intros (H1 & H2 & H3). destruct (p - i) as [|k] eqn:K.
          -- left. lia.
          -- right. replace (p - S i) with k by lia. repeat split; try lia. assumption. }
  rewrite G. rewrite Nat.sub_0_r. intuition lia.
Qed.

Lemma positions_increasing ls : forall i, StronglySorted lt (positions_from i ls) /\ Forall (fun p => i <= p) (positions_from i ls).
Proof.
  induction ls as [|l r IH]; intro i; simpl; [split; constructor|].
  destruct (IH (S i)) as [S1 F1].
  destruct (blank l).
  - split; [assumption|]. eapply Forall_impl; [|exact F1]. simpl; intros; lia.
  - split.
    + constructor; [assumption|]. eapply Forall_impl; [|exact F1]. simpl; intros; lia.
    + constructor; [lia|]. eapply Forall_impl; [|exact F1]. simpl; intros; lia.
Qed.

(* ---------------------------------------------------------------- text *)
Lemma texts ls : forall i, map fl_text (parse_lines i ls) = map S_ (filter nonblank ls).
Proof.
  induction ls as [|l r IH]; intro i; simpl; [reflexivity|].
  unfold nonblank at 1. destruct (blank l); simpl; rewrite IH; reflexivity.
Qed.

Lemma line_of_number ls : forall i f, In f (parse_lines i ls) ->
  i <= fl_number f /\ fl_number f - i < length ls /\ nth (fl_number f - i) ls [] = L (fl_text f)
  /\ blank (L (fl_text f)) = false /\ fl_parsed f = parse_line (fl_text f).
Proof.
  induction ls as [|l r IH]; intros i f; simpl; [contradiction|].
  assert (K : In f (parse_lines (S i) r) ->
              i <= fl_number f /\ fl_number f - i < S (length r) /\ nth (fl_number f - i) (l :: r) [] = L (fl_text f)
              /\ blank (L (fl_text f)) = false /\ fl_parsed f = parse_line (fl_text f)).
  { intro H. destruct (IH _ _ H) as (H1 & H2 & H3 & H4 & H5).
    replace (fl_number f - i) with (S (fl_number f - S i)) by lia. simpl. repeat split; try lia; assumption. }
  destruct (blank l) eqn:B; [exact K|].
  intros [H | H]; [|exact (K H)].
  subst f. simpl. rewrite Nat.sub_diag. unfold parse_line. rewrite L_S. repeat split; try lia; try assumption; reflexivity.
Qed.

Lemma count ls : forall i, length (parse_lines i ls) = length (filter nonblank ls).
Proof.
  induction ls as [|l r IH]; intro i; simpl; [reflexivity|].
  unfold nonblank at 1. destruct (blank l); simpl; rewrite IH; reflexivity.
Qed.

(* ---------------------------------------------------------------- the file-level statements *)
Lemma parse_file_lines_proof content start :
  map fl_number (parse_file content start) = map (fun p => p + 1 + start) (positions_from 0 (file_lines content)).
Proof.
  unfold parse_file, file_lines. rewrite numbers_positions, positions_shift.
  apply map_ext. intro; lia.
Qed.

Lemma parse_file_text_proof content start :
  map fl_text (parse_file content start) = map S_ (filter nonblank (file_lines content))
  /\ forall f, In f (parse_file content start) ->
       1 + start <= fl_number f
       /\ nth (fl_number f - 1 - start) (file_lines content) [] = L (fl_text f)
       /\ blank (L (fl_text f)) = false
       /\ fl_parsed f = parse_line (fl_text f).
Proof.
  split; [apply texts|].
  intros f H. destruct (line_of_number _ _ _ H) as (H1 & H2 & H3 & H4 & H5).
  replace (fl_number f - 1 - start) with (fl_number f - (1 + start)) by lia.
  repeat split; assumption.
Qed.

Lemma parse_file_count_proof content start :
  length (parse_file content start) = length (filter nonblank (file_lines content)).
Proof. apply count. Qed.

Lemma file_lines_join content : S_ (join_nl (file_lines content)) = content.
Proof. unfold file_lines. rewrite join_split. apply S_L. Qed.
