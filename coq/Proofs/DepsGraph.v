(* Kernel level (Model/Deps.create_dg): the edges of the graph are exactly the reports of the per-instruction scans,
   with networkx's add_edge semantics (a later report for the same (u, v) overwrites the weight). *)
From Coq Require Import ZArith List Bool String Lia Arith.
From OV Require Import Model.Num Model.Pressure Model.Deps Proofs.DepsScan.
Import ListNotations.

Section Graph.
  Context {T : Type} (N : NumOps T) (dep : regop -> regop -> bool) (fwd pidx : T).
  Notation line := (line (T:=T)).
  Notation edge := (edge (T:=T)).

  (* every edge emitted for the kernel comes from one instruction A = k[i]: its load stage, or a report of its scan *)
  Theorem emit_spec fd : forall (k : list line) (u : nat * bool) (t : nat) (w : T),
    In (u, t, w) (emit N dep fwd pidx fd k) <->
    exists pre A post, k = pre ++ A :: post /\
      ((u = (l_no A, true) /\ t = l_no A /\ l_loadnode A = true /\ w = nsub N (l_lat A) (l_lat_wo A)) \/
       (u = (l_no A, false) /\ exists f, In (t, f) (find_depending dep fd A post) /\ w = edge_weight N fwd pidx A f)).
  Proof.
    induction k as [|A k IH]; intros u t w.
    - simpl. split; [tauto|]. intros (pre & A & post & E & _). destruct pre; discriminate.
    - cbn [emit]. rewrite !in_app_iff, IH. split.
      + intros [H|[H|H]].
        * destruct (l_loadnode A) eqn:L; [|contradiction]. destruct H as [H|[]]. inversion H; subst.
          exists [], A, k. split; [reflexivity|]. left. auto.
        * apply in_map_iff in H. destruct H as ([t' f] & E & Hin). inversion E; subst.
          exists [], A, k. split; [reflexivity|]. right. split; [reflexivity|]. exists f. auto.
        * destruct H as (pre & B & post & E & HB). exists (A :: pre), B, post. split; [rewrite E; reflexivity | exact HB].
      + intros (pre & B & post & E & HB). destruct pre as [|p pre].
        * cbn [app] in E. inversion E; subst B post. destruct HB as [(Hu & Ht & HL & Hw)|(Hu & f & Hin & Hw)]; subst.
          -- left. rewrite HL. left. reflexivity.
          -- right. left. apply in_map_iff. exists (t, f). split; [reflexivity | exact Hin].
        * cbn [app] in E. inversion E; subst. right. right. exists pre, B, post. split; [reflexivity | exact HB].
  Qed.

  (* add_edge semantics *)
  Lemma last_wins_subset : forall (es : list edge) e, In e (last_wins es) -> In e es.
  Proof.
    induction es as [|x es IH]; intros e H; [contradiction|]. cbn [last_wins] in H.
    destruct (existsb (same_uv x) es); [right; apply IH; exact H|].
    destruct H as [H|H]; [left; exact H | right; apply IH; exact H].
  Qed.

  Lemma same_uv_refl (e : edge) : same_uv e e = true.
  Proof. unfold same_uv. rewrite !Nat.eqb_refl. destruct (snd (fst (fst e))); reflexivity. Qed.
  Lemma same_uv_sym (a b : edge) : same_uv a b = same_uv b a.
  Proof. unfold same_uv. rewrite (Nat.eqb_sym (fst (fst (fst a)))), (Nat.eqb_sym (snd (fst a))).
         destruct (snd (fst (fst a))), (snd (fst (fst b))); reflexivity. Qed.
  Lemma same_uv_trans (a b c : edge) : same_uv a b = true -> same_uv b c = true -> same_uv a c = true.
  Proof.
    unfold same_uv. intros H1 H2. repeat rewrite andb_true_iff in *.
    destruct H1 as ((A1 & B1) & C1), H2 as ((A2 & B2) & C2).
    apply Nat.eqb_eq in A1, A2, C1, C2. apply eqb_prop in B1, B2.
    repeat split; [apply Nat.eqb_eq | apply eqb_true_iff | apply Nat.eqb_eq]; congruence.
  Qed.

  (* every emitted pair (u, v) survives with the weight of its LAST emission *)
  Lemma last_wins_covers : forall (es : list edge) e, In e es -> exists e', In e' (last_wins es) /\ same_uv e e' = true.
  Proof.
    induction es as [|x es IH]; intros e H; [contradiction|]. cbn [last_wins].
    destruct (existsb (same_uv x) es) eqn:Ex.
    - destruct H as [H|H].
      + subst. apply existsb_exists in Ex. destruct Ex as (y & Hy & Sy).
        destruct (IH y Hy) as (e' & He' & Se'). exists e'. split; [exact He' | eapply same_uv_trans; eassumption].
      + apply IH. exact H.
    - destruct H as [H|H].
      + subst. exists e. split; [left; reflexivity | apply same_uv_refl].
      + destruct (IH e H) as (e' & He' & Se'). exists e'. split; [right; exact He' | exact Se'].
  Qed.

  Lemma last_wins_unique : forall (es : list edge) a b, In a (last_wins es) -> In b (last_wins es) -> same_uv a b = true -> a = b.
  Proof.
    induction es as [|x es IH]; intros a b Ha Hb S; [contradiction|]. cbn [last_wins] in Ha, Hb.
    destruct (existsb (same_uv x) es) eqn:Ex; [apply IH; assumption|].
    assert (Fresh : forall y, In y (last_wins es) -> same_uv x y = false).
    { intros y Hy. destruct (same_uv x y) eqn:Sy; [|reflexivity].
      assert (existsb (same_uv x) es = true) by (apply existsb_exists; exists y; split; [apply last_wins_subset; exact Hy | exact Sy]).
      congruence. }
    destruct Ha as [Ha|Ha], Hb as [Hb|Hb].
    - congruence.
    - subst a. rewrite (Fresh b Hb) in S. discriminate.
    - subst b. rewrite same_uv_sym, (Fresh a Ha) in S. discriminate.
    - apply IH; assumption.
  Qed.

  (* KERNEL-LEVEL statement: (u -> t) is an edge of the dependency graph iff some scan reported it; the graph holds one edge
     per pair; non-store-to-load edges are read-after-write dependencies (via raw_iff_edge) *)
  Theorem create_dg_edges fd (k : list line) u t :
    (exists w, In (u, t, w) (create_dg N dep fwd pidx fd k)) <-> (exists w, In (u, t, w) (emit N dep fwd pidx fd k)).
  Proof.
    unfold create_dg. split.
    - intros (w & H). exists w. apply last_wins_subset. exact H.
    - intros (w & H). destruct (last_wins_covers _ _ H) as ([[u' t'] w'] & Hin & S).
      unfold same_uv in S. cbn [fst snd] in S. repeat rewrite andb_true_iff in S. destruct S as ((A & B) & C).
      apply Nat.eqb_eq in A, C. apply eqb_prop in B.
      assert (u = u') by (destruct u, u'; cbn in *; congruence). subst. exists w'. exact Hin.
  Qed.

  Theorem create_dg_one_edge_per_pair fd (k : list line) u t w1 w2 :
    In (u, t, w1) (create_dg N dep fwd pidx fd k) -> In (u, t, w2) (create_dg N dep fwd pidx fd k) -> w1 = w2.
  Proof.
    intros H1 H2. assert (E : (u, t, w1) = (u, t, w2)).
    { unfold create_dg in H1, H2. apply (last_wins_unique _ _ _ H1 H2).
      unfold same_uv. cbn [fst snd]. rewrite !Nat.eqb_refl. destruct (snd u); reflexivity. }
    congruence.
  Qed.
End Graph.
