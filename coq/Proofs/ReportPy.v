(* C13, translation tie: lemmas about the prelude of Model/ReportPy.v -- independent of the text that tools/gen_c13.py
   generates.  They relate the Python-level helpers (loops over index ranges, dict look-ups, max with a key, the
   str.format specs) to the functions of Model/Report.v and Model/Fmt.v. *)
From Coq Require Import ZArith List Bool String Ascii Arith Lia.
From Coq Require Import PrimFloat SpecFloat FloatOps.
From OV Require Import Model.Num Model.Fmt Model.PyString Model.Pressure Model.Report Model.ReportPy Proofs.Fmt Proofs.Report Proofs.FmtLen.
Import ListNotations.
Open Scope string_scope.

(* ------------------------------------------------------------------ strings *)
Lemma sapp_assoc : forall a b c : string, (a ++ b) ++ c = a ++ (b ++ c).
Proof. induction a as [|x a IH]; intros; cbn; [reflexivity|]. f_equal. apply IH. Qed.
Lemma sapp_nil_r : forall a : string, a ++ "" = a.
Proof. induction a as [|x a IH]; cbn; [reflexivity|]. f_equal. exact IH. Qed.
Lemma slen_app : forall a b : string, String.length (a ++ b) = (String.length a + String.length b)%nat.
Proof. induction a as [|x a IH]; intros; cbn; [reflexivity|]. f_equal. apply IH. Qed.


Lemma py_rjust_0 : forall s, py_rjust 0 s = s.
Proof. intros. unfold py_rjust. cbn. reflexivity. Qed.
Lemma py_rjust_short : forall w s, (Z.to_nat w <= String.length s)%nat -> py_rjust w s = s.
Proof. intros w s H. unfold py_rjust. replace (Z.to_nat w - String.length s)%nat with 0%nat by lia. reflexivity. Qed.
Lemma py_fmt_d_0 : forall n, py_fmt_d 0 n = py_str_Z n.
Proof. intros. unfold py_fmt_d. apply py_rjust_0. Qed.
Lemma py_str_Z_nat : forall n, py_str_Z (Z.of_nat n) = nat_string n.
Proof. intros. unfold py_str_Z, nat_string. destruct (Z.of_nat n <? 0)%Z eqn:E; [apply Z.ltb_lt in E; lia|reflexivity]. Qed.
Lemma py_str_mul_len : forall s t, py_str_mul s (py_len_str t) = str_repeat s (String.length t).
Proof. intros. unfold py_str_mul, py_len_str. rewrite Nat2Z.id. reflexivity. Qed.
Lemma py_str_mul_nat : forall s n, py_str_mul s (Z.of_nat n) = str_repeat s n.
Proof. intros. unfold py_str_mul. rewrite Nat2Z.id. reflexivity. Qed.

(* ------------------------------------------------------------------ loops *)
Lemma py_for_sconcat {A} (f : A -> string) (F : A -> string -> res string) : forall (l : list A),
  (forall x s, In x l -> F x s = Ok (s ++ f x)) -> forall s, py_for l s F = Ok (s ++ sconcat (map f l)).
Proof.
  induction l as [|x l IH]; intros H s; cbn [py_for map sconcat fold_right].
  - rewrite sapp_nil_r. reflexivity.
  - rewrite (H x s (or_introl eq_refl)). cbn [bind]. rewrite IH by (intros; apply H; right; assumption).
    fold (sconcat (map f l)). rewrite sapp_assoc. reflexivity.
Qed.

Lemma py_for_ext {A S} (F G : A -> S -> res S) : forall (l : list A) s,
  (forall x s, In x l -> F x s = G x s) -> py_for l s F = py_for l s G.
Proof.
  induction l as [|x l IH]; intros s H; [reflexivity|]. cbn [py_for]. rewrite (H x s (or_introl eq_refl)).
  destruct (G x s); [|reflexivity]. cbn [bind]. apply IH. intros; apply H; right; assumption.
Qed.

Lemma nth_res_ok {A} (l : list A) i d : (i < List.length l)%nat -> nth_res l i = Ok (nth i l d).
Proof.
  intros H. unfold nth_res. destruct (nth_error l i) eqn:E.
  - f_equal. symmetry. apply nth_error_nth. exact E.
  - apply nth_error_None in E. lia.
Qed.

Lemma py_last_res_last {A} (l : list A) d : l <> [] -> py_last_res l = Ok (last l d).
Proof.
  intros H. unfold py_last_res. destruct (exists_last H) as (l' & x & ->).
  rewrite rev_unit, last_last. reflexivity.
Qed.

(* ------------------------------------------------------------------ flags *)
Lemma flag_symbols_of : forall l,
  flag_symbols (flagset_of l) =
  let s := (if py_in_list "not_bound" l then "*" else "") ++ (if py_in_list "tp_unknown" l then "X" else "")
           ++ (if py_in_list "hidden_load" l then "P" else "") in
  if (py_len_str s =? 0)%Z then s ++ " " else s ++ "".
Proof.
  intros l. unfold flag_symbols, flagset_of. cbn [fl_not_bound fl_tp_unkwn fl_hidden_ld].
  destruct (py_in_list "not_bound" l), (py_in_list "tp_unknown" l), (py_in_list "hidden_load" l); reflexivity.
Qed.

(* ------------------------------------------------------------------ _get_node_by_lineno / CP cell *)
Lemma find_filter_hd {A} (f : A -> bool) : forall l, find f l = hd_error (filter f l).
Proof. induction l as [|x l IH]; [reflexivity|]. cbn. destruct (f x); [reflexivity|exact IH]. Qed.

Lemma cp_cell_of : forall cp n,
  cp_cell (map cp_entry_of cp) n = match find (fun x => Z.eqb (p_num x) n) cp with Some x => Some (p_lat_cp x) | None => None end.
Proof.
  intros cp n. unfold cp_cell. induction cp as [|x cp IH]; [reflexivity|]. cbn [map find cp_entry_of cp_num].
  destruct (Z.eqb (p_num x) n); [reflexivity|exact IH].
Qed.

Lemma in_Z_find : forall cp n, py_in_Z n (map p_num cp) = match find (fun x => Z.eqb (p_num x) n) cp with Some _ => true | None => false end.
Proof.
  intros cp n. unfold py_in_Z. induction cp as [|x cp IH]; [reflexivity|]. cbn [map existsb find].
  rewrite (Z.eqb_sym n (p_num x)). destruct (Z.eqb (p_num x) n); [reflexivity|exact IH].
Qed.

(* ------------------------------------------------------------------ the dict comprehension's .get *)
Lemma py_dictZ_get_model : forall (d : list (Z * float)) n, py_dictZ_get d n = dict_get n d.
Proof. induction d as [|[k v] d IH]; intros n; [reflexivity|]. cbn. rewrite IH. reflexivity. Qed.

(* ------------------------------------------------------------------ max(dict, key=latency) and the look-ups that follow *)
Section MaxBy.
  Context {V : Type} (lat : V -> float).
  Definition keyf (d : list (string * V)) (k : string) : res float := e <- py_dict_get_str d k ;; Ok (lat e).

  Lemma get_str_in : forall (d : list (string * V)) k v, NoDup (map fst d) -> In (k, v) d -> py_dict_get_str d k = Ok v.
  Proof.
    induction d as [|[k' v'] d IH]; intros k v ND H; [destruct H|]. cbn [py_dict_get_str].
    inversion ND as [|? ? Hn ND']; subst. destruct H as [H|H].
    - inversion H; subst. rewrite String.eqb_refl. reflexivity.
    - destruct (String.eqb k' k) eqn:E.
      + apply String.eqb_eq in E. subst. exfalso. apply Hn. change k with (fst (k, v)). apply in_map. exact H.
      + apply IH; assumption.
  Qed.

  (* first maximum of a list of (key, value) pairs by the exact order on lat *)
  Fixpoint pmax_from (best : string * V) (l : list (string * V)) : string * V :=
    match l with
    | [] => best
    | e :: r => pmax_from (if py_float_lt (lat (snd best)) (lat (snd e)) then e else best) r
    end.

  Lemma py_max_go_spec : forall (d : list (string * V)), NoDup (map fst d) ->
    forall l best, incl l d -> In best d ->
    py_max_go (keyf d) (map fst l) (fst best) (lat (snd best)) = Ok (fst (pmax_from best l)).
  Proof.
    intros d ND. induction l as [|[k v] l IH]; intros best Hl Hb; [reflexivity|].
    cbn [map py_max_go fst pmax_from snd]. unfold keyf at 1.
    rewrite (get_str_in d k v ND (Hl _ (or_introl eq_refl))). cbn [bind].
    assert (Hl' : incl l d) by (intros x Hx; apply Hl; right; exact Hx).
    destruct (py_float_lt (lat (snd best)) (lat v)).
    - apply (IH (k, v) Hl'). apply Hl. left. reflexivity.
    - apply (IH best Hl' Hb).
  Qed.

  Lemma pmax_from_in : forall l best, In (pmax_from best l) (best :: l).
  Proof.
    induction l as [|e l IH]; intros best; [left; reflexivity|]. cbn [pmax_from].
    destruct (IH (if py_float_lt (lat (snd best)) (lat (snd e)) then e else best)) as [H|H].
    - rewrite <- H. destruct (py_float_lt _ _); [right; left; reflexivity|left; reflexivity].
    - right. right. exact H.
  Qed.

  Lemma py_max_by_spec : forall (d : list (string * V)) e r, NoDup (map fst d) -> d = e :: r ->
    py_max_by (map fst d) (keyf d) = Ok (fst (pmax_from e r))
    /\ py_dict_get_str d (fst (pmax_from e r)) = Ok (snd (pmax_from e r)).
  Proof.
    intros d e r ND E. assert (He : In e d) by (rewrite E; left; reflexivity).
    assert (Hr : incl r d) by (rewrite E; intros x Hx; right; exact Hx). split.
    - rewrite E at 1. cbn [map py_max_by]. unfold keyf at 1. destruct e as [k v]. cbn [fst].
      rewrite (get_str_in d k v ND He). cbn [bind]. exact (py_max_go_spec d ND r (k, v) Hr He).
    - apply get_str_in; [exact ND|]. destruct (pmax_from e r) as [k v] eqn:P. cbn [fst snd].
      pose proof (pmax_from_in r e) as H. rewrite P in H. rewrite E. exact H.
  Qed.
End MaxBy.

Lemma pmax_from_model : forall r e,
  lcd_entry_of (snd (pmax_from pl_latency e r)) = first_max_from (lcd_entry_of (snd e)) (map (fun p => lcd_entry_of (snd p)) r).
Proof.
  induction r as [|x r IH]; intros e; [reflexivity|]. cbn [pmax_from map first_max_from]. rewrite IH.
  unfold py_float_lt. cbn [lcd_entry_of lcd_lat]. destruct (f_ltb_exact (pl_latency (snd e)) (pl_latency (snd x))); reflexivity.
Qed.

(* ------------------------------------------------------------------ lists by index *)
Open Scope list_scope.
Lemma nth_res_mid {A} (pre : list A) x suf : nth_res (pre ++ x :: suf) (List.length pre) = Ok x.
Proof. unfold nth_res. rewrite nth_error_app2 by lia. rewrite Nat.sub_diag. reflexivity. Qed.
Lemma set_nth_mid {A} : forall (pre : list A) x y suf, set_nth (pre ++ x :: suf) (List.length pre) y = Ok (pre ++ y :: suf).
Proof. induction pre as [|p pre IH]; intros; cbn; [reflexivity|]. rewrite IH. reflexivity. Qed.

Lemma map_nth_seq {A} (d : A) : forall l, map (fun i => nth i l d) (seq 0 (List.length l)) = l.
Proof.
  induction l as [|x l IH]; [reflexivity|]. cbn [List.length seq map nth]. f_equal.
  rewrite <- seq_shift, map_map. exact IH.
Qed.

(* ------------------------------------------------------------------ _get_max_port_len *)
Definition flen (v : float) : Z := py_len_str (py_fmt_f 0 2 v).
Lemma flen_nat : forall v, flen v = Z.of_nat (String.length (fmt_fixed 2 v)).
Proof. intros. unfold flen, py_fmt_f. rewrite py_rjust_0. reflexivity. Qed.

Fixpoint upd (pl : list Z) (vs : list float) : list Z :=
  match pl, vs with p :: pr, v :: vr => Z.max p (flen v) :: upd pr vr | _, _ => pl end.

Section MaxLen.
  Context (F : nat * float -> list Z -> res (list Z)).
  Hypothesis HF : forall i v pl, F (i, v) pl = (t <- nth_res pl i ;; if (t <? flen v)%Z then set_nth pl i (flen v) else Ok pl).

  Lemma maxlen_inner : forall vs pre suf, (List.length vs <= List.length suf)%nat ->
    py_for (combine (seq (List.length pre) (List.length vs)) vs) (pre ++ suf) F = Ok (pre ++ upd suf vs).
  Proof.
    induction vs as [|v vs IH]; intros pre suf H.
    - cbn. destruct suf; reflexivity.
    - destruct suf as [|p suf]; [cbn in H; lia|]. cbn [List.length seq combine py_for]. rewrite HF, nth_res_mid. cbn [bind].
      assert (E : (if (p <? flen v)%Z then set_nth (pre ++ p :: suf) (List.length pre) (flen v) else Ok (pre ++ p :: suf))
                  = Ok (pre ++ Z.max p (flen v) :: suf)).
      { destruct (p <? flen v)%Z eqn:C.
        - rewrite set_nth_mid. apply Z.ltb_lt in C. rewrite Z.max_r by lia. reflexivity.
        - apply Z.ltb_ge in C. rewrite Z.max_l by lia. reflexivity. }
      rewrite E. cbn [bind].
      replace (pre ++ Z.max p (flen v) :: suf) with ((pre ++ [Z.max p (flen v)]) ++ suf) by (rewrite <- app_assoc; reflexivity).
      replace (S (List.length pre)) with (List.length (pre ++ [Z.max p (flen v)])) by (rewrite app_length; cbn; lia).
      rewrite IH by (cbn in H; lia). cbn [upd]. rewrite <- app_assoc. reflexivity.
  Qed.

  Lemma maxlen_line : forall vs pl, (List.length vs <= List.length pl)%nat -> py_for (py_enumerate vs) pl F = Ok (upd pl vs).
  Proof. intros vs pl H. unfold py_enumerate. exact (maxlen_inner vs [] pl H). Qed.
End MaxLen.

Lemma upd_length : forall vs pl, List.length (upd pl vs) = List.length pl.
Proof. induction vs as [|v vs IH]; intros [|p pl]; cbn; try reflexivity. rewrite IH. reflexivity. Qed.

Lemma maxlen_outer (G : pyline -> list Z -> res (list Z)) : forall k pl,
  (forall x pl, In x k -> List.length (p_press x) <= List.length pl -> G x pl = Ok (upd pl (p_press x)))%nat ->
  (forall x, In x k -> List.length (p_press x) <= List.length pl)%nat ->
  py_for k pl G = Ok (fold_left upd (map p_press k) pl).
Proof.
  induction k as [|x k IH]; intros pl HG HL; [reflexivity|]. cbn [py_for map fold_left].
  rewrite HG by (try (left; reflexivity); apply HL; left; reflexivity). cbn [bind]. apply IH.
  - intros y pl' Hy. apply HG. right. exact Hy.
  - intros y Hy. rewrite upd_length. apply HL. right. exact Hy.
Qed.

(* the column maxima of Model/Report.v *)
Fixpoint upd_nat (acc : list nat) (vs : list float) : list nat :=
  match acc, vs with a :: ar, v :: vr => Nat.max a (String.length (fmt_fixed 2 v)) :: upd_nat ar vr | _, _ => acc end.
Lemma upd_nat_Z : forall acc vs, upd (map Z.of_nat acc) vs = map Z.of_nat (upd_nat acc vs).
Proof.
  induction acc as [|a acc IH]; intros [|v vs]; cbn [map upd upd_nat]; try reflexivity.
  rewrite IH, flen_nat, <- Nat2Z.inj_max. reflexivity.
Qed.
Lemma upd_nat_length : forall acc vs, List.length (upd_nat acc vs) = List.length acc.
Proof. induction acc as [|a acc IH]; intros [|v vs]; cbn; try reflexivity. rewrite IH. reflexivity. Qed.
Lemma upd_nat_nth : forall acc vs i, List.length vs = List.length acc -> (i < List.length acc)%nat ->
  nth i (upd_nat acc vs) 0%nat = Nat.max (nth i acc 0%nat) (String.length (fmt_fixed 2 (nth i vs 0%float))).
Proof.
  induction acc as [|a acc IH]; intros [|v vs] i HL Hi; cbn in *; try lia.
  destruct i as [|i]; [reflexivity|]. apply IH; lia.
Qed.

Lemma port_len_cols : forall k (acc : list nat),
  (forall x, In x k -> List.length (p_press x) = List.length acc) ->
  fold_left upd_nat (map p_press k) acc
  = map (fun i => port_len_col i (map aline_of k) (nth i acc 0%nat)) (seq 0 (List.length acc)).
Proof.
  induction k as [|x k IH]; intros acc H.
  - cbn [map fold_left port_len_col]. symmetry. apply map_nth_seq.
  - cbn [map fold_left]. rewrite IH by (intros y Hy; rewrite upd_nat_length; apply H; right; exact Hy).
    rewrite upd_nat_length. apply map_ext_in. intros i Hi. apply in_seq in Hi. cbn [port_len_col aline_of l_press].
    rewrite upd_nat_nth by (try apply H; try (left; reflexivity); lia). reflexivity.
Qed.

Lemma fold_upd_nat_Z : forall ps acc, fold_left upd ps (map Z.of_nat acc) = map Z.of_nat (fold_left upd_nat ps acc).
Proof. induction ps as [|p ps IH]; intros acc; [reflexivity|]. cbn [fold_left]. rewrite upd_nat_Z. apply IH. Qed.

Lemma max_port_len_model : forall ports k, (forall x, In x k -> List.length (p_press x) = List.length ports) ->
  fold_left upd (map p_press k) (map (fun _ => 4%Z) ports)
  = map Z.of_nat (port_lens (analysis_of ports k [] [] false)).
Proof.
  intros ports k H. replace (map (fun _ : string => 4%Z) ports) with (map Z.of_nat (map (fun _ : string => 4%nat) ports))
    by (rewrite map_map; reflexivity).
  rewrite fold_upd_nat_Z. f_equal. rewrite port_len_cols by (intros; rewrite map_length; apply H; assumption).
  unfold port_lens. cbn [analysis_of a_ports a_kernel]. rewrite map_length. apply map_ext_in. intros i Hi. apply in_seq in Hi.
  f_equal. clear - Hi. revert i Hi. induction ports as [|p ps IH]; intros i Hi; cbn in *; [lia|].
  destruct i as [|i]; [reflexivity|]. apply IH. lia.
Qed.

(* ------------------------------------------------------------------ "." in a formatted number *)
Open Scope string_scope.
Definition has_dot (s : string) : bool := py_substr "." s.
Lemma has_dot_nil : has_dot "" = false.
Proof. reflexivity. Qed.
Lemma has_dot_cons : forall c r, has_dot (String c r) = orb (Ascii.eqb c "."%char) (has_dot r).
Proof.
  intros c r. unfold has_dot. cbn [py_substr py_startswith]. destruct (Ascii.eqb c "."%char); cbn; [destruct r; reflexivity|reflexivity].
Qed.
Lemma has_dot_app : forall a b, has_dot (a ++ b) = orb (has_dot a) (has_dot b).
Proof.
  induction a as [|c a IH]; intros b; [reflexivity|]. cbn [append]. rewrite !has_dot_cons, IH. apply orb_assoc.
Qed.
Lemma has_dot_spaces : forall k, has_dot (spaces k) = false.
Proof. induction k as [|k IH]; [reflexivity|]. unfold spaces in *. cbn [str_repeat append]. rewrite has_dot_cons, IH. reflexivity. Qed.
Lemma has_dot_rjust : forall w s, has_dot (py_rjust w s) = has_dot s.
Proof. intros. unfold py_rjust. rewrite has_dot_app, has_dot_spaces. reflexivity. Qed.
Lemma has_dot_digits : forall s, all_digits s = true -> has_dot s = false.
Proof.
  induction s as [|c s IH]; intros H; [reflexivity|]. cbn [all_digits] in H. rewrite has_dot_cons.
  destruct (digit_val c) as [d|] eqn:E; [|discriminate]. rewrite (IH H), orb_false_r.
  unfold digit_val in E. destruct (Ascii.eqb c "."%char) eqn:C; [|reflexivity].
  apply Ascii.eqb_eq in C. subst c. cbn in E. discriminate.
Qed.

Lemma int_digits_all_digits : forall v, (0 <= v)%Z -> all_digits (int_digits v) = true.
Proof. intros v H. unfold int_digits, digits_fix. apply strip0_all_digits. apply all_digits_acc; [exact H|reflexivity]. Qed.

Lemma f_decode_finite : forall x, f_is_finite x = true -> exists s num den, f_decode x = FD_fin s num den.
Proof.
  intros x H. unfold f_is_finite in H. unfold f_decode. destruct (Prim2SF x) as [s|s| |s m e]; try discriminate.
  - eauto.
  - destruct e; eauto.
Qed.

Lemma fmt_fixed_0_no_dot : forall x, has_dot (fmt_fixed 0 x) = false.
Proof.
  intros x. unfold fmt_fixed. destruct (f_decode x) as [s num den|s|] eqn:E.
  - rewrite !has_dot_app. rewrite (has_dot_digits (int_digits _)).
    + destruct s; reflexivity.
    + apply int_digits_all_digits. apply Z.div_pos; [|apply pow10_pos].
      apply fmt_units_nonneg. eapply f_decode_nonneg. exact E.
  - destruct s; reflexivity.
  - reflexivity.
Qed.

Lemma fmt_fixed_S_dot : forall d x, f_is_finite x = true -> has_dot (fmt_fixed (S d) x) = true.
Proof.
  intros d x H. destruct (f_decode_finite x H) as (s & num & den & E). unfold fmt_fixed. rewrite E.
  rewrite !has_dot_app, has_dot_cons. cbn [Ascii.eqb]. rewrite !orb_true_r. reflexivity.
Qed.

Lemma fmt_fixed_nonfinite : forall d x, f_is_finite x = false -> fmt_fixed d x = fmt_fixed 1 x /\ has_dot (fmt_fixed d x) = false.
Proof.
  intros d x H. unfold f_is_finite in H. unfold fmt_fixed, f_decode.
  destruct (Prim2SF x) as [s|s| |s m e]; try discriminate.
  - split; [reflexivity|destruct s; reflexivity].
  - split; reflexivity.
Qed.

(* ------------------------------------------------------------------ one cell of _get_port_pressure *)
Definition repr_ok (repr : float -> string) (v : float) : Prop :=
  py_len_str (py_split_first "."%char (repr v)) = Z.of_nat (left_len v).

Definition shown_cell (n : nat) (v : float) : cell :=
  let d := (n - left_len v - 1)%nat in Shown (match d with O => 1%nat | _ => d end) v.
Lemma press_cell_shown : forall n u v, andb (f_is_zero v) (negb u) = false -> press_cell n u v = shown_cell n v.
Proof. intros n u v H. unfold press_cell. rewrite H. reflexivity. Qed.
Lemma press_cell_blank : forall n u v, andb (f_is_zero v) (negb u) = true -> press_cell n u v = Blank.
Proof. intros n u v H. unfold press_cell. rewrite H. reflexivity. Qed.

Lemma shown_text : forall repr v n s, repr_ok repr v ->
  let ll := py_len_str (py_split_first "."%char (repr v)) in
  let sub := py_fmt_f ll (Z.max ((Z.of_nat n - ll)%Z - 1)%Z 0%Z) v in
  (if py_substr "." sub then sub ++ (" " ++ s ++ " ") else py_fmt_f 0 1 v ++ s ++ " ")
  = cell_text (shown_cell n v) (tight n v) n s.
Proof.
  intros repr v n s Hr ll sub. unfold ll in sub. unfold repr_ok in Hr. subst sub ll. rewrite Hr.
  replace (Z.max (Z.of_nat n - Z.of_nat (left_len v) - 1) 0)%Z with (Z.of_nat (n - left_len v - 1)) by lia.
  unfold py_fmt_f. rewrite !Nat2Z.id, py_rjust_0. change (py_substr "." ?x) with (has_dot x). rewrite has_dot_rjust.
  unfold shown_cell, cell_text, tight, render_cell. cbv zeta.
  destruct (n - left_len v - 1)%nat as [|d] eqn:D.
  - rewrite fmt_fixed_0_no_dot. cbn [Nat.eqb orb]. reflexivity.
  - cbn [Nat.eqb orb]. destruct (f_is_finite v) eqn:Fi; cbn [negb].
    + rewrite fmt_fixed_S_dot by exact Fi.
      rewrite py_rjust_short by (rewrite Nat2Z.id; apply left_len_le_fmt_fixed). reflexivity.
    + destruct (fmt_fixed_nonfinite (S d) v Fi) as (E1 & E2). rewrite E2, E1. reflexivity.
Qed.

Section PortPressure.
  Context (repr : float -> string) (mports used : list string) (vs : list float) (pn : list nat) (seps : list string).
  Let plens := map Z.of_nat pn.

  (* the body of `for i in range(len(ports))`, as tools/gen_c13.py renders it *)
  Definition pp_step (i : nat) (sr : string) : res string :=
    t2_ <- nth_res vs i ;;
    t4_ <- (if (py_float_eq0 t2_) then (
      t3_ <- nth_res mports i ;;
      Ok (negb (py_in_list t3_ used))) else Ok false) ;;
    if t4_ then
      t5_ <- nth_res plens i ;;
      t6_ <- nth_res seps i ;;
      let sr := (sr ++ ((py_str_mul " " t5_) ++ (" " ++ t6_ ++ " "))) in
      Ok sr
    else
      t7_ <- nth_res vs i ;;
      let v_left_len := (py_len_str (py_split_first "."%char (repr t7_))) in
      t8_ <- nth_res plens i ;;
      let f1_ := v_left_len in
      let f2_ := (Z.max ((t8_ - v_left_len)%Z - (1)%Z)%Z (0)%Z) in
      t9_ <- nth_res vs i ;;
      let v_substr := (py_fmt_f f1_ f2_ t9_) in
      t13_ <- (if (py_substr "." v_substr) then (
        t10_ <- nth_res seps i ;;
        Ok (v_substr ++ (" " ++ t10_ ++ " "))) else (
        t11_ <- nth_res vs i ;;
        t12_ <- nth_res seps i ;;
        Ok ((py_fmt_f (0)%Z (1)%Z t11_) ++ t12_ ++ " "))) ;;
      let sr := (sr ++ t13_) in
      Ok sr.

  Definition pp_cell (i : nat) : string :=
    let v := nth i vs 0%float in let n := nth i pn 0%nat in
    cell_text (press_cell n (str_mem (nth i mports "") used) v) (tight n v) n (nth i seps "").

  Lemma pp_step_cell : forall i sr,
    (i < List.length vs)%nat -> (i < List.length mports)%nat -> (i < List.length pn)%nat -> (i < List.length seps)%nat ->
    repr_ok repr (nth i vs 0%float) -> pp_step i sr = Ok (sr ++ pp_cell i).
  Proof.
    intros i sr H1 H2 H3 H4 Hr. unfold pp_step, pp_cell.
    assert (H3' : (i < List.length plens)%nat) by (unfold plens; rewrite map_length; exact H3).
    rewrite !(nth_res_ok vs i 0%float H1), !(nth_res_ok mports i "" H2), !(nth_res_ok plens i 0%Z H3'), !(nth_res_ok seps i "" H4).
    cbn [bind].
    assert (En : nth i plens 0%Z = Z.of_nat (nth i pn 0%nat)) by (unfold plens; exact (map_nth Z.of_nat pn 0%nat i)).
    rewrite En. set (v := nth i vs 0%float) in *. set (n := nth i pn 0%nat). set (s := nth i seps ""). set (p := nth i mports "").
    unfold py_float_eq0, str_mem. change (existsb (String.eqb p) used) with (py_in_list p used).
    pose proof (shown_text repr v n s Hr) as S. cbv zeta in S.
    destruct (f_is_zero v) eqn:Z0; cbn [bind].
    - destruct (py_in_list p used) eqn:U; cbn [negb].
      + rewrite press_cell_shown by (rewrite Z0; reflexivity). rewrite <- S.
        destruct (py_substr "." _); reflexivity.
      + rewrite press_cell_blank by (rewrite Z0; reflexivity).
        rewrite py_str_mul_nat. unfold cell_text, spaces. rewrite ?sapp_assoc. reflexivity.
    - rewrite press_cell_shown by (rewrite Z0; reflexivity). rewrite <- S.
      destruct (py_substr "." _); reflexivity.
  Qed.

End PortPressure.

Lemma pp_cells_text : forall used vs mports pn seps n,
  List.length vs = n -> List.length mports = n -> List.length pn = n -> List.length seps = n ->
  sconcat (map (pp_cell mports used vs pn seps) (seq 0 n)) = cells_text (press_cells mports pn used vs) (tights pn vs) pn seps.
Proof.
  intros used. unfold pp_cell. induction vs as [|v r IH]; intros mp pl sp n H1 H2 H3 H4.
  - subst n. destruct mp; [reflexivity|discriminate H2].
  - destruct n as [|n]; [discriminate|]. destruct mp as [|p mp]; [discriminate|]. destruct pl as [|q pl]; [discriminate|].
    destruct sp as [|s sp]; [discriminate|]. cbn [seq map sconcat fold_right press_cells tights cells_text nth].
    f_equal. rewrite <- seq_shift, map_map. cbn [nth]. apply (IH mp pl sp n); cbn in *; lia.
Qed.

(* `for i in range(len(ports))` with any body that does what pp_step does *)
Lemma port_pressure_loop : forall repr mports used vs pn seps (F : nat -> string -> res string) sr,
  (forall i s, F i s = pp_step repr mports used vs pn seps i s) ->
  List.length mports = List.length vs -> List.length pn = List.length vs -> List.length seps = List.length vs ->
  (forall v, In v vs -> repr_ok repr v) ->
  py_for (py_range_len vs) sr F = Ok (sr ++ cells_text (press_cells mports pn used vs) (tights pn vs) pn seps).
Proof.
  intros repr mports used vs pn seps F sr HF H1 H2 H3 Hr. unfold py_range_len.
  rewrite (py_for_sconcat (pp_cell mports used vs pn seps)).
  - rewrite (pp_cells_text used vs mports pn seps (List.length vs)) by (assumption || reflexivity). reflexivity.
  - intros i s Hi. apply in_seq in Hi. rewrite HF. apply pp_step_cell; try lia. apply Hr. apply nth_In. lia.
Qed.

(* ------------------------------------------------------------------ pieces of combined_view / full_analysis_dict *)
Open Scope list_scope.
Lemma used_of_eq : forall x,
  flat_map (fun ups : list string => map (fun p => p) ups) (map (fun u : float * list string => snd u) (p_uops x)) = used_of x.
Proof.
  intros x. unfold used_of. induction (p_uops x) as [|u us IH]; [reflexivity|]. cbn [map flat_map]. rewrite map_id, IH. reflexivity.
Qed.

Lemma flags_flat : forall f (k : list pyline),
  py_in_list f (flat_map (fun i => map (fun g : string => g) (p_flags i)) k) = existsb (fun i => py_in_list f (p_flags i)) k.
Proof.
  intros f k. unfold py_in_list. induction k as [|x k IH]; [reflexivity|]. cbn [flat_map existsb].
  rewrite existsb_app, map_id, IH. reflexivity.
Qed.

Lemma unknown_lines_of : forall k,
  unknown_lines (map aline_of k) = map aline_of (filter (fun i => py_in_list "tp_unknown" (p_flags i)) k).
Proof.
  unfold unknown_lines. induction k as [|x k IH]; [reflexivity|]. cbn [map filter aline_of l_flags flagset_of fl_tp_unkwn].
  destruct (py_in_list "tp_unknown" (p_flags x)); cbn [map]; rewrite IH; reflexivity.
Qed.

Lemma unknown_exists : forall k,
  existsb (fun i => py_in_list "tp_unknown" (p_flags i)) k = match unknown_lines (map aline_of k) with [] => false | _ => true end.
Proof.
  intros k. rewrite unknown_lines_of. induction k as [|x k IH]; [reflexivity|]. cbn [existsb filter].
  destruct (py_in_list "tp_unknown" (p_flags x)); [reflexivity|exact IH].
Qed.

Lemma unknown_count : forall k,
  py_len (map (fun i => p_flags i) (filter (fun i => py_in_list "tp_unknown" (p_flags i)) k))
  = Z.of_nat (List.length (unknown_lines (map aline_of k))).
Proof. intros k. unfold py_len. rewrite unknown_lines_of, !map_length. reflexivity. Qed.

Lemma py_throughput_sum_model : forall k, py_throughput_sum k = throughput_sum (map aline_of k).
Proof.
  intros k. unfold py_throughput_sum, throughput_sum, summed_lines. do 2 f_equal.
  induction k as [|x k IH]; [reflexivity|]. cbn [map filter aline_of l_tp].
  destruct (negb (f_is_zero (p_tp x))); cbn [map]; rewrite IH; reflexivity.
Qed.

Lemma tp_sum_of : forall k,
  (if negb (py_list_truth (py_throughput_sum k)) then match k with x :: _ => Some (p_press x) | [] => None end
   else Some (py_throughput_sum k))
  = match k with [] => match py_throughput_sum k with [] => None | s => Some s end | _ => Some (tp_sum (map aline_of k)) end.
Proof.
  intros k. unfold tp_sum. rewrite <- py_throughput_sum_model. destruct (py_throughput_sum k) as [|v r] eqn:E; cbn [py_list_truth negb].
  - destruct k; reflexivity.
  - destruct k; reflexivity.
Qed.

(* the longest LCD as combined_view / full_analysis_dict pick it (zeta-normal form of the generated text) *)
Lemma lcd_pick_model : forall ports kernel cp (dep : list (string * pylcd)) t, NoDup (map fst dep) ->
  let a := analysis_of ports kernel cp dep t in
  (if py_list_truth dep
   then t4_ <- py_max_by (map fst dep) (fun v_ln => t3_ <- py_dict_get_str dep v_ln ;; Ok (pl_latency t3_)) ;;
        t5_ <- py_dict_get_str dep t4_ ;;
        t6_ <- py_dict_get_str dep t4_ ;;
        Ok (pl_latency t5_, map (fun '(v_instr, v_lat) => (p_num v_instr, v_lat)) (pl_deps t6_))
   else Ok (0%float, []))
  = Ok (lcd_sum a, lcd_lines a).
Proof.
  intros ports kernel cp dep t ND a. unfold lcd_sum, lcd_lines, a. cbn [analysis_of a_lcd].
  destruct dep as [|e r] eqn:E; [reflexivity|]. rewrite <- E in *. cbn [py_list_truth].
  replace (py_list_truth dep) with true by (rewrite E; reflexivity).
  destruct (py_max_by_spec pl_latency dep e r ND E) as (M & G).
  change (fun v_ln => t3_ <- py_dict_get_str dep v_ln ;; Ok (pl_latency t3_)) with (keyf pl_latency dep).
  rewrite M. cbn [bind]. rewrite G. cbn [bind].
  rewrite E. cbn [map longest_lcd]. rewrite <- pmax_from_model. reflexivity.
Qed.

Lemma zip_with_map {A B C} (f : A -> B -> C) (g : A -> B) : forall l, zip_with f l (map g l) = map (fun x => f x (g x)) l.
Proof. induction l as [|x l IH]; [reflexivity|]. cbn. rewrite IH. reflexivity. Qed.

Lemma row_of_line : forall a plens x,
  row_of a plens (aline_of x) =
  {| r_num := p_num x; r_press := press_cells (a_ports a) plens (used_of x) (p_press x);
     r_cp := cp_cell (a_cp a) (p_num x); r_lcd := dict_get (p_num x) (lcd_lines a);
     r_flags := if p_mnemonic x then flag_symbols (flagset_of (p_flags x)) else " "%string |}.
Proof. reflexivity. Qed.

Lemma tp_sum_res : forall k, k <> [] ->
  (if negb (py_list_truth (py_throughput_sum k)) then t14_ <- nth_res k 0 ;; Ok (p_press t14_) else Ok (py_throughput_sum k))
  = Ok (tp_sum (map aline_of k)).
Proof.
  intros k NK. unfold tp_sum. rewrite <- py_throughput_sum_model. destruct k as [|x k]; [congruence|].
  destruct (py_throughput_sum (x :: k)); reflexivity.
Qed.

(* ------------------------------------------------------------------ full_analysis_dict *)
Lemma if_app_ok {A} (b : bool) (w x : list A) : (if b then Ok (w ++ x) else Ok w) = Ok (w ++ if b then x else []).
Proof. destruct b; [reflexivity|]. rewrite app_nil_r. reflexivity. Qed.

Lemma tp_sum_res_or : forall k, k <> [] ->
  (if py_list_truth (py_throughput_sum k) then Ok (py_throughput_sum k) else (t1_ <- nth_res k 0 ;; Ok (p_press t1_)))
  = Ok (tp_sum (map aline_of k)).
Proof.
  intros k NK. unfold tp_sum. rewrite <- py_throughput_sum_model. destruct k as [|x k]; [congruence|].
  destruct (py_throughput_sum (x :: k)); reflexivity.
Qed.

Lemma py_mapM_ok {A B} (F : A -> res B) (g : A -> B) : forall l, (forall x, In x l -> F x = Ok (g x)) -> py_mapM F l = Ok (map g l).
Proof.
  induction l as [|x l IH]; intros H; [reflexivity|]. cbn [py_mapM map]. rewrite (H x (or_introl eq_refl)). cbn [bind].
  rewrite IH by (intros; apply H; right; assumption). reflexivity.
Qed.

Lemma py_zip_ports_combine : forall vs ports, List.length vs = List.length ports -> py_zip_ports ports vs = Ok (combine ports vs).
Proof.
  induction vs as [|v vs IH]; intros [|p ps] H; try discriminate; [reflexivity|]. cbn [py_zip_ports combine].
  rewrite IH by (cbn in H; lia). reflexivity.
Qed.

Lemma map_snd_combine {A B} : forall (a : list A) (b : list B), List.length b = List.length a -> map snd (combine a b) = b.
Proof. induction a as [|x a IH]; intros [|y b] H; try discriminate; [reflexivity|]. cbn. f_equal. apply IH. cbn in H. lia. Qed.
Lemma map_fst_combine {A B} : forall (a : list A) (b : list B), List.length b = List.length a -> map fst (combine a b) = a.
Proof. induction a as [|x a IH]; intros [|y b] H; try discriminate; [reflexivity|]. cbn. f_equal. apply IH. cbn in H. lia. Qed.

(* ------------------------------------------------------------------ the totals vector has one entry per port *)
Lemma zip_cons_length : forall (r : list float) (cols : list (list float)), List.length (zip_cons r cols) = Nat.min (List.length r) (List.length cols).
Proof. induction r as [|v r IH]; intros [|c cols]; cbn; try reflexivity. rewrite IH. reflexivity. Qed.

Lemma zip_cols_length : forall rows n, rows <> [] -> (forall r, In r rows -> List.length r = n) -> List.length (zip_cols rows) = n.
Proof.
  induction rows as [|r rows IH]; intros n NE H; [congruence|]. destruct rows as [|r' rows].
  - cbn [zip_cols]. rewrite map_length. apply H. left. reflexivity.
  - change (zip_cols (r :: r' :: rows)) with (zip_cons r (zip_cols (r' :: rows))). rewrite zip_cons_length.
    rewrite (IH n) by (try discriminate; intros x Hx; apply H; right; exact Hx).
    rewrite (H r (or_introl eq_refl)). apply Nat.min_id.
Qed.

Lemma tp_sum_length : forall (k : list aline) n, k <> [] -> (forall l, In l k -> List.length (l_press l) = n) ->
  List.length (tp_sum k) = n.
Proof.
  intros k n NK H. unfold tp_sum. destruct (throughput_sum k) as [|v s] eqn:E.
  - destruct k as [|l k]; [congruence|]. apply H. left. reflexivity.
  - rewrite <- E. unfold throughput_sum. rewrite map_length. unfold throughput_sum in E.
    destruct (summed_lines k) as [|l ls] eqn:S; [discriminate E|]. apply zip_cols_length; [discriminate|].
    intros r Hr. apply in_map_iff in Hr. destruct Hr as (x & <- & Hx). apply H.
    assert (Hx' : In x (summed_lines k)) by (rewrite S; exact Hx). unfold summed_lines in Hx'. apply filter_In in Hx'. exact (proj1 Hx').
Qed.

Lemma tp_sum_length_py : forall (ports : list string) kernel, kernel <> [] -> (forall x, In x kernel -> List.length (p_press x) = List.length ports) ->
  List.length (tp_sum (map aline_of kernel)) = List.length ports.
Proof.
  intros ports kernel NK WF. apply tp_sum_length.
  - destruct kernel; [congruence|discriminate].
  - intros l Hl. apply in_map_iff in Hl. destruct Hl as (x & <- & Hx). exact (WF x Hx).
Qed.

(* ------------------------------------------------------------------ loopcarried_dependencies *)
Lemma py_for_map {A B S} (g : A -> B) (F : B -> S -> res S) : forall (l : list A) s,
  py_for (map g l) s F = py_for l s (fun x => F (g x)).
Proof. induction l as [|x l IH]; intros s; [reflexivity|]. cbn [map py_for]. destruct (F (g x) s); [|reflexivity]. cbn [bind]. apply IH. Qed.

Section SortPairs.
  Context {V : Type}.
  Lemma insert_str_pair : forall (p : string * V) l, insert_str (fst p) (map fst l) = map fst (insert_pair p l).
  Proof.
    intros p. induction l as [|h t IH]; [reflexivity|]. cbn [map insert_str insert_pair].
    destruct (str_leb (fst p) (fst h)); [reflexivity|]. cbn [map]. rewrite IH. reflexivity.
  Qed.
  Lemma sorted_keys : forall (d : list (string * V)), py_sorted_str (map fst d) = map fst (sort_pairs d).
  Proof.
    unfold py_sorted_str, sort_pairs. induction d as [|p d IH]; [reflexivity|]. cbn [map fold_right]. rewrite IH. apply insert_str_pair.
  Qed.
  Lemma insert_pair_in : forall (x p : string * V) l, In x (insert_pair p l) <-> x = p \/ In x l.
  Proof.
    intros x p. induction l as [|h t IH]; cbn [insert_pair].
    - cbn. intuition.
    - destruct (str_leb (fst p) (fst h)); cbn [In]; [intuition|]. rewrite IH. intuition.
  Qed.
  Lemma sort_pairs_in : forall (x : string * V) d, In x (sort_pairs d) <-> In x d.
  Proof.
    intros x. unfold sort_pairs. induction d as [|p d IH]; [reflexivity|]. cbn [fold_right In]. rewrite insert_pair_in, IH. intuition.
  Qed.
End SortPairs.

(* the key of an LCD entry is the "-"-joined line numbers of its dependencies (how KernelDG builds the dict) *)
Definition canon (p : string * pylcd) : Prop := fst p = lcd_key (lcd_entry_of (snd p)).
Definition entry_of (p : string * pylcd) : lcd_entry := lcd_entry_of (snd p).

Lemma insert_pair_model : forall p l, canon p -> Forall canon l ->
  map entry_of (insert_pair p l) = insert_by_key (entry_of p) (map entry_of l).
Proof.
  intros p l Hp. induction l as [|h t IH]; intros Hl; [reflexivity|]. inversion Hl as [|? ? Hh Ht]; subst.
  cbn [insert_pair map insert_by_key]. unfold canon in Hp, Hh. unfold entry_of at 2 3. rewrite <- Hp, <- Hh.
  destruct (str_leb (fst p) (fst h)); [reflexivity|]. cbn [map]. rewrite (IH Ht). reflexivity.
Qed.
Lemma insert_pair_canon : forall p l, canon p -> Forall canon l -> Forall canon (insert_pair p l).
Proof. intros p l Hp Hl. apply Forall_forall. intros x Hx. apply insert_pair_in in Hx. destruct Hx as [->|Hx]; [exact Hp|]. rewrite Forall_forall in Hl. exact (Hl x Hx). Qed.
Lemma sort_pairs_canon : forall d, Forall canon d -> Forall canon (sort_pairs d).
Proof. intros d H. apply Forall_forall. intros x Hx. apply (proj1 (sort_pairs_in x d)) in Hx. rewrite Forall_forall in H. exact (H x Hx). Qed.
Lemma sort_pairs_model : forall d, Forall canon d -> map entry_of (sort_pairs d) = sort_by_key (map entry_of d).
Proof.
  unfold sort_pairs, sort_by_key. induction d as [|p d IH]; intros H; [reflexivity|]. inversion H as [|? ? Hp Hd]; subst.
  cbn [map fold_right]. rewrite insert_pair_model; [|exact Hp|exact (sort_pairs_canon d Hd)]. rewrite (IH Hd). reflexivity.
Qed.

(* int(key.split("-")[0]) is the first line number *)
Open Scope string_scope.
Lemma str_all_digits_eq : forall s, str_all_digits s = all_digits s.
Proof. induction s as [|c s IH]; [reflexivity|]. cbn. rewrite IH. reflexivity. Qed.
Lemma split_first_digits : forall s t, all_digits s = true -> py_split_first "-"%char (s ++ t) = s ++ py_split_first "-"%char t.
Proof.
  induction s as [|c s IH]; intros t H; [reflexivity|]. cbn [all_digits] in H. destruct (digit_val c) as [d|] eqn:D; [|discriminate].
  cbn [andb] in H. cbn [append py_split_first]. rewrite (digit_val_not_minus c d D). rewrite (IH t H). reflexivity.
Qed.
Lemma py_int_of_digits : forall n, (0 <= n)%Z -> py_int_of_str (int_digits n) = Ok n.
Proof.
  intros n Hn. destruct (int_digits_spec n "" Hn) as (R & c & r & d & E & D). rewrite sapp_nil_r in R, E. cbn [read_go] in R.
  unfold py_int_of_str. rewrite str_all_digits_eq, (int_digits_all_digits n Hn), R, E. reflexivity.
Qed.
Lemma key_first : forall n rest, (0 <= n)%Z -> py_int_of_str (py_split_first "-"%char (join_key (n :: rest))) = Ok n.
Proof.
  intros n rest Hn. destruct rest as [|m rest].
  - cbn [join_key]. rewrite <- (sapp_nil_r (int_digits n)) at 1. rewrite split_first_digits by (apply int_digits_all_digits; exact Hn).
    cbn [py_split_first]. rewrite sapp_nil_r. apply py_int_of_digits. exact Hn.
  - change (join_key (n :: m :: rest)) with (int_digits n ++ "-" ++ join_key (m :: rest)).
    rewrite split_first_digits by (apply int_digits_all_digits; exact Hn). cbn [append py_split_first Ascii.eqb]. 
    rewrite sapp_nil_r. apply py_int_of_digits. exact Hn.
Qed.

(* the body of `for dep in sorted(dep_dict.keys())` appends the row of the entry stored under the key *)
Definition lcd_entry_ok (p : string * pylcd) : Prop :=
  canon p /\ match pl_deps (snd p) with (x, _) :: _ => (0 <= p_num x)%Z | [] => False end.

Lemma lcd_row_step : forall (d : list (string * pylcd)) sep p s, NoDup (map fst d) -> In p d -> lcd_entry_ok p ->
  (t1_ <- py_int_of_str (py_split_first "-"%char (fst p)) ;;
   t2_ <- py_dict_get_str d (fst p) ;;
   t3_ <- py_dict_get_str d (fst p) ;;
   t4_ <- py_dict_get_str d (fst p) ;;
   Ok (s ++ (py_fmt_d 4 t1_ ++ " " ++ sep ++ " " ++ py_fmt_f 4 1 (pl_latency t2_) ++ " " ++ sep ++ " "
             ++ py_ljust 36 (py_strip (p_line (pl_root t3_))) ++ sep ++ " "
             ++ py_str_list_Z (map (fun '(v_node, v_lat) => p_num v_node) (pl_deps t4_)) ++ nl)))
  = Ok (s ++ lcd_row_text sep (pl_root (snd p)) (lcd_row_of (entry_of p))).
Proof.
  intros d sep [k e] s ND Hin (Hc & Hd). cbn [fst snd] in *. rewrite (get_str_in d k e ND Hin). unfold canon in Hc. cbn [fst snd] in Hc.
  destruct (pl_deps e) as [|[x lat] deps] eqn:E; [destruct Hd|].
  assert (K : k = join_key (p_num x :: map fst (map (fun '(x0, lat0) => (p_num x0, lat0)) deps))).
  { rewrite Hc. unfold lcd_key, lcd_entry_of. cbn [lcd_deps]. rewrite E. reflexivity. }
  rewrite K at 1. rewrite (key_first _ _ Hd). cbn [bind].
  unfold lcd_row_text, lcd_row_of, entry_of, lcd_entry_of. cbn [snd lcd_deps lcd_lat lr_first lr_lat lr_members]. rewrite E.
  cbn [map fst]. rewrite map_map.
  assert (M : map (fun x0 : pyline * float => fst (let '(x1, lat0) := x0 in (p_num x1, lat0))) deps
              = map (fun '(v_node, _) => p_num v_node) deps) by (apply map_ext; intros [y l]; reflexivity).
  rewrite M. reflexivity.
Qed.
