(* The balancer on instructions with SEVERAL micro-ops, exact rationals (QNum), ONE pass, model with the REPAIRED rule 1
   (the `== 0.0` branch filters `differences` together with `indices`: zipfilter_res).
   Part A: one balancing loop on an arbitrary row, WITH the `differences` list (b_df): b_df stays aligned with b_ind and
           holds, for every index still balanced, share + (cell now) - (cell before the loop) -- also when rule 1 meets an
           exact 0 (the exact-zero counter is no hypothesis any more).  Consequence (Post): the loop takes from a cell at
           most the micro-op's own share + 1/200, or zeroes a cell that held less than share + 1/100.
   Part B: the fold over the micro-ops of one instruction (balance_uops): row total exact, cells >= 0,
           Feasible with slack 1/100 per (micro-op, port)  (balance_instr_feasible, balance_instr_consequences).
   Part C (refutations by vm_compute witnesses) is in Proofs/BalanceRefute.v, Part D (one pass over a kernel without
   alternatives) and the C02 corollary in Proofs/BalancePass.v, the sharper Hall slack in Proofs/HallSharp.v. *)
From Coq Require Import QArith Qround Qfield Lqa Lia List Bool Arith String ZArith.
From OV Require Import Model.Num Model.Pressure Proofs.ListSpec Proofs.Feasible Proofs.PressureQ Proofs.BalanceFrame
  Proofs.BalanceSingle.
Import ListNotations.
Open Scope Q_scope.
Local Notation length := List.length (only parsing).

(* ================================================================ list facts *)
Lemma del_nth_spec {A} (d : A) : forall (l : list A) i l',
  del_nth l i = Ok l' ->
  (i < length l)%nat /\ length l = S (length l') /\
  forall j, nth j l' d = nth (if (j <? i)%nat then j else S j) l d.
Proof.
  induction l as [|x l IH]; intros i l' H; [destruct i; discriminate|].
  destruct i as [|i]; simpl in H.
  - inversion H; subst. split; [simpl; lia|]. split; [reflexivity|]. intros j. reflexivity.
  - destruct (del_nth l i) as [r|] eqn:E; cbn [bind] in H; [|discriminate].
    inversion H; subst. destruct (IH _ _ E) as (L & LL & N). split; [simpl; lia|]. split; [simpl; lia|].
    intros [|j].
    + reflexivity.
    + change (S j <? S i)%nat with (j <? i)%nat. cbn [nth]. rewrite N.
      destruct (j <? i)%nat; reflexivity.
Qed.

Lemma del_nth_In {A} (d : A) : forall (l : list A) i l',
  del_nth l i = Ok l' -> forall x, In x l -> In x l' \/ x = nth i l d.
Proof.
  induction l as [|y l IH]; intros i l' H x Hx; [destruct Hx|].
  destruct i as [|i]; simpl in H.
  - inversion H; subst. destruct Hx as [Hx|Hx]; [right; symmetry; exact Hx | left; exact Hx].
  - destruct (del_nth l i) as [r|] eqn:E; cbn [bind] in H; [|discriminate].
    inversion H; subst. destruct Hx as [Hx|Hx]; [left; left; exact Hx|].
    destruct (IH _ _ E x Hx) as [I|I]; [left; right; exact I | right; exact I].
Qed.

Lemma del_nth_forall {A} (d : A) (P : A -> Prop) l i l' :
  del_nth l i = Ok l' ->
  (forall j, (j < length l)%nat -> j <> i -> P (nth j l d)) ->
  forall j, (j < length l')%nat -> P (nth j l' d).
Proof.
  intros H A0 j Hj. destruct (del_nth_spec d _ _ _ H) as (L & LL & N). rewrite N.
  destruct (j <? i)%nat eqn:E.
  - apply Nat.ltb_lt in E. apply A0; lia.
  - apply Nat.ltb_ge in E. apply A0; lia.
Qed.

Lemma find_index_first (f : Q -> bool) : forall l k i,
  find_index f l k = Some i ->
  (k <= i)%nat /\ (i - k < length l)%nat /\ f (nth (i - k) l 0) = true /\
  forall j, (j < i - k)%nat -> f (nth j l 0) = false.
Proof.
  induction l as [|x l IH]; intros k i H; simpl in H; [discriminate|].
  destruct (f x) eqn:Fx.
  - inversion H; subst. rewrite Nat.sub_diag. simpl. repeat split; auto; lia.
  - destruct (IH _ _ H) as (A & B & C & D).
    assert (E : (i - k = S (i - S k))%nat) by lia.
    split; [lia|]. split; [simpl; lia|]. rewrite E. cbn [nth]. split; [exact C|].
    intros [|j] Hj; [exact Fx|]. cbn [nth]. apply D. lia.
Qed.

Lemma index_of_spec l v i :
  index_of QNum l v = Ok i -> (i < length l)%nat /\ nth i l 0 == v /\ forall j, (j < i)%nat -> ~ nth j l 0 == v.
Proof.
  unfold index_of. destruct (find_index _ l 0) as [j|] eqn:E; [|discriminate].
  intros H. inversion H; subst j. destruct (find_index_first _ _ _ _ E) as (_ & B & C & D).
  rewrite Nat.sub_0_r in *. split; [exact B|]. split; [apply qeqb_true; exact C|].
  intros j Hj Cj. apply qeqb_true in Cj. rewrite (D j Hj) in Cj. discriminate.
Qed.

(* a list with exactly one entry <= t: min and index find it *)
Lemma min_at l a t m :
  (a < length l)%nat -> nth a l 0 <= t ->
  (forall j, (j < length l)%nat -> j <> a -> t < nth j l 0) ->
  list_min QNum l = Ok m -> m = nth a l 0.
Proof.
  intros La Ha Oth H. destruct (list_min_spec _ _ H) as (I & M).
  apply (In_nth _ _ 0) in I. destruct I as (j & Lj & Ej).
  destruct (Nat.eq_dec j a) as [e|n]; [subst j; symmetry; exact Ej|]. exfalso.
  specialize (Oth j Lj n). rewrite Ej in Oth.
  assert (m <= nth a l 0) by (apply M; apply nth_In; exact La). lra.
Qed.

Lemma index_at l a t v i :
  (forall j, (j < length l)%nat -> j <> a -> t < nth j l 0) -> v <= t ->
  index_of QNum l v = Ok i -> i = a.
Proof.
  intros Oth Hv H. destruct (index_of_spec _ _ _ H) as (L & E & _).
  destruct (Nat.eq_dec i a) as [e|n]; [exact e|]. exfalso.
  specialize (Oth i L n). rewrite E in Oth. lra.
Qed.

Lemma filter_res_all (f : nat -> res bool) : forall l l',
  filter_res f l = Ok l' -> (forall p, In p l -> f p = Ok true) -> l' = l.
Proof.
  induction l as [|p l IH]; intros l' H A0; simpl in H.
  - inversion H; reflexivity.
  - rewrite (A0 p (or_introl eq_refl)) in H. cbn [bind] in H.
    destruct (filter_res f l) as [r|] eqn:E; cbn [bind] in H; [|discriminate].
    inversion H; subst. f_equal. apply IH; [reflexivity|]. intros q Hq. apply A0. right. exact Hq.
Qed.

(* a comprehension that drops exactly one element of a duplicate-free list = del at its position *)
Lemma filter_res_del (f : nat -> res bool) : forall l l' i x,
  filter_res f l = Ok l' -> NoDup l -> nth_error l i = Some x ->
  f x = Ok false -> (forall p, In p l -> p <> x -> f p = Ok true) -> del_nth l i = Ok l'.
Proof.
  induction l as [|y l IH]; intros l' i x H ND NE Fx Oth; [destruct i; discriminate|].
  inversion ND as [|? ? Hnotin ND']; subst. simpl in H.
  destruct i as [|i]; simpl in NE.
  - inversion NE; subst y. rewrite Fx in H. cbn [bind] in H.
    destruct (filter_res f l) as [r|] eqn:E; cbn [bind] in H; [|discriminate].
    inversion H; subst l'. simpl. f_equal. symmetry. apply (filter_res_all f l r E).
    intros p Hp. apply Oth; [right; exact Hp|]. intros C. subst. contradiction.
  - assert (Hx : In x l) by (eapply nth_error_In; eassumption).
    assert (Ny : y <> x) by (intros C; subst; contradiction).
    rewrite (Oth y (or_introl eq_refl) Ny) in H. cbn [bind] in H.
    destruct (filter_res f l) as [r|] eqn:E; cbn [bind] in H; [|discriminate].
    inversion H; subst l'. simpl.
    rewrite (IH r i x eq_refl ND' NE Fx (fun p Hp => Oth p (or_intror Hp))). reflexivity.
Qed.

Lemma zipfilter_res_all (f : nat -> res bool) : forall l (d d' : list Q),
  zipfilter_res f l d = Ok d' -> length d = length l -> (forall p, In p l -> f p = Ok true) -> d' = d.
Proof.
  induction l as [|p l IH]; intros d d' H L A0; destruct d as [|x d]; try discriminate.
  - simpl in H. inversion H; reflexivity.
  - cbn [zipfilter_res] in H. rewrite (A0 p (or_introl eq_refl)) in H. cbn [bind] in H.
    destruct (zipfilter_res f l d) as [r|] eqn:E; cbn [bind] in H; [|discriminate].
    inversion H; subst. f_equal. apply IH; [exact E | simpl in L; lia |].
    intros q Hq. apply A0. right. exact Hq.
Qed.

(* the zip-comprehension of the repaired rule 1 drops the entry at the position of the one dropped port *)
Lemma zipfilter_res_del (f : nat -> res bool) : forall l (d d' : list Q) i x,
  zipfilter_res f l d = Ok d' -> length d = length l -> NoDup l -> nth_error l i = Some x ->
  f x = Ok false -> (forall p, In p l -> p <> x -> f p = Ok true) -> del_nth d i = Ok d'.
Proof.
  induction l as [|y l IH]; intros d d' i x H L ND NE Fx Oth; [destruct i; discriminate|].
  destruct d as [|z d]; [discriminate|].
  inversion ND as [|? ? Hnotin ND']; subst. cbn [zipfilter_res] in H.
  destruct i as [|i]; simpl in NE.
  - inversion NE; subst y. rewrite Fx in H. cbn [bind] in H.
    destruct (zipfilter_res f l d) as [r|] eqn:E; cbn [bind] in H; [|discriminate].
    inversion H; subst d'. simpl. f_equal. symmetry. apply (zipfilter_res_all f l d r E); [simpl in L; lia|].
    intros p Hp. apply Oth; [right; exact Hp|]. intros C. subst. contradiction.
  - assert (Hx : In x l) by (eapply nth_error_In; eassumption).
    assert (Ny : y <> x) by (intros C; subst; contradiction).
    rewrite (Oth y (or_introl eq_refl) Ny) in H. cbn [bind] in H.
    destruct (zipfilter_res f l d) as [r|] eqn:E; cbn [bind] in H; [|discriminate].
    inversion H; subst d'. simpl.
    rewrite (IH d r i x E ltac:(simpl in L; lia) ND' NE Fx (fun p Hp => Oth p (or_intror Hp))). reflexivity.
Qed.

Lemma nth_map_const {A} (x : Q) : forall (l : list A) j, (j < length l)%nat -> nth j (map (fun _ => x) l) 0 = x.
Proof. induction l as [|a l IH]; intros [|j] H; simpl in *; try lia; [reflexivity | apply IH; lia]. Qed.

(* the +-INC move on a list *)
Lemma move_spec l maxi mini l1 l2 :
  sub_at QNum l maxi (1 # 100) = Ok l1 -> add_at QNum l1 mini (1 # 100) = Ok l2 ->
  length l2 = length l /\ (maxi < length l)%nat /\ (mini < length l)%nat /\
  forall j, nth j l2 0 == nth j l 0 + (if Nat.eqb j mini then 1 # 100 else 0) - (if Nat.eqb j maxi then 1 # 100 else 0).
Proof.
  intros S1 A2.
  destruct (sub_at_spec _ _ _ _ S1) as (Lm & L1 & V1max & V1oth & _).
  destruct (add_at_spec _ _ _ _ A2) as (Ln & L2 & V2min & V2oth & _).
  split; [congruence|]. split; [exact Lm|]. split; [congruence|]. intros j.
  destruct (Nat.eqb j mini) eqn:E1; destruct (Nat.eqb j maxi) eqn:E2.
  - apply Nat.eqb_eq in E1. apply Nat.eqb_eq in E2. subst mini. subst maxi. lra.
  - apply Nat.eqb_eq in E1. apply Nat.eqb_neq in E2. subst mini. rewrite (V1oth _ E2) in V2min. lra.
  - apply Nat.eqb_neq in E1. apply Nat.eqb_eq in E2. subst maxi. rewrite (V2oth _ E1). lra.
  - apply Nat.eqb_neq in E1. apply Nat.eqb_neq in E2. rewrite (V2oth _ E1), (V1oth _ E2). lra.
Qed.

Lemma move_bounds l l2 n maxi mini :
  (forall j, nth j l2 0 == nth j l 0 + (if Nat.eqb j mini then 1 # 100 else 0) - (if Nat.eqb j maxi then 1 # 100 else 0)) ->
  (maxi < n)%nat -> (mini < n)%nat ->
  (forall j, (j < n)%nat -> 1 # 200 < nth j l 0) ->
  - (1 # 200) < nth maxi l2 0 /\
  (forall j, (j < n)%nat -> j <> maxi -> 1 # 200 < nth j l2 0) /\
  (mini <> maxi -> (1 # 200) + (1 # 100) < nth mini l2 0) /\
  (mini = maxi -> 1 # 200 < nth maxi l2 0).
Proof.
  intros V Lmax Lmin B. repeat split.
  - specialize (V maxi). specialize (B maxi Lmax). rewrite Nat.eqb_refl in V. destruct (Nat.eqb maxi mini); lra.
  - intros j Hj Hne. specialize (V j). specialize (B j Hj).
    apply Nat.eqb_neq in Hne. rewrite Hne in V. destruct (Nat.eqb j mini); lra.
  - intros Hne. specialize (V mini). specialize (B mini Lmin). rewrite Nat.eqb_refl in V.
    apply Nat.eqb_neq in Hne. rewrite Hne in V. lra.
  - intros E. subst mini. specialize (V maxi). specialize (B maxi Lmax). rewrite Nat.eqb_refl in V. lra.
Qed.

(* ================================================================ Part A: one loop, with b_df *)
Section OneUop.
  Variable pp0 : list Q.   (* the row when the loop of this micro-op starts *)
  Variable sh : Q.         (* the micro-op's uniform share cycles/len(ports) *)

  (* what the micro-op holds at port p if every change of the row since pp0 is booked on it *)
  Definition dcell (pp : list Q) (p : nat) : Q := sh + nth p pp 0 - nth p pp0 0.

  Definition AlignedX (x : nat) (pp : list Q) (ind : list nat) (df : list Q) : Prop :=
    forall j, (j < length ind)%nat -> j <> x -> nth j df 0 == dcell pp (nth j ind 0%nat).

  Definition Aligned (pp : list Q) (ind : list nat) (df : list Q) : Prop :=
    length df = length ind /\ forall j, (j < length ind)%nat -> nth j df 0 == dcell pp (nth j ind 0%nat).

  (* fate of a port of the micro-op: its cell was zeroed while it held less than share + 1/100,
     or the cell is > 1/200 and the micro-op's booked part is > -1/200 *)
  Definition Post (pp : list Q) (p : nat) : Prop :=
    (nth p pp 0 == 0 /\ nth p pp0 0 - sh < 1 # 100) \/ (1 # 200 < nth p pp 0 /\ - (1 # 200) < dcell pp p).

  Definition MInv (s : @bstate Q) : Prop :=
    Inv s /\ Aligned (b_pp s) (b_ind s) (b_df s) /\ (forall j, (j < length (b_ind s))%nat -> 1 # 200 < nth j (b_df s) 0).

  Lemma aligned_del pp ind df i ind' df' :
    length df = length ind -> AlignedX i pp ind df ->
    del_nth ind i = Ok ind' -> del_nth df i = Ok df' -> Aligned pp ind' df'.
  Proof.
    intros L A0 DI DD.
    destruct (del_nth_spec 0%nat _ _ _ DI) as (Li & LLi & Ni).
    destruct (del_nth_spec 0 _ _ _ DD) as (Ld & LLd & Nd).
    split; [lia|]. intros j Hj. rewrite Ni, Nd.
    destruct (j <? i)%nat eqn:E.
    - apply Nat.ltb_lt in E. apply A0; lia.
    - apply Nat.ltb_ge in E. apply A0; lia.
  Qed.

  Lemma MInv_post s : MInv s -> forall p, In p (b_ind s) -> Post (b_pp s) p.
  Proof.
    intros (((ND & NE & RG & V) & LPS) & (LD & AL) & BD) p Hp. right.
    split; [apply RG; exact Hp|].
    apply (In_nth _ _ 0%nat) in Hp. destruct Hp as (j & Hj & E). subst p.
    rewrite <- (AL j Hj). specialize (BD j Hj). lra.
  Qed.

  (* ---- rule 1: what exactly happens (shape of the entries after the +-INC move as in BalanceSingle.rule1_inv) ---- *)
  Lemma rule1_shape ps mn pp1 ind ip2 df2 mini maxi pp2 ind2 ip3 df3 ex :
    NoDup ind -> (forall p, In p ind -> (p < length pp1)%nat) ->
    vals_at pp1 ind = ip2 -> length df2 = length ind ->
    index_of QNum ps mn = Ok mini -> (mini < length ind)%nat -> (maxi < length ind)%nat ->
    (forall j, (j < length ind)%nat -> j <> maxi -> 1 # 200 < nth j ip2 0) ->
    (mini <> maxi -> (1 # 200) + (1 # 100) < nth mini ip2 0) ->
    (mini = maxi -> 1 # 200 < nth maxi ip2 0) ->
    - (1 # 200) < nth maxi ip2 0 ->
    rule1 QNum ps mn pp1 ind ip2 df2 = Ok (pp2, ind2, ip3, df3, ex) ->
    (pp2 = pp1 /\ ind2 = ind /\ ip3 = ip2 /\ df3 = df2 /\ ex = 0%nat /\
     forall j, (j < length ind)%nat -> 1 # 200 < nth j ip2 0)
    \/ (mini <> maxi /\ nth maxi ip2 0 <= 1 # 200 /\
        del_nth ind maxi = Ok ind2 /\
        (exists dfa, length dfa = length df2 /\ nth mini dfa 0 == nth mini df2 0 + nth maxi ip2 0 /\
                     (forall j, j <> mini -> nth j dfa 0 = nth j df2 0) /\ del_nth dfa maxi = Ok df3) /\
        length pp2 = length pp1 /\
        nth (nth maxi ind 0%nat) pp2 0 == 0 /\
        nth (nth mini ind 0%nat) pp2 0 == nth (nth mini ind 0%nat) pp1 0 + nth maxi ip2 0 /\
        (forall p, p <> nth maxi ind 0%nat -> p <> nth mini ind 0%nat -> nth p pp2 0 = nth p pp1 0)).
  Proof.
    intros ND RG VA LDF IM Lmini Lmaxi Both Bmini Bsame Bmax H.
    assert (Lip : length ip2 = length ind) by (rewrite <- VA; apply vals_at_length).
    unfold rule1 in H.
    destruct (list_min QNum ip2) as [m|] eqn:E0; cbn [bind] in H; [|discriminate].
    destruct (list_min_spec _ _ E0) as (Min & Mle).
    destruct (nleb QNum (nround2 QNum m) (zero QNum)) eqn:Fire.
    2:{ inversion H; subst pp2 ind2 ip3 df3 ex. left.
        assert (Hm : 1 # 200 < m).
        { apply Qnot_le_lt. intros C. apply Qround2_le0 in C. apply qleb_true in C.
          change (zero QNum) with 0 in Fire. cbn [nround2 QNum] in Fire. congruence. }
        repeat (split; [reflexivity|]). intros j Hj.
        apply Qlt_le_trans with m; [exact Hm|]. apply Mle. apply nth_In. lia. }
    assert (Hm : m <= 1 # 200) by (apply Qround2_le0; apply qleb_true; exact Fire).
    apply (In_nth _ _ 0) in Min. destruct Min as (jm & Hjm & Ejm).
    assert (jm = maxi).
    { destruct (Nat.eq_dec jm maxi) as [e|n]; [exact e|]. exfalso.
      specialize (Both jm ltac:(lia) n). rewrite Ejm in Both. lra. }
    subst jm.
    assert (NE2 : mini <> maxi).
    { intros C. specialize (Bsame C). rewrite Ejm in Bsame. lra. }
    specialize (Bmini NE2).
    set (pmax := nth maxi ind 0%nat). set (pmini := nth mini ind 0%nat).
    assert (Ipmax : In pmax ind) by (apply nth_In; exact Lmaxi).
    assert (Ipmini : In pmini ind) by (apply nth_In; exact Lmini).
    assert (Npm : pmini <> pmax).
    { unfold pmini, pmax. intros C. apply NE2. apply (proj1 (NoDup_nth ind 0%nat) ND mini maxi Lmini Lmaxi C). }
    change (zero QNum) with 0 in H.
    destruct (negb (neqb QNum m 0)) eqn:NZ.
    2:{ (* drained to exactly 0 (repaired rule): the port leaves ind, its entry leaves the differences list *)
        right.
        assert (M0 : m == 0) by (apply negb_false_iff in NZ; apply qeqb_true in NZ; exact NZ).
        destruct (zipfilter_res _ ind df2) as [dfz|] eqn:ZF; cbn [bind] in H; [|discriminate].
        destruct (filter_res _ ind) as [ind2'|] eqn:F2 in H; cbn [bind] in H; [|discriminate].
        destruct (getmany pp1 ind2') as [ip2'|] eqn:GM; cbn [bind] in H; [|discriminate].
        inversion H; subst pp2 ind2 ip3 df3 ex. clear H.
        assert (Pmax : nth pmax pp1 0 = m).
        { unfold pmax. rewrite <- (vals_at_nth pp1 ind maxi Lmaxi), VA. exact Ejm. }
        pose proof (port_view (fun x => 1 # 200 < x) pp1 ind ip2 maxi VA Both) as Poth. cbv beta in Poth.
        fold pmax in Poth.
        assert (Fmax : (v <- nth_res pp1 pmax ;; Ok (nltb QNum (zero QNum) v)) = Ok false).
        { rewrite (nth_res_nth pp1 pmax 0) by (apply RG; exact Ipmax). cbn [bind]. f_equal. rewrite Pmax.
          destruct (nltb QNum (zero QNum) m) eqn:C; [|reflexivity]. apply qltb_true in C.
          change (zero QNum) with 0 in C. lra. }
        assert (Foth : forall p, In p ind -> p <> pmax ->
                  (v <- nth_res pp1 p ;; Ok (nltb QNum (zero QNum) v)) = Ok true).
        { intros p Hp Hne. rewrite (nth_res_nth pp1 p 0) by (apply RG; exact Hp). cbn [bind]. f_equal.
          apply qltb_true. specialize (Poth p Hp Hne). change (zero QNum) with 0. lra. }
        assert (NEmax : nth_error ind maxi = Some pmax) by (unfold pmax; apply nth_error_nth'; exact Lmaxi).
        rewrite <- Ejm in *.
        split; [exact NE2|]. split; [exact Hm|].
        split; [exact (filter_res_del _ ind ind2' maxi pmax F2 ND NEmax Fmax Foth)|].
        split; [exists df2; split; [reflexivity|]; split; [rewrite M0; ring|]; split; [reflexivity|];
                exact (zipfilter_res_del _ ind df2 dfz maxi pmax ZF LDF ND NEmax Fmax Foth)|].
        split; [reflexivity|]. split; [rewrite Pmax; exact M0|]. split; [rewrite M0; ring|]. reflexivity. }
    right.
    rewrite IM in H. cbn [bind] in H.
    destruct (add_at QNum ip2 mini m) as [ipa|] eqn:AA; cbn [bind] in H; [|discriminate].
    destruct (list_min QNum ipa) as [m2|] eqn:E2; cbn [bind] in H; [|discriminate].
    destruct (add_at QNum df2 mini m2) as [dfa|] eqn:AD; cbn [bind] in H; [|discriminate].
    destruct (index_of QNum ipa m2) as [kk|] eqn:IK; cbn [bind] in H; [|discriminate].
    destruct (del_nth dfa kk) as [dfb|] eqn:DD; cbn [bind] in H; [|discriminate].
    destruct (setmany pp1 ind ipa) as [ppa|] eqn:SM; cbn [bind] in H; [|discriminate].
    destruct (filter_res _ ind) as [zs|] eqn:FZ in H; cbn [bind] in H; [|discriminate].
    destruct zs as [|zi zs]; [discriminate|].
    destruct (set_nth ppa zi 0) as [ppb|] eqn:SZ; cbn [bind] in H; [|discriminate].
    destruct (filter_res _ ind) as [ind2'|] eqn:F2 in H; cbn [bind] in H; [|discriminate].
    destruct (getmany ppb ind2') as [ip2'|] eqn:GM; cbn [bind] in H; [|discriminate].
    inversion H; subst pp2 ind2 ip3 df3 ex. clear H.
    destruct (add_at_spec _ _ _ _ AA) as (_ & LA & Vmini & Voth & _).
    assert (Amax : nth maxi ipa 0 = m) by (rewrite Voth by (intros C; apply NE2; symmetry; exact C); exact Ejm).
    assert (Aoth : forall j, (j < length ipa)%nat -> j <> maxi -> 1 # 200 < nth j ipa 0).
    { intros j Hj Hne. destruct (Nat.eq_dec j mini) as [e|n].
      - subst j. rewrite Vmini. rewrite Ejm in Bmax. lra.
      - rewrite (Voth j n). apply Both; [lia | assumption]. }
    (* the second min is the same entry; its index is maxi *)
    assert (M2 : m2 = m).
    { rewrite <- Amax. apply (min_at ipa maxi (1 # 200) m2); [lia | rewrite Amax; exact Hm | exact Aoth | exact E2]. }
    subst m2.
    assert (kk = maxi) by (eapply (index_at ipa maxi (1 # 200) m); eassumption).
    subst kk.
    destruct (setmany_spec _ _ _ _ SM ND ltac:(lia)) as (Lppa & VAa & Fa & _).
    assert (Pmax : nth pmax ppa 0 = m).
    { unfold pmax. rewrite <- (vals_at_nth ppa ind maxi Lmaxi), VAa. exact Amax. }
    assert (Aoth' : forall j, (j < length ind)%nat -> j <> maxi -> 1 # 200 < nth j ipa 0)
      by (intros j Hj Hne; apply Aoth; [lia | exact Hne]).
    pose proof (port_view (fun x => 1 # 200 < x) ppa ind ipa maxi VAa Aoth') as Poth. cbv beta in Poth.
    fold pmax in Poth.
    destruct (filter_res_spec _ _ _ FZ) as (IZ & _).
    destruct (IZ zi (or_introl eq_refl)) as (Izi & Fzi).
    assert (zi = pmax).
    { destruct (Nat.eq_dec zi pmax) as [e|n]; [exact e|]. exfalso.
      specialize (Poth zi Izi n).
      apply fres_nth in Fzi; [|rewrite Lppa; apply RG; exact Izi].
      apply orb_true_iff in Fzi. destruct Fzi as [Fz|Fz].
      - apply qeqb_true in Fz. cbn [nround2 QNum] in Fz.
        pose proof (Qround2_pos _ Poth) as R. change (zero QNum) with 0 in Fz. lra.
      - apply qltb_true in Fz. change (zero QNum) with 0 in Fz. lra. }
    subst zi.
    destruct (set_nth_ok _ _ _ _ 0 SZ) as (Lppb & Nb & Ob).
    rewrite <- Ejm in *.
    split; [exact NE2|]. split; [exact Hm|].
    destruct (add_at_spec _ _ _ _ AD) as (_ & LAD & WAmini & WAoth & _).
    split; [|split; [exists dfa; split; [exact LAD|]; split; [exact WAmini|]; split; [exact WAoth | exact DD]
                    |split; [congruence|split; [rewrite Nb; reflexivity|split]]]].
    - (* the comprehension drops exactly the zeroed port *)
      apply (filter_res_del _ ind ind2' maxi pmax F2 ND).
      + unfold pmax. apply nth_error_nth'. exact Lmaxi.
      + rewrite (nth_res_nth ppb pmax 0) by (rewrite Lppb, Lppa; apply RG; exact Ipmax).
        cbn [bind]. rewrite Nb. reflexivity.
      + intros p Hp Hne. rewrite (nth_res_nth ppb p 0) by (rewrite Lppb, Lppa; apply RG; exact Hp).
        cbn [bind]. f_equal. apply qltb_true. rewrite (Ob p Hne). specialize (Poth p Hp Hne).
        change (zero QNum) with 0. lra.
    - rewrite (Ob pmini Npm). unfold pmini at 1.
      rewrite <- (vals_at_nth ppa ind mini Lmini), VAa, Vmini.
      rewrite <- VA, (vals_at_nth pp1 ind mini Lmini). reflexivity.
    - intros p Hp1 Hp2. rewrite (Ob p Hp1).
      destruct (in_dec Nat.eq_dec p ind) as [i|ni]; [|apply Fa; exact ni].
      apply (In_nth _ _ 0%nat) in i. destruct i as (j & Hj & E). subst p.
      assert (j <> mini) by (intros C; subst j; apply Hp2; reflexivity).
      rewrite <- (vals_at_nth ppa ind j Hj), VAa, (Voth j H).
      rewrite <- VA, (vals_at_nth pp1 ind j Hj). reflexivity.
  Qed.

  Lemma min_at' l a t m :
    (forall j, (j < length l)%nat -> j <> a -> t < nth j l 0) ->
    list_min QNum l = Ok m -> m <= t -> m = nth a l 0 /\ (a < length l)%nat.
  Proof.
    intros Oth H Hm. destruct (list_min_spec _ _ H) as (I & _).
    apply (In_nth _ _ 0) in I. destruct I as (j & Lj & Ej).
    destruct (Nat.eq_dec j a) as [e|n]; [subst j; split; [symmetry; exact Ej | exact Lj]|]. exfalso.
    specialize (Oth j Lj n). rewrite Ej in Oth. lra.
  Qed.

  (* ---- rule 2 when at most the entry at maxi can be small ---- *)
  Lemma rule2_shape pp2 ind df ip3 maxi ind' ip' df' :
    length df = length ind ->
    (forall j, (j < length ind)%nat -> j <> maxi -> 1 # 200 < nth j df 0) ->
    rule2 QNum pp2 ind ip3 df = Ok (ind', ip', df') ->
    (ind' = ind /\ ip' = ip3 /\ df' = df /\ forall j, (j < length ind)%nat -> 1 # 200 < nth j df 0)
    \/ ((maxi < length ind)%nat /\ nth maxi df 0 <= 1 # 200 /\ del_nth ind maxi = Ok ind' /\ del_nth df maxi = Ok df' /\
        getmany pp2 ind' = Ok ip').
  Proof.
    intros L Oth H. unfold rule2 in H.
    destruct (list_min QNum df) as [md|] eqn:E0; cbn [bind] in H; [|discriminate].
    destruct (list_min_spec _ _ E0) as (Min & Mle).
    destruct (nleb QNum (nround2 QNum md) (zero QNum)) eqn:Fire.
    2:{ inversion H; subst. left. repeat (split; [reflexivity|]). intros j Hj.
        assert (Hm : 1 # 200 < md).
        { apply Qnot_le_lt. intros C. apply Qround2_le0 in C. apply qleb_true in C.
          change (zero QNum) with 0 in Fire. cbn [nround2 QNum] in Fire. congruence. }
        apply Qlt_le_trans with md; [exact Hm|]. apply Mle. apply nth_In. lia. }
    assert (Hm : md <= 1 # 200) by (apply Qround2_le0; apply qleb_true; exact Fire).
    right.
    assert (Oth' : forall j, (j < length df)%nat -> j <> maxi -> 1 # 200 < nth j df 0)
      by (intros j Hj; apply Oth; lia).
    destruct (min_at' df maxi (1 # 200) md Oth' E0 Hm) as (Emd & Lmaxi).
    destruct (index_of QNum df md) as [kd|] eqn:IK; cbn [bind] in H; [|discriminate].
    assert (kd = maxi) by (eapply (index_at df maxi (1 # 200) md); eassumption). subst kd.
    destruct (del_nth ind maxi) as [i'|] eqn:D; cbn [bind] in H; [|discriminate].
    destruct (getmany pp2 i') as [ipn|] eqn:GM; cbn [bind] in H; [|discriminate].
    destruct (del_nth df maxi) as [dfn|] eqn:DD; cbn [bind] in H; [|discriminate].
    inversion H; subst ind' ip' df'. rewrite <- Emd.
    split; [lia|]. split; [exact Hm|]. split; [reflexivity|]. split; [reflexivity | exact GM].
  Qed.

  (* ---- one iteration ---- *)
  Lemma bstep_minv k idx s s' :
    MInv s -> bstep QNum k idx s = Ok s' ->
    MInv s' /\ incl (b_ind s') (b_ind s) /\ length (b_pp s') = length (b_pp s) /\
    lsum (b_pp s') == lsum (b_pp s) /\
    (forall p, In p (b_ind s) -> In p (b_ind s') \/ Post (b_pp s') p).
  Proof.
    intros (I & (LD & AL) & BD) H.
    destruct (bstep_inv _ _ _ _ I H) as (I' & Inc & Lpp & _ & Sum).
    destruct I as ((ND & NE & RG & V) & LPS).
    unfold bstep in H.
    destruct (list_max QNum (b_ps s)) as [mx|]; cbn [bind] in H; [|discriminate].
    destruct (index_of QNum (b_ps s) mx) as [maxi|] eqn:IMX; cbn [bind] in H; [|discriminate].
    destruct (list_min QNum (b_ps s)) as [mn|]; cbn [bind] in H; [|discriminate].
    destruct (index_of QNum (b_ps s) mn) as [mini|] eqn:IMN; cbn [bind] in H; [|discriminate].
    destruct (sub_at QNum (b_ip s) maxi (INC QNum)) as [ip1|] eqn:S1; cbn [bind] in H; [|discriminate].
    destruct (add_at QNum ip1 mini (INC QNum)) as [ip2|] eqn:A2; cbn [bind] in H; [|discriminate].
    destruct (sub_at QNum (b_df s) maxi (INC QNum)) as [df1|] eqn:D1; cbn [bind] in H; [|discriminate].
    destruct (add_at QNum df1 mini (INC QNum)) as [df2|] eqn:D2; cbn [bind] in H; [|discriminate].
    destruct (setmany (b_pp s) (b_ind s) ip2) as [pp1|] eqn:SM; cbn [bind] in H; [|discriminate].
    destruct (rule1 QNum (b_ps s) mn pp1 (b_ind s) ip2 df2) as [[[[[pp2 ind2] ip3] df3] ex]|] eqn:R1;
      cbn [bind] in H; [|discriminate].
    destruct (rule2 QNum pp2 ind2 ip3 df3) as [[[ind3 ip4] df4]|] eqn:R2; cbn [bind] in H; [|discriminate].
    destruct (getmany _ ind3) as [ps'|] eqn:GP in H; cbn [bind] in H; [|discriminate].
    inversion H; subst s'. clear H. cbn [b_ind b_pp b_ip b_ps b_df b_exact0] in *.
    rewrite INC_Q in *.
    pose proof IMN as IMN'. apply index_of_lt in IMX. apply index_of_lt in IMN. rewrite LPS in IMX, IMN.
    assert (Lip : length (b_ip s) = length (b_ind s)) by (rewrite V; apply vals_at_length).
    assert (Hip : forall j, (j < length (b_ind s))%nat -> 1 # 200 < nth j (b_ip s) 0).
    { intros j Hj. rewrite V, vals_at_nth by exact Hj. apply RG. apply nth_In. exact Hj. }
    destruct (move_spec _ _ _ _ _ S1 A2) as (L2 & _ & _ & Vip).
    destruct (move_spec _ _ _ _ _ D1 D2) as (LD2 & _ & _ & Vdf).
    destruct (move_bounds _ _ _ _ _ Vip IMX IMN Hip) as (Bmax & Both & Bmini & Bsame).
    destruct (move_bounds _ _ _ _ _ Vdf IMX IMN BD) as (Dmax & Doth & Dmini & _).
    destruct (setmany_spec _ _ _ _ SM ND ltac:(lia)) as (Lpp1 & VA1 & F1 & _).
    assert (RG1 : forall p, In p (b_ind s) -> (p < length pp1)%nat).
    { intros p Hp. rewrite Lpp1. apply RG. exact Hp. }
    (* the differences list follows the cells *)
    assert (AL1 : forall j, (j < length (b_ind s))%nat -> nth j df2 0 == dcell pp1 (nth j (b_ind s) 0%nat)).
    { intros j Hj. unfold dcell. rewrite <- (vals_at_nth pp1 (b_ind s) j Hj), VA1.
      specialize (Vip j). specialize (Vdf j). specialize (AL j Hj). unfold dcell in AL.
      rewrite <- (vals_at_nth (b_pp s) (b_ind s) j Hj), <- V in AL.
      destruct (Nat.eqb j mini); destruct (Nat.eqb j maxi); lra. }
    set (pmax := nth maxi (b_ind s) 0%nat) in *.
    assert (Ipmax : In pmax (b_ind s)) by (apply nth_In; exact IMX).
    assert (Ldf2' : length df2 = length (b_ind s)) by lia.
    destruct (rule1_shape _ _ _ _ _ _ _ _ _ _ _ _ _ ND RG1 VA1 Ldf2' IMN' IMN IMX Both Bmini Bsame Bmax R1)
      as [(E1 & E2 & E3 & E4 & _ & Ball)|(NE2 & Hm & DI & (dfa & Lda0 & Wmini & Woth & DD) & Lpp2 & Zmax & Vpmini & Vrest)].
    - (* rule 1 did not fire *)
      subst pp2 ind2 ip3 df3.
      assert (Ldf2 : length df2 = length (b_ind s)) by lia.
      destruct (rule2_shape _ _ _ _ maxi _ _ _ Ldf2 Doth R2)
        as [(E1 & E2 & E3 & Dall)|(_ & Hd & DI & DD & GM)].
      + subst ind3 ip4 df4. split; [|split; [exact Inc|split; [exact Lpp|split; [exact Sum|]]]].
        * split; [exact I'|]. split; [split; [exact Ldf2 | exact AL1] | exact Dall].
        * intros p Hp. left. exact Hp.
      + assert (AL3 : Aligned pp1 ind3 df4).
        { eapply aligned_del; [| |exact DI|exact DD]; [lia|]. intros j Hj _. apply AL1. exact Hj. }
        split; [|split; [exact Inc|split; [exact Lpp|split; [exact Sum|]]]].
        * split; [exact I'|]. split; [exact AL3|]. cbn [b_ind b_df].
          destruct AL3 as (L3 & _). rewrite <- L3.
          apply (del_nth_forall 0 (fun x => 1 # 200 < x) _ _ _ DD). intros j Hj Hne. apply Doth; [lia | exact Hne].
        * intros p Hp. destruct (del_nth_In 0%nat _ _ _ DI p Hp) as [i|e]; [left; exact i|]. right.
          fold pmax in e. subst p. right. split.
          -- unfold pmax. rewrite <- (vals_at_nth pp1 (b_ind s) maxi IMX), VA1. apply Ball. exact IMX.
          -- pose proof (AL1 maxi IMX) as A1. fold pmax in A1. lra.
    - (* rule 1 handed the residual over and zeroed the cell; afterwards every difference is > 1/200 *)
      assert (ALa : AlignedX maxi pp2 (b_ind s) dfa).
      { intros j Hj Hne.
        assert (Npj : nth j (b_ind s) 0%nat <> pmax).
        { unfold pmax. intros C. apply Hne. apply (proj1 (NoDup_nth (b_ind s) 0%nat) ND j maxi Hj IMX C). }
        destruct (Nat.eq_dec j mini) as [e|n].
        - subst j. rewrite Wmini, (AL1 mini IMN). unfold dcell. rewrite Vpmini. ring.
        - rewrite (Woth j n), (AL1 j Hj). unfold dcell. rewrite (Vrest _ Npj); [reflexivity|].
          intros C. apply n. apply (proj1 (NoDup_nth (b_ind s) 0%nat) ND j mini Hj IMN C). }
      assert (Lda : length dfa = length (b_ind s)) by lia.
      assert (AL3 : Aligned pp2 ind2 df3) by (eapply aligned_del; eassumption).
      assert (BD3 : forall j, (j < length ind2)%nat -> 1 # 200 < nth j df3 0).
      { destruct AL3 as (L3 & _). rewrite <- L3.
        apply (del_nth_forall 0 (fun x => 1 # 200 < x) _ _ _ DD). intros j Hj Hne.
        destruct (Nat.eq_dec j mini) as [e|n].
        - subst j. rewrite Wmini. specialize (Dmini NE2). lra.
        - rewrite (Woth j n). apply Doth; [lia | exact Hne]. }
      assert (NE3 : ind2 <> []).
      { destruct I' as ((_ & NE3 & _) & _). cbn [b_ind] in NE3.
        intros C. subst ind2. unfold rule2 in R2.
        destruct (list_min QNum df3) as [md|]; cbn [bind] in R2; [|discriminate].
        destruct (nleb QNum (nround2 QNum md) (zero QNum)).
        - destruct (index_of QNum df3 md) as [kd|]; cbn [bind] in R2; [|discriminate].
          destruct kd; discriminate.
        - inversion R2; subst. apply NE3. reflexivity. }
      assert (L0 : (0 < length ind2)%nat) by (destruct ind2; [congruence | simpl; lia]).
      destruct (rule2_shape _ _ _ _ 0%nat _ _ _ (proj1 AL3) (fun j Hj _ => BD3 j Hj) R2)
        as [(E1 & E2 & E3 & _)|(_ & Hd & _)]; [|specialize (BD3 0%nat L0); lra].
      subst ind3 ip4 df4.
      split; [|split; [exact Inc|split; [exact Lpp|split; [exact Sum|]]]].
      + split; [exact I'|]. split; [exact AL3 | exact BD3].
      + intros p Hp. destruct (del_nth_In 0%nat _ _ _ DI p Hp) as [i|e]; [left; exact i|]. right.
        fold pmax in e. subst p. left. fold pmax in Zmax. split; [exact Zmax|].
        pose proof (AL1 maxi IMX) as A1. fold pmax in A1. unfold dcell in A1.
        assert (E : nth pmax pp1 0 = nth maxi ip2 0).
        { unfold pmax. rewrite <- (vals_at_nth pp1 (b_ind s) maxi IMX), VA1. reflexivity. }
        rewrite E in A1. lra.
  Qed.

  Lemma Post_ext pp pp' p : nth p pp' 0 = nth p pp 0 -> Post pp p -> Post pp' p.
  Proof. unfold Post, dcell. intros E. rewrite E. tauto. Qed.
End OneUop.

(* the exact-zero counter never decreases *)
Lemma bstep_exact0_mono {T} (N : NumOps T) k idx s s' : bstep N k idx s = Ok s' -> (b_exact0 s <= b_exact0 s')%nat.
Proof.
  unfold bstep. intros H.
  destruct (list_max N (b_ps s)) as [mx|]; cbn [bind] in H; [|discriminate].
  destruct (index_of N (b_ps s) mx) as [maxi|]; cbn [bind] in H; [|discriminate].
  destruct (list_min N (b_ps s)) as [mn|]; cbn [bind] in H; [|discriminate].
  destruct (index_of N (b_ps s) mn) as [mini|]; cbn [bind] in H; [|discriminate].
  destruct (sub_at N (b_ip s) maxi (INC N)) as [ip1|]; cbn [bind] in H; [|discriminate].
  destruct (add_at N ip1 mini (INC N)) as [ip2|]; cbn [bind] in H; [|discriminate].
  destruct (sub_at N (b_df s) maxi (INC N)) as [df1|]; cbn [bind] in H; [|discriminate].
  destruct (add_at N df1 mini (INC N)) as [df2|]; cbn [bind] in H; [|discriminate].
  destruct (setmany (b_pp s) (b_ind s) ip2) as [pp1|]; cbn [bind] in H; [|discriminate].
  destruct (rule1 N (b_ps s) mn pp1 (b_ind s) ip2 df2) as [[[[[pp2 ind2] ip3] df3] ex]|];
    cbn [bind] in H; [|discriminate].
  destruct (rule2 N pp2 ind2 ip3 df3) as [[[ind3 ip4] df4]|]; cbn [bind] in H; [|discriminate].
  destruct (getmany _ ind3) as [ps'|] in H; cbn [bind] in H; [|discriminate].
  inversion H; subst s'. cbn [b_exact0]. lia.
Qed.

Lemma bloop_cases {T} (N : NumOps T) n k idx s s' :
  bloop N (S n) k idx s = Ok s' ->
  (exists s1, bstep N k idx s = Ok s1 /\ bloop N n k idx s1 = Ok s') \/ s' = s.
Proof.
  intros H. simpl in H. destruct (b_ip s) as [|x [|y r]].
  - destruct (bstep N k idx s) as [s1|] eqn:B; cbn [bind] in H; [|discriminate]. left. eauto.
  - right. inversion H. reflexivity.
  - destruct (bstep N k idx s) as [s1|] eqn:B; cbn [bind] in H; [|discriminate]. left. eauto.
Qed.

Lemma bloop_exact0_mono {T} (N : NumOps T) k idx : forall n s s',
  bloop N n k idx s = Ok s' -> (b_exact0 s <= b_exact0 s')%nat.
Proof.
  induction n as [|n IH]; intros s s' H.
  - simpl in H. inversion H; subst. lia.
  - destruct (bloop_cases _ _ _ _ _ _ H) as [(s1 & B & L)|E]; [|subst; lia].
    apply bstep_exact0_mono in B. apply IH in L. lia.
Qed.

(* ---- the loop ---- *)
Lemma bloop_minv pp0 sh k idx : forall n s s',
  MInv pp0 sh s -> bloop QNum n k idx s = Ok s' ->
  MInv pp0 sh s' /\ length (b_pp s') = length (b_pp s) /\ lsum (b_pp s') == lsum (b_pp s) /\
  (forall p, In p (b_ind s) -> Post pp0 sh (b_pp s') p).
Proof.
  induction n as [|n IH]; intros s s' I H.
  - simpl in H. inversion H; subst s'. split; [exact I|]. split; [reflexivity|]. split; [reflexivity|].
    apply MInv_post. exact I.
  - destruct (bloop_cases _ _ _ _ _ _ H) as [(s1 & B & L)|E].
    + destruct (bstep_minv pp0 sh _ _ _ _ I B) as (I1 & Inc1 & L1 & S1 & P1).
      destruct (IH _ _ I1 L) as (I2 & L2 & S2 & P2).
      destruct (bloop_frame QNum 0 _ _ _ _ _ L) as (_ & (_ & O)).
      split; [exact I2|]. split; [congruence|]. split; [rewrite S2; exact S1|].
      intros p Hp. destruct (in_dec Nat.eq_dec p (b_ind s1)) as [i|ni]; [apply P2; exact i|].
      destruct (P1 p Hp) as [i|Q]; [contradiction|].
      eapply Post_ext; [|exact Q]. apply O. exact ni.
    + subst s'. split; [exact I|]. split; [reflexivity|]. split; [reflexivity|]. apply MInv_post. exact I.
Qed.

(* ================================================================ one micro-op on an arbitrary row *)
(* a micro-op with ONE port is never balanced *)
Lemma balance_uop_one_port {T} (N : NumOps T) ports k idx pp c p pp' e :
  balance_uop N ports k idx pp (c, [p]) = Ok (pp', e) -> pp' = pp /\ e = 0%nat.
Proof.
  unfold balance_uop. cbn [indices_of]. intros H.
  destruct (port_index ports p) as [i|]; [|discriminate]. cbn [bind] in H.
  unfold getmany at 1 2 in H. cbn [getmany_go] in H.
  destruct (nth_res (tp_sum N (set_pp k idx pp)) i) as [x|]; cbn [bind] in H; [|discriminate].
  destruct (nth_res pp i) as [y|]; cbn [bind] in H; [|discriminate].
  cbn [all_equal forallb] in H. inversion H. split; reflexivity.
Qed.

(* a micro-op (c, ps) with pairwise different ports, share > 1/200, on a row whose cells at those ports are > 1/200,
   balanced without meeting an exact zero (counter e = 0): total kept, nothing else touched, and every port of the
   micro-op ends in one of the two ways of Post *)
Theorem balance_uop_multi ports k idx pp c ps ind pp' e :
  indices_of ports ps = Ok ind -> NoDup ind ->
  1 # 200 < c / inject_Z (Z.of_nat (length ps)) ->
  (forall p, In p ind -> 1 # 200 < nth p pp 0) ->
  balance_uop QNum ports k idx pp (c, ps) = Ok (pp', e) ->
  lsum pp' == lsum pp /\ length pp' = length pp /\
  (forall j, ~ In j ind -> nth j pp' 0 = nth j pp 0) /\
  (forall p, In p ind -> Post pp (c / inject_Z (Z.of_nat (length ps))) pp' p).
Proof.
  intros IO ND SH GT H.
  pose proof (balance_uop_frame QNum 0 _ _ _ _ _ _ _ _ _ H IO) as (L & O).
  unfold balance_uop in H. rewrite IO in H. cbn [bind] in H.
  destruct (getmany _ ind) as [psums|] eqn:GP in H; cbn [bind] in H; [|discriminate].
  destruct (getmany pp ind) as [ip|] eqn:GM; cbn [bind] in H; [|discriminate].
  destruct (indices_of_resolve QNum _ _ _ IO) as (_ & LI).
  destruct (all_equal QNum psums).
  - inversion H; subst pp'. split; [reflexivity|]. split; [reflexivity|]. split; [reflexivity|].
    intros p Hp. right. split; [apply GT; exact Hp|]. unfold dcell. lra.
  - destruct (bloop QNum _ k idx _) as [s|] eqn:B in H; cbn [bind] in H; [|discriminate].
    inversion H as [[E1 E2]]. subst pp'. clear H.
    destruct (getmany_spec _ _ _ GM) as (NE & RG & V).
    assert (LP : length psums = length ind) by (apply getmany_length in GP; exact GP).
    set (sh := c / inject_Z (Z.of_nat (length ps))) in *.
    set (s0 := mkb pp ind ip _ psums 0%nat) in B.
    assert (I0 : MInv pp sh s0).
    { unfold MInv, s0. cbn [b_pp b_ind b_ip b_df b_ps]. split; [|split].
      - split; [|exact LP]. split; [exact ND|]. split; [exact NE|]. split; [|exact V].
        intros p Hp. split; [apply RG; exact Hp | apply GT; exact Hp].
      - split; [rewrite map_length; lia|]. intros j Hj. rewrite nth_map_const by lia.
        unfold dcell. cbn [ndiv nofZ QNum]. rewrite Qred_correct. fold sh. ring.
      - intros j Hj. rewrite nth_map_const by lia. cbn [ndiv nofZ QNum]. rewrite Qred_correct. exact SH. }
    destruct (bloop_minv pp sh k idx _ _ _ I0 B) as (_ & L' & S & P).
    split; [exact S|]. split; [exact L|]. split; [exact O|]. exact P.
Qed.

(* ================================================================ Part B: all micro-ops of one instruction *)
Definition qn (n : nat) : Q := inject_Z (Z.of_nat n).

Lemma qn_S n : qn (S n) == qn n + 1.
Proof. unfold qn. rewrite Nat2Z.inj_succ. unfold Z.succ. rewrite inject_Z_plus. reflexivity. Qed.

Lemma qn_add a b : qn (a + b) == qn a + qn b.
Proof. unfold qn. rewrite Nat2Z.inj_add, inject_Z_plus. reflexivity. Qed.

Lemma qn_nonneg n : 0 <= qn n.
Proof. unfold qn. change 0 with (inject_Z 0). rewrite <- Zle_Qle. lia. Qed.

Lemma sumn_minus n f g : sumn n (fun i => f i - g i) == sumn n f - sumn n g.
Proof. induction n as [|n IH]; simpl; [ring|]. rewrite IH. ring. Qed.

Lemma sumn_nonneg n f : (forall i, (i < n)%nat -> 0 <= f i) -> 0 <= sumn n f.
Proof.
  induction n as [|n IH]; intros H; simpl; [lra|].
  assert (0 <= sumn n f) by (apply IH; intros; apply H; lia). assert (0 <= f n) by (apply H; lia). lra.
Qed.

Lemma ushare_nonneg u p : 0 <= uc u -> 0 <= ushare u p.
Proof.
  intros H. unfold ushare. destruct (memb p (up u)) eqn:M; [|lra].
  apply memb_In in M. destruct (up u) as [|a l]; [destruct M|].
  apply Qle_shift_div_l; [|lra]. cbn [length]. rewrite Nat2Z.inj_succ. unfold Qlt. simpl. lia.
Qed.

Lemma uniform_cons u r p : uniform (u :: r) p == ushare u p + uniform r p.
Proof. unfold uniform. cbn [length]. rewrite sumn_shift. reflexivity. Qed.

Lemma uniform_nonneg l p : (forall u, In u l -> 0 <= uc u) -> 0 <= uniform l p.
Proof.
  induction l as [|u l IH]; intros H; [unfold uniform; simpl; lra|].
  rewrite uniform_cons. pose proof (ushare_nonneg u p (H u (or_introl eq_refl))).
  assert (0 <= uniform l p) by (apply IH; intros; apply H; right; assumption). lra.
Qed.

Lemma uniform_ge_member l p u : (forall x, In x l -> 0 <= uc x) -> In u l -> ushare u p <= uniform l p.
Proof.
  induction l as [|x l IH]; intros H I; [destruct I|].
  rewrite uniform_cons. destruct I as [E|I].
  - subst x. assert (0 <= uniform l p) by (apply uniform_nonneg; intros; apply H; right; assumption). lra.
  - pose proof (ushare_nonneg x p (H x (or_introl eq_refl))).
    assert (ushare u p <= uniform l p) by (apply IH; [intros; apply H; right; assumption | exact I]). lra.
Qed.

Lemma sumn_ushare P u :
  NoDup (up u) -> (forall p, In p (up u) -> (p < P)%nat) -> up u <> [] -> sumn P (ushare u) == uc u.
Proof.
  intros ND Hlt Hne. unfold ushare. rewrite sumn_indicator by assumption. field. apply length_pos_inj. exact Hne.
Qed.

(* the row as a sum of per-micro-op parts: finished micro-ops (done) have a part A i, the others (todo) their
   uniform share; P_p = sum of the finished parts at port p may be slightly negative (-1/200 per finished micro-op)
   as long as a multi-port micro-op still waits on p *)
Definition RInvA (P : nat) (done todo : list uopQ) (v : nat -> Q) (A : nat -> nat -> Q) : Prop :=
  (forall i p, (i < length done)%nat -> (p < P)%nat -> - (1 # 100) < A i p) /\
  (forall i p, (i < length done)%nat -> (p < P)%nat -> ~ In p (up (uget done i)) -> A i p == 0) /\
  (forall i, (i < length done)%nat -> sumn P (A i) == uc (uget done i)) /\
  (forall p, (p < P)%nat -> v p == sumn (length done) (fun i => A i p) + uniform todo p) /\
  (forall p, (p < P)%nat ->
     - (qn (length done) * (1 # 200)) <= sumn (length done) (fun i => A i p) \/
     (forall u, In u todo -> In p (up u) -> length (up u) = 1%nat)).

Definition RInv (P : nat) (done todo : list uopQ) (v : nat -> Q) : Prop := exists A, RInvA P done todo v A.

Lemma rinv_extend P done u rest v v' A (a : nat -> Q) :
  RInvA P done (u :: rest) v A ->
  (forall p, (p < P)%nat -> - (1 # 100) < a p) ->
  (forall p, (p < P)%nat -> ~ In p (up u) -> a p == 0) ->
  sumn P a == uc u ->
  (forall p, (p < P)%nat -> v' p == v p + a p - ushare u p) ->
  (forall p, (p < P)%nat -> In p (up u) ->
     - (1 # 200) <= a p \/ (forall u', In u' rest -> In p (up u') -> length (up u') = 1%nat)) ->
  RInvA P (done ++ [u]) rest v' (fun i p => if Nat.eqb i (length done) then a p else A i p).
Proof.
  intros (R1 & R2 & R3 & R4 & R5) A1 A2 A3 A4 A5.
  assert (LEN : length (done ++ [u]) = S (length done)) by (rewrite app_length; simpl; lia).
  assert (UG1 : forall i, (i < length done)%nat -> uget (done ++ [u]) i = uget done i)
    by (intros i Hi; unfold uget; apply app_nth1; exact Hi).
  assert (UG2 : uget (done ++ [u]) (length done) = u)
    by (unfold uget; rewrite app_nth2 by lia; rewrite Nat.sub_diag; reflexivity).
  assert (SUM : forall p, sumn (S (length done)) (fun i => if Nat.eqb i (length done) then a p else A i p)
                          == sumn (length done) (fun i => A i p) + a p).
  { intros p. cbn [sumn]. rewrite Nat.eqb_refl.
    rewrite (sumn_ext (length done) _ (fun i => A i p)); [reflexivity|].
    intros i Hi. assert (E : Nat.eqb i (length done) = false) by (apply Nat.eqb_neq; lia). rewrite E. reflexivity. }
  unfold RInvA. rewrite LEN. split; [|split; [|split; [|split]]].
  - intros i p Hi Hp. destruct (Nat.eqb i (length done)) eqn:E; [apply A1; exact Hp|].
    apply Nat.eqb_neq in E. apply R1; [lia | exact Hp].
  - intros i p Hi Hp Hn. destruct (Nat.eqb i (length done)) eqn:E.
    + apply Nat.eqb_eq in E. subst i. rewrite UG2 in Hn. apply A2; assumption.
    + apply Nat.eqb_neq in E. rewrite UG1 in Hn by lia. apply R2; [lia | exact Hp | exact Hn].
  - intros i Hi. destruct (Nat.eqb i (length done)) eqn:E.
    + apply Nat.eqb_eq in E. subst i. rewrite UG2. rewrite <- A3. apply sumn_ext. intros; reflexivity.
    + apply Nat.eqb_neq in E. rewrite UG1 by lia. rewrite <- (R3 i) by lia. apply sumn_ext. intros; reflexivity.
  - intros p Hp. rewrite SUM, (A4 p Hp), (R4 p Hp), uniform_cons. ring.
  - intros p Hp. rewrite SUM, qn_S.
    destruct (R5 p Hp) as [J|J].
    + destruct (in_dec Nat.eq_dec p (up u)) as [i|ni].
      * destruct (A5 p Hp i) as [B|B]; [left; lra | right; exact B].
      * left. rewrite (A2 p Hp ni). lra.
    + right. intros u' Hu'. apply J. right. exact Hu'.
Qed.

Lemma balance_uops_exact0_mono {T} (N : NumOps T) ports idx : forall us k pp ex pp' e,
  balance_uops N ports k idx pp us ex = Ok (pp', e) -> (ex <= e)%nat.
Proof.
  induction us as [|u us IH]; intros k pp ex pp' e H.
  - simpl in H. inversion H; subst. lia.
  - cbn [balance_uops] in H. destruct (balance_uop N ports k idx pp u) as [[pp1 e1]|]; cbn [bind] in H; [|discriminate].
    apply IH in H. lia.
Qed.

Lemma balance_uops_resolves {T} (N : NumOps T) ports idx : forall us k pp ex r,
  balance_uops N ports k idx pp us ex = Ok r ->
  forall c ps, In (c, ps) us -> exists ind, indices_of ports ps = Ok ind.
Proof.
  induction us as [|[c0 ps0] us IH]; intros k pp ex r H c ps I; [destruct I|].
  cbn [balance_uops] in H.
  destruct (balance_uop N ports k idx pp (c0, ps0)) as [[pp1 e1]|] eqn:B; cbn [bind] in H; [|discriminate].
  destruct I as [E|I].
  - inversion E; subst. unfold balance_uop in B. destruct (indices_of ports ps); [eauto | discriminate].
  - eapply IH; eassumption.
Qed.

Lemma balance_uops_rinv ports idx : forall todo k done pp ex pp' e,
  (forall u, In u todo -> wf_names ports u) ->
  (forall c ps, In (c, ps) todo -> (2 <= length ps)%nat ->
     qn (length done + length todo) * (1 # 200) < c / inject_Z (Z.of_nat (length ps))) ->
  length pp = length ports ->
  (forall p, 0 <= nth p pp 0) ->
  RInv (length ports) done (map (toU ports) todo) (qnth pp) ->
  balance_uops QNum ports k idx pp todo ex = Ok (pp', e) ->
  RInv (length ports) (done ++ map (toU ports) todo) [] (qnth pp') /\ length pp' = length pp /\
  (forall p, 0 <= nth p pp' 0).
Proof.
  induction todo as [|[c ps] rest IH]; intros k done pp ex pp' e WF SHR LP NN RI H.
  - simpl in H. inversion H; subst pp'. cbn [map]. rewrite app_nil_r. auto.
  - pose proof (balance_uops_resolves _ _ _ _ _ _ _ _ H) as RES.
    cbn [balance_uops] in H.
    destruct (balance_uop QNum ports k idx pp (c, ps)) as [[pp1 e1]|] eqn:B; cbn [bind] in H; [|discriminate].
    destruct (RES c ps (or_introl eq_refl)) as (ind & IO).
    destruct (indices_of_resolve QNum _ _ _ IO) as (RS & LI).
    destruct (WF (c, ps) (or_introl eq_refl)) as (Hc & ND & Hne). cbn [fst snd] in Hc, ND, Hne. rewrite RS in ND.
    set (u := toU ports (c, ps)) in *.
    assert (UP : up u = ind) by (unfold u, toU; cbn [up snd]; exact RS).
    assert (UC : uc u = c) by reflexivity.
    assert (RGI : forall p, In p ind -> (p < length ports)%nat) by (intros p Hp; rewrite <- RS in Hp; eapply resolve_lt; eassumption).
    assert (NEI : ind <> []) by (intros C; rewrite C in LI; destruct ps; [congruence | simpl in LI; lia]).
    assert (WFrest : forall x, In x (map (toU ports) rest) -> 0 <= uc x).
    { intros x Hx. apply in_map_iff in Hx. destruct Hx as (y & E & Hy). subst x.
      destruct (WF y (or_intror Hy)) as (Hy0 & _). exact Hy0. }
    destruct RI as (A & RA). cbn [map] in RA. fold u in RA.
    (* after the step: IH on done ++ [u] *)
    assert (STEP : forall a,
      RInvA (length ports) (done ++ [u]) (map (toU ports) rest) (qnth pp1)
            (fun i p => if Nat.eqb i (length done) then a p else A i p) ->
      length pp1 = length pp -> (forall p, 0 <= nth p pp1 0) ->
      RInv (length ports) (done ++ map (toU ports) ((c, ps) :: rest)) [] (qnth pp') /\ length pp' = length pp /\
      (forall p, 0 <= nth p pp' 0)).
    { intros a RA' L1 NN1.
      destruct (IH (set_pp k idx pp1) (done ++ [u]) pp1 (ex + e1)%nat pp' e) as (R' & L' & N'); try assumption.
      - intros x Hx. apply WF. right. exact Hx.
      - intros c' ps' I' L2. rewrite app_length. cbn [length].
        replace (length done + 1 + length rest)%nat with (length done + S (length rest))%nat by lia.
        apply SHR; [right; exact I' | exact L2].
      - congruence.
      - eexists. exact RA'.
      - split; [|split; [congruence | exact N']].
        cbn [map]. fold u. rewrite <- app_assoc in R'. exact R'. }
    destruct ps as [|q1 [|q2 ps']]; [congruence| |].
    + (* one port: nothing is balanced *)
      destruct (balance_uop_one_port _ _ _ _ _ _ _ _ _ B) as (E & _). subst pp1.
      apply (STEP (ushare u)); [|reflexivity | exact NN].
      apply (rinv_extend _ _ _ _ _ _ _ _ RA).
      * intros p _. pose proof (ushare_nonneg u p Hc). lra.
      * intros p _ Hn. unfold ushare. destruct (memb p (up u)) eqn:M; [apply memb_In in M; contradiction | reflexivity].
      * apply sumn_ushare; rewrite UP; assumption.
      * intros p _. ring.
      * intros p _ _. left. pose proof (ushare_nonneg u p Hc). lra.
    + (* two or more ports *)
      set (ps := q1 :: q2 :: ps') in *.
      assert (L2 : (2 <= length ps)%nat) by (unfold ps; simpl; lia).
      set (sh := c / inject_Z (Z.of_nat (length ps))) in *.
      pose proof (SHR c ps (or_introl eq_refl) L2) as SH0. fold sh in SH0.
      cbn [length] in SH0. rewrite qn_add, qn_S in SH0.
      pose proof (qn_nonneg (length rest)) as QR. pose proof (qn_nonneg (length done)) as QD.
      assert (USH : forall p, In p ind -> ushare u p == sh).
      { intros p Hp. unfold ushare. rewrite UP. apply memb_In in Hp. rewrite Hp. rewrite UC, LI. reflexivity. }
      assert (USH0 : forall p, ~ In p ind -> ushare u p == 0).
      { intros p Hp. unfold ushare. rewrite UP. destruct (memb p ind) eqn:M; [apply memb_In in M; contradiction | reflexivity]. }
      destruct RA as (R1 & R2 & R3 & R4 & R5).
      assert (PS : forall p, In p ind -> - (qn (length done) * (1 # 200)) <= sumn (length done) (fun i => A i p)).
      { intros p Hp. destruct (R5 p (RGI p Hp)) as [J|J]; [exact J|]. exfalso.
        assert (E : length (up u) = 1%nat) by (apply J; [left; reflexivity | rewrite UP; exact Hp]).
        rewrite UP, LI in E. lia. }
      assert (CELL : forall p, In p ind ->
                qnth pp p == sumn (length done) (fun i => A i p) + sh + uniform (map (toU ports) rest) p).
      { intros p Hp. rewrite (R4 p (RGI p Hp)), uniform_cons, (USH p Hp). ring. }
      assert (GT : forall p, In p ind -> 1 # 200 < nth p pp 0).
      { intros p Hp. pose proof (CELL p Hp) as C. unfold qnth in C. rewrite C.
        pose proof (PS p Hp). pose proof (uniform_nonneg (map (toU ports) rest) p WFrest). lra. }
      assert (SH1 : 1 # 200 < sh) by lra.
      destruct (balance_uop_multi _ _ _ _ _ _ _ _ _ IO ND SH1 GT B) as (S1 & L1 & O1 & PO). fold sh in PO.
      set (a := fun p => ushare u p + qnth pp1 p - qnth pp p).
      apply (STEP a); [|exact L1|].
      * apply (rinv_extend _ _ _ _ _ _ _ _ (conj R1 (conj R2 (conj R3 (conj R4 R5))))).
        -- intros p Hp. unfold a, qnth. destruct (in_dec Nat.eq_dec p ind) as [i|ni].
           ++ rewrite (USH p i). destruct (PO p i) as [(Z1 & Z2)|(Z1 & Z2)]; [rewrite Z1; lra | unfold dcell in Z2; lra].
           ++ rewrite (USH0 p ni), (O1 p ni). lra.
        -- intros p Hp Hn. rewrite UP in Hn. unfold a, qnth. rewrite (USH0 p Hn), (O1 p Hn). ring.
        -- unfold a. rewrite sumn_minus, sumn_plus.
           rewrite (sumn_ushare (length ports) u) by (rewrite UP; assumption).
           assert (E : sumn (length ports) (qnth pp1) == sumn (length ports) (qnth pp)).
           { rewrite <- LP at 2. replace (length ports) with (length pp1) by congruence.
             rewrite <- !lsum_sumn. exact S1. }
           rewrite E, UC. ring.
        -- intros p _. unfold a. ring.
        -- intros p Hp Hi. rewrite UP in Hi. unfold a, qnth. rewrite (USH p Hi).
           destruct (PO p Hi) as [(Z1 & Z2)|(Z1 & Z2)]; [|left; unfold dcell in Z2; lra].
           right. intros u' Hu' Hp'.
           apply in_map_iff in Hu'. destruct Hu' as ([c' qs] & E & Hy). subst u'.
           destruct (WF (c', qs) (or_intror Hy)) as (Hc' & ND' & Hne'). cbn [fst snd] in Hc', ND', Hne'.
           destruct (RES c' qs (or_intror Hy)) as (ind' & IO').
           destruct (indices_of_resolve QNum _ _ _ IO') as (RS' & LI').
           unfold toU in *. cbn [up uc fst snd] in *. rewrite RS' in *.
           destruct (Nat.eq_dec (length ind') 1) as [e1x|n]; [exact e1x|]. exfalso.
           assert (L2' : (2 <= length qs)%nat).
           { destruct qs as [|? [|? ?]]; [congruence | simpl in LI'; lia | simpl; lia]. }
           pose proof (SHR c' qs (or_intror Hy) L2') as SH'.
           destruct rest as [|r0 rest']; [destruct Hy|].
           cbn [length] in SH'. rewrite qn_add, !qn_S in SH'.
           pose proof (qn_nonneg (length rest')) as QR'.
           assert (GE : c' / inject_Z (Z.of_nat (length qs)) <= uniform (map (fun x => mkU (fst x) (resolve ports (snd x))) (r0 :: rest')) p).
           { assert (U' : ushare (mkU c' ind') p == c' / inject_Z (Z.of_nat (length qs))).
             { unfold ushare. cbn [up uc]. apply memb_In in Hp'. rewrite Hp', LI'. reflexivity. }
             rewrite <- U'. apply uniform_ge_member; [exact WFrest|].
             apply in_map_iff. exists (c', qs). split; [cbn [fst snd]; rewrite RS'; reflexivity | exact Hy]. }
           pose proof (CELL p Hi) as C. unfold qnth in C. pose proof (PS p Hi) as H0.
           set (U := uniform _ p) in C. change (c' / inject_Z (Z.of_nat (length qs)) <= U) in GE.
           clearbody U. lra.
      * intros p. destruct (in_dec Nat.eq_dec p ind) as [i|ni]; [|rewrite (O1 p ni); apply NN].
        destruct (PO p i) as [(Z1 & _)|(Z1 & _)]; lra.
Qed.

(* ================================================================ the instruction-level statement *)
Lemma feasible_mono P eps eps' us v : eps <= eps' -> Feasible P eps us v -> Feasible P eps' us v.
Proof.
  intros He (sh & A & B & C & D). exists sh. split; [|split; [|split]]; try assumption.
  intros u p Hu Hp. specialize (A u p Hu Hp). lra.
Qed.

Lemma uniform_nil p : uniform [] p == 0.
Proof. unfold uniform. simpl. reflexivity. Qed.

Lemma rinv_feasible P us v : RInv P us [] v -> Feasible P (1 # 100) us v.
Proof.
  intros (A & R1 & R2 & R3 & R4 & _). exists A. split; [|split; [|split]].
  - intros u p Hu Hp. specialize (R1 u p Hu Hp). lra.
  - exact R2.
  - exact R3.
  - intros p Hp. rewrite (R4 p Hp), uniform_nil. ring.
Qed.

Lemma rinv_start P us v : (forall p, (p < P)%nat -> v p == uniform us p) -> RInv P [] us v.
Proof.
  intros H. exists (fun _ _ => 0). split; [|split; [|split; [|split]]].
  - intros i p Hi. simpl in Hi. lia.
  - intros i p Hi. simpl in Hi. lia.
  - intros i Hi. simpl in Hi. lia.
  - intros p Hp. rewrite (H p Hp). simpl. ring.
  - intros p Hp. left. cbn [length sumn]. change (qn 0) with 0. lra.
Qed.

(* ---- the hypotheses as booleans ---- *)
Fixpoint nodupb (l : list nat) : bool :=
  match l with [] => true | x :: r => negb (memb x r) && nodupb r end.

Lemma nodupb_NoDup l : nodupb l = true -> NoDup l.
Proof.
  induction l as [|x l IH]; intros H; [constructor|].
  cbn [nodupb] in H. apply andb_true_iff in H. destruct H as (H1 & H2). constructor.
  - intros C. apply memb_In in C. rewrite C in H1. discriminate.
  - apply IH. exact H2.
Qed.

(* one micro-op of an instruction with m micro-ops: cycles >= 0, at least one port, resolved ports pairwise
   different, and -- if it has two or more ports, i.e. if it is balanced at all -- uniform share > m/200 *)
Definition uop_okb (ports : list string) (m : nat) (u : uop (T:=Q)) : bool :=
  Qle_bool 0 (fst u) && nodupb (resolve ports (snd u)) && negb (Nat.eqb (length (snd u)) 0) &&
  ((length (snd u) <? 2)%nat ||
   negb (Qle_bool (fst u / inject_Z (Z.of_nat (length (snd u)))) (qn m * (1 # 200)))).

Definition instr_okb (ports : list string) (us : list (uop (T:=Q))) : bool :=
  forallb (uop_okb ports (length us)) us.

Lemma uop_okb_spec ports m u :
  uop_okb ports m u = true ->
  wf_names ports u /\
  ((2 <= length (snd u))%nat -> qn m * (1 # 200) < fst u / inject_Z (Z.of_nat (length (snd u)))).
Proof.
  unfold uop_okb. intros H.
  apply andb_true_iff in H. destruct H as (H & H4).
  apply andb_true_iff in H. destruct H as (H & H3).
  apply andb_true_iff in H. destruct H as (H1 & H2).
  split.
  - split; [apply Qle_bool_iff; exact H1|]. split; [apply nodupb_NoDup; exact H2|].
    intros C. rewrite C in H3. discriminate.
  - intros L. apply orb_true_iff in H4. destruct H4 as [H4|H4].
    + apply Nat.ltb_lt in H4. lia.
    + apply Qnot_le_lt. intros C. apply Qle_bool_iff in C. rewrite C in H4. discriminate.
Qed.

(* After balancing ALL micro-ops of ONE instruction (balance_uops), in ANY kernel context k / position idx, starting
   from a row that is the uniform split of its micro-ops: if the run returns Ok -- whatever the exact-zero counter
   says: the repaired rule 1 keeps `differences` aligned with `indices` in the `== 0.0` branch too -- the row is a
   feasible split of the instruction's micro-ops with slack 1/100 per (micro-op, port), every cell is >= 0 and the row
   keeps its length. *)
Theorem balance_instr_feasible_gen ports k idx us pp ex pp' e :
  instr_okb ports us = true ->
  length pp = length ports ->
  (forall p, (p < length ports)%nat -> qnth pp p == uniform (map (toU ports) us) p) ->
  balance_uops QNum ports k idx pp us ex = Ok (pp', e) ->
  Feasible (length ports) (1 # 100) (map (toU ports) us) (qnth pp') /\
  length pp' = length ports /\ (forall p, 0 <= nth p pp' 0).
Proof.
  intros OK LP UN H.
  assert (SPEC : forall u, In u us -> wf_names ports u /\
            ((2 <= length (snd u))%nat -> qn (length us) * (1 # 200) < fst u / inject_Z (Z.of_nat (length (snd u))))).
  { intros u Hu. apply uop_okb_spec. unfold instr_okb in OK. rewrite forallb_forall in OK. apply OK. exact Hu. }
  assert (WF : forall u, In u us -> wf_names ports u) by (intros u Hu; apply SPEC; exact Hu).
  assert (NN : forall p, 0 <= nth p pp 0).
  { intros p. destruct (Nat.lt_ge_cases p (length pp)) as [L|L].
    - rewrite LP in L. pose proof (UN p L) as E. unfold qnth in E. rewrite E.
      apply uniform_nonneg. intros x Hx. apply in_map_iff in Hx. destruct Hx as (y & E' & Hy). subst x.
      destruct (WF y Hy) as (Hy0 & _). exact Hy0.
    - rewrite nth_overflow by exact L. lra. }
  destruct (balance_uops_rinv ports idx us k [] pp ex pp' e WF) as (R & L & N).
  - intros c ps I L2. cbn [length Nat.add]. exact (proj2 (SPEC (c, ps) I) L2).
  - exact LP.
  - exact NN.
  - apply rinv_start. exact UN.
  - exact H.
  - cbn [app] in R. split; [apply rinv_feasible; exact R|]. split; [congruence | exact N].
Qed.

(* the same from the model's average_port_pressure *)
Theorem balance_instr_feasible ports k idx us pp ex pp' e :
  instr_okb ports us = true ->
  avg_pressure_list QNum ports us = Ok pp ->
  balance_uops QNum ports k idx pp us ex = Ok (pp', e) ->
  Feasible (length ports) (1 # 100) (map (toU ports) us) (qnth pp') /\
  length pp' = length ports /\ (forall p, 0 <= nth p pp' 0).
Proof.
  intros OK AV H.
  assert (WF : forall u, In u us -> wf_names ports u).
  { intros u Hu. apply (uop_okb_spec ports (length us)). unfold instr_okb in OK. rewrite forallb_forall in OK. apply OK. exact Hu. }
  destruct (avg_pressure_is_uniform _ _ _ AV WF) as (L & V).
  apply (balance_instr_feasible_gen ports k idx us pp ex pp' e OK L (fun p _ => V p) H).
Qed.

(* ... hence (consequences of Feasible, Proofs/Feasible.v): non-negative, supported on admissible ports, total exact,
   Hall's condition for EVERY port set within 1/100 per (micro-op not confined to the set, port of the set) *)
Theorem balance_instr_consequences ports k idx us pp ex pp' e :
  instr_okb ports us = true ->
  avg_pressure_list QNum ports us = Ok pp ->
  balance_uops QNum ports k idx pp us ex = Ok (pp', e) ->
  (forall p, 0 <= qnth pp' p) /\
  (forall p, (p < length ports)%nat ->
     (forall u, (u < length us)%nat -> ~ In p (up (uget (map (toU ports) us) u))) -> qnth pp' p == 0) /\
  sumn (length ports) (qnth pp') == sumn (length us) (fun u => uc (uget (map (toU ports) us) u)) /\
  (forall S, confined_cycles S (map (toU ports) us) - (1 # 100) * card (length ports) S * nonconfined S (map (toU ports) us)
             <= load (length ports) S (qnth pp')).
Proof.
  intros OK AV H. destruct (balance_instr_feasible ports k idx us pp ex pp' e OK AV H) as (F & L & N).
  split; [exact N|]. split; [|split].
  - intros p Hp Hno. apply (feasible_support _ _ _ _ F p Hp). rewrite map_length. exact Hno.
  - rewrite (feasible_total _ _ _ _ F). rewrite map_length. reflexivity.
  - intros S. apply feasible_hall; [lra | exact F].
Qed.

(* ---- non-vacuity: 3 ports, 3 micro-ops (two of them on two ports), a second instruction loading port 0 ---- *)
Definition exm_ports : list string := ["0"; "1"; "2"]%string.
Definition exm_uops : list (uop (T:=Q)) :=
  [(1, ["0"; "1"]%string); (1 # 2, ["1"; "2"]%string); (1 # 4, ["2"]%string)].
Definition exm_kernel : list (instr (T:=Q)) :=
  [mkinstr 1 [1 # 2; 3 # 4; 1 # 2] (UList exm_uops); mkinstr 1 [3 # 10; 0; 0] (UList [(3 # 10, ["0"]%string)])].

Example balance_instr_nonvacuous :
  instr_okb exm_ports exm_uops = true /\
  avg_pressure_list QNum exm_ports exm_uops = Ok [1 # 2; 3 # 4; 1 # 2] /\
  balance_uops QNum exm_ports exm_kernel 0 [1 # 2; 3 # 4; 1 # 2] exm_uops 0 = Ok ([12 # 25; 63 # 100; 16 # 25], 0%nat).
Proof. split; [|split]; vm_compute; reflexivity. Qed.
