(* C09/C10 -- base_parser.parse_file behind the translator (tools/gen_parsepost.py): generic facts, independent of the
   generated text.  A translated parse_file is a py_for over enumerate(content.split("\n")) whose body, on the item
   (i, text) and the accumulated list, either skips a blank line or appends parse_line(text, i + 1 + start).  Any
   loop body with that pointwise behaviour computes exactly the hand model's `file_lines` (Model/ParseFileA64.v):
   the non-blank lines, verbatim, numbered position + 1 + start, in order; the first exception of a line is the
   exception of the file.  The property files (PropsGen/C10post2.v, C09post.v) show the pointwise behaviour of the
   REGENERATED body by evaluation and conclude with `parse_file_generic`. *)
From Coq Require Import String Ascii List Bool ZArith NArith Lia.
From OV Require Import Model.PyString Model.PyDyn Model.PyPost Model.LexA64 Model.ParseA64 Model.ParseFileA64.
From OV Require Import Proofs.PyDyn Proofs.PyPost.
Import ListNotations.
Open Scope string_scope.

(* the forms of the numbered lines, in order; the first line that raises decides *)
Fixpoint collect (pl : pyval -> pyval -> res pyval) (ls : list (nat * string)) : res (list pyval) :=
  match ls with
  | [] => Ok []
  | (n, t) :: r => bind (pl (PStr t) (PInt (Z.of_nat n))) (fun v => bind (collect pl r) (fun vs => Ok (v :: vs)))
  end.

(* ------------------------------------------------------------------ split, strip *)
Lemma split_char_nl : forall s, split_char "010"%char s = split_nl s.
Proof. induction s as [|c r IH]; simpl; auto. rewrite IH. reflexivity. Qed.

Lemma py_space_same : forall c, PyPost.py_space c = ParseFileA64.py_space c.
Proof. allch. Qed.

Lemma lstrip_blank : forall s, blank s = true -> lstrip s = "".
Proof.
  induction s as [|c r IH]; simpl; auto. intros H. apply andb_true_iff in H. destruct H as [A B].
  rewrite py_space_same, A. auto.
Qed.
Lemma rstrip_head : forall c r, PyPost.py_space c = false -> rstrip (String c r) <> "".
Proof. intros c r H. simpl. destruct (rstrip r); [rewrite H|]; discriminate. Qed.
Lemma lstrip_nonblank : forall s, blank s = false -> exists c r, lstrip s = String c r /\ PyPost.py_space c = false.
Proof.
  induction s as [|c r IH]; simpl; [discriminate|]. intros H. rewrite py_space_same.
  destruct (ParseFileA64.py_space c) eqn:E.
  - unfold blank in H. simpl in H. rewrite E in H. apply IH. exact H.
  - exists c, r. split; [reflexivity|]. rewrite py_space_same. exact E.
Qed.
(* line.strip() == "" is the hand model's `blank` *)
Lemma strip_blank : forall s, String.eqb (rstrip (lstrip s)) "" = blank s.
Proof.
  intros s. destruct (blank s) eqn:B.
  - rewrite (lstrip_blank s B). reflexivity.
  - destruct (lstrip_nonblank s B) as (c & r & E & P). rewrite E. apply String.eqb_neq. apply rstrip_head. exact P.
Qed.

(* ------------------------------------------------------------------ the loop *)
Definition line_body (pl : pyval -> pyval -> res pyval) (start : Z) (body : pyval -> pyval -> res (ctl pyval)) : Prop :=
  forall i t acc,
    body (PList [PInt i; PStr t]) (PList acc) =
    if blank t then Ok (Next (PList acc))
    else bind (pl (PStr t) (PInt (i + 1 + start))) (fun v => Ok (Next (PList (acc ++ [v])%list))).

Definition lines_from (i : nat) (ls : list string) (start : nat) : list (nat * string) :=
  map (fun p => (fst p + 1 + start, snd p)) (filter (fun p => negb (blank (snd p))) (combine (seq i (length ls)) ls)).

Lemma for_lines : forall pl start body, line_body pl (Z.of_nat start) body -> forall ls i acc,
  py_for (enum_from (Z.of_nat i) (map PStr ls)) body (PList acc) =
  bind (collect pl (lines_from i ls start)) (fun vs => Ok (Next (PList (acc ++ vs)%list))).
Proof.
  intros pl start body HB. induction ls as [|t r IH]; intros i acc.
  - simpl. rewrite app_nil_r. reflexivity.
  - cbn [map enum_from py_for]. rewrite HB. unfold lines_from. cbn [length seq combine filter snd].
    assert (IH' : forall acc, py_for (enum_from (Z.of_nat i + 1) (map PStr r)) body (PList acc) =
                  bind (collect pl (lines_from (S i) r start)) (fun vs => Ok (Next (PList (acc ++ vs)%list)))).
    { intros a. rewrite <- (IH (S i) a). f_equal. f_equal. lia. }
    destruct (blank t) eqn:B; cbn [negb bind].
    + apply IH'.
    + cbn [map fst snd collect]. replace (Z.of_nat (i + 1 + start)) with (Z.of_nat i + 1 + Z.of_nat start)%Z by lia.
      destruct (pl (PStr t) (PInt (Z.of_nat i + 1 + Z.of_nat start))) as [v|e]; cbn [bind]; [|reflexivity].
      rewrite IH'. fold (lines_from (S i) r start). destruct (collect pl (lines_from (S i) r start)) as [vs|e]; cbn [bind]; [|reflexivity].
      rewrite <- app_assoc. reflexivity.
Qed.

Lemma lines_from_file : forall content start, lines_from 0 (split_nl content) start = file_lines content start.
Proof. reflexivity. Qed.

(* enumerate(content.split("\n")) under a loop body of the shape above = file_lines *)
Lemma parse_file_generic : forall pl body content start,
  line_body pl (Z.of_nat start) body ->
  py_for (enum_from 0 (map PStr (split_char "010"%char content))) body (PList []) =
  bind (collect pl (file_lines content start)) (fun vs => Ok (Next (PList vs))).
Proof.
  intros pl body content start HB. rewrite split_char_nl. change 0%Z with (Z.of_nat 0). rewrite (for_lines pl start body HB (split_nl content) 0 []).
  rewrite lines_from_file. reflexivity.
Qed.

(* the numbers and texts of the result are those of file_lines (for reading the theorem) *)
Lemma collect_length : forall pl ls vs, collect pl ls = Ok vs -> length vs = length ls.
Proof.
  intros pl. induction ls as [|[n t] r IH]; intros vs H; simpl in H.
  - inversion H. reflexivity.
  - destruct (pl (PStr t) (PInt (Z.of_nat n))) as [v|e]; [|discriminate]. simpl in H.
    destruct (collect pl r) as [ws|e] eqn:E; [|discriminate]. simpl in H. inversion H. simpl. rewrite (IH ws eq_refl). reflexivity.
Qed.
