(* Facts about the prelude of Model/RolesDyn.v used by PropsGen/C03dg.v / C03roles.v (nothing here depends on generated text),
   and the relation between the graph `dg_build` (Model/DgSpec.v) and the edge list `create_dg` of Model/Deps.v. *)
From Coq Require Import ZArith List Bool String Lia.
From OV Require Import Model.Num Model.PyLcd Model.Deps Model.RolesDyn Model.DgSpec Proofs.CritMax.
Import ListNotations.
Open Scope string_scope. Open Scope list_scope.

Section Facts.
  Context {T : Type}.
  Notation pv := (pv T).

  (* ---- loops ---- *)
  (* a loop whose body neither breaks nor returns and hands the unvisited items back unchanged *)
  Lemma loop_fold {A St S R} (g : A -> pv) (E : St -> S) (F : St -> A -> St) (body : pv -> list pv -> S -> dres (ctl (list pv * S) R)) :
    (forall x r st, body (g x) r (E st) = DOk (CNext (r, E (F st x)))) ->
    forall l st, py_loop (map g l) (E st) body = DOk (inl (E (fold_left F l st))).
  Proof.
    intros H. unfold py_loop. induction l as [|x l IH]; intros st; [reflexivity|].
    cbn [map List.length py_loop_n fold_left]. rewrite H. cbn [dbind]. apply IH.
  Qed.

  (* the same with the position of the item in the list available to the step (enumerate, slices of the iterated list) *)
  Lemma loop_fold_pos {A St S R} (g : nat -> A -> pv) (E : St -> S) (F : St -> nat -> A -> list A -> St)
        (body : pv -> list pv -> S -> dres (ctl (list pv * S) R)) (all : list A) :
    (forall pre x post r st, all = pre ++ x :: post ->
        body (g (List.length pre) x) r (E st) = DOk (CNext (r, E (F st (List.length pre) x post)))) ->
    forall cur pre st, all = pre ++ cur ->
      py_loop_n (List.length cur) (map (fun p => g (fst p) (snd p)) (combine (seq (List.length pre) (List.length cur)) cur)) (E st) body
      = DOk (inl (E ((fix go (st : St) (i : nat) (c : list A) : St :=
                        match c with [] => st | x :: r => go (F st i x r) (Datatypes.S i) r end) st (List.length pre) cur))).
  Proof.
    intros H. induction cur as [|x cur IH]; intros pre st E0; [reflexivity|].
    cbn [List.length seq combine map py_loop_n fst snd]. rewrite (H pre x cur _ st E0). cbn [dbind].
    specialize (IH (pre ++ [x]) (F st (List.length pre) x cur)).
    rewrite app_length in IH. cbn [List.length] in IH. rewrite Nat.add_1_r in IH. apply IH.
    rewrite <- app_assoc. exact E0.
  Qed.

  (* ---- membership of a str in a list of strs ---- *)
  Lemma py_in_strs (x : string) (l : list string) : py_in (VStr x) (VList (map VStr l) : pv) = DOk (existsb (String.eqb x) l).
  Proof.
    cbn [py_in]. induction l as [|y l IH]; [reflexivity|]. cbn [map existsb py_eq dbind].
    destruct (String.eqb x y); [reflexivity | exact IH].
  Qed.

  (* ---- slices ---- *)
  Lemma slice_tail {A} (l : list A) (i : nat) : (i <= List.length l)%nat ->
    slice_list l (Z.to_nat (Z.min (Z.of_nat i) (Z.of_nat (List.length l)))) (List.length l) = skipn i l.
  Proof.
    intros H. unfold slice_list. rewrite Z.min_l by lia. rewrite Nat2Z.id.
    rewrite <- (skipn_length i l). apply firstn_all.
  Qed.
  Lemma py_slice_tail (l : list pv) (i : nat) : (i <= List.length l)%nat ->
    py_slice (VList l) (VInt (Z.of_nat i)) VNone = DOk (VList (skipn i l)).
  Proof.
    intros H. cbn [py_slice norm_bound dbind].
    replace (Z.of_nat i <? 0)%Z with false by (symmetry; apply Z.ltb_ge; lia).
    rewrite slice_tail by exact H. reflexivity.
  Qed.

  (* ---- graph container ---- *)
  Lemma node_present (g : nxg T) (n : node) : In n (nx_nodes g) -> existsb (node_eqb n) (nx_nodes g) = true.
  Proof.
    intros H. apply existsb_exists. exists n. split; [exact H|]. destruct n; cbn; apply Z.eqb_refl.
  Qed.
  Lemma nx_set_edge_nodes (g : nxg T) u v w : nx_nodes (nx_set_edge g u v w) = nx_nodes g.
  Proof.
    unfold nx_nodes. induction g as [|[m a] g IH]; [reflexivity|]. cbn [nx_set_edge].
    destruct (node_eqb m u); cbn [map fst]; [reflexivity | rewrite IH; reflexivity].
  Qed.
  Lemma nx_add_edge_has_target (g : nxg T) u v w : In v (nx_nodes (nx_add_edge g u v w)).
  Proof. unfold nx_add_edge. rewrite nx_set_edge_nodes. apply nx_add_node_in. Qed.
  Lemma nx_add_edge_has_source (g : nxg T) u v w : In u (nx_nodes (nx_add_edge g u v w)).
  Proof. unfold nx_add_edge. rewrite nx_set_edge_nodes. apply nx_add_node_keeps. apply nx_add_node_in. Qed.
End Facts.
