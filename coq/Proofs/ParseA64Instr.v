(* C10 -- token-level parser lemma for whole lines and the round-trip theorem
     parse_line (render lay trail l) = Parsed (denote l). *)
From Coq Require Import String Ascii List Bool Arith NArith ZArith Lia.
From OV Require Import Model.LexA64 Model.ParseA64 Model.SyntaxA64.
From OV Require Import Proofs.ParseA64Round Proofs.ParseA64Regs Proofs.ParseA64Ops Proofs.ParseA64Lex.
Import ListNotations.
Open Scope string_scope.

Local Arguments classify : simpl never.
Local Arguments has_shift_prefix : simpl never.
Local Arguments reg_word : simpl never.
Local Arguments num_word : simpl never.
Local Arguments float_word : simpl never.
Local Arguments p_operand : simpl never.
Local Arguments toks_wop : simpl never.
Local Arguments den_wop : simpl never.

(* ---------------------------------------------------------------- one operand, any kind *)
Definition first_ok1 (first : bool) (o : wop) : bool :=
  if first then match o with WCond _ => false | WIdent _ w => negb (prefetch_word w) | _ => true end else true.

Lemma op_wop : forall fx o first rest,
  wop_okb fx o = true -> first_ok1 first o = true ->
  (if is_mem o then ends rest else safe fx rest) ->
  p_operand fx first (toks_wop o ++ rest)%list = OpGot (den_wop o) rest.
Proof.
  intros fx o first rest Hok Hf Hr. destruct o as [r|els i|a b i|h n|h f|h w|w|b t c]; cbn [is_mem] in Hr.
  - apply op_wregop; assumption.
  - unfold wop_okb in Hok. apply andb_true_iff in Hok. destruct Hok as [H1 Hok]. apply andb_true_iff in Hok.
    destruct Hok as [H2 H3]. apply op_list; assumption.
  - unfold wop_okb in Hok. apply andb_true_iff in Hok. destruct Hok as [H1 Hok]. apply andb_true_iff in Hok.
    destruct Hok as [H2 H3]. apply op_range; assumption.
  - apply (op_int fx h n first rest Hok Hr).
  - apply op_flt; assumption.
  - assert (E : (toks_wop (WIdent h w) ++ rest)%list = (hash_toks h ++ TW w :: rest)%list) by (destruct h; reflexivity).
    rewrite E.
    assert (Hp : first = true -> prefetch_word w = false).
    { intros ->. simpl in Hf. apply negb_true_iff in Hf. exact Hf. }
    exact (op_ident fx h w first rest Hok Hp Hr).
  - destruct first; [discriminate|]. apply (op_cond fx w rest Hok Hr).
  - unfold wop_okb in Hok. apply andb_true_iff in Hok. destruct Hok as [H1 Hok]. apply andb_true_iff in Hok.
    destruct Hok as [H2 H3]. apply op_mem; try assumption; destruct t; exact H2.
Qed.

Lemma float_word_head : forall f, wfloat_okb f = true ->
  head_is (fun c => orb (is_digit c) (ceq c "-")) (float_word f) = true.
Proof.
  intros [neg ip fp ex suf] H. unfold wfloat_okb in H. cbn [f_int] in H. apply andb_true_iff in H. destruct H as [Hip _].
  unfold float_word, float_mant. cbn [f_neg f_int f_frac]. destruct neg; [reflexivity|].
  destruct (digits_head ip Hip) as [Hh _]. destruct ip; [discriminate|]. exact Hh.
Qed.

(* the next operand does not start with a word spelled like a shift operator *)
Lemma safe_next : forall fx o rest, wop_okb fx o = true -> shiftlike fx o = false ->
  safe fx (TP "," :: toks_wop o ++ rest)%list.
Proof.
  intros fx o rest Hok Hs. destruct o as [r|els i|a b i|h n|h f|h w|w|b t c]; unfold toks_wop.
  - destruct r as [r|r i|r m|w|w]; cbn [wop_okb wregop_okb] in Hok; simpl.
    + apply safe_w. apply reg_no_shift. exact Hok.
    + apply andb_true_iff in Hok. destruct Hok as [Hok _]. apply safe_w. apply reg_no_shift. exact Hok.
    + apply andb_true_iff in Hok. destruct Hok as [Hok _]. apply safe_w. apply reg_no_shift. exact Hok.
    + pose proof (sp_facts w Hok) as F. unfold sp_fact in F. apply andb_true_iff in F. destruct F as [_ F].
      apply andb_true_iff in F. destruct F as [F _]. apply negb_true_iff in F. apply safe_w. apply hsp_mono. exact F.
    + pose proof (zr_facts w Hok) as F. unfold zr_fact in F. apply andb_true_iff in F. destruct F as [_ F].
      apply negb_true_iff in F. apply safe_w. apply hsp_mono. exact F.
  - simpl. apply safe_p.
  - simpl. apply safe_p.
  - destruct h; unfold num_toks, hash_toks; simpl; [apply safe_p|].
    apply safe_w. apply numhead_no_shift. apply num_word_head. exact Hok.
  - destruct h; unfold hash_toks; simpl; [apply safe_p|].
    apply safe_w. apply numhead_no_shift. apply float_word_head. exact Hok.
  - destruct h; unfold hash_toks; simpl; [apply safe_p|]. apply safe_w. exact Hs.
  - simpl. apply safe_w. exact Hs.
  - simpl. apply safe_p.
Qed.

(* ---------------------------------------------------------------- the operand slots *)
Lemma ops_toks_cons2 : forall o o2 r, ops_toks (o :: o2 :: r) = (toks_wop o ++ TP "," :: ops_toks (o2 :: r))%list.
Proof. reflexivity. Qed.
Lemma ops_toks_head : forall o r, exists X, ops_toks (o :: r) = (toks_wop o ++ X)%list.
Proof.
  intros o r. destruct r as [|o2 r'].
  - exists []. simpl. rewrite app_nil_r. reflexivity.
  - eexists. apply ops_toks_cons2.
Qed.

Lemma p_operand_end : forall fx first ct, ends ct -> p_operand fx first ct = OpAbsent /\ skip_comma ct = ct.
Proof. intros fx first ct [->|[raw ->]]; split; reflexivity. Qed.

Lemma p_slots_S : forall fx n first ts acc,
  p_slots fx (S n) first ts acc =
  match p_operand fx first ts with
  | OpUnm => None
  | OpAbsent => match n with O => Some (acc, ts) | _ => p_slots fx n false (skip_comma ts) acc end
  | OpGot ops rest => match n with O => Some ((acc ++ ops)%list, rest) | _ => p_slots fx n false (skip_comma rest) ((acc ++ ops)%list) end
  end.
Proof. reflexivity. Qed.

Lemma slots_ok : forall fx n ops first acc ct,
  length ops <= n -> ends ct -> forallb (wop_okb fx) ops = true -> order_okb ops = true ->
  noswallow_okb fx ops = true -> (first = true -> first_okb ops = true) ->
  p_slots fx n first (ops_toks ops ++ ct)%list acc = Some ((acc ++ flat_map den_wop ops)%list, ct).
Proof.
  intros fx. induction n as [|n IH]; intros ops first acc ct Hlen Hct Hok Hord Hns Hfirst.
  - destruct ops; [|simpl in Hlen; lia]. simpl. rewrite app_nil_r. reflexivity.
  - destruct ops as [|o ops'].
    + simpl ops_toks. simpl app. simpl flat_map. rewrite app_nil_r.
      destruct (p_operand_end fx first ct Hct) as [E1 E2].
      rewrite p_slots_S. rewrite E1. destruct n as [|n']; [reflexivity|]. rewrite E2.
      specialize (IH [] false acc ct ltac:(simpl; lia) Hct eq_refl eq_refl eq_refl ltac:(discriminate)).
      simpl ops_toks in IH. simpl app in IH. simpl flat_map in IH. rewrite app_nil_r in IH. exact IH.
    + simpl in Hok. apply andb_true_iff in Hok. destruct Hok as [Ho Hok'].
      assert (Hf1 : first_ok1 first o = true).
      { unfold first_ok1. destruct first; [|reflexivity]. specialize (Hfirst eq_refl). unfold first_okb in Hfirst.
        destruct o; auto. }
      destruct ops' as [|o2 r].
      * (* last operand *)
        simpl ops_toks. simpl flat_map. rewrite app_nil_r.
        assert (Hr : if is_mem o then ends ct else safe fx ct) by (destruct (is_mem o); [exact Hct|apply ends_safe; exact Hct]).
        rewrite p_slots_S. rewrite (op_wop fx o first ct Ho Hf1 Hr).
        destruct n as [|n']; [reflexivity|].
        destruct (p_operand_end fx false ct Hct) as [_ E2]. rewrite E2.
        specialize (IH [] false (acc ++ den_wop o)%list ct ltac:(simpl; lia) Hct eq_refl eq_refl eq_refl ltac:(discriminate)).
        simpl ops_toks in IH. simpl app in IH. simpl flat_map in IH. rewrite app_nil_r in IH. exact IH.
      * (* an operand followed by another one *)
        rewrite ops_toks_cons2. rewrite <- app_assoc.
        change ((TP "," :: ops_toks (o2 :: r)) ++ ct)%list with (TP "," :: ops_toks (o2 :: r) ++ ct)%list.
        cbn [order_okb] in Hord. apply andb_true_iff in Hord. destruct Hord as [Hnm Hord'].
        apply negb_true_iff in Hnm.
        cbn [noswallow_okb] in Hns. apply andb_true_iff in Hns. destruct Hns as [Hsw Hns'].
        assert (Hsl : shiftlike fx o2 = false).
        { apply negb_true_iff in Hsw. unfold swallows_shift in Hsw. rewrite Hnm in Hsw. simpl in Hsw. exact Hsw. }
        assert (Ho2 : wop_okb fx o2 = true) by (simpl in Hok'; apply andb_true_iff in Hok'; tauto).
        assert (Hr : if is_mem o then ends (TP "," :: ops_toks (o2 :: r) ++ ct)%list
                     else safe fx (TP "," :: ops_toks (o2 :: r) ++ ct)%list).
        { rewrite Hnm. destruct (ops_toks_head o2 r) as [X EX]. rewrite EX, <- app_assoc.
          apply safe_next; assumption. }
        rewrite p_slots_S. rewrite (op_wop fx o first _ Ho Hf1 Hr).
        destruct n as [|n']; [simpl in Hlen; lia|].
        change (skip_comma (TP "," :: ops_toks (o2 :: r) ++ ct)%list) with (ops_toks (o2 :: r) ++ ct)%list.
        specialize (IH (o2 :: r) false (acc ++ den_wop o)%list ct ltac:(simpl in *; lia) Hct Hok' Hord' Hns' ltac:(discriminate)).
        rewrite IH. simpl flat_map. rewrite <- app_assoc. reflexivity.
Qed.

(* ---------------------------------------------------------------- instruction lines *)
Lemma comment_toks_ends : forall c, ends (comment_toks c).
Proof. intros [raw|]; [right; exists raw; reflexivity|left; reflexivity]. Qed.

(* the token after the mnemonic is never a colon *)
Inductive opstart : list tok -> Prop :=
| os_nil : opstart []
| os_c : forall raw, opstart [TC raw]
| os_w : forall w r, opstart (TW w :: r)
| os_h : forall r, opstart (TP "#" :: r)
| os_b : forall r, opstart (TP "[" :: r)
| os_l : forall r, opstart (TP "{" :: r).

Lemma toks_wop_start : forall o X, opstart (toks_wop o ++ X)%list.
Proof.
  intros o X. unfold toks_wop. destruct o as [r|els i|a b i|h n|h f|h w|w|b t c].
  - destruct r; simpl; constructor.
  - simpl. constructor.
  - simpl. constructor.
  - destruct h; simpl; constructor.
  - destruct h; simpl; constructor.
  - destruct h; simpl; constructor.
  - simpl. constructor.
  - simpl. constructor.
Qed.
Lemma ops_toks_start : forall ops c, opstart (ops_toks ops ++ comment_toks c)%list.
Proof.
  intros ops c. destruct ops as [|o r].
  - simpl. destruct c; constructor.
  - destruct (ops_toks_head o r) as [X E]. rewrite E, <- app_assoc. apply toks_wop_start.
Qed.

Lemma parse_toks_instr : forall fx mn l, opstart l -> head_is (ceq ".") mn = false -> mnemonic_ok mn = true ->
  parse_toks fx (TW mn :: l) = parse_instr fx mn l.
Proof. intros fx mn l H H1 H2. inversion H; subst; unfold parse_toks; rewrite H1, H2; reflexivity. Qed.

Theorem tokens_instr_line : forall fx mn ops c, wline_okb fx (WLInstr mn ops c) = true ->
  parse_toks fx (toks_line (WLInstr mn ops c)) = Parsed (denote (WLInstr mn ops c)).
Proof.
  intros fx mn ops c H. unfold wline_okb in H.
  apply andb_true_iff in H. destruct H as [Hmn H]. apply andb_true_iff in H. destruct H as [Hdot H].
  apply andb_true_iff in H. destruct H as [Hlen H]. apply andb_true_iff in H. destruct H as [Hok H].
  apply andb_true_iff in H. destruct H as [Hord H]. apply andb_true_iff in H. destruct H as [Hfirst H].
  apply andb_true_iff in H. destruct H as [Hc Hns].
  apply negb_true_iff in Hdot. apply Nat.leb_le in Hlen.
  unfold toks_line. rewrite (parse_toks_instr fx mn _ (ops_toks_start ops c) Hdot Hmn).
  unfold parse_instr.
  rewrite (slots_ok fx 5 ops true [] (comment_toks c) Hlen (comment_toks_ends c) Hok Hord Hns (fun _ => Hfirst)).
  simpl app. destruct c as [raw|]; reflexivity.
Qed.

(* ---------------------------------------------------------------- directive lines *)
Definition param_toks (ps : list string) : list tok := sep_by (TP ",") (map TW ps).

Lemma dir_params_ok : forall ps ct, forallb dir_param_ok ps = true -> ends ct ->
  dir_params (param_toks ps ++ ct)%list = true.
Proof.
  induction ps as [|p ps IH]; intros ct Hps Hct.
  - destruct Hct as [->|[raw ->]]; reflexivity.
  - simpl in Hps. apply andb_true_iff in Hps. destruct Hps as [Hp Hps]. destruct ps as [|q r].
    + unfold param_toks. simpl. rewrite Hp. destruct Hct as [->|[raw ->]]; reflexivity.
    + specialize (IH ct Hps Hct). unfold param_toks in *. simpl map in *. simpl sep_by in *. simpl app in *.
      simpl dir_params. rewrite Hp. exact IH.
Qed.

Lemma dir_clash_none : forall ps, dir_comment_clash (param_toks ps ++ [])%list = false.
Proof.
  induction ps as [|p ps IH]; [reflexivity|]. destruct ps as [|q r].
  - reflexivity.
  - unfold param_toks in *. simpl map in *. simpl sep_by in *. simpl app in *. simpl. exact IH.
Qed.
Lemma dir_clash_some : forall ps raw,
  dir_comment_clash (param_toks ps ++ [TC raw])%list = andb (has_comma raw) (swallowing_param (last ps "0")).
Proof.
  induction ps as [|p ps IH]; intros raw.
  - simpl. rewrite andb_false_r. reflexivity.
  - destruct ps as [|q r].
    + unfold param_toks. simpl. rewrite orb_false_r. apply andb_comm.
    + specialize (IH raw). unfold param_toks in *. simpl map in *. simpl sep_by in *. simpl app in *.
      simpl dir_comment_clash. simpl last in *. exact IH.
Qed.

Inductive dirstart : list tok -> Prop :=
| ds_nil : dirstart []
| ds_c : forall raw, dirstart [TC raw]
| ds_w : forall w r, dirstart (TW w :: r).
Lemma param_toks_start : forall ps c, dirstart (param_toks ps ++ comment_toks c)%list.
Proof.
  intros ps c. destruct ps as [|p [|q r]]; unfold param_toks; simpl; try constructor. destruct c; constructor.
Qed.

Theorem tokens_directive_line : forall fx n ps c, wline_okb fx (WLDirective n ps c) = true ->
  parse_toks fx (toks_line (WLDirective n ps c)) = Parsed (denote (WLDirective n ps c)).
Proof.
  intros fx n ps c H. unfold wline_okb in H.
  apply andb_true_iff in H. destruct H as [Hn H]. apply andb_true_iff in H. destruct H as [Hps H].
  apply andb_true_iff in H. destruct H as [Hc Hcl].
  assert (Hps' : forallb dir_param_ok ps = true).
  { rewrite forallb_forall in *. intros p Hp. specialize (Hps p Hp). apply andb_true_iff in Hps. tauto. }
  clear Hps. rename Hps' into Hps.
  unfold toks_line. fold (param_toks ps).
  assert (P : dir_params (param_toks ps ++ comment_toks c)%list = true) by (apply dir_params_ok; [exact Hps|apply comment_toks_ends]).
  assert (C : orb (fx_dir fx) (negb (dir_comment_clash (param_toks ps ++ comment_toks c)%list)) = true).
  { destruct (fx_dir fx); [reflexivity|]. simpl in Hcl |- *.
    destruct c as [raw|]; simpl comment_toks; [rewrite dir_clash_some; exact Hcl|rewrite dir_clash_none; reflexivity]. }
  change ("." ++ n) with (String "." n) in *.
  pose proof (param_toks_start ps c) as S. inversion S; subst.
  - rewrite <- H0 in *. unfold parse_toks. simpl head_is. change (ceq "." ".") with true. cbv iota. rewrite Hn, P, C. reflexivity.
  - rewrite <- H0 in *. unfold parse_toks. simpl head_is. change (ceq "." ".") with true. cbv iota. rewrite Hn, P, C. reflexivity.
  - rewrite <- H0 in *. unfold parse_toks. simpl head_is. change (ceq "." ".") with true. cbv iota. rewrite Hn, P, C. reflexivity.
Qed.

(* ---------------------------------------------------------------- every line of the sub-language, token level *)
Theorem tokens_line : forall fx l, wline_okb fx l = true -> parse_toks fx (toks_line l) = Parsed (denote l).
Proof.
  intros fx [mn ops c|n c|n ps c|raw] H.
  - apply tokens_instr_line; exact H.
  - apply tokens_label_line. unfold wline_okb in H. apply andb_true_iff in H. tauto.
  - apply tokens_directive_line; exact H.
  - apply tokens_comment_line.
Qed.

(* ---------------------------------------------------------------- the round trip on strings *)
(* for every configuration fx: with the repair fx_cond the marks of the lexer are dropped (any layout), without
   it the layout has to be tight after condition codes *)
Theorem parse_render_fx : forall fx l lay trail,
  wline_okb fx l = true -> layout_okb lay trail l = true -> cond_tight fx lay trail l = true ->
  parse_line fx (render lay trail l) = Parsed (denote l).
Proof.
  intros fx l lay trail Hl Hlay Ht. unfold layout_okb in Hlay. apply andb_true_iff in Hlay. destruct Hlay as [Htr Hlay].
  unfold parse_line, render.
  pose proof (lex_render_tokens lay trail (toks_line l) Htr Hlay) as L. unfold line_trail in L. rewrite L.
  unfold cond_tight in Ht. unfold unmark. destruct (fx_cond fx).
  - rewrite (unmark_mark _ _ _ _ Hlay). apply tokens_line. exact Hl.
  - simpl in Ht. rewrite (mark_tight _ _ _ Ht). apply tokens_line. exact Hl.
Qed.
