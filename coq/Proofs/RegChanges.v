(* get_reg_changes_core (Model/RegChanges.v) against a concrete register-file semantics -- DESIGN.md C06 / C03.

   Registers hold integers (regfile = name -> Z, as in Proofs/MemDep.v; names are prefix+name, no sub-register aliasing
   and no wrap-around: see notes/C06-regchanges.md).  `arch_effect` is the hand-written architectural meaning of the
   instructions whose ISA entries carry an `operation:` (x86 add/sub/sbb/inc/dec/mov, AArch64 add(s)/sub(s)/mov);
   it never looks at the operation strings.

   entry_sound e:  for every instruction matching the operand pattern of the ISA entry e, the model of get_reg_changes_core
   (which interprets e's operation string) returns a dict, and for every architectural step rho -> rho' of that
   instruction the dict describes the step:  a reported change (name, value) means  rho' reg = rho name + value,
   None means unknown, and every register that is not reported is unchanged.

   This is exactly what `apply_change` / `describes` of Proofs/MemDep.v need: `update_changes_describes` lifts
   update_one_describes to the whole dict of one instruction, and the corollaries at the end compose the three. *)
From Coq Require Import ZArith List Bool String Lia.
From OV Require Import Model.Num Model.Pressure Model.Deps Model.RegChanges Proofs.MemDep.
Import ListNotations.
Open Scope Z_scope.
Open Scope string_scope.

(* ---------------------------------------------------------------- architectural semantics (specification) *)
Definition opval (rho : regfile) (o : iop) : option Z :=
  match o with IReg r => Some (rho r) | IImm (Some k) => Some k | _ => None end.

(* destination register and its new value; cf = the carry flag read by sbb/adc.  mnem is the (upper-case, suffix-free)
   name of the ISA entry; operand order as written: AT&T source first on x86, destination first on AArch64 *)
Definition arch_effect (x86 : bool) (mnem : string) (ops : list iop) (rho : regfile) (cf : Z) : option (string * Z) :=
  if x86 then
    match ops with
    | [IReg d] =>
      if mnem =? "INC" then Some (d, rho d + 1)
      else if mnem =? "DEC" then Some (d, rho d - 1)
      else None
    | [s; IReg d] =>
      match opval rho s with
      | None => None
      | Some k =>
        if mnem =? "ADD" then Some (d, rho d + k)
        else if mnem =? "SUB" then Some (d, rho d - k)
        else if mnem =? "ADC" then Some (d, rho d + k + cf)
        else if mnem =? "SBB" then Some (d, rho d - k - cf)
        else if mnem =? "MOV" then Some (d, k)
        else None
      end
    | _ => None
    end
  else
    match ops with
    | [IReg d; s] =>
      if mnem =? "MOV" then match opval rho s with Some k => Some (d, k) | None => None end else None
    | [IReg d; IReg n; s] =>
      match opval rho s with
      | None => None
      | Some k =>
        if orb (mnem =? "ADD") (mnem =? "ADDS") then Some (d, rho n + k)
        else if orb (mnem =? "SUB") (mnem =? "SUBS") then Some (d, rho n - k)
        else None
      end
    | _ => None
    end.

Definition arch_step (x86 : bool) (mnem : string) (ops : list iop) (rho rho' : regfile) : Prop :=
  exists cf d v, (cf = 0 \/ cf = 1) /\ arch_effect x86 mnem ops rho cf = Some (d, v) /\
                 rho' d = v /\ forall r, r <> d -> rho' r = rho r.

(* AArch64 pre-index [b, #k]! on an instruction without tracked operation: the base is bumped by the immediate, the other
   destination registers change arbitrarily, nothing else changes *)
Definition wb_step (dests : list string) (b : string) (k : Z) (rho rho' : regfile) : Prop :=
  rho' b = rho b + k /\ forall r, ~ In r dests -> rho' r = rho r.

(* AArch64 post-index [b], #v in two steps: the access (base still unchanged, the other destination registers change
   arbitrarily) and then the bump of the base (by the immediate; by an unknown amount for a register post-index) *)
Definition access_step (dests : list string) (b : string) (rho rho_mid : regfile) : Prop :=
  rho_mid b = rho b /\ forall r, ~ In r dests -> rho_mid r = rho r.
Definition bump_step (b : string) (p : ipost) (rho_mid rho' : regfile) : Prop :=
  (forall r, r <> b -> rho' r = rho_mid r) /\ match p with PostImm v => rho' b = rho_mid b + v | _ => True end.

(* an instruction without tracked operation and without write-back: only destination registers change *)
Definition plain_step (dests : list string) (rho rho' : regfile) : Prop :=
  forall r, ~ In r dests -> rho' r = rho r.

(* ---------------------------------------------------------------- what a returned dict claims *)
Definition changes_describe (l : rc_dict) (rho rho' : regfile) : Prop :=
  (forall reg c, In (reg, c) l ->
     match c with
     | Some st => exists nm v, o_name st = Some nm /\ o_value st = Some v /\ rho' reg = rho nm + v
     | None => True
     end) /\
  (forall r, ~ In r (map fst l) -> rho' r = rho r).

Definition kind_ok (k : pkind) (o : iop) : Prop :=
  match k, o with
  | KReg, IReg _ => True
  | KImm, IImm (Some _) => True
  | KMem, IMem _ _ false PostFalse => True
  | _, _ => False
  end.
Fixpoint matches (pat : list pat1) (ops : list iop) : Prop :=
  match pat, ops with
  | [], [] => True
  | p :: pt, o :: ot => kind_ok (p_kind p) o /\ matches pt ot
  | _, _ => False
  end.

(* no reported origin is another reported register: the dict may be applied entry by entry (see update_changes_describes) *)
Definition safe_origin_dict (l : rc_dict) : Prop :=
  forall reg st nm, In (reg, Some st) l -> o_name st = Some nm -> nm = reg \/ ~ In nm (map fst l).

(* for every instruction matching the entry's pattern: the model (before the sub-register rule) returns a dict l; origins are
   safe and are register operands of the instruction; and whatever the architectural effect (d, v) is, d is reported, nothing
   but d is reported, and a constant claim (nm, k) about d satisfies  v = rho nm + k  *)
Definition entry_sound (e : op_entry) : Prop :=
  forall ops, matches (oe_pat e) ops ->
  exists l, get_reg_changes_core true (pattern_dests (oe_pat e) ops) ops (Some (entry_of e)) false = RcOk l /\
            safe_origin_dict l /\
            (forall reg st nm, In (reg, Some st) l -> o_name st = Some nm -> In (IReg nm) ops) /\
            forall rho cf d v, arch_effect (oe_x86 e) (oe_mnem e) ops rho cf = Some (d, v) ->
              In d (map fst l) /\ (forall reg, In reg (map fst l) -> reg = d) /\
              (forall c, In (d, c) l ->
                 match c with
                 | Some st => exists nm k, o_name st = Some nm /\ o_value st = Some k /\ v = rho nm + k
                 | None => True
                 end).

(* the instruction is in the vocabulary of arch_effect: the soundness statement is not vacuous *)
Definition entry_inhabited (e : op_entry) : Prop :=
  exists ops rho rho', matches (oe_pat e) ops /\ arch_step (oe_x86 e) (oe_mnem e) ops rho rho'.

(* ---------------------------------------------------------------- proof automation for one table entry *)
Lemma eqb_neq_l a b : a <> b -> String.eqb a b = false.
Proof. apply String.eqb_neq. Qed.
Lemma eqb_neq_r a b : a <> b -> String.eqb b a = false.
Proof. intros H. apply String.eqb_neq. congruence. Qed.

Ltac split_names :=
  repeat match goal with
         | a : string, b : string |- _ =>
           lazymatch a with
           | b => fail
           | _ =>
             lazymatch goal with
             | _ : a <> b |- _ => fail
             | _ : b <> a |- _ => fail
             | _ => destruct (String.eqb_spec a b); [subst|]
             end
           end
         end.

Ltac norm_eqb :=
  repeat progress
    (cbn -[String.eqb Z.add Z.sub Z.eqb];
     rewrite ?String.eqb_refl;
     repeat match goal with
            | H : ?a <> ?b |- context [String.eqb ?a ?b] => rewrite (eqb_neq_l a b H)
            | H : ?a <> ?b |- context [String.eqb ?b ?a] => rewrite (eqb_neq_r a b H)
            end).

Ltac norm_eqb_in H0 :=
  repeat progress
    (cbn -[String.eqb Z.add Z.sub Z.eqb] in H0;
     rewrite ?String.eqb_refl in H0;
     repeat match type of H0 with
            | context [String.eqb ?a ?b] =>
              match goal with
              | H : a <> b |- _ => rewrite (eqb_neq_l a b H) in H0
              | H : b <> a |- _ => rewrite (eqb_neq_r b a H) in H0
              end
            end).

Ltac destruct_ops M :=
  repeat match type of M with
         | match ?x with _ => _ end => destruct x; try contradiction
         | _ /\ _ =>
           let M1 := fresh "M1" in
           destruct M as [M1 M];
           repeat match type of M1 with match ?x with _ => _ end => destruct x; try contradiction end;
           clear M1
         end.

Ltac in_cases HIn :=
  cbn in HIn; repeat (destruct HIn as [HIn|HIn]; [inversion HIn; subst; clear HIn|]); try contradiction.

Ltac solve_entry :=
  let ops := fresh "ops" in let M := fresh "M" in
  intros ops M; cbn in M;
  destruct_ops M;
  split_names;
  (eexists; split;
   [ unfold get_reg_changes_core, pattern_dests, entry_of; norm_eqb; reflexivity
   | split;
   [ let reg := fresh "reg" in let st := fresh "st" in let nm := fresh "nm" in
     let HIn := fresh "HIn" in let Hn := fresh "Hn" in let HH := fresh "HH" in
     intros reg st nm HIn Hn; in_cases HIn;
     cbn in Hn; inversion Hn; subst;
     first [ left; reflexivity
           | right; cbn; intros HH; repeat (destruct HH as [HH|HH]; [congruence|]); contradiction ]
   | split;
   [ let reg := fresh "reg" in let st := fresh "st" in let nm := fresh "nm" in
     let HIn := fresh "HIn" in let Hn := fresh "Hn" in
     intros reg st nm HIn Hn; in_cases HIn;
     cbn in Hn; inversion Hn; subst; cbn; auto 8
   | let rho := fresh "rho" in let cf := fresh "cf" in let d := fresh "d" in let v := fresh "v" in let He := fresh "He" in
     intros rho cf d v He; cbn in He; inversion He; subst; clear He;
     split; [cbn; auto|];
     split;
     [ let reg := fresh "reg" in let HIn := fresh "HIn" in
       intros reg HIn; cbn in HIn; repeat (destruct HIn as [HIn|HIn]; [subst; try reflexivity|]); try contradiction
     | let c := fresh "c" in let HIn := fresh "HIn" in
       intros c HIn; in_cases HIn; try exact I;
       eexists _, _; split; [reflexivity|split; [reflexivity|lia]] ] ] ] ]).

(* ---------------------------------------------------------------- general facts about the returned dict *)
Lemma dedup_spec seen l x : In x (dedup seen l) <-> In x l /\ ~ In x seen.
Proof.
  revert seen. induction l as [|y l IH]; intros seen; cbn [dedup].
  - cbn. tauto.
  - destruct (existsb (String.eqb y) seen) eqn:E.
    + apply existsb_exists in E. destruct E as (z & Hz & Ez). apply String.eqb_eq in Ez. subst z.
      rewrite IH. cbn. split; [tauto|]. intros [[->|H] N]; [contradiction|tauto].
    + assert (Ny : ~ In y seen).
      { intros H. assert (existsb (String.eqb y) seen = true) by (apply existsb_exists; exists y; split; [exact H|apply String.eqb_refl]). congruence. }
      cbn [In]. rewrite IH. cbn [In]. split.
      * intros [->|[H N]]; [tauto|]. split; [tauto|]. intros H'. apply N. right. exact H'.
      * intros [[->|H] N]; [tauto|]. destruct (string_dec y x) as [->|Ne]; [tauto|]. right. split; [exact H|]. intros [E'|H']; [congruence|contradiction].
Qed.

Lemma dedup_nodup seen l : NoDup (dedup seen l).
Proof.
  revert seen. induction l as [|y l IH]; intros seen; cbn [dedup]; [constructor|].
  destruct (existsb (String.eqb y) seen); [apply IH|]. constructor; [|apply IH].
  rewrite dedup_spec. cbn. tauto.
Qed.

Lemma change_dict_keys dests nm st : map fst (change_dict dests nm st) = dedup [] dests.
Proof. unfold change_dict. rewrite map_map. cbn [fst]. apply map_id. Qed.

(* registers that are not destinations are never reported; every destination is, once *)
Theorem rc_core_keys dests ops isa l :
  get_reg_changes_core true dests ops isa false = RcOk l ->
  NoDup (map fst l) /\ forall r, In r (map fst l) <-> In r dests.
Proof.
  unfold get_reg_changes_core. cbn [negb].
  destruct (pre_loop (has_operation isa) ops ([], [])) as [acc|]; [|discriminate].
  match goal with |- match ?a with _ => _ end = _ -> _ => destruct a as [[nm st]|] end; [|discriminate].
  intros H. inversion H; subst. rewrite change_dict_keys. split; [apply dedup_nodup|].
  intros r. rewrite dedup_spec. cbn. tauto.
Qed.

(* operands without write-back: not pre-indexed, no post-index dict on an operand with a base *)
Definition no_wb (o : iop) : bool :=
  match o with
  | IMem _ _ true _ => false
  | IMem (Some _) _ _ (PostImm _) => false
  | IMem (Some _) _ _ PostOther => false
  | _ => true
  end.
Definition no_postdict (o : iop) : bool :=
  match o with IMem (Some _) _ _ (PostImm _) => false | IMem (Some _) _ _ PostOther => false | _ => true end.

Lemma pre_loop_skip h ops rest acc : forallb no_wb ops = true -> pre_loop h (ops ++ rest) acc = pre_loop h rest acc.
Proof.
  induction ops as [|o ops IH]; intros H; [reflexivity|]. cbn [forallb] in H. apply andb_true_iff in H. destruct H as [Ho H].
  cbn [app pre_loop]. destruct o as [| |[b|] off [|] [|v|]|]; try discriminate; cbn; apply IH; exact H.
Qed.

Lemma no_op_after isa (nmst : names * opstate) ops :
  has_operation isa = false ->
  match isa with
  | Some e => match rc_op e with
              | Some code => bind (op_loop (rc_dst e) 0 ops nmst) (fun a => bind (exec_stmts (snd a) code) (fun st' => Ok (fst a, st')))
              | None => Ok nmst end
  | None => Ok nmst end = Ok nmst.
Proof. intros Hop. destruct isa as [e|]; [|reflexivity]. cbn in Hop. destruct (rc_op e); [discriminate|reflexivity]. Qed.

(* no operation in the ISA entry (or no entry), no write-back: every destination register is unknown *)
Theorem rc_no_operation dests ops isa :
  has_operation isa = false -> forallb no_wb ops = true ->
  get_reg_changes_core true dests ops isa false = RcOk (map (fun r => (r, None)) (dedup [] dests)).
Proof.
  intros Hop Hpre. unfold get_reg_changes_core. cbn [negb]. rewrite Hop.
  rewrite <- (app_nil_r ops), pre_loop_skip by exact Hpre. cbn [pre_loop].
  rewrite no_op_after by exact Hop. reflexivity.
Qed.

Theorem rc_no_operation_sound dests ops isa rho rho' :
  has_operation isa = false -> forallb no_wb ops = true -> plain_step dests rho rho' ->
  exists l, get_reg_changes_core true dests ops isa false = RcOk l /\ changes_describe l rho rho'.
Proof.
  intros Hop Hpre Hstep. eexists. split; [apply rc_no_operation; assumption|]. split.
  - intros reg c HIn. apply in_map_iff in HIn. destruct HIn as (r & E & _). inversion E; subst. exact I.
  - intros r Hr. apply Hstep. intros HIn. apply Hr. rewrite map_map. cbn [fst]. rewrite map_id. apply dedup_spec. cbn. tauto.
Qed.

(* one pre-indexed memory operand [b, #k]! : the base is reported as b + k, the other destination registers are unknown *)
Theorem rc_preindexed dests pre suf isa b k :
  has_operation isa = false -> forallb no_wb pre = true -> forallb no_wb suf = true ->
  get_reg_changes_core true dests (pre ++ IMem (Some b) (OffImm (Some k)) true PostFalse :: suf) isa false =
  RcOk (map (fun r => (r, if String.eqb r b then Some (mkO (Some b) (Some k)) else None)) (dedup [] dests)).
Proof.
  intros Hop Hpre Hsuf. unfold get_reg_changes_core. cbn [negb]. rewrite Hop.
  rewrite pre_loop_skip by exact Hpre. cbn [pre_loop bind is_postdict].
  rewrite <- (app_nil_r suf), pre_loop_skip by exact Hsuf. cbn [pre_loop].
  rewrite no_op_after by exact Hop. unfold change_dict. f_equal. apply map_ext. intros r. cbn [nm_get].
  destruct (String.eqb r b); reflexivity.
Qed.

Theorem rc_preindexed_sound dests pre suf isa b k rho rho' :
  has_operation isa = false -> forallb no_wb pre = true -> forallb no_wb suf = true ->
  wb_step dests b k rho rho' ->
  exists l, get_reg_changes_core true dests (pre ++ IMem (Some b) (OffImm (Some k)) true PostFalse :: suf) isa false = RcOk l /\
            changes_describe l rho rho'.
Proof.
  intros Hop Hpre Hsuf (Hb & Hother). eexists. split; [apply rc_preindexed; assumption|]. split.
  - intros reg c HIn. apply in_map_iff in HIn. destruct HIn as (r & E & _). inversion E; subst.
    destruct (String.eqb_spec reg b); [subst|exact I]. eexists _, _. cbn. repeat split. exact Hb.
  - intros r Hr. apply Hother. intros HIn. apply Hr. rewrite map_map. cbn [fst]. rewrite map_id. apply dedup_spec. cbn. tauto.
Qed.

(* one post-indexed memory operand [b], #v (or [b], xm): in the full dict the base is reported UNCHANGED (it is bumped
   after the access), the other destination registers are unknown *)
Theorem rc_postindexed_main dests pre suf isa b off p :
  has_operation isa = false -> forallb no_wb pre = true -> forallb no_wb suf = true -> is_postdict p = true ->
  get_reg_changes_core true dests (pre ++ IMem (Some b) off false p :: suf) isa false =
  RcOk (map (fun r => (r, if String.eqb r b then Some (mkO (Some b) (Some 0)) else None)) (dedup [] dests)).
Proof.
  intros Hop Hpre Hsuf Hp. unfold get_reg_changes_core. cbn [negb]. rewrite Hop.
  rewrite pre_loop_skip by exact Hpre. cbn [pre_loop bind]. rewrite Hp. cbn [fst snd nm_set st_set].
  rewrite <- (app_nil_r suf), pre_loop_skip by exact Hsuf. cbn [pre_loop].
  rewrite no_op_after by exact Hop. unfold change_dict. f_equal. apply map_ext. intros r. cbn [nm_get].
  destruct (String.eqb r b); reflexivity.
Qed.

(* only_postindexed=True: the first memory operand with a base and a post-index dict: b + v, or unknown *)
Lemma find_post_skip ops rest : forallb no_postdict ops = true -> find_post (ops ++ rest) = find_post rest.
Proof.
  induction ops as [|o ops IH]; intros H; [reflexivity|]. cbn [forallb] in H. apply andb_true_iff in H. destruct H as [Ho H].
  cbn [app find_post]. destruct o as [| |[b|] off p [|v|]|]; try discriminate; apply IH; exact H.
Qed.

Definition post_dict (b : string) (p : ipost) : rc_dict :=
  match p with PostImm v => [(b, Some (mkO (Some b) (Some v)))] | _ => [(b, None)] end.

Theorem rc_postindexed dests pre suf isa b off pr p :
  forallb no_postdict pre = true -> is_postdict p = true ->
  get_reg_changes_core true dests (pre ++ IMem (Some b) off pr p :: suf) isa true = RcOk (post_dict b p).
Proof.
  intros H Hp. unfold get_reg_changes_core. cbn [negb]. rewrite find_post_skip by exact H.
  destruct p; [discriminate| |]; reflexivity.
Qed.

Theorem rc_postindexed_none dests ops isa :
  forallb no_postdict ops = true -> get_reg_changes_core true dests ops isa true = RcOk [].
Proof. intros H. unfold get_reg_changes_core. cbn [negb]. rewrite <- (app_nil_r ops), find_post_skip by exact H. reflexivity. Qed.

(* a line without mnemonic (label, directive, comment) changes nothing *)
Theorem rc_no_mnemonic dests ops isa post : get_reg_changes_core false dests ops isa post = RcOk [].
Proof. reflexivity. Qed.

(* ---------------------------------------------------------------- the dict of ONE instruction, applied change by change *)
(* KernelDG._update_reg_changes walks the dict sequentially although the instruction changes its registers at once.
   That is sound when no reported origin is another reported register (no swap inside one instruction). *)
Definition safe_origin (cs : list (string * change)) : Prop :=
  forall reg nm v, In (reg, Some (nm, v)) cs -> nm = reg \/ ~ In nm (map fst cs).

Definition changes_hold (cs : list (string * change)) (rho rho' : regfile) : Prop :=
  (forall reg c, In (reg, c) cs -> match c with Some (nm, v) => rho' reg = rho nm + v | None => True end) /\
  (forall r, ~ In r (map fst cs) -> rho' r = rho r).

Theorem update_changes_describes cs : forall s rho0 rho rho',
  NoDup (map fst cs) -> safe_origin cs -> changes_hold cs rho rho' ->
  describes s rho0 rho -> describes (update_changes s cs) rho0 rho'.
Proof.
  induction cs as [|[reg c] cs IH]; intros s rho0 rho rho' ND SO (Hc & Hother) D.
  - cbn. intros r. specialize (D r). rewrite (Hother r) by (intros []). exact D.
  - cbn [update_changes fold_left fst snd]. cbn [map fst] in ND. inversion ND as [|? ? Nreg ND']; subst.
    set (rho1 := fun r => if String.eqb r reg then rho' reg else rho r).
    assert (A : apply_change rho reg c rho1).
    { split.
      - intros r Hr. unfold rho1. destruct (String.eqb_spec r reg); [contradiction|reflexivity].
      - specialize (Hc reg c (or_introl eq_refl)). destruct c as [[nm v]|]; [|exact I].
        unfold rho1. rewrite String.eqb_refl. exact Hc. }
    apply (IH (update_one s reg c) rho0 rho1 rho' ND').
    + intros r nm v HIn. destruct (SO r nm v (or_intror HIn)) as [E|N]; [left; exact E|right].
      intros H. apply N. cbn. right. exact H.
    + split.
      * intros r c' HIn. specialize (Hc r c' (or_intror HIn)). destruct c' as [[nm v]|]; [|exact I].
        assert (Rn : rho1 nm = rho nm).
        { unfold rho1. destruct (String.eqb_spec nm reg) as [->|]; [|reflexivity].
          destruct (SO r reg v (or_intror HIn)) as [E|N].
          - subst r. exfalso. apply Nreg. apply in_map_iff. exists (reg, Some (reg, v)). split; [reflexivity|exact HIn].
          - exfalso. apply N. cbn. left. reflexivity. }
        rewrite Rn. exact Hc.
      * intros r Hr. unfold rho1. destruct (String.eqb_spec r reg) as [->|Ne]; [reflexivity|].
        apply Hother. cbn. intros [E|H]; [congruence|contradiction].
    + apply (update_one_describes s rho0 rho rho1 reg c D A).
Qed.

(* from the dict of the model to the `change` list Model/Deps.v consumes *)

Lemma to_changes_spec l rho rho' :
  changes_describe l rho rho' ->
  exists cs, to_changes l = Some cs /\ map fst cs = map fst l /\ changes_hold cs rho rho' /\
             (safe_origin_dict l -> safe_origin cs).
Proof.
  intros (Hc & Hother). revert Hc Hother.
  assert (G : (forall reg c, In (reg, c) l ->
                 match c with Some st => exists nm v, o_name st = Some nm /\ o_value st = Some v /\ rho' reg = rho nm + v | None => True end) ->
              exists cs, to_changes l = Some cs /\ map fst cs = map fst l /\
                (forall reg c, In (reg, c) cs -> match c with Some (nm, v) => rho' reg = rho nm + v | None => True end) /\
                (forall reg nm v, In (reg, Some (nm, v)) cs -> exists st, In (reg, Some st) l /\ o_name st = Some nm)).
  { induction l as [|[k c] l IH]; intros Hc.
    - exists []. cbn. repeat split; intros; contradiction.
    - destruct IH as (cs & E & K & H1 & H2); [intros; apply Hc; right; assumption|].
      pose proof (Hc k c (or_introl eq_refl)) as Hk. cbn [to_changes]. rewrite E.
      destruct c as [st|].
      + destruct Hk as (nm & v & En & Ev & Hv). cbn [to_change]. rewrite En, Ev.
        exists ((k, Some (nm, v)) :: cs). cbn [map fst]. rewrite K. repeat split.
        * intros reg c [H|H]; [inversion H; subst; exact Hv|apply H1; exact H].
        * intros reg nm' v' [H|H]; [inversion H; subst; exists st; split; [left; reflexivity|exact En]|].
          destruct (H2 _ _ _ H) as (st' & I' & N'). exists st'. split; [right; exact I'|exact N'].
      + cbn [to_change]. exists ((k, None) :: cs). cbn [map fst]. rewrite K. repeat split.
        * intros reg c [H|H]; [inversion H; subst; exact I|apply H1; exact H].
        * intros reg nm' v' [H|H]; [inversion H|]. destruct (H2 _ _ _ H) as (st' & I' & N'). exists st'. split; [right; exact I'|exact N']. }
  intros Hc Hother. destruct (G Hc) as (cs & E & K & H1 & H2). exists cs. repeat split; try assumption.
  - intros r Hr. apply Hother. rewrite <- K. exact Hr.
  - intros SO reg nm v HIn. destruct (H2 _ _ _ HIn) as (st & I' & N'). rewrite K. exact (SO reg st nm I' N').
Qed.

(* ONE instruction: its dict (no repeated key, safe origins) describes the architectural step => the tracked state
   after _update_reg_changes describes the register file after the instruction *)
Theorem instruction_tracking_sound l s rho0 rho rho' :
  NoDup (map fst l) -> safe_origin_dict l -> changes_describe l rho rho' ->
  describes s rho0 rho ->
  exists cs, to_changes l = Some cs /\ describes (update_changes s cs) rho0 rho'.
Proof.
  intros ND SO CD D. destruct (to_changes_spec l rho rho' CD) as (cs & E & K & CH & SO').
  exists cs. split; [exact E|]. apply (update_changes_describes cs s rho0 rho rho'); try assumption.
  - rewrite K. exact ND.
  - apply SO'. exact SO.
Qed.

(* ---------------------------------------------------------------- the sub-register rule: widen *)
Lemma set_none_keys d k r : In r (map fst (set_none d k)) <-> In r (map fst d) \/ r = k.
Proof.
  induction d as [|[k' v] d IH]; cbn [set_none map fst In].
  - split; [intros [H|[]]; right; congruence|intros [[]|H]; left; congruence].
  - destruct (String.eqb_spec k k') as [->|Ne]; cbn [map fst In]; [|rewrite IH]; split; intuition congruence.
Qed.

Lemma set_none_nodup d k : NoDup (map fst d) -> NoDup (map fst (set_none d k)).
Proof.
  induction d as [|[k' v] d IH]; intros ND; cbn [set_none map fst].
  - constructor; [intros []|constructor].
  - cbn [map fst] in ND. inversion ND as [|? ? N ND']; subst.
    destruct (String.eqb_spec k k') as [->|Ne]; cbn [map fst]; [exact ND|].
    constructor; [|apply IH; exact ND']. rewrite set_none_keys. intros [H|H]; [contradiction|congruence].
Qed.

Lemma set_none_in d k r c : In (r, c) (set_none d k) -> In (r, c) d \/ (r = k /\ c = None).
Proof.
  induction d as [|[k' v] d IH]; cbn [set_none In].
  - intros [H|[]]. inversion H; subst. right. split; reflexivity.
  - destruct (String.eqb_spec k k') as [->|Ne]; cbn [In].
    + intros [H|H]; [inversion H; subst; right; split; reflexivity|left; right; exact H].
    + intros [H|H]; [left; left; exact H|]. destruct (IH H) as [H'|H']; [left; right; exact H'|right; exact H'].
Qed.

Lemma set_none_some d k reg st : NoDup (map fst d) -> In (reg, Some st) (set_none d k) -> In (reg, Some st) d /\ reg <> k.
Proof.
  induction d as [|[k' v] d IH]; intros ND; cbn [set_none In].
  - intros [H|[]]. discriminate.
  - cbn [map fst] in ND. inversion ND as [|? ? N ND']; subst.
    destruct (String.eqb_spec k k') as [->|Ne]; cbn [In].
    + intros [H|H]; [discriminate|]. split; [right; exact H|]. intros ->. apply N. apply in_map_iff. exists (k', Some st). split; [reflexivity|exact H].
    + intros [H|H]; [inversion H; subst; split; [left; reflexivity|congruence]|].
      destruct (IH ND' H) as [H1 H2]. split; [right; exact H1|exact H2].
Qed.

Lemma set_none_hit d k : In (k, None) (set_none d k).
Proof.
  induction d as [|[k' v] d IH]; cbn [set_none]; [left; reflexivity|].
  destruct (String.eqb_spec k k') as [->|Ne]; [left; reflexivity|right; exact IH].
Qed.

Lemma set_none_keeps_none d k r : In (r, None) d -> In (r, None) (set_none d k).
Proof.
  induction d as [|[k' v] d IH]; cbn [set_none]; [intros []|].
  destruct (String.eqb_spec k k') as [->|Ne]; cbn [In].
  - intros [H|H]; [inversion H; subst; left; reflexivity|right; exact H].
  - intros [H|H]; [left; exact H|right; apply IH; exact H].
Qed.

Lemma widen_keys fs : forall d r, In r (map fst (widen fs d)) <-> In r (map fst d) \/ In r fs.
Proof.
  induction fs as [|f fs IH]; intros d r; cbn [widen fold_left In]; [tauto|].
  change (fold_left set_none fs (set_none d f)) with (widen fs (set_none d f)). rewrite IH, set_none_keys. intuition congruence.
Qed.

Lemma widen_nodup fs : forall d, NoDup (map fst d) -> NoDup (map fst (widen fs d)).
Proof.
  induction fs as [|f fs IH]; intros d ND; cbn [widen fold_left]; [exact ND|].
  apply (IH (set_none d f)). apply set_none_nodup. exact ND.
Qed.

Lemma widen_in fs : forall d r c, In (r, c) (widen fs d) -> In (r, c) d \/ (In r fs /\ c = None).
Proof.
  induction fs as [|f fs IH]; intros d r c; cbn [widen fold_left In]; [tauto|].
  intros H. destruct (IH (set_none d f) r c H) as [H'|[H1 H2]]; [|right; tauto].
  destruct (set_none_in _ _ _ _ H') as [H''|[-> ->]]; [left; exact H''|right; split; [left; reflexivity|reflexivity]].
Qed.

Lemma widen_some fs : forall d reg st, NoDup (map fst d) -> In (reg, Some st) (widen fs d) -> In (reg, Some st) d /\ ~ In reg fs.
Proof.
  induction fs as [|f fs IH]; intros d reg st ND; cbn [widen fold_left In]; [tauto|].
  intros H. destruct (IH (set_none d f) reg st (set_none_nodup d f ND) H) as [H1 H2].
  destruct (set_none_some d f reg st ND H1) as [H3 H4]. split; [exact H3|]. intros [E|E]; [congruence|contradiction].
Qed.

Lemma widen_keeps_none fs : forall d r, In (r, None) d -> In (r, None) (widen fs d).
Proof.
  induction fs as [|f fs IH]; intros d r H; cbn [widen fold_left]; [exact H|]. apply (IH (set_none d f)). apply set_none_keeps_none. exact H.
Qed.

(* a written sub-register leaves NO constant claim about the full-width register: it is reported, as unknown *)
Lemma widen_full_none fs : forall d f, In f fs -> In (f, None) (widen fs d).
Proof.
  induction fs as [|g fs IH]; intros d f; cbn [widen fold_left In]; [intros []|].
  intros [->|H]; [|apply (IH (set_none d g)); exact H]. apply (widen_keeps_none fs (set_none d f)). apply set_none_hit.
Qed.

(* None claims nothing and reporting more registers only weakens "unreported registers are unchanged" *)
Lemma changes_describe_widen fs d rho rho' : changes_describe d rho rho' -> changes_describe (widen fs d) rho rho'.
Proof.
  intros (Hc & Ho). split.
  - intros reg c HIn. destruct (widen_in fs d reg c HIn) as [H|[_ ->]]; [apply Hc; exact H|exact I].
  - intros r Hr. apply Ho. intros H. apply Hr. apply widen_keys. left. exact H.
Qed.

Lemma safe_origin_dict_widen fs d :
  NoDup (map fst d) -> safe_origin_dict d ->
  (forall reg st nm, In (reg, Some st) d -> o_name st = Some nm -> nm = reg \/ ~ In nm fs) ->
  safe_origin_dict (widen fs d).
Proof.
  intros ND SO Hf reg st nm HIn Hn. destruct (widen_some fs d reg st ND HIn) as [H1 H2].
  destruct (Hf reg st nm H1 Hn) as [E|Nf]; [left; exact E|].
  destruct (SO reg st nm H1 Hn) as [E|Nk]; [left; exact E|right]. rewrite widen_keys. tauto.
Qed.

(* the full function *)
Lemma get_reg_changes_full dests fulls ops isa :
  get_reg_changes true dests fulls ops isa false =
  match get_reg_changes_core true dests ops isa false with RcOk d => RcOk (widen fulls d) | RcErr e => RcErr e end.
Proof. reflexivity. Qed.
Lemma get_reg_changes_post dests fulls ops isa :
  get_reg_changes true dests fulls ops isa true = get_reg_changes_core true dests ops isa true.
Proof. unfold get_reg_changes. destruct (get_reg_changes_core true dests ops isa true); reflexivity. Qed.

(* the reported registers are exactly the destination registers and the full-width registers of written sub-registers *)
Theorem rc_keys dests fulls ops isa l :
  get_reg_changes true dests fulls ops isa false = RcOk l ->
  NoDup (map fst l) /\ forall r, In r (map fst l) <-> In r dests \/ In r fulls.
Proof.
  rewrite get_reg_changes_full. destruct (get_reg_changes_core true dests ops isa false) as [d|] eqn:E; [|discriminate].
  intros H. inversion H; subst. destruct (rc_core_keys _ _ _ _ E) as (ND & K). split; [apply widen_nodup; exact ND|].
  intros r. rewrite widen_keys, K. tauto.
Qed.

Theorem subregister_write_no_claim dests fulls ops isa l f :
  get_reg_changes true dests fulls ops isa false = RcOk l -> In f fulls ->
  In (f, None) l /\ forall st, ~ In (f, Some st) l.
Proof.
  intros E Hf. pose proof (rc_keys _ _ _ _ _ E) as (ND & _). revert E ND. rewrite get_reg_changes_full.
  destruct (get_reg_changes_core true dests ops isa false) as [d|]; [|discriminate]. intros H ND. inversion H; subst.
  assert (HN : In (f, None) (widen fulls d)) by (apply widen_full_none; exact Hf). split; [exact HN|].
  intros st HS. clear -HN HS ND. induction (widen fulls d) as [|[k c] l IH]; [contradiction|].
  cbn [map fst] in ND. inversion ND as [|? ? N ND']; subst.
  destruct HN as [HN|HN], HS as [HS|HS].
  - congruence.
  - inversion HN; subst. apply N. apply in_map_iff. exists (f, Some st). split; [reflexivity|exact HS].
  - inversion HS; subst. apply N. apply in_map_iff. exists (f, None). split; [reflexivity|exact HN].
  - exact (IH ND' HN HS).
Qed.

(* ---------------------------------------------------------------- composition with Proofs/MemDep.v *)
Lemma to_changes_none L : to_changes (map (fun r : string => (r, @None ostate)) L) = Some (map (fun r => (r, @None (string * Z))) L).
Proof. induction L as [|x L IH]; [reflexivity|]. cbn [map to_changes to_change]. rewrite IH. reflexivity. Qed.

(* name-level reading of entry_sound: the dict describes every architectural step *)
Lemma entry_sound_describes e ops l rho rho' :
  (forall rho cf d v, arch_effect (oe_x86 e) (oe_mnem e) ops rho cf = Some (d, v) ->
     In d (map fst l) /\ (forall reg, In reg (map fst l) -> reg = d) /\
     (forall c, In (d, c) l ->
        match c with Some st => exists nm k, o_name st = Some nm /\ o_value st = Some k /\ v = rho nm + k | None => True end)) ->
  arch_step (oe_x86 e) (oe_mnem e) ops rho rho' -> changes_describe l rho rho'.
Proof.
  intros H (cf & d & v & _ & He & Hd & Ho). destruct (H rho cf d v He) as (Hin & Honly & Hcl). split.
  - intros reg c HIn. assert (reg = d) by (apply Honly; apply in_map_iff; exists (reg, c); split; [reflexivity|exact HIn]). subst reg.
    specialize (Hcl c HIn). destruct c as [st|]; [|exact I]. destruct Hcl as (nm & k & En & Ek & Ev).
    exists nm, k. repeat split; try assumption. lia.
  - intros r Hr. apply Ho. intros ->. contradiction.
Qed.

(* the sub-register rule assumes that a full-width register of a written sub-register is not itself an operand *)
Definition fulls_fresh (ops : list iop) (fulls : list string) : Prop := forall f, In f fulls -> ~ In (IReg f) ops.

(* an instruction of the table: the tracked state follows the architectural step *)
Theorem entry_tracking_sound e :
  entry_sound e ->
  forall ops fulls, matches (oe_pat e) ops -> fulls_fresh ops fulls ->
  forall s rho0 rho rho',
    describes s rho0 rho -> arch_step (oe_x86 e) (oe_mnem e) ops rho rho' ->
    exists l cs, get_reg_changes true (pattern_dests (oe_pat e) ops) fulls ops (Some (entry_of e)) false = RcOk l /\
                 to_changes l = Some cs /\ describes (update_changes s cs) rho0 rho'.
Proof.
  intros ES ops fulls M FF s rho0 rho rho' D A. destruct (ES ops M) as (l & E & SO & OR & CD).
  destruct (rc_core_keys _ _ _ _ E) as (ND & _).
  assert (E' : get_reg_changes true (pattern_dests (oe_pat e) ops) fulls ops (Some (entry_of e)) false = RcOk (widen fulls l))
    by (rewrite get_reg_changes_full, E; reflexivity).
  assert (SO' : safe_origin_dict (widen fulls l)).
  { apply safe_origin_dict_widen; try assumption. intros reg st nm HIn Hn. right. intros Hf. exact (FF nm Hf (OR reg st nm HIn Hn)). }
  pose proof (changes_describe_widen fulls l rho rho' (entry_sound_describes e ops l rho rho' CD A)) as CD'.
  destruct (instruction_tracking_sound _ s rho0 rho rho' (widen_nodup fulls l ND) SO' CD' D) as (cs & Ec & D').
  exists (widen fulls l), cs. repeat split; assumption.
Qed.

(* ... and therefore a store->load link found after the instruction means equal addresses *)
Theorem entry_link_sound e :
  entry_sound e ->
  forall ops fulls, matches (oe_pat e) ops -> fulls_fresh ops fulls ->
  forall s rho0 rho rho',
    describes s rho0 rho -> arch_step (oe_x86 e) (oe_mnem e) ops rho rho' ->
    exists l cs, get_reg_changes true (pattern_dests (oe_pat e) ops) fulls ops (Some (entry_of e)) false = RcOk l /\
                 to_changes l = Some cs /\
                 forall mem src, memload_one mem (update_changes s cs) src = true ->
                                 (match m_off src with OSym => False | _ => True end) ->
                                 addr_load rho' src = addr rho0 mem.
Proof.
  intros ES ops fulls M FF s rho0 rho rho' D A.
  destruct (entry_tracking_sound e ES ops fulls M FF s rho0 rho rho' D A) as (l & cs & E & Ec & D').
  exists l, cs. repeat split; try assumption. intros mem src H Hs. exact (memload_sound mem _ src rho0 rho' D' H Hs).
Qed.

Lemma base_only_safe_origin b st L :
  o_name st = Some b ->
  safe_origin_dict (map (fun r : string => (r, if String.eqb r b then Some st else None)) L) /\
  forall fs reg st' nm, In (reg, Some st') (map (fun r : string => (r, if String.eqb r b then Some st else None)) L) ->
                        o_name st' = Some nm -> nm = reg \/ ~ In nm fs.
Proof.
  intros Hb. assert (G : forall reg st' nm, In (reg, Some st') (map (fun r : string => (r, if String.eqb r b then Some st else None)) L) ->
                                            o_name st' = Some nm -> nm = reg).
  { intros reg st' nm HIn Hn. apply in_map_iff in HIn. destruct HIn as (r & Hx & _). inversion Hx; subst.
    destruct (String.eqb_spec reg b); [|discriminate]. subst. inversion H1; subst. rewrite Hb in Hn. inversion Hn. reflexivity. }
  split; [intros reg st' nm HIn Hn; left; exact (G _ _ _ HIn Hn)|intros fs reg st' nm HIn Hn; left; exact (G _ _ _ HIn Hn)].
Qed.

(* generic: a core dict with NoDup keys whose only origins are the keys themselves, widened *)
Lemma widened_tracking_sound d fulls s rho0 rho rho' :
  NoDup (map fst d) -> safe_origin_dict d ->
  (forall reg st nm, In (reg, Some st) d -> o_name st = Some nm -> nm = reg \/ ~ In nm fulls) ->
  changes_describe d rho rho' -> describes s rho0 rho ->
  exists cs, to_changes (widen fulls d) = Some cs /\ describes (update_changes s cs) rho0 rho'.
Proof.
  intros ND SO Hf CD D.
  exact (instruction_tracking_sound _ s rho0 rho rho' (widen_nodup fulls d ND) (safe_origin_dict_widen fulls d ND SO Hf)
                                    (changes_describe_widen fulls d rho rho' CD) D).
Qed.

(* an instruction without tracked operation and without write-back *)
Theorem plain_tracking_sound dests fulls ops isa s rho0 rho rho' :
  has_operation isa = false -> forallb no_wb ops = true -> plain_step dests rho rho' -> describes s rho0 rho ->
  exists l cs, get_reg_changes true dests fulls ops isa false = RcOk l /\ to_changes l = Some cs /\
               describes (update_changes s cs) rho0 rho'.
Proof.
  intros Hop Hpre Hstep D. destruct (rc_no_operation_sound dests ops isa rho rho' Hop Hpre Hstep) as (l & E & CD).
  destruct (rc_core_keys _ _ _ _ E) as (ND & _).
  assert (NS : forall reg st, ~ In (reg, Some st) l).
  { rewrite rc_no_operation in E by assumption. inversion E; subst. intros reg st HIn.
    apply in_map_iff in HIn. destruct HIn as (? & Hx & _). discriminate. }
  destruct (widened_tracking_sound l fulls s rho0 rho rho' ND) as (cs & Ec & D'); try assumption.
  - intros reg st nm HIn. destruct (NS _ _ HIn).
  - intros reg st nm HIn. destruct (NS _ _ HIn).
  - exists (widen fulls l), cs. rewrite get_reg_changes_full, E. repeat split; assumption.
Qed.

(* pre-indexed access [b, #k]!: the reported bump keeps the description valid *)
Theorem preindexed_tracking_sound dests fulls pre suf isa b k s rho0 rho rho' :
  has_operation isa = false -> forallb no_wb pre = true -> forallb no_wb suf = true ->
  wb_step dests b k rho rho' -> describes s rho0 rho ->
  exists l cs, get_reg_changes true dests fulls (pre ++ IMem (Some b) (OffImm (Some k)) true PostFalse :: suf) isa false = RcOk l /\
               to_changes l = Some cs /\ describes (update_changes s cs) rho0 rho'.
Proof.
  intros Hop Hpre Hsuf Hstep D.
  destruct (rc_preindexed_sound dests pre suf isa b k rho rho' Hop Hpre Hsuf Hstep) as (l & E & CD).
  destruct (rc_core_keys _ _ _ _ E) as (ND & _).
  pose proof E as E0. rewrite rc_preindexed in E0 by assumption. inversion E0; subst.
  destruct (base_only_safe_origin b (mkO (Some b) (Some k)) (dedup [] dests) eq_refl) as (SO & Hf).
  destruct (widened_tracking_sound _ fulls s rho0 rho rho' ND SO (Hf fulls) CD D) as (cs & Ec & D').
  eexists _, cs. rewrite get_reg_changes_full, E. repeat split; eassumption.
Qed.

(* post-indexed access [b], #v / [b], xm: the two dicts of the scan -- get_reg_changes(..) applied before is_memload looks at
   the line, get_reg_changes(.., only_postindexed=True) after it -- follow the two architectural steps: after the first
   dict the tracked state describes the register file at the access (base not yet bumped), after the second the final one *)
Theorem postindexed_tracking_sound dests fulls pre suf isa b off p s rho0 rho rho_mid rho' :
  let ops := (pre ++ IMem (Some b) off false p :: suf)%list in
  has_operation isa = false -> forallb no_wb pre = true -> forallb no_wb suf = true -> is_postdict p = true ->
  access_step dests b rho rho_mid -> bump_step b p rho_mid rho' -> describes s rho0 rho ->
  exists l cs lp cp,
    get_reg_changes true dests fulls ops isa false = RcOk l /\ to_changes l = Some cs /\
    get_reg_changes true dests fulls ops isa true = RcOk lp /\ to_changes lp = Some cp /\
    describes (update_changes s cs) rho0 rho_mid /\
    describes (update_changes (update_changes s cs) cp) rho0 rho'.
Proof.
  intros ops Hop Hpre Hsuf Hp (Hb & Hother) (Hrest & Hbump) D.
  pose proof (rc_postindexed_main dests pre suf isa b off p Hop Hpre Hsuf Hp) as E. fold ops in E.
  assert (CD : changes_describe (map (fun r => (r, if String.eqb r b then Some (mkO (Some b) (Some 0)) else None)) (dedup [] dests)) rho rho_mid).
  { split.
    - intros reg c HIn. apply in_map_iff in HIn. destruct HIn as (r & Ex & _). inversion Ex; subst.
      destruct (String.eqb_spec reg b); [subst|exact I]. eexists _, _. cbn. repeat split. lia.
    - intros r Hr. apply Hother. intros HIn. apply Hr. rewrite map_map. cbn [fst]. rewrite map_id. apply dedup_spec. cbn. tauto. }
  destruct (rc_core_keys _ _ _ _ E) as (ND & _).
  destruct (base_only_safe_origin b (mkO (Some b) (Some 0)) (dedup [] dests) eq_refl) as (SO & Hf).
  destruct (widened_tracking_sound _ fulls s rho0 rho rho_mid ND SO (Hf fulls) CD D) as (cs & Ec & D1).
  assert (Hnp : forallb no_postdict pre = true).
  { clear -Hpre. induction pre as [|o pre IH]; [reflexivity|]. cbn [forallb] in *. apply andb_true_iff in Hpre. destruct Hpre as [Ho H].
    rewrite IH by exact H. rewrite andb_true_r. destruct o as [| |[?|] ? [|] [|?|]|]; try discriminate; reflexivity. }
  pose proof (rc_postindexed dests pre suf isa b off false p Hnp Hp) as Ep. fold ops in Ep.
  eexists _, cs, (post_dict b p), (match p with PostImm v => [(b, Some (b, v))] | _ => [(b, None)] end).
  split; [rewrite get_reg_changes_full, E; reflexivity|]. split; [exact Ec|].
  split; [rewrite get_reg_changes_post; exact Ep|]. split; [destruct p; reflexivity|]. split; [exact D1|].
  assert (A : apply_change rho_mid b (match p with PostImm v => Some (b, v) | _ => None end) rho').
  { split; [exact Hrest|]. destruct p; try exact I. exact Hbump. }
  pose proof (update_one_describes _ rho0 rho_mid rho' b _ D1 A) as D2.
  destruct p; exact D2.
Qed.

(* ---------------------------------------------------------------- refutation: a REGISTER operand's value used as an addend *)
(* The state of a register operand is {name: itself, value: 0} ("unchanged relative to itself"); an operation that adds or
   subtracts such a 'value' treats the register's content as the integer 0.  These are the entries x86 SBB gpr,gpr and
   AArch64 ADDS/SUBS reg,reg,reg as shipped before the fix (the regenerated table must not contain such an entry:
   PropsGen/C06ops.v).  Witness replayed on the implementation: `movq %rdx,(%rbx); sbbq %rax,%rbx; movq (%rbx),%rsi`. *)
Definition sbb_regreg_entry : op_entry :=
  mkOp true "SBB" 0 [mkP KReg true false; mkP KReg true true] [SAugValue 2 false (VVal 1)] "op2['value'] -= (op1['value'])".
Definition adds_regreg_entry : op_entry :=
  mkOp false "ADDS" 0 [mkP KReg false true; mkP KReg true false; mkP KReg true false]
       [SSetValue 1 (VAdd (VVal 2) (VVal 3)); SSetName 1 2] "op1['value'] = op2['value'] + op3['value']; op1['name'] = op2['name']".

Theorem register_addend_refuted_x86 : ~ entry_sound sbb_regreg_entry.
Proof.
  intros ES. destruct (ES [IReg "rax"; IReg "rbx"]) as (l & E & _ & _ & CD); [cbn; tauto|].
  vm_compute in E. inversion E; subst; clear E.
  set (rho := fun r : string => if r =? "rax" then 1 else 0).
  destruct (CD rho 0 "rbx" (-1) eq_refl) as (_ & _ & Hc). specialize (Hc _ (or_introl eq_refl)).
  destruct Hc as (nm & k & En & Ek & Hv). cbn in En, Ek. inversion En; inversion Ek; subst. vm_compute in Hv. discriminate.
Qed.

Theorem register_addend_refuted_a64 : ~ entry_sound adds_regreg_entry.
Proof.
  intros ES. destruct (ES [IReg "x1"; IReg "x2"; IReg "x3"]) as (l & E & _ & _ & CD); [cbn; tauto|].
  vm_compute in E. inversion E; subst; clear E.
  set (rho := fun r : string => if r =? "x3" then 8 else 0).
  destruct (CD rho 0 "x1" 8 eq_refl) as (_ & _ & Hc). specialize (Hc _ (or_introl eq_refl)).
  destruct Hc as (nm & k & En & Ek & Hv). cbn in En, Ek. inversion En; inversion Ek; subst. vm_compute in Hv. discriminate.
Qed.

(* ---------------------------------------------------------------- non-vacuity *)
Definition canon_names : list string := ["ra"; "rb"; "rc"; "rd"; "re"; "rf"; "rg"; "rh"].
Fixpoint canon_ops (i : nat) (pat : list pat1) : list iop :=
  match pat with
  | [] => []
  | p :: r => (match p_kind p with
               | KReg => IReg (nth i canon_names "rz")
               | KImm => IImm (Some 7)
               | KMem => IMem None OffNone false PostFalse
               end) :: canon_ops (S i) r
  end.
Lemma canon_matches pat : forall i, matches pat (canon_ops i pat).
Proof. induction pat as [|p pat IH]; intros i; cbn; [exact I|]. split; [destruct (p_kind p); exact I|apply IH]. Qed.

Definition inhabited_b (e : op_entry) : bool :=
  match arch_effect (oe_x86 e) (oe_mnem e) (canon_ops 0 (oe_pat e)) (fun _ => 0) 0 with Some _ => true | None => false end.

Lemma inhabited_b_sound e : inhabited_b e = true -> entry_inhabited e.
Proof.
  unfold inhabited_b. destruct (arch_effect (oe_x86 e) (oe_mnem e) (canon_ops 0 (oe_pat e)) (fun _ => 0) 0) as [[d v]|] eqn:E; [|discriminate].
  intros _. exists (canon_ops 0 (oe_pat e)), (fun _ => 0), (fun r => if r =? d then v else 0).
  split; [apply canon_matches|]. exists 0, d, v. split; [left; reflexivity|]. split; [exact E|]. split.
  - rewrite String.eqb_refl. reflexivity.
  - intros r Hr. destruct (String.eqb_spec r d); [contradiction|reflexivity].
Qed.

Example arch_step_add_nonvacuous :
  arch_step true "ADD" [IImm (Some 8); IReg "rax"] (fun _ => 5) (fun r => if r =? "rax" then 13 else 5).
Proof.
  exists 0, "rax", 13. repeat split; [left; reflexivity|].
  intros r Hr. destruct (String.eqb_spec r "rax"); [contradiction|reflexivity].
Qed.

(* the shipped shapes, proved here once by hand-copied entries (the regenerated table is proved in PropsGen/C06ops.v) *)
Example add_imm_x86_sound :
  entry_sound (mkOp true "ADD" 0 [mkP KImm true false; mkP KReg true true] [SAugValue 2 true (VVal 1)] "op2['value'] += op1['value']").
Proof. unfold entry_sound; cbn [oe_pat oe_x86 oe_mnem]. solve_entry. Qed.

Example mov_x86_sound :
  entry_sound (mkOp true "MOV" 0 [mkP KReg true false; mkP KReg false true] [SSetName 2 1; SSetValue 2 (VVal 1)]
                    "op2['name'] = op1['name']; op2['value'] = op1['value']").
Proof. unfold entry_sound; cbn [oe_pat oe_x86 oe_mnem]. solve_entry. Qed.

(* add x1, x1, #4 and add x1, x2, #4 alike: all register choices, including the same register twice *)
Example add_imm_a64_sound :
  entry_sound (mkOp false "ADD" 0 [mkP KReg false true; mkP KReg true false; mkP KImm true false]
                    [SSetValue 1 (VAdd (VVal 2) (VVal 3)); SSetName 1 2] "op1['value'] = op2['value'] + op3['value']; op1['name'] = op2['name']").
Proof. unfold entry_sound; cbn [oe_pat oe_x86 oe_mnem]. solve_entry. Qed.

(* dropping the copy of the name is unsound (add x1, x2, #4 would be reported as x1 + 4) *)
Example add_imm_a64_without_name_copy_refuted :
  ~ entry_sound (mkOp false "ADD" 0 [mkP KReg false true; mkP KReg true false; mkP KImm true false]
                      [SSetValue 1 (VAdd (VVal 2) (VVal 3))] "op1['value'] = op2['value'] + op3['value']").
Proof.
  intros ES. destruct (ES [IReg "x1"; IReg "x2"; IImm (Some 4)]) as (l & E & _ & _ & CD); [cbn; tauto|].
  vm_compute in E. inversion E; subst; clear E.
  set (rho := fun r : string => if r =? "x2" then 100 else 0).
  destruct (CD rho 0 "x1" 104 eq_refl) as (_ & _ & Hc). specialize (Hc _ (or_introl eq_refl)).
  destruct Hc as (nm & k & En & Ek & Hv). cbn in En, Ek. inversion En; inversion Ek; subst. vm_compute in Hv. discriminate.
Qed.

(* the pre-0bfe782 rule (the LAST operand naming a register wins) is what made add x1, x1, #4 lose its increment:
   with the destination flag consulted, the written operand's state is reported *)
Example same_register_source_and_destination :
  get_reg_changes_core true ["x1"] [IReg "x1"; IReg "x1"; IImm (Some 4)]
                  (Some (mkRC [true; false; false] (Some [SSetValue 1 (VAdd (VVal 2) (VVal 3)); SSetName 1 2]))) false
  = RcOk [("x1", Some (mkO (Some "x1") (Some 4)))].
Proof. vm_compute. reflexivity. Qed.

(* Python exceptions are explicit: an operation reading a memory operand's state raises NameError *)
Example memory_operand_has_no_state :
  get_reg_changes_core true ["rax"] [IMem (Some "rbx") OffNone false PostFalse; IReg "rax"]
                  (Some (mkRC [false; true] (Some [SAugValue 2 true (VVal 1)]))) false = RcErr ENameError.
Proof. vm_compute. reflexivity. Qed.

(* ---------------------------------------------------------------- sub-register aliasing *)
(* Architectural registers with narrower views (rax: eax, ax, al; x1: w1): a name r is a view of the architectural register
   fam r, reading it gives the content modulo width r (2^64, 2^32, 2^16, 2^8); a write through a narrow view leaves the rest of
   the architectural register arbitrary (covers zero-extension and preservation); arithmetic wraps around.  This is the
   semantics of the Python oracle in harness/regchg.py.  is_full r: r is the full-width (address-capable) name of its register. *)
Section Alias.
  Variable fam : string -> string.
  Variable width : string -> Z.
  Variable full_of : string -> string.

  Definition astate := string -> Z.
  Definition aread (sg : astate) (r : string) : Z := sg (fam r) mod width r.
  Definition is_full (r : string) : Prop := full_of (fam r) = r.

  (* the `fulls` input is right: every destination register is full-width or its full-width register is listed *)
  Definition fulls_ok (dests fulls : list string) : Prop :=
    forall d, In d dests -> is_full d \/ In (full_of (fam d)) fulls.

  Definition alias_step (x86 : bool) (mnem : string) (ops : list iop) (sg sg' : astate) : Prop :=
    exists cf d v, (cf = 0 \/ cf = 1) /\ arch_effect x86 mnem ops (aread sg) cf = Some (d, v) /\
                   aread sg' d = v mod width d /\ forall f, f <> fam d -> sg' f = sg f.

  (* a reported (name, value) holds modulo the width of the reported register; every FULL-WIDTH register that is not
     reported is unchanged (the consumer treats an absent register as unchanged and only addresses through full-width ones) *)
  Definition alias_describe (l : rc_dict) (sg sg' : astate) : Prop :=
    (forall reg c, In (reg, c) l ->
       match c with
       | Some st => exists nm k, o_name st = Some nm /\ o_value st = Some k /\ aread sg' reg = (aread sg nm + k) mod width reg
       | None => True
       end) /\
    (forall r, is_full r -> ~ In r (map fst l) -> aread sg' r = aread sg r).

  (* ANY instruction (with or without operation): if only architectural registers of destination registers change, a
     full-width register that get_reg_changes does not report is unchanged *)
  Theorem unreported_fullwidth_unchanged dests fulls ops isa l sg sg' :
    get_reg_changes true dests fulls ops isa false = RcOk l -> fulls_ok dests fulls ->
    (forall f, (forall d, In d dests -> f <> fam d) -> sg' f = sg f) ->
    forall r, is_full r -> ~ In r (map fst l) -> aread sg' r = aread sg r.
  Proof.
    intros E FO Hstep r Fr Nr. destruct (rc_keys _ _ _ _ _ E) as (_ & K).
    assert (Nd : ~ In r dests) by (intros H; apply Nr; apply K; left; exact H).
    assert (Nf : ~ In r fulls) by (intros H; apply Nr; apply K; right; exact H).
    unfold aread. rewrite (Hstep (fam r)); [reflexivity|].
    intros d Hd Ef. unfold is_full in Fr. destruct (FO d Hd) as [Fd|Fd].
    - unfold is_full in Fd. apply Nd. rewrite <- Fr, Ef, Fd. exact Hd.
    - apply Nf. rewrite <- Fr, Ef. exact Fd.
  Qed.

  (* the table entries against the aliasing semantics *)
  Theorem entry_sound_alias e :
    entry_sound e ->
    forall ops fulls, matches (oe_pat e) ops -> fulls_ok (pattern_dests (oe_pat e) ops) fulls ->
    exists l, get_reg_changes true (pattern_dests (oe_pat e) ops) fulls ops (Some (entry_of e)) false = RcOk l /\
              forall sg sg', alias_step (oe_x86 e) (oe_mnem e) ops sg sg' -> alias_describe l sg sg'.
  Proof.
    intros ES ops fulls M FO. destruct (ES ops M) as (l & E & _ & _ & CD).
    assert (E' : get_reg_changes true (pattern_dests (oe_pat e) ops) fulls ops (Some (entry_of e)) false = RcOk (widen fulls l))
      by (rewrite get_reg_changes_full, E; reflexivity).
    exists (widen fulls l). split; [exact E'|]. intros sg sg' (cf & d & v & _ & He & Hd & Hf).
    destruct (CD (aread sg) cf d v He) as (Hin & Honly & Hcl). split.
    - intros reg c HIn. destruct (widen_in fulls l reg c HIn) as [H|[_ ->]]; [|exact I].
      assert (reg = d) by (apply Honly; apply in_map_iff; exists (reg, c); split; [reflexivity|exact H]). subst reg.
      specialize (Hcl c H). destruct c as [st|]; [|exact I]. destruct Hcl as (nm & k & En & Ek & Ev).
      exists nm, k. repeat split; try assumption. rewrite Hd, Ev. reflexivity.
    - apply (unreported_fullwidth_unchanged _ _ _ _ _ sg sg' E' FO). intros f Hall. apply Hf. apply Hall.
      destruct (rc_core_keys _ _ _ _ E) as (_ & K). apply K. exact Hin.
  Qed.

  (* with the `fulls` input right, the full-width register of every written sub-register is reported as unknown *)
  Theorem subregister_write_unknown dests fulls ops isa l d :
    get_reg_changes true dests fulls ops isa false = RcOk l -> fulls_ok dests fulls ->
    In d dests -> ~ is_full d ->
    In (full_of (fam d), None) l /\ forall st, ~ In (full_of (fam d), Some st) l.
  Proof.
    intros E FO Hd Nf. destruct (FO d Hd) as [F|F]; [contradiction|]. exact (subregister_write_no_claim _ _ _ _ _ _ E F).
  Qed.
End Alias.

(* a tiny instance: eax is the low half of rax *)
Definition ex_fam (r : string) : string := if r =? "eax" then "rax" else r.
Definition ex_width (r : string) : Z := if r =? "eax" then 2 ^ 32 else 2 ^ 64.
Definition ex_full (f : string) : string := f.
Definition ex_addl : list iop := [IImm (Some 8); IReg "eax"].
Definition ex_add_entry : rc_entry := mkRC [false; true] (Some [SAugValue 2 true (VVal 1)]).

(* addl $8, %eax *)
Example subregister_write_example :
  get_reg_changes true ["eax"] ["rax"] ex_addl (Some ex_add_entry) false
  = RcOk [("eax", Some (mkO (Some "eax") (Some 8))); ("rax", None)].
Proof. vm_compute. reflexivity. Qed.

Example fulls_ok_example : fulls_ok ex_fam ex_full ["eax"] ["rax"].
Proof. intros d [<-|[]]. right. left. reflexivity. Qed.

(* the 32-bit addition wraps around, the upper half of rax is cleared *)
Example alias_step_nonvacuous :
  alias_step ex_fam ex_width true "ADD" ex_addl (fun _ => 2 ^ 32 - 4) (fun f => if f =? "rax" then 4 else 2 ^ 32 - 4).
Proof.
  exists 0, "eax", (2 ^ 32 + 4). split; [left; reflexivity|]. split; [vm_compute; reflexivity|]. split; [vm_compute; reflexivity|].
  intros f Hf. change (ex_fam "eax") with "rax" in Hf. destruct (String.eqb_spec f "rax"); [contradiction|reflexivity].
Qed.

(* the finding, in the model: WITHOUT the full-width entry (fulls = [], the behaviour before the repair) the dict of
   `addl $8, %eax` does not describe the step -- rax is full-width, unreported, and changes *)
Example without_fullwidth_report_refuted :
  exists l sg sg',
    get_reg_changes true ["eax"] [] ex_addl (Some ex_add_entry) false = RcOk l /\
    alias_step ex_fam ex_width true "ADD" ex_addl sg sg' /\ ~ alias_describe ex_fam ex_width ex_full l sg sg'.
Proof.
  eexists _, (fun _ => 2 ^ 32 - 4), (fun f => if f =? "rax" then 4 else 2 ^ 32 - 4).
  split; [vm_compute; reflexivity|]. split; [exact alias_step_nonvacuous|].
  intros (_ & H). specialize (H "rax" eq_refl). cbn in H. assert (N : ~ ("eax" = "rax" \/ False)) by (intros [E|[]]; discriminate).
  specialize (H N). vm_compute in H. discriminate.
Qed.
