(* get_reg_changes (Model/RegChanges.v) against a concrete register-file semantics -- DESIGN.md C06 / C03.

   Registers hold integers (regfile = name -> Z, as in Proofs/MemDep.v; names are prefix+name, no sub-register aliasing
   and no wrap-around: see notes/C06-regchanges.md).  `arch_effect` is the hand-written architectural meaning of the
   instructions whose ISA entries carry an `operation:` (x86 add/sub/sbb/inc/dec/mov, AArch64 add(s)/sub(s)/mov);
   it never looks at the operation strings.

   entry_sound e:  for every instruction matching the operand pattern of the ISA entry e, the model of get_reg_changes
   (which interprets e's operation string) returns a dict, and for every architectural step rho -> rho' of that
   instruction the dict describes the step:  a reported change (name, value) means  rho' reg = rho name + value,
   None means unknown, and every register that is not reported is unchanged.

   This is exactly what `apply_change` / `describes` of Proofs/MemDep.v need: `update_changes_describes` lifts
   update_one_describes to the whole dict of one instruction, and the corollaries at the end compose the three. *)
From Coq Require Import ZArith List Bool String Lia.
From OV Require Import Model.Num Model.Pressure Model.Deps Model.RegChanges Proofs.MemDep.
Import ListNotations.
Open Scope Z_scope.
Open Scope string_scope.

(* ---------------------------------------------------------------- architectural semantics (specification) *)
Definition opval (rho : regfile) (o : iop) : option Z :=
  match o with IReg r => Some (rho r) | IImm (Some k) => Some k | _ => None end.

(* destination register and its new value; cf = the carry flag read by sbb/adc.  mnem is the (upper-case, suffix-free)
   name of the ISA entry; operand order as written: AT&T source first on x86, destination first on AArch64 *)
Definition arch_effect (x86 : bool) (mnem : string) (ops : list iop) (rho : regfile) (cf : Z) : option (string * Z) :=
  if x86 then
    match ops with
    | [IReg d] =>
      if mnem =? "INC" then Some (d, rho d + 1)
      else if mnem =? "DEC" then Some (d, rho d - 1)
      else None
    | [s; IReg d] =>
      match opval rho s with
      | None => None
      | Some k =>
        if mnem =? "ADD" then Some (d, rho d + k)
        else if mnem =? "SUB" then Some (d, rho d - k)
        else if mnem =? "ADC" then Some (d, rho d + k + cf)
        else if mnem =? "SBB" then Some (d, rho d - k - cf)
        else if mnem =? "MOV" then Some (d, k)
        else None
      end
    | _ => None
    end
  else
    match ops with
    | [IReg d; s] =>
      if mnem =? "MOV" then match opval rho s with Some k => Some (d, k) | None => None end else None
    | [IReg d; IReg n; s] =>
      match opval rho s with
      | None => None
      | Some k =>
        if orb (mnem =? "ADD") (mnem =? "ADDS") then Some (d, rho n + k)
        else if orb (mnem =? "SUB") (mnem =? "SUBS") then Some (d, rho n - k)
        else None
      end
    | _ => None
    end.

Definition arch_step (x86 : bool) (mnem : string) (ops : list iop) (rho rho' : regfile) : Prop :=
  exists cf d v, (cf = 0 \/ cf = 1) /\ arch_effect x86 mnem ops rho cf = Some (d, v) /\
                 rho' d = v /\ forall r, r <> d -> rho' r = rho r.

(* an instruction with base write-back (AArch64 pre-/post-index) and no tracked operation: the base is bumped by the
   immediate, the other destination registers change arbitrarily, nothing else changes *)
Definition wb_step (dests : list string) (b : string) (k : Z) (rho rho' : regfile) : Prop :=
  rho' b = rho b + k /\ forall r, ~ In r dests -> rho' r = rho r.

(* an instruction without tracked operation and without write-back: only destination registers change *)
Definition plain_step (dests : list string) (rho rho' : regfile) : Prop :=
  forall r, ~ In r dests -> rho' r = rho r.

(* ---------------------------------------------------------------- what a returned dict claims *)
Definition changes_describe (l : rc_dict) (rho rho' : regfile) : Prop :=
  (forall reg c, In (reg, c) l ->
     match c with
     | Some st => exists nm v, o_name st = Some nm /\ o_value st = Some v /\ rho' reg = rho nm + v
     | None => True
     end) /\
  (forall r, ~ In r (map fst l) -> rho' r = rho r).

Definition kind_ok (k : pkind) (o : iop) : Prop :=
  match k, o with
  | KReg, IReg _ => True
  | KImm, IImm (Some _) => True
  | KMem, IMem _ _ false PostFalse => True
  | _, _ => False
  end.
Fixpoint matches (pat : list pat1) (ops : list iop) : Prop :=
  match pat, ops with
  | [], [] => True
  | p :: pt, o :: ot => kind_ok (p_kind p) o /\ matches pt ot
  | _, _ => False
  end.

Definition entry_sound (e : op_entry) : Prop :=
  forall ops, matches (oe_pat e) ops ->
  exists l, get_reg_changes true (pattern_dests (oe_pat e) ops) ops (Some (entry_of e)) false = RcOk l /\
            forall rho rho', arch_step (oe_x86 e) (oe_mnem e) ops rho rho' -> changes_describe l rho rho'.

(* the instruction is in the vocabulary of arch_effect: the soundness statement is not vacuous *)
Definition entry_inhabited (e : op_entry) : Prop :=
  exists ops rho rho', matches (oe_pat e) ops /\ arch_step (oe_x86 e) (oe_mnem e) ops rho rho'.

(* ---------------------------------------------------------------- proof automation for one table entry *)
Lemma eqb_neq_l a b : a <> b -> String.eqb a b = false.
Proof. apply String.eqb_neq. Qed.
Lemma eqb_neq_r a b : a <> b -> String.eqb b a = false.
Proof. intros H. apply String.eqb_neq. congruence. Qed.

Ltac split_names :=
  repeat match goal with
         | a : string, b : string |- _ =>
           lazymatch a with
           | b => fail
           | _ =>
             lazymatch goal with
             | _ : a <> b |- _ => fail
             | _ : b <> a |- _ => fail
             | _ => destruct (String.eqb_spec a b); [subst|]
             end
           end
         end.

Ltac norm_eqb :=
  repeat progress
    (cbn -[String.eqb Z.add Z.sub Z.eqb];
     rewrite ?String.eqb_refl;
     repeat match goal with
            | H : ?a <> ?b |- context [String.eqb ?a ?b] => rewrite (eqb_neq_l a b H)
            | H : ?a <> ?b |- context [String.eqb ?b ?a] => rewrite (eqb_neq_r a b H)
            end).

Ltac norm_eqb_in H0 :=
  repeat progress
    (cbn -[String.eqb Z.add Z.sub Z.eqb] in H0;
     rewrite ?String.eqb_refl in H0;
     repeat match type of H0 with
            | context [String.eqb ?a ?b] =>
              match goal with
              | H : a <> b |- _ => rewrite (eqb_neq_l a b H) in H0
              | H : b <> a |- _ => rewrite (eqb_neq_r b a H) in H0
              end
            end).

Ltac destruct_ops M :=
  repeat match type of M with
         | match ?x with _ => _ end => destruct x; try contradiction
         | _ /\ _ =>
           let M1 := fresh "M1" in
           destruct M as [M1 M];
           repeat match type of M1 with match ?x with _ => _ end => destruct x; try contradiction end;
           clear M1
         end.

Ltac solve_entry :=
  let ops := fresh "ops" in let M := fresh "M" in
  intros ops M; cbn in M;
  destruct_ops M;
  split_names;
  (eexists; split;
   [ unfold get_reg_changes, pattern_dests, entry_of; norm_eqb; reflexivity
   | let rho := fresh "rho" in let rho' := fresh "rho'" in
     let cf := fresh "cf" in let d := fresh "d" in let v := fresh "v" in
     let Hcf := fresh "Hcf" in let He := fresh "He" in let Hd := fresh "Hd" in let Ho := fresh "Ho" in
     intros rho rho' (cf & d & v & Hcf & He & Hd & Ho);
     cbn in He; inversion He; subst; clear He;
     split;
     [ let reg := fresh "reg" in let c := fresh "c" in let HIn := fresh "HIn" in
       intros reg c HIn; cbn in HIn;
       repeat (destruct HIn as [HIn|HIn]; [inversion HIn; subst; clear HIn|]); try contradiction;
       try exact I;
       eexists _, _; split; [reflexivity|split; [reflexivity|]];
       repeat match goal with
              | H : forall r, r <> ?x -> _, N : ?y <> ?x |- context [?f ?y] => rewrite (H y N)
              end;
       try rewrite Hd; lia
     | let r := fresh "r" in let Hr := fresh "Hr" in
       intros r Hr; apply Ho; intros ->; apply Hr; cbn; auto ] ]).
