(* Lemmas about Model/PyPost.v (the dynamic layer's additions for the parsers' post-processing stage):
   the literal-key operations are the general ones; int(s, 0) / int(s) on the numerals of the hand model;
   " ".join on words; generic facts about loops that append. *)
From Coq Require Import String Ascii List Bool ZArith NArith Lia.
From OV Require Import Model.PyString Model.PyDyn Model.PyPost Model.LexA64 Model.ParseA64 Model.SyntaxA64 Proofs.PyDyn.
Import ListNotations.
Open Scope string_scope.

Ltac allch :=
  let c := fresh "c" in
  intros c; destruct c as [[|] [|] [|] [|] [|] [|] [|] [|]]; vm_compute; intros; try reflexivity; try discriminate.

(* ------------------------------------------------------------------ literal keys *)
Lemma py_in_lit_eq : forall k c, py_in_lit k c = py_in_v (PStr k) c.
Proof. intros k []; simpl; auto; try (unfold py_in_v, py_in; rewrite assoc_dict_find; reflexivity). Qed.
Lemma py_dict_get_lit_eq : forall d k x, py_dict_get_lit d k x = py_dict_get d (PStr k) x.
Proof. intros [] k x; simpl; auto; try (rewrite assoc_dict_find; reflexivity). Qed.
Lemma fset_dset : forall k v l, fset k v l = dset k v l.
Proof. induction l as [|[k' x] t IH]; simpl; auto; try (rewrite key_eqb_eq, IH; reflexivity). Qed.
Lemma py_setitem_lit_eq : forall c k v, py_setitem_lit c k v = py_setitem c (PStr k) v.
Proof. intros [] k v; simpl; auto; try (rewrite fset_dset; reflexivity). Qed.

(* ------------------------------------------------------------------ lower case *)
Lemma low_char_low : forall c, low_char c = low c.
Proof. reflexivity. Qed.
Lemma py_lower_lower : forall s, py_lower s = lower s.
Proof. induction s as [|c s IH]; simpl; auto; try (unfold py_lower, lower in *; simpl; rewrite IH; reflexivity). Qed.
Lemma py_upper_upper : forall s, py_upper s = upper s.
Proof. induction s as [|c s IH]; simpl; auto; try (unfold py_upper, upper in *; simpl; rewrite IH; reflexivity). Qed.
Lemma py_lower_cons : forall c s, py_lower (String c s) = String (low c) (py_lower s).
Proof. reflexivity. Qed.
Lemma py_lower_nil : py_lower "" = "".
Proof. reflexivity. Qed.
Lemma low_idem : forall c, low (low c) = low c.
Proof. allch. Qed.
Lemma lower_idem : forall s, lower (lower s) = lower s.
Proof. induction s as [|c s IH]; simpl; auto; try (unfold lower in *; simpl; rewrite low_idem, IH; reflexivity). Qed.

(* ------------------------------------------------------------------ numerals *)
Lemma digit_not_minus : forall c, is_digit c = true -> ceq "-" c = false.
Proof. allch. Qed.
Lemma digit_not_x : forall c, is_digit c = true -> ceq "x" c = false /\ ceq "X" c = false.
Proof. allch; split; reflexivity. Qed.
Lemma hex_not_minus : forall c, is_hex c = true -> ceq "-" c = false.
Proof. allch. Qed.

Lemma digits_head_not_minus : forall d, all_digits d = true -> head_is (ceq "-") d = false.
Proof.
  intros [|c r] H; [reflexivity|]. unfold all_digits in H. simpl in H. apply andb_true_iff in H. destruct H as [H _].
  simpl. apply digit_not_minus. exact H.
Qed.
Lemma digits_not_0x : forall d, all_digits d = true -> prefix_of "0x" d = false /\ prefix_of "0X" d = false.
Proof.
  intros d H. unfold all_digits in H. apply andb_true_iff in H. destruct H as [_ H].
  destruct d as [|c [|c2 r]]; try (split; reflexivity).
  - split; unfold prefix_of; rewrite andb_false_r; reflexivity.
  - simpl in H. apply andb_true_iff in H. destruct H as [_ H]. apply andb_true_iff in H. destruct H as [H _].
    destruct (digit_not_x c2 H) as [A B].
    split; unfold prefix_of; [rewrite A|rewrite B]; simpl; rewrite andb_false_r; reflexivity.
Qed.

Lemma int_dec0 : forall d, dec_ok d = true -> int_of_string true d = Ok (dec_val d).
Proof.
  intros d H. assert (A : all_digits d = true) by (unfold dec_ok in H; apply andb_true_iff in H; tauto).
  unfold int_of_string. rewrite (digits_head_not_minus d A). unfold int_body.
  destruct (digits_not_0x d A) as [P Q]. rewrite P, Q. simpl. rewrite A, H. reflexivity.
Qed.
Lemma int_dec10 : forall d, all_digits d = true -> int_of_string false d = Ok (dec_val d).
Proof.
  intros d A. unfold int_of_string. rewrite (digits_head_not_minus d A). unfold int_body. rewrite A. reflexivity.
Qed.
Lemma int_hex0 : forall d, hex_ok d = true -> int_of_string true ("0x" ++ d) = Ok (hex_val d).
Proof. intros d H. unfold int_of_string. simpl. rewrite H. reflexivity. Qed.

Lemma opp_bind : forall (r : res Z) z, r = Ok z -> bind r (fun z => Ok (Z.opp z)) = Ok (Z.opp z).
Proof. intros r z ->. reflexivity. Qed.

Lemma int_neg : forall b X z, head_is (ceq "-") X = false -> int_of_string b X = Ok z ->
  int_of_string b (String "-" X) = Ok (Z.opp z).
Proof.
  intros b X z H E. unfold int_of_string in *. rewrite H in E.
  change (head_is (ceq "-") (String "-" X)) with true. cbv iota. change (drop 1 (String "-" X)) with X.
  rewrite E. reflexivity.
Qed.
Lemma hexword_head : forall d, head_is (ceq "-") ("0x" ++ d) = false.
Proof. reflexivity. Qed.

(* int(w, 0) of a written numeral is its value *)
Lemma int_num_word : forall n, num_okb n = true -> int_of_string true (num_word n) = Ok (num_value n).
Proof.
  intros [neg hex d] H. unfold num_okb in H. cbn [n_hex n_digits] in H. unfold num_word, num_value. cbn [n_neg n_hex n_digits].
  destruct neg, hex.
  - change ("-" ++ "0x" ++ d) with (String "-" ("0x" ++ d)). apply int_neg; [apply hexword_head | apply (int_hex0 d H)].
  - change ("-" ++ "" ++ d) with (String "-" d). apply int_neg; [| apply (int_dec0 d H)].
    apply digits_head_not_minus. unfold dec_ok in H. apply andb_true_iff in H. tauto.
  - apply (int_hex0 d H).
  - apply (int_dec0 d H).
Qed.
(* int(w) of a non-negative decimal numeral *)
Lemma int10_num_word : forall n, num_okb n = true -> n_neg n = false -> n_hex n = false ->
  int_of_string false (num_word n) = Ok (num_value n).
Proof.
  intros [neg hex d] H N X. cbn in N, X. subst. unfold num_okb in H. cbn [n_hex n_digits] in H. unfold num_word, num_value. cbn [n_neg n_hex n_digits].
  change ("" ++ "" ++ d) with d. apply int_dec10. unfold dec_ok in H. apply andb_true_iff in H. tauto.
Qed.

(* ------------------------------------------------------------------ join *)
Lemma join_words : forall ws, join_strs " " (map PStr ws) = Ok (String.concat " " ws).
Proof.
  induction ws as [|a [|b t] IH]; simpl; auto.
  simpl in IH. rewrite IH. reflexivity.
Qed.

(* ------------------------------------------------------------------ finite sweeps over register numbers *)
Lemma below32 : forall (f : nat -> bool), forallb f (seq 0 32) = true -> forall n, Nat.ltb n 32 = true -> f n = true.
Proof.
  intros f F n H. rewrite forallb_forall in F. apply F. apply in_seq. apply Nat.ltb_lt in H. lia.
Qed.

(* ------------------------------------------------------------------ loops that append *)
(* for x in xs: acc.append(f x)   -- body given pointwise *)
Lemma for_append : forall (xs : list pyval) (f : pyval -> pyval) (body : pyval -> pyval -> res (ctl pyval)) (acc : list pyval),
  (forall x a, In x xs -> body x (PList a) = Ok (Next (PList (a ++ [f x])%list))) ->
  py_for xs body (PList acc) = Ok (Next (PList (acc ++ map f xs)%list)).
Proof.
  induction xs as [|x t IH]; intros f body acc H; simpl.
  - rewrite app_nil_r. reflexivity.
  - rewrite (H x acc (or_introl eq_refl)). simpl. rewrite (IH f body (acc ++ [f x])%list).
    + rewrite <- app_assoc. reflexivity.
    + intros y a Hy. apply H. right. exact Hy.
Qed.

(* x[0], x[1] on a literal list (list_index contains a `let`, which zeta-free evaluation does not open) *)
Lemma list_index_0 : forall x l, PyDyn.list_index (x :: l) 0 = Ok x.
Proof. reflexivity. Qed.
Lemma list_index_1 : forall x y l, PyDyn.list_index (x :: y :: l) 1 = Ok y.
Proof. reflexivity. Qed.
