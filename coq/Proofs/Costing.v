(* Proofs about Model/Costing.v (C08).  Structural facts hold for ANY numeric instance (hence for the
   binary64 instance the correspondence check runs); arithmetic facts are proved for exact rationals. *)
From Coq Require Import QArith Qfield Lqa Lia List Bool Arith String ZArith.
From OV Require Import Model.Num Model.Pressure Model.Costing Proofs.PressureQ.
Import ListNotations.

(* ------------------------------------------------------------------ specification vocabulary *)
Section Spec.
  Context {T : Type} (N : NumOps T).

  (* the load micro-ops the property speaks of: the chosen row of the addressing shape, if the instruction loads *)
  Definition ld_uops (lk : lookup (T:=T)) : list (@uop T) :=
    if lk_has_ld lk then match choose_load_row (lk_ld_rows lk) with Ok us => us | Err _ => [] end else [].
  (* the store micro-ops: the first row handed back for shape and source type, unless only a base register is written back *)
  Definition st_uops (m : mach (T:=T)) (lk : lookup (T:=T)) : list (@uop T) :=
    if lk_has_st lk then match store_uops m lk with Ok us => us | Err _ => [] end else [].

  (* the data-port pressure vector (load + store part, multipliers applied) *)
  Definition data_pressure (m : mach (T:=T)) (lk : lookup (T:=T)) (rt : string) : res (list T) :=
    match load_part N m lk rt with
    | Ok (dpp, duops) => match store_part N m lk rt dpp duops with Ok (dpp2, _, _) => Ok dpp2 | Err e => Err e end
    | Err e => Err e
    end.

  Definition is_typed (r : ldrow (T:=T)) : bool := match r_dst r with Some _ => r_ok r | None => false end.
End Spec.

(* ------------------------------------------------------------------ any numeric instance *)
Section Generic.
  Context {T : Type} (N : NumOps T).
  Local Open Scope nat_scope.

  Lemma compose_inv m lk e rtr c :
    compose N m lk e rtr = Ok c ->
    exists rt dpp duops dpp2 duops2 st' mx t l ll rpp,
      rtr = Ok rt /\ load_part N m lk rt = Ok (dpp, duops) /\
      store_part N m lk rt dpp duops = Ok (dpp2, duops2, st') /\
      list_max N dpp2 = Ok mx /\ e_tp e = Some t /\ e_lt e = Some l /\
      (if lk_has_ld lk then load_latency N m rt else Ok (n0 N)) = Ok ll /\
      avg_pressure N (m_ports m) (e_uops e) = Ok rpp /\
      c = mkcost (match e_uops e with UList us => PList (us ++ duops2) | UDict alts => PKeys (List.length alts) duops2 end)
                 (add2 N dpp2 rpp) (nadd N (nadd N l ll) (n0 N)) l (pymax N mx t)
                 (mkflags (lk_has_ld lk) st' false false false false).
  Proof.
    unfold compose. intros H.
    destruct rtr as [rt|]; cbn [bind] in H; [|discriminate].
    destruct (load_part N m lk rt) as [[dpp duops]|] eqn:EL; cbn [bind] in H; [|discriminate].
    destruct (store_part N m lk rt dpp duops) as [[[dpp2 duops2] st']|] eqn:ES; cbn [bind] in H; [|discriminate].
    destruct (list_max N dpp2) as [mx|] eqn:EM; cbn [bind] in H; [|discriminate].
    destruct (e_tp e) as [t|] eqn:ET; cbn [bind] in H; [|discriminate].
    destruct (if lk_has_ld lk then load_latency N m rt else Ok (n0 N)) as [ll|] eqn:ELL; cbn [bind] in H; [|discriminate].
    destruct (e_lt e) as [l|] eqn:ELt; cbn [bind] in H; [|discriminate].
    destruct (avg_pressure N (m_ports m) (e_uops e)) as [rpp|] eqn:ER; cbn [bind] in H; [|discriminate].
    inversion H; subst c. exists rt, dpp, duops, dpp2, duops2, st', mx, t, l, ll, rpp. repeat split; first [assumption | reflexivity].
  Qed.

  Lemma load_part_uops m lk rt dpp duops :
    load_part N m lk rt = Ok (dpp, duops) -> duops = ld_uops lk.
  Proof.
    unfold load_part, ld_uops. destruct (lk_has_ld lk).
    - destruct (choose_load_row (lk_ld_rows lk)) as [us|]; cbn [bind]; [|discriminate].
      destruct (avg_pressure_list N (m_ports m) us); cbn [bind]; [|discriminate].
      destruct (scale_by N (m_ld_mult m) rt a); cbn [bind]; [|discriminate].
      intros H; inversion H; reflexivity.
    - intros H; inversion H; reflexivity.
  Qed.

  Lemma store_part_uops m lk rt dpp duops dpp2 duops2 st' :
    store_part N m lk rt dpp duops = Ok (dpp2, duops2, st') ->
    duops2 = duops ++ st_uops m lk /\ st' = andb (lk_has_st lk) (negb (writeback_only (m_isa m) lk)).
  Proof.
    unfold store_part, st_uops. destruct (lk_has_st lk).
    - destruct (store_uops m lk) as [st|]; cbn [bind]; [|discriminate].
      destruct (avg_pressure_list N (m_ports m) st); cbn [bind]; [|discriminate].
      destruct (scale_by N (m_st_mult m) rt a); cbn [bind]; [|discriminate].
      intros H; inversion H; split; reflexivity.
    - intros H; inversion H. rewrite app_nil_r. split; reflexivity.
  Qed.

  (* port_uops = register form ++ load ++ store *)
  Lemma compose_uops m lk e rtr c ru :
    compose N m lk e rtr = Ok c -> e_uops e = UList ru ->
    c_uops c = PList (ru ++ ld_uops lk ++ st_uops m lk).
  Proof.
    intros H HU. destruct (compose_inv _ _ _ _ _ H) as (rt & dpp & duops & dpp2 & duops2 & st' & mx & t & l & ll & rpp &
      _ & HL & HS & _ & _ & _ & _ & _ & ->).
    cbn [c_uops]. rewrite HU. apply load_part_uops in HL. apply store_part_uops in HS. destruct HS as [-> _]. subst duops.
    reflexivity.
  Qed.

  (* latency = register form + load latency of the register type (+ store latency 0); latency_wo_load = register form *)
  Lemma compose_latency m lk e rtr c :
    compose N m lk e rtr = Ok c ->
    exists rt l ll, rtr = Ok rt /\ e_lt e = Some l /\
      (if lk_has_ld lk then load_latency N m rt else Ok (n0 N)) = Ok ll /\
      c_lat c = nadd N (nadd N l ll) (n0 N) /\ c_lat_wo c = l.
  Proof.
    intros H. destruct (compose_inv _ _ _ _ _ H) as (rt & dpp & duops & dpp2 & duops2 & st' & mx & t & l & ll & rpp &
      Hr & _ & _ & _ & _ & Hl & Hll & _ & ->).
    exists rt, l, ll. repeat split; assumption.
  Qed.

  (* throughput = max(max(data pressure), register-form throughput), as an expression *)
  Lemma compose_throughput_expr m lk e rt c :
    compose N m lk e (Ok rt) = Ok c ->
    exists d mx t, data_pressure N m lk rt = Ok d /\ list_max N d = Ok mx /\ e_tp e = Some t /\ c_tp c = pymax N mx t.
  Proof.
    intros H. destruct (compose_inv _ _ _ _ _ H) as (rt' & dpp & duops & dpp2 & duops2 & st' & mx & t & l & ll & rpp &
      Hr & HL & HS & HM & Ht & _ & _ & _ & ->).
    inversion Hr; subst rt'. exists dpp2, mx, t. unfold data_pressure. rewrite HL, HS. repeat split; assumption.
  Qed.

  Lemma mkflags_no_unknown a b f :
    f = F_TP_UNKWN \/ f = F_LT_UNKWN -> ~ In f (mkflags a b false false false false).
  Proof. intros [->| ->]; destruct a, b; cbn; intuition discriminate. Qed.

  (* a composed instruction is not flagged unknown; it keeps HAS_LD, keeps HAS_ST unless only a register is written back *)
  Lemma compose_flags m lk e rtr c :
    compose N m lk e rtr = Ok c ->
    ~ In F_TP_UNKWN (c_flags c) /\ ~ In F_LT_UNKWN (c_flags c) /\
    c_flags c = mkflags (lk_has_ld lk) (andb (lk_has_st lk) (negb (writeback_only (m_isa m) lk))) false false false false.
  Proof.
    intros H. destruct (compose_inv _ _ _ _ _ H) as (rt & dpp & duops & dpp2 & duops2 & st' & mx & t & l & ll & rpp &
      _ & _ & HS & _ & _ & _ & _ & _ & ->).
    cbn [c_flags]. apply store_part_uops in HS. destruct HS as [_ ->].
    repeat split; try apply mkflags_no_unknown; auto.
  Qed.

  Lemma compose_not_unknown m lk e rt c :
    with_fallback (lk_suffix lk) (lk_direct lk) (lk_direct_s lk) = None ->
    regform lk = Some (e, rt) ->
    cost_instr N m lk = Ok c ->
    ~ In F_TP_UNKWN (c_flags c) /\ ~ In F_LT_UNKWN (c_flags c).
  Proof.
    intros HD HR H. unfold cost_instr in H. rewrite HD, HR in H.
    destruct (compose_flags _ _ _ _ _ H) as (A & B & _). split; assumption.
  Qed.

  (* neither form: flags set, one zero per port, zero latency / latency_wo_load / throughput, no micro-ops *)
  Lemma unknown_zero m lk :
    with_fallback (lk_suffix lk) (lk_direct lk) (lk_direct_s lk) = None ->
    regform lk = None ->
    exists c, cost_instr N m lk = Ok c /\
      In F_TP_UNKWN (c_flags c) /\ In F_LT_UNKWN (c_flags c) /\
      c_pp c = map (fun _ => n0 N) (m_ports m) /\ List.length (c_pp c) = List.length (m_ports m) /\
      (forall x, In x (c_pp c) -> x = n0 N) /\
      c_lat c = n0 N /\ c_lat_wo c = n0 N /\ c_tp c = n0 N /\ c_uops c = PList [].
  Proof.
    intros HD HR. unfold cost_instr. rewrite HD, HR. eexists; split; [reflexivity|].
    cbn [unknown c_flags c_pp c_lat c_lat_wo c_tp c_uops]. unfold zeros.
    repeat split.
    - unfold mkflags. destruct (lk_has_ld lk), (lk_has_st lk); cbn; auto 10.
    - unfold mkflags. destruct (lk_has_ld lk), (lk_has_st lk); cbn; auto 10.
    - apply map_length.
    - intros x Hx. apply in_map_iff in Hx. destruct Hx as (? & <- & _). reflexivity.
  Qed.

  (* costing a kernel is a map: every line's result is a function of that line's own data *)
  Lemma kernel_pointwise m k i :
    nth_error (cost_kernel N m k) i = option_map (cost_line N m) (nth_error k i).
  Proof. unfold cost_kernel. apply nth_error_map. Qed.

  Lemma unknown_frame m k1 u k2 :
    cost_kernel N m (k1 ++ u :: k2) = cost_kernel N m k1 ++ cost_line N m u :: cost_kernel N m k2 /\
    cost_kernel N m (k1 ++ k2) = cost_kernel N m k1 ++ cost_kernel N m k2.
  Proof. unfold cost_kernel. rewrite !map_app. split; reflexivity. Qed.

  (* ---- which row ---- *)
  Lemma filter_first {A} (f : A -> bool) : forall l x r,
    filter f l = x :: r ->
    exists i, nth_error l i = Some x /\ f x = true /\ forall j y, j < i -> nth_error l j = Some y -> f y = false.
  Proof.
    induction l as [|a l IH]; intros x r H; [discriminate|].
    cbn [filter] in H. destruct (f a) eqn:Fa.
    - inversion H; subst. exists 0. repeat split; auto. intros j y Hj. lia.
    - destruct (IH _ _ H) as (i & Hi & Fx & Hlt). exists (S i). repeat split; auto.
      intros [|j] y Hj Hy; [cbn in Hy; inversion Hy; subst; exact Fa|]. apply (Hlt j y); [lia|exact Hy].
  Qed.

  Lemma filter_nil {A} (f : A -> bool) l : filter f l = [] -> forall y, In y l -> f y = false.
  Proof.
    induction l as [|a l IH]; intros H y Hy; [destruct Hy|]. cbn [filter] in H. destruct (f a) eqn:Fa; [discriminate|].
    destruct Hy as [<-|Hy]; auto.
  Qed.

  (* the load row: the FIRST row (of those returned for the addressing shape) that names a register type and whose
     type matches the register type of the operand that replaced the memory operand; if there is none, the first row
     (the default row when no shape matched); IndexError only if there is no memory operand to look up *)
  Lemma row_choice_load (rows : list (ldrow (T:=T))) :
    match choose_load_row rows with
    | Err e => rows = [] /\ e = EIndex
    | Ok us =>
        (exists i r d, nth_error rows i = Some r /\ r_dst r = Some d /\ r_ok r = true /\ us = r_uops r /\
                       forall j y, j < i -> nth_error rows j = Some y -> is_typed y = false)
        \/ ((forall y, In y rows -> is_typed y = false) /\ exists r rest, rows = r :: rest /\ us = r_uops r)
    end.
  Proof.
    unfold choose_load_row. destruct rows as [|first rest]; [split; reflexivity|].
    unfold typed_rows. fold (@is_typed T).
    destruct (filter (@is_typed T) (first :: rest)) as [|r rs] eqn:EF.
    - right. split; [apply filter_nil; exact EF|]. exists first, rest. split; reflexivity.
    - left. destruct (filter_first _ _ _ _ EF) as (i & Hi & Fx & Hlt).
      unfold is_typed in Fx. destruct (r_dst r) as [d|] eqn:ED; [|discriminate].
      exists i, r, d. repeat split; auto.
  Qed.

  (* the store row: the first row handed back for (addressing shape, source register type) -- or nothing when only
     the base register is written back *)
  Lemma row_choice_store (m : mach (T:=T)) (lk : lookup (T:=T)) :
    match store_uops m lk with
    | Err e => lk_st_rows lk = [] /\ e = EIndex
    | Ok us => exists r rest, lk_st_rows lk = r :: rest /\ us = if writeback_only (m_isa m) lk then [] else r
    end.
  Proof. unfold store_uops. destruct (lk_st_rows lk) as [|r rest]; [split; reflexivity|]. exists r, rest. split; reflexivity. Qed.

  Lemma writeback_spec (i : isa) (lk : lookup (T:=T)) :
    writeback_only i lk = true <->
    i = A64 /\ lk_dest_has_mem lk = false /\ forall b, In b (lk_srcdst_wb lk) -> b = true.
  Proof.
    unfold writeback_only. destruct i.
    - split; [discriminate|]. intros (H & _); discriminate.
    - rewrite andb_true_iff, negb_true_iff, forallb_forall. split.
      + intros (A & B). repeat split; auto.
      + intros (_ & A & B). split; auto.
  Qed.

  (* ---- avg_go: length and concatenation (any instance) ---- *)
  Lemma set_nth_length {A} : forall (l : list A) i v l', set_nth l i v = Ok l' -> List.length l' = List.length l.
  Proof.
    induction l as [|x l IH]; intros i v l' H; [destruct i; discriminate|].
    destruct i; cbn in H.
    - inversion H; reflexivity.
    - destruct (set_nth l i v) eqn:E; cbn in H; [|discriminate]. inversion H; cbn. f_equal. eapply IH; eauto.
  Qed.

  Lemma avg_add_ports_length ports share : forall ps acc acc',
    avg_add_ports N ports acc share ps = Ok acc' -> List.length acc' = List.length acc.
  Proof.
    induction ps as [|p ps IH]; intros acc acc' H; cbn [avg_add_ports] in H.
    - inversion H; reflexivity.
    - destruct (port_index ports p); [|discriminate].
      destruct (nth_res acc n); cbn [bind] in H; [|discriminate].
      destruct (set_nth acc n (nadd N a share)) eqn:E; cbn [bind] in H; [|discriminate].
      rewrite (IH _ _ H). eapply set_nth_length; eauto.
  Qed.

  Lemma avg_go_length ports : forall us acc v, avg_go N ports acc us = Ok v -> List.length v = List.length acc.
  Proof.
    induction us as [|[c ps] us IH]; intros acc v H; cbn [avg_go] in H.
    - inversion H; reflexivity.
    - destruct (avg_add_ports N ports acc _ ps) eqn:E; cbn [bind] in H; [|discriminate].
      rewrite (IH _ _ H). eapply avg_add_ports_length; eauto.
  Qed.

  Lemma avg_list_length ports us v : avg_pressure_list N ports us = Ok v -> List.length v = List.length ports.
  Proof. unfold avg_pressure_list. intros H. apply avg_go_length in H. rewrite H. apply map_length. Qed.

  Lemma avg_go_app ports : forall a b acc,
    avg_go N ports acc (a ++ b) = bind (avg_go N ports acc a) (fun acc' => avg_go N ports acc' b).
  Proof.
    induction a as [|[c ps] a IH]; intros b acc; [reflexivity|].
    cbn [app avg_go]. destruct (avg_add_ports N ports acc _ ps); cbn [bind]; [apply IH|reflexivity].
  Qed.
End Generic.

(* ------------------------------------------------------------------ exact rationals *)
Open Scope Q_scope.

Lemma qnth_overflow l j : (List.length l <= j)%nat -> qnth l j = 0.
Proof. intros H. unfold qnth. apply nth_overflow. exact H. Qed.

Lemma qnth_map (f : Q -> Q) l j : f 0 == 0 -> qnth (map f l) j == f (qnth l j).
Proof.
  intros F0. destruct (lt_dec j (List.length l)) as [Hj|Hj].
  - unfold qnth. rewrite (nth_indep (map f l) 0 (f 0)) by (rewrite map_length; exact Hj). rewrite map_nth. reflexivity.
  - rewrite !qnth_overflow by (try rewrite map_length; lia). symmetry. exact F0.
Qed.

Lemma nsumQ2 a b : nsum QNum [a; b] == a + b.
Proof. change (nsum QNum [a; b]) with (Qred (Qred (0 + a) + b)). rewrite !Qred_correct. ring. Qed.

Lemma qnth_add2 : forall a b j, List.length a = List.length b -> qnth (add2 QNum a b) j == qnth a j + qnth b j.
Proof.
  unfold add2. induction a as [|x a IH]; intros [|y b] j HL; try discriminate.
  - unfold qnth. destruct j; cbn; ring.
  - destruct j as [|j].
    + unfold qnth. cbn [combine map nth fst snd]. apply nsumQ2.
    + cbn [combine map]. unfold qnth in *. cbn [nth]. apply IH. cbn in HL. lia.
Qed.

Lemma add2_length {T} (N : NumOps T) a b : List.length a = List.length b -> List.length (add2 N a b) = List.length a.
Proof. intros H. unfold add2. rewrite map_length, combine_length. lia. Qed.

Lemma qnth_zeros ports j : qnth (zeros QNum ports) j == 0.
Proof. unfold zeros, qnth. revert j. induction ports as [|p ports IH]; intros [|j]; cbn; try reflexivity. apply IH. Qed.

(* multiplier the property speaks of: the table entry of the register type, 1 when the model has no table *)
Definition mult_of (tab : option (list (string * Q))) (rt : string) : Q :=
  match tab with None => 1 | Some t => match assoc rt t with Ok m => m | Err _ => 1 end end.

Lemma scale_by_spec tab rt pp pp' :
  scale_by QNum tab rt pp = Ok pp' ->
  List.length pp' = List.length pp /\ forall j, qnth pp' j == mult_of tab rt * qnth pp j.
Proof.
  unfold scale_by, mult_of. destruct tab as [t|].
  - destruct (assoc rt t) as [mu|]; cbn [bind]; [|discriminate]. intros H; inversion H; subst. split; [apply map_length|].
    intros j. rewrite (qnth_map (fun p => nmul QNum p mu)).
    + cbn [nmul QNum]. rewrite Qred_correct. ring.
    + cbn [nmul QNum]. rewrite Qred_correct. ring.
  - intros H; inversion H; subst. split; [reflexivity|]. intros j. ring.
Qed.

(* pressure contributed on top of an accumulator does not depend on the accumulator *)
Lemma avg_add_ports_shift ports share : forall ps acc acc0 v w,
  avg_add_ports QNum ports acc share ps = Ok v -> avg_add_ports QNum ports acc0 share ps = Ok w ->
  forall j, qnth v j - qnth acc j == qnth w j - qnth acc0 j.
Proof.
  induction ps as [|p ps IH]; intros acc acc0 v w Hv Hw j; cbn [avg_add_ports] in *.
  - inversion Hv; inversion Hw; subst. ring.
  - destruct (port_index ports p) as [i|]; [|discriminate].
    destruct (nth_res acc i) as [x|] eqn:NX; cbn [bind] in Hv; [|discriminate].
    destruct (nth_res acc0 i) as [x0|] eqn:NX0; cbn [bind] in Hw; [|discriminate].
    destruct (set_nth acc i (nadd QNum x share)) as [a1|] eqn:S1; cbn [bind] in Hv; [|discriminate].
    destruct (set_nth acc0 i (nadd QNum x0 share)) as [a01|] eqn:S01; cbn [bind] in Hw; [|discriminate].
    pose proof (IH _ _ _ _ Hv Hw j) as HI.
    destruct (PressureQ.set_nth_ok _ _ _ _ 0 S1) as (_ & N1 & O1).
    destruct (PressureQ.set_nth_ok _ _ _ _ 0 S01) as (_ & N01 & O01).
    destruct (PressureQ.nth_res_ok _ _ _ 0 NX) as (X & _).
    destruct (PressureQ.nth_res_ok _ _ _ 0 NX0) as (X0 & _).
    assert (E : qnth a1 j - qnth acc j == qnth a01 j - qnth acc0 j).
    { unfold qnth. destruct (Nat.eq_dec j i) as [->|Hne].
      - rewrite N1, N01, X, X0. cbn [nadd QNum]. rewrite !Qred_correct. ring.
      - rewrite (O1 j Hne), (O01 j Hne). ring. }
    lra.
Qed.

Lemma avg_go_shift ports : forall us acc acc0 v w,
  avg_go QNum ports acc us = Ok v -> avg_go QNum ports acc0 us = Ok w ->
  forall j, qnth v j - qnth acc j == qnth w j - qnth acc0 j.
Proof.
  induction us as [|[c ps] us IH]; intros acc acc0 v w Hv Hw j; cbn [avg_go] in *.
  - inversion Hv; inversion Hw; subst. ring.
  - destruct (avg_add_ports QNum ports acc _ ps) as [a1|] eqn:A1; cbn [bind] in Hv; [|discriminate].
    destruct (avg_add_ports QNum ports acc0 _ ps) as [a01|] eqn:A01; cbn [bind] in Hw; [|discriminate].
    pose proof (IH _ _ _ _ Hv Hw j). pose proof (avg_add_ports_shift _ _ _ _ _ _ _ A1 A01 j). lra.
Qed.

(* uniform pressure of a concatenation = sum of the uniform pressures (link to C01's avg_pressure) *)
Lemma avg_concat3 ports a b c r l s t :
  avg_pressure_list QNum ports a = Ok r -> avg_pressure_list QNum ports b = Ok l ->
  avg_pressure_list QNum ports c = Ok s -> avg_pressure_list QNum ports (a ++ b ++ c) = Ok t ->
  forall j, qnth t j == qnth r j + qnth l j + qnth s j.
Proof.
  unfold avg_pressure_list. intros Hr Hl Hs Ht j.
  rewrite avg_go_app, Hr in Ht. cbn [bind] in Ht. rewrite avg_go_app in Ht.
  destruct (avg_go QNum ports r b) as [t1|] eqn:E1; cbn [bind] in Ht; [|discriminate].
  pose proof (avg_go_shift _ _ _ _ _ _ E1 Hl j) as S1.
  pose proof (avg_go_shift _ _ _ _ _ _ Ht Hs j) as S2.
  pose proof (qnth_zeros ports j) as Z. unfold zeros in Z. cbn [n0 QNum] in Z. unfold zero in *. cbn [n0 QNum] in *.
  lra.
Qed.

(* pressure = register form + m_ld * load + m_st * store, port by port *)
Lemma compose_pressure_Q m lk e rt c r l s :
  compose QNum m lk e (Ok rt) = Ok c ->
  avg_pressure QNum (m_ports m) (e_uops e) = Ok r ->
  avg_pressure_list QNum (m_ports m) (ld_uops lk) = Ok l ->
  avg_pressure_list QNum (m_ports m) (st_uops m lk) = Ok s ->
  List.length (c_pp c) = List.length (m_ports m) /\
  forall j, qnth (c_pp c) j == qnth r j + mult_of (m_ld_mult m) rt * qnth l j + mult_of (m_st_mult m) rt * qnth s j.
Proof.
  intros H Hr Hl Hs.
  destruct (compose_inv _ _ _ _ _ _ H) as (rt' & dpp & duops & dpp2 & duops2 & st' & mx & t & lt & ll & rpp &
    Hrt & HL & HS & _ & _ & _ & _ & HR & ->).
  inversion Hrt; subst rt'. rewrite Hr in HR. inversion HR; subst rpp. cbn [c_pp].
  assert (Lr : List.length r = List.length (m_ports m)).
  { destruct (e_uops e) as [us|[|a alts]]; cbn [avg_pressure] in Hr; try discriminate; eapply avg_list_length; eauto. }
  (* load part *)
  assert (HLs : List.length dpp = List.length (m_ports m) /\ forall j, qnth dpp j == mult_of (m_ld_mult m) rt * qnth l j).
  { unfold load_part in HL. unfold ld_uops in Hl. destruct (lk_has_ld lk).
    - destruct (choose_load_row (lk_ld_rows lk)) as [us|]; cbn [bind] in HL; [|discriminate].
      rewrite Hl in HL. cbn [bind] in HL.
      destruct (scale_by QNum (m_ld_mult m) rt l) as [pp'|] eqn:ESc; cbn [bind] in HL; [|discriminate].
      inversion HL; subst. destruct (scale_by_spec _ _ _ _ ESc) as (L1 & V1). split; [|exact V1].
      rewrite L1. eapply avg_list_length; eauto.
    - inversion HL; subst. split; [apply map_length|]. intros j. rewrite qnth_zeros.
      cbv in Hl. inversion Hl; subst l. pose proof (qnth_zeros (m_ports m) j) as Z. unfold zeros in Z. cbn [n0 QNum] in Z.
      rewrite Z. ring. }
  destruct HLs as (Ld & Vd).
  (* store part *)
  assert (HSs : List.length dpp2 = List.length (m_ports m) /\
                forall j, qnth dpp2 j == qnth dpp j + mult_of (m_st_mult m) rt * qnth s j).
  { unfold store_part in HS. unfold st_uops in Hs. destruct (lk_has_st lk).
    - destruct (store_uops m lk) as [st|]; cbn [bind] in HS; [|discriminate].
      rewrite Hs in HS. cbn [bind] in HS.
      destruct (scale_by QNum (m_st_mult m) rt s) as [pp'|] eqn:ESc; cbn [bind] in HS; [|discriminate].
      inversion HS; subst. destruct (scale_by_spec _ _ _ _ ESc) as (L1 & V1).
      assert (Ls : List.length s = List.length (m_ports m)) by (eapply avg_list_length; eauto).
      split; [rewrite add2_length; congruence|]. intros j. rewrite qnth_add2 by congruence. rewrite V1. ring.
    - inversion HS; subst. split; [exact Ld|]. intros j.
      cbv in Hs. inversion Hs; subst s. pose proof (qnth_zeros (m_ports m) j) as Z. unfold zeros in Z. cbn [n0 QNum] in Z.
      rewrite Z. ring. }
  destruct HSs as (Ls2 & Vs2).
  split; [rewrite add2_length; congruence|].
  intros j. rewrite qnth_add2 by congruence. rewrite Vs2, Vd. ring.
Qed.

(* ... and, without multipliers, it is exactly the uniform split (C01) of the composed micro-op list *)
Lemma compose_pressure_uniform m lk e rt c ru r l s t :
  compose QNum m lk e (Ok rt) = Ok c -> e_uops e = UList ru ->
  m_ld_mult m = None -> m_st_mult m = None ->
  avg_pressure_list QNum (m_ports m) ru = Ok r ->
  avg_pressure_list QNum (m_ports m) (ld_uops lk) = Ok l ->
  avg_pressure_list QNum (m_ports m) (st_uops m lk) = Ok s ->
  avg_pressure_list QNum (m_ports m) (ru ++ ld_uops lk ++ st_uops m lk) = Ok t ->
  c_uops c = PList (ru ++ ld_uops lk ++ st_uops m lk) /\ forall j, qnth (c_pp c) j == qnth t j.
Proof.
  intros H HU M1 M2 Hr Hl Hs Ht. split; [eapply compose_uops; eauto|].
  assert (Hr' : avg_pressure QNum (m_ports m) (e_uops e) = Ok r) by (rewrite HU; exact Hr).
  destruct (compose_pressure_Q _ _ _ _ _ _ _ _ H Hr' Hl Hs) as (_ & V).
  intros j. rewrite V, M1, M2. cbn [mult_of]. rewrite (avg_concat3 _ _ _ _ _ _ _ _ Hr Hl Hs Ht j). ring.
Qed.

(* ---- throughput: the larger of the register form's throughput and the busiest data port ---- *)
Lemma fold_max_Q : forall l x m,
  fold_left (fun m y => if nltb QNum m y then y else m) l x = m ->
  (m = x \/ In m l) /\ x <= m /\ forall y, In y l -> y <= m.
Proof.
  induction l as [|a l IH]; intros x m H; cbn [fold_left] in H.
  - subst. repeat split; auto; [lra|]. intros y [].
  - destruct (IH _ _ H) as (A & B & C).
    cbn [nltb QNum] in *. unfold Qltb in *.
    destruct (Qle_bool a x) eqn:E; cbn [negb] in *.
    + apply Qle_bool_iff in E. repeat split.
      * destruct A; [left|right; right]; assumption.
      * exact B.
      * intros y [<-|Hy]; [lra|auto].
    + assert (x < a). { apply Qnot_le_lt. intros Hle. apply Qle_bool_iff in Hle. congruence. }
      repeat split.
      * destruct A as [->|A]; [right; left; reflexivity|right; right; exact A].
      * lra.
      * intros y [<-|Hy]; [exact B|auto].
Qed.

Lemma list_max_Q l m : list_max QNum l = Ok m -> In m l /\ forall y, In y l -> y <= m.
Proof.
  unfold list_max. destruct l as [|x l]; [discriminate|]. intros H. injection H as H1.
  destruct (fold_max_Q _ _ _ H1) as (A & B & C). split.
  - destruct A as [->|A]; [left; reflexivity|right; exact A].
  - intros y [<-|Hy]; auto.
Qed.

Lemma compose_throughput_Q m lk e rt c :
  compose QNum m lk e (Ok rt) = Ok c ->
  exists d t, data_pressure QNum m lk rt = Ok d /\ e_tp e = Some t /\
    t <= c_tp c /\ (forall y, In y d -> y <= c_tp c) /\ (c_tp c = t \/ In (c_tp c) d).
Proof.
  intros H. destruct (compose_throughput_expr _ _ _ _ _ _ H) as (d & mx & t & Hd & Hm & Ht & ->).
  exists d, t. destruct (list_max_Q _ _ Hm) as (A & B). repeat split; auto.
  - unfold pymax. cbn [nltb QNum]. unfold Qltb. destruct (Qle_bool t mx) eqn:E; cbn [negb].
    + apply Qle_bool_iff in E. exact E.
    + lra.
  - intros y Hy. specialize (B y Hy). unfold pymax. cbn [nltb QNum]. unfold Qltb. destruct (Qle_bool t mx) eqn:E; cbn [negb]; [exact B|].
    assert (mx < t). { apply Qnot_le_lt. intros Hle. apply Qle_bool_iff in Hle. congruence. } lra.
  - unfold pymax. cbn [nltb QNum]. unfold Qltb. destruct (Qle_bool t mx); cbn [negb]; auto.
Qed.

Lemma compose_latency_Q m lk e rt c :
  compose QNum m lk e (Ok rt) = Ok c ->
  exists l ll, e_lt e = Some l /\ (if lk_has_ld lk then load_latency QNum m rt else Ok 0) = Ok ll /\
    c_lat c == l + ll /\ c_lat_wo c = l.
Proof.
  intros H. destruct (compose_latency _ _ _ _ _ _ H) as (rt' & l & ll & Hr & Hl & Hll & Hc & Hw).
  inversion Hr; subst rt'. exists l, ll. repeat split; auto. rewrite Hc. cbn [nadd QNum n0]. rewrite !Qred_correct. ring.
Qed.
