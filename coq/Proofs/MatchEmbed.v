(* C07 -- facts about the embedding Model/MatchEmbed.v that do not depend on translated code:
   foreign objects fail every isinstance test of the matcher; the enumerate loop of `_match_operands` and the
   first-match search of `get_instruction`, each for an ARBITRARY loop body / condition that is pointwise the hand
   model's step (PropsGen/C07gen.v instantiates them with the translated text). *)
From Coq Require Import String Ascii List Bool Arith ZArith NArith Lia.
From OV Require Import Model.PyString Model.PyDyn Model.Match Model.MatchSpec Model.MatchEmbed Proofs.PyDyn.
Import ListNotations.
Open Scope string_scope.
Local Open Scope list_scope.

Lemma isinst_foreign : forall e i f c, wf_env e -> In c known_classes ->
  py_isinstance (PObj (e_fcls e) i f) [c] = PBool false.
Proof.
  intros e i f c [_ H] Hin. unfold py_isinstance. cbn [existsb py_isinstance1].
  rewrite forallb_forall in H. specialize (H c Hin). apply negb_true_iff in H. rewrite H. reflexivity.
Qed.

(* what the parsers deliver is never a DB-format dict *)
Lemma wf_operand_dict_ok : forall a o, wf_operand a o = true -> dict_ok o.
Proof. intros a [] H; simpl in *; auto; discriminate. Qed.

(* ---------------------------------------------------------------- _match_operands: the enumerate loop *)
Definition step_res (r : Match.res) : PyDyn.res (ctl pyval) :=
  match r with Some b => Ok (Next (PBool b)) | None => Raise AttributeError end.

Section Loop.
  Variables (a : isa) (eo : env).
  Variable body : pyval -> pyval -> PyDyn.res (ctl pyval).
  Variable allp : list pattern.
  Hypothesis body_spec : forall k p o ok, nth_error allp k = Some p -> dict_ok o ->
    body (PList [PInt (Z.of_nat k); embed_operand eo o]) (PBool ok)
    = step_res (if ok then check_operand a p o else Some false).

  Lemma loop_ok : forall ops pre pats ok,
    allp = pre ++ pats -> length pats = length ops -> Forall dict_ok ops ->
    py_for (enum_from (Z.of_nat (length pre)) (map (embed_operand eo) ops)) body (PBool ok)
    = step_res (if ok then match_all a pats ops else Some false).
  Proof.
    induction ops as [|o os IH]; intros pre pats ok Hall Hlen Hd.
    - destruct pats; [|discriminate]. simpl. destruct ok; reflexivity.
    - destruct pats as [|p ps]; [discriminate|]. simpl in Hlen. injection Hlen as Hlen.
      inversion Hd as [|? ? Hdo Hds]; subst.
      cbn [map enum_from py_for].
      rewrite (body_spec (length pre) p o ok); [| rewrite nth_error_app2, Nat.sub_diag by auto; reflexivity | assumption].
      replace (Z.of_nat (length pre) + 1)%Z with (Z.of_nat (length (pre ++ [p]))) by (rewrite app_length; simpl; lia).
      destruct ok.
      + cbn [match_all]. destruct (check_operand a p o) as [[|]|]; cbn [step_res bind].
        * rewrite (IH (pre ++ [p]) ps true); [reflexivity | rewrite <- app_assoc; reflexivity | assumption | assumption].
        * rewrite (IH (pre ++ [p]) ps false); [reflexivity | rewrite <- app_assoc; reflexivity | assumption | assumption].
        * reflexivity.
      + cbn [step_res bind]. rewrite (IH (pre ++ [p]) ps false); [reflexivity | rewrite <- app_assoc; reflexivity | assumption | assumption].
  Qed.
End Loop.

Lemma nth_embed_pats : forall ep allp k p, nth_error allp k = Some p ->
  py_getitem (embed_pats ep allp) (PInt (Z.of_nat k)) = Ok (embed_pattern ep p).
Proof.
  intros ep allp k p H. unfold embed_pats, py_getitem, list_index.
  assert (E : (Z.of_nat k <? 0)%Z = false) by (apply Z.ltb_ge; lia).
  cbv zeta. rewrite !E. rewrite Nat2Z.id. rewrite nth_error_map, H. reflexivity.
Qed.

Lemma len_eqb_embed : forall tab ep eo (pats : list pattern) (ops : list operand),
  py_eqb tab (PInt (zlen (map (embed_operand eo) ops))) (PInt (zlen (map (embed_pattern ep) pats)))
  = Nat.eqb (length ops) (length pats).
Proof.
  intros. cbn [py_eqb]. unfold zlen. rewrite !map_length.
  destruct (Nat.eqb_spec (length ops) (length pats)) as [E|E]; [apply Z.eqb_eq; lia | apply Z.eqb_neq; lia].
Qed.

(* ---------------------------------------------------------------- get_instruction: first match *)
Definition dflt_entry : entry := E "" [].
(* what the implementation returns for a model answer: the InstructionForm object at that position of the table *)
Definition lookup_res (ep : env) (tbl : list entry) (l : lookup) : PyDyn.res pyval :=
  match l with
  | Found i => Ok (embed_form ep (nth i tbl dflt_entry))
  | NotFound => Ok PNone
  | Raised => Raise AttributeError
  end.
Definition first_res (ep : env) (tbl : list entry) (l : lookup) : PyDyn.res (option pyval) :=
  match l with
  | Found i => Ok (Some (embed_form ep (nth i tbl dflt_entry)))
  | NotFound => Ok None
  | Raised => Raise AttributeError
  end.

Section First.
  Variables (a : isa) (ep : env) (ops : list operand) (key : string).
  Variable cond : pyval -> PyDyn.res pyval.
  Hypothesis cond_spec : forall e, cond (embed_form ep e) = lift (match_operands a (e_pats e) ops).

  Lemma first_ok : forall tbl pre,
    py_first (forms_under ep tbl key) cond = first_res ep (pre ++ tbl) (find_first a tbl key ops (length pre)).
  Proof.
    induction tbl as [|e t IH]; intros pre.
    - reflexivity.
    - unfold forms_under in *. cbn [filter find_first].
      assert (Hnext : forall l, first_res ep (pre ++ e :: t) l = first_res ep ((pre ++ [e]) ++ t) l)
        by (intro l; rewrite <- app_assoc; reflexivity).
      assert (Hlen : S (length pre) = length (pre ++ [e])) by (rewrite app_length; simpl; lia).
      destruct (String.eqb (e_name e) key).
      + cbn [map py_first]. rewrite cond_spec.
        destruct (match_operands a (e_pats e) ops) as [[|]|]; cbn [lift bind py_truth].
        * cbn [first_res]. rewrite app_nth2, Nat.sub_diag by auto. reflexivity.
        * rewrite Hnext, Hlen. apply IH.
        * reflexivity.
      + rewrite Hnext, Hlen. apply IH.
  Qed.
End First.

(* the dict stored in self._data["instruction_forms_dict"] holds, under each key, the forms of that name in file
   order (keys without forms may be absent: .get(key, []) supplies the empty list) *)
Definition represents (ep : env) (d : list (string * pyval)) (tbl : list entry) : Prop :=
  forall key, match dict_find key d with Some v => v | None => PList [] end = PList (forms_under ep tbl key).

(* an embedded form is never None, and determines its pattern list *)
Lemma embed_form_not_none : forall ep e, embed_form ep e <> PNone.
Proof. intros; discriminate. Qed.
