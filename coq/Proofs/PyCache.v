(* C17 translator tie, static part: the process of Model/Cache.v run alone (AtomicRename, key = hash of the parsed bytes,
   runtime cache never served) computes the big-step specification `load_spec` of Model/PyCache.v -- for every state. *)
From Coq Require Import List Arith Bool String Lia.
From OV Require Import Model.Cache Proofs.Cache Model.PyCache.
Import ListNotations.

Definition Res (w : setup) (pid : nat) (s : state) (f : nat) (o : outcome) (F : loc -> option bytes) : Prop :=
  outcome_of (solo w f s pid) pid = o /\ yaml (solo w f s pid) = yaml s /\ forall l, files (solo w f s pid) l = F l.

Lemma Res_step w pid s p s' f o F :
  procs s pid = Some p -> pstep w s pid p = Some s' -> yaml s' = yaml s -> Res w pid s' f o F -> Res w pid s (S f) o F.
Proof.
  intros Hp Hs Hy [A [B C]]. unfold Res. cbn [solo step]. rewrite Hp, Hs. rewrite B, Hy. auto.
Qed.

Lemma Res_done w pid s p f o F :
  procs s pid = Some p -> terminal (pr_pc p) = true -> outcome_of s pid = o -> (forall l, files s l = F l) -> Res w pid s f o F.
Proof.
  intros Hp Ht Ho Hf. unfold Res. rewrite solo_terminal; auto.
  unfold pc_of. rewrite Hp. exact Ht.
Qed.

Lemma Res_ext w pid s f o F G : (forall l, F l = G l) -> Res w pid s f o F -> Res w pid s f o G.
Proof. intros E [A [B C]]. repeat split; auto. intros l. rewrite C. apply E. Qed.

Lemma procs_set_pc s pid p c : procs (set_pc s pid p c) pid = Some (with_pc p c).
Proof. cbn. apply updp_same. Qed.
Lemma procs_set_pc_src s pid p c x : procs (set_pc_src s pid p c x) pid = Some (with_pc_src p c x).
Proof. cbn. apply updp_same. Qed.
Lemma procs_set_file_pc s l v pid p c : procs (set_file_pc s l v pid p c) pid = Some (with_pc p c).
Proof. cbn. apply updp_same. Qed.

Lemma outcome_done s pid p d : procs s pid = Some p -> pr_pc p = PDone d -> outcome_of s pid = ODone d.
Proof. intros Hp Hc. unfold outcome_of, pc_of. rewrite Hp, Hc. reflexivity. Qed.

Lemma Tmp_neq_loc pid tgt : keyed tgt <> None -> loc_eqb (Tmp pid) tgt = false /\ loc_eqb tgt (Tmp pid) = false.
Proof. destruct tgt; cbn; intros H; try (split; reflexivity). congruence. Qed.

(* the write loop, the close and the rename *)
Lemma Res_write w pid tgt d :
  w_disc w = AtomicRename -> keyed tgt <> None ->
  forall k i s p b f,
    k + i = w_nch w -> procs s pid = Some p -> pr_pc p = PWrite tgt d i -> files s (Tmp pid) = Some b ->
    Res w pid s (k + 2 + f) (ODone d) (updf (updf (files s) tgt (Some (dump_chunks k i d b))) (Tmp pid) None).
Proof.
  intros Ha Hk. destruct (Tmp_neq_loc pid tgt Hk) as [N1 N2].
  induction k as [|k IH]; intros i s p b f Hi Hp Hc Hb.
  - cbn [Nat.add]. cbn in Hi. subst i.
    eapply Res_step; [exact Hp | unfold pstep; rewrite Hc; rewrite Nat.ltb_irrefl; rewrite Ha; reflexivity | reflexivity | ].
    eapply Res_step; [apply procs_set_pc | unfold pstep; cbn [pr_pc with_pc]; cbn [files set_pc]; rewrite Hb; reflexivity | reflexivity | ].
    eapply Res_done.
    + cbn [procs]. apply updp_same.
    + reflexivity.
    + eapply outcome_done; [cbn [procs]; apply updp_same | reflexivity].
    + intros l. reflexivity.
  - cbn [Nat.add].
    assert (Hlt : i <? w_nch w = true) by (apply Nat.ltb_lt; lia).
    eapply Res_step; [exact Hp | unfold pstep; rewrite Hc, Hlt; unfold wloc; rewrite Ha; reflexivity | reflexivity | ].
    eapply Res_ext; [ | eapply (IH (S i)); [lia | apply procs_set_file_pc | reflexivity | cbn [files set_file_pc]; apply updf_same ] ].
    intros l. cbn [files set_file_pc]. unfold cur. rewrite Hb. cbn [dump_chunks].
    unfold updf. destruct (loc_eqb (Tmp pid) l) eqn:E1; [reflexivity|].
    destruct (loc_eqb tgt l) eqn:E2; [reflexivity|]. try rewrite E1; reflexivity.
Qed.

Section Load.
Variables (w : setup) (s : state) (pid : nat) (pa : path) (prevd : option data).
Hypothesis Ha : w_disc w = AtomicRename.
Hypothesis Hh : w_rehash w = false.
Hypothesis Hr : w_rt w = RtIgnored.

Let h := yaml s pa.

Lemma target_keyed' e p c l : target e p c = Some l -> keyed l <> None.
Proof. intros H. rewrite (target_keyed _ _ _ _ H). discriminate. Qed.

(* from the parse on *)
Lemma Res_parse s1 p f :
  yaml s1 = yaml s -> (forall l, files s1 l = files s l) -> procs s1 pid = Some p -> pr_pc p = PParse -> pr_path p = pa ->
  let d := parse (w_cfg w) h in
  Res w pid s1 (5 + w_nch w + f) (ODone d)
      (apply_fx (w_nch w) pid (files s) (match target (w_env w) pa h with Some l => FxWrite l d | None => FxNone end)).
Proof.
  intros Hy Hf Hp Hc Hpa d.
  replace (5 + w_nch w + f) with (S (S (3 + w_nch w + f))) by lia.
  eapply Res_step; [exact Hp | unfold pstep; rewrite Hc; reflexivity | reflexivity | ].
  rewrite Hpa, Hy. fold h. fold d.
  destruct (target (w_env w) pa h) as [tgt|] eqn:Ht.
  - eapply Res_step; [apply procs_set_pc_src | unfold pstep; cbn [pr_pc with_pc_src pr_path pr_src]; rewrite Hh, Hpa, Ht; reflexivity | reflexivity | ].
    cbn [apply_fx].
    replace (3 + w_nch w + f) with (S (w_nch w + 2 + f)) by lia.
    eapply Res_step; [apply procs_set_pc | unfold pstep; cbn [pr_pc with_pc]; unfold wloc; rewrite Ha; reflexivity | reflexivity | ].
    eapply Res_ext; [ | eapply (Res_write w pid tgt d Ha (target_keyed' _ _ _ _ Ht) (w_nch w) 0);
                        [lia | apply procs_set_file_pc | reflexivity | cbn [files set_file_pc]; apply updf_same] ].
    intros l. cbn [files set_file_pc set_pc set_pc_src].
    destruct (Tmp_neq_loc pid tgt (target_keyed' _ _ _ _ Ht)) as [N1 N2].
    unfold updf. destruct (loc_eqb (Tmp pid) l) eqn:E1; [reflexivity|].
    destruct (loc_eqb tgt l) eqn:E2; [reflexivity|]. try rewrite E1. apply Hf.
  - eapply Res_step; [apply procs_set_pc_src | unfold pstep; cbn [pr_pc with_pc_src pr_path pr_src]; rewrite Hh, Hpa, Ht; reflexivity | reflexivity | ].
    eapply Res_done; [apply procs_set_pc | reflexivity | eapply outcome_done; [apply procs_set_pc | reflexivity] | ].
    intros l. cbn [apply_fx]. cbn [files set_pc set_pc_src]. apply Hf.
Qed.

(* one probe: hit = done, miss = next *)
Lemma probe_hit s1 p hm f d :
  (forall l, files s1 l = files s l) -> procs s1 pid = Some p -> pr_pc p = PProbe hm h -> pr_path p = pa ->
  probe1 w (files s) (probe_loc pa hm h) = Some d ->
  Res w pid s1 (2 + f) (ODone d) (files s).
Proof.
  intros Hf Hp Hc Hpa Hpr. unfold probe1 in Hpr.
  destruct (files s (probe_loc pa hm h)) as [b|] eqn:Hb; [|discriminate].
  destruct (decode (w_nch w) b) as [d'|] eqn:Hd; [|discriminate].
  destruct (d_iv d' =? c_iv (w_cfg w)) eqn:Hv; [|discriminate]. inversion Hpr; subst d'.
  eapply Res_step; [exact Hp | unfold pstep; rewrite Hc, Hpa, Hf, Hb; reflexivity | reflexivity | ].
  eapply Res_step; [apply procs_set_pc | unfold pstep; cbn [pr_pc with_pc pr_path]; rewrite Hpa; cbn [files set_pc]; rewrite Hf, Hb, Hd, Hv; reflexivity | reflexivity | ].
  eapply Res_done; [apply procs_set_pc_src | reflexivity | eapply outcome_done; [apply procs_set_pc_src | reflexivity] | ].
  intros l. cbn [files set_pc set_pc_src]. apply Hf.
Qed.

Lemma probe_miss s1 p hm :
  (forall l, files s1 l = files s l) -> yaml s1 = yaml s -> procs s1 pid = Some p -> pr_pc p = PProbe hm h -> pr_path p = pa ->
  probe1 w (files s) (probe_loc pa hm h) = None ->
  exists n s2 p2, n <= 2 /\ (forall l, files s2 l = files s l) /\ yaml s2 = yaml s /\ procs s2 pid = Some p2 /\
                  pr_pc p2 = miss_next hm h /\ pr_path p2 = pa /\
                  forall f o F, Res w pid s2 f o F -> Res w pid s1 (n + f) o F.
Proof.
  intros Hf Hy Hp Hc Hpa Hpr. unfold probe1 in Hpr.
  destruct (files s (probe_loc pa hm h)) as [b|] eqn:Hb.
  - exists 2, (set_pc (set_pc s1 pid p (PRead hm h)) pid (with_pc p (PRead hm h)) (miss_next hm h)),
           (with_pc (with_pc p (PRead hm h)) (miss_next hm h)).
    split; [lia|]. split; [intros l; cbn; apply Hf|]. split; [cbn; exact Hy|].
    split; [apply procs_set_pc|]. split; [reflexivity|]. split; [exact Hpa|].
    intros f o F HR.
    eapply Res_step; [exact Hp | unfold pstep; rewrite Hc, Hpa, Hf, Hb; reflexivity | reflexivity | ].
    eapply Res_step; [apply procs_set_pc | | | exact HR]; [|reflexivity].
    unfold pstep. cbn [pr_pc with_pc pr_path]. rewrite Hpa. cbn [files set_pc]. rewrite Hf, Hb.
    destruct (decode (w_nch w) b) as [d'|] eqn:Hd.
    + destruct (d_iv d' =? c_iv (w_cfg w)) eqn:Hv; [discriminate|]. reflexivity.
    + rewrite Ha. reflexivity.
  - exists 1, (set_pc s1 pid p (miss_next hm h)), (with_pc p (miss_next hm h)).
    split; [lia|]. split; [intros l; cbn; apply Hf|]. split; [cbn; exact Hy|].
    split; [apply procs_set_pc|]. split; [reflexivity|]. split; [exact Hpa|].
    intros f o F HR.
    eapply Res_step; [exact Hp | unfold pstep; rewrite Hc, Hpa, Hf, Hb; reflexivity | reflexivity | exact HR].
Qed.

Lemma Res_more s1 f k o F : Res w pid s1 f o F -> terminal (pc_of (solo w f s1 pid) pid) = true -> Res w pid s1 (f + k) o F.
Proof.
  revert s1. induction f as [|f IH]; intros s1 HR Ht.
  - cbn in *. unfold Res in *. rewrite (solo_terminal w k s1 pid Ht). exact HR.
  - unfold Res in *. cbn [Nat.add solo] in *.
    destruct (step w s1 (LStep pid)) as [s'|] eqn:Hs.
    + destruct HR as [A [B C]].
      assert (Hy : yaml s' = yaml s1).
      { unfold step in Hs. destruct (procs s1 pid) as [p|]; [|discriminate]. unfold pstep in Hs.
        repeat match type of Hs with
               | context [match ?x with _ => _ end] => destruct x
               end; inversion Hs; reflexivity. }
      destruct (IH s') as [A' [B' C']]; [repeat split; auto; congruence | exact Ht |].
      repeat split; auto. congruence.
    + exact HR.
Qed.

Lemma terminal_of_done s1 f d : outcome_of (solo w f s1 pid) pid = ODone d -> terminal (pc_of (solo w f s1 pid) pid) = true.
Proof. unfold outcome_of. destruct (pc_of (solo w f s1 pid) pid); try discriminate; reflexivity. Qed.

Lemma Res_ge s1 f f' d F : Res w pid s1 f (ODone d) F -> f <= f' -> Res w pid s1 f' (ODone d) F.
Proof.
  intros HR Hle. replace f' with (f + (f' - f)) by lia. apply Res_more; auto.
  destruct HR as [A _]. eapply terminal_of_done; eauto.
Qed.

Theorem solo_load_spec :
  let s1 := solo w (fuel_of w) (start_state s pid pa false prevd) pid in
  outcome_of s1 pid = ODone (fst (load_spec w (yaml s) (files s) pa)) /\
  yaml s1 = yaml s /\
  forall l, files s1 l = apply_fx (w_nch w) pid (files s) (snd (load_spec w (yaml s) (files s) pa)) l.
Proof.
  cbv zeta. change (Res w pid (start_state s pid pa false prevd) (fuel_of w) (ODone (fst (load_spec w (yaml s) (files s) pa)))
                        (apply_fx (w_nch w) pid (files s) (snd (load_spec w (yaml s) (files s) pa)))).
  unfold fuel_of.
  set (s0 := start_state s pid pa false prevd).
  set (p0 := mkProc pa false PStart (yaml s pa) false prevd).
  assert (Hp0 : procs s0 pid = Some p0) by (cbn; apply updp_same).
  (* PStart *)
  replace (12 + w_nch w) with (S (11 + w_nch w)) by lia.
  eapply Res_step; [exact Hp0 | unfold pstep; cbn [pr_pc p0 pr_lazy pr_path]; rewrite Hr; reflexivity | reflexivity | ].
  cbn [yaml s0 start_state]. fold h.
  set (sA := set_pc s0 pid p0 (PProbe false h)).
  assert (HfA : forall l, files sA l = files s l) by reflexivity.
  assert (HyA : yaml sA = yaml s) by reflexivity.
  unfold load_spec. fold h.
  change (Comp (p_dir pa) (p_stem pa) h) with (probe_loc pa false h).
  change (Home (p_stem pa) h) with (probe_loc pa true h).
  destruct (probe1 w (files s) (probe_loc pa false h)) as [d|] eqn:P1.
  { cbn [fst snd apply_fx]. eapply Res_ge; [eapply (probe_hit sA _ false 0 d HfA (procs_set_pc _ _ _ _)); auto | lia]. }
  destruct (probe_miss sA _ false HfA HyA (procs_set_pc _ _ _ _) eq_refl eq_refl P1)
    as (n1 & sB & pB & Hn1 & HfB & HyB & HpB & HcB & HpaB & K1).
  cbn [miss_next] in HcB.
  destruct (probe1 w (files s) (probe_loc pa true h)) as [d|] eqn:P2.
  { cbn [fst snd apply_fx]. eapply Res_ge; [apply (K1 2); eapply (probe_hit sB pB true 0 d HfB HpB); auto | lia]. }
  destruct (probe_miss sB pB true HfB HyB HpB HcB HpaB P2)
    as (n2 & sC & pC & Hn2 & HfC & HyC & HpC & HcC & HpaC & K2).
  cbn [miss_next] in HcC.
  assert (HR := Res_parse sC pC 0 HyC HfC HpC HcC HpaC). cbv zeta in HR.
  eapply Res_ge; [apply K1; apply K2; destruct (target (w_env w) pa h); exact HR | lia].
Qed.

End Load.

(* ------------------------------------------------------------------ the program monad *)
Lemma exec_bind E m k s :
  exec E (bind m k) s = match exec E m s with (ROk v, s') => exec E (k v) s' | (RErr e, s') => (RErr e, s') end.
Proof.
  revert s. induction m as [v|e|o k' IH]; intros s; cbn; try reflexivity.
  destruct (do_op E o s) as [r s']. apply IH.
Qed.

Lemma exec_crash_bind E kc m k s :
  exec_crash E kc (bind m k) s =
  match exec_crash E kc m s with
  | (GRes (ROk v), s') => exec_crash E kc (k v) s'
  | (GRes (RErr e), s') => (GRes (RErr e), s')
  | (GKilled, s') => (GKilled, s')
  end.
Proof.
  revert s. induction m as [v|e|o k' IH]; intros s; cbn; try reflexivity.
  destruct o; try (destruct (do_op E _ s) as [r s']; apply IH).
  destruct (loc_of p); [reflexivity|]. apply IH.
Qed.

(* the invariant of the cache files, on the file system alone (Proofs/Cache.v `Keyed`) *)
Definition KeyedF (w : setup) (fs : loc -> option bytes) : Prop :=
  forall l b h d, fs l = Some b -> keyed l = Some h -> decode (w_nch w) b = Some d -> d_iv d = c_iv (w_cfg w) ->
                  d = parse (w_cfg w) h.

Lemma Keyed_KeyedF w s : Keyed w s -> KeyedF w (files s).
Proof. intros H; exact H. Qed.

Lemma dump_chunks_repeat d n : forall i, dump_chunks n i d (repeat (Some d) i) = repeat (Some d) (n + i).
Proof.
  induction n as [|n IH]; intros i; cbn [dump_chunks Nat.add]; [reflexivity|].
  rewrite put_repeat. rewrite IH. f_equal. lia.
Qed.

Lemma load_spec_keyed w y fs pa : KeyedF w fs -> fst (load_spec w y fs pa) = parse (w_cfg w) (y pa).
Proof.
  intros HK. unfold load_spec.
  assert (P : forall l, keyed l = Some (y pa) -> forall d, probe1 w fs l = Some d -> d = parse (w_cfg w) (y pa)).
  { intros l Hl d Hp. unfold probe1 in Hp. destruct (fs l) as [b|] eqn:Hb; [|discriminate].
    destruct (decode (w_nch w) b) as [d'|] eqn:Hd; [|discriminate].
    destruct (d_iv d' =? c_iv (w_cfg w)) eqn:Hv; [|discriminate]. inversion Hp; subst d'.
    apply Nat.eqb_eq in Hv. eapply HK; eauto. }
  destruct (probe1 w fs (Comp _ _ _)) eqn:P1; [cbn; eapply P; eauto; reflexivity|].
  destruct (probe1 w fs (Home _ _)) eqn:P2; [cbn; eapply P; eauto; reflexivity|].
  destruct (target _ _ _); reflexivity.
Qed.

Lemma KeyedF_ext w fs fs' : (forall l, keyed l <> None -> fs' l = fs l) -> KeyedF w fs -> KeyedF w fs'.
Proof. intros E HK l b h d Hl Hk. rewrite E in Hl by congruence. eapply HK; eauto. Qed.

(* the effect of a load (complete or killed) keeps the invariant *)
Lemma KeyedF_apply_fx w y fs pa pid F :
  KeyedF w fs -> (forall l, F l = apply_fx (w_nch w) pid fs (snd (load_spec w y fs pa)) l) -> KeyedF w F.
Proof.
  intros HK HF l b h d Hl Hk Hd Hv. rewrite HF in Hl.
  pose proof (load_spec_keyed w y fs pa HK) as Hfst.
  unfold load_spec in *.
  destruct (probe1 w fs (Comp _ _ _)); [cbn in Hl; eapply HK; eauto|].
  destruct (probe1 w fs (Home _ _)); [cbn in Hl; eapply HK; eauto|].
  destruct (target (w_env w) pa (y pa)) as [tgt|] eqn:Ht; [|cbn in Hl; eapply HK; eauto].
  cbn [snd apply_fx] in Hl. unfold updf in Hl.
  destruct (loc_eqb (Tmp pid) l) eqn:E1; [discriminate|].
  destruct (loc_eqb tgt l) eqn:E2; [|eapply HK; eauto].
  apply loc_eqb_eq in E2. subst l. rewrite (target_keyed _ _ _ _ Ht) in Hk. inversion Hk; subst h.
  inversion Hl; subst b. rewrite (dump_chunks_repeat _ (w_nch w) 0) in Hd.
  apply decode_some in Hd. destruct Hd as [r [Hr _]].
  destruct (w_nch w + 0); cbn in Hr; [discriminate|]. inversion Hr. reflexivity.
Qed.

Lemma KeyedF_apply_fx_crash w fs pid kc fx F :
  KeyedF w fs -> (forall l, F l = apply_fx_crash (w_nch w) pid kc fs fx l) -> KeyedF w F.
Proof.
  intros HK HF. eapply KeyedF_ext; [|exact HK]. intros l Hk. rewrite HF. destruct fx; [reflexivity|].
  cbn. unfold updf. destruct l; cbn in *; try reflexivity. congruence.
Qed.

Definition call_result (r : ores) : ores :=
  match r with
  | ROk _ => ROk VNone
  | RErr (XRet v) => ROk v
  | RErr XCont | RErr XBreak => RErr (EModel "continue/break outside a loop")
  | RErr e => RErr e
  end.
Lemma exec_py_call E m s : exec E (py_call m) s = (call_result (fst (exec E m s)), snd (exec E m s)).
Proof.
  revert s. induction m as [v|e|o k IH]; intros s; cbn.
  - reflexivity.
  - destruct e; reflexivity.
  - destruct (do_op E o s) as [r s']. apply IH.
Qed.
