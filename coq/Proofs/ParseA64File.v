(* C10 -- parse_file: every non-blank line yields exactly one parsed line with its 1-based number and verbatim text. *)
From Coq Require Import String Ascii List Bool Arith NArith Lia Sorted.
From OV Require Import Model.LexA64 Model.ParseA64 Model.ParseFileA64.
Import ListNotations.
Open Scope string_scope.

Definition nl : string := String nlc "".

Lemma split_nl_cons : forall s, exists l ls, split_nl s = l :: ls.
Proof.
  induction s as [|c r IH]; simpl; eauto.
  destruct (ceq c nlc); eauto. destruct IH as (l & ls & ->); eauto.
Qed.

(* split("\n") is the inverse of "\n".join *)
Lemma split_join : forall s, String.concat nl (split_nl s) = s.
Proof.
  induction s as [|c r IH]; simpl; auto.
  destruct (ceq c nlc) eqn:E.
  - apply Ascii.eqb_eq in E; subst c.
    destruct (split_nl_cons r) as (l & ls & H). rewrite H in *. simpl in *.
    unfold nl at 1. simpl. f_equal. exact IH.
  - destruct (split_nl_cons r) as (l & ls & H). rewrite H in *.
    destruct ls; simpl in *; f_equal; exact IH.
Qed.

Lemma split_no_nl : forall s l, In l (split_nl s) -> sall (fun c => negb (ceq c nlc)) l = true.
Proof.
  induction s as [|c r IH]; simpl; intros l H.
  - destruct H as [<-|[]]; reflexivity.
  - destruct (ceq c nlc) eqn:E.
    + destruct H as [<-|H]; auto.
    + destruct (split_nl_cons r) as (l0 & ls & Hs). rewrite Hs in *.
      destruct H as [<-|H].
      * simpl. rewrite E. simpl. apply IH. left; reflexivity.
      * apply IH. right; exact H.
Qed.

Definition nonblank (p : nat * string) : bool := negb (blank (snd p)).

Lemma in_combine_seq : forall (ls : list string) a i l,
  In (i, l) (combine (seq a (length ls)) ls) <-> (a <= i /\ nth_error ls (i - a) = Some l).
Proof.
  induction ls as [|x ls IH]; simpl; intros a i l.
  - split; [intros []|]. intros [_ H]. destruct (i - a); discriminate.
  - split.
    + intros [H|H].
      * inversion H; subst. split; [lia|]. rewrite Nat.sub_diag. reflexivity.
      * apply IH in H. destruct H as [H1 H2]. split; [lia|].
        replace (i - a) with (S (i - S a)) by lia. exact H2.
    + intros [H1 H2]. destruct (Nat.eq_dec i a) as [->|Hne].
      * rewrite Nat.sub_diag in H2. simpl in H2. inversion H2; subst. left; reflexivity.
      * right. apply IH. split; [lia|]. replace (i - a) with (S (i - S a)) in H2 by lia. exact H2.
Qed.

Lemma parse_file_sound : forall fx content start f,
  In f (parse_file fx content start) ->
  exists i, f_number f = i + 1 + start /\ nth_error (split_nl content) i = Some (f_text f) /\
            blank (f_text f) = false /\ f_parsed f = parse_line fx (f_text f).
Proof.
  intros fx content start f H. unfold parse_file, file_lines, numbered in H.
  rewrite map_map in H. apply in_map_iff in H. destruct H as ([i l] & <- & H).
  apply filter_In in H. destruct H as [H Hb]. apply in_combine_seq in H. destruct H as [_ H].
  rewrite Nat.sub_0_r in H. simpl in *. exists i. repeat split; auto.
  apply negb_true_iff in Hb. exact Hb.
Qed.

Lemma parse_file_complete : forall fx content start i l,
  nth_error (split_nl content) i = Some l -> blank l = false ->
  In (mkfline (i + 1 + start) l (parse_line fx l)) (parse_file fx content start).
Proof.
  intros fx content start i l H Hb. unfold parse_file, file_lines, numbered. rewrite map_map.
  apply in_map_iff. exists (i, l). split; [reflexivity|]. apply filter_In. split.
  - apply in_combine_seq. split; [lia|]. rewrite Nat.sub_0_r. exact H.
  - simpl. rewrite Hb. reflexivity.
Qed.

Lemma sorted_filter_seq : forall (ls : list string) a (g : nat * string -> bool) k,
  StronglySorted lt (map (fun p => fst p + k) (filter g (combine (seq a (length ls)) ls))).
Proof.
  induction ls as [|x ls IH]; simpl; intros a g k; [constructor|].
  destruct (g (a, x)); simpl; [|apply IH].
  constructor; [apply IH|].
  apply Forall_forall. intros n Hn. apply in_map_iff in Hn. destruct Hn as ([i l] & <- & Hn).
  apply filter_In in Hn. destruct Hn as [Hn _]. apply in_combine_seq in Hn. simpl. lia.
Qed.

Lemma parse_file_increasing : forall fx content start,
  StronglySorted lt (map f_number (parse_file fx content start)).
Proof.
  intros. unfold parse_file, file_lines, numbered. rewrite !map_map. simpl.
  pose proof (sorted_filter_seq (split_nl content) 0 (fun p => negb (blank (snd p))) (1 + start)) as H.
  erewrite map_ext; [exact H|]. intros [i l]; simpl; lia.
Qed.

Lemma filter_combine_snd : forall (ls : list string) a,
  map snd (filter (fun p => negb (blank (snd p))) (combine (seq a (length ls)) ls)) = filter (fun l => negb (blank l)) ls.
Proof.
  induction ls as [|x ls IH]; simpl; intros a; auto.
  destruct (negb (blank x)); simpl; rewrite IH; reflexivity.
Qed.

Lemma parse_file_text : forall fx content start,
  map f_text (parse_file fx content start) = filter (fun l => negb (blank l)) (split_nl content).
Proof.
  intros. unfold parse_file, file_lines, numbered. rewrite !map_map. simpl.
  rewrite <- (filter_combine_snd (split_nl content) 0). reflexivity.
Qed.

Lemma parse_file_count : forall fx content start,
  length (parse_file fx content start) = length (filter (fun l => negb (blank l)) (split_nl content)).
Proof. intros. rewrite <- (parse_file_text fx content start). rewrite map_length. reflexivity. Qed.

(* 0-based positions of the non-blank lines *)
Definition nonblank_positions (ls : list string) : list nat :=
  filter (fun i => match nth_error ls i with Some l => negb (blank l) | None => false end) (seq 0 (length ls)).


Lemma filter_seq_shift : forall (f : nat -> bool) a n,
  filter f (seq (S a) n) = map S (filter (fun i => f (S i)) (seq a n)).
Proof.
  intros f a n. revert a. induction n as [|n IH]; simpl; intros a; auto.
  destruct (f (S a)); simpl; rewrite IH; reflexivity.
Qed.

Lemma positions_shift : forall (ls : list string) a,
  map fst (filter (fun p => negb (blank (snd p))) (combine (seq a (length ls)) ls)) =
  map (fun i => i + a) (nonblank_positions ls).
Proof.
  unfold nonblank_positions. induction ls as [|x ls IH]; simpl; intros a; auto.
  rewrite filter_seq_shift. simpl.
  destruct (negb (blank x)); simpl; rewrite IH, !map_map; [f_equal|]; apply map_ext; intros; lia.
Qed.

Lemma parse_file_lines : forall fx content start,
  map f_number (parse_file fx content start) =
  map (fun i => i + 1 + start) (nonblank_positions (split_nl content)).
Proof.
  intros. unfold parse_file, file_lines, numbered. rewrite !map_map. simpl.
  transitivity (map (fun i => i + 1 + start)
                 (map fst (filter (fun p => negb (blank (snd p))) (combine (seq 0 (length (split_nl content))) (split_nl content))))).
  - rewrite map_map. reflexivity.
  - rewrite positions_shift, map_map. apply map_ext. intros; lia.
Qed.

Lemma nonblank_positions_spec : forall ls i,
  In i (nonblank_positions ls) <-> exists l, nth_error ls i = Some l /\ blank l = false.
Proof.
  intros ls i. unfold nonblank_positions. rewrite filter_In. split.
  - intros [_ H]. destruct (nth_error ls i) as [l|]; [|discriminate]. exists l. split; auto.
    apply negb_true_iff in H. exact H.
  - intros (l & H & Hb). split.
    + apply in_seq. split; [lia|]. simpl. apply nth_error_Some. rewrite H. discriminate.
    + rewrite H, Hb. reflexivity.
Qed.
