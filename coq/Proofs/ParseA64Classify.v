(* C10 -- every line the model parses is exactly one of comment / label / directive / instruction. *)
From Coq Require Import String Ascii List Bool Arith NArith ZArith Lia.
From OV Require Import Model.LexA64 Model.ParseA64.
Import ListNotations.
Open Scope string_scope.

Definition some {A} (o : option A) : bool := match o with Some _ => true | None => false end.
Definition is_instruction (r : pline) : bool := some (p_mnemonic r).
Definition is_label (r : pline) : bool := some (p_label r).
Definition is_directive (r : pline) : bool := some (p_directive r).
Definition is_comment (r : pline) : bool :=
  andb (some (p_comment r)) (negb (orb (is_instruction r) (orb (is_label r) (is_directive r)))).
Definition b2n (b : bool) : nat := if b then 1 else 0.
Definition kind_count (r : pline) : nat :=
  b2n (is_comment r) + b2n (is_label r) + b2n (is_directive r) + b2n (is_instruction r).

Lemma parse_instr_kind : forall fx mn ts r, parse_instr fx mn ts = Parsed r ->
  kind_count r = 1 /\ p_mnemonic r = Some mn.
Proof.
  intros fx mn ts r H. unfold parse_instr in H.
  destruct (p_slots fx 5 true ts []) as [[ops rest]|]; [|discriminate].
  destruct rest as [|t rest]; [inversion H; subst; auto|].
  destruct t; try discriminate. destruct rest; [|discriminate]. inversion H; subst; auto.
Qed.

Lemma parse_toks_kind : forall fx ts r, parse_toks fx ts = Parsed r -> kind_count r = 1.
Proof.
  intros fx ts r H. unfold parse_toks in H.
  repeat match type of H with
         | context [parse_instr ?f ?m ?t] => fail 1
         | (match ?x with _ => _ end) = _ => destruct x eqn:?; try discriminate
         | (if ?x then _ else _) = _ => destruct x eqn:?; try discriminate
         end;
  try (inversion H; subst; reflexivity);
  try (apply parse_instr_kind in H; tauto).
  all: repeat match type of H with
         | (match ?x with _ => _ end) = _ => destruct x eqn:?; try discriminate
         | (if ?x then _ else _) = _ => destruct x eqn:?; try discriminate
         end;
  try (inversion H; subst; reflexivity);
  try (apply parse_instr_kind in H; tauto).
Qed.

Theorem classify_exclusive_model : forall fx line r, parse_line fx line = Parsed r -> kind_count r = 1.
Proof.
  intros fx line r H. unfold parse_line in H. destruct (lex line); [|discriminate].
  eapply parse_toks_kind; eauto.
Qed.
