(* C08 -- proofs about Model/Rows.v: which load/store table row a memory operand gets.
   Part 1: the selection itself (any micro-op payload, unbounded tables: list inductions).
   Part 2: the link to the addressing-mode specification of C07 (Model/MatchSpec.v: kind / admits).
   Part 3: histories (a stateless selection, memoising getters).
   Part 4: the link to Model/Costing.v: the composition theorems with the rows COMPUTED. *)
From Coq Require Import ZArith List Bool String Lia.
From OV Require Import Model.PyString Model.Match Model.MatchSpec Proofs.MatchSpec Model.Rows.
Import ListNotations.
Open Scope string_scope.
Open Scope list_scope.

(* ------------------------------------------------------------------ filter_opt *)
Definition holds {A} (f : A -> res) (x : A) : bool := match f x with Some true => true | _ => false end.

Lemma filter_opt_some {A} (f : A -> res) : forall l r,
  filter_opt f l = Some r -> (forall x, In x l -> f x <> None) /\ r = filter (holds f) l.
Proof.
  induction l as [|x l IH]; intros r H; cbn [filter_opt] in H.
  - inversion H. split; [intros ? []|reflexivity].
  - destruct (f x) as [b|] eqn:Fx; [|discriminate].
    destruct (filter_opt f l) as [r'|] eqn:E; [|discriminate].
    destruct (IH _ eq_refl) as (Hn & ->). inversion H; subst r. split.
    + intros y [<-|Hy]; [congruence|auto].
    + cbn [filter]. assert (holds f x = b) as -> by (unfold holds; rewrite Fx; destruct b; reflexivity).
      reflexivity.
Qed.

Lemma filter_opt_total {A} (f : A -> res) : forall l,
  (forall x, In x l -> f x <> None) -> filter_opt f l = Some (filter (holds f) l).
Proof.
  induction l as [|x l IH]; intros H; [reflexivity|].
  cbn [filter_opt filter].
  destruct (f x) as [b|] eqn:Fx; [|exfalso; apply (H x); [left; reflexivity|exact Fx]].
  assert (holds f x = b) as -> by (unfold holds; rewrite Fx; destruct b; reflexivity).
  rewrite IH by (intros y Hy; apply H; right; exact Hy). reflexivity.
Qed.

Lemma filter_opt_none_iff {A} (f : A -> res) : forall l,
  filter_opt f l = None <-> exists x, In x l /\ f x = None.
Proof.
  intros l. split.
  - intros H. induction l as [|x l IH]; [discriminate|]. cbn [filter_opt] in H.
    destruct (f x) as [b|] eqn:Fx; [|exists x; split; [left; reflexivity|exact Fx]].
    destruct (filter_opt f l) as [r|] eqn:E; [discriminate|].
    destruct (IH eq_refl) as (y & Hy & Fy). exists y. split; [right; exact Hy|exact Fy].
  - intros (x & Hx & Fx). destruct (filter_opt f l) as [r|] eqn:E; [|reflexivity].
    exfalso. apply (proj1 (filter_opt_some f l r E) x Hx Fx).
Qed.

Lemma filter_head_split {A} (g : A -> bool) : forall l x r,
  filter g l = x :: r ->
  exists l1 l2, l = l1 ++ x :: l2 /\ g x = true /\ (forall y, In y l1 -> g y = false) /\ r = filter g l2.
Proof.
  induction l as [|a l IH]; intros x r H; [discriminate|]. cbn [filter] in H. destruct (g a) eqn:Ga.
  - inversion H; subst. exists [], l. repeat split; auto. intros ? [].
  - destruct (IH _ _ H) as (l1 & l2 & -> & Gx & Hl1 & Hr). exists (a :: l1), l2. repeat split; auto.
    intros y [<-|Hy]; auto.
Qed.

Lemma filter_nil_all {A} (g : A -> bool) : forall l, filter g l = [] <-> forall y, In y l -> g y = false.
Proof.
  induction l as [|a l IH]; cbn [filter]; split; intros H.
  - intros ? [].
  - reflexivity.
  - destruct (g a) eqn:Ga; [discriminate|]. intros y [<-|Hy]; [exact Ga|]. apply IH; assumption.
  - rewrite (H a (or_introl eq_refl)). apply IH. intros y Hy. apply H. right. exact Hy.
Qed.

Lemma filter_filter_split {A} (g h : A -> bool) : forall l x r,
  filter h (filter g l) = x :: r ->
  exists l1 l2, l = l1 ++ x :: l2 /\ g x = true /\ h x = true /\
                forall y, In y l1 -> g y = true -> h y = false.
Proof.
  induction l as [|a l IH]; intros x r H; [discriminate|]. cbn [filter] in H. destruct (g a) eqn:Ga.
  - cbn [filter] in H. destruct (h a) eqn:Ha.
    + inversion H; subst. exists [], l. repeat split; auto. intros ? [].
    + destruct (IH _ _ H) as (l1 & l2 & -> & Gx & Hx & Hl1). exists (a :: l1), l2. repeat split; auto.
      intros y [<-|Hy] Gy; auto.
  - destruct (IH _ _ H) as (l1 & l2 & -> & Gx & Hx & Hl1). exists (a :: l1), l2. repeat split; auto.
    intros y [<-|Hy] Gy; [congruence|auto].
Qed.

(* ------------------------------------------------------------------ Part 1: the selection *)
Section Select.
  Context {U : Type}.
  Notation row := (row U).
  Notation choice := (choice U).

  (* "row r is for the addressing mode of m" / "row r names the register type rt", as the implementation tests them *)
  Definition shape_hit (a : isa) (m : memop) (r : row) : bool := holds (fun x : row => match_mem a m (rw_pat x)) r.
  Definition type_hit (a : isa) (rt : string) (r : row) : bool := holds (typed_test a rt) r.

  Lemma shape_hit_iff a m r : shape_hit a m r = true <-> match_mem a m (rw_pat r) = Some true.
  Proof. unfold shape_hit, holds. destruct (match_mem a m (rw_pat r)) as [[|]|]; split; congruence. Qed.

  (* the register-type test never raises: both registers carry a name *)
  Lemma type_ok_total a rt s : type_ok a rt s <> None.
  Proof.
    unfold type_ok, reg_named. destruct a; [|cbn; discriminate].
    cbn [check_operand check_x86]. unfold is_x86_reg_type. cbn [mreg_name r_name is_none andb].
    destruct (opt_is (Some rt) WILDCARD || opt_is (Some s) WILDCARD); [discriminate|].
    destruct (x86_is_vector_register _); discriminate.
  Qed.

  Lemma typed_test_total a rt (r : row) : typed_test a rt r <> None.
  Proof. unfold typed_test. destruct (rw_typ r); [apply type_ok_total|discriminate]. Qed.

  Lemma type_hit_iff a rt r :
    type_hit a rt r = true <-> exists s, rw_typ r = Some s /\ type_ok a rt s = Some true.
  Proof.
    unfold type_hit, holds, typed_test. destruct (rw_typ r) as [s|].
    - destruct (type_ok a rt s) as [[|]|] eqn:E; split; try congruence.
      + intros _. exists s. auto.
      + intros (s' & H1 & H2). inversion H1; subst. congruence.
      + intros (s' & H1 & H2). inversion H1; subst. congruence.
    - cbn. split; [discriminate|]. intros (s & H & _). discriminate.
  Qed.

  Lemma typed_filter a rt (l : list row) : filter_opt (typed_test a rt) l = Some (filter (type_hit a rt) l).
  Proof. apply filter_opt_total. intros x _. apply typed_test_total. Qed.

  Lemma shape_rows_some a (tbl : list row) m l :
    shape_rows a tbl m = Some l ->
    (forall r, In r tbl -> match_mem a m (rw_pat r) <> None) /\ l = filter (shape_hit a m) tbl.
  Proof. unfold shape_rows. intros H. apply filter_opt_some in H. exact H. Qed.

  Lemma shape_rows_total a (tbl : list row) m :
    (forall r, In r tbl -> match_mem a m (rw_pat r) <> None) -> shape_rows a tbl m = Some (filter (shape_hit a m) tbl).
  Proof. intros H. unfold shape_rows. apply filter_opt_total. exact H. Qed.

  (* the selection raises exactly when the matcher raises on some row *)
  Lemma shape_rows_none_iff a (tbl : list row) m :
    shape_rows a tbl m = None <-> exists r, In r tbl /\ match_mem a m (rw_pat r) = None.
  Proof. unfold shape_rows. apply filter_opt_none_iff. Qed.

  (* ---- the getters, row by row ---- *)
  Lemma get_load_spec a (tbl : list row) d m rows :
    get_load_throughput a tbl d m = Some rows ->
    (forall r, In r tbl -> match_mem a m (rw_pat r) <> None) /\
    ((filter (shape_hit a m) tbl = [] /\ rows = [(None, d)]) \/
     (filter (shape_hit a m) tbl <> [] /\ rows = map view (filter (shape_hit a m) tbl))).
  Proof.
    unfold get_load_throughput. destruct (shape_rows a tbl m) as [l|] eqn:E; [|discriminate].
    cbn [option_map]. intros H; inversion H; subst rows. destruct (shape_rows_some _ _ _ _ E) as (Hn & ->).
    split; [exact Hn|]. unfold or_default. destruct (filter (shape_hit a m) tbl); [left|right]; split; auto; discriminate.
  Qed.

  Lemma get_store_spec a (tbl : list row) d m rt rows :
    get_store_throughput a tbl d m (Some rt) = Some rows ->
    let hits := filter (type_hit a rt) (filter (shape_hit a m) tbl) in
    (forall r, In r tbl -> match_mem a m (rw_pat r) <> None) /\
    ((hits = [] /\ rows = [(None, d)]) \/ (hits <> [] /\ rows = map view hits)).
  Proof.
    unfold get_store_throughput. destruct (shape_rows a tbl m) as [l|] eqn:E; [|discriminate].
    rewrite typed_filter. cbn [option_map]. intros H; inversion H; subst rows.
    destruct (shape_rows_some _ _ _ _ E) as (Hn & ->). split; [exact Hn|]. unfold or_default.
    destruct (filter (type_hit a rt) (filter (shape_hit a m) tbl)); [left|right]; split; auto; discriminate.
  Qed.

  (* without a source register the store getter is the load getter on the store table *)
  Lemma get_store_nosrc a (tbl : list row) (d : U) m : get_store_throughput a (tbl : list row) d m None = get_load_throughput a tbl d m.
  Proof. unfold get_store_throughput, get_load_throughput. destruct (shape_rows a tbl m); reflexivity. Qed.

  (* ---- load_choice ---- *)
  Lemma load_choice_unfold a (tbl : list row) m rt :
    (forall r, In r tbl -> match_mem a m (rw_pat r) <> None) ->
    load_choice a tbl m rt =
    Some (match filter (shape_hit a m) tbl with
          | [] => CDefault
          | r0 :: rest => match filter (type_hit a rt) (r0 :: rest) with t :: _ => CRow t | [] => CRow r0 end
          end).
  Proof.
    intros H. unfold load_choice. rewrite (shape_rows_total _ _ _ H).
    destruct (filter (shape_hit a m) tbl) as [|r0 rest]; [reflexivity|]. rewrite typed_filter.
    destruct (filter (type_hit a rt) (r0 :: rest)); reflexivity.
  Qed.

  Lemma load_choice_some a (tbl : list row) m rt c :
    load_choice a tbl m rt = Some c -> forall r, In r tbl -> match_mem a m (rw_pat r) <> None.
  Proof.
    unfold load_choice. destruct (shape_rows a tbl m) as [l|] eqn:E; [|discriminate]. intros _.
    exact (proj1 (shape_rows_some _ _ _ _ E)).
  Qed.

  (* soundness: a selected row is a row of the table whose pattern matches the operand's addressing mode *)
  Lemma load_choice_sound a (tbl : list row) m rt r :
    load_choice a tbl m rt = Some (CRow r) -> In r tbl /\ match_mem a m (rw_pat r) = Some true.
  Proof.
    intros H. pose proof (load_choice_some _ _ _ _ _ H) as Hn. rewrite (load_choice_unfold _ _ _ _ Hn) in H.
    assert (In r (filter (shape_hit a m) tbl)) as Hin.
    { destruct (filter (shape_hit a m) tbl) as [|r0 rest] eqn:EF; [discriminate|].
      destruct (filter (type_hit a rt) (r0 :: rest)) as [|t ts] eqn:ET; inversion H; subst.
      - left; reflexivity.
      - assert (In r (filter (type_hit a rt) (r0 :: rest))) as Hi by (rewrite ET; left; reflexivity).
        apply filter_In in Hi. exact (proj1 Hi). }
    apply filter_In in Hin. destruct Hin as (Hi & Hs). split; [exact Hi|apply shape_hit_iff; exact Hs].
  Qed.

  (* the default is used iff no row of the table matches *)
  Lemma load_default_iff a (tbl : list row) m rt :
    load_choice a tbl m rt = Some CDefault <-> forall r, In r tbl -> match_mem a m (rw_pat r) = Some false.
  Proof.
    split.
    - intros H. pose proof (load_choice_some _ _ _ _ _ H) as Hn. rewrite (load_choice_unfold _ _ _ _ Hn) in H.
      destruct (filter (shape_hit a m) tbl) as [|r0 rest] eqn:EF.
      + intros r Hr. pose proof (proj1 (filter_nil_all _ _) EF r Hr) as Hs. specialize (Hn r Hr).
        unfold shape_hit, holds in Hs. destruct (match_mem a m (rw_pat r)) as [[|]|]; congruence.
      + destruct (filter (type_hit a rt) (r0 :: rest)); discriminate.
    - intros H. rewrite load_choice_unfold by (intros r Hr; rewrite (H r Hr); discriminate).
      replace (filter (shape_hit a m) tbl) with (@nil row); [reflexivity|]. symmetry. apply filter_nil_all.
      intros r Hr. unfold shape_hit, holds. rewrite (H r Hr). reflexivity.
  Qed.

  (* completeness: if any row matches (and the matcher does not raise), a matching row is selected -- never the default *)
  Lemma load_choice_complete a (tbl : list row) m rt :
    (forall r, In r tbl -> match_mem a m (rw_pat r) <> None) ->
    (exists r, In r tbl /\ match_mem a m (rw_pat r) = Some true) ->
    exists r', load_choice a tbl m rt = Some (CRow r') /\ In r' tbl /\ match_mem a m (rw_pat r') = Some true.
  Proof.
    intros Hn (r & Hr & Hm). rewrite (load_choice_unfold _ _ _ _ Hn).
    destruct (filter (shape_hit a m) tbl) as [|r0 rest] eqn:EF.
    - exfalso. pose proof (proj1 (filter_nil_all _ _) EF r Hr) as Hs. apply shape_hit_iff in Hm. congruence.
    - assert (forall x, In x (r0 :: rest) -> In x tbl /\ match_mem a m (rw_pat x) = Some true) as Hsub.
      { intros x Hx. rewrite <- EF in Hx. apply filter_In in Hx. destruct Hx as (A & B). split; [exact A|apply shape_hit_iff; exact B]. }
      destruct (filter (type_hit a rt) (r0 :: rest)) as [|t ts] eqn:ET.
      + exists r0. split; [reflexivity|]. apply Hsub. left; reflexivity.
      + exists t. split; [reflexivity|]. apply Hsub.
        assert (In t (filter (type_hit a rt) (r0 :: rest))) as Hi by (rewrite ET; left; reflexivity).
        apply filter_In in Hi. exact (proj1 Hi).
  Qed.

  (* typed-row preference: the selected row is the FIRST row of the table that matches the addressing mode and names
     the register type; only if no matching row names it, the first matching row *)
  Lemma load_choice_first a (tbl : list row) m rt r :
    load_choice a tbl m rt = Some (CRow r) ->
    exists l1 l2, tbl = l1 ++ r :: l2 /\ shape_hit a m r = true /\
      ((type_hit a rt r = true /\ forall x, In x l1 -> shape_hit a m x = true -> type_hit a rt x = false)
       \/ ((forall x, In x tbl -> shape_hit a m x = true -> type_hit a rt x = false) /\
           forall x, In x l1 -> shape_hit a m x = false)).
  Proof.
    intros H. pose proof (load_choice_some _ _ _ _ _ H) as Hn. rewrite (load_choice_unfold _ _ _ _ Hn) in H.
    destruct (filter (shape_hit a m) tbl) as [|r0 rest] eqn:EF; [discriminate|].
    destruct (filter (type_hit a rt) (r0 :: rest)) as [|t ts] eqn:ET; inversion H; subst.
    - destruct (filter_head_split _ _ _ _ EF) as (l1 & l2 & -> & Gx & Hl1 & _).
      exists l1, l2. repeat split; auto. right. split; [|exact Hl1].
      intros x Hx Sx. apply (proj1 (filter_nil_all _ _) ET). rewrite <- EF. apply filter_In. split; assumption.
    - rewrite <- EF in ET. destruct (filter_filter_split _ _ _ _ _ ET) as (l1 & l2 & -> & Gx & Hx & Hl1).
      exists l1, l2. repeat split; auto.
  Qed.

  (* ---- store_choice ---- *)
  Lemma store_choice_unfold a (tbl : list row) m rt :
    (forall r, In r tbl -> match_mem a m (rw_pat r) <> None) ->
    store_choice a tbl m rt =
    Some (match filter (type_hit a rt) (filter (shape_hit a m) tbl) with t :: _ => CRow t | [] => CDefault end).
  Proof.
    intros H. unfold store_choice. rewrite (shape_rows_total _ _ _ H), typed_filter.
    destruct (filter (type_hit a rt) (filter (shape_hit a m) tbl)); reflexivity.
  Qed.

  Lemma store_choice_some a (tbl : list row) m rt c :
    store_choice a tbl m rt = Some c -> forall r, In r tbl -> match_mem a m (rw_pat r) <> None.
  Proof.
    unfold store_choice. destruct (shape_rows a tbl m) as [l|] eqn:E; [|discriminate]. intros _.
    exact (proj1 (shape_rows_some _ _ _ _ E)).
  Qed.

  (* the store row: the first row of the table that matches the addressing mode AND names the source register type *)
  Lemma store_choice_first a (tbl : list row) m rt r :
    store_choice a tbl m rt = Some (CRow r) ->
    exists l1 l2, tbl = l1 ++ r :: l2 /\ match_mem a m (rw_pat r) = Some true /\ type_hit a rt r = true /\
                  forall x, In x l1 -> shape_hit a m x = true -> type_hit a rt x = false.
  Proof.
    intros H. pose proof (store_choice_some _ _ _ _ _ H) as Hn. rewrite (store_choice_unfold _ _ _ _ Hn) in H.
    destruct (filter (type_hit a rt) (filter (shape_hit a m) tbl)) as [|t ts] eqn:ET; inversion H; subst.
    destruct (filter_filter_split _ _ _ _ _ ET) as (l1 & l2 & -> & Gx & Hx & Hl1).
    exists l1, l2. repeat split; auto. apply shape_hit_iff. exact Gx.
  Qed.

  Lemma store_default_iff a (tbl : list row) m rt :
    (forall r, In r tbl -> match_mem a m (rw_pat r) <> None) ->
    (store_choice a tbl m rt = Some CDefault <->
     forall r, In r tbl -> match_mem a m (rw_pat r) = Some true -> type_hit a rt r = false).
  Proof.
    intros Hn. rewrite (store_choice_unfold _ _ _ _ Hn). split.
    - intros H r Hr Hm. destruct (filter (type_hit a rt) (filter (shape_hit a m) tbl)) eqn:ET; [|discriminate].
      apply (proj1 (filter_nil_all _ _) ET). apply filter_In. split; [exact Hr|apply shape_hit_iff; exact Hm].
    - intros H. replace (filter (type_hit a rt) (filter (shape_hit a m) tbl)) with (@nil row); [reflexivity|].
      symmetry. apply filter_nil_all. intros r Hr. apply filter_In in Hr. destruct Hr as (A & B).
      apply H; [exact A|apply shape_hit_iff; exact B].
  Qed.

  (* ---- what the getters hand back is what the choice says ---- *)
  Lemma store_rows_head a (tbl : list row) d m rt rows :
    get_store_throughput a tbl d m (Some rt) = Some rows ->
    exists c rest, store_choice a tbl m rt = Some c /\ rows = (match c with CRow r => rw_typ r | CDefault => None end, choice_uops d c) :: rest.
  Proof.
    intros H. destruct (get_store_spec _ _ _ _ _ _ H) as (Hn & Hc). rewrite (store_choice_unfold _ _ _ _ Hn).
    destruct (filter (type_hit a rt) (filter (shape_hit a m) tbl)) as [|t ts].
    - destruct Hc as [(_ & ->)|(Hne & _)]; [|congruence]. exists CDefault, []. split; reflexivity.
    - destruct Hc as [(Hnil & _)|(_ & ->)]; [discriminate|]. exists (CRow t), (map view ts). split; reflexivity.
  Qed.
End Select.

(* ------------------------------------------------------------------ Part 2: addressing-mode specification (C07) *)
Section Spec.
  Context {U : Type}.

  Lemma check_mem_is_match a i m : check_operand a (PMem i) (OMem m) = match_mem a m i.
  Proof. destruct a; reflexivity. Qed.

  (* operands as the parsers deliver them never make the matcher raise *)
  Lemma match_mem_total a m i : wf_operand a (OMem m) = true -> match_mem a m i <> None.
  Proof. intros H. rewrite <- check_mem_is_match. apply check_total. exact H. Qed.

  (* on the documented vocabulary "the pattern matches" is "the row admits the operand's addressing kind" *)
  Lemma match_mem_admits a i m :
    wf_pattern a (PMem i) = true -> wf_operand a (OMem m) = true ->
    match_mem a m i = Some (admits a (PMem i) (kind a (OMem m))).
  Proof.
    intros Hp Ho. rewrite <- check_mem_is_match. apply check_iff_admits_partial; auto. destruct a; reflexivity.
  Qed.
End Spec.

(* ------------------------------------------------------------------ Part 3: histories *)
Section Memo.
  Context {K A : Type} (keq : K -> K -> bool) (key : memop -> K) (sel : memop -> A).

  Definition cache_ok (c : list (K * A)) : Prop :=
    forall k x, In (k, x) c -> forall m, keq (key m) k = true -> x = sel m.

  Lemma cache_find_ok c : cache_ok c -> forall m x, cache_find keq (key m) c = Some x -> x = sel m.
  Proof.
    induction c as [|[k y] c IH]; intros Hc m x H; [discriminate|]. cbn [cache_find] in H.
    destruct (keq (key m) k) eqn:E.
    - inversion H; subst. apply (Hc k x (or_introl eq_refl) m E).
    - apply IH; auto. intros k' x' Hin. apply Hc. right. exact Hin.
  Qed.

  (* a memoising getter whose key determines the selection answers every look-up of every history like the
     stateless selection *)
  Lemma memo_run_exact :
    (forall m1 m2, keq (key m1) (key m2) = true -> sel m1 = sel m2) ->
    forall ms c, cache_ok c -> memo_run keq key sel c ms = map sel ms.
  Proof.
    intros Hk. induction ms as [|m ms IH]; intros c Hc; [reflexivity|].
    cbn [memo_run map]. unfold memo_step. destruct (cache_find keq (key m) c) as [x|] eqn:E.
    - rewrite (cache_find_ok c Hc m x E). f_equal. apply IH. exact Hc.
    - f_equal. apply IH. intros k x [Hin|Hin] m' Hm'.
      + inversion Hin; subst. symmetry. apply Hk. exact Hm'.
      + apply (Hc k x Hin m' Hm').
  Qed.
End Memo.

(* ------------------------------------------------------------------ Part 4: the link to Model/Costing.v *)
From OV Require Import Model.Num Model.Pressure Model.Costing Proofs.PressureQ Proofs.Costing.

Section Glue.
  Context {T : Type} (N : NumOps T).
  Notation UL := (@Rows.UL T).
  Notation row := (Rows.row UL).
  Notation choice := (Rows.choice UL).

  Lemma type_okb_hit a rt (r : row) s : rw_typ r = Some s -> type_okb a rt s = type_hit a rt r.
  Proof. intros H. unfold type_okb, type_hit, holds, typed_test. rewrite H. destruct (type_ok a rt s) as [[|]|]; reflexivity. Qed.

  Lemma is_typed_to_ldrows a rt (r : row) :
    is_typed (mkldrow (fst (view r)) (match fst (view r) with Some s => type_okb a rt s | None => false end) (snd (view r)))
    = type_hit a rt r.
  Proof.
    unfold is_typed, view. cbn [r_dst r_ok fst snd]. destruct (rw_typ r) as [s|] eqn:E.
    - apply type_okb_hit. exact E.
    - unfold type_hit, holds, typed_test. rewrite E. reflexivity.
  Qed.

  Lemma typed_rows_to_ldrows a rt (l : list row) :
    typed_rows (to_ldrows (T:=T) a rt (map view l)) = to_ldrows a rt (map view (filter (type_hit a rt) l)).
  Proof.
    unfold to_ldrows. rewrite !map_map. change (@typed_rows T) with (filter (@is_typed T)).
    induction l as [|r l IH]; [reflexivity|]. cbn [map filter].
    rewrite is_typed_to_ldrows. destruct (type_hit a rt r); cbn [map]; rewrite IH; reflexivity.
  Qed.

  Lemma choose_load_nonempty a rt (r0 : row) rest :
    choose_load_row (to_ldrows (T:=T) a rt (map view (r0 :: rest))) =
    Ok (match filter (type_hit a rt) (r0 :: rest) with t :: _ => rw_uops t | [] => rw_uops r0 end).
  Proof.
    unfold choose_load_row. rewrite typed_rows_to_ldrows.
    destruct (filter (type_hit a rt) (r0 :: rest)) as [|t ts]; reflexivity.
  Qed.

  (* the row the costing model picks from the rows the load getter hands back IS load_choice *)
  Lemma choose_load_is_choice a (tbl : list row) d m rt rows :
    get_load_throughput a tbl d m = Some rows ->
    exists c, load_choice a tbl m rt = Some c /\ choose_load_row (to_ldrows (T:=T) a rt rows) = Ok (choice_uops d c).
  Proof.
    intros H. destruct (get_load_spec _ _ _ _ _ H) as (Hn & Hc). rewrite (load_choice_unfold _ _ _ _ Hn).
    destruct (filter (shape_hit a m) tbl) as [|r0 rest] eqn:EF.
    - destruct Hc as [(_ & ->)|(Hne & _)]; [|congruence]. exists CDefault. split; reflexivity.
    - destruct Hc as [(Hnil & _)|(_ & ->)]; [discriminate|]. rewrite choose_load_nonempty.
      destruct (filter (type_hit a rt) (r0 :: rest)) as [|t ts]; eexists; split; reflexivity.
  Qed.

  Lemma store_first_is_choice a (tbl : list row) d m rt rows :
    get_store_throughput a tbl d m (Some rt) = Some rows ->
    exists c rest, store_choice a tbl m rt = Some c /\ map snd rows = choice_uops d c :: rest.
  Proof.
    intros H. destruct (store_rows_head _ _ _ _ _ _ H) as (c & rest & Hc & ->).
    exists c, (map snd rest). split; [exact Hc|reflexivity].
  Qed.

  (* ---- the micro-ops the property speaks of, in terms of the RAW tables ---- *)
  (* load micro-ops "for its addressing mode and register type": the chosen row of the load table, else the default *)
  Definition sel_ld (a : Match.isa) (tb : tables (T:=T)) (q : memq) (rt : string) : option UL :=
    match q_ld q with
    | None => None
    | Some mem => option_map (choice_uops (t_ld_default tb)) (load_choice a (t_ld tb) mem rt)
    end.
  Definition sel_st (a : Match.isa) (tb : tables (T:=T)) (q : memq) (rt : string) : option UL :=
    match q_st q with
    | None => None
    | Some mem => option_map (choice_uops (t_st_default tb)) (store_choice a (t_st tb) mem rt)
    end.

  Lemma fill_rows_fields m tb q rt (lk lk' : lookup (T:=T)) :
    fill_rows m tb q rt lk = Some lk' ->
    lk_has_ld lk' = lk_has_ld lk /\ lk_has_st lk' = lk_has_st lk /\ lk_suffix lk' = lk_suffix lk /\
    lk_direct lk' = lk_direct lk /\ lk_direct_s lk' = lk_direct_s lk /\ lk_reg lk' = lk_reg lk /\
    lk_reg_s lk' = lk_reg_s lk /\ lk_dest_has_mem lk' = lk_dest_has_mem lk /\ lk_srcdst_wb lk' = lk_srcdst_wb lk.
  Proof.
    unfold fill_rows. destruct (if lk_has_ld lk then _ else _); [|discriminate].
    destruct (if lk_has_st lk then _ else _); [|discriminate]. intros H; inversion H. cbn. repeat split.
  Qed.

  Lemma fill_rows_writeback m tb q rt (lk lk' : lookup (T:=T)) :
    fill_rows m tb q rt lk = Some lk' -> writeback_only (m_isa m) lk' = writeback_only (m_isa m) lk.
  Proof.
    intros H. destruct (fill_rows_fields _ _ _ _ _ _ H) as (_ & _ & _ & _ & _ & _ & _ & A & B).
    unfold writeback_only. rewrite A, B. reflexivity.
  Qed.

  (* the bridge: after fill_rows the costing model's load / store micro-ops are the table selection *)
  Lemma fill_rows_ld m tb q rt lk lk' us :
    fill_rows m tb q rt lk = Some lk' -> lk_has_ld lk = true ->
    choose_load_row (lk_ld_rows lk') = Ok us ->
    sel_ld (isa_of (m_isa m)) tb q rt = Some us.
  Proof.
    unfold fill_rows. intros H HL. rewrite HL in H.
    destruct (ld_rows_of (isa_of (m_isa m)) tb q rt) as [ld|] eqn:ELD; [|discriminate].
    destruct (if lk_has_st lk then _ else _); [|discriminate]. inversion H; subst lk'. cbn [lk_ld_rows].
    unfold ld_rows_of in ELD. unfold sel_ld. destruct (q_ld q) as [mem|].
    - destruct (get_load_throughput (isa_of (m_isa m)) (t_ld tb) (t_ld_default tb) mem) as [rows|] eqn:EG; [|discriminate].
      cbn [option_map] in ELD. inversion ELD; subst ld.
      destruct (choose_load_is_choice _ _ _ _ rt _ EG) as (c & Hc & Hch). rewrite Hc, Hch. cbn [option_map].
      intros E; inversion E; reflexivity.
    - inversion ELD; subst ld. cbn. discriminate.
  Qed.

  Lemma fill_rows_st m tb q rt lk lk' us :
    fill_rows m tb q rt lk = Some lk' -> lk_has_st lk = true ->
    store_uops m lk' = Ok us ->
    exists s, sel_st (isa_of (m_isa m)) tb q rt = Some s /\ us = if writeback_only (m_isa m) lk then [] else s.
  Proof.
    intros H HS. pose proof (fill_rows_writeback _ _ _ _ _ _ H) as HW. revert H. unfold fill_rows. rewrite HS.
    destruct (if lk_has_ld lk then _ else _); [|discriminate].
    destruct (st_rows_of (isa_of (m_isa m)) tb q rt) as [st|] eqn:EST; [|discriminate]. intros H. inversion H; subst lk'.
    unfold store_uops. cbn [lk_st_rows]. unfold st_rows_of in EST. unfold sel_st. destruct (q_st q) as [mem|].
    - destruct (get_store_throughput (isa_of (m_isa m)) (t_st tb) (t_st_default tb) mem (Some rt)) as [rows|] eqn:EG; [|discriminate].
      cbn [option_map] in EST. inversion EST; subst st.
      destruct (store_first_is_choice _ _ _ _ _ _ EG) as (c & rest & Hc & ->). rewrite Hc. cbn [option_map].
      intros E; inversion E. eexists; split; [reflexivity|]. rewrite <- HW. reflexivity.
    - inversion EST; subst st. discriminate.
  Qed.

  (* cost_instr_rows is cost_instr on the look-up record whose rows were computed from the tables *)
  Lemma cost_rows_compose m tb q lk e rt r :
    with_fallback (lk_suffix lk) (lk_direct lk) (lk_direct_s lk) = None ->
    regform lk = Some (e, Ok rt) ->
    cost_instr_rows N m tb q lk = Some r ->
    exists lk', fill_rows m tb q rt lk = Some lk' /\ r = compose N m lk' e (Ok rt) /\ r = cost_instr N m lk'.
  Proof.
    intros HD HR H. unfold cost_instr_rows in H. rewrite HD, HR in H.
    destruct (fill_rows m tb q rt lk) as [lk'|] eqn:EF; [|discriminate]. cbn [option_map] in H. injection H as <-.
    exists lk'. split; [reflexivity|]. split; [reflexivity|].
    destruct (fill_rows_fields _ _ _ _ _ _ EF) as (A1 & A2 & A3 & A4 & A5 & A6 & A7 & _).
    unfold cost_instr. rewrite A3, A4, A5, HD.
    assert (regform lk' = regform lk) as -> by (unfold regform; rewrite A1, A2, A3, A6, A7; reflexivity).
    rewrite HR. reflexivity.
  Qed.

  (* outside the composition path the tables are not consulted at all *)
  Lemma cost_rows_other m tb q lk :
    (with_fallback (lk_suffix lk) (lk_direct lk) (lk_direct_s lk) <> None \/ forall e rt, regform lk <> Some (e, Ok rt)) ->
    cost_instr_rows N m tb q lk = Some (cost_instr N m lk).
  Proof.
    intros H. unfold cost_instr_rows, cost_instr.
    destruct (with_fallback (lk_suffix lk) (lk_direct lk) (lk_direct_s lk)) as [e|]; [reflexivity|].
    destruct H as [H|H]; [congruence|]. destruct (regform lk) as [[e [rt|x]]|]; try reflexivity.
    exfalso. apply (H e rt). reflexivity.
  Qed.

  (* ld_uops / st_uops of the filled record, in terms of the table selection *)
  Definition ld_part (a : Match.isa) (tb : tables (T:=T)) (q : memq) (rt : string) (lk : lookup (T:=T)) : UL :=
    if lk_has_ld lk then match sel_ld a tb q rt with Some us => us | None => [] end else [].
  Definition st_part (m : mach (T:=T)) (tb : tables (T:=T)) (q : memq) (rt : string) (lk : lookup (T:=T)) : UL :=
    if lk_has_st lk then
      if writeback_only (m_isa m) lk then [] else match sel_st (isa_of (m_isa m)) tb q rt with Some us => us | None => [] end
    else [].

  Lemma compose_parts m tb q rt lk lk' e c :
    fill_rows m tb q rt lk = Some lk' -> compose N m lk' e (Ok rt) = Ok c ->
    ld_uops lk' = ld_part (isa_of (m_isa m)) tb q rt lk /\ st_uops m lk' = st_part m tb q rt lk /\
    (lk_has_ld lk = true -> exists us, sel_ld (isa_of (m_isa m)) tb q rt = Some us) /\
    (lk_has_st lk = true -> exists us, sel_st (isa_of (m_isa m)) tb q rt = Some us).
  Proof.
    intros HF HC.
    destruct (fill_rows_fields _ _ _ _ _ _ HF) as (A1 & A2 & _).
    destruct (compose_inv N _ _ _ _ _ HC) as (rt' & dpp & duops & dpp2 & duops2 & st' & mx & t & l & ll & rpp &
      Hrt & HL & HS & _).
    inversion Hrt; subst rt'.
    assert (HLD : ld_uops lk' = ld_part (isa_of (m_isa m)) tb q rt lk /\
                  (lk_has_ld lk = true -> exists us, sel_ld (isa_of (m_isa m)) tb q rt = Some us)).
    { unfold ld_uops, ld_part, load_part in *. rewrite A1 in *. destruct (lk_has_ld lk) eqn:EL; [|split; [reflexivity|discriminate]].
      destruct (choose_load_row (lk_ld_rows lk')) as [us|] eqn:ECh; cbn [bind] in HL; [|discriminate].
      rewrite (fill_rows_ld _ _ _ _ _ _ _ HF EL ECh). split; [reflexivity|]. intros _. eexists; reflexivity. }
    assert (HST : st_uops m lk' = st_part m tb q rt lk /\
                  (lk_has_st lk = true -> exists us, sel_st (isa_of (m_isa m)) tb q rt = Some us)).
    { unfold st_uops, st_part, store_part in *. rewrite A2 in *. destruct (lk_has_st lk) eqn:ES; [|split; [reflexivity|discriminate]].
      destruct (store_uops m lk') as [us|] eqn:ESt; cbn [bind] in HS; [|discriminate].
      destruct (fill_rows_st _ _ _ _ _ _ _ HF ES ESt) as (s & Hs & ->). rewrite Hs.
      split; [|intros _; eexists; reflexivity]. destruct (writeback_only (m_isa m) lk); reflexivity. }
    destruct HLD as (L1 & L2). destruct HST as (S1 & S2). repeat split; assumption.
  Qed.

  (* a kernel is costed line by line: every line's result is a function of (machine, tables, that line) only *)
  Lemma kernel_rows_pointwise m tb k i :
    nth_error (cost_kernel_rows N m tb k) i = option_map (cost_line_rows N m tb) (nth_error k i).
  Proof. unfold cost_kernel_rows. apply nth_error_map. Qed.

  Lemma kernel_rows_app m tb k1 u k2 :
    cost_kernel_rows N m tb (k1 ++ u :: k2) = cost_kernel_rows N m tb k1 ++ cost_line_rows N m tb u :: cost_kernel_rows N m tb k2.
  Proof. unfold cost_kernel_rows. rewrite map_app. reflexivity. Qed.

  Lemma sel_ld_inv a tb q rt us :
    sel_ld a tb q rt = Some us ->
    exists mem ch, q_ld q = Some mem /\ load_choice a (t_ld tb) mem rt = Some ch /\ us = choice_uops (t_ld_default tb) ch.
  Proof.
    unfold sel_ld. destruct (q_ld q) as [mem|]; [|discriminate].
    destruct (load_choice a (t_ld tb) mem rt) as [ch|] eqn:E; [|discriminate]. cbn [option_map].
    intros H; injection H as <-. exists mem, ch. repeat split. exact E.
  Qed.

  Lemma sel_st_inv a tb q rt us :
    sel_st a tb q rt = Some us ->
    exists mem ch, q_st q = Some mem /\ store_choice a (t_st tb) mem rt = Some ch /\ us = choice_uops (t_st_default tb) ch.
  Proof.
    unfold sel_st. destruct (q_st q) as [mem|]; [|discriminate].
    destruct (store_choice a (t_st tb) mem rt) as [ch|] eqn:E; [|discriminate]. cbn [option_map].
    intros H; injection H as <-. exists mem, ch. repeat split. exact E.
  Qed.

  (* which rows: the load / store micro-ops of a composed instruction are the selection from the raw tables *)
  Lemma parts_are_selected m tb q rt lk lk' e c :
    fill_rows m tb q rt lk = Some lk' -> compose N m lk' e (Ok rt) = Ok c ->
    (lk_has_ld lk = true ->
       exists mem ch, q_ld q = Some mem /\ load_choice (isa_of (m_isa m)) (t_ld tb) mem rt = Some ch /\
                      ld_part (isa_of (m_isa m)) tb q rt lk = choice_uops (t_ld_default tb) ch) /\
    (lk_has_st lk = true ->
       exists mem ch, q_st q = Some mem /\ store_choice (isa_of (m_isa m)) (t_st tb) mem rt = Some ch /\
                      st_part m tb q rt lk = if writeback_only (m_isa m) lk then [] else choice_uops (t_st_default tb) ch).
  Proof.
    intros HF HC. destruct (compose_parts _ _ _ _ _ _ _ _ HF HC) as (_ & _ & HL & HS). split.
    - intros E. destruct (HL E) as (us & Hus). destruct (sel_ld_inv _ _ _ _ _ Hus) as (mem & ch & A & B & ->).
      exists mem, ch. repeat split; auto. unfold ld_part. rewrite E, Hus. reflexivity.
    - intros E. destruct (HS E) as (us & Hus). destruct (sel_st_inv _ _ _ _ _ Hus) as (mem & ch & A & B & ->).
      exists mem, ch. repeat split; auto. unfold st_part. rewrite E, Hus. reflexivity.
  Qed.

  (* micro-ops are the union: register form, then the selected load row, then the selected store row *)
  Lemma compose_uops_rows m tb q lk e rt c ru :
    with_fallback (lk_suffix lk) (lk_direct lk) (lk_direct_s lk) = None ->
    regform lk = Some (e, Ok rt) ->
    cost_instr_rows N m tb q lk = Some (Ok c) -> e_uops e = UList ru ->
    c_uops c = PList (ru ++ ld_part (isa_of (m_isa m)) tb q rt lk ++ st_part m tb q rt lk) /\
    (lk_has_ld lk = true ->
       exists mem ch, q_ld q = Some mem /\ load_choice (isa_of (m_isa m)) (t_ld tb) mem rt = Some ch /\
                      ld_part (isa_of (m_isa m)) tb q rt lk = choice_uops (t_ld_default tb) ch) /\
    (lk_has_st lk = true ->
       exists mem ch, q_st q = Some mem /\ store_choice (isa_of (m_isa m)) (t_st tb) mem rt = Some ch /\
                      st_part m tb q rt lk = if writeback_only (m_isa m) lk then [] else choice_uops (t_st_default tb) ch).
  Proof.
    intros HD HR H HU. destruct (cost_rows_compose _ _ _ _ _ _ _ HD HR H) as (lk' & HF & HC & _). symmetry in HC.
    destruct (compose_parts _ _ _ _ _ _ _ _ HF HC) as (L & S & _).
    split; [|exact (parts_are_selected _ _ _ _ _ _ _ _ HF HC)].
    rewrite <- L, <- S. eapply compose_uops; eauto.
  Qed.

  (* not flagged unknown; HAS_ST dropped only for a write-back-only form *)
  Lemma compose_not_unknown_rows m tb q lk e rtr c :
    with_fallback (lk_suffix lk) (lk_direct lk) (lk_direct_s lk) = None ->
    regform lk = Some (e, rtr) ->
    cost_instr_rows N m tb q lk = Some (Ok c) ->
    ~ In F_TP_UNKWN (c_flags c) /\ ~ In F_LT_UNKWN (c_flags c).
  Proof.
    intros HD HR H. destruct rtr as [rt|x].
    - destruct (cost_rows_compose _ _ _ _ _ _ _ HD HR H) as (lk' & HF & HC & _). symmetry in HC.
      destruct (compose_flags N _ _ _ _ _ HC) as (A & B & _). split; assumption.
    - unfold cost_instr_rows in H. rewrite HD, HR in H. discriminate.
  Qed.

  Lemma compose_latency_rows_any m tb q lk e rt c :
    with_fallback (lk_suffix lk) (lk_direct lk) (lk_direct_s lk) = None ->
    regform lk = Some (e, Ok rt) ->
    cost_instr_rows N m tb q lk = Some (Ok c) ->
    exists l ll, e_lt e = Some l /\ (if lk_has_ld lk then load_latency N m rt else Ok (n0 N)) = Ok ll /\
      c_lat c = nadd N (nadd N l ll) (n0 N) /\ c_lat_wo c = l.
  Proof.
    intros HD HR H. destruct (cost_rows_compose _ _ _ _ _ _ _ HD HR H) as (lk' & HF & HC & _). symmetry in HC.
    destruct (compose_latency N _ _ _ _ _ HC) as (rt' & l & ll & Hr & Hl & Hll & Hc & Hw). inversion Hr; subst rt'.
    destruct (fill_rows_fields _ _ _ _ _ _ HF) as (A1 & _). rewrite A1 in Hll. exists l, ll. repeat split; assumption.
  Qed.

  (* neither form: the tables are not consulted, everything is zero *)
  Lemma unknown_zero_rows m tb q lk :
    with_fallback (lk_suffix lk) (lk_direct lk) (lk_direct_s lk) = None ->
    regform lk = None ->
    exists c, cost_instr_rows N m tb q lk = Some (Ok c) /\
      In F_TP_UNKWN (c_flags c) /\ In F_LT_UNKWN (c_flags c) /\
      c_pp c = map (fun _ => n0 N) (m_ports m) /\ c_lat c = n0 N /\ c_lat_wo c = n0 N /\ c_tp c = n0 N /\ c_uops c = PList [].
  Proof.
    intros HD HR. destruct (unknown_zero N m lk HD HR) as (c & Hc & A & B & C & _ & _ & D & E & F & G).
    exists c. rewrite cost_rows_other by (right; intros e rt; rewrite HR; discriminate). rewrite Hc. repeat split; assumption.
  Qed.
End Glue.

(* ------------------------------------------------------------------ exact rationals, rows computed *)
Section GlueQ.
  Local Open Scope Q_scope.
  Import QArith.

  Lemma compose_pressure_rows m tb q lk e rt c r l s :
    with_fallback (lk_suffix lk) (lk_direct lk) (lk_direct_s lk) = None ->
    regform lk = Some (e, Ok rt) ->
    cost_instr_rows QNum m tb q lk = Some (Ok c) ->
    avg_pressure QNum (m_ports m) (e_uops e) = Ok r ->
    avg_pressure_list QNum (m_ports m) (ld_part (isa_of (m_isa m)) tb q rt lk) = Ok l ->
    avg_pressure_list QNum (m_ports m) (st_part m tb q rt lk) = Ok s ->
    List.length (c_pp c) = List.length (m_ports m) /\
    forall j, qnth (c_pp c) j == qnth r j + mult_of (m_ld_mult m) rt * qnth l j + mult_of (m_st_mult m) rt * qnth s j.
  Proof.
    intros HD HR H Hr Hl Hs. destruct (cost_rows_compose _ _ _ _ _ _ _ _ HD HR H) as (lk' & HF & HC & _). symmetry in HC.
    destruct (compose_parts _ _ _ _ _ _ _ _ _ HF HC) as (L & S & _). rewrite <- L in Hl. rewrite <- S in Hs.
    exact (compose_pressure_Q _ _ _ _ _ _ _ _ HC Hr Hl Hs).
  Qed.

  Lemma compose_pressure_rows_uniform m tb q lk e rt c ru r l s t :
    with_fallback (lk_suffix lk) (lk_direct lk) (lk_direct_s lk) = None ->
    regform lk = Some (e, Ok rt) ->
    cost_instr_rows QNum m tb q lk = Some (Ok c) -> e_uops e = UList ru ->
    m_ld_mult m = None -> m_st_mult m = None ->
    avg_pressure_list QNum (m_ports m) ru = Ok r ->
    avg_pressure_list QNum (m_ports m) (ld_part (isa_of (m_isa m)) tb q rt lk) = Ok l ->
    avg_pressure_list QNum (m_ports m) (st_part m tb q rt lk) = Ok s ->
    avg_pressure_list QNum (m_ports m) (ru ++ ld_part (isa_of (m_isa m)) tb q rt lk ++ st_part m tb q rt lk) = Ok t ->
    forall j, qnth (c_pp c) j == qnth t j.
  Proof.
    intros HD HR H HU M1 M2 Hr Hl Hs Ht. destruct (cost_rows_compose _ _ _ _ _ _ _ _ HD HR H) as (lk' & HF & HC & _). symmetry in HC.
    destruct (compose_parts _ _ _ _ _ _ _ _ _ HF HC) as (L & S & _). rewrite <- L in Hl, Ht. rewrite <- S in Hs, Ht.
    exact (proj2 (compose_pressure_uniform _ _ _ _ _ _ _ _ _ _ HC HU M1 M2 Hr Hl Hs Ht)).
  Qed.

  Lemma compose_latency_rows m tb q lk e rt c :
    with_fallback (lk_suffix lk) (lk_direct lk) (lk_direct_s lk) = None ->
    regform lk = Some (e, Ok rt) ->
    cost_instr_rows QNum m tb q lk = Some (Ok c) ->
    exists l ll, e_lt e = Some l /\ (if lk_has_ld lk then load_latency QNum m rt else Ok 0) = Ok ll /\
      c_lat c == l + ll /\ c_lat_wo c = l.
  Proof.
    intros HD HR H. destruct (compose_latency_rows_any QNum _ _ _ _ _ _ _ HD HR H) as (l & ll & A & B & C & D).
    exists l, ll. repeat split; auto. rewrite C. cbn [nadd QNum n0]. rewrite !Qred_correct. ring.
  Qed.

  (* throughput = the larger of the register form's throughput and the busiest data port, the data-port pressure being
     that of the selected rows *)
  Lemma compose_throughput_rows m tb q lk e rt c :
    with_fallback (lk_suffix lk) (lk_direct lk) (lk_direct_s lk) = None ->
    regform lk = Some (e, Ok rt) ->
    cost_instr_rows QNum m tb q lk = Some (Ok c) ->
    exists lk' d t, fill_rows m tb q rt lk = Some lk' /\
      ld_uops lk' = ld_part (isa_of (m_isa m)) tb q rt lk /\ st_uops m lk' = st_part m tb q rt lk /\
      data_pressure QNum m lk' rt = Ok d /\ e_tp e = Some t /\
      t <= c_tp c /\ (forall y, In y d -> y <= c_tp c) /\ (c_tp c = t \/ In (c_tp c) d).
  Proof.
    intros HD HR H. destruct (cost_rows_compose _ _ _ _ _ _ _ _ HD HR H) as (lk' & HF & HC & _). symmetry in HC.
    destruct (compose_parts _ _ _ _ _ _ _ _ _ HF HC) as (L & S & _).
    destruct (compose_throughput_Q _ _ _ _ _ HC) as (d & t & A & B & C & D & E).
    exists lk', d, t. repeat split; auto.
  Qed.
End GlueQ.
