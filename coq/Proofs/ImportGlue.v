(* C20 -- static facts about the Python prelude of the regenerated import glue (Model/ImportGlue.v)
   and its relation to the hand model (Model/Import.v).  Independent of the generated text. *)
From Coq Require Import String Ascii List Bool Arith ZArith Lia.
From OV Require Import Model.PyString Model.ImportPre Model.Import Proofs.Import Model.ImportGlue.
Import ListNotations.
Open Scope string_scope.

(* ------------------------------------------------------------------ association lists
   (Proofs/Import.v proves these inside its Section, where they pick up the Section's parameters) *)
Lemma keys_assoc_set' {A} k (v : A) d k' :
  In k' (map fst (assoc_set k v d)) <-> k' = k \/ In k' (map fst d).
Proof.
  induction d as [|[k2 v2] r IH]; simpl.
  - intuition.
  - destruct (String.eqb k k2) eqn:E; simpl.
    + apply String.eqb_eq in E. subst. intuition.
    + rewrite IH. intuition.
Qed.
Lemma nodup_assoc_set' {A} k (v : A) d : NoDup (map fst d) -> NoDup (map fst (assoc_set k v d)).
Proof.
  induction d as [|[k2 v2] r IH]; simpl; intro H.
  - repeat constructor; auto.
  - inversion H; subst. destruct (String.eqb k k2) eqn:E; simpl.
    + constructor; auto.
    + constructor; auto. rewrite keys_assoc_set'. intros [X | X]; auto.
      subst. rewrite String.eqb_refl in E. discriminate.
Qed.
Lemma assoc_none' {A} k (d : list (string * A)) : assoc k d = None -> ~ In k (map fst d).
Proof.
  induction d as [|[k2 v2] r IH]; simpl; [tauto|].
  destruct (String.eqb k k2) eqn:E; intro H; [discriminate|].
  intros [X | X]; [subst; rewrite String.eqb_refl in E; discriminate | apply IH; auto].
Qed.

Lemma assoc_set_same' {A} k (v : A) d : assoc k (assoc_set k v d) = Some v.
Proof.
  induction d as [|[k' v'] r IH]; simpl.
  - rewrite String.eqb_refl. reflexivity.
  - destruct (String.eqb k k') eqn:E; simpl; rewrite E; auto.
Qed.
Lemma assoc_set_twice {A} k (x y : A) d : assoc_set k x (assoc_set k y d) = assoc_set k x d.
Proof.
  induction d as [|[k' v'] r IH]; simpl.
  - rewrite String.eqb_refl. reflexivity.
  - destruct (String.eqb k k') eqn:E; simpl; rewrite E; [reflexivity | rewrite IH; reflexivity].
Qed.

(* ------------------------------------------------------------------ lists *)
Lemma py_getitem_nat {A} (l : list A) (n : nat) :
  py_getitem l (Z.of_nat n) = g_of_opt (nth_error l n) GIndex.
Proof.
  unfold py_getitem. assert (H : (Z.of_nat n <? 0)%Z = false) by (apply Z.ltb_ge; lia).
  rewrite H, H, Nat2Z.id. destruct (nth_error l n); reflexivity.
Qed.
Lemma py_getitem_0 {A} (l : list A) : py_getitem l 0%Z = g_of_opt (nth_error l 0) GIndex.
Proof. exact (py_getitem_nat l 0). Qed.
Lemma py_getitem_1 {A} (l : list A) : py_getitem l 1%Z = g_of_opt (nth_error l 1) GIndex.
Proof. exact (py_getitem_nat l 1). Qed.
Lemma py_getitem_off {A} (l : list A) (n k : nat) :
  py_getitem l (Z.of_nat n + Z.of_nat k)%Z = g_of_opt (nth_error (skipn n l) k) GIndex.
Proof.
  rewrite <- Nat2Z.inj_add, py_getitem_nat. f_equal.
  revert l. induction n; intro l; simpl; auto. destruct l; simpl; auto. destruct k; reflexivity.
Qed.
Lemma split_chr_hd sep s : nth_error (split_chr sep s) 0 = Some (hd "" (split_chr sep s)).
Proof. pose proof (split_chr_nonempty sep s). destruct (split_chr sep s); [congruence | reflexivity]. Qed.
Lemma strlen_zero s : (py_strlen s =? 0)%Z = Nat.eqb (String.length s) 0.
Proof. unfold py_strlen. destruct (String.length s); reflexivity. Qed.

Lemma g_mapM_map_res {A B} (f : A -> res B) (l : list A) :
  g_mapM (fun x => gres_of (f x)) l = gres_of (map_res f l).
Proof.
  induction l as [|x r IH]; simpl; auto. destruct (f x) as [y|e]; simpl; auto.
  rewrite IH. destruct (map_res f r); reflexivity.
Qed.
Lemma g_mapM_ext {A B} (f g : A -> gres B) l : (forall x, f x = g x) -> g_mapM f l = g_mapM g l.
Proof. intro H. induction l; simpl; auto. rewrite H, IHl. reflexivity. Qed.

(* ------------------------------------------------------------------ range(0, n, 4) *)
Lemma py_range3_0_4 (n : nat) :
  py_range3 0 (Z.of_nat n) 4 = map (fun k => (Z.of_nat (4 * k))) (seq 0 ((n + 3) / 4)).
Proof.
  unfold py_range3. replace (Z.to_nat ((Z.of_nat n - 0 + 4 - 1) / 4)) with ((n + 3) / 4).
  - apply map_ext. intro k. lia.
  - replace (Z.of_nat n - 0 + 4 - 1)%Z with (Z.of_nat (n + 3)) by lia.
    change 4%Z with (Z.of_nat 4). rewrite <- Nat2Z.inj_div, Nat2Z.id. reflexivity.
Qed.

(* ------------------------------------------------------------------ heap / resolve *)
Section HeapFacts.
Variable T : Type.
Notation heap := (heap T).

Lemma map_assoc_set {A B} (f : A -> B) k v (d : list (string * A)) :
  map (fun p => (fst p, f (snd p))) (assoc_set k v d) = assoc_set k (f v) (map (fun p => (fst p, f (snd p))) d).
Proof.
  induction d as [|[k' v'] r IH]; simpl; auto.
  destruct (String.eqb k k'); simpl; [reflexivity | rewrite IH; reflexivity].
Qed.
Lemma hresolve_assoc_set (h : heap) k r d : hresolve h (assoc_set k r d) = assoc_set k (hget h r) (hresolve h d).
Proof. unfold hresolve. apply (map_assoc_set (hget h)). Qed.
Lemma assoc_map {A B} (f : A -> B) k (d : list (string * A)) :
  assoc k (map (fun p => (fst p, f (snd p))) d) = option_map f (assoc k d).
Proof. induction d as [|[k' v'] r IH]; simpl; auto. destruct (String.eqb k k'); auto. Qed.
Lemma assoc_hresolve (h : heap) k d : assoc k (hresolve h d) = option_map (hget h) (assoc k d).
Proof. unfold hresolve. apply assoc_map. Qed.
Lemma keys_hresolve (h : heap) d : map fst (hresolve h d) = map fst d.
Proof. unfold hresolve. rewrite map_map. reflexivity. Qed.

Lemma hget_app1 (h : heap) v r : r < length h -> hget (h ++ [v])%list r = hget h r.
Proof. intro L. unfold hget. apply app_nth1. exact L. Qed.
Lemma hget_app_new (h : heap) v : hget (h ++ [v])%list (length h) = v.
Proof. unfold hget. rewrite app_nth2 by lia. rewrite Nat.sub_diag. reflexivity. Qed.
Lemma nth_list_set_same {A} (l : list A) i v d : i < length l -> nth i (list_set i v l) d = v.
Proof. revert i. induction l; intros [|i] L; simpl in *; try lia; auto. apply IHl. lia. Qed.
Lemma nth_list_set_other {A} (l : list A) i j v d : i <> j -> nth j (list_set i v l) d = nth j l d.
Proof. revert i j. induction l; intros [|i] [|j] L; simpl in *; try congruence; auto. Qed.
Lemma length_list_set {A} (l : list A) i v : length (list_set i v l) = length l.
Proof. revert i. induction l; intros [|i]; simpl; auto. Qed.
Lemma hget_hset_same (h : heap) r v : r < length h -> hget (hset h r v) r = v.
Proof. apply nth_list_set_same. Qed.
Lemma hget_hset_other (h : heap) r r' v : r <> r' -> hget (hset h r v) r' = hget h r'.
Proof. apply nth_list_set_other. Qed.

Lemma hresolve_ext (h h' : heap) d :
  (forall r, In r (map snd d) -> hget h' r = hget h r) -> hresolve h' d = hresolve h d.
Proof.
  intro H. unfold hresolve. apply map_ext_in. intros [k r] I. simpl. f_equal. apply H.
  apply in_map_iff. exists (k, r). auto.
Qed.
Lemma hresolve_app (h : heap) v d :
  (forall r, In r (map snd d) -> r < length h) -> hresolve (h ++ [v])%list d = hresolve h d.
Proof. intro B. apply hresolve_ext. intros r I. apply hget_app1. auto. Qed.

(* the state of the translated parsing loops: every key has its own cell *)
Definition hinv (h : heap) (d : list (string * ref)) : Prop :=
  NoDup (map fst d) /\ NoDup (map snd d) /\ (forall r, In r (map snd d) -> r < length h).

Lemma NoDup_app_one {A} (l : list A) x : NoDup l -> ~ In x l -> NoDup (l ++ [x])%list.
Proof.
  induction l; simpl; intros N F.
  - repeat constructor. auto.
  - inversion N; subst. constructor.
    + intro X. apply in_app_or in X. destruct X as [X | [X | []]]; auto.
    + apply IHl; auto.
Qed.
Lemma hinv_nil : hinv [] [].
Proof. repeat split; simpl; try constructor. tauto. Qed.

Lemma assoc_set_present {A} k (r : A) d : assoc k d = Some r -> assoc_set k r d = d.
Proof.
  induction d as [|[k' v'] rest IH]; simpl; [discriminate|].
  destruct (String.eqb k k') eqn:E; intro H.
  - apply String.eqb_eq in E. inversion H; subst. reflexivity.
  - rewrite IH; auto.
Qed.
Lemma assoc_set_absent {A} k (r : A) d : assoc k d = None -> assoc_set k r d = (d ++ [(k, r)])%list.
Proof.
  induction d as [|[k' v'] rest IH]; simpl; auto.
  destruct (String.eqb k k') eqn:E; intro H; [discriminate|]. rewrite IH; auto.
Qed.
Lemma assoc_in_snd {A} k (d : list (string * A)) r : assoc k d = Some r -> In r (map snd d).
Proof.
  induction d as [|[k' v'] rest IH]; simpl; [discriminate|].
  destruct (String.eqb k k'); intro H; [inversion H; auto | right; auto].
Qed.

(* a store through the reference of an existing key changes exactly that key's value *)
Lemma hresolve_hset (h : heap) d k r v : hinv h d -> assoc k d = Some r ->
  hresolve (hset h r v) d = assoc_set k v (hresolve h d).
Proof.
  intros (NK & NR & B). revert NK NR B. induction d as [|[k' r'] rest IH]; simpl; intros NK NR B A; [discriminate|].
  inversion NK; subst. inversion NR; subst.
  destruct (String.eqb k k') eqn:E.
  - apply String.eqb_eq in E. subst k'. inversion A; subst r'. simpl. f_equal.
    + f_equal. apply hget_hset_same. apply B. auto.
    + apply hresolve_ext. intros r0 I. apply hget_hset_other. intro X. subst. contradiction.
  - simpl. f_equal.
    + f_equal. apply hget_hset_other. intro X. subst r'. apply H3. eapply assoc_in_snd; eauto.
    + apply IH; auto; intros r0 I; apply B; simpl; auto.
Qed.
Lemma hinv_hset (h : heap) d r v : hinv h d -> hinv (hset h r v) d.
Proof. intros (A & B & C). repeat split; auto. intros. unfold hset. rewrite length_list_set. auto. Qed.

(* allocation of a cell for a new key *)
Lemma hinv_alloc (h : heap) d k v : hinv h d -> assoc k d = None ->
  hinv (h ++ [v])%list (assoc_set k (length h) d).
Proof.
  intros (A & B & C) N. rewrite (assoc_set_absent _ _ _ N). repeat split.
  - rewrite map_app. simpl. apply NoDup_app_one; auto. apply assoc_none'. auto.
  - rewrite map_app. simpl. apply NoDup_app_one; auto. intro X. apply C in X. lia.
  - intros r I. rewrite map_app in I. apply in_app_or in I. rewrite app_length. simpl.
    destruct I as [I | [I | []]]; [apply C in I; lia | simpl in I; rewrite <- I; lia].
Qed.
Lemma hresolve_alloc (h : heap) d k v : hinv h d ->
  hresolve (h ++ [v])%list (assoc_set k (length h) d) = assoc_set k v (hresolve h d).
Proof.
  intros (A & B & C). rewrite hresolve_assoc_set, hget_app_new, hresolve_app; auto.
Qed.
(* re-binding a key to a fresh cell (asmbench: the same name twice) *)
Lemma vals_assoc_set {A} k (v : A) d x : In x (map snd (assoc_set k v d)) -> x = v \/ In x (map snd d).
Proof.
  induction d as [|[k' v'] rest IH]; simpl.
  - intros [X | []]; auto.
  - destruct (String.eqb k k'); simpl; intros [X | X]; auto. destruct (IH X); auto.
Qed.
Lemma nodup_vals_assoc_set {A} k (v : A) d : NoDup (map snd d) -> ~ In v (map snd d) -> NoDup (map snd (assoc_set k v d)).
Proof.
  induction d as [|[k' v'] rest IH]; simpl; intros N F.
  - repeat constructor. auto.
  - inversion N; subst. destruct (String.eqb k k'); simpl.
    + constructor; auto.
    + constructor; auto. intro X. apply vals_assoc_set in X. destruct X as [X | X]; [subst; auto | auto].
Qed.
Lemma hinv_rebind (h : heap) d k v : hinv h d -> hinv (h ++ [v])%list (assoc_set k (length h) d).
Proof.
  intros (A & B & C). repeat split.
  - apply nodup_assoc_set'. auto.
  - apply nodup_vals_assoc_set; auto. intro X. apply C in X. lia.
  - intros r I. rewrite app_length. simpl. apply vals_assoc_set in I. destruct I as [-> | I]; [lia | apply C in I; lia].
Qed.
End HeapFacts.

(* ------------------------------------------------------------------ dict equality on operand dicts *)
(* key lists of the DB-format operand dicts the decoders produce *)
Definition operand_shapes : list (list string) :=
  [ ["class"; "name"]; ["class"; "imd"]; ["class"; "prefix"]; ["class"; "prefix"; "shape"];
    ["class"; "base"; "offset"; "index"; "scale"];
    ["class"; "base"; "offset"; "index"; "scale"; "pre_indexed"; "post_indexed"] ].
Definition canon (d : pydict) : Prop := In (map fst d) operand_shapes.
