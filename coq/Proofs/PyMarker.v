(* C11 -- facts about the Python prelude Model/PyMarker.v (independent of the generated text). *)
From Coq Require Import String Ascii List Bool Arith ZArith Lia.
From OV Require Import Model.Select Proofs.Select Model.PyMarker.
Import ListNotations.
Local Open Scope list_scope.

Lemma bind_ret {A} (r : res A) : bind r (fun x => Ok x) = r.
Proof. destruct r; reflexivity. Qed.

Lemma bind_inj {A B} (r : result A) (f : A -> result B) :
  inj (Select.bind r f) = bind (inj r) (fun a => inj (f a)).
Proof. destruct r; reflexivity. Qed.

Lemma inj_ok_inv {A} (r : result A) a : inj r = Ok a -> r = Select.Ok a.
Proof. destruct r; simpl; intros H; inversion H; reflexivity. Qed.

Lemma inj_err_inv {A} (r : result A) e : inj r = Err e -> exists e', r = Select.Err e' /\ e = inj_err e'.
Proof. destruct r; simpl; intros H; inversion H. eauto. Qed.

Lemma inj_never_fuel {A} (r : result A) : inj r <> Err EFuel.
Proof. destruct r as [a|[]]; simpl; discriminate. Qed.
Lemma inj_never_type {A} (r : result A) : inj r <> Err EType.
Proof. destruct r as [a|[]]; simpl; discriminate. Qed.

(* ------------------------------------------------------------------ numbers *)
Lemma ltb_of_nat a b : (Z.of_nat a <? Z.of_nat b)%Z = (a <? b)%nat.
Proof.
  destruct (Nat.ltb_spec a b); [apply Z.ltb_lt | apply Z.ltb_ge]; lia.
Qed.

(* ------------------------------------------------------------------ l[i] *)
Lemma py_getitem_nat {A} (l : list A) n :
  py_getitem l (Z.of_nat n) = match nth_error l n with Some x => Ok x | None => Err EIndex end.
Proof.
  unfold py_getitem. destruct (Z.ltb_spec (Z.of_nat n) 0); [lia|].
  destruct (Z.ltb_spec (Z.of_nat n) 0); [lia|]. rewrite Nat2Z.id. reflexivity.
Qed.

Lemma nth_error_skipn_hd {A} (l : list A) n : nth_error l n = hd_error (skipn n l).
Proof. revert l. induction n; destruct l; simpl; auto. Qed.

Lemma skipn_cons_inv {A} (l : list A) n x r :
  skipn n l = x :: r -> nth_error l n = Some x /\ skipn (S n) l = r /\ (n < length l)%nat.
Proof.
  revert l. induction n; destruct l; simpl; intros H; try discriminate.
  - inversion H; subst. repeat split; auto. lia.
  - destruct (IHn _ H) as (H1 & H2 & H3). repeat split; auto. lia.
Qed.

Lemma skipn_nil_inv {A} (l : list A) n : skipn n l = [] -> (length l <= n)%nat.
Proof.
  revert l. induction n; destruct l; simpl; intros H; try discriminate; try lia.
  apply IHn in H. lia.
Qed.

(* ------------------------------------------------------------------ l[a:b] *)
Lemma py_slice_nat {A} (l : list A) s e :
  py_slice l (Some (Z.of_nat s)) (Some (Z.of_nat e)) = slice l s e.
Proof.
  unfold py_slice, slice, slice_bound, py_len.
  destruct (Z.ltb_spec (Z.of_nat s) 0); [lia|]. destruct (Z.ltb_spec (Z.of_nat e) 0); [lia|].
  set (n := length l).
  assert (Ea : Z.to_nat (Z.min (Z.of_nat s) (Z.of_nat n)) = Nat.min s n) by lia.
  assert (Eb : Z.to_nat (Z.min (Z.of_nat e) (Z.of_nat n) - Z.min (Z.of_nat s) (Z.of_nat n)) = Nat.min e n - Nat.min s n) by lia.
  rewrite Ea, Eb. clear Ea Eb.
  destruct (Nat.le_gt_cases n s) as [Hs|Hs].
  - (* start beyond the end: both sides are empty *)
    rewrite (skipn_all2 l) by (subst n; lia).
    rewrite (skipn_all2 l) by (subst n; lia). rewrite !firstn_nil. reflexivity.
  - rewrite (Nat.min_l s n) by lia.
    destruct (Nat.le_gt_cases n e) as [He|He].
    + rewrite Nat.min_r by lia.
      rewrite !firstn_all2; auto; rewrite skipn_length; fold n; lia.
    + rewrite Nat.min_l by lia. reflexivity.
Qed.

Lemma py_slice_first {A} (l : list A) k :
  py_slice l (Some 0%Z) (Some (Z.of_nat k)) = firstn k l.
Proof.
  change 0%Z with (Z.of_nat 0). rewrite py_slice_nat. unfold slice. simpl. rewrite Nat.sub_0_r. reflexivity.
Qed.

(* ------------------------------------------------------------------ enumerate *)
Lemma enum_from_app {A} (a b : list A) k :
  enum_from k (a ++ b) = enum_from k a ++ enum_from (k + Z.of_nat (length a)) b.
Proof.
  revert k. induction a; intros k; simpl.
  - f_equal. lia.
  - f_equal. rewrite IHa. f_equal. f_equal. lia.
Qed.

(* ------------------------------------------------------------------ [int(x, 0) for x in ps] *)
Lemma py_mapM_ints (f : string -> res Z) ps :
  (forall x, f x = py_int_base0 x) -> py_mapM f ps = inj (ints ps).
Proof.
  intros Hf. induction ps as [|p r IH]; simpl; [reflexivity|].
  rewrite Hf. unfold py_int_base0. destruct (py_int0 p); simpl; [|reflexivity].
  rewrite IH. destruct (ints r); reflexivity.
Qed.

(* ------------------------------------------------------------------ membership / equality helpers *)
Lemma opt_in_strs_some m l : opt_in_strs (Some m) l = in_strs m l.
Proof. reflexivity. Qed.

Lemma in_ints_in_Zs n r : in_ints n r = in_Zs n r.
Proof. reflexivity. Qed.

Lemma filter_select r f :
  map (fun l : line => l) (filter (fun l => in_ints (line_number l) r) f) = select_lines r f.
Proof. rewrite map_id. reflexivity. Qed.

(* optional index: -1 stands for "not found" *)
Definition optZ (o : option nat) : Z := match o with Some n => Z.of_nat n | None => (-1)%Z end.
Lemma optZ_m1 o : Z.eqb (optZ o) (-1) = negb (is_some o).
Proof. destruct o; simpl; [apply Z.eqb_neq; lia | reflexivity]. Qed.
