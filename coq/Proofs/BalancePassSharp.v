(* The one-pass results of Proofs/BalanceMulti.v / BalancePass.v with the sharper slack of Proofs/HallSharp.v:
   1/100 per pair (micro-op not confined to S, port of S that the micro-op may use). *)
From Coq Require Import QArith Qround Qfield Lqa Lia List Bool Arith String ZArith.
From OV Require Import Model.Num Model.Pressure Proofs.ListSpec Proofs.Feasible Proofs.PressureQ Proofs.BalanceFrame
  Proofs.BalanceSingle Proofs.BalanceMulti Proofs.Optimum Proofs.BalancePass Proofs.HallSharp.
Import ListNotations.
Open Scope Q_scope.
Local Notation length := List.length (only parsing).

(* C01, one instruction *)
Theorem balance_instr_hall_sharp ports k idx us pp ex pp' e S :
  instr_okb ports us = true ->
  avg_pressure_list QNum ports us = Ok pp ->
  balance_uops QNum ports k idx pp us ex = Ok (pp', e) ->
  confined_cycles S (map (toU ports) us) - (1 # 100) * slack_pairs (length ports) S (map (toU ports) us)
  <= load (length ports) S (qnth pp').
Proof.
  intros OK AV H. destruct (balance_instr_feasible ports k idx us pp ex pp' e OK AV H) as (F & _ & _).
  apply feasible_hall_sharp; [lra | exact F].
Qed.

(* C01, every instruction after one pass *)
Theorem balance_pass_hall_sharp ports (k k' : list (instr (T:=Q))) e j S :
  all_start_ok ports k -> balance QNum ports k = Ok (k', e) -> (j < length k)%nat ->
  confined_cycles S (uopsQ ports (nth j k dins)) - (1 # 100) * slack_pairs (length ports) S (uopsQ ports (nth j k dins))
  <= load (length ports) S (qnth (i_pp (nth j k' dins))).
Proof.
  intros ST H Hj. destruct (balance_pass_feasible ports k k' e ST H) as (_ & J).
  destruct (J j Hj) as (_ & EU & (F & _ & _)).
  assert (E : uopsQ ports (nth j k dins) = uopsQ ports (nth j k' dins)) by (unfold uopsQ; rewrite EU; reflexivity).
  rewrite E. apply feasible_hall_sharp; [lra | exact F].
Qed.

(* C02 *)
Lemma kpairs_cons P S x ks : kpairs P S (x :: ks) == slack_pairs P S (fst x) + kpairs P S ks.
Proof. unfold kpairs. cbn [length]. rewrite sumn_shift. reflexivity. Qed.

Lemma same_shape_same_kpairs ports P S : forall (k k' : list (instr (T:=Q))),
  map tpu k' = map tpu k ->
  kpairs P S (kview ports (filter (counted QNum) k')) == kpairs P S (kview ports (filter (counted QNum) k)).
Proof.
  induction k as [|a k IH]; intros [|a' k'] E; try discriminate; [reflexivity|].
  cbn [map] in E. assert (E0 : tpu a' = tpu a) by congruence.
  assert (E2 : map tpu k' = map tpu k) by congruence. unfold tpu in E0.
  assert (Etp : i_tp a' = i_tp a) by congruence. assert (Euo : i_uops a' = i_uops a) by congruence.
  assert (EC : counted QNum a' = counted QNum a) by (unfold counted; rewrite Etp; reflexivity).
  pose proof (IH k' E2) as I1. cbn [filter]. rewrite EC.
  destruct (counted QNum a); [|exact I1].
  cbn [kview map]. fold (kview ports (filter (counted QNum) k')). fold (kview ports (filter (counted QNum) k)).
  rewrite !kpairs_cons. cbn [fst]. unfold uopsQ. rewrite Euo, I1. reflexivity.
Qed.

Theorem pass_bottleneck_ge_optimum_sharp ports (k k' : list (instr (T:=Q))) e B S :
  all_start_ok ports k -> balance QNum ports k = Ok (k', e) -> bottleneck QNum k' = Ok B ->
  kconfined S (kview ports (filter (counted QNum) k'))
  - (1 # 100) * kpairs (length ports) S (kview ports (filter (counted QNum) k'))
  <= card (length ports) S * (B + (1 # 200)).
Proof.
  intros ST H HB. destruct (balance_pass_feasible ports k k' e ST H) as (L & J).
  assert (DONE : forall ins, In ins k' -> done_ok ports ins).
  { intros ins Hi. apply (In_nth _ _ dins) in Hi. destruct Hi as (j & Hj & E). subst ins.
    rewrite L in Hj. apply (J j Hj). }
  apply opt_is_lower_bound_sharp.
  - lra.
  - intros i Hi. unfold kview in Hi. rewrite map_length in Hi. rewrite (kget_kview ports _ i Hi). cbn [fst snd].
    apply DONE. apply (proj1 (filter_In _ _ _) (nth_In _ dins Hi)).
  - apply bottleneck_bounds_loads; [|exact HB]. intros ins Hi. apply (DONE ins Hi).
Qed.

(* for EVERY non-empty port set S:  B >= confined(S)/|S| - (1/100) * (pairs straddling S)/|S| - 1/200, where the pairs are
   (counted micro-op of the INPUT kernel that is not confined to S, port of S it may use) *)
Theorem pass_bottleneck_near_optimum_sharp ports (k k' : list (instr (T:=Q))) e B S :
  all_start_ok ports k -> balance QNum ports k = Ok (k', e) -> bottleneck QNum k' = Ok B ->
  0 < card (length ports) S ->
  (kconfined S (kview ports (filter (counted QNum) k))
   - (1 # 100) * kpairs (length ports) S (kview ports (filter (counted QNum) k))) / card (length ports) S
  - (1 # 200) <= B.
Proof.
  intros ST H HB HC.
  pose proof (pass_bottleneck_ge_optimum_sharp ports k k' e B S ST H HB) as G.
  pose proof (pass_keeps_shape ports k k' e ST H) as SH.
  destruct (same_shape_same_optimum ports S k k' SH) as (E1 & _).
  rewrite E1, (same_shape_same_kpairs ports (length ports) S k k' SH) in G.
  set (C := kconfined S _) in *. set (N := kpairs _ S _) in *. set (c := card _ S) in *. clearbody C N c.
  assert (G' : (C - (1 # 100) * N) / c <= B + (1 # 200)).
  { apply Qle_shift_div_r; [exact HC|]. lra. }
  lra.
Qed.

(* non-vacuity and sharpness on the example kernel: S = {2}; confined 1/4 (the micro-op on port 2 only), one straddling
   pair (the micro-op on 1|2), the micro-op on 0|1 costs nothing *)
Example pass_sharp_nonvacuous :
  kconfined (fun p => Nat.eqb p 2) (kview exm_ports (filter (counted QNum) exm_kernel)) == 1 # 4 /\
  kpairs (length exm_ports) (fun p => Nat.eqb p 2) (kview exm_ports (filter (counted QNum) exm_kernel)) == 1 /\
  knonconf (fun p => Nat.eqb p 2) (kview exm_ports (filter (counted QNum) exm_kernel)) == 3.
Proof. split; [|split]; vm_compute; reflexivity. Qed.
