(* C19, repaired sequential search (patches/C19-fix-sequential-timeout.diff): for root u and target t the
   search runs on dg.subgraph(nx.ancestors(dg, t) | {t}) instead of dg, and not at all when u is not an
   ancestor of t.  Over the path enumeration of Model/Deps.v (`paths`, the model of all_simple_paths that
   C05 is proved about) this changes nothing: same paths, same order.  The statement is generic in the
   set that is kept: ANY set that contains t and every node from which t can be reached will do. *)
From Coq Require Import List Bool Arith Lia.
From OV Require Import Model.Num Model.Pressure Model.Deps Proofs.LCD.
Import ListNotations.

Section Restrict.
  Context {T : Type}.
  Notation edge := (edge (T:=T)).
  Variable keep : nat -> bool.

  (* G.subgraph(nodes): the edges with both ends in `nodes`, in their original order *)
  Definition restrict (g : list edge) : list edge :=
    filter (fun e : edge => let '((s, _), t, _) := e in keep s && keep t) g.

  (* the repaired search for one root *)
  Definition paths_pruned (fuel : nat) (g : list edge) (u t : nat) : list (list (nat * T)) :=
    if keep u then paths fuel (restrict g) u t else [].

  Lemma succs_restrict g u : keep u = true ->
    succs (restrict g) u = filter (fun vw : nat * T => keep (fst vw)) (succs g u).
  Proof.
    intros Ku. induction g as [|[[[s isld] t] w] g IH]; [reflexivity|].
    cbn [restrict filter]. fold (restrict g).
    destruct (Nat.eqb s u) eqn:Es.
    - apply Nat.eqb_eq in Es. subst s. rewrite Ku. cbn [andb].
      destruct (keep t) eqn:Kt.
      + unfold succs in *. cbn [flat_map]. rewrite Nat.eqb_refl. cbn [andb].
        destruct isld; cbn [negb app filter fst]; [exact IH|]. rewrite Kt. f_equal. exact IH.
      + unfold succs in *. cbn [flat_map]. rewrite Nat.eqb_refl. cbn [andb].
        destruct isld; cbn [negb app filter fst]; [exact IH|]. rewrite Kt. exact IH.
    - destruct (keep s && keep t); unfold succs in *; cbn [flat_map]; rewrite Es; cbn [andb app]; exact IH.
  Qed.

  Section OneTarget.
    Variables (g : list edge) (t : nat) (F : nat).
    Hypothesis keep_target : keep t = true.
    (* `keep` contains every node from which t is reached (nx.ancestors(dg, t)) *)
    Hypothesis keep_ancestors : forall f v, f <= F -> paths f g v t <> [] -> keep v = true.

    Lemma paths_restrict : forall fuel u, fuel <= F -> keep u = true ->
      paths fuel (restrict g) u t = paths fuel g u t.
    Proof.
      induction fuel as [|f IH]; intros u Hf Ku; [reflexivity|].
      cbn [paths]. rewrite succs_restrict by exact Ku.
      induction (succs g u) as [|[v w] l IHl]; [reflexivity|].
      cbn [filter fst flat_map]. destruct (keep v) eqn:Kv.
      - cbn [flat_map]. rewrite IHl. f_equal.
        destruct (Nat.eqb v t); [reflexivity|]. rewrite IH by (auto; lia). reflexivity.
      - rewrite IHl. destruct (Nat.eqb v t) eqn:E.
        + apply Nat.eqb_eq in E. subst v. congruence.
        + destruct (paths f g v t) as [|p ps] eqn:Ep; [reflexivity|].
          assert (keep v = true) by (apply (keep_ancestors f v); [lia | rewrite Ep; discriminate]). congruence.
    Qed.

    (* THE RESTRICTED SEARCH YIELDS THE SAME PATHS IN THE SAME ORDER *)
    Lemma paths_pruned_same : forall fuel u, fuel <= F -> paths_pruned fuel g u t = paths fuel g u t.
    Proof.
      intros fuel u Hf. unfold paths_pruned. destruct (keep u) eqn:Ku; [apply paths_restrict; assumption|].
      destruct (paths fuel g u t) as [|p ps] eqn:Ep; [reflexivity|].
      assert (keep u = true) by (apply (keep_ancestors fuel u); [lia | rewrite Ep; discriminate]). congruence.
    Qed.
  End OneTarget.
End Restrict.

Section Ancestors.
  Context {T : Type}.
  Notation edge := (edge (T:=T)).

  Lemma paths_length (g : list edge) : forall fuel u t p, In p (paths fuel g u t) -> List.length p <= fuel.
  Proof.
    induction fuel as [|f IH]; intros u t p H; [contradiction|].
    cbn [paths] in H. apply in_flat_map in H. destruct H as ([v w] & _ & Hp).
    destruct (Nat.eqb v t).
    - destruct Hp as [<-|[]]. simpl. lia.
    - apply in_map_iff in Hp. destruct Hp as (q & <- & Hq). simpl. specialize (IH _ _ _ Hq). lia.
  Qed.

  (* more fuel never loses a path *)
  Lemma paths_mono (g : list edge) f F u t p : f <= F -> In p (paths f g u t) -> In p (paths F g u t).
  Proof.
    intros Hf H. apply paths_complete; [eapply paths_sound; exact H|].
    pose proof (paths_length g f u t p H). lia.
  Qed.

  (* nx.ancestors(dg, t) | {t}, decided with the enumeration itself *)
  Definition anc_or_target (F : nat) (g : list edge) (t v : nat) : bool :=
    Nat.eqb v t || match paths F g v t with [] => false | _ => true end.

  Lemma anc_keeps_target F g t : anc_or_target F g t t = true.
  Proof. unfold anc_or_target. rewrite Nat.eqb_refl. reflexivity. Qed.

  Lemma anc_keeps_ancestors F g t : forall f v, f <= F -> paths f g v t <> [] -> anc_or_target F g t v = true.
  Proof.
    intros f v Hf H. unfold anc_or_target. destruct (paths f g v t) as [|p ps] eqn:E; [congruence|].
    assert (In p (paths F g v t)) by (apply (paths_mono g f F); [exact Hf | rewrite E; left; reflexivity]).
    destruct (paths F g v t); [contradiction|]. apply orb_true_r.
  Qed.

  (* the search of the repaired code for one root, with the concrete set *)
  Lemma ancestor_pruned_same F (g : list edge) u t :
    paths_pruned (anc_or_target F g t) F g u t = paths F g u t.
  Proof.
    apply (paths_pruned_same (anc_or_target F g t) g t F).
    - apply anc_keeps_target.
    - apply anc_keeps_ancestors.
    - lia.
  Qed.
End Ancestors.
