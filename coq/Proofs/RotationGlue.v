(* Rotation invariance of the loop-carried dependencies (DESIGN.md C14): the GLUE between
     Part 1 of Proofs/Rotation.v (the dependency scan is prefix-determined) and
     Part 2 (cross-iteration paths of a periodic forward edge relation seen through a rotated window correspond)
   for the concrete model Model/Deps.v (create_dg / doubled / paths / entry_of).

   Contents
     1. renumbering: l_no is only an output label of scan / find_depending             (scan_relabel, find_depending_relabel)
     2. last_wins / succs: the weight of the edge u -> t is that of the LAST emission for the pair   (last_wins_spec)
     3. SEGMENT / WINDOW lemma for create_dg: with pairwise different line numbers the edge between two lines of a
        kernel depends only on the instructions from the source to the target (bodies, not numbers)   (emit_window,
        window_edges)
     4. the stream edge relation stream_E of a loop body, forward and periodic                  (stream_E_forward, stream_E_periodic)
     5. the doubled (rotated) kernel is the window [r, r + 2n) of the stream                    (doubled_window)
     6. transport  paths of create_dg (doubled K)  <->  Rotation.spath of stream_E               (vpath_to_spath, spath_to_vpath)
     7. MAIN: rotation_glue / rotation_glue_conv
     8. consequences: rotation_raw (entries before de-duplication), rotation_lcd_entries (after), and for exact rationals
        rotation_lcd_entries_Q (== sums, same members) and rotation_lcd_figure_Q; non-vacuity examples at the end.
   See notes/C14.md for the exact statements and what is not claimed (float sums of the kept representative). *)
From Coq Require Import ZArith List Bool String Lia Arith Permutation.
From OV Require Import Model.Num Model.Pressure Model.Deps Proofs.DepsScan Proofs.LCD Proofs.Rotation.
Import ListNotations.

Section Glue.
  Context {T : Type} (N : NumOps T) (dep : regop -> regop -> bool).
  Variables (fwd pidx : T) (fd : bool).
  Notation line := (line (T:=T)).
  Notation edge := (edge (T:=T)).

  (* ------------------------------------------------------------ renumbering / rotation of a kernel *)
  Definition setno (x : nat) (l : line) : line :=
    mkL x (l_sem l) (l_lat l) (l_lat_wo l) (l_loadnode l) (l_chg l) (l_chg_post l).
  Fixpoint renum_from (s : nat) (k : list line) : list line :=
    match k with [] => [] | l :: r => setno s l :: renum_from (S s) r end.
  (* the kernel as OSACA numbers it: lines 1, 2, ..., n in list order *)
  Definition renumber (k : list line) : list line := renum_from 1 k.
  (* the kernel after moving its first r lines to the end *)
  Definition rotate (r : nat) (k : list line) : list line := renumber (skipn r k ++ firstn r k).
  (* the instruction without its number *)
  Definition strip (l : line) : line := setno 0 l.
  Definition dline : line := mkL 0 None (n0 N) (n0 N) false [] [].

  Lemma setno_id (l : line) : setno (l_no l) l = l.
  Proof. destruct l; reflexivity. Qed.

  Lemma renum_length : forall k s, List.length (renum_from s k) = List.length k.
  Proof. induction k as [|l k IH]; intros s; cbn [renum_from List.length]; [reflexivity | rewrite IH; reflexivity]. Qed.

  Lemma renum_nth : forall k s i d d', i < List.length k -> nth i (renum_from s k) d' = setno (s + i) (nth i k d).
  Proof.
    induction k as [|l k IH]; intros s i d d' Hi; cbn [List.length] in Hi; [lia|].
    destruct i as [|i]; cbn [renum_from nth].
    - rewrite Nat.add_0_r. reflexivity.
    - rewrite (IH (S s) i d d') by lia. f_equal. lia.
  Qed.

  Lemma renum_labels : forall k s, map l_no (renum_from s k) = seq s (List.length k).
  Proof. induction k as [|l k IH]; intros s; cbn [renum_from map List.length seq]; [reflexivity | rewrite IH; reflexivity]. Qed.

  Lemma renum_strip : forall k s, renum_from s (map strip k) = renum_from s k.
  Proof. induction k as [|l k IH]; intros s; cbn [map renum_from]; [reflexivity | rewrite IH; reflexivity]. Qed.

  (* ------------------------------------------------------------ 1. relabelling *)
  Definition relab (phi : nat -> nat) (l : line) : line := setno (phi (l_no l)) l.
  Definition relab_out (phi : nat -> nat) (nf : nat * dflag) : nat * dflag := (phi (fst nf), snd nf).

  (* mapping the line numbers of the scanned instructions through ANY function maps the reported labels and nothing else *)
  Lemma scan_relabel phi d : forall (rest : list line) s,
    scan dep fd d (map (relab phi) rest) s = map (relab_out phi) (scan dep fd d rest s).
  Proof.
    induction rest as [|l more IH]; intros s; [reflexivity|]. cbn [map scan].
    change (l_chg (relab phi l)) with (l_chg l). change (l_chg_post (relab phi l)) with (l_chg_post l).
    change (l_no (relab phi l)) with (phi (l_no l)).
    set (s2 := update_changes (update_changes s (l_chg l)) (l_chg_post l)). specialize (IH s2).
    destruct d as [rg|fl|m|].
    - change (is_read dep (OReg rg) (relab phi l)) with (is_read dep (OReg rg) l).
      change (is_written dep (OReg rg) (relab phi l)) with (is_written dep (OReg rg) l).
      destruct (is_written dep (OReg rg) l); destruct (is_read dep (OReg rg) l); cbn [map app]; try reflexivity;
        rewrite IH; reflexivity.
    - destruct fd; [|exact IH].
      change (is_read dep (OFlag fl) (relab phi l)) with (is_read dep (OFlag fl) l).
      change (is_written dep (OFlag fl) (relab phi l)) with (is_written dep (OFlag fl) l).
      destruct (is_written dep (OFlag fl) l); destruct (is_read dep (OFlag fl) l); cbn [map app]; try reflexivity;
        rewrite IH; reflexivity.
    - change (match m_base m with Some b => is_written dep (OReg b) (relab phi l) | None => false end)
        with (match m_base m with Some b => is_written dep (OReg b) l | None => false end).
      change (is_memload m (relab phi l)) with (is_memload m l).
      change (is_memstore m (relab phi l)) with (is_memstore m l).
      destruct (is_memstore m l); destruct (is_memload m l _); cbn [map app]; try reflexivity; rewrite IH; reflexivity.
    - exact IH.
  Qed.

  Lemma find_depending_relabel phi (l : line) (rest : list line) :
    find_depending dep fd l (map (relab phi) rest) = map (relab_out phi) (find_depending dep fd l rest).
  Proof.
    unfold find_depending. induction (dsts l) as [|d ds IH]; [reflexivity|].
    cbn [flat_map]. rewrite map_app, IH, scan_relabel. reflexivity.
  Qed.

  (* every list of lines is the relabelling of its canonical renumbering *)
  Lemma relab_renum phi : forall (seg : list line) s,
    (forall i, i < List.length seg -> phi (s + i) = l_no (nth i seg dline)) ->
    map (relab phi) (renum_from s seg) = seg.
  Proof.
    induction seg as [|l seg IH]; intros s H; [reflexivity|]. cbn [renum_from map]. f_equal.
    - unfold relab. cbn [setno l_no]. specialize (H 0 ltac:(cbn; lia)). rewrite Nat.add_0_r in H. cbn [nth] in H.
      rewrite H. destruct l; reflexivity.
    - apply IH. intros i Hi. specialize (H (S i) ltac:(cbn; lia)). cbn [nth] in H. rewrite <- H. f_equal. lia.
  Qed.

  (* ------------------------------------------------------------ 2. last_wins / succs *)
  Definition iskey (u t : nat) (e : edge) : bool := same_uv ((u, false), t, snd e) e.

  Lemma iskey_true u t e : iskey u t e = true -> e = ((u, false), t, snd e).
  Proof.
    destruct e as [[[s b] t'] w]. unfold iskey, same_uv. cbn [fst snd]. intros H.
    apply andb_true_iff in H. destruct H as [H H3]. apply andb_true_iff in H. destruct H as [H1 H2].
    apply Nat.eqb_eq in H1. apply Nat.eqb_eq in H3. destruct b; [discriminate|]. subst. reflexivity.
  Qed.

  Lemma iskey_refl u t w : iskey u t ((u, false), t, w) = true.
  Proof. unfold iskey, same_uv. cbn [fst snd]. rewrite !Nat.eqb_refl. reflexivity. Qed.

  Lemma iskey_load u t s t' w : iskey u t ((s, true), t', w) = false.
  Proof. unfold iskey, same_uv. cbn [fst snd]. destruct (Nat.eqb u s); reflexivity. Qed.

  Lemma same_uv_key u t w e : same_uv ((u, false), t, w) e = iskey u t e.
  Proof. reflexivity. Qed.

  (* the weight of the last emission for the pair (u, false) -> t *)
  Fixpoint lastkey (u t : nat) (es : list edge) : option T :=
    match es with
    | [] => None
    | e :: r => match lastkey u t r with
                | Some w => Some w
                | None => if iskey u t e then Some (snd e) else None
                end
    end.

  Lemma lastkey_none u t : forall es, (forall e, In e es -> iskey u t e = false) -> lastkey u t es = None.
  Proof.
    induction es as [|e r IH]; intros H; [reflexivity|]. cbn [lastkey].
    rewrite IH by (intros e' He'; apply H; right; exact He'). rewrite (H e) by (left; reflexivity). reflexivity.
  Qed.

  Lemma lastkey_app u t : forall x y,
    lastkey u t (x ++ y) = match lastkey u t y with Some w => Some w | None => lastkey u t x end.
  Proof.
    induction x as [|e x IH]; intros y; cbn [app lastkey].
    - destruct (lastkey u t y); reflexivity.
    - rewrite IH. destruct (lastkey u t y); reflexivity.
  Qed.

  Lemma lastkey_skip u t x y : (forall e, In e x -> iskey u t e = false) -> lastkey u t (x ++ y) = lastkey u t y.
  Proof. intros H. rewrite lastkey_app, (lastkey_none u t x H). destruct (lastkey u t y); reflexivity. Qed.

  Lemma last_wins_subset : forall (es : list edge) e, In e (last_wins es) -> In e es.
  Proof.
    induction es as [|x r IH]; intros e H; [contradiction|]. cbn [last_wins] in H.
    destruct (existsb (same_uv x) r); [right; apply IH; exact H|].
    destruct H as [H|H]; [left; exact H | right; apply IH; exact H].
  Qed.

  (* networkx add_edge semantics: the graph holds, for each pair, the weight emitted last *)
  Theorem last_wins_spec u t w : forall es : list edge,
    In ((u, false), t, w) (last_wins es) <-> lastkey u t es = Some w.
  Proof.
    induction es as [|e r IH]; [split; [contradiction | discriminate]|].
    cbn [last_wins lastkey]. destruct (existsb (same_uv e) r) eqn:X.
    - rewrite IH. destruct (lastkey u t r) as [w0|] eqn:L; [reflexivity|].
      destruct (iskey u t e) eqn:K; [|reflexivity]. exfalso.
      apply existsb_exists in X. destruct X as (e' & He' & S').
      rewrite (iskey_true _ _ _ K), same_uv_key in S'.
      assert (C : lastkey u t r <> None).
      { clear -He' S'. induction r as [|x r IH]; [contradiction|]. cbn [lastkey].
        destruct He' as [->|He']; [destruct (lastkey u t r); [discriminate | rewrite S'; discriminate]|].
        specialize (IH He'). destruct (lastkey u t r); [discriminate | contradiction]. }
      contradiction.
    - cbn [In]. rewrite IH. destruct (lastkey u t r) as [w0|] eqn:L.
      + split; [|intros H; right; exact H]. intros [H|H]; [|exact H]. exfalso. subst e.
        assert (Z : lastkey u t r = None); [|congruence].
        apply lastkey_none. intros e' He'. rewrite <- (same_uv_key u t w).
        destruct (same_uv ((u, false), t, w) e') eqn:S'; [|reflexivity].
        assert (existsb (same_uv ((u, false), t, w)) r = true) by (apply existsb_exists; exists e'; split; assumption).
        congruence.
      + split.
        * intros [H|H]; [|discriminate]. subst e. rewrite iskey_refl. reflexivity.
        * destruct (iskey u t e) eqn:K; [|discriminate]. intros H. left. rewrite (iskey_true _ _ _ K). congruence.
  Qed.

  Lemma succs_in (g : list edge) u t w : In (t, w) (succs g u) <-> In ((u, false), t, w) g.
  Proof.
    unfold succs. rewrite in_flat_map. split.
    - intros ([[[s b] t'] w'] & Hin & H). destruct (Nat.eqb s u) eqn:E1; [|contradiction].
      destruct b; [contradiction|]. cbn in H. destruct H as [H|[]]. inversion H; subst.
      apply Nat.eqb_eq in E1. subst. exact Hin.
    - intros H. exists ((u, false), t, w). split; [exact H|]. rewrite Nat.eqb_refl. left. reflexivity.
  Qed.

  Lemma NoDup_app_l (a b : list nat) : NoDup (a ++ b) -> NoDup a.
  Proof.
    induction a as [|x a IH]; intros ND; [constructor|]. cbn [app] in ND. apply NoDup_cons_iff in ND.
    constructor; [intros H; apply (proj1 ND); apply in_or_app; left; exact H | apply IH, ND].
  Qed.
  Lemma NoDup_app_r (a b : list nat) : NoDup (a ++ b) -> NoDup b.
  Proof. induction a as [|x a IH]; intros ND; [exact ND|]. cbn [app] in ND. apply NoDup_cons_iff in ND. apply IH, ND. Qed.
  Lemma NoDup_app_disj (a b : list nat) : NoDup (a ++ b) -> forall x, In x a -> ~ In x b.
  Proof.
    induction a as [|y a IH]; intros ND x Hx; [contradiction|]. cbn [app] in ND. apply NoDup_cons_iff in ND.
    destruct Hx as [->|Hx]; [intros H; apply (proj1 ND); apply in_or_app; right; exact H | apply IH; [apply ND | exact Hx]].
  Qed.

  (* ------------------------------------------------------------ 3. emissions of a kernel *)
  Notation emitk := (emit N dep fwd pidx fd).
  Notation dg := (create_dg N dep fwd pidx fd).

  Lemma find_depending_targets (l : line) (rest : list line) n f :
    In (n, f) (find_depending dep fd l rest) -> exists tl, In tl rest /\ l_no tl = n.
  Proof.
    unfold find_depending. intros H. apply in_flat_map in H. destruct H as (d & _ & H).
    eapply scan_targets; exact H.
  Qed.

  (* every register/flag/memory edge goes from a line to a LATER line *)
  Lemma emit_edge_inv : forall (L : list line) u t w, In ((u, false), t, w) (emitk L) ->
    exists pre l seg tl post, L = pre ++ l :: seg ++ tl :: post /\ u = l_no l /\ t = l_no tl.
  Proof.
    induction L as [|l rest IH]; intros u t w H; [contradiction|]. cbn [emit] in H.
    apply in_app_or in H. destruct H as [H|H].
    { destruct (l_loadnode l); [destruct H as [H|[]]; inversion H | contradiction]. }
    apply in_app_or in H. destruct H as [H|H].
    - apply in_map_iff in H. destruct H as ([n f] & E & H). cbn [fst snd] in E. inversion E; subst.
      destruct (find_depending_targets _ _ _ _ H) as (tl & Htl & Eno).
      destruct (in_split _ _ Htl) as (seg & post & ->).
      exists [], l, seg, tl, post. split; [reflexivity | split; [reflexivity | symmetry; exact Eno]].
    - destruct (IH _ _ _ H) as (pre & l0 & seg & tl & post & E & Eu & Et).
      exists (l :: pre), l0, seg, tl, post. split; [rewrite E; reflexivity | split; assumption].
  Qed.

  Lemma emit_src : forall (L : list line) u b t w, In ((u, b), t, w) (emitk L) -> In u (map l_no L).
  Proof.
    induction L as [|l rest IH]; intros u b t w H; [contradiction|]. cbn [emit] in H. cbn [map In].
    apply in_app_or in H. destruct H as [H|H].
    { destruct (l_loadnode l); [destruct H as [H|[]]; inversion H; left; reflexivity | contradiction]. }
    apply in_app_or in H. destruct H as [H|H].
    - apply in_map_iff in H. destruct H as (nf & E & _). inversion E. left. reflexivity.
    - right. eapply IH; exact H.
  Qed.

  Lemma emit_not_key (L : list line) u t : ~ In u (map l_no L) -> forall e, In e (emitk L) -> iskey u t e = false.
  Proof.
    intros Hn e He. destruct (iskey u t e) eqn:K; [|reflexivity]. exfalso. apply Hn.
    rewrite (iskey_true _ _ _ K) in He. eapply emit_src; exact He.
  Qed.

  (* flags of the reports about label t, in order; weight of the last of them *)
  Definition flags_to (t : nat) (out : list (nat * dflag)) : list dflag :=
    map snd (filter (fun nf => Nat.eqb (fst nf) t) out).
  Fixpoint wt_last (l : line) (fs : list dflag) : option T :=
    match fs with
    | [] => None
    | f :: r => match wt_last l r with Some w => Some w | None => Some (edge_weight N fwd pidx l f) end
    end.

  Lemma flags_to_app t x y : flags_to t (x ++ y) = flags_to t x ++ flags_to t y.
  Proof. unfold flags_to. rewrite filter_app, map_app. reflexivity. Qed.

  Lemma flags_to_none t out : (forall nf, In nf out -> fst nf <> t) -> flags_to t out = [].
  Proof.
    unfold flags_to. induction out as [|nf out IH]; intros H; [reflexivity|]. cbn [filter].
    destruct (Nat.eqb (fst nf) t) eqn:E; [apply Nat.eqb_eq in E; exfalso; exact (H nf (or_introl eq_refl) E)|].
    apply IH. intros nf' H'. apply H. right. exact H'.
  Qed.

  Lemma lastkey_block (l : line) t : forall out : list (nat * dflag),
    lastkey (l_no l) t (map (fun p => ((l_no l, false), fst p, edge_weight N fwd pidx l (snd p))) out)
    = wt_last l (flags_to t out).
  Proof.
    induction out as [|[n f] out IH]; [reflexivity|]. cbn [map lastkey fst snd]. rewrite IH.
    unfold flags_to. cbn [filter fst]. unfold iskey, same_uv. cbn [fst snd]. rewrite Nat.eqb_refl. cbn [Bool.eqb andb].
    rewrite (Nat.eqb_sym t n).
    destruct (Nat.eqb n t); cbn [map snd wt_last]; fold (flags_to t out); destruct (wt_last l (flags_to t out)); reflexivity.
  Qed.

  (* with pairwise different line numbers all emissions for a source line come from its own scan *)
  Lemma emit_lastkey : forall (pre : list line) (l : line) (rest : list line) t,
    NoDup (map l_no (pre ++ l :: rest)) ->
    lastkey (l_no l) t (emitk (pre ++ l :: rest)) = wt_last l (flags_to t (find_depending dep fd l rest)).
  Proof.
    induction pre as [|x pre IH]; intros l rest t ND.
    - cbn [app emit]. cbn [app map] in ND. apply NoDup_cons_iff in ND. destruct ND as [Hn _].
      rewrite lastkey_skip.
      2:{ intros e He. destruct (l_loadnode l); [|contradiction]. destruct He as [<-|[]]. apply iskey_load. }
      rewrite lastkey_app, (lastkey_none _ _ _ (emit_not_key rest (l_no l) t Hn)), lastkey_block.
      destruct (wt_last l _); reflexivity.
    - cbn [app emit]. cbn [app map] in ND. apply NoDup_cons_iff in ND. destruct ND as [Hn ND].
      assert (Hx : l_no x <> l_no l).
      { intros E. apply Hn. rewrite E, map_app. apply in_or_app. right. left. reflexivity. }
      rewrite lastkey_skip.
      2:{ intros e He. destruct (l_loadnode x); [|contradiction]. destruct He as [<-|[]]. apply iskey_load. }
      rewrite lastkey_skip; [apply IH; exact ND|].
      intros e He. apply in_map_iff in He. destruct He as (nf & <- & _).
      unfold iskey, same_uv. cbn [fst snd]. apply Nat.eqb_neq in Hx. rewrite (Nat.eqb_sym (l_no l)), Hx. reflexivity.
  Qed.

  (* Part 1 lifted to find_depending: the reports about a label that does not occur after `pre` are determined by `pre` *)
  Lemma find_depending_prefix (l : line) (pre post : list line) t :
    ~ In t (map l_no post) ->
    flags_to t (find_depending dep fd l (pre ++ post)) = flags_to t (find_depending dep fd l pre).
  Proof.
    intros Hn. unfold find_depending. induction (dsts l) as [|d ds IH]; [reflexivity|].
    cbn [flat_map]. rewrite !flags_to_app, IH. f_equal.
    destruct (scan_prefix_determined dep fd d pre post (update_changes (update_changes [] (l_chg l)) (l_chg_post l))) as (tail & E & Htail).
    rewrite E, flags_to_app, (flags_to_none t tail), app_nil_r; [reflexivity|].
    intros [n f] Hin Et. cbn [fst] in Et. subst n. destruct (Htail _ _ Hin) as (l0 & Hl0 & E0).
    apply Hn. rewrite <- E0. apply in_map. exact Hl0.
  Qed.

  Lemma flags_to_relabel phi t t' : forall out : list (nat * dflag),
    (forall nf, In nf out -> Nat.eqb (phi (fst nf)) t' = Nat.eqb (fst nf) t) ->
    flags_to t' (map (relab_out phi) out) = flags_to t out.
  Proof.
    unfold flags_to. induction out as [|nf out IH]; intros H; [reflexivity|]. cbn [map filter].
    unfold relab_out at 1. cbn [fst]. rewrite (H nf (or_introl eq_refl)).
    destruct (Nat.eqb (fst nf) t); cbn [map snd]; rewrite IH by (intros nf' H'; apply H; right; exact H'); reflexivity.
  Qed.

  (* the POSITIONAL edge: weight of the edge from instruction l to the LAST instruction of the non-empty list `seg` of the
     instructions following l; line numbers play no role (the segment is renumbered 1, 2, ...) *)
  Definition pe (l : line) (seg : list line) : option T :=
    wt_last l (flags_to (List.length seg) (find_depending dep fd l (renum_from 1 seg))).

  Lemma wt_last_strip (l : line) : forall fs, wt_last (strip l) fs = wt_last l fs.
  Proof.
    induction fs as [|f fs IH]; [reflexivity|]. cbn [wt_last]. rewrite IH.
    destruct (wt_last l fs); [reflexivity|]. destruct f; reflexivity.
  Qed.

  Lemma pe_strip (l l' : line) (seg seg' : list line) :
    strip l = strip l' -> map strip seg = map strip seg' -> pe l seg = pe l' seg'.
  Proof.
    intros El Es. unfold pe.
    rewrite <- (wt_last_strip l), <- (wt_last_strip l').
    change (find_depending dep fd l) with (find_depending dep fd (strip l)).
    change (find_depending dep fd l') with (find_depending dep fd (strip l')).
    rewrite <- (renum_strip seg), <- (renum_strip seg'), Es, El.
    replace (List.length seg) with (List.length seg'); [reflexivity|].
    rewrite <- (map_length strip seg'), <- Es, map_length. reflexivity.
  Qed.

  (* SEGMENT LEMMA: in a kernel with pairwise different line numbers the last emission for the pair (l, tl) is the positional
     edge of the segment l .. tl -- whatever precedes l and whatever follows tl *)
  Theorem emit_window (pre : list line) (l : line) (seg : list line) (tl : line) (post : list line) :
    NoDup (map l_no (pre ++ l :: seg ++ tl :: post)) ->
    lastkey (l_no l) (l_no tl) (emitk (pre ++ l :: seg ++ tl :: post)) = pe l (seg ++ [tl]).
  Proof.
    intros ND. rewrite emit_lastkey by exact ND.
    assert (ND2 : NoDup (map l_no ((seg ++ [tl]) ++ post))).
    { rewrite map_app in ND. apply NoDup_app_r in ND. cbn [map] in ND. apply NoDup_cons_iff in ND.
      rewrite <- app_assoc. exact (proj2 ND). }
    replace (seg ++ tl :: post) with ((seg ++ [tl]) ++ post) by (rewrite <- app_assoc; reflexivity).
    rewrite map_app in ND2.
    rewrite find_depending_prefix.
    2:{ apply (NoDup_app_disj _ _ ND2). rewrite map_app. apply in_or_app. right. left. reflexivity. }
    unfold pe. f_equal.
    set (sg := seg ++ [tl]) in *.
    assert (NDs : NoDup (map l_no sg)) by exact (NoDup_app_l _ _ ND2).
    set (phi := fun i => l_no (nth (i - 1) sg dline)).
    assert (Esg : map (relab phi) (renum_from 1 sg) = sg).
    { apply relab_renum. intros i _. unfold phi. f_equal. f_equal. lia. }
    rewrite <- Esg at 1. rewrite find_depending_relabel.
    assert (Len : List.length sg = S (List.length seg)) by (unfold sg; rewrite app_length; cbn; lia).
    apply flags_to_relabel. intros [i f] Hin. cbn [fst].
    destruct (find_depending_targets _ _ _ _ Hin) as (l0 & Hl0 & E0).
    assert (Hi : In i (seq 1 (List.length sg))) by (rewrite <- renum_labels, <- E0; apply in_map; exact Hl0).
    apply in_seq in Hi.
    assert (Etl : l_no tl = nth (List.length sg - 1) (map l_no sg) (l_no dline)).
    { rewrite map_nth. f_equal. rewrite Len. unfold sg. replace (S (List.length seg) - 1) with (List.length seg) by lia.
      rewrite nth_middle. reflexivity. }
    unfold phi. rewrite <- (map_nth l_no). rewrite Etl.
    destruct (Nat.eqb i (List.length sg)) eqn:Ei.
    - apply Nat.eqb_eq in Ei. rewrite Ei. apply Nat.eqb_refl.
    - apply Nat.eqb_neq in Ei. apply Nat.eqb_neq. intros Hc. apply Ei.
      pose proof (proj1 (NoDup_nth (map l_no sg) (l_no dline)) NDs (i - 1) (List.length sg - 1)) as Inj.
      rewrite map_length in Inj. specialize (Inj ltac:(lia) ltac:(lia) Hc). lia.
  Qed.

  (* ------------------------------------------------------------ 4. positions; the edge relation of an instruction stream *)
  Lemma seg_as_nth : forall (mid pre post : list line),
    mid = map (fun i => nth i (pre ++ mid ++ post) dline) (seq (List.length pre) (List.length mid)).
  Proof.
    induction mid as [|x mid IH]; intros pre post; [reflexivity|]. cbn [List.length seq map]. f_equal.
    - change (pre ++ (x :: mid) ++ post) with (pre ++ x :: mid ++ post). rewrite nth_middle. reflexivity.
    - specialize (IH (pre ++ [x]) post). rewrite <- app_assoc, app_length in IH. cbn [List.length app] in IH.
      rewrite Nat.add_1_r in IH. exact IH.
  Qed.

  Lemma map_seq_shift {A : Type} (g : nat -> A) s : forall c a, map (fun i => g (s + i)) (seq a c) = map g (seq (s + a) c).
  Proof.
    induction c as [|c IH]; intros a; [reflexivity|]. cbn [seq map]. f_equal. rewrite IH, Nat.add_succ_r. reflexivity.
  Qed.

  Lemma split2 (L : list line) a b : a < b -> b < List.length L ->
    exists l1 seg post, L = l1 ++ nth a L dline :: seg ++ nth b L dline :: post /\
                        List.length l1 = a /\ List.length seg = b - a - 1.
  Proof.
    intros Hab Hb. destruct (nth_split L dline (n:=a) ltac:(lia)) as (l1 & l2 & HL & H1).
    assert (Len : List.length L = a + S (List.length l2)).
    { rewrite HL at 1. rewrite app_length. cbn [List.length]. lia. }
    assert (Eb : nth b L dline = nth (b - a - 1) l2 dline).
    { rewrite HL at 1. rewrite app_nth2 by lia. rewrite H1. remember (b - a - 1) as c eqn:Ec. replace (b - a) with (S c) by lia. reflexivity. }
    destruct (nth_split l2 dline (n:=b - a - 1) ltac:(lia)) as (seg & post & Hl2 & H2).
    exists l1, seg, post. split; [|split; assumption]. rewrite Eb, <- Hl2. exact HL.
  Qed.

  Lemma label_inj (L : list line) i j : NoDup (map l_no L) -> i < List.length L -> j < List.length L ->
    l_no (nth i L dline) = l_no (nth j L dline) -> i = j.
  Proof.
    intros ND Hi Hj E. apply (proj1 (NoDup_nth (map l_no L) (l_no dline)) ND); rewrite ?map_length; try assumption.
    rewrite !map_nth. exact E.
  Qed.

  Lemma edge_positions (L : list line) u t w : In ((u, false), t, w) (emitk L) ->
    exists a b, a < b /\ b < List.length L /\ u = l_no (nth a L dline) /\ t = l_no (nth b L dline).
  Proof.
    intros H. destruct (emit_edge_inv _ _ _ _ H) as (pre & l & seg & tl & post & HL & Eu & Et).
    exists (List.length pre), (List.length (pre ++ l :: seg)). rewrite app_length. cbn [List.length].
    split; [lia|]. split; [rewrite HL, !app_length; cbn [List.length]; rewrite app_length; cbn [List.length]; lia|].
    split.
    - rewrite HL, nth_middle. exact Eu.
    - replace (List.length pre + S (List.length seg)) with (List.length (pre ++ l :: seg))
        by (rewrite app_length; reflexivity).
      rewrite HL. replace (pre ++ l :: seg ++ tl :: post) with ((pre ++ l :: seg) ++ tl :: post)
        by (rewrite <- app_assoc; reflexivity).
      rewrite nth_middle. exact Et.
  Qed.

  (* the edge relation of the instruction stream f (position -> instruction): positional edge of the segment a .. b *)
  Definition stream_E (f : nat -> line) (a b : nat) : option T :=
    if Nat.ltb a b then pe (f a) (map f (seq (S a) (b - a))) else None.

  (* L is (up to line numbers) the window [s, s + |L|) of the stream f *)
  Definition is_window (L : list line) (f : nat -> line) (s : nat) : Prop :=
    forall i, i < List.length L -> strip (nth i L dline) = strip (f (s + i)).

  (* WINDOW LEMMA for create_dg: the non-load-node edges of the dependency graph of a window of a stream (pairwise different
     line numbers) are exactly the stream edges between the window's positions *)
  Theorem window_edges (L : list line) f s : NoDup (map l_no L) -> is_window L f s ->
    forall a b w, a < List.length L -> b < List.length L ->
      (In (l_no (nth b L dline), w) (succs (dg L) (l_no (nth a L dline))) <-> stream_E f (s + a) (s + b) = Some w).
  Proof.
    intros ND WH a b w Ha Hb. rewrite succs_in. unfold create_dg, stream_E.
    destruct (Nat.ltb (s + a) (s + b)) eqn:Lt.
    - apply Nat.ltb_lt in Lt. assert (Hab : a < b) by lia.
      destruct (split2 L a b Hab Hb) as (l1 & seg & post & HL & H1 & H2).
      rewrite last_wins_spec.
      set (la := nth a L dline) in *. set (tl := nth b L dline) in *.
      replace (emitk L) with (emitk (l1 ++ la :: seg ++ tl :: post)) by (f_equal; symmetry; exact HL).
      rewrite emit_window by (rewrite <- HL; exact ND).
      replace (pe la (seg ++ [tl])) with (pe (f (s + a)) (map f (seq (S (s + a)) (s + b - (s + a))))); [reflexivity|].
      symmetry. apply pe_strip; [apply WH; exact Ha|].
      assert (HL' : L = (l1 ++ [la]) ++ (seg ++ [tl]) ++ post).
      { rewrite HL at 1. rewrite <- !app_assoc. reflexivity. }
      rewrite (seg_as_nth (seg ++ [tl]) (l1 ++ [la]) post), <- HL'.
      rewrite !app_length. cbn [List.length]. rewrite H1, H2.
      rewrite !map_map.
      rewrite (map_ext_in (fun i => strip (nth i L dline)) (fun i => strip (f (s + i)))).
      2:{ intros i Hi. apply in_seq in Hi. apply WH. lia. }
      rewrite (map_seq_shift (fun i => strip (f i)) s). f_equal. f_equal; lia.
    - apply Nat.ltb_ge in Lt. split; [|discriminate]. intros H. exfalso.
      apply last_wins_subset in H. destruct (edge_positions _ _ _ _ H) as (a' & b' & Hab' & Hb' & Ea & Eb).
      apply (label_inj L a a' ND Ha ltac:(lia)) in Ea. apply (label_inj L b b' ND Hb Hb') in Eb. lia.
  Qed.

  Lemma succs_positions (L : list line) u t w : In (t, w) (succs (dg L) u) ->
    exists a b, a < List.length L /\ b < List.length L /\ u = l_no (nth a L dline) /\ t = l_no (nth b L dline).
  Proof.
    rewrite succs_in. unfold create_dg. intros H. apply last_wins_subset in H.
    destruct (edge_positions _ _ _ _ H) as (a & b & Hab & Hb & Ea & Eb). exists a, b. repeat split; try assumption; lia.
  Qed.

  Lemma stream_E_forward f a b w : stream_E f a b = Some w -> a < b.
  Proof. unfold stream_E. destruct (Nat.ltb a b) eqn:E; [intros _; apply Nat.ltb_lt; exact E | discriminate]. Qed.

  Lemma stream_E_periodic f n : (forall i, f (i + n) = f i) -> forall a b, stream_E f (a + n) (b + n) = stream_E f a b.
  Proof.
    intros P a b. unfold stream_E.
    replace (Nat.ltb (a + n) (b + n)) with (Nat.ltb a b).
    2:{ destruct (Nat.ltb a b) eqn:E1; symmetry; [apply Nat.ltb_lt; apply Nat.ltb_lt in E1 | apply Nat.ltb_ge; apply Nat.ltb_ge in E1]; lia. }
    destruct (Nat.ltb a b); [|reflexivity]. rewrite P. f_equal.
    replace (b + n - (a + n)) with (b - a) by lia.
    replace (S (a + n)) with (n + S a) by lia. rewrite <- map_seq_shift. apply map_ext. intros i.
    rewrite Nat.add_comm. apply P.
  Qed.

  (* ------------------------------------------------------------ 5. the doubled (rotated) kernel is a window of the stream *)
  Lemma fold_max_seq : forall c s acc,
    fold_left Nat.max (seq s c) acc = Nat.max acc (if Nat.eqb c 0 then 0 else s + c - 1).
  Proof.
    induction c as [|c IH]; intros s acc; cbn [seq fold_left]; [cbn; lia|].
    rewrite IH. destruct c; cbn [Nat.eqb]; lia.
  Qed.

  Lemma lcd_offset_renum (k : list line) : lcd_offset (renum_from 1 k) = Nat.max 1000 (List.length k + 1).
  Proof.
    unfold lcd_offset, max_line. rewrite renum_labels, fold_max_seq.
    destruct (List.length k); cbn [Nat.eqb]; lia.
  Qed.

  Definition rotl (r : nat) (k : list line) : list line := skipn r k ++ firstn r k.

  Lemma rotl_length r k : List.length (rotl r k) = List.length k.
  Proof. unfold rotl. rewrite app_length, skipn_length, firstn_length. lia. Qed.

  Lemma rotl_nth r k i : r < List.length k -> i < List.length k ->
    nth i (rotl r k) dline = nth ((i + r) mod List.length k) k dline.
  Proof.
    intros Hr Hi. unfold rotl. set (n := List.length k) in *.
    assert (LA : List.length (firstn r k) = r) by (rewrite firstn_length; fold n; lia).
    assert (LB : List.length (skipn r k) = n - r) by (rewrite skipn_length; reflexivity).
    rewrite <- (firstn_skipn r k) at 3.
    destruct (lt_dec i (n - r)) as [Lt|Ge].
    - rewrite app_nth1 by lia. rewrite Nat.mod_small by lia.
      replace (i + r) with (List.length (firstn r k) + i) by lia. rewrite app_nth2_plus. reflexivity.
    - rewrite app_nth2 by lia. rewrite LB.
      rewrite <- (Nat.mod_unique (i + r) n 1 (i - (n - r))) by lia.
      rewrite app_nth1 by lia. reflexivity.
  Qed.

  (* line number of position i of a doubled renumbered kernel of n lines *)
  Definition num (n off i : nat) : nat := if Nat.ltb i n then i + 1 else i - n + 1 + off.

  Lemma doubled_length (K : list line) : List.length (doubled K) = 2 * List.length K.
  Proof. unfold doubled. rewrite app_length, map_length. lia. Qed.

  Lemma doubled_nth_lo (k' : list line) i : i < List.length k' ->
    nth i (doubled (renum_from 1 k')) dline = setno (1 + i) (nth i k' dline).
  Proof.
    intros Hi. unfold doubled. rewrite app_nth1 by (rewrite renum_length; exact Hi). apply renum_nth. exact Hi.
  Qed.

  Lemma doubled_nth_hi (k' : list line) i : i < List.length k' ->
    nth (List.length k' + i) (doubled (renum_from 1 k')) dline
    = shift (lcd_offset (renum_from 1 k')) (setno (1 + i) (nth i k' dline)).
  Proof.
    intros Hi. unfold doubled. rewrite <- (renum_length k' 1) at 1. rewrite app_nth2_plus.
    set (sh := shift (lcd_offset (renum_from 1 k'))).
    rewrite (nth_indep _ dline (sh dline)) by (rewrite map_length, renum_length; exact Hi).
    rewrite map_nth. f_equal. apply renum_nth. exact Hi.
  Qed.

  Section Rot.
    Variable k : list line.
    Variable r : nat.
    Hypothesis Hr : r < List.length k.
    Let n := List.length k.
    Let off := Nat.max 1000 (n + 1).
    Let K := rotate r k.
    Let D := doubled K.
    Let g := dg D.
    (* the instruction stream denoted by the loop body k *)
    Definition body (i : nat) : line := nth (i mod List.length k) k dline.
    Let E := stream_E body.

    Lemma K_off : lcd_offset K = off.
    Proof. unfold K, rotate, renumber. rewrite lcd_offset_renum. fold (rotl r k). rewrite rotl_length. reflexivity. Qed.

    Lemma D_length : List.length D = 2 * n.
    Proof. unfold D. rewrite doubled_length. unfold K, rotate, renumber. rewrite renum_length. fold (rotl r k). rewrite rotl_length. reflexivity. Qed.

    Lemma D_nth i : i < 2 * n ->
      l_no (nth i D dline) = num n off i /\ strip (nth i D dline) = strip (body (r + i)).
    Proof.
      intros Hi. unfold D, K, rotate, renumber. fold (rotl r k). unfold num, body. fold n.
      pose proof (rotl_length r k) as RL. fold n in RL.
      destruct (Nat.ltb i n) eqn:Lt.
      - apply Nat.ltb_lt in Lt. rewrite doubled_nth_lo by lia. split; [cbn [setno l_no]; lia|].
        change (strip (setno (1 + i) (nth i (rotl r k) dline))) with (strip (nth i (rotl r k) dline)).
        rewrite rotl_nth by (fold n; lia). fold n. rewrite (Nat.add_comm r i). reflexivity.
      - apply Nat.ltb_ge in Lt. replace i with (List.length (rotl r k) + (i - n)) at 1 3 by lia.
        rewrite doubled_nth_hi by lia. rewrite lcd_offset_renum, RL. fold off.
        split; [cbn [shift setno l_no]; lia|].
        change (strip (shift off (setno (1 + (i - n)) (nth (i - n) (rotl r k) dline))))
          with (strip (nth (i - n) (rotl r k) dline)).
        rewrite rotl_nth by (fold n; lia). fold n. f_equal. f_equal.
        replace (r + i) with ((i - n + r) + 1 * n) by lia. rewrite Nat.mod_add by lia. reflexivity.
    Qed.

    Lemma num_inj i j : i < 2 * n -> j < 2 * n -> num n off i = num n off j -> i = j.
    Proof.
      unfold num. intros Hi Hj. destruct (Nat.ltb_spec i n); destruct (Nat.ltb_spec j n); unfold off; lia.
    Qed.

    Lemma D_nodup : NoDup (map l_no D).
    Proof.
      apply (NoDup_nth _ (l_no dline)). rewrite map_length, D_length. intros i j Hi Hj. rewrite !map_nth.
      rewrite (proj1 (D_nth i Hi)), (proj1 (D_nth j Hj)). apply num_inj; assumption.
    Qed.

    (* THE DOUBLED ROTATED KERNEL IS THE WINDOW [r, r + 2n) OF THE STREAM *)
    Theorem doubled_window : is_window D body r.
    Proof. intros i Hi. rewrite D_length in Hi. apply (D_nth i Hi). Qed.

    Lemma body_periodic i : body (i + n) = body i.
    Proof.
      unfold body. fold n. f_equal. replace (i + n) with (i + 1 * n) by lia. apply Nat.mod_add. unfold n. lia.
    Qed.

    Lemma E_periodic a b : E (a + n) (b + n) = E a b.
    Proof. apply stream_E_periodic. exact body_periodic. Qed.

    Lemma E_forward a b w : E a b = Some w -> a < b.
    Proof. apply stream_E_forward. Qed.

    (* edges of the dependency graph of the doubled rotated kernel = stream edges between positions r + a, r + b *)
    Lemma g_edges a b w : a < 2 * n -> b < 2 * n ->
      (In (num n off b, w) (succs g (num n off a)) <-> E (r + a) (r + b) = Some w).
    Proof.
      intros Ha Hb. rewrite <- (proj1 (D_nth a Ha)), <- (proj1 (D_nth b Hb)).
      apply window_edges; [exact D_nodup | exact doubled_window | rewrite D_length; exact Ha | rewrite D_length; exact Hb].
    Qed.

    Lemma g_positions u t w : In (t, w) (succs g u) -> exists a b, a < 2 * n /\ b < 2 * n /\ u = num n off a /\ t = num n off b.
    Proof.
      intros H. destruct (succs_positions _ _ _ _ H) as (a & b & Ha & Hb & Eu & Et). rewrite D_length in Ha, Hb.
      exists a, b. rewrite <- (proj1 (D_nth a Ha)), <- (proj1 (D_nth b Hb)). repeat split; assumption.
    Qed.

    (* ---------------------------------------------------------- 6. transport of paths *)
    (* positional path of the stream -> path over line numbers of the doubled rotated kernel *)
    Definition to_lines (q : list (nat * T)) : list (nat * T) := map (fun x => (num n off (fst x - r), snd x)) q.

    Lemma vpath_to_spath : forall u t p, vpath g u t p -> forall a b, a < 2 * n -> b < 2 * n ->
      u = num n off a -> t = num n off b -> exists q, spath T E (r + a) (r + b) q /\ p = to_lines q.
    Proof.
      induction 1 as [u t w Hs | u v t w p Hs Hne Hp IH]; intros a b Ha Hb Eu Et; subst u t.
      - exists [(r + a, w)]. split; [constructor; apply g_edges; assumption|].
        unfold to_lines. cbn [map fst snd]. replace (r + a - r) with a by lia. reflexivity.
      - destruct (g_positions _ _ _ Hs) as (a' & c & Ha' & Hc & Ea & Ec). apply num_inj in Ea; [|assumption|assumption].
        subst a' v. destruct (IH c b Hc Hb eq_refl eq_refl) as (q & Hq & Ep).
        exists ((r + a, w) :: q). split.
        + eapply sp_step; [apply g_edges; eassumption | | exact Hq]. intros Ecb. apply Hne. f_equal. lia.
        + unfold to_lines. cbn [map fst snd]. replace (r + a - r) with a by lia. f_equal. exact Ep.
    Qed.

    Lemma n_pos : 0 < n.
    Proof. unfold n. lia. Qed.

    Lemma spath_to_vpath : forall x y q, spath T E x y q -> forall a b, a < 2 * n -> b < 2 * n ->
      x = r + a -> y = r + b -> vpath g (num n off a) (num n off b) (to_lines q).
    Proof.
      induction 1 as [x y w He | x c y w q He Hne Hq IH]; intros a b Ha Hb Ex Ey; subst x y.
      - unfold to_lines. cbn [map fst snd]. replace (r + a - r) with a by lia. constructor. apply g_edges; assumption.
      - pose proof (E_forward _ _ _ He) as F1.
        pose proof (proj1 (spath_range T n E n_pos E_forward _ _ _ Hq)) as F2.
        unfold to_lines. cbn [map fst snd]. replace (r + a - r) with a by lia.
        eapply vp_step with (v := num n off (c - r)).
        + apply g_edges; [assumption | lia |]. replace (r + (c - r)) with c by lia. exact He.
        + intros Ec. apply num_inj in Ec; [|lia|assumption]. apply Hne. lia.
        + apply IH; [lia | assumption | lia | reflexivity].
    Qed.

    Lemma spath_length : forall x y q, spath T E x y q -> List.length q <= y - x.
    Proof.
      induction 1 as [x y w He | x c y w q He Hne Hq IH]; cbn [List.length].
      - pose proof (E_forward _ _ _ He). lia.
      - pose proof (E_forward _ _ _ He). pose proof (proj1 (spath_range T n E n_pos E_forward _ _ _ Hq)). lia.
    Qed.

    (* the roots of the rotated kernel: line i + 1 for i < n *)
    Lemma K_roots l : In l K <-> exists i, i < n /\ l = nth i K dline /\ l_no l = i + 1.
    Proof.
      assert (KL : List.length K = n) by (unfold K, rotate, renumber; rewrite renum_length; apply rotl_length).
      split.
      - intros H. destruct (In_nth _ _ dline H) as (i & Hi & Ei). rewrite KL in Hi. exists i. split; [exact Hi|].
        split; [symmetry; exact Ei|]. rewrite <- Ei. unfold K, rotate, renumber. fold (rotl r k).
        rewrite (renum_nth _ 1 i dline dline) by (rewrite rotl_length; exact Hi). cbn [setno l_no]. lia.
      - intros (i & Hi & -> & _). apply nth_In. rewrite KL. exact Hi.
    Qed.

    (* instruction identity (index in the ORIGINAL k) of the line numbered x of the doubled rotated kernel *)
    Definition instr_id (x : nat) : nat := (back off x - 1 + r) mod n.

    Lemma instr_id_num i : i < 2 * n -> instr_id (num n off i) = (r + i) mod n.
    Proof.
      intros Hi. unfold instr_id, num, back. destruct (Nat.ltb i n) eqn:Lt.
      - apply Nat.ltb_lt in Lt. replace (Nat.leb off (i + 1)) with false by (symmetry; apply Nat.leb_gt; unfold off; lia).
        f_equal. lia.
      - apply Nat.ltb_ge in Lt. replace (Nat.leb off (i - n + 1 + off)) with true by (symmetry; apply Nat.leb_le; lia).
        replace (r + i) with ((i - n + 1 + off - off - 1 + r) + 1 * n) by lia. rewrite Nat.mod_add by (unfold n; lia).
        reflexivity.
    Qed.

    (* instr_id names the right instruction: every line of the doubled rotated kernel is, up to its number, that instruction of k *)
    Lemma instr_id_correct l : In l D -> strip l = strip (nth (instr_id (l_no l)) k dline).
    Proof.
      intros H. destruct (In_nth _ _ dline H) as (i & Hi & Ei). rewrite D_length in Hi. subst l.
      destruct (D_nth i Hi) as (E1 & E2). rewrite E1, instr_id_num by exact Hi. exact E2.
    Qed.

    Definition ident_path (p : list (nat * T)) : list (nat * T) := map (fun x => (instr_id (fst x), snd x)) p.

    Lemma ident_to_lines x y q : spath T E x y q -> r <= x -> y <= r + 2 * n -> ident_path (to_lines q) = canon T n q.
    Proof.
      intros Hq Hx Hy. pose proof (proj2 (spath_range T n E n_pos E_forward _ _ _ Hq)) as Rg.
      unfold ident_path, to_lines, canon. rewrite map_map. apply map_ext_in. intros [c w] Hin. cbn [fst snd].
      specialize (Rg _ _ Hin). rewrite instr_id_num by lia. f_equal. f_equal. lia.
    Qed.
  End Rot.

  (* ------------------------------------------------------------ 7. MAIN *)
  Lemma rotate_0 k : rotate 0 k = renumber k.
  Proof. unfold rotate. cbn [skipn firstn]. rewrite app_nil_r. reflexivity. Qed.

  (* the paths lcd_entries enumerates for root l of kernel K *)
  Definition lcd_paths (fuel : nat) (K : list line) (l : line) : list (list (nat * T)) :=
    paths fuel (dg (doubled K)) (l_no l) (l_no l + lcd_offset K).

  Lemma num_lo n off i : i < n -> num n off i = i + 1.
  Proof. intros H. unfold num. destruct (Nat.ltb_spec i n); lia. Qed.
  Lemma num_hi n off i : num n off (n + i) = i + 1 + off.
  Proof. unfold num. destruct (Nat.ltb_spec (n + i) n); lia. Qed.

  (* cross-iteration paths of the rotated kernel -> window r of the stream *)
  Lemma paths_to_window k r (Hr : r < List.length k) fuel l p :
    In l (rotate r k) -> In p (lcd_paths fuel (rotate r k) l) ->
    exists q, in_window T (List.length k) (stream_E (body k)) r q /\ p = to_lines k r q.
  Proof.
    intros Hl Hp. apply (K_roots k r Hr) in Hl. destruct Hl as (i & Hi & _ & Eno).
    unfold lcd_paths in Hp. rewrite (K_off k r), Eno in Hp. apply paths_sound in Hp.
    destruct (vpath_to_spath k r Hr _ _ _ Hp i (List.length k + i) ltac:(lia) ltac:(lia)) as (q & Hq & Ep).
    - rewrite num_lo by exact Hi. reflexivity.
    - rewrite num_hi. reflexivity.
    - exists q. split; [|exact Ep]. exists (r + i). split; [lia|].
      replace (r + i + List.length k) with (r + (List.length k + i)) by lia. exact Hq.
  Qed.

  Lemma to_lines_length k r q : List.length (to_lines k r q) = List.length q.
  Proof. unfold to_lines. apply map_length. Qed.

  (* window r of the stream -> cross-iteration paths of the rotated kernel *)
  Lemma window_to_paths k r (Hr : r < List.length k) fuel q : List.length k <= fuel ->
    in_window T (List.length k) (stream_E (body k)) r q ->
    exists l, In l (rotate r k) /\ In (to_lines k r q) (lcd_paths fuel (rotate r k) l) /\
              ident_path k r (to_lines k r q) = canon T (List.length k) q.
  Proof.
    intros Hf (j & Hj & Hq). set (n := List.length k) in *.
    exists (nth (j - r) (rotate r k) dline).
    assert (Root : In (nth (j - r) (rotate r k) dline) (rotate r k) /\ l_no (nth (j - r) (rotate r k) dline) = j - r + 1).
    { split.
      - apply nth_In. unfold rotate, renumber. rewrite renum_length. fold (rotl r k). rewrite rotl_length. fold n. lia.
      - unfold rotate, renumber. fold (rotl r k).
        rewrite (renum_nth _ 1 (j - r) dline dline) by (rewrite rotl_length; fold n; lia). cbn [setno l_no]. lia. }
    destruct Root as (RIn & RNo). split; [exact RIn|]. split.
    - unfold lcd_paths. rewrite (K_off k r), RNo. fold n.
      rewrite <- (num_lo n (Nat.max 1000 (n + 1)) (j - r)) by lia.
      replace (num n (Nat.max 1000 (n + 1)) (j - r) + Nat.max 1000 (n + 1)) with (num n (Nat.max 1000 (n + 1)) (n + (j - r)))
        by (rewrite num_hi, num_lo by lia; reflexivity).
      apply paths_complete.
      + apply (spath_to_vpath k r Hr j (j + n) q Hq); fold n; lia.
      + rewrite to_lines_length. pose proof (spath_length k r Hr _ _ _ Hq). lia.
    - apply (ident_to_lines k r Hr j (j + n) q Hq); fold n; lia.
  Qed.

  Lemma ident_of_window k r (Hr : r < List.length k) q :
    in_window T (List.length k) (stream_E (body k)) r q -> ident_path k r (to_lines k r q) = canon T (List.length k) q.
  Proof. intros (j & Hj & Hq). apply (ident_to_lines k r Hr j (j + List.length k) q Hq); lia. Qed.

  (* ROTATION INVARIANCE OF THE CROSS-ITERATION PATHS (the glue): every path that lcd_entries enumerates for the kernel
     corresponds to one it enumerates for the rotated kernel, visiting the same instructions of k in the same order with the
     same edge weights -- and conversely. *)
  Theorem rotation_glue (k : list line) (r fuel fuel' : nat) : r < List.length k -> List.length k <= fuel' ->
    forall l p, In l (renumber k) -> In p (lcd_paths fuel (renumber k) l) ->
    exists l' p', In l' (rotate r k) /\ In p' (lcd_paths fuel' (rotate r k) l') /\ ident_path k r p' = ident_path k 0 p.
  Proof.
    intros Hr Hf l p Hl Hp. assert (H0 : 0 < List.length k) by lia.
    rewrite <- rotate_0 in Hl, Hp. destruct (paths_to_window k 0 H0 fuel l p Hl Hp) as (q & Wq & Ep).
    destruct (rotation_paths_correspond T (List.length k) (stream_E (body k)) H0 (E_forward k) (E_periodic k 0 H0) r Hr)
      as (Fw & _).
    destruct (Fw q Wq) as (q' & Wq' & Ec).
    destruct (window_to_paths k r Hr fuel' q' Hf Wq') as (l' & Hl' & Hp' & Ei).
    exists l', (to_lines k r q'). split; [exact Hl'|]. split; [exact Hp'|].
    rewrite Ei, Ec, Ep. symmetry. apply ident_of_window; assumption.
  Qed.

  Theorem rotation_glue_conv (k : list line) (r fuel fuel' : nat) : r < List.length k -> List.length k <= fuel ->
    forall l' p', In l' (rotate r k) -> In p' (lcd_paths fuel' (rotate r k) l') ->
    exists l p, In l (renumber k) /\ In p (lcd_paths fuel (renumber k) l) /\ ident_path k 0 p = ident_path k r p'.
  Proof.
    intros Hr Hf l' p' Hl' Hp'. assert (H0 : 0 < List.length k) by lia.
    destruct (paths_to_window k r Hr fuel' l' p' Hl' Hp') as (q' & Wq' & Ep').
    destruct (rotation_paths_correspond T (List.length k) (stream_E (body k)) H0 (E_forward k) (E_periodic k 0 H0) r Hr)
      as (_ & Bw).
    destruct (Bw q' Wq') as (q & Wq & Ec).
    destruct (window_to_paths k 0 H0 fuel q Hf Wq) as (l & Hl & Hp & Ei).
    rewrite rotate_0 in Hl, Hp.
    exists l, (to_lines k 0 q). split; [exact Hl|]. split; [exact Hp|].
    rewrite Ei, Ec, Ep'. symmetry. apply ident_of_window; assumption.
  Qed.

  (* ------------------------------------------------------------ 8. consequences for the reported entries *)
  Lemma ident_path_weights k r r' p p' : ident_path k r p' = ident_path k r' p -> map snd p' = map snd p.
  Proof. intros H. apply (f_equal (map snd)) in H. unfold ident_path in H. rewrite !map_map in H. exact H. Qed.

  Lemma fold_weights : forall (p : list (nat * T)) a,
    fold_left (fun a sw => nadd N a (snd sw)) p a = fold_left (nadd N) (map snd p) a.
  Proof. induction p as [|x p IH]; intros a; [reflexivity|]. cbn [fold_left map]. apply IH. Qed.

  Lemma ins_perm x : forall l, Permutation (ins N x l) (x :: l).
  Proof.
    induction l as [|y l IH]; [reflexivity|]. cbn [ins]. destruct (pair_le N x y); [reflexivity|].
    rewrite IH. apply perm_swap.
  Qed.

  Lemma sort_pairs_perm : forall l, Permutation (sort_pairs N l) l.
  Proof.
    induction l as [|x l IH]; [reflexivity|]. unfold sort_pairs in *. cbn [fold_right].
    rewrite ins_perm. constructor. exact IH.
  Qed.

  (* the members of a reported entry as instructions of the original kernel k (the entry belongs to rotate r k) *)
  Definition entry_ident (k : list line) (r : nat) (e : entry (T:=T)) : list (nat * T) :=
    map (fun x => ((fst x - 1 + r) mod List.length k, snd x)) (snd e).

  Lemma entry_ident_of k r p :
    Permutation (entry_ident k r (entry_of N (lcd_offset (rotate r k)) p)) (ident_path k r p).
  Proof.
    unfold entry_ident, entry_of. cbv zeta. cbn [snd]. rewrite sort_pairs_perm. rewrite K_off.
    unfold ident_path, instr_id. rewrite map_map. reflexivity.
  Qed.

  (* e' (an entry of rotate r k) reports the same cycle as e (an entry of renumber k): same member instructions of k with the
     same per-edge latencies, and each latency sum is the left-to-right sum of the entry's own (sorted) member list.  The two
     member lists are sorted by DIFFERENT line numbers (the rotation renumbers the lines), so the two sums add the same weights
     in a cyclically shifted order: equal over exact rationals (rotation_lcd_entries_Q), not bit for bit over floats. *)
  Definition same_cycle (k : list line) (r : nat) (e e' : entry (T:=T)) : Prop :=
    (fst e = sum_pairs N (snd e) /\ fst e' = sum_pairs N (snd e')) /\ Permutation (entry_ident k r e') (entry_ident k 0 e).

  Lemma same_cycle_of_paths k r p p' : ident_path k r p' = ident_path k 0 p ->
    same_cycle k r (entry_of N (lcd_offset (renumber k)) p) (entry_of N (lcd_offset (rotate r k)) p').
  Proof.
    intros H. split.
    - split; reflexivity.
    - rewrite entry_ident_of, H. rewrite <- (rotate_0 k). symmetry. apply entry_ident_of.
  Qed.

  (* what lcd_entries de-duplicates *)
  Definition lcd_raw (K : list line) : list (entry (T:=T)) :=
    flat_map (fun l => map (entry_of N (lcd_offset K)) (lcd_paths (2 * List.length K + 2) K l)) K.

  Lemma lcd_entries_raw K : lcd_entries N dep fwd pidx fd K = dedup_by (pairs_eqb N) [] (lcd_raw K).
  Proof. reflexivity. Qed.

  Lemma rotate_length r k : List.length (rotate r k) = List.length k.
  Proof. unfold rotate, renumber. rewrite renum_length. apply rotl_length. Qed.

  Lemma renumber_length k : List.length (renumber k) = List.length k.
  Proof. apply renum_length. Qed.

  (* ROTATION INVARIANCE OF THE ENTRIES BEFORE DE-DUPLICATION *)
  Theorem rotation_raw (k : list line) (r : nat) : r < List.length k ->
    (forall e, In e (lcd_raw (renumber k)) -> exists e', In e' (lcd_raw (rotate r k)) /\ same_cycle k r e e') /\
    (forall e', In e' (lcd_raw (rotate r k)) -> exists e, In e (lcd_raw (renumber k)) /\ same_cycle k r e e').
  Proof.
    intros Hr. split.
    - intros e He. unfold lcd_raw in He. apply in_flat_map in He. destruct He as (l & Hl & He).
      apply in_map_iff in He. destruct He as (p & <- & Hp).
      destruct (rotation_glue k r _ (2 * List.length (rotate r k) + 2) Hr ltac:(rewrite rotate_length; lia) l p Hl Hp)
        as (l' & p' & Hl' & Hp' & Ei).
      exists (entry_of N (lcd_offset (rotate r k)) p'). split; [|apply same_cycle_of_paths; exact Ei].
      unfold lcd_raw. apply in_flat_map. exists l'. split; [exact Hl'|]. apply in_map. exact Hp'.
    - intros e' He. unfold lcd_raw in He. apply in_flat_map in He. destruct He as (l' & Hl' & He).
      apply in_map_iff in He. destruct He as (p' & <- & Hp').
      destruct (rotation_glue_conv k r (2 * List.length (renumber k) + 2) _ Hr ltac:(rewrite renumber_length; lia) l' p' Hl' Hp')
        as (l & p & Hl & Hp & Ei).
      exists (entry_of N (lcd_offset (renumber k)) p). split; [|apply same_cycle_of_paths; symmetry; exact Ei].
      unfold lcd_raw. apply in_flat_map. exists l. split; [exact Hl|]. apply in_map. exact Hp.
  Qed.

  Lemma pairs_eqb_refl : (forall a, neqb N a a = true) -> forall l, pairs_eqb N l l = true.
  Proof.
    intros R. induction l as [|x l IH]; [reflexivity|]. cbn. rewrite Nat.eqb_refl, R. exact IH.
  Qed.

  (* ROTATION INVARIANCE OF lcd_entries (after de-duplication), for a numeric instance whose == is reflexive:
     every reported entry e of the kernel has a counterpart e'' among the reported entries of the rotated kernel, namely the
     representative (same sorted (line, latency) list, as the model's own pairs_eqb compares them) of an entry e' with
     same_cycle k r e e' -- and conversely *)
  Theorem rotation_lcd_entries (k : list line) (r : nat) : (forall a, neqb N a a = true) -> r < List.length k ->
    (forall e, In e (lcd_entries N dep fwd pidx fd (renumber k)) ->
       exists e' e'', In e'' (lcd_entries N dep fwd pidx fd (rotate r k)) /\ In e' (lcd_raw (rotate r k)) /\
                      same_cycle k r e e' /\ pairs_eqb N (snd e') (snd e'') = true) /\
    (forall e', In e' (lcd_entries N dep fwd pidx fd (rotate r k)) ->
       exists e e0, In e0 (lcd_entries N dep fwd pidx fd (renumber k)) /\ In e (lcd_raw (renumber k)) /\
                    same_cycle k r e e' /\ pairs_eqb N (snd e) (snd e0) = true).
  Proof.
    intros R Hr. destruct (rotation_raw k r Hr) as (F & B). rewrite !lcd_entries_raw. split.
    - intros e He. apply dedup_subset in He. destruct (F e He) as (e' & He' & S).
      destruct (dedup_covers (pairs_eqb N) (pairs_eqb_refl R) (lcd_raw (rotate r k)) [] e' He') as [A|(e'' & A & Bq)];
        [discriminate|].
      exists e', e''. repeat split; try assumption; apply S.
    - intros e' He'. apply dedup_subset in He'. destruct (B e' He') as (e & He & S).
      destruct (dedup_covers (pairs_eqb N) (pairs_eqb_refl R) (lcd_raw (renumber k)) [] e He) as [A|(e0 & A & Bq)];
        [discriminate|].
      exists e, e0. repeat split; try assumption; apply S.
  Qed.

  Lemma raw_is_entry K e : In e (lcd_raw K) -> exists p, e = entry_of N (lcd_offset K) p.
  Proof.
    unfold lcd_raw. intros H. apply in_flat_map in H. destruct H as (l & _ & H). apply in_map_iff in H.
    destruct H as (p & <- & _). exists p. reflexivity.
  Qed.

  Lemma pairs_eqb_forall2 : forall a b, pairs_eqb N a b = true ->
    Forall2 (fun x y => fst x = fst y /\ neqb N (snd x) (snd y) = true) a b.
  Proof.
    induction a as [|x a IH]; intros [|y b] H; try discriminate; [constructor|].
    cbn in H. apply andb_true_iff in H. destruct H as [H H3]. apply andb_true_iff in H. destruct H as [H1 H2].
    apply Nat.eqb_eq in H1. constructor; [split; assumption | apply IH; exact H3].
  Qed.
End Glue.

(* ---------------------------------------------------------------- exact rationals: the latency SUM of the representative *)
From Coq Require Import QArith Qminmax.
Section GlueQ.
  Variable dep : regop -> regop -> bool.
  Variables (fwd pidx : Q) (fd : bool).
  Notation line := (line (T:=Q)).

  Definition sumQ (l : list (nat * Q)) : Q := fold_right (fun x a => snd x + a) 0 l.

  Lemma fold_sumQ : forall (p : list (nat * Q)) a, fold_left (fun a sw => nadd QNum a (snd sw)) p a == a + sumQ p.
  Proof.
    induction p as [|x p IH]; intros a; cbn [fold_left sumQ fold_right]; [ring|].
    rewrite IH. cbn [nadd QNum]. rewrite Qred_correct. fold (sumQ p). ring.
  Qed.

  Lemma sumQ_perm a b : Permutation a b -> sumQ a == sumQ b.
  Proof.
    induction 1 as [|x l l' _ IH|x y l|l l' l'' _ IH1 _ IH2].
    - reflexivity.
    - cbn [sumQ fold_right]. fold (sumQ l). fold (sumQ l'). rewrite IH. reflexivity.
    - cbn [sumQ fold_right]. ring.
    - rewrite IH1. exact IH2.
  Qed.

  Lemma sumQ_map (h : nat -> nat) : forall p : list (nat * Q), sumQ (map (fun sw => (h (fst sw), snd sw)) p) = sumQ p.
  Proof. induction p as [|x p IH]; [reflexivity|]. cbn [map sumQ fold_right snd]. fold (sumQ p). rewrite <- IH. reflexivity. Qed.

  Lemma sumQ_pairs_eqb : forall a b, pairs_eqb QNum a b = true -> sumQ a == sumQ b.
  Proof.
    intros a b H. apply pairs_eqb_forall2 in H. induction H as [|x y a b [_ Hw] _ IH]; [reflexivity|].
    cbn [sumQ fold_right]. fold (sumQ a). fold (sumQ b). cbn [neqb QNum] in Hw. unfold Qeqb in Hw.
    apply Qeq_bool_iff in Hw. rewrite Hw, IH. reflexivity.
  Qed.

  Lemma entry_sum off p : fst (entry_of QNum off p) == sumQ (snd (entry_of QNum off p)).
  Proof.
    unfold entry_of, sum_pairs. cbv zeta. cbn [fst snd]. rewrite fold_sumQ. change (n0 QNum) with 0. ring.
  Qed.

  Lemma sumQ_ident (k : list line) r (e : entry (T:=Q)) : sumQ (entry_ident k r e) = sumQ (snd e).
  Proof. unfold entry_ident. apply (sumQ_map (fun x => (x - 1 + r) mod List.length k)). Qed.

  (* two raw entries of the same cycle have ==-equal sums: the same weights, summed in the order of their own sorted lists *)
  Lemma same_cycle_sum (k : list line) r (e e' : entry (T:=Q)) : same_cycle QNum k r e e' -> fst e' == fst e.
  Proof.
    intros ((E1 & E2) & P). rewrite E1, E2. unfold sum_pairs. rewrite !fold_sumQ. change (n0 QNum) with 0.
    rewrite <- (sumQ_ident k r e'), <- (sumQ_ident k 0 e), (sumQ_perm _ _ P). reflexivity.
  Qed.

  Lemma neqb_Q_refl : forall a : Q, neqb QNum a a = true.
  Proof. intros a. cbn [neqb QNum]. unfold Qeqb. apply Qeq_bool_iff. reflexivity. Qed.

  Definition same_members (a b : list (nat * Q)) : Prop :=
    exists m, Permutation m a /\ Forall2 (fun x y => fst x = fst y /\ snd x == snd y) m b.

  Lemma ident_forall2 (k : list line) r (e e' : entry (T:=Q)) : pairs_eqb QNum (snd e) (snd e') = true ->
    Forall2 (fun x y => fst x = fst y /\ snd x == snd y) (entry_ident k r e) (entry_ident k r e').
  Proof.
    intros H. apply pairs_eqb_forall2 in H. unfold entry_ident. induction H as [|x y a b [H1 H2] _ IH]; [constructor|].
    cbn [map]. constructor; [|exact IH]. cbn [fst snd]. split; [rewrite H1; reflexivity|].
    cbn [neqb QNum] in H2. unfold Qeqb in H2. apply Qeq_bool_iff in H2. exact H2.
  Qed.

  (* C14 for the exact-rational instance: every reported loop-carried dependency of the kernel is reported for the rotated
     kernel with the same latency sum (==) and the same member instructions of k with ==-equal per-edge latencies (up to the
     order in which the entry lists them), and conversely. *)
  Theorem rotation_lcd_entries_Q (k : list line) (r : nat) : (r < List.length k)%nat ->
    (forall e, In e (lcd_entries QNum dep fwd pidx fd (renumber k)) ->
       exists e'', In e'' (lcd_entries QNum dep fwd pidx fd (rotate r k)) /\ fst e'' == fst e /\
                   same_members (entry_ident k 0 e) (entry_ident k r e'')) /\
    (forall e', In e' (lcd_entries QNum dep fwd pidx fd (rotate r k)) ->
       exists e0, In e0 (lcd_entries QNum dep fwd pidx fd (renumber k)) /\ fst e0 == fst e' /\
                  same_members (entry_ident k r e') (entry_ident k 0 e0)).
  Proof.
    intros Hr. destruct (rotation_lcd_entries QNum dep fwd pidx fd k r neqb_Q_refl Hr) as (F & B). split.
    - intros e He. destruct (F e He) as (e' & e'' & H'' & H' & S & Pq). pose proof (same_cycle_sum k r e e' S) as S1.
      destruct S as (_ & S2).
      exists e''. split; [exact H''|]. split.
      + rewrite lcd_entries_raw in H''. apply dedup_subset in H''.
        destruct (raw_is_entry _ _ _ _ _ _ _ H'') as (p'' & ->). destruct (raw_is_entry _ _ _ _ _ _ _ H') as (p' & ->).
        rewrite <- S1, !entry_sum. symmetry. apply sumQ_pairs_eqb. exact Pq.
      + exists (entry_ident k r e'). split; [exact S2 | apply ident_forall2; exact Pq].
    - intros e' He'. destruct (B e' He') as (e & e0 & H0 & H & S & Pq). pose proof (same_cycle_sum k r e e' S) as S1.
      destruct S as (_ & S2).
      exists e0. split; [exact H0|]. split.
      + rewrite lcd_entries_raw in H0. apply dedup_subset in H0.
        destruct (raw_is_entry _ _ _ _ _ _ _ H0) as (p0 & ->). destruct (raw_is_entry _ _ _ _ _ _ _ H) as (p & E).
        rewrite S1, E, !entry_sum. symmetry. apply sumQ_pairs_eqb. rewrite <- E. exact Pq.
      + exists (entry_ident k 0 e). split; [symmetry; exact S2 | apply ident_forall2; exact Pq].
  Qed.
  (* the LCD figure: the largest latency sum among the reported entries (0 if there is none) *)
  Definition qmaxl (l : list Q) : Q := fold_right Qmax 0 l.

  Lemma qmaxl_nonneg : forall l, 0 <= qmaxl l.
  Proof.
    induction l as [|x l IH]; [apply Qle_refl|]. cbn [qmaxl fold_right]. fold (qmaxl l).
    eapply Qle_trans; [exact IH | apply Q.le_max_r].
  Qed.

  Lemma qmaxl_ub : forall l x, In x l -> x <= qmaxl l.
  Proof.
    induction l as [|y l IH]; intros x H; [contradiction|]. cbn [qmaxl fold_right]. fold (qmaxl l).
    destruct H as [->|H]; [apply Q.le_max_l | eapply Qle_trans; [apply IH; exact H | apply Q.le_max_r]].
  Qed.

  Lemma qmaxl_lub : forall l b, 0 <= b -> (forall x, In x l -> x <= b) -> qmaxl l <= b.
  Proof.
    induction l as [|y l IH]; intros b Hb H; [exact Hb|]. cbn [qmaxl fold_right]. fold (qmaxl l).
    apply Q.max_lub; [apply H; left; reflexivity | apply IH; [exact Hb | intros x Hx; apply H; right; exact Hx]].
  Qed.

  Lemma qmaxl_cover (A B : list Q) : (forall x, In x A -> exists y, In y B /\ y == x) -> qmaxl A <= qmaxl B.
  Proof.
    intros H. apply qmaxl_lub; [apply qmaxl_nonneg|]. intros x Hx. destruct (H x Hx) as (y & Hy & E).
    rewrite <- E. apply qmaxl_ub. exact Hy.
  Qed.

  Theorem rotation_lcd_figure_Q (k : list line) (r : nat) : (r < List.length k)%nat ->
    qmaxl (map fst (lcd_entries QNum dep fwd pidx fd (rotate r k))) == qmaxl (map fst (lcd_entries QNum dep fwd pidx fd (renumber k))).
  Proof.
    intros Hr. destruct (rotation_lcd_entries_Q k r Hr) as (F & B). apply Qle_antisym; apply qmaxl_cover; intros x Hx;
      apply in_map_iff in Hx; destruct Hx as (e & <- & He).
    - destruct (B e He) as (e0 & H0 & E & _). exists (fst e0). split; [apply in_map; exact H0 | exact E].
    - destruct (F e He) as (e2 & H2 & E & _). exists (fst e2). split; [apply in_map; exact H2 | exact E].
  Qed.
End GlueQ.

(* ---------------------------------------------------------------- non-vacuity: a 3-line kernel with a cross-iteration cycle *)
Section Example.
  Local Open Scope string_scope.
  Let depx (a b : regop) : bool := String.eqb (r_name a) (r_name b).
  Let rg (s : string) : opnd := OReg (mkR s "" false).
  (* 1: a <- f(c)   2: b <- f(a)   3: c <- f(b)      latencies 1, 2, 3; line numbers deliberately not canonical *)
  Definition ex_kernel : list (line (T:=Q)) :=
    [ mkL 7%nat (Some ([rg "c"], [rg "a"], [])) 1 1 false [] [];
      mkL 4%nat (Some ([rg "a"], [rg "b"], [])) 2 2 false [] [];
      mkL 9%nat (Some ([rg "b"], [rg "c"], [])) 3 3 false [] [] ].

  (* the unrotated kernel, root = its line 1 (instruction 0 of k): the cycle 1 -> 2 -> 3 -> 1001 *)
  Example ex_paths_0 :
    lcd_paths QNum depx 0 0 true 8%nat (renumber ex_kernel) (nth 0%nat (renumber ex_kernel) (dline QNum)) = [[(1%nat, 1); (2%nat, 2); (3%nat, 3)]].
  Proof. vm_compute. reflexivity. Qed.

  (* rotated by 1 (lines: b <- f(a); c <- f(b); a <- f(c)), root = its line 3 (instruction 0 of k): 3 -> 1001 -> 1002 -> 1003 *)
  Example ex_paths_1 :
    lcd_paths QNum depx 0 0 true 8%nat (rotate 1%nat ex_kernel) (nth 2%nat (rotate 1%nat ex_kernel) (dline QNum)) = [[(3%nat, 1); (1001%nat, 2); (1002%nat, 3)]].
  Proof. vm_compute. reflexivity. Qed.

  (* both name the same instructions of k with the same weights *)
  Example ex_ident :
    ident_path ex_kernel 1%nat [(3%nat, 1); (1001%nat, 2); (1002%nat, 3)] = ident_path ex_kernel 0%nat [(1%nat, 1); (2%nat, 2); (3%nat, 3)] /\
    ident_path ex_kernel 0%nat [(1%nat, 1); (2%nat, 2); (3%nat, 3)] = [(0%nat, 1); (1%nat, 2); (2%nat, 3)].
  Proof. vm_compute. split; reflexivity. Qed.

  (* the reported entries: one cycle, latency sum 6, on both sides *)
  Example ex_entries :
    lcd_entries QNum depx 0 0 true (renumber ex_kernel) = [(6, [(1%nat, 1); (2%nat, 2); (3%nat, 3)])] /\
    lcd_entries QNum depx 0 0 true (rotate 1%nat ex_kernel) = [(6, [(1%nat, 2); (2%nat, 3); (3%nat, 1)])].
  Proof. vm_compute. split; reflexivity. Qed.

  (* the hypotheses of rotation_glue are satisfiable with a non-empty left-hand side, and its conclusion is witnessed *)
  Example rotation_glue_nonvacuous :
    (1 < List.length ex_kernel)%nat /\ (List.length ex_kernel <= 8)%nat /\
    In (nth 0%nat (renumber ex_kernel) (dline QNum)) (renumber ex_kernel) /\
    In [(1%nat, 1); (2%nat, 2); (3%nat, 3)]
       (lcd_paths QNum depx 0 0 true 8%nat (renumber ex_kernel) (nth 0%nat (renumber ex_kernel) (dline QNum))) /\
    exists l' p', In l' (rotate 1%nat ex_kernel) /\ In p' (lcd_paths QNum depx 0 0 true 8%nat (rotate 1%nat ex_kernel) l') /\
                  ident_path ex_kernel 1%nat p' = ident_path ex_kernel 0%nat [(1%nat, 1); (2%nat, 2); (3%nat, 3)].
  Proof.
    split; [cbn; lia|]. split; [cbn; lia|]. split; [left; reflexivity|]. split; [rewrite ex_paths_0; left; reflexivity|].
    apply (rotation_glue QNum depx 0 0 true ex_kernel 1%nat 8%nat 8%nat) with (l := nth 0%nat (renumber ex_kernel) (dline QNum));
      [cbn; lia | cbn; lia | left; reflexivity |].
    rewrite ex_paths_0. left. reflexivity.
  Qed.
End Example.
