(* C09 -- line-level lemmas: operand list, instruction line, classification cascade,
   and the other three line kinds. *)
From Coq Require Import String Ascii List Bool NArith ZArith Lia.
From OV Require Import Model.ParseX86 Model.SubLangX86 Proofs.ParseX86Lex Proofs.ParseX86Op.
Import ListNotations.
Local Open Scope char_scope.
Local Arguments L : simpl never.
Local Arguments S_ : simpl never.

(* ---------------------------------------------------------------- trailing comment *)
Lemma comment_end c : valid_comment c = true ->
  at_end (render_comment c) = true /\ end_ok (render_comment c) = true /\ sep_start (render_comment c).
Proof.
  destruct c as [[[|] t]|]; simpl; intro H; repeat split; auto;
    try (unfold end_ok; simpl; exact H).
Qed.

Lemma at_end_ophead c r : is_ophead c = true -> at_end (c :: r) = false.
Proof. intro H. unfold at_end. rewrite ophead_not_hash, ophead_not_slash by assumption. reflexivity. Qed.

(* ---------------------------------------------------------------- operand list *)
Lemma parse_tail_eq n l :
  parse_tail n l =
  let l := skip l in
  if at_end l then (if end_ok l then Some (Some []) else None)
  else if hd_eqb "," l then
    match n with
    | O => Some None
    | S n' =>
        let r := skip (tl l) in
        if orb (at_end r) (hd_eqb "," r) then None
        else match parse_operand r with
             | None => None
             | Some (o, r2) =>
                 if delim r2 then
                   match parse_tail n' r2 with
                   | None => None
                   | Some None => Some None
                   | Some (Some t) => Some (Some (o :: t))
                   end
                 else None
             end
    end
  else None.
Proof. destruct n; reflexivity. Qed.

Lemma nth_lay_valid ls : forallb valid_oplay3 ls = true ->
  valid_oplay3 (nth_lay ls) = true /\ forallb valid_oplay3 (tl ls) = true.
Proof.
  destruct ls as [|x ls]; simpl; [auto|]. intro H. apply andb_true_iff in H. exact H.
Qed.

Section Tail.
  Variable trail_ : string.
  Variable cm : option (bool * string).
  Hypothesis Htrail : blanks trail_ = true.
  Hypothesis Hcm : valid_comment cm = true.
  Let tail := L trail_ ++ render_comment cm.

  Lemma after_op_rest wb ls ops : blanks wb = true ->
    after_op (L wb ++ render_rest ls ops ++ tail).
  Proof.
    intro Hwb. destruct (comment_end cm Hcm) as (_ & _ & Hs).
    destruct ops as [|o ops]; simpl render_rest.
    - exists (L wb ++ L trail_), (render_comment cm). unfold tail. simpl app. rewrite app_assoc.
      repeat split; [|assumption]. apply forallb_app_true; assumption.
    - destruct (nth_lay ls) as [[lo wb'] wa]. exists (L wb). eexists. split; [reflexivity|].
      split; [assumption|]. norm. simpl. auto.
  Qed.

  Lemma rop_of_rest lo o : not_numlbl o = true -> rop_of false lo o = RGood (code_view o).
  Proof. destruct o; try discriminate; intros _; unfold rop_of; simpl; try rewrite orb_true_r; reflexivity. Qed.

  Lemma parse_tail_render ops : forall ls n w,
    forallb is_ws w = true -> length ops <= n ->
    forallb valid_operand ops = true -> forallb not_numlbl ops = true -> forallb valid_oplay3 ls = true ->
    parse_tail n (w ++ render_rest ls ops ++ tail) = Some (Some (map RGood (map code_view ops))).
  Proof.
    destruct (comment_end cm Hcm) as (He1 & He2 & Hs).
    induction ops as [|o ops IH]; intros ls n w Hw Hn Hops Hnl Hls; rewrite parse_tail_eq.
    - simpl render_rest. simpl app. unfold tail. rewrite app_assoc.
      rewrite skip_app by (auto using forallb_app_true, sep_start_stops_ws).
      cbv zeta. rewrite He1, He2. reflexivity.
    - simpl render_rest. destruct (nth_lay_valid ls Hls) as [Hx Htl].
      destruct (nth_lay ls) as [[lo wb] wa]. simpl in Hx. repeat rewrite andb_true_iff in Hx.
      destruct Hx as (Hlo & Hwb & Hwa).
      simpl in Hops. apply andb_true_iff in Hops. destruct Hops as [Ho Hops].
      simpl in Hnl. apply andb_true_iff in Hnl. destruct Hnl as [Hnl1 Hnl].
      destruct n as [|n]; [simpl in Hn; lia|].
      norm. rewrite skip_app by (assumption || reflexivity).
      cbv zeta. change (at_end ("," :: ?x)) with false. cbv iota. simpl hd_eqb. simpl tl. cbv iota.
      destruct (render_op_head false lo o Ho) as (c & t & Eo & Hc).
      assert (Hskip : skip (L wa ++ render_op false lo o ++ L wb ++ render_rest (tl ls) ops ++ tail)
                      = render_op false lo o ++ L wb ++ render_rest (tl ls) ops ++ tail).
      { apply skipL; [assumption|]. rewrite Eo. simpl. auto using ophead_not_ws. }
      rewrite Hskip.
      assert (Hne : orb (at_end (render_op false lo o ++ L wb ++ render_rest (tl ls) ops ++ tail))
                        (hd_eqb "," (render_op false lo o ++ L wb ++ render_rest (tl ls) ops ++ tail)) = false).
      { rewrite Eo. norm. rewrite at_end_ophead by assumption. simpl. auto using ophead_not_comma. }
      rewrite Hne.
      rewrite parse_operand_render by (assumption || (apply after_op_rest; assumption)).
      rewrite after_op_delim by (apply after_op_rest; assumption).
      rewrite IH; [|assumption|simpl in Hn; lia|assumption|assumption|assumption].
      rewrite rop_of_rest by assumption. reflexivity.
  Qed.
End Tail.

(* ---------------------------------------------------------------- a few more character facts *)
Lemma ws_not_lblrest c : is_ws c = true -> is_lblrest c = false.  Proof. char_cases c. Qed.
Lemma ws_not_mnem c : is_ws c = true -> is_mnem c = false.  Proof. char_cases c. Qed.
Lemma ws_not_at c : is_ws c = true -> Ascii.eqb c "@" = false.  Proof. char_cases c. Qed.
Lemma ws_not_colon c : is_ws c = true -> Ascii.eqb c ":" = false.  Proof. char_cases c. Qed.
Lemma ws_not_dirname c : is_ws c = true -> is_dirname c = false.  Proof. char_cases c. Qed.
Lemma ws_not_bf c : is_ws c = true -> one_of "bBfF" c = false.  Proof. char_cases c. Qed.
Lemma lblfirst_not_hash c : is_lblfirst c = true -> Ascii.eqb c "#" = false.  Proof. char_cases c. Qed.
Lemma lblfirst_not_slash c : is_lblfirst c = true -> Ascii.eqb c "/" = false.  Proof. char_cases c. Qed.
Lemma lblfirst_not_ws c : is_lblfirst c = true -> is_ws c = false.  Proof. char_cases c. Qed.
Lemma digit_not_ws c : is_digit c = true -> is_ws c = false.  Proof. char_cases c. Qed.
Lemma digit_not_hash c : is_digit c = true -> Ascii.eqb c "#" = false.  Proof. char_cases c. Qed.
Lemma digit_not_slash c : is_digit c = true -> Ascii.eqb c "/" = false.  Proof. char_cases c. Qed.
Lemma digit_not_lblfirst c : is_digit c = true -> is_lblfirst c = false.  Proof. char_cases c. Qed.
Lemma dirname_lblrest c : is_dirname c = true -> is_lblrest c = true.  Proof. char_cases c. Qed.
Lemma dirname_not_ws c : is_dirname c = true -> is_ws c = false.  Proof. char_cases c. Qed.

(* head of the text after the mnemonic / a name: empty, a blank, or a comment start *)
Definition soft_head (r : chars) : Prop :=
  match r with [] => True | c :: _ => is_ws c = true \/ c = "#" \/ c = "/" end.

Lemma soft_stops (P : ascii -> bool) r :
  (forall c, is_ws c = true -> P c = false) -> P "#" = false -> P "/" = false -> soft_head r -> stops P r.
Proof. destruct r; simpl; [auto|]. intros H1 H2 H3 [H|[H|H]]; subst; auto. Qed.

Lemma soft_not (x : ascii) r :
  (forall c, is_ws c = true -> Ascii.eqb c x = false) -> Ascii.eqb "#" x = false -> Ascii.eqb "/" x = false ->
  soft_head r -> hd_eqb x r = false.
Proof. destruct r; simpl; [auto|]. intros H1 H2 H3 [H|[H|H]]; subst; auto. Qed.

Lemma soft_delim r : soft_head r -> delim r = true.
Proof. destruct r; simpl; [auto|]. intros [H|[H|H]]; subst; [rewrite H|..]; reflexivity. Qed.

Lemma soft_ws_app w r : forallb is_ws w = true -> soft_head r -> soft_head (w ++ r).
Proof. destruct w; simpl; [auto|]. intros E _. apply andb_true_iff in E. tauto. Qed.

Lemma sep_soft r : sep_start r -> r = [] \/ hd_eqb "," r = true \/ soft_head r.
Proof. destruct r; simpl; [auto|]. intros [H|[H|H]]; subst; auto. Qed.

Lemma comment_soft c : valid_comment c = true -> soft_head (render_comment c).
Proof. destruct c as [[[|] t]|]; simpl; auto. Qed.

Lemma alnum_no_comma l : forallb is_alnum l = true -> existsb (Ascii.eqb ",") l = false.
Proof.
  induction l as [|x l IH]; [reflexivity|]. cbn [existsb forallb]. intro Ha.
  apply andb_true_iff in Ha. destruct Ha. rewrite alnum_not_comma, IH by assumption. reflexivity.
Qed.

(* ---------------------------------------------------------------- data16 / data32 prefixes *)
Lemma starts_app p x : starts p (p ++ x) = true.
Proof. induction p as [|a p IH]; simpl; [reflexivity|]. rewrite Ascii.eqb_refl. exact IH. Qed.

Lemma starts_app_false p : forall m rest, forallb is_alnum p = true -> stops is_alnum rest ->
  starts p m = false -> starts p (m ++ rest) = false.
Proof.
  induction p as [|a p IH]; intros m rest Hp Hr Hm; [discriminate|].
  simpl in Hp. apply andb_true_iff in Hp. destruct Hp as [Ha Hp].
  destruct m as [|b m]; simpl.
  - destruct rest as [|c rest]; [reflexivity|]. simpl in Hr.
    destruct (Ascii.eqb a c) eqn:E; [|reflexivity]. apply Ascii.eqb_eq in E. subst c. congruence.
  - simpl in Hm. destruct (Ascii.eqb a b); [|reflexivity]. simpl in *. apply IH; assumption.
Qed.

Lemma strip_data_done fuel l : starts (L "data16") l = false -> starts (L "data32") l = false -> strip_data fuel l = l.
Proof. intros H1 H2. destruct fuel; cbn [strip_data]; [reflexivity|]. rewrite H1, H2. reflexivity. Qed.

Definition pfx (p : bool * string) : chars := L (if fst p then "data32" else "data16")%string.
Lemma pfx_len p : length (pfx p) = 6.
Proof. destruct p as [[|] w]; reflexivity. Qed.
Lemma pfx_starts p x : orb (starts (L "data16") (pfx p ++ x)) (starts (L "data32") (pfx p ++ x)) = true.
Proof.
  destruct p as [[|] w]; unfold pfx; simpl fst.
  - rewrite (starts_app (L "data32")). apply orb_true_r.
  - rewrite (starts_app (L "data16")). reflexivity.
Qed.
Lemma pfx_head p : exists t, pfx p = "d" :: t /\ forallb is_alnum t = true.
Proof. destruct p as [[|] w]; eexists; split; reflexivity. Qed.

Lemma render_prefixes_cons p ps : render_prefixes (p :: ps) = pfx p ++ L (snd p) ++ render_prefixes ps.
Proof. unfold render_prefixes, pfx. simpl flat_map. rewrite <- app_assoc. reflexivity. Qed.

Lemma render_prefixes_len ps x : length ps <= length (render_prefixes ps ++ x).
Proof.
  induction ps as [|p ps IH]; [simpl; lia|]. rewrite render_prefixes_cons. repeat rewrite app_length.
  rewrite pfx_len. rewrite app_length in IH. simpl. lia.
Qed.

(* text that starts with a letter *)
Definition alpha_head (l : chars) : Prop := match l with c :: _ => is_alpha c = true | [] => False end.
Lemma alpha_head_stops_ws l : alpha_head l -> stops is_ws l.
Proof. destruct l; simpl; [auto|]. apply alpha_not_ws. Qed.
Lemma prefixes_alpha_head ps l : alpha_head l -> alpha_head (render_prefixes ps ++ l).
Proof.
  intro H. destruct ps as [|p ps]; [exact H|]. rewrite render_prefixes_cons.
  destruct (pfx_head p) as (t & -> & _). reflexivity.
Qed.

Lemma strip_data_prefixes ps : forall fuel l, length ps <= fuel -> forallb valid_prefix ps = true -> alpha_head l ->
  strip_data fuel (render_prefixes ps ++ l) = strip_data (fuel - length ps) l.
Proof.
  induction ps as [|p ps IH]; intros fuel l Hf Hps Hl.
  - simpl. rewrite Nat.sub_0_r. reflexivity.
  - simpl in Hps. apply andb_true_iff in Hps. destruct Hps as [Hp Hps].
    unfold valid_prefix in Hp. apply andb_true_iff in Hp. destruct Hp as [Hw _].
    destruct fuel as [|fuel]; [simpl in Hf; lia|].
    rewrite render_prefixes_cons. norm. cbn [strip_data]. rewrite pfx_starts.
    rewrite <- (pfx_len p) at 1. rewrite skipn_app, Nat.sub_diag, skipn_all. simpl skipn. rewrite app_nil_l.
    rewrite skipL; [|assumption|apply alpha_head_stops_ws; apply prefixes_alpha_head; assumption].
    simpl length. rewrite Nat.sub_succ. apply IH; [simpl in Hf; lia|assumption|assumption].
Qed.

(* ---------------------------------------------------------------- instruction line *)
Section Instr.
  Variable lay : layout.
  Variable m : string.
  Variable ops : list operand.
  Hypothesis Hlay : valid_layout lay = true.
  Hypothesis Hm : valid_mnemonic m = true.
  Hypothesis Hops : forallb valid_operand ops = true.
  Hypothesis Hnl : forallb not_numlbl (tl ops) = true.
  Hypothesis Hlen : length ops <= 4.

  Let tail := L (trail lay) ++ render_comment (comment lay).
  Let body : chars :=
    match ops with
    | [] => []
    | o :: ops' => let '(lo, wb, _) := nth_lay (lops lay) in
                   L (gap lay) ++ render_op true lo o ++ L wb ++ render_rest (tl (lops lay)) ops'
    end.
  Let pre := render_prefixes (prefixes lay).

  Lemma lay_inv : blanks (lead lay) = true /\ blanks (gap lay) = true /\ gap lay <> ""%string
                  /\ forallb valid_oplay3 (lops lay) = true /\ blanks (trail lay) = true /\ valid_comment (comment lay) = true
                  /\ forallb valid_prefix (prefixes lay) = true.
  Proof.
    unfold valid_layout in Hlay. repeat rewrite andb_true_iff in Hlay.
    destruct Hlay as (H1 & H2 & H3 & H4 & H5 & H6 & H7). repeat split; try assumption.
    intro E. rewrite E in H3. discriminate.
  Qed.

  Lemma mnem_inv : exists c t, L m = c :: t /\ is_alpha c = true /\ forallb is_alnum (c :: t) = true
                               /\ mnem_ok (c :: t) = true
                               /\ starts (L "data16") (c :: t) = false /\ starts (L "data32") (c :: t) = false.
  Proof.
    unfold valid_mnemonic in Hm. destruct (L m) as [|c t]; [discriminate|].
    repeat rewrite andb_true_iff in Hm. destruct Hm as (Hc & Ht & Hd).
    apply negb_true_iff in Hd. apply orb_false_iff in Hd.
    exists c, t. repeat split; try tauto.
    - simpl. rewrite alpha_alnum by assumption. assumption.
    - unfold mnem_ok. rewrite Hc. rewrite andb_true_l.
      assert (existsb (Ascii.eqb ",") (c :: t) = false) as Hx.
      { apply alnum_no_comma. simpl. rewrite alpha_alnum by assumption. assumption. }
      rewrite Hx. rewrite orb_false_l. destruct Hd as [-> ->]. reflexivity.
  Qed.

  Lemma body_tail_soft : soft_head (body ++ tail).
  Proof.
    destruct lay_inv as (_ & Hg & Hgne & _ & Ht & Hc & _).
    unfold body. destruct ops as [|o ops'].
    - simpl. unfold tail. apply soft_ws_app; [assumption|]. apply comment_soft. assumption.
    - destruct (nth_lay (lops lay)) as [[lo wb] wa]. norm.
      destruct (L (gap lay)) as [|g gs] eqn:Eg.
      + exfalso. apply Hgne. rewrite <- (S_L (gap lay)), Eg. reflexivity.
      + unfold blanks, allc in Hg. rewrite Eg in Hg. simpl in Hg. apply andb_true_iff in Hg.
        simpl. tauto.
  Qed.

  Lemma strip_render : strip_data (length (pre ++ L m ++ body ++ tail)) (pre ++ L m ++ body ++ tail) = L m ++ body ++ tail.
  Proof.
    destruct lay_inv as (_ & _ & _ & _ & _ & _ & Hps).
    destruct mnem_inv as (c & t & Em & Hca & Hall & Hok & Hd16 & Hd32).
    pose proof body_tail_soft as Hsoft.
    unfold pre. rewrite strip_data_prefixes; [|apply render_prefixes_len|assumption|rewrite Em; exact Hca].
    apply strip_data_done; rewrite Em; (apply starts_app_false; [reflexivity|apply soft_stops; auto using ws_not_alnum|assumption]).
  Qed.

  Lemma parse_instr_render : parse_instr (pre ++ L m ++ body ++ tail) = Parsed (PInstr m (map code_view ops)).
  Proof.
    destruct lay_inv as (_ & Hg & Hgne & Hls & Ht & Hc & _).
    destruct mnem_inv as (c & t & Em & Hca & Hall & Hok & _).
    destruct (comment_end (comment lay) Hc) as (He1 & He2 & Hs).
    pose proof body_tail_soft as Hsoft.
    unfold parse_instr. rewrite strip_render. cbv zeta.
    rewrite span_app; [|rewrite Em; eapply forallb_impl; [|exact Hall]; exact alnum_mnem
                       |apply soft_stops; auto using ws_not_mnem].
    rewrite Em, Hok, <- Em. simpl negb. cbv iota.
    rewrite soft_delim by assumption. simpl negb. cbv iota.
    unfold body in *. destruct ops as [|o ops'].
    - simpl app. unfold tail. rewrite skipL by (auto using sep_start_stops_ws).
      rewrite He1, He2. rewrite S_L. reflexivity.
    - destruct (nth_lay_valid _ Hls) as [Hx Htl].
      destruct (nth_lay (lops lay)) as [[lo wb] wa]. simpl in Hx. repeat rewrite andb_true_iff in Hx.
      destruct Hx as (Hlo & Hwb & Hwa).
      simpl in Hops. apply andb_true_iff in Hops. destruct Hops as [Ho Hops'].
      simpl in Hnl.
      destruct (render_op_head true lo o Ho) as (c1 & t1 & Eo & Hc1).
      norm. rewrite skipL; [|assumption|rewrite Eo; simpl; auto using ophead_not_ws].
      assert (Hne : at_end (render_op true lo o ++ L wb ++ render_rest (tl (lops lay)) ops' ++ tail) = false
                    /\ hd_eqb "," (render_op true lo o ++ L wb ++ render_rest (tl (lops lay)) ops' ++ tail) = false).
      { rewrite Eo. norm. rewrite at_end_ophead by assumption. simpl. auto using ophead_not_comma. }
      destruct Hne as [Hne1 Hne2]. rewrite Hne1, Hne2.
      assert (Hafter : after_op (L wb ++ render_rest (tl (lops lay)) ops' ++ tail)).
      { apply after_op_rest; assumption. }
      rewrite parse_operand_render by assumption.
      rewrite after_op_delim by assumption. simpl negb. cbv iota.
      unfold tail. rewrite (parse_tail_render (trail lay) (comment lay) Ht Hc ops' (tl (lops lay)) 3 (L wb));
        [|assumption|simpl in Hlen; lia|assumption|assumption|assumption].
      assert (Hbad : forall l, existsb is_bad (map RGood l) = false) by (induction l; simpl; auto).
      assert (Hbare : forall l, existsb is_bare (map RGood l) = false) by (induction l; simpl; auto).
      assert (Hmap : forall l, map op_of (map RGood l) = l) by (induction l; simpl; congruence).
      simpl existsb. rewrite Hbad, Hbare, orb_false_r.
      assert (is_bad (rop_of true lo o) = false) as Hb1 by (unfold rop_of; destruct o; try reflexivity; destruct (orb _ _); reflexivity).
      rewrite Hb1. simpl map. rewrite Hmap, S_L.
      assert (op_of (rop_of true lo o) = code_view o) as Ho1 by (unfold rop_of; destruct o; try reflexivity; destruct (orb _ _); reflexivity).
      rewrite Ho1. reflexivity.
  Qed.

  Lemma render_chars_eq : render_chars lay (m, ops) = L (lead lay) ++ pre ++ L m ++ body ++ tail.
  Proof.
    unfold render_chars, body, tail, pre. destruct ops as [|o ops']; [reflexivity|].
    destruct (nth_lay (lops lay)) as [[lo wb] wa]. reflexivity.
  Qed.

  (* the first word of the line (a prefix or the mnemonic) and what follows it *)
  Lemma first_word : exists c0 w0 r1, pre ++ L m ++ body ++ tail = c0 :: w0 ++ r1
      /\ is_alpha c0 = true /\ forallb is_alnum w0 = true /\ soft_head r1 /\ hd_eqb ":" (skip r1) = false.
  Proof.
    destruct lay_inv as (_ & Hg & Hgne & Hls & Ht & Hc & Hps).
    destruct mnem_inv as (c & t & Em & Hca & Hall & Hok & _).
    pose proof body_tail_soft as Hsoft.
    unfold pre. destruct (prefixes lay) as [|p ps].
    - (* the mnemonic *)
      exists c, t, (body ++ tail). simpl app. rewrite Em. norm. repeat split; try assumption.
      + simpl in Hall. apply andb_true_iff in Hall. tauto.
      + destruct (comment_end (comment lay) Hc) as (_ & _ & Hs).
        unfold body. destruct ops as [|o ops'].
        * simpl app. unfold tail. rewrite skipL by (auto using sep_start_stops_ws).
          destruct (render_comment (comment lay)) as [|x xs]; [reflexivity|].
          simpl in *. destruct Hs as [H|[H|H]]; subst; reflexivity.
        * destruct (nth_lay_valid _ Hls) as [Hx Htl].
          destruct (nth_lay (lops lay)) as [[lo wb] wa].
          simpl in Hops. apply andb_true_iff in Hops. destruct Hops as [Ho Hops'].
          destruct (render_op_head true lo o Ho) as (c1 & t1 & Eo & Hc1).
          norm. rewrite skipL; [|assumption|rewrite Eo; simpl; auto using ophead_not_ws].
          rewrite Eo. simpl. auto using ophead_not_colon.
    - (* a prefix, followed by at least one blank *)
      simpl in Hps. apply andb_true_iff in Hps. destruct Hps as [Hp Hps].
      unfold valid_prefix in Hp. apply andb_true_iff in Hp. destruct Hp as [Hw Hwne].
      destruct (pfx_head p) as (t0 & Ep & Ht0).
      exists "d", t0, (L (snd p) ++ render_prefixes ps ++ L m ++ body ++ tail).
      rewrite render_prefixes_cons. norm. rewrite Ep. norm. repeat split; try assumption.
      + destruct (L (snd p)) as [|y ys] eqn:Ew.
        * exfalso. apply negb_true_iff in Hwne. apply String.eqb_neq in Hwne. apply Hwne.
          rewrite <- (S_L (snd p)), Ew. reflexivity.
        * unfold blanks, allc in Hw. rewrite Ew in Hw. simpl in Hw. apply andb_true_iff in Hw. simpl. tauto.
      + assert (Ha : alpha_head (render_prefixes ps ++ L m ++ body ++ tail)).
        { apply prefixes_alpha_head. rewrite Em. exact Hca. }
        rewrite skipL; [|assumption|apply alpha_head_stops_ws; assumption].
        destruct (render_prefixes ps ++ L m ++ body ++ tail) as [|x xs]; [reflexivity|].
        simpl in Ha. simpl. destruct x as [[|] [|] [|] [|] [|] [|] [|] [|]]; try discriminate; reflexivity.
  Qed.

  Lemma parse_chars_render : parse_chars (render_chars lay (m, ops)) = Parsed (PInstr m (map code_view ops)).
  Proof.
    rewrite render_chars_eq.
    destruct lay_inv as (Hl & _).
    pose proof parse_instr_render as Hpi.
    destruct first_word as (c0 & w0 & r1 & E0 & Hc0 & Hw0 & Hsoft & Hnc).
    rewrite E0 in *.
    unfold parse_chars.
    rewrite skipL; [|assumption|simpl; auto using alpha_not_ws].
    cbv zeta iota beta.
    assert (at_end (c0 :: w0 ++ r1) = false) as Hae.
    { unfold at_end. rewrite alpha_not_hash, alpha_not_slash by assumption. reflexivity. }
    rewrite Hae. rewrite alpha_lblfirst by assumption.
    rewrite span_app; [|eapply forallb_impl; [|exact Hw0]; exact alnum_lblrest
                       |apply soft_stops; auto using ws_not_lblrest].
    rewrite (soft_not "@") by (auto using ws_not_at).
    rewrite Hnc. rewrite alpha_not_dot, Hc0 by assumption. exact Hpi.
  Qed.
End Instr.

Lemma lossless_view o : lossless o = true -> code_view o = o.
Proof. destruct o as [| | |d ? ? ?| | | | | |]; try discriminate; try reflexivity. destruct d; try discriminate; reflexivity. Qed.

Lemma lossless_map ops : forallb lossless ops = true -> map code_view ops = ops.
Proof.
  induction ops as [|o ops IH]; [reflexivity|]. simpl. intro H. apply andb_true_iff in H. destruct H as [Ho H].
  rewrite lossless_view, IH by assumption. reflexivity.
Qed.

(* the written language: what the code keeps of every operand *)
Theorem roundtrip_view_proof lay a :
  valid_instr_w a = true -> valid_layout lay = true ->
  parse_line (render_line lay a) = Parsed (PInstr (fst a) (map code_view (snd a))).
Proof.
  destruct a as [m ops]. unfold valid_instr_w. simpl fst. simpl snd. intros Ha Hl.
  repeat rewrite andb_true_iff in Ha. destruct Ha as (Hm & Hops & Hnl & Hlen).
  apply Nat.leb_le in Hlen.
  unfold parse_line, render_line. rewrite L_S. apply parse_chars_render; assumption.
Qed.

Theorem roundtrip_proof lay a :
  valid_instr a = true -> valid_layout lay = true ->
  parse_line (render_line lay a) = Parsed (PInstr (fst a) (snd a)).
Proof.
  unfold valid_instr. intros Ha Hl. apply andb_true_iff in Ha. destruct Ha as [Hw Hll].
  rewrite roundtrip_view_proof by assumption. rewrite lossless_map by assumption. reflexivity.
Qed.

(* ---------------------------------------------------------------- comment lines *)
Theorem comment_line_proof lead_ slashes text :
  blanks lead_ = true -> allc is_textc text = true ->
  parse_line (render_comment_line lead_ slashes text) = Parsed PComment.
Proof.
  intros Hl Ht. unfold parse_line, render_comment_line. rewrite L_S.
  destruct (comment_end (Some (slashes, text)) Ht) as (He1 & He2 & Hs).
  unfold parse_chars. rewrite skipL by (auto using sep_start_stops_ws).
  destruct (render_comment (Some (slashes, text))) as [|c r] eqn:E.
  - destruct slashes; discriminate.
  - rewrite He1, He2. reflexivity.
Qed.

(* ---------------------------------------------------------------- label lines *)
Lemma label_tail_render name w2 c :
  blanks w2 = true -> valid_comment c = true ->
  label_tail name (L w2 ++ render_comment c) = Parsed (PLabel (S_ name)).
Proof.
  intros Hw Hc. destruct (comment_end c Hc) as (He1 & He2 & Hs).
  unfold label_tail. rewrite skipL by (auto using sep_start_stops_ws).
  rewrite He1, He2. reflexivity.
Qed.

Lemma colon_tail_soft w2 c : blanks w2 = true -> valid_comment c = true -> soft_head (L w2 ++ render_comment c).
Proof. intros. apply soft_ws_app; [assumption|]. apply comment_soft. assumption. Qed.

Theorem label_line_proof lead_ name w1 w2 c :
  blanks lead_ = true -> valid_label name = true -> blanks w1 = true -> blanks w2 = true -> valid_comment c = true ->
  parse_line (render_label_line lead_ name w1 w2 c) = Parsed (PLabel name).
Proof.
  intros Hl Hn H1 H2 Hc. unfold parse_line, render_label_line. rewrite L_S.
  unfold valid_label in Hn. destruct (L name) as [|x t] eqn:En; [discriminate|].
  apply andb_true_iff in Hn. destruct Hn as [Hx Ht].
  unfold parse_chars. norm.
  rewrite skipL; [|assumption|simpl; auto using lblfirst_not_ws].
  cbv zeta iota beta.
  assert (at_end (x :: t ++ L w1 ++ ":" :: L w2 ++ render_comment c) = false) as Hae.
  { unfold at_end. rewrite lblfirst_not_hash, lblfirst_not_slash by assumption. reflexivity. }
  rewrite Hae, Hx.
  assert (stops is_lblrest (L w1 ++ ":" :: L w2 ++ render_comment c)) as Hst.
  { destruct (L w1) as [|y ys] eqn:E1; simpl; [reflexivity|].
    unfold blanks, allc in H1. rewrite E1 in H1. simpl in H1. apply andb_true_iff in H1.
    apply ws_not_lblrest. tauto. }
  rewrite span_app by assumption.
  assert (hd_eqb "@" (L w1 ++ ":" :: L w2 ++ render_comment c) = false) as Hat.
  { destruct (L w1) as [|y ys] eqn:E1; simpl; [reflexivity|].
    unfold blanks, allc in H1. rewrite E1 in H1. simpl in H1. apply andb_true_iff in H1.
    apply ws_not_at. tauto. }
  rewrite Hat. rewrite skipL by (assumption || reflexivity).
  simpl hd_eqb. simpl tl. cbv iota.
  rewrite (soft_not ":") by (auto using ws_not_colon, colon_tail_soft).
  rewrite label_tail_render by assumption. rewrite <- En, S_L. reflexivity.
Qed.

Theorem numeric_label_line_proof lead_ name w1 w2 c :
  blanks lead_ = true -> valid_numlabel name = true -> blanks w1 = true -> blanks w2 = true -> valid_comment c = true ->
  parse_line (render_label_line lead_ name w1 w2 c) = Parsed (PLabel name).
Proof.
  intros Hl Hn H1 H2 Hc. unfold parse_line, render_label_line. rewrite L_S.
  unfold valid_numlabel in Hn. destruct (L name) as [|x t] eqn:En; [discriminate|].
  pose proof Hn as Hall. simpl in Hn. apply andb_true_iff in Hn. destruct Hn as [Hx Ht].
  unfold parse_chars. norm.
  rewrite skipL; [|assumption|simpl; auto using digit_not_ws].
  cbv zeta iota beta.
  assert (at_end (x :: t ++ L w1 ++ ":" :: L w2 ++ render_comment c) = false) as Hae.
  { unfold at_end. rewrite digit_not_hash, digit_not_slash by assumption. reflexivity. }
  rewrite Hae, digit_not_lblfirst, Hx by assumption.
  rewrite app_comm_cons.
  assert (stops is_digit (L w1 ++ ":" :: L w2 ++ render_comment c)) as Hst.
  { destruct (L w1) as [|y ys] eqn:E1; simpl; [reflexivity|].
    unfold blanks, allc in H1. rewrite E1 in H1. simpl in H1. apply andb_true_iff in H1.
    apply brk_not_digit. apply ws_brk. tauto. }
  rewrite span_app by assumption.
  (* the character after the digits is a blank or the colon: not a b/f suffix *)
  repeat match goal with
  | |- context [skip ?m] =>
    lazymatch m with
    | match _ with _ => _ end =>
      replace m with (L w1 ++ ":" :: L w2 ++ render_comment c)
        by (destruct (L w1) as [|y ys] eqn:E1; [reflexivity|]; cbn [app];
            unfold blanks, allc in H1; rewrite E1 in H1; simpl in H1; apply andb_true_iff in H1; destruct H1 as [Hy _];
            rewrite (ws_not_bf y Hy); reflexivity)
    end
  end.
  rewrite skipL by (assumption || reflexivity).
  simpl hd_eqb. simpl tl. cbv iota.
  rewrite label_tail_render by assumption. rewrite <- En, S_L. reflexivity.
Qed.

(* ---------------------------------------------------------------- directive lines *)
Theorem directive_line_proof lead_ name rest :
  blanks lead_ = true -> valid_dirname name = true -> valid_dirrest rest = true ->
  parse_line (render_directive_line lead_ name rest) = Parsed (PDirective name).
Proof.
  intros Hl Hn Hr. unfold parse_line, render_directive_line. rewrite L_S.
  unfold valid_dirname in Hn. destruct (L name) as [|x t] eqn:En; [discriminate|].
  rewrite <- En in Hn.
  (* facts about the rest *)
  assert (Hrest : soft_head (L rest) /\ end_ok (L rest) = true
                  /\ hd_eqb ":" (skip (L rest)) = false).
  { unfold valid_dirrest in Hr. destruct (L rest) as [|y ys] eqn:Er.
    - repeat split; reflexivity.
    - repeat rewrite andb_true_iff in Hr. destruct Hr as (Hy & Hall & Hcol).
      repeat split.
      + simpl. auto.
      + exact Hall.
      + apply negb_true_iff. exact Hcol. }
  destruct Hrest as (Hsoft & Hend & Hcol).
  unfold parse_chars. norm.
  rewrite skipL by (assumption || reflexivity).
  cbv zeta iota beta.
  change (at_end ("." :: ?x)) with false. cbv iota.
  change (is_lblfirst ".") with true. cbv iota.
  rewrite (app_comm_cons t (L rest) x), <- En. rewrite span_app; [|eapply forallb_impl; [|exact Hn]; exact dirname_lblrest
                     |apply soft_stops; auto using ws_not_lblrest].
  rewrite (soft_not "@") by (auto using ws_not_at).
  rewrite Hcol. change (Ascii.eqb "." ".") with true. cbv iota.
  unfold parse_directive.
  assert (skip (L name ++ L rest) = L name ++ L rest) as Hsk.
  { apply skip_stop. rewrite En. simpl. rewrite En in Hn. simpl in Hn. apply andb_true_iff in Hn.
    apply dirname_not_ws. tauto. }
  rewrite Hsk.
  rewrite span_app; [|assumption|apply soft_stops; auto using ws_not_dirname].
  rewrite En. rewrite Hend. simpl. rewrite <- En, S_L. reflexivity.
Qed.

(* ---------------------------------------------------------------- exclusivity *)
Definition kind_comment (o : outcome) : Prop := o = Parsed PComment.
Definition kind_label (o : outcome) : Prop := exists n, o = Parsed (PLabel n).
Definition kind_directive (o : outcome) : Prop := exists n, o = Parsed (PDirective n).
Definition kind_instruction (o : outcome) : Prop := exists m ops, o = Parsed (PInstr m ops).

Theorem classify_exclusive_proof s p : parse_line s = Parsed p ->
  let o := parse_line s in
  (kind_comment o /\ ~ kind_label o /\ ~ kind_directive o /\ ~ kind_instruction o)
  \/ (~ kind_comment o /\ kind_label o /\ ~ kind_directive o /\ ~ kind_instruction o)
  \/ (~ kind_comment o /\ ~ kind_label o /\ kind_directive o /\ ~ kind_instruction o)
  \/ (~ kind_comment o /\ ~ kind_label o /\ ~ kind_directive o /\ kind_instruction o).
Proof.
  intro H. cbv zeta. rewrite H. unfold kind_comment, kind_label, kind_directive, kind_instruction.
  destruct p as [|n|n|m ops].
  - left. repeat split; try reflexivity; intros (? & E); try destruct E as (? & E); discriminate.
  - right; left. repeat split; try (eexists; reflexivity); try discriminate;
      intros (? & E); try destruct E as (? & E); discriminate.
  - right; right; left. repeat split; try (eexists; reflexivity); try discriminate;
      intros (? & E); try destruct E as (? & E); discriminate.
  - right; right; right. repeat split; try (eexists; eexists; reflexivity); try discriminate;
      intros (? & E); discriminate.
Qed.

(* the four renderers produce lines of four different kinds: an instruction line is never a label etc.
   follows from the four round-trip theorems (each gives the outcome) *)
