(* C09 -- lexical lemmas: character classes, span / skip self-delimitation, numbers. *)
From Coq Require Import String Ascii List Bool NArith ZArith Lia Decimal Hexadecimal DecimalN HexadecimalN DecimalPos HexadecimalPos.
From OV Require Import Model.ParseX86.
Import ListNotations.
Local Open Scope char_scope.

Lemma L_S l : L (S_ l) = l.
Proof. apply list_ascii_of_string_of_list_ascii. Qed.
Lemma S_L s : S_ (L s) = s.
Proof. apply string_of_list_ascii_of_string. Qed.

(* ---------------------------------------------------------------- character facts (256-case sweeps) *)
Ltac char_cases c := destruct c as [[|] [|] [|] [|] [|] [|] [|] [|]]; try discriminate; try reflexivity.

(* next character stops a token *)
Definition stops (P : ascii -> bool) (l : chars) : Prop :=
  match l with [] => True | c :: _ => P c = false end.

(* what may follow a token inside a rendered line: blank, "," "(" ")" "#" "/" *)
Definition is_brk (c : ascii) : bool := orb (is_ws c) (one_of ",()#/" c).

Lemma brk_not_alnum c : is_brk c = true -> is_alnum c = false.  Proof. char_cases c. Qed.
Lemma brk_not_idrest c : is_brk c = true -> is_idrest c = false.  Proof. char_cases c. Qed.
Lemma brk_not_hex c : is_brk c = true -> is_hex c = false.  Proof. char_cases c. Qed.
Lemma brk_not_digit c : is_brk c = true -> is_digit c = false.  Proof. char_cases c. Qed.
Lemma brk_not_x c : is_brk c = true -> Ascii.eqb c "x" = false.  Proof. char_cases c. Qed.
Lemma brk_not_0 c : is_brk c = true -> Ascii.eqb c "0" = false.  Proof. char_cases c. Qed.
Lemma ws_brk c : is_ws c = true -> is_brk c = true.  Proof. char_cases c. Qed.
Lemma digit_not_x c : is_digit c = true -> Ascii.eqb c "x" = false.  Proof. char_cases c. Qed.
Lemma digit_not_minus c : is_digit c = true -> Ascii.eqb c "-" = false.  Proof. char_cases c. Qed.
Lemma digit_alnum c : is_digit c = true -> is_alnum c = true.  Proof. char_cases c. Qed.
Lemma digit_hex c : is_digit c = true -> is_hex c = true.  Proof. char_cases c. Qed.
Lemma alnum_idrest c : is_alnum c = true -> is_idrest c = true.  Proof. char_cases c. Qed.
Lemma alnum_lblrest c : is_alnum c = true -> is_lblrest c = true.  Proof. char_cases c. Qed.
Lemma alnum_mnem c : is_alnum c = true -> is_mnem c = true.  Proof. char_cases c. Qed.
Lemma alnum_not_comma c : is_alnum c = true -> Ascii.eqb "," c = false.  Proof. char_cases c. Qed.
Lemma alpha_alnum c : is_alpha c = true -> is_alnum c = true.  Proof. char_cases c. Qed.
Lemma alpha_not_ws c : is_alpha c = true -> is_ws c = false.  Proof. char_cases c. Qed.
Lemma alpha_lblfirst c : is_alpha c = true -> is_lblfirst c = true.  Proof. char_cases c. Qed.
Lemma alpha_not_dot c : is_alpha c = true -> Ascii.eqb c "." = false.  Proof. char_cases c. Qed.
Lemma alpha_not_hash c : is_alpha c = true -> Ascii.eqb c "#" = false.  Proof. char_cases c. Qed.
Lemma alpha_not_slash c : is_alpha c = true -> Ascii.eqb c "/" = false.  Proof. char_cases c. Qed.
Lemma idfirst_not_digit c : is_idfirst c = true -> is_digit c = false.  Proof. char_cases c. Qed.
Lemma idfirst_not_0 c : is_idfirst c = true -> Ascii.eqb c "0" = false.  Proof. char_cases c. Qed.
Lemma idfirst_not_minus c : is_idfirst c = true -> Ascii.eqb c "-" = false.  Proof. char_cases c. Qed.
Lemma idfirst_not_pct c : is_idfirst c = true -> Ascii.eqb c "%" = false.  Proof. char_cases c. Qed.
Lemma idfirst_not_dollar c : is_idfirst c = true -> Ascii.eqb c "$" = false.  Proof. char_cases c. Qed.
Lemma idfirst_not_lp c : is_idfirst c = true -> Ascii.eqb c "(" = false.  Proof. char_cases c. Qed.
Lemma digit_not_pct c : is_digit c = true -> Ascii.eqb c "%" = false.  Proof. char_cases c. Qed.
Lemma digit_not_dollar c : is_digit c = true -> Ascii.eqb c "$" = false.  Proof. char_cases c. Qed.
Lemma digit_not_lp c : is_digit c = true -> Ascii.eqb c "(" = false.  Proof. char_cases c. Qed.
Lemma print_textc c : is_print c = true -> is_textc c = true.  Proof. char_cases c. Qed.
Lemma ws_textc c : is_ws c = true -> is_textc c = true.  Proof. char_cases c. Qed.

(* first character of a rendered operand *)
Definition is_ophead (c : ascii) : bool :=
  orb (one_of "%$(-*" c) (orb (is_digit c) (is_idfirst c)).
Lemma ophead_not_ws c : is_ophead c = true -> is_ws c = false.  Proof. char_cases c. Qed.
Lemma ophead_not_comma c : is_ophead c = true -> Ascii.eqb c "," = false.  Proof. char_cases c. Qed.
Lemma ophead_not_hash c : is_ophead c = true -> Ascii.eqb c "#" = false.  Proof. char_cases c. Qed.
Lemma ophead_not_slash c : is_ophead c = true -> Ascii.eqb c "/" = false.  Proof. char_cases c. Qed.
Lemma ophead_not_colon c : is_ophead c = true -> Ascii.eqb c ":" = false.  Proof. char_cases c. Qed.
Lemma digit_ophead c : is_digit c = true -> is_ophead c = true.  Proof. char_cases c. Qed.
Lemma idfirst_ophead c : is_idfirst c = true -> is_ophead c = true.  Proof. char_cases c. Qed.

(* ---------------------------------------------------------------- span / skip *)
Lemma span_app P a r : forallb P a = true -> stops P r -> span P (a ++ r) = (a, r).
Proof.
  induction a as [|c a IH]; simpl; intros Ha Hr.
  - destruct r as [|c r]; [reflexivity|]. simpl in *. rewrite Hr. reflexivity.
  - apply andb_true_iff in Ha. destruct Ha as [Hc Ha]. rewrite Hc, IH by assumption. reflexivity.
Qed.

Lemma span_stop P r : stops P r -> span P r = ([], r).
Proof. intro H. apply (span_app P [] r); [reflexivity|assumption]. Qed.

Lemma skip_app w r : forallb is_ws w = true -> stops is_ws r -> skip (w ++ r) = r.
Proof. intros. unfold skip. rewrite span_app by assumption. reflexivity. Qed.

Lemma skip_stop r : stops is_ws r -> skip r = r.
Proof. intros. unfold skip. rewrite span_stop by assumption. reflexivity. Qed.

Lemma stops_weaken (P Q : ascii -> bool) r :
  (forall c, Q c = false -> P c = false) -> stops Q r -> stops P r.
Proof. destruct r; simpl; auto. Qed.

Lemma forallb_impl (P Q : ascii -> bool) l :
  (forall c, P c = true -> Q c = true) -> forallb P l = true -> forallb Q l = true.
Proof.
  intros H. induction l; simpl; [reflexivity|].
  intro E. apply andb_true_iff in E. destruct E. rewrite H, IHl by assumption. reflexivity.
Qed.

Lemma forallb_app_true (P : ascii -> bool) a b : forallb P a = true -> forallb P b = true -> forallb P (a ++ b) = true.
Proof. intros. rewrite forallb_app. rewrite H, H0. reflexivity. Qed.

(* head of a list described by a break character *)
Definition brk_head (r : chars) : Prop := match r with [] => True | c :: _ => is_brk c = true end.

Lemma brk_stops_alnum r : brk_head r -> stops is_alnum r.
Proof. destruct r; simpl; auto using brk_not_alnum. Qed.
Lemma brk_stops_idrest r : brk_head r -> stops is_idrest r.
Proof. destruct r; simpl; auto using brk_not_idrest. Qed.
Lemma brk_stops_hex r : brk_head r -> stops is_hex r.
Proof. destruct r; simpl; auto using brk_not_hex. Qed.
Lemma brk_stops_digit r : brk_head r -> stops is_digit r.
Proof. destruct r; simpl; auto using brk_not_digit. Qed.

Lemma brk_head_ws_app w r : forallb is_ws w = true -> brk_head r -> brk_head (w ++ r).
Proof. destruct w; simpl; [auto|]. intros E _. apply andb_true_iff in E. destruct E. auto using ws_brk. Qed.

(* ---------------------------------------------------------------- digits *)
Lemma dec_chars_digits d : forallb is_digit (chars_of_dec d) = true.
Proof. induction d; simpl; auto. Qed.
Lemma dec_of_chars_of_dec d : dec_of_chars (chars_of_dec d) = Some d.
Proof. induction d; simpl; rewrite ?IHd; reflexivity. Qed.
Lemma hex_chars_hex u d : forallb is_hex (chars_of_hex u d) = true.
Proof. induction d; simpl; auto; destruct u; simpl; auto. Qed.
Lemma hex_of_chars_of_hex u d : hex_of_chars (chars_of_hex u d) = Some d.
Proof. induction d; simpl; try (rewrite IHd; reflexivity); try reflexivity; destruct u; simpl; rewrite IHd; reflexivity. Qed.

Lemma chars_of_dec_nil d : chars_of_dec d = [] -> d = Decimal.Nil.
Proof. destruct d; simpl; congruence. Qed.
Lemma chars_of_hex_nil u d : chars_of_hex u d = [] -> d = Hexadecimal.Nil.
Proof. destruct d; simpl; try congruence; destruct u; congruence. Qed.

Lemma N_to_uint_nonnil n : N.to_uint n <> Decimal.Nil.
Proof. destruct n; simpl; [discriminate|apply DecimalPos.Unsigned.to_uint_nonnil]. Qed.
Lemma N_to_hex_uint_nonnil n : N.to_hex_uint n <> Hexadecimal.Nil.
Proof. destruct n; simpl; [discriminate|apply HexadecimalPos.Unsigned.to_uint_nonnil]. Qed.

Lemma dec_render_cons n : exists c r, chars_of_dec (N.to_uint n) = c :: r /\ is_digit c = true.
Proof.
  destruct (chars_of_dec (N.to_uint n)) as [|c r] eqn:E.
  - exfalso. apply (N_to_uint_nonnil n). apply chars_of_dec_nil. assumption.
  - exists c, r. split; [reflexivity|].
    pose proof (dec_chars_digits (N.to_uint n)) as H. rewrite E in H. simpl in H.
    apply andb_true_iff in H. tauto.
Qed.

(* hex_prefix of digits followed by a break *)
Lemma hex_prefix_digits d r : forallb is_digit d = true -> brk_head r -> hex_prefix (d ++ r) = false.
Proof.
  intros Hd Hr. destruct d as [|c1 [|c2 d]]; simpl in *.
  - destruct r as [|a [|b r]]; simpl; try reflexivity. simpl in Hr. rewrite brk_not_0 by assumption. reflexivity.
  - destruct r as [|a r]; simpl; [reflexivity|]. simpl in Hr. rewrite (brk_not_x a) by assumption. apply andb_false_r.
  - apply andb_true_iff in Hd. destruct Hd as [_ Hd]. apply andb_true_iff in Hd. destruct Hd as [H2 _].
    rewrite digit_not_x by assumption. apply andb_false_r.
Qed.

Lemma parse_dec_render n r : brk_head r ->
  parse_dec (chars_of_dec (N.to_uint n) ++ r) = Some (Some n, r).
Proof.
  intro Hr. unfold parse_dec.
  rewrite span_app by (auto using dec_chars_digits, brk_stops_digit).
  destruct (dec_render_cons n) as (c & t & E & _). rewrite E. rewrite <- E.
  rewrite dec_of_chars_of_dec. cbv zeta. rewrite DecimalN.Unsigned.of_to.
  destruct (list_eq_dec ascii_dec (chars_of_dec (N.to_uint n)) (chars_of_dec (N.to_uint n))); [|contradiction].
  reflexivity.
Qed.

Lemma parse_unsigned_render lo n r : brk_head r ->
  parse_unsigned (render_N lo n ++ r) = Some (Some n, r).
Proof.
  intro Hr. unfold parse_unsigned, render_N. destruct (lo_hex lo).
  - simpl. rewrite span_app by (auto using hex_chars_hex, brk_stops_hex).
    destruct (chars_of_hex (lo_upper lo) (N.to_hex_uint n)) as [|c t] eqn:E.
    + exfalso. apply (N_to_hex_uint_nonnil n). eapply chars_of_hex_nil. eassumption.
    + rewrite <- E. rewrite hex_of_chars_of_hex. rewrite HexadecimalN.Unsigned.of_to. reflexivity.
  - rewrite hex_prefix_digits by (auto using dec_chars_digits). apply parse_dec_render. assumption.
Qed.

Lemma render_N_head lo n : exists c t, render_N lo n = c :: t /\ is_digit c = true.
Proof.
  unfold render_N. destruct (lo_hex lo).
  - eexists; eexists; split; reflexivity.
  - apply dec_render_cons.
Qed.

Lemma parse_number_render lo z r : brk_head r ->
  parse_number (render_Z lo z ++ r) = Some (NumOk z, r).
Proof.
  intro Hr. unfold parse_number, render_Z.
  destruct (z <? 0)%Z eqn:Ez.
  - simpl. rewrite parse_unsigned_render by assumption.
    f_equal. f_equal. f_equal. apply Z.ltb_lt in Ez. rewrite N2Z.inj_abs_N. lia.
  - destruct (render_N_head lo (Z.abs_N z)) as (c & t & E & Hc). change ([] ++ render_N lo (Z.abs_N z)) with (render_N lo (Z.abs_N z)).
    assert (hd_eqb "-" (render_N lo (Z.abs_N z) ++ r) = false) as H.
    { rewrite E. simpl. apply digit_not_minus. assumption. }
    rewrite H. rewrite parse_unsigned_render by assumption.
    f_equal. f_equal. f_equal. apply Z.ltb_ge in Ez. rewrite N2Z.inj_abs_N. lia.
Qed.

Lemma render_Z_head lo z : exists c t, render_Z lo z = c :: t /\ (c = "-" /\ (z < 0)%Z \/ is_digit c = true /\ (0 <= z)%Z).
Proof.
  unfold render_Z. destruct (z <? 0)%Z eqn:Ez.
  - eexists; eexists; split; [reflexivity|]. left. split; [reflexivity|]. apply Z.ltb_lt. assumption.
  - destruct (render_N_head lo (Z.abs_N z)) as (c & t & E & Hc). exists c, t. split; [exact E|].
    right. split; [assumption|]. apply Z.ltb_ge. assumption.
Qed.

(* a number is not started by an identifier *)
Lemma parse_number_ident c r : is_idfirst c = true -> parse_number (c :: r) = None.
Proof.
  intro H. unfold parse_number. simpl hd_eqb. rewrite idfirst_not_minus by assumption.
  unfold parse_unsigned.
  assert (hex_prefix (c :: r) = false) as Hp.
  { destruct r; simpl; [reflexivity|]. rewrite idfirst_not_0 by assumption. reflexivity. }
  rewrite Hp. unfold parse_dec. simpl. rewrite idfirst_not_digit by assumption. reflexivity.
Qed.

(* ---------------------------------------------------------------- digit strings always convert *)
Lemma dec_digit_some c : is_digit c = true -> exists f, dec_digit c = Some f.
Proof. destruct c as [[|] [|] [|] [|] [|] [|] [|] [|]]; try discriminate; intros _; eexists; reflexivity. Qed.
Lemma hex_digit_some c : is_hex c = true -> exists f, hex_digit c = Some f.
Proof. destruct c as [[|] [|] [|] [|] [|] [|] [|] [|]]; try discriminate; intros _; eexists; reflexivity. Qed.
Lemma dec_of_chars_some d : forallb is_digit d = true -> exists u, dec_of_chars d = Some u.
Proof.
  induction d as [|c d IH]; simpl; intro H; [eexists; reflexivity|].
  apply andb_true_iff in H. destruct H as [Hc Hd].
  destruct (dec_digit_some c Hc) as (f & ->). destruct (IH Hd) as (u & ->). eexists; reflexivity.
Qed.
Lemma hex_of_chars_some d : forallb is_hex d = true -> exists u, hex_of_chars d = Some u.
Proof.
  induction d as [|c d IH]; simpl; intro H; [eexists; reflexivity|].
  apply andb_true_iff in H. destruct H as [Hc Hd].
  destruct (hex_digit_some c Hc) as (f & ->). destruct (IH Hd) as (u & ->). eexists; reflexivity.
Qed.
Lemma brk_not_bf c : is_brk c = true -> one_of "bBfF" c = false.  Proof. char_cases c. Qed.
Lemma bf_not_digit c : one_of "bBfF" c = true -> is_digit c = false.  Proof. char_cases c. Qed.
Lemma x_not_bf : one_of "bBfF" "x" = false.  Proof. reflexivity. Qed.
