(* Declarative characterisation of the loop-carried dependencies (DESIGN.md C05), from the window machinery of
   Proofs/RotationGlue.v specialised to the unrotated kernel (r = 0):
     (a) lcd_paths_are_stream_cycles: the paths lcd_entries enumerates in the doubled kernel from root i are exactly the paths
         of the periodic instruction stream of the loop body from position i to position i + n;
     (b) stream_edge_is_last_report / stream_edge_exists_iff_report / stream_edge_raw: what an edge of the stream is, without the
         internals: the last report about f b of the scans of f a's destinations over f (a+1) .. f b; a register/flag report
         exists iff f b reads a destination of f a that no instruction strictly between writes;
     (c) lcd_entries_are_stream_cycles / stream_cycles_are_reported: entry level. *)
From Coq Require Import ZArith List Bool String Lia Arith Permutation.
From OV Require Import Model.Num Model.Pressure Model.Deps Proofs.DepsScan Proofs.LCD Proofs.Rotation Proofs.RotationGlue.
Import ListNotations.
Local Open Scope nat_scope.

Section StreamCycles.
  Context {T : Type} (N : NumOps T) (dep : regop -> regop -> bool).
  Variables (fwd pidx : T) (fd : bool).
  Notation line := (line (T:=T)).
  Notation SE := (stream_E N dep fwd pidx fd).

  (* ------------------------------------------------------------ (a) *)
  (* line number of stream position x (0 <= x < 2n) in the doubled renumbered kernel: x + 1 in the first copy, x - n + 1 + off
     in the second *)
  Definition line_of (k : list line) (x : nat) : nat :=
    num (List.length k) (lcd_offset (renumber k)) x.
  Definition cycle_lines (k : list line) (q : list (nat * T)) : list (nat * T) :=
    map (fun xw => (line_of k (fst xw), snd xw)) q.

  Lemma off_renumber (k : list line) : lcd_offset (renumber k) = Nat.max 1000 (List.length k + 1).
  Proof. rewrite <- rotate_0. apply K_off. Qed.

  Lemma cycle_lines_to_lines k q : cycle_lines k q = to_lines k 0 q.
  Proof.
    unfold cycle_lines, to_lines, line_of. rewrite off_renumber. apply map_ext. intros [x w]. cbn [fst snd].
    rewrite Nat.sub_0_r. reflexivity.
  Qed.

  Lemma root_no (k : list line) i : i < List.length k -> l_no (nth i (renumber k) (dline N)) = i + 1.
  Proof.
    intros Hi. unfold renumber. rewrite (renum_nth k 1 i (dline N) (dline N) Hi). cbn [setno l_no]. lia.
  Qed.

  (* THE PATHS ENUMERATED IN THE DOUBLED KERNEL ARE THE CROSS-ITERATION PATHS OF THE INSTRUCTION STREAM *)
  Theorem lcd_paths_are_stream_cycles (k : list line) (i fuel : nat) (p : list (nat * T)) :
    i < List.length k -> List.length k <= fuel ->
    (In p (lcd_paths N dep fwd pidx fd fuel (renumber k) (nth i (renumber k) (dline N))) <->
     exists q, spath T (SE (body N k)) i (i + List.length k) q /\ p = cycle_lines k q).
  Proof.
    intros Hi Hf. set (n := List.length k) in *. assert (H0 : 0 < n) by lia.
    unfold lcd_paths. rewrite root_no by exact Hi. rewrite off_renumber. fold n.
    set (off := Nat.max 1000 (n + 1)).
    assert (E1 : i + 1 = num n off i) by (symmetry; apply num_lo; exact Hi).
    assert (E2 : i + 1 + off = num n off (n + i)) by (symmetry; apply num_hi).
    rewrite <- rotate_0. split.
    - intros H. apply paths_sound in H.
      destruct (vpath_to_spath N dep fwd pidx fd k 0 H0 _ _ _ H i (n + i) ltac:(fold n; lia) ltac:(fold n; lia) E1 E2)
        as (q & Hq & Ep).
      exists q. split; [|rewrite cycle_lines_to_lines; exact Ep].
      cbn [Nat.add] in Hq. rewrite (Nat.add_comm i n). exact Hq.
    - intros (q & Hq & ->). rewrite cycle_lines_to_lines. rewrite E2, E1. apply paths_complete.
      + apply (spath_to_vpath N dep fwd pidx fd k 0 H0 i (i + n) q Hq); fold n; lia.
      + unfold to_lines. rewrite map_length. pose proof (spath_length N dep fwd pidx fd k 0 H0 _ _ _ Hq). lia.
  Qed.

  (* ------------------------------------------------------------ (b) *)
  (* the instructions strictly after position a up to and including position b *)
  Definition between (f : nat -> line) (a b : nat) : list line := map f (seq (S a) (b - a)).

  Lemma wt_last_spec (l : line) t w : forall out : list (nat * dflag),
    wt_last N fwd pidx l (flags_to t out) = Some w <->
    exists out1 fl out2, out = out1 ++ (t, fl) :: out2 /\ (forall nf, In nf out2 -> fst nf <> t) /\
                         w = edge_weight N fwd pidx l fl.
  Proof.
    induction out as [|[n fl] out IH].
    - split; [discriminate | intros (o1 & fl & o2 & E & _); destruct o1; discriminate].
    - unfold flags_to in *. cbn [filter fst]. destruct (Nat.eqb n t) eqn:En.
      + apply Nat.eqb_eq in En. subst n. cbn [map snd wt_last].
        destruct (wt_last N fwd pidx l (map snd (filter (fun nf => Nat.eqb (fst nf) t) out))) as [w0|] eqn:L.
        * rewrite IH. split.
          -- intros (o1 & f1 & o2 & E & Hn & Ew). exists ((t, fl) :: o1), f1, o2. rewrite E. repeat split; assumption.
          -- intros (o1 & f1 & o2 & E & Hn & Ew). destruct o1 as [|x o1].
             ++ exfalso. inversion E; subst. clear -L Hn.
                induction o2 as [|[n f] o2 IHo]; [discriminate|]. cbn [filter fst] in L.
                destruct (Nat.eqb n t) eqn:En; [apply Nat.eqb_eq in En; apply (Hn (n, f)); [left; reflexivity | exact En]|].
                apply IHo; [exact L | intros nf H; apply Hn; right; exact H].
             ++ inversion E; subst. exists o1, f1, o2. repeat split; assumption.
        * split.
          -- intros Ew. inversion Ew. exists [], fl, out. split; [reflexivity|]. split; [|reflexivity].
             intros nf Hin Et. clear -L Hin Et.
             induction out as [|[n f] out IHo]; [contradiction|]. cbn [filter fst] in L.
             destruct (Nat.eqb n t) eqn:En.
             ++ cbn [map wt_last] in L. destruct (wt_last N fwd pidx l _); discriminate.
             ++ destruct Hin as [<-|Hin]; [cbn [fst] in Et; apply Nat.eqb_neq in En; contradiction | exact (IHo L Hin)].
          -- intros (o1 & f1 & o2 & E & Hn & Ew). destruct o1 as [|x o1]; [inversion E; subst; reflexivity|].
             exfalso. inversion E; subst.
             assert (C : @None T = Some (edge_weight N fwd pidx l f1)) by (apply IH; exists o1, f1, o2; repeat split; assumption).
             discriminate.
      + apply Nat.eqb_neq in En. rewrite IH. split.
        * intros (o1 & f1 & o2 & E & Hn & Ew). exists ((n, fl) :: o1), f1, o2. rewrite E. repeat split; assumption.
        * intros (o1 & f1 & o2 & E & Hn & Ew). destruct o1 as [|x o1]; [inversion E; subst; contradiction|].
          inversion E; subst. exists o1, f1, o2. repeat split; assumption.
  Qed.

  (* AN EDGE OF THE STREAM, UNFOLDED: a < b, and w is the weight (edge_weight of the source for the report's kind) of the LAST
     report about f b -- numbered b - a when f (a+1) .. f b are numbered 1 .. b - a -- among the reports of the scans of f a's
     destinations over f (a+1) .. f b *)
  Theorem stream_edge_is_last_report (f : nat -> line) a b w :
    SE f a b = Some w <->
    a < b /\ exists out1 fl out2,
      find_depending dep fd (f a) (renum_from 1 (between f a b)) = out1 ++ (b - a, fl) :: out2 /\
      (forall nf, In nf out2 -> fst nf <> b - a) /\ w = edge_weight N fwd pidx (f a) fl.
  Proof.
    unfold stream_E. destruct (Nat.ltb_spec a b) as [Lt|Ge].
    - unfold pe. fold (between f a b). replace (List.length (between f a b)) with (b - a)
        by (unfold between; rewrite map_length, seq_length; reflexivity).
      rewrite wt_last_spec. split; [intros H; split; [exact Lt | exact H] | intros (_ & H); exact H].
    - split; [discriminate | intros (Lt & _); lia].
  Qed.

  Theorem stream_edge_exists_iff_report (f : nat -> line) a b :
    (exists w, SE f a b = Some w) <->
    a < b /\ exists fl, In (b - a, fl) (find_depending dep fd (f a) (renum_from 1 (between f a b))).
  Proof.
    split.
    - intros (w & H). apply stream_edge_is_last_report in H. destruct H as (Lt & o1 & fl & o2 & E & _ & _).
      split; [exact Lt|]. exists fl. rewrite E. apply in_or_app. right. left. reflexivity.
    - intros (Lt & fl & Hin).
      destruct (SE f a b) as [w|] eqn:Ew; [exists w; reflexivity|]. exfalso.
      unfold stream_E in Ew. destruct (Nat.ltb_spec a b) as [_|Ge]; [|lia]. unfold pe in Ew. fold (between f a b) in Ew.
      replace (List.length (between f a b)) with (b - a) in Ew
        by (unfold between; rewrite map_length, seq_length; reflexivity).
      revert Hin Ew. generalize (find_depending dep fd (f a) (renum_from 1 (between f a b))). intros out Hin Ew.
      induction out as [|[n f0] out IH]; [contradiction|]. unfold flags_to in Ew, IH. cbn [filter fst] in Ew.
      destruct (Nat.eqb n (b - a)) eqn:En.
      + cbn [map wt_last] in Ew. destruct (wt_last N fwd pidx (f a) _); discriminate.
      + destruct Hin as [E|Hin]; [inversion E; subst; rewrite Nat.eqb_refl in En; discriminate | exact (IH Hin Ew)].
  Qed.

  Lemma renum_app : forall (x y : list line) s, renum_from s (x ++ y) = renum_from s x ++ renum_from (s + List.length x) y.
  Proof.
    induction x as [|l x IH]; intros y s; cbn [app renum_from List.length]; [rewrite Nat.add_0_r; reflexivity|].
    rewrite IH. replace (s + S (List.length x)) with (S s + List.length x) by lia. reflexivity.
  Qed.

  Lemma app_inj_len {A : Type} : forall (x x' y y' : list A), List.length x = List.length x' -> x ++ y = x' ++ y' -> x = x' /\ y = y'.
  Proof.
    induction x as [|a x IH]; intros [|a' x'] y y' L E; try discriminate; [split; [reflexivity | exact E]|].
    cbn in L, E. inversion E; subst. destruct (IH x' y y' ltac:(lia) H1) as (-> & ->). split; reflexivity.
  Qed.

  (* REGISTER / FLAG EDGES OF THE STREAM = READ AFTER WRITE WITH NO WRITER IN BETWEEN *)
  Theorem stream_edge_raw (f : nat -> line) a b : a < b ->
    ((exists fl, In (b - a, fl) (find_depending dep fd (f a) (renum_from 1 (between f a b))) /\ fl <> FStoreLoad) <->
     (exists d, In d (dsts (f a)) /\ is_regflag fd d /\ is_read dep d (f b) = true /\
                forall c, a < c < b -> is_written dep d (f c) = false)).
  Proof.
    intros Lt. rewrite raw_iff_edge.
    set (m := b - a - 1). set (seg0 := map f (seq (S a) m)).
    assert (Eseg : between f a b = seg0 ++ [f b]).
    { unfold between, seg0. replace (b - a) with (S m) by (unfold m; lia). rewrite seq_S, map_app. cbn [map].
      replace (S a + m) with b by (unfold m; lia). reflexivity. }
    assert (Lm : List.length seg0 = m) by (unfold seg0; rewrite map_length, seq_length; reflexivity).
    assert (Er : renum_from 1 (between f a b) = renum_from 1 seg0 ++ [setno (b - a) (f b)]).
    { rewrite Eseg, renum_app, Lm. cbn [renum_from]. replace (1 + m) with (b - a) by (unfold m; lia). reflexivity. }
    assert (El : forall c, a < c < b -> In (setno (c - a) (f c)) (renum_from 1 seg0)).
    { intros c Hc. replace (setno (c - a) (f c)) with (nth (c - a - 1) (renum_from 1 seg0) (dline N)).
      - apply nth_In. rewrite renum_length, Lm. unfold m. lia.
      - rewrite (renum_nth seg0 1 (c - a - 1) (f 0) (dline N)) by (rewrite Lm; unfold m; lia).
        replace (1 + (c - a - 1)) with (c - a) by lia. f_equal. unfold seg0. rewrite map_nth, seq_nth by (unfold m; lia).
        f_equal. lia. }
    assert (Ein : forall x, In x (renum_from 1 seg0) -> exists c, a < c < b /\ x = setno (c - a) (f c)).
    { intros x Hx. destruct (In_nth _ _ (dline N) Hx) as (j & Hj & <-). rewrite renum_length, Lm in Hj.
      exists (S a + j). split; [unfold m in Hj; lia|].
      rewrite (renum_nth seg0 1 j (f 0) (dline N)) by (rewrite Lm; exact Hj).
      replace (S a + j - a) with (1 + j) by lia. f_equal. unfold seg0. rewrite map_nth, seq_nth by exact Hj. reflexivity. }
    split.
    - intros (d & B & Hd & Hk & (pre & post & Esp & Fa) & Eno & Rd). exists d. split; [exact Hd|]. split; [exact Hk|].
      rewrite Er in Esp.
      assert (Lp : List.length pre = m).
      { assert (ND : NoDup (map l_no (renum_from 1 seg0 ++ [setno (b - a) (f b)]))).
        { rewrite <- Er, renum_labels. apply seq_NoDup. }
        assert (LL : List.length (renum_from 1 seg0 ++ [setno (b - a) (f b)]) = S m)
          by (rewrite app_length, renum_length, Lm; cbn; lia).
        apply (label_inj N _ (List.length pre) m ND).
        - rewrite LL. rewrite Esp in LL. rewrite app_length in LL. cbn [List.length] in LL. lia.
        - rewrite LL. lia.
        - rewrite Esp at 1. rewrite nth_middle. rewrite <- (renum_length seg0 1) in Lm. rewrite <- Lm at 1.
          rewrite nth_middle. cbn [setno l_no]. exact Eno. }
      destruct (app_inj_len (renum_from 1 seg0) pre [setno (b - a) (f b)] (B :: post)
                  ltac:(rewrite renum_length, Lm, Lp; reflexivity) Esp) as (Epre & Etl).
      inversion Etl; subst B post. split; [exact Rd|].
      intros c Hc. rewrite <- Epre in Fa. rewrite Forall_forall in Fa. exact (Fa _ (El c Hc)).
    - intros (d & Hd & Hk & Rd & Nw). exists d, (setno (b - a) (f b)). split; [exact Hd|]. split; [exact Hk|].
      split; [|split; [reflexivity | exact Rd]].
      exists (renum_from 1 seg0), []. split; [exact Er|]. apply Forall_forall. intros x Hx.
      destruct (Ein x Hx) as (c & Hc & ->). exact (Nw c Hc).
  Qed.

  (* ------------------------------------------------------------ (c) entries *)
  Lemma back_line_of (k : list line) x : 0 < List.length k -> x < 2 * List.length k ->
    back (lcd_offset (renumber k)) (line_of k x) = x mod List.length k + 1.
  Proof.
    intros H0 Hx. unfold line_of, num, back. rewrite off_renumber. set (n := List.length k) in *.
    destruct (Nat.ltb_spec x n) as [Lt|Ge].
    - rewrite Nat.mod_small by exact Lt. destruct (Nat.leb_spec (Nat.max 1000 (n + 1)) (x + 1)); lia.
    - rewrite <- (Nat.mod_unique x n 1 (x - n)) by lia.
      destruct (Nat.leb_spec (Nat.max 1000 (n + 1)) (x - n + 1 + Nat.max 1000 (n + 1))); lia.
  Qed.

  (* the reported entry of a stream cycle q from position i to i + n: members = the instructions (line number = position mod n + 1)
     with the weight of the edge leaving them, sorted; latency = the sum of the members' weights, added left to right from 0 in the
     order of that SORTED list (sum_pairs) -- not in the order of q, so it does not depend on the position i the cycle is entered at *)
  Definition cycle_members_of (k : list line) (q : list (nat * T)) : list (nat * T) :=
    sort_pairs N (map (fun xw => (fst xw mod List.length k + 1, snd xw)) q).
  Definition cycle_entry (k : list line) (q : list (nat * T)) : entry (T:=T) :=
    (sum_pairs N (cycle_members_of k q), cycle_members_of k q).

  Lemma entry_of_cycle (k : list line) i q : i < List.length k -> spath T (SE (body N k)) i (i + List.length k) q ->
    entry_of N (lcd_offset (renumber k)) (cycle_lines k q) = cycle_entry k q.
  Proof.
    intros Hi Hq. assert (H0 : 0 < List.length k) by lia.
    pose proof (proj2 (spath_range T (List.length k) (SE (body N k)) H0 (E_forward N dep fwd pidx fd k) _ _ _ Hq)) as Rg.
    unfold entry_of, cycle_entry, cycle_members_of, cycle_lines. cbv zeta.
    assert (E : map (fun sw => (back (lcd_offset (renumber k)) (fst sw), snd sw)) (map (fun xw => (line_of k (fst xw), snd xw)) q)
                = map (fun xw => (fst xw mod List.length k + 1, snd xw)) q).
    { rewrite map_map. apply map_ext_in. intros [x w] Hin. cbn [fst snd]. f_equal.
      apply back_line_of; [exact H0|]. specialize (Rg _ _ Hin). lia. }
    rewrite E. reflexivity.
  Qed.

  (* every reported loop-carried dependency is the entry of a cross-iteration cycle of the instruction stream ... *)
  Theorem lcd_entries_are_stream_cycles (k : list line) e :
    In e (lcd_entries N dep fwd pidx fd (renumber k)) ->
    exists i q, i < List.length k /\ spath T (SE (body N k)) i (i + List.length k) q /\ e = cycle_entry k q.
  Proof.
    intros He. rewrite lcd_entries_raw in He. apply dedup_subset in He. unfold lcd_raw in He.
    apply in_flat_map in He. destruct He as (l & Hl & He). apply in_map_iff in He. destruct He as (p & <- & Hp).
    destruct (In_nth _ _ (dline N) Hl) as (i & Hi & <-). rewrite renumber_length in Hi, Hp.
    apply (lcd_paths_are_stream_cycles k i (2 * List.length k + 2) p Hi ltac:(lia)) in Hp. destruct Hp as (q & Hq & ->).
    exists i, q. split; [exact Hi|]. split; [exact Hq|]. apply (entry_of_cycle k i q Hi Hq).
  Qed.

  (* ... and every such cycle is represented: a reported entry has the same sorted (line, latency) list, in the model's own
     comparison pairs_eqb (numeric == reflexive) *)
  Theorem stream_cycles_are_reported (k : list line) i q : (forall a, neqb N a a = true) ->
    i < List.length k -> spath T (SE (body N k)) i (i + List.length k) q ->
    exists e, In e (lcd_entries N dep fwd pidx fd (renumber k)) /\ pairs_eqb N (snd (cycle_entry k q)) (snd e) = true.
  Proof.
    intros R Hi Hq. rewrite lcd_entries_raw.
    assert (Hraw : In (cycle_entry k q) (lcd_raw N dep fwd pidx fd (renumber k))).
    { rewrite <- (entry_of_cycle k i q Hi Hq). unfold lcd_raw. apply in_flat_map.
      exists (nth i (renumber k) (dline N)). split; [apply nth_In; rewrite renumber_length; exact Hi|].
      apply in_map. rewrite renumber_length. apply (lcd_paths_are_stream_cycles k i (2 * List.length k + 2) _ Hi ltac:(lia)).
      exists q. split; [exact Hq | reflexivity]. }
    destruct (dedup_covers (pairs_eqb N) (pairs_eqb_refl N R) _ [] _ Hraw) as [A|(e & A & B)]; [discriminate|].
    exists e. split; assumption.
  Qed.
End StreamCycles.

(* ---------------------------------------------------------------- non-vacuity on RotationGlue.ex_kernel (a <- f(c); b <- f(a); c <- f(b)) *)
From Coq Require Import QArith.
Local Open Scope nat_scope.
Section Example.
  Let depx (a b : regop) : bool := String.eqb (r_name a) (r_name b).

  (* the stream has the edges 0 -> 1 -> 2 -> 3 (= instruction 0 of the next iteration) with weights 1, 2, 3 and no edge 0 -> 2 *)
  Example ex_stream_edges :
    stream_E QNum depx 0%Q 0%Q true (body QNum ex_kernel) 0 1 = Some 1%Q /\
    stream_E QNum depx 0%Q 0%Q true (body QNum ex_kernel) 1 2 = Some 2%Q /\
    stream_E QNum depx 0%Q 0%Q true (body QNum ex_kernel) 2 3 = Some 3%Q /\
    stream_E QNum depx 0%Q 0%Q true (body QNum ex_kernel) 0 2 = None.
  Proof. vm_compute. repeat split; reflexivity. Qed.

  Example ex_stream_cycle :
    spath Q (stream_E QNum depx 0%Q 0%Q true (body QNum ex_kernel)) 0 (0 + List.length ex_kernel) [(0, 1%Q); (1, 2%Q); (2, 3%Q)] /\
    cycle_lines ex_kernel [(0, 1%Q); (1, 2%Q); (2, 3%Q)] = [(1, 1%Q); (2, 2%Q); (3, 3%Q)] /\
    cycle_entry QNum ex_kernel [(0, 1%Q); (1, 2%Q); (2, 3%Q)] = (6%Q, [(1, 1%Q); (2, 2%Q); (3, 3%Q)]).
  Proof.
    split; [|split; vm_compute; reflexivity].
    change (0 + List.length ex_kernel) with 3.
    apply (sp_step Q _ 0 1 3 1%Q); [vm_compute; reflexivity | lia |].
    apply (sp_step Q _ 1 2 3 2%Q); [vm_compute; reflexivity | lia |].
    apply sp_last. vm_compute. reflexivity.
  Qed.

  (* hence, by lcd_paths_are_stream_cycles, the enumerated path -- which is what vm_compute finds *)
  Example ex_cycle_is_enumerated :
    In [(1, 1%Q); (2, 2%Q); (3, 3%Q)]
       (lcd_paths QNum depx 0%Q 0%Q true 8 (renumber ex_kernel) (nth 0 (renumber ex_kernel) (dline QNum))).
  Proof.
    apply (lcd_paths_are_stream_cycles QNum depx 0%Q 0%Q true ex_kernel 0 8); [cbn; lia | cbn; lia|].
    exists [(0, 1%Q); (1, 2%Q); (2, 3%Q)]. split; [apply ex_stream_cycle | vm_compute; reflexivity].
  Qed.
End Example.
