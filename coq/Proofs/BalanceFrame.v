(* Support preservation of the balancer, for ANY numeric instance (so also for binary64) and any
   number of passes: balancing a micro-op writes only to pressure cells of ports that the
   micro-op may use; all other cells -- in particular ports that no micro-op of the instruction
   may use -- keep their value, and the vector keeps its length. *)
From Coq Require Import List Arith Lia String ZArith.
From OV Require Import Model.Num Model.Pressure Proofs.ListSpec.
Import ListNotations.

Section Frame.
  Context {T : Type} (N : NumOps T) (d : T).

  Lemma filter_res_incl (f : nat -> res bool) : forall l l', filter_res f l = Ok l' -> incl l' l.
  Proof.
    induction l as [|p l IH]; intros l' H; simpl in H.
    - inversion H; subst. apply incl_refl.
    - destruct (f p) as [b|] eqn:Fp; cbn [bind] in H; [|discriminate].
      destruct (filter_res f l) as [r|] eqn:E; cbn [bind] in H; [|discriminate].
      inversion H; subst. specialize (IH _ eq_refl).
      destruct b; intros y Hy.
      + destruct Hy as [Hy|Hy]; [left; exact Hy | right; apply IH; exact Hy].
      + right. apply IH. exact Hy.
  Qed.

  Definition same_outside (ind : list nat) (pp pp' : list T) : Prop :=
    List.length pp' = List.length pp /\ forall j, ~ In j ind -> nth j pp' d = nth j pp d.

  Lemma same_outside_refl ind pp : same_outside ind pp pp.
  Proof. split; auto. Qed.

  Lemma same_outside_trans ind a b c : same_outside ind a b -> same_outside ind b c -> same_outside ind a c.
  Proof. intros (L1 & O1) (L2 & O2). split; [congruence|]. intros j Hj. rewrite O2, O1; auto. Qed.

  Lemma same_outside_mono ind ind' a b : incl ind' ind -> same_outside ind' a b -> same_outside ind a b.
  Proof. intros I (L & O). split; [exact L|]. intros j Hj. apply O. intros C. apply Hj, I, C. Qed.

  Lemma rule1_frame ps mn pp1 ind ip2 df2 pp' ind' ip' df' ex :
    rule1 N ps mn pp1 ind ip2 df2 = Ok (pp', ind', ip', df', ex) ->
    incl ind' ind /\ same_outside ind pp1 pp'.
  Proof.
    unfold rule1. intros H.
    destruct (list_min N ip2) as [m|] eqn:E0; cbn [bind] in H; [|discriminate].
    destruct (nleb N (nround2 N m) (zero N)).
    2:{ inversion H; subst. split; [apply incl_refl | apply same_outside_refl]. }
    destruct (negb (neqb N m (zero N))).
    - destruct (index_of N ps mn) as [mini|]; cbn [bind] in H; [|discriminate].
      destruct (add_at N ip2 mini m) as [ipa|]; cbn [bind] in H; [|discriminate].
      destruct (list_min N ipa) as [m2|]; cbn [bind] in H; [|discriminate].
      destruct (add_at N df2 mini m2) as [dfa|]; cbn [bind] in H; [|discriminate].
      destruct (index_of N ipa m2) as [kk|]; cbn [bind] in H; [|discriminate].
      destruct (del_nth dfa kk) as [dfb|]; cbn [bind] in H; [|discriminate].
      destruct (setmany pp1 ind ipa) as [ppa|] eqn:SM; cbn [bind] in H; [|discriminate].
      destruct (filter_res _ ind) as [zs|] eqn:FZ in H; cbn [bind] in H; [|discriminate].
      destruct zs as [|zi zs]; [discriminate|].
      destruct (set_nth ppa zi (zero N)) as [ppb|] eqn:SZ; cbn [bind] in H; [|discriminate].
      destruct (filter_res _ ind) as [ind2|] eqn:F2 in H; cbn [bind] in H; [|discriminate].
      destruct (getmany ppb ind2) as [ip2'|]; cbn [bind] in H; [|discriminate].
      inversion H; subst. split; [eapply filter_res_incl; eassumption|].
      eapply same_outside_trans.
      + destruct (setmany_frame d _ _ _ _ SM) as (L & O). split; eassumption.
      + destruct (set_nth_ok _ _ _ _ d SZ) as (L & _ & O). split; [exact L|].
        intros j Hj. apply O. intros C. subst j. apply Hj.
        eapply (filter_res_incl _ _ _ FZ). left. reflexivity.
    - destruct (zipfilter_res _ ind df2) as [dfz|]; cbn [bind] in H; [|discriminate].
      destruct (filter_res _ ind) as [ind2|] eqn:F2 in H; cbn [bind] in H; [|discriminate].
      destruct (getmany pp1 ind2) as [ip2'|]; cbn [bind] in H; [|discriminate].
      inversion H; subst. split; [eapply filter_res_incl; eassumption | apply same_outside_refl].
  Qed.

  Lemma rule2_frame pp2 ind2 ip3 df3 ind3 ip4 df4 :
    rule2 N pp2 ind2 ip3 df3 = Ok (ind3, ip4, df4) -> incl ind3 ind2.
  Proof.
    unfold rule2. intros H.
    destruct (list_min N df3) as [md|]; cbn [bind] in H; [|discriminate].
    destruct (nleb N (nround2 N md) (zero N)).
    2:{ inversion H; subst. apply incl_refl. }
    destruct (index_of N df3 md) as [kd|]; cbn [bind] in H; [|discriminate].
    destruct (del_nth ind2 kd) as [i'|] eqn:D; cbn [bind] in H; [|discriminate].
    destruct (getmany pp2 i') as [ip'|]; cbn [bind] in H; [|discriminate].
    destruct (del_nth df3 kd) as [df'|]; cbn [bind] in H; [|discriminate].
    inversion H; subst. eapply del_nth_incl; eassumption.
  Qed.

  Lemma bstep_frame k idx s s' :
    bstep N k idx s = Ok s' ->
    incl (b_ind s') (b_ind s) /\ same_outside (b_ind s) (b_pp s) (b_pp s').
  Proof.
    unfold bstep. intros H.
    destruct (list_max N (b_ps s)) as [mx|]; cbn [bind] in H; [|discriminate].
    destruct (index_of N (b_ps s) mx) as [maxi|]; cbn [bind] in H; [|discriminate].
    destruct (list_min N (b_ps s)) as [mn|]; cbn [bind] in H; [|discriminate].
    destruct (index_of N (b_ps s) mn) as [mini|]; cbn [bind] in H; [|discriminate].
    destruct (sub_at N (b_ip s) maxi (INC N)) as [ip1|]; cbn [bind] in H; [|discriminate].
    destruct (add_at N ip1 mini (INC N)) as [ip2|]; cbn [bind] in H; [|discriminate].
    destruct (sub_at N (b_df s) maxi (INC N)) as [df1|]; cbn [bind] in H; [|discriminate].
    destruct (add_at N df1 mini (INC N)) as [df2|]; cbn [bind] in H; [|discriminate].
    destruct (setmany (b_pp s) (b_ind s) ip2) as [pp1|] eqn:SM; cbn [bind] in H; [|discriminate].
    destruct (rule1 N (b_ps s) mn pp1 (b_ind s) ip2 df2) as [[[[[pp2 ind2] ip3] df3] ex]|] eqn:R1;
      cbn [bind] in H; [|discriminate].
    destruct (rule2 N pp2 ind2 ip3 df3) as [[[ind3 ip4] df4]|] eqn:R2; cbn [bind] in H; [|discriminate].
    destruct (getmany _ ind3) as [ps'|]; cbn [bind] in H; [|discriminate].
    inversion H; subst. cbn [b_ind b_pp].
    destruct (rule1_frame _ _ _ _ _ _ _ _ _ _ _ R1) as (I1 & S1).
    pose proof (rule2_frame _ _ _ _ _ _ _ R2) as I2.
    split; [eapply incl_tran; eassumption|].
    eapply same_outside_trans; [|exact S1].
    destruct (setmany_frame d _ _ _ _ SM) as (L & O). split; assumption.
  Qed.

  Lemma bloop_frame k idx : forall n s s',
    bloop N n k idx s = Ok s' ->
    incl (b_ind s') (b_ind s) /\ same_outside (b_ind s) (b_pp s) (b_pp s').
  Proof.
    induction n as [|n IH]; intros s s' H; simpl in H.
    - inversion H; subst. split; [apply incl_refl | apply same_outside_refl].
    - assert (G : (bstep N k idx s = Ok s' \/ exists s1, bstep N k idx s = Ok s1 /\ bloop N n k idx s1 = Ok s') \/ s' = s).
      { destruct (b_ip s) as [|x [|y r]].
        - destruct (bstep N k idx s) as [s1|] eqn:B; cbn [bind] in H; [|discriminate]. left. right. eauto.
        - right. inversion H. reflexivity.
        - destruct (bstep N k idx s) as [s1|] eqn:B; cbn [bind] in H; [|discriminate]. left. right. eauto. }
      destruct G as [[B|(s1 & B & L)]|E].
      + eapply bstep_frame; exact B.
      + destruct (bstep_frame _ _ _ _ B) as (I1 & S1). destruct (IH _ _ L) as (I2 & S2).
        split; [eapply incl_tran; eassumption|].
        eapply same_outside_trans; [exact S1|]. eapply same_outside_mono; eassumption.
      + subst. split; [apply incl_refl | apply same_outside_refl].
  Qed.

  (* ---- one micro-op ---- *)
  Theorem balance_uop_frame ports k idx pp c ps pp' e ind :
    balance_uop N ports k idx pp (c, ps) = Ok (pp', e) ->
    indices_of ports ps = Ok ind ->
    same_outside ind pp pp'.
  Proof.
    unfold balance_uop. intros H I. rewrite I in H. cbn [bind] in H.
    destruct (getmany _ ind) as [psums|] in H; cbn [bind] in H; [|discriminate].
    destruct (getmany pp ind) as [ip|]; cbn [bind] in H; [|discriminate].
    destruct (all_equal N psums).
    - inversion H; subst. apply same_outside_refl.
    - destruct (bloop N _ k idx _) as [s|] eqn:B; cbn [bind] in H; [|discriminate].
      inversion H; subst. destruct (bloop_frame _ _ _ _ _ B) as (_ & S). exact S.
  Qed.

  (* ---- all micro-ops of one instruction ---- *)
  Definition allowed (ports : list string) (us : list (uop (T:=T))) (j : nat) : Prop :=
    exists c ps ind, In (c, ps) us /\ indices_of ports ps = Ok ind /\ In j ind.

  Theorem balance_uops_frame ports idx : forall us k pp ex pp' e,
    balance_uops N ports k idx pp us ex = Ok (pp', e) ->
    List.length pp' = List.length pp /\
    forall j, ~ allowed ports us j -> nth j pp' d = nth j pp d.
  Proof.
    induction us as [|[c ps] us IH]; intros k pp ex pp' e H.
    - simpl in H. inversion H; subst. auto.
    - cbn [balance_uops] in H. destruct (balance_uop N ports k idx pp (c, ps)) as [[pp1 e1]|] eqn:B; cbn [bind] in H; [|discriminate].
      destruct (IH _ _ _ _ _ H) as (L2 & O2).
      assert (exists ind, indices_of ports ps = Ok ind) as (ind & I).
      { unfold balance_uop in B. destruct (indices_of ports ps); [eauto | discriminate]. }
      destruct (balance_uop_frame _ _ _ _ _ _ _ _ _ B I) as (L1 & O1).
      split; [congruence|]. intros j Hj.
      rewrite O2, O1; auto.
      + intros C. apply Hj. exists c, ps, ind. repeat split; auto. left. reflexivity.
      + intros (c' & ps' & ind' & Hin & Hi & Hj'). apply Hj. exists c', ps', ind'. repeat split; auto. right. exact Hin.
  Qed.
End Frame.
