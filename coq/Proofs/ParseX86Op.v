(* C09 -- token-level lemmas: each operand kind, rendered with any layout, is parsed back. *)
From Coq Require Import String Ascii List Bool NArith ZArith Lia.
From OV Require Import Model.ParseX86 Model.SubLangX86 Proofs.ParseX86Lex.
Import ListNotations.
Local Open Scope char_scope.
Local Arguments L : simpl never.
Local Arguments S_ : simpl never.

Ltac norm := repeat first [rewrite <- app_assoc | rewrite <- app_comm_cons].
Tactic Notation "norm" "in" hyp(H) := repeat first [rewrite <- app_assoc in H | rewrite <- app_comm_cons in H].

Lemma skipL w r : blanks w = true -> stops is_ws r -> skip (L w ++ r) = r.
Proof. intros. apply skip_app; assumption. Qed.

Lemma brk_head_L w r : blanks w = true -> brk_head r -> brk_head (L w ++ r).
Proof. intros. apply brk_head_ws_app; assumption. Qed.

(* ---------------------------------------------------------------- registers *)
Lemma parse_reg_render n r : valid_reg n = true -> brk_head r ->
  parse_reg ("%" :: L n ++ r) = Some (n, r).
Proof.
  intros Hn Hr. unfold parse_reg. simpl hd_eqb. simpl tl. unfold valid_reg in Hn.
  destruct (L n) as [|c t] eqn:E; [discriminate|].
  rewrite span_app by (auto using brk_stops_alnum).
  rewrite <- E. rewrite S_L. reflexivity.
Qed.

Lemma parse_reg_render_stops n r : valid_reg n = true -> stops is_alnum r ->
  parse_reg ("%" :: L n ++ r) = Some (n, r).
Proof.
  intros Hn Hr. unfold parse_reg. simpl hd_eqb. simpl tl. unfold valid_reg in Hn.
  destruct (L n) as [|c t] eqn:E; [discriminate|].
  rewrite span_app by assumption.
  rewrite <- E. rewrite S_L. reflexivity.
Qed.

(* ---------------------------------------------------------------- identifiers *)
Lemma parse_ident_render n r : valid_ident n = true -> brk_head r ->
  parse_ident (L n ++ r) = Some (n, r).
Proof.
  intros Hn Hr. unfold parse_ident. unfold valid_ident in Hn.
  destruct (L n) as [|c t] eqn:E; [discriminate|].
  apply andb_true_iff in Hn. destruct Hn as [Hc Ht].
  rewrite <- app_comm_cons. cbv iota beta. rewrite Hc. rewrite span_app by (auto using brk_stops_idrest).
  rewrite <- E. rewrite S_L. reflexivity.
Qed.

Lemma parse_ident_render_stops n r : valid_ident n = true -> stops is_idrest r ->
  parse_ident (L n ++ r) = Some (n, r).
Proof.
  intros Hn Hr. unfold parse_ident. unfold valid_ident in Hn.
  destruct (L n) as [|c t] eqn:E; [discriminate|].
  apply andb_true_iff in Hn. destruct Hn as [Hc Ht].
  rewrite <- app_comm_cons. cbv iota beta. rewrite Hc. rewrite span_app by assumption.
  rewrite <- E. rewrite S_L. reflexivity.
Qed.

Lemma ident_head n : valid_ident n = true -> exists c t, L n = c :: t /\ is_idfirst c = true.
Proof.
  unfold valid_ident. destruct (L n) as [|c t]; [discriminate|].
  intro H. apply andb_true_iff in H. exists c, t. tauto.
Qed.

(* ---------------------------------------------------------------- parenthesised part *)
Lemma scale_cases sc : valid_scale sc = true -> sc = 1%Z \/ sc = 2%Z \/ sc = 4%Z \/ sc = 8%Z.
Proof.
  unfold valid_scale. intro H.
  repeat (apply orb_true_iff in H; destruct H as [H|H]); apply Z.eqb_eq in H; auto.
Qed.

Lemma scale_digits sc w r : valid_scale sc = true -> blanks w = true ->
  span is_digit (render_scale sc ++ L w ++ ")" :: r) = (render_scale sc, L w ++ ")" :: r)
  /\ scale_of (render_scale sc) = Some sc /\ render_scale sc <> [] /\ stops is_ws (render_scale sc ++ L w ++ ")" :: r).
Proof.
  intros H Hw.
  assert (stops is_digit (L w ++ ")" :: r)) as Hs.
  { apply brk_stops_digit. apply brk_head_L; [assumption|reflexivity]. }
  destruct (scale_cases sc H) as [E|[E|[E|E]]]; subst sc;
    (split; [apply span_app; [reflexivity|assumption]|]); (split; [reflexivity|]); (split; [discriminate|reflexivity]).
Qed.

Lemma parse_paren_render lo b i sc r :
  valid_oplay lo = true -> opt_reg b = true -> opt_reg i = true -> valid_scale sc = true ->
  (i = None -> sc = 1%Z) -> (b = None -> i = None -> False) ->
  parse_paren (render_paren lo b i sc ++ r) = Some (b, i, Some sc, r).
Proof.
  intros Hlo Hb Hi Hsc Hsc1 Hbi.
  unfold valid_oplay in Hlo. repeat rewrite andb_true_iff in Hlo.
  destruct Hlo as (Hwd & Hwlp & Hwb & Hwc1 & Hwi & Hwc2 & Hws & _).
  unfold parse_paren, render_paren. simpl hd_eqb. simpl tl.
  (* the index part, shared by both base cases *)
  assert (Hidx : forall bb ri, i = Some ri ->
            paren_after_base bb
              ((("," :: L (w_c1 lo) ++ "%" :: L ri ++ L (w_i lo) ++
                 (if andb (Z.eqb sc 1) (lo_omit1 lo) then [] else "," :: L (w_c2 lo) ++ render_scale sc ++ L (w_s lo)))
                ++ [")"]) ++ r)
            = Some (bb, Some ri, Some sc, r)).
  { intros bb ri Ei. subst i. simpl in Hi.
    unfold paren_after_base. simpl hd_eqb. simpl tl.
    norm.
    rewrite skipL by (assumption || reflexivity).
    norm.
    destruct (andb (Z.eqb sc 1) (lo_omit1 lo)) eqn:Eo.
    - norm. rewrite parse_reg_render by (assumption || (apply brk_head_L; [assumption|reflexivity])).
      rewrite skipL by (assumption || reflexivity). simpl.
      apply andb_true_iff in Eo. destruct Eo as [Eo _]. apply Z.eqb_eq in Eo. subst sc. reflexivity.
    - norm.
      rewrite parse_reg_render by (assumption || (apply brk_head_L; [assumption|reflexivity])).
      rewrite skipL by (assumption || reflexivity). simpl hd_eqb. simpl tl.
      destruct (scale_digits sc (w_s lo) r Hsc Hws) as (Hspan & Hof & Hne & Hst).
      remember (render_scale sc) as rs eqn:Er in *.
      destruct rs as [|x xs]; [contradiction|].
      rewrite skipL by assumption. rewrite Hspan.
      rewrite skipL by (assumption || reflexivity). simpl hd_eqb. simpl tl. cbv iota beta. rewrite Hof. reflexivity. }
  destruct b as [rb|]; simpl in Hb.
  - (* base present *)
    norm.
    rewrite skipL by (assumption || reflexivity). simpl hd_eqb.
    destruct i as [ri|].
    + norm. rewrite parse_reg_render.
      * rewrite skipL by (assumption || reflexivity).
        specialize (Hidx (Some rb) ri eq_refl). norm in Hidx.
        norm. exact Hidx.
      * assumption.
      * apply brk_head_L; [assumption|reflexivity].
    + norm. rewrite parse_reg_render by (assumption || (apply brk_head_L; [assumption|reflexivity])).
      rewrite skipL by (assumption || reflexivity).
      unfold paren_after_base. simpl. rewrite Hsc1 by reflexivity. reflexivity.
  - destruct i as [ri|]; [|exfalso; apply Hbi; reflexivity].
    specialize (Hidx None ri eq_refl).
    norm.
    rewrite skipL by (assumption || reflexivity). simpl hd_eqb.
    norm in Hidx. exact Hidx.
Qed.

(* ---------------------------------------------------------------- what follows an operand *)
Definition sep_start (r : chars) : Prop :=
  match r with [] => True | c :: _ => c = "," \/ c = "#" \/ c = "/" end.
Definition after_op (r : chars) : Prop :=
  exists w r', r = w ++ r' /\ forallb is_ws w = true /\ sep_start r'.

Lemma sep_start_brk r : sep_start r -> brk_head r.
Proof. destruct r; simpl; [auto|]. intros [H|[H|H]]; subst; reflexivity. Qed.
Lemma sep_start_stops_ws r : sep_start r -> stops is_ws r.
Proof. destruct r; simpl; [auto|]. intros [H|[H|H]]; subst; reflexivity. Qed.
Lemma after_op_brk r : after_op r -> brk_head r.
Proof. intros (w & r' & -> & Hw & Hs). apply brk_head_ws_app; auto using sep_start_brk. Qed.
Lemma after_op_skip r : after_op r -> sep_start (skip r).
Proof. intros (w & r' & -> & Hw & Hs). rewrite skip_app; auto using sep_start_stops_ws. Qed.
Lemma after_op_not_lp r : after_op r -> hd_eqb "(" (skip r) = false.
Proof.
  intro H. apply after_op_skip in H. destruct (skip r); simpl in *; [reflexivity|].
  destruct H as [H|[H|H]]; subst; reflexivity.
Qed.
Lemma after_op_delim r : after_op r -> delim r = true.
Proof.
  intros (w & r' & -> & Hw & Hs). destruct w as [|c w]; simpl in *.
  - destruct r'; [reflexivity|]. destruct Hs as [H|[H|H]]; subst; reflexivity.
  - apply andb_true_iff in Hw. destruct Hw as [Hc _]. rewrite Hc. reflexivity.
Qed.


(* ---------------------------------------------------------------- segment-override references *)
Lemma brk_not_alpha c : is_brk c = true -> is_alpha c = false.  Proof. char_cases c. Qed.
Lemma brk_stops_alpha r : brk_head r -> stops is_alpha r.
Proof. destruct r; simpl; auto using brk_not_alpha. Qed.
Lemma ws_not_alnum c : is_ws c = true -> is_alnum c = false.  Proof. char_cases c. Qed.
Lemma ws_not_idrest c : is_ws c = true -> is_idrest c = false.  Proof. char_cases c. Qed.
Lemma ws_not_alpha' c : is_ws c = true -> is_alpha c = false.  Proof. char_cases c. Qed.
Lemma ws_not_digit c : is_ws c = true -> is_digit c = false.  Proof. char_cases c. Qed.
Lemma digit_not_ws' c : is_digit c = true -> is_ws c = false.  Proof. char_cases c. Qed.
Lemma idfirst_not_ws c : is_idfirst c = true -> is_ws c = false.  Proof. char_cases c. Qed.
Lemma ws_not_plus c : is_ws c = true -> Ascii.eqb c "+" = false.  Proof. char_cases c. Qed.
Lemma ws_not_minus c : is_ws c = true -> Ascii.eqb c "-" = false.  Proof. char_cases c. Qed.
Lemma digit_not_plus c : is_digit c = true -> Ascii.eqb c "+" = false.  Proof. char_cases c. Qed.

(* a blank string followed by x: x stops every class that contains no blank *)
Lemma stops_L_cons (P : ascii -> bool) w x r : blanks w = true -> (forall c, is_ws c = true -> P c = false) -> P x = false ->
  stops P (L w ++ x :: r).
Proof.
  intros Hw HP Hx. unfold blanks, allc in Hw. destruct (L w) as [|y ys]; simpl; [assumption|].
  simpl in Hw. apply andb_true_iff in Hw. apply HP. tauto.
Qed.

Definition valid_utxt (u : chars) : bool :=
  if hex_prefix u then (match tl (tl u) with [] => false | h => forallb is_hex h end)
  else (match u with [] => false | _ => forallb is_digit u end).

Lemma scan_dec_render d r : d <> [] -> forallb is_digit d = true -> brk_head r -> scan_dec (d ++ r) = Some (d, r).
Proof.
  intros Hne Hd Hr. unfold scan_dec. rewrite span_app by (auto using brk_stops_digit).
  destruct d; [contradiction|reflexivity].
Qed.

Lemma scan_unsigned_render u r : valid_utxt u = true -> brk_head r -> scan_unsigned (u ++ r) = Some (u, r).
Proof.
  intros Hu Hr. unfold valid_utxt in Hu. unfold scan_unsigned.
  destruct (hex_prefix u) eqn:Hp.
  - destruct u as [|c1 [|c2 h]]; try discriminate. simpl in Hp. apply andb_true_iff in Hp. destruct Hp as [H1 H2].
    apply Ascii.eqb_eq in H1. apply Ascii.eqb_eq in H2. subst c1 c2. simpl tl in Hu.
    simpl. destruct h as [|x h]; [discriminate|].
    rewrite <- app_comm_cons. rewrite app_comm_cons. rewrite span_app by (auto using brk_stops_hex). reflexivity.
  - destruct u as [|x u']; [discriminate|].
    rewrite hex_prefix_digits by assumption. apply scan_dec_render; [discriminate|assumption|assumption].
Qed.

Lemma numtxt_inv t : valid_numtxt t = true ->
  (exists u, L t = "-" :: u /\ valid_utxt u = true) \/ (hd_eqb "-" (L t) = false /\ L t <> [] /\ valid_utxt (L t) = true).
Proof.
  unfold valid_numtxt. fold (valid_utxt (if hd_eqb "-" (L t) then tl (L t) else L t)).
  destruct (hd_eqb "-" (L t)) eqn:E; intro H.
  - left. destruct (L t) as [|c u]; [discriminate|]. simpl in E. apply Ascii.eqb_eq in E. subst c. exists u. auto.
  - right. repeat split; [|assumption]. intro En. rewrite En in H. discriminate.
Qed.

Lemma scan_number_render t r : valid_numtxt t = true -> brk_head r -> scan_number (L t ++ r) = Some (L t, r).
Proof.
  intros Ht Hr. unfold scan_number.
  destruct (numtxt_inv t Ht) as [(u & E & Hu)|(Hneg & Hne & Hu)].
  - rewrite E. simpl hd_eqb. simpl tl. cbv iota. rewrite scan_unsigned_render by assumption. reflexivity.
  - assert (hd_eqb "-" (L t ++ r) = false) as H.
    { destruct (L t); [contradiction|exact Hneg]. }
    rewrite H. rewrite scan_unsigned_render by assumption. reflexivity.
Qed.

Lemma numtxt_head t : valid_numtxt t = true -> exists c l, L t = c :: l /\ (c = "-" \/ is_digit c = true).
Proof.
  intro Ht. destruct (numtxt_inv t Ht) as [(u & E & Hu)|(Hneg & Hne & Hu)].
  - exists "-", u. auto.
  - destruct (L t) as [|c l] eqn:E; [contradiction|]. exists c, l. split; [reflexivity|]. right.
    unfold valid_utxt in Hu. destruct (hex_prefix (c :: l)) eqn:Hp.
    + destruct l; [discriminate|]. simpl in Hp. apply andb_true_iff in Hp. destruct Hp as [H1 _].
      apply Ascii.eqb_eq in H1. subst c. reflexivity.
    + simpl in Hu. apply andb_true_iff in Hu. tauto.
Qed.

(* what may follow the displacement of a segment reference: the text of the rest starts (after blanks) with a separator,
   a comment, "(" or nothing *)
Definition sep_or_lp (l : chars) : Prop :=
  match l with [] => True | c :: _ => c = "," \/ c = "#" \/ c = "/" \/ c = "(" end.
Definition follow (r : chars) : Prop := brk_head r /\ sep_or_lp (skip r).

Lemma after_op_follow r : after_op r -> follow r.
Proof.
  intro H. split; [apply after_op_brk; assumption|].
  apply after_op_skip in H. destruct (skip r); simpl in *; [auto|]. destruct H as [H|[H|H]]; auto.
Qed.
Lemma paren_follow w x : blanks w = true -> follow (L w ++ "(" :: x).
Proof.
  intro Hw. split; [apply brk_head_L; [assumption|reflexivity]|].
  rewrite skipL by (assumption || reflexivity). simpl. auto.
Qed.

Lemma offtxt_inv t : valid_offtxt t = true ->
  exists d, d <> [] /\ forallb is_digit d = true /\ (L t = "-" :: d \/ (L t = d /\ hd_eqb "-" (L t) = false)).
Proof.
  unfold valid_offtxt. destruct (hd_eqb "-" (L t)) eqn:E; intro H.
  - destruct (L t) as [|c u]; [discriminate|]. simpl in E. apply Ascii.eqb_eq in E. subst c. simpl tl in H.
    exists u. destruct u; [discriminate|]. repeat split; [discriminate|assumption|auto].
  - exists (L t). destruct (L t); [discriminate|]. repeat split; [discriminate|assumption|auto].
Qed.

Lemma parse_sident_render lo n rel off r :
  valid_oplay lo = true -> valid_sdisp (SId n rel off) = true -> follow r ->
  parse_sident (render_sdisp lo (SId n rel off) ++ r) = Some (SId n rel off, r).
Proof.
  intros Hlo Hd [Hbrk Hfol].
  unfold valid_oplay in Hlo. repeat rewrite andb_true_iff in Hlo.
  destruct Hlo as (_ & _ & _ & _ & _ & _ & _ & _ & _ & Hat & Hp1 & Hp2 & _).
  simpl in Hd. apply andb_true_iff in Hd. destruct Hd as [Hn Hro].
  assert (Hf : hd_eqb "@" (skip r) = false /\ hd_eqb "+" (skip r) = false /\ hd_eqb "-" (skip r) = false
               /\ stops is_digit (skip r)).
  { destruct (skip r) as [|c l]; simpl in *; [auto|].
    destruct Hfol as [H|[H|[H|H]]]; subst c; auto. }
  destruct Hf as (Hf_at & Hf_pl & Hf_mi & Hf_dg).
  unfold parse_sident, render_sdisp.
  destruct rel as [a|].
  - (* relocation *)
    norm. rewrite parse_ident_render_stops; [|assumption|apply stops_L_cons; auto using ws_not_idrest].
    rewrite skipL by (assumption || reflexivity). simpl hd_eqb. simpl tl. cbv iota.
    assert (Ha : valid_reloc a = true) by (destruct off; [apply andb_true_iff in Hro; tauto|assumption]).
    unfold valid_reloc in Ha. destruct (L a) as [|a0 al] eqn:Ea; [discriminate|]. rewrite <- Ea in Ha |- *.
    destruct off as [t|].
    + apply andb_true_iff in Hro. destruct Hro as [_ Ht].
      destruct (offtxt_inv t Ht) as (d & Hdne & Hdd & [Et|[Et Hnm]]).
      * (* negative: "-" digits *)
        unfold render_off. rewrite Et. simpl hd_eqb. cbv iota. norm.
        rewrite span_app; [|assumption|apply stops_L_cons; auto using ws_not_alpha'].
        rewrite Ea. rewrite <- Ea. rewrite skipL by (assumption || reflexivity).
        simpl hd_eqb. cbv iota. simpl hd_eqb. simpl tl. cbv iota.
        rewrite span_app by (auto using brk_stops_digit).
        destruct d as [|d0 dl]; [contradiction|].
        rewrite S_L. rewrite <- Et. rewrite S_L. reflexivity.
      * (* "+" digits *)
        unfold render_off. rewrite Hnm. rewrite Et. norm.
        rewrite span_app; [|assumption|apply stops_L_cons; auto using ws_not_alpha'].
        rewrite Ea. rewrite <- Ea. rewrite skipL by (assumption || reflexivity).
        simpl hd_eqb. cbv iota. simpl tl.
        destruct d as [|d0 dl]; [contradiction|].
        simpl in Hdd. apply andb_true_iff in Hdd. destruct Hdd as [Hd0 Hdl].
        rewrite skipL; [|assumption|simpl; auto using digit_not_ws'].
        simpl hd_eqb. rewrite (digit_not_minus d0) by assumption. cbv iota.
        rewrite app_comm_cons. rewrite span_app; [|simpl; rewrite Hd0; assumption|auto using brk_stops_digit].
        rewrite S_L. rewrite <- Et. rewrite S_L. reflexivity.
    + (* no offset *)
      norm. rewrite span_app; [|assumption|auto using brk_stops_alpha].
      change ([] ++ r) with r. rewrite Ea. cbv iota. rewrite <- Ea. rewrite Hf_pl. cbv iota. rewrite Hf_mi. cbv iota.
      rewrite span_stop by assumption. simpl orb. cbv iota. rewrite S_L. reflexivity.
  - destruct off; [discriminate|].
    rewrite app_nil_r. rewrite parse_ident_render by assumption. rewrite Hf_at. reflexivity.
Qed.

Lemma seg_tail_paren lo sg d b i sc r :
  valid_oplay lo = true -> opt_reg b = true -> opt_reg i = true -> valid_scale sc = true ->
  (i = None -> sc = 1%Z) -> (b = None -> i = None -> False) ->
  forall w, forallb is_ws w = true ->
  seg_tail sg d (w ++ render_paren lo b i sc ++ r) = Some (RGood (OSeg sg d b i sc), r).
Proof.
  intros Hlo Hb Hi Hsc H1 H2 w Hw. unfold seg_tail.
  rewrite skip_app by (assumption || reflexivity).
  change (hd_eqb "(" (render_paren lo b i sc ++ r)) with true. cbv iota.
  rewrite parse_paren_render by assumption. reflexivity.
Qed.

Lemma seg_tail_bare sg d r : d <> SNone -> after_op r ->
  seg_tail sg d r = Some (RGood (OSeg sg d None None 1%Z), r).
Proof.
  intros Hd Hr. unfold seg_tail. rewrite after_op_not_lp by assumption.
  destruct d; [contradiction|reflexivity|reflexivity].
Qed.

Lemma after_op_not_colon r : after_op r -> hd_eqb ":" (skip r) = false.
Proof.
  intro H. apply after_op_skip in H. destruct (skip r); simpl in *; [reflexivity|].
  destruct H as [H|[H|H]]; subst; reflexivity.
Qed.

(* the text after "%seg" : blanks, ":", blanks, then x (which starts with a non-blank) *)
Lemma parse_operand_seg sg w1 w2 x : valid_reg sg = true -> blanks w1 = true -> blanks w2 = true -> stops is_ws x ->
  parse_operand ("%" :: L sg ++ L w1 ++ ":" :: L w2 ++ x) = parse_seg sg x.
Proof.
  intros Hsg H1 H2 Hx. unfold parse_operand. simpl Ascii.eqb. cbv iota.
  rewrite parse_reg_render_stops; [|assumption|apply stops_L_cons; auto using ws_not_alnum].
  rewrite skipL by (assumption || reflexivity). simpl hd_eqb. cbv iota. simpl tl.
  rewrite skipL by assumption. reflexivity.
Qed.

(* ---------------------------------------------------------------- every spelling of an integer is a displacement text *)
Lemma render_N_utxt lo n : valid_utxt (render_N lo n) = true.
Proof.
  unfold valid_utxt, render_N. destruct (lo_hex lo).
  - simpl. destruct (chars_of_hex (lo_upper lo) (N.to_hex_uint n)) as [|c t] eqn:E.
    + exfalso. apply (N_to_hex_uint_nonnil n). eapply chars_of_hex_nil. eassumption.
    + pose proof (hex_chars_hex (lo_upper lo) (N.to_hex_uint n)) as Hh. rewrite E in Hh. exact Hh.
  - pose proof (hex_prefix_digits (chars_of_dec (N.to_uint n)) [] (dec_chars_digits _) I) as H.
    rewrite app_nil_r in H. rewrite H.
    destruct (dec_render_cons n) as (c & t & E & _). pose proof (dec_chars_digits (N.to_uint n)) as Hd.
    rewrite E in Hd |- *. exact Hd.
Qed.

Lemma render_Z_numtxt lo z : valid_numtxt (S_ (render_Z lo z)) = true.
Proof.
  unfold valid_numtxt. rewrite L_S. unfold render_Z. destruct (z <? 0)%Z.
  - simpl. apply render_N_utxt.
  - simpl app. destruct (render_N_head lo (Z.abs_N z)) as (c & t & E & Hc).
    assert (hd_eqb "-" (render_N lo (Z.abs_N z)) = false) as H by (rewrite E; simpl; auto using digit_not_minus).
    rewrite H. apply render_N_utxt.
Qed.

Lemma render_Z_value lo z : parse_number (render_Z lo z) = Some (NumOk z, []).
Proof. rewrite <- (app_nil_r (render_Z lo z)). apply parse_number_render. exact I. Qed.

(* ---------------------------------------------------------------- opmask *)
Lemma alnum_not_ws c : is_alnum c = true -> is_ws c = false.  Proof. char_cases c. Qed.
Lemma alnum_not_pct c : is_alnum c = true -> Ascii.eqb c "%" = false.  Proof. char_cases c. Qed.
Lemma digit_not_star c : is_digit c = true -> Ascii.eqb c "*" = false.  Proof. char_cases c. Qed.
Lemma idfirst_not_star c : is_idfirst c = true -> Ascii.eqb c "*" = false.  Proof. char_cases c. Qed.

Lemma after_op_not_lbrace r : after_op r -> hd_eqb "{" (skip r) = false.
Proof.
  intro H. apply after_op_skip in H. destruct (skip r); simpl in *; [reflexivity|].
  destruct H as [H|[H|H]]; subst; reflexivity.
Qed.

Lemma skip_mask_none az r : hd_eqb "{" (skip r) = false -> skip_mask az r = Some r.
Proof. unfold skip_mask. intro H. rewrite H. reflexivity. Qed.

Lemma klay_inv lo : valid_oplay lo = true -> valid_klay (lo_k lo) = true.
Proof.
  unfold valid_oplay. intro H. repeat rewrite andb_true_iff in H.
  destruct H as (_ & _ & _ & _ & _ & _ & _ & _ & _ & _ & _ & _ & H). exact H.
Qed.

Lemma skip_mask_render lo k z az r : valid_oplay lo = true -> valid_reg k = true ->
  (z = true -> az = true) -> (az = true -> z = false -> hd_eqb "{" (skip r) = false) ->
  skip_mask az (render_mask lo k z ++ r) = Some r.
Proof.
  intros Hlo Hk Hz Hnz. apply klay_inv in Hlo. unfold valid_klay in Hlo. repeat rewrite andb_true_iff in Hlo.
  destruct Hlo as (_ & H1 & H2 & H3 & H4 & H5 & H6 & H7).
  unfold valid_reg in Hk. destruct (L k) as [|c t] eqn:Ek; [discriminate|].
  assert (Hc : is_alnum c = true) by (simpl in Hk; apply andb_true_iff in Hk; tauto).
  rewrite <- Ek in Hk.
  unfold skip_mask, render_mask. cbv zeta. norm.
  rewrite skipL by (assumption || reflexivity). simpl hd_eqb. cbv iota. simpl tl.
  assert (Hpre : (let r2 := skip (L (wk2 (lo_k lo)) ++ (if lo_kpct (lo_k lo) then "%" :: L (wk3 (lo_k lo)) else []) ++
                                 L k ++ L (wk4 (lo_k lo)) ++ "}" :: (if z then L (wk5 (lo_k lo)) ++ "{" :: L (wk6 (lo_k lo)) ++ "z" :: L (wk7 (lo_k lo)) ++ ["}"] else []) ++ r) in
                  if hd_eqb "%" r2 then skip (tl r2) else r2)
                 = L k ++ L (wk4 (lo_k lo)) ++ "}" :: (if z then L (wk5 (lo_k lo)) ++ "{" :: L (wk6 (lo_k lo)) ++ "z" :: L (wk7 (lo_k lo)) ++ ["}"] else []) ++ r).
  { cbv zeta. destruct (lo_kpct (lo_k lo)).
    - norm. rewrite skipL by (assumption || reflexivity). simpl hd_eqb. cbv iota. simpl tl.
      apply skipL; [assumption|]. rewrite Ek. simpl. auto using alnum_not_ws.
    - change ([] ++ ?x) with x. rewrite skipL; [|assumption|rewrite Ek; simpl; auto using alnum_not_ws].
      rewrite Ek. simpl hd_eqb. rewrite alnum_not_pct by assumption. reflexivity. }
  cbv zeta in Hpre. norm in Hpre. rewrite Hpre. clear Hpre.
  rewrite span_app; [|assumption|apply stops_L_cons; auto using ws_not_alnum].
  rewrite Ek. cbv iota.
  rewrite skipL by (assumption || reflexivity). simpl hd_eqb. cbv iota. simpl tl.
  destruct z.
  - rewrite (Hz eq_refl). norm. rewrite skipL by (assumption || reflexivity). simpl hd_eqb. cbv iota. simpl tl.
    rewrite skipL by (assumption || reflexivity). simpl hd_eqb. cbv iota. simpl tl.
    rewrite skipL by (assumption || reflexivity). reflexivity.
  - change ([] ++ r) with r. destruct az; [|reflexivity]. rewrite (Hnz eq_refl eq_refl). reflexivity.
Qed.

(* what follows the ")" of a memory reference: nothing of the operand, or an opmask *)
Definition mask_tail (lo : oplay) (tail r : chars) : Prop :=
  (tail = r /\ hd_eqb "{" (skip r) = false) \/ (exists k, valid_reg k = true /\ tail = render_mask lo k false ++ r).

Lemma mask_tail_skip lo tail r : valid_oplay lo = true -> mask_tail lo tail r -> skip_mask false tail = Some r.
Proof.
  intros Hlo [[-> H]|(k & Hk & ->)]; [apply skip_mask_none; assumption|].
  apply skip_mask_render; try assumption; discriminate.
Qed.

(* ---------------------------------------------------------------- operands *)
Definition rop_of (first : bool) (lo : oplay) (o : operand) : rop :=
  match o with
  | OId n => if orb (lo_dollar lo) (negb first) then RGood o else RBare n
  | OIdR n _ _ => if orb (lo_dollar lo) (negb first) then RGood (OId n) else RBare n
  | ONumLbl d _ => RBare d
  | _ => RGood (code_view o)
  end.

Lemma numlbl_check_render lo z r dg r1 : brk_head r -> span is_digit (render_Z lo z ++ r) = (dg, r1) ->
  andb (negb (match dg with [] => true | _ => false end))
       (match r1 with x :: _ => one_of "bBfF" x | [] => false end) = false.
Proof.
  intros Hr. unfold render_Z. destruct (z <? 0)%Z.
  - simpl. intro E. inversion E. reflexivity.
  - simpl app. unfold render_N. destruct (lo_hex lo).
    + simpl. intro E. inversion E. reflexivity.
    + rewrite span_app by (auto using dec_chars_digits, brk_stops_digit). intro E. inversion E. subst.
      destruct r1 as [|x r1]; [apply andb_false_r|]. simpl in Hr. rewrite brk_not_bf by assumption. apply andb_false_r.
Qed.

Lemma parse_operand_num lo z r : brk_head r ->
  parse_operand (render_Z lo z ++ r) =
  with_disp (Some (DInt z)) (if (z <? 0)%Z then None else Some (RGood (OMem (DInt z) None None 1%Z))) r.
Proof.
  intro Hr. destruct (render_Z_head lo z) as (c & t & Ez & Hc).
  destruct (span is_digit (render_Z lo z ++ r)) as [dg r1] eqn:Esp.
  pose proof (numlbl_check_render lo z r dg r1 Hr Esp) as Hchk.
  pose proof (parse_number_render lo z r Hr) as Hnum.
  rewrite Ez in *. norm in Esp. norm in Hnum. norm.
  unfold parse_operand. rewrite Esp, Hchk, Hnum.
  destruct Hc as [[-> Hneg]|[Hc Hpos]].
  - simpl. apply Z.ltb_lt in Hneg. rewrite Hneg. reflexivity.
  - rewrite digit_not_pct, digit_not_dollar, digit_not_lp, digit_not_star, Hc, orb_true_r by assumption.
    rewrite digit_not_minus by assumption. apply Z.ltb_ge in Hpos. rewrite Hpos. reflexivity.
Qed.

Lemma parse_operand_id c l : is_idfirst c = true ->
  parse_operand (c :: l) =
  match parse_sident (c :: l) with
  | Some (sd, r) => with_disp (Some (DId (name_of_sid sd))) (Some (RBare (name_of_sid sd))) r
  | None => None
  end.
Proof.
  intro H. unfold parse_operand.
  rewrite idfirst_not_pct, idfirst_not_dollar, idfirst_not_lp, idfirst_not_star, idfirst_not_minus, idfirst_not_digit, H by assumption.
  reflexivity.
Qed.

Lemma with_disp_paren lo d bare b i sc tail r :
  valid_oplay lo = true -> opt_reg b = true -> opt_reg i = true -> valid_scale sc = true ->
  (i = None -> sc = 1%Z) -> (b = None -> i = None -> False) -> mask_tail lo tail r ->
  forall w, forallb is_ws w = true ->
  with_disp (Some d) bare (w ++ render_paren lo b i sc ++ tail) = Some (RGood (OMem d b i sc), r).
Proof.
  intros Hlo Hb Hi Hsc H1 H2 Ht w Hw. unfold with_disp.
  rewrite skip_app by (assumption || reflexivity).
  change (hd_eqb "(" (render_paren lo b i sc ++ tail)) with true. cbv iota.
  rewrite parse_paren_render by assumption. rewrite (mask_tail_skip lo tail r Hlo Ht). reflexivity.
Qed.

Lemma with_disp_bare d x r : after_op r -> with_disp d (Some x) r = Some (x, r).
Proof. intro H. unfold with_disp. rewrite after_op_not_lp by assumption. reflexivity. Qed.

(* the displacement in front of the parenthesis *)
Definition render_dpart (lo : oplay) (d : disp) : chars :=
  match d with
  | DNone => []
  | DInt z => render_Z lo z ++ L (w_d lo)
  | DId n => L n ++ L (w_d lo)
  | DIdR n rel off => render_sdisp lo (SId n (Some rel) off) ++ L (w_d lo)
  end.

Lemma sident_plain lo n : render_sdisp lo (SId n None None) = L n.
Proof. simpl. apply app_nil_r. Qed.

Lemma parse_sident_plain lo n r : valid_oplay lo = true -> valid_ident n = true -> follow r ->
  parse_sident (L n ++ r) = Some (SId n None None, r).
Proof.
  intros Hlo Hn Hr. rewrite <- (sident_plain lo n). apply parse_sident_render; try assumption.
  simpl. rewrite Hn. reflexivity.
Qed.

Lemma sident_head lo n rel off : valid_ident n = true ->
  exists c x, render_sdisp lo (SId n rel off) = c :: x /\ is_idfirst c = true.
Proof.
  intro Hn. destruct (ident_head n Hn) as (c & t & En & Hc). simpl render_sdisp. rewrite En.
  eexists; eexists; split; [reflexivity|assumption].
Qed.

Lemma scan_render_Z lo z r : brk_head r -> scan_number (render_Z lo z ++ r) = Some (render_Z lo z, r).
Proof.
  intro Hr. pose proof (scan_number_render (S_ (render_Z lo z)) r (render_Z_numtxt lo z) Hr) as H.
  rewrite L_S in H. exact H.
Qed.

Section MemCore.
  Variables (lo : oplay) (d : disp) (b i : option string) (sc : Z) (tail r : chars).
  Hypothesis Hlo : valid_oplay lo = true.
  Hypothesis Hm : valid_paren_mem d b i sc = true.
  Hypothesis Ht : mask_tail lo tail r.

  Lemma paren_mem_inv : opt_reg b = true /\ opt_reg i = true /\ valid_scale sc = true /\ valid_disp d = true
                        /\ (i = None -> sc = 1%Z) /\ (b = None -> i = None -> False) /\ blanks (w_d lo) = true.
  Proof.
    unfold valid_paren_mem in Hm. repeat rewrite andb_true_iff in Hm. destruct Hm as (Hb & Hi & Hsc & Hd & Hsc1 & Hbi).
    repeat split; try assumption.
    - intros ->. apply Z.eqb_eq. assumption.
    - intros -> ->. discriminate.
    - unfold valid_oplay in Hlo. repeat rewrite andb_true_iff in Hlo. tauto.
  Qed.

  Let X := render_dpart lo d ++ render_paren lo b i sc ++ tail.

  Lemma with_disp_X d' bare w : forallb is_ws w = true ->
    with_disp (Some d') bare (w ++ render_paren lo b i sc ++ tail) = Some (RGood (OMem d' b i sc), r).
  Proof.
    destruct paren_mem_inv as (Hb & Hi & Hsc & Hd & Hsc1 & Hbi & Hwd). intro Hw.
    apply with_disp_paren; assumption.
  Qed.

  Lemma paren_tail_follow : follow (L (w_d lo) ++ render_paren lo b i sc ++ tail).
  Proof. destruct paren_mem_inv as (_ & _ & _ & _ & _ & _ & Hwd). apply paren_follow. assumption. Qed.
  Lemma paren_tail_brk : brk_head (L (w_d lo) ++ render_paren lo b i sc ++ tail).
  Proof. apply paren_tail_follow. Qed.

  Lemma parse_operand_mem : parse_operand X = Some (RGood (OMem (disp_view d) b i sc), r).
  Proof.
    destruct paren_mem_inv as (Hb & Hi & Hsc & Hd & Hsc1 & Hbi & Hwd). unfold X.
    pose proof with_disp_X as HX. pose proof paren_tail_follow as HF. pose proof paren_tail_brk as HB.
    destruct d as [|z|n|n rel off]; unfold render_dpart, disp_view.
    - change (parse_operand ([] ++ render_paren lo b i sc ++ tail))
        with (with_disp (Some DNone) None ([] ++ render_paren lo b i sc ++ tail)).
      apply HX. reflexivity.
    - norm. rewrite parse_operand_num by apply HB. apply HX. assumption.
    - simpl in Hd. destruct (ident_head n Hd) as (c & t & En & Hc).
      norm. rewrite En. norm. rewrite parse_operand_id by assumption. rewrite app_comm_cons, <- En.
      rewrite (parse_sident_plain lo) by (assumption || apply HF).
      apply HX. assumption.
    - simpl in Hd. pose proof Hd as Hd'. apply andb_true_iff in Hd'. destruct Hd' as [Hn _].
      destruct (sident_head lo n (Some rel) off Hn) as (c & x & Ex & Hc).
      norm. rewrite Ex. norm. rewrite parse_operand_id by assumption. rewrite app_comm_cons, <- Ex.
      rewrite parse_sident_render by (assumption || apply HF).
      apply HX. assumption.
  Qed.

  Lemma parse_star_mem : parse_star X = Some (RGood (OMem (disp_view d) b i sc), r).
  Proof.
    destruct paren_mem_inv as (Hb & Hi & Hsc & Hd & Hsc1 & Hbi & Hwd). unfold X.
    pose proof with_disp_X as HX. pose proof paren_tail_follow as HF. pose proof paren_tail_brk as HB.
    destruct d as [|z|n|n rel off]; unfold render_dpart, disp_view.
    - change (parse_star ([] ++ render_paren lo b i sc ++ tail))
        with (with_disp (Some DNone) None ([] ++ render_paren lo b i sc ++ tail)).
      apply HX. reflexivity.
    - destruct (render_Z_head lo z) as (c & t & Ez & Hc).
      pose proof (scan_render_Z lo z _ HB) as Hscan.
      pose proof (parse_number_render lo z _ HB) as Hnum.
      norm. rewrite Ez in *. norm. norm in Hscan. norm in Hnum.
      unfold parse_star. rewrite Hscan, Hnum.
      assert (Hdisp : Ascii.eqb c "%" = false /\ Ascii.eqb c "(" = false /\ orb (Ascii.eqb c "-") (is_digit c) = true).
      { destruct Hc as [[-> _]|[Hc _]]; [repeat split; reflexivity|].
        rewrite digit_not_pct, digit_not_lp, Hc, orb_true_r by assumption. auto. }
      destruct Hdisp as (-> & -> & ->). apply HX. assumption.
    - simpl in Hd. destruct (ident_head n Hd) as (c & t & En & Hc).
      pose proof (parse_sident_plain lo n _ Hlo Hd HF) as Hsid.
      norm. rewrite En in *. norm. norm in Hsid. unfold parse_star. rewrite Hsid.
      rewrite idfirst_not_pct, idfirst_not_lp, idfirst_not_minus, idfirst_not_digit, Hc by assumption.
      simpl orb. cbv iota. apply HX. assumption.
    - simpl in Hd. pose proof Hd as Hd'. apply andb_true_iff in Hd'. destruct Hd' as [Hn _].
      destruct (sident_head lo n (Some rel) off Hn) as (c & x & Ex & Hc).
      pose proof (parse_sident_render lo n (Some rel) off _ Hlo Hd HF) as Hsid.
      norm. rewrite Ex in *. norm. norm in Hsid. unfold parse_star. rewrite Hsid.
      rewrite idfirst_not_pct, idfirst_not_lp, idfirst_not_minus, idfirst_not_digit, Hc by assumption.
      simpl orb. cbv iota. apply HX. assumption.
  Qed.

  (* with or without the "*" the grammar skips *)
  Lemma parse_operand_render_mem :
    parse_operand (render_mem lo d b i sc ++ tail) = Some (RGood (OMem (disp_view d) b i sc), r).
  Proof.
    assert (Hst : blanks (w_st (lo_k lo)) = true).
    { pose proof (klay_inv lo Hlo) as H. unfold valid_klay in H. repeat rewrite andb_true_iff in H. tauto. }
    assert (HX : exists c x, X = c :: x /\ is_ws c = false).
    { unfold X. destruct paren_mem_inv as (_ & _ & _ & Hd & _).
      destruct d as [|z|n|n rel off]; unfold render_dpart.
      - eexists; eexists; split; reflexivity.
      - destruct (render_Z_head lo z) as (c & t & Ez & Hc). rewrite Ez. norm. eexists; eexists; split; [reflexivity|].
        destruct Hc as [[-> _]|[Hc _]]; [reflexivity|auto using digit_not_ws'].
      - simpl in Hd. destruct (ident_head n Hd) as (c & t & En & Hc). rewrite En. norm.
        eexists; eexists; split; [reflexivity|auto using idfirst_not_ws].
      - simpl in Hd. apply andb_true_iff in Hd. destruct Hd as [Hn _].
        destruct (sident_head lo n (Some rel) off Hn) as (c & x & Ex & Hc). rewrite Ex. norm.
        eexists; eexists; split; [reflexivity|auto using idfirst_not_ws]. }
    replace (render_mem lo d b i sc ++ tail) with ((if lo_star (lo_k lo) then render_star lo else []) ++ X)
      by (unfold X, render_mem, render_dpart; destruct d; norm; reflexivity).
    destruct (lo_star (lo_k lo)).
    - unfold render_star. norm. unfold parse_operand. simpl Ascii.eqb. cbv iota.
      destruct HX as (c & x & EX & Hc). rewrite skipL; [|assumption|rewrite EX; exact Hc].
      apply parse_star_mem.
    - apply parse_operand_mem.
  Qed.
End MemCore.

Lemma parse_number_numtxt t r : valid_numtxt t = true -> brk_head r -> exists nr r', parse_number (L t ++ r) = Some (nr, r').
Proof.
  intros Ht Hr. unfold parse_number.
  assert (Hu : forall u, valid_utxt u = true -> exists on r', parse_unsigned (u ++ r) = Some (on, r')).
  { intros u Hu. unfold valid_utxt in Hu. unfold parse_unsigned. destruct (hex_prefix u) eqn:Hp.
    - destruct u as [|c1 [|c2 h]]; try discriminate. simpl in Hp. apply andb_true_iff in Hp. destruct Hp as [H1 H2].
      apply Ascii.eqb_eq in H1. apply Ascii.eqb_eq in H2. subst c1 c2. simpl tl in Hu. simpl.
      destruct h as [|x h]; [discriminate|]. rewrite <- app_comm_cons. rewrite app_comm_cons.
      rewrite span_app by (auto using brk_stops_hex).
      destruct (hex_of_chars_some (x :: h) Hu) as (u' & ->). eexists; eexists; reflexivity.
    - destruct u as [|x u']; [discriminate|]. rewrite hex_prefix_digits by assumption.
      unfold parse_dec. rewrite span_app by (auto using brk_stops_digit).
      destruct (dec_of_chars_some (x :: u') Hu) as (u'' & ->).
      destruct (orb _ _); eexists; eexists; reflexivity. }
  destruct (numtxt_inv t Ht) as [(u & E & Hv)|(Hneg & Hne & Hv)].
  - rewrite E. simpl hd_eqb. simpl tl. cbv iota. destruct (Hu u Hv) as (on & r' & ->).
    destruct on; eexists; eexists; reflexivity.
  - assert (hd_eqb "-" (L t ++ r) = false) as H by (destruct (L t); [contradiction|exact Hneg]).
    rewrite H. destruct (Hu (L t) Hv) as (on & r' & ->). destruct on; eexists; eexists; reflexivity.
Qed.

Lemma parse_operand_render first lo o r :
  valid_operand o = true -> valid_oplay lo = true -> after_op r ->
  parse_operand (render_op first lo o ++ r) = Some (rop_of first lo o, r).
Proof.
  intros Ho Hlo Hr. pose proof (after_op_brk r Hr) as Hbrk.
  assert (Hst : blanks (w_st (lo_k lo)) = true).
  { pose proof (klay_inv lo Hlo) as H. unfold valid_klay in H. repeat rewrite andb_true_iff in H. tauto. }
  assert (Hmt : mask_tail lo r r) by (left; split; [reflexivity|apply after_op_not_lbrace; assumption]).
  destruct o as [n|z|n|d b i sc|sg d b i sc|x|n k zz|d b i sc k|n rel off|dg x]; simpl in Ho.
  - (* register *)
    simpl render_op. norm. unfold parse_operand. simpl Ascii.eqb. cbv iota.
    rewrite parse_reg_render by assumption. rewrite after_op_not_colon by assumption.
    rewrite skip_mask_none by (apply after_op_not_lbrace; assumption). reflexivity.
  - (* immediate *)
    simpl render_op. norm. unfold parse_operand. simpl Ascii.eqb. cbv iota.
    rewrite parse_number_render by assumption. reflexivity.
  - (* identifier *)
    destruct (ident_head n Ho) as (c & t & En & Hc).
    unfold render_op, rop_of. destruct (orb (lo_dollar lo) (negb first)).
    + norm. unfold parse_operand. simpl Ascii.eqb. cbv iota.
      rewrite En. norm. rewrite parse_number_ident by assumption. rewrite app_comm_cons, <- En.
      rewrite (parse_sident_plain lo) by (assumption || (apply after_op_follow; assumption)). reflexivity.
    + rewrite En. norm. rewrite parse_operand_id by assumption. rewrite app_comm_cons, <- En.
      rewrite (parse_sident_plain lo) by (assumption || (apply after_op_follow; assumption)).
      apply with_disp_bare. assumption.
  - (* memory *)
    unfold rop_of. simpl code_view.
    assert (Hparen : valid_paren_mem d b i sc = true ->
              parse_operand (render_mem lo d b i sc ++ r) = Some (RGood (OMem (disp_view d) b i sc), r)).
    { intro Hm. apply parse_operand_render_mem; assumption. }
    destruct d as [|z|n|n rel off]; try (destruct b, i; apply Hparen; exact Ho).
    destruct b as [rb|], i as [ri|]; try (apply Hparen; exact Ho).
    (* absolute address *)
    apply andb_true_iff in Ho. destruct Ho as [Hz Hsc]. apply Z.leb_le in Hz. apply Z.eqb_eq in Hsc. subst sc.
    simpl render_op. rewrite parse_operand_num by assumption.
    assert ((z <? 0)%Z = false) as Hn by (apply Z.ltb_ge; assumption). rewrite Hn.
    apply with_disp_bare. assumption.
  - (* segment-override reference *)
    repeat rewrite andb_true_iff in Ho. destruct Ho as (Hsg & Hb & Hi & Hsc & Hd & Hsc1 & Hne).
    assert (Hsc1' : i = None -> sc = 1%Z).
    { intro E. subst i. apply Z.eqb_eq. assumption. }
    pose proof Hlo as Hlo'. unfold valid_oplay in Hlo'. repeat rewrite andb_true_iff in Hlo'.
    destruct Hlo' as (Hwd & _ & _ & _ & _ & _ & _ & Hsg1 & Hsg2 & _).
    unfold rop_of. simpl code_view. unfold render_op. norm.
    (* the part after ":" and its blanks *)
    set (pp := match b, i with
               | None, None => []
               | _, _ => (match d with SNone => [] | _ => L (w_d lo) end) ++ render_paren lo b i sc
               end).
    assert (Hpp : match b, i with
                  | None, None => pp = []
                  | _, _ => pp = (match d with SNone => [] | _ => L (w_d lo) end) ++ render_paren lo b i sc
                  end) by (destruct b, i; reflexivity).
    assert (Hfollow : follow (pp ++ r)).
    { destruct b as [rb|], i as [ri|]; rewrite Hpp; try (apply after_op_follow; assumption);
        destruct d; norm; try (apply paren_follow; assumption); apply (paren_follow ""%string); reflexivity. }
    assert (Htail : d <> SNone \/ (b = None -> i = None -> False) ->
              seg_tail sg d (pp ++ r) = Some (RGood (OSeg sg d b i sc), r)).
    { intro Hor. subst pp.
      destruct b as [rb|], i as [ri|].
      1-3: (destruct d; norm;
            [apply seg_tail_paren with (w := @nil ascii)|apply seg_tail_paren with (w := L (w_d lo))
            |apply seg_tail_paren with (w := L (w_d lo))]; try assumption; try reflexivity; intros; discriminate).
      rewrite (Hsc1' eq_refl). change ([] ++ r) with r. apply seg_tail_bare; [|assumption].
      destruct Hor as [H|H]; [assumption|exfalso; apply H; reflexivity]. }
    destruct d as [|t|n rel off].
    + (* no displacement: the parenthesised part is there *)
      assert (Hbi : b = None -> i = None -> False) by (intros -> ->; discriminate).
      simpl render_sdisp. simpl app.
      rewrite parse_operand_seg; [|assumption|assumption|assumption|destruct b, i; try (exfalso; apply Hbi; reflexivity); reflexivity].
      assert (Ehd : exists x, pp ++ r = "(" :: x) by (destruct b, i; try (exfalso; apply Hbi; reflexivity); rewrite Hpp; eexists; reflexivity).
      destruct Ehd as (x & Ex). unfold parse_seg. rewrite Ex. simpl Ascii.eqb. cbv iota. rewrite <- Ex.
      apply Htail; right; assumption.
    + (* number as written *)
      simpl render_sdisp. simpl in Hd.
      destruct (numtxt_head t Hd) as (c & l & Et & Hc).
      rewrite parse_operand_seg; [|assumption|assumption|assumption|rewrite Et; simpl; destruct Hc as [->|Hc]; [reflexivity|auto using digit_not_ws']].
      unfold parse_seg. rewrite Et. norm.
      assert (Ascii.eqb c "(" = false) as Hlp by (destruct Hc as [->|Hc]; [reflexivity|auto using digit_not_lp]).
      assert (orb (Ascii.eqb c "-") (is_digit c) = true) as Hnum by (destruct Hc as [->|Hc]; [reflexivity|rewrite Hc; apply orb_true_r]).
      rewrite Hlp, Hnum. rewrite app_comm_cons, <- Et.
      rewrite scan_number_render by (assumption || apply Hfollow). rewrite S_L.
      apply Htail; left; discriminate.
    + (* identifier [@relocation [offset]] *)
      pose proof Hd as Hd'. simpl in Hd'. apply andb_true_iff in Hd'. destruct Hd' as [Hn _].
      destruct (sident_head lo n rel off Hn) as (c & x & Ex & Hc).
      rewrite parse_operand_seg; [|assumption|assumption|assumption|rewrite Ex; simpl; auto using idfirst_not_ws].
      unfold parse_seg. rewrite Ex. norm.
      rewrite idfirst_not_lp, idfirst_not_minus, idfirst_not_digit, Hc by assumption. simpl orb. cbv iota.
      rewrite app_comm_cons, <- Ex.
      rewrite parse_sident_render by assumption.
      apply Htail; left; discriminate.
  - (* indirect: "*" register | number | identifier *)
    unfold rop_of. simpl code_view.
    destruct x as [n|d]; unfold render_op, render_star; norm; unfold parse_operand; simpl Ascii.eqb; cbv iota.
    + rewrite skipL by (assumption || reflexivity). unfold parse_star. simpl Ascii.eqb. cbv iota.
      rewrite parse_reg_render by assumption. rewrite after_op_not_colon by assumption. reflexivity.
    + apply andb_true_iff in Ho. destruct Ho as [Hd Hne].
      destruct d as [|t|n rel off]; [discriminate| |].
      * simpl render_sdisp. simpl in Hd. destruct (numtxt_head t Hd) as (c & l & Et & Hc).
        rewrite skipL; [|assumption|rewrite Et; simpl; destruct Hc as [->|Hc]; [reflexivity|auto using digit_not_ws']].
        pose proof (scan_number_render t r Hd Hbrk) as Hscan.
        destruct (parse_number_numtxt t r Hd Hbrk) as (nr & r' & Hnum).
        rewrite Et in *. norm in Hscan. norm in Hnum. norm. unfold parse_star. rewrite Hscan, Hnum.
        assert (Hdisp : Ascii.eqb c "%" = false /\ Ascii.eqb c "(" = false /\ orb (Ascii.eqb c "-") (is_digit c) = true).
        { destruct Hc as [->|Hc]; [repeat split; reflexivity|].
          rewrite digit_not_pct, digit_not_lp, Hc, orb_true_r by assumption. auto. }
        destruct Hdisp as (-> & -> & ->). rewrite <- Et. rewrite S_L. apply with_disp_bare. assumption.
      * pose proof Hd as Hd'. simpl in Hd'. apply andb_true_iff in Hd'. destruct Hd' as [Hn _].
        destruct (sident_head lo n rel off Hn) as (c & x & Ex & Hc).
        rewrite skipL; [|assumption|rewrite Ex; simpl; auto using idfirst_not_ws].
        pose proof (parse_sident_render lo n rel off r Hlo Hd (after_op_follow r Hr)) as Hsid.
        rewrite Ex in *. norm in Hsid. norm. unfold parse_star. rewrite Hsid.
        rewrite idfirst_not_pct, idfirst_not_lp, idfirst_not_minus, idfirst_not_digit, Hc by assumption.
        simpl orb. cbv iota. apply with_disp_bare. assumption.
  - (* register with opmask: the mask is dropped *)
    apply andb_true_iff in Ho. destruct Ho as [Hn Hk].
    unfold rop_of. simpl code_view. simpl render_op. norm. unfold parse_operand. simpl Ascii.eqb. cbv iota.
    assert (Hk1 : blanks (wk1 (lo_k lo)) = true).
    { pose proof (klay_inv lo Hlo) as H. unfold valid_klay in H. repeat rewrite andb_true_iff in H. tauto. }
    unfold render_mask at 1. cbv zeta. norm.
    rewrite parse_reg_render_stops; [|assumption|apply stops_L_cons; auto using ws_not_alnum].
    rewrite skipL by (assumption || reflexivity). simpl hd_eqb. cbv iota.
    pose proof (skip_mask_render lo k zz true r Hlo Hk (fun _ => eq_refl) (fun _ _ => after_op_not_lbrace r Hr)) as Hm.
    unfold render_mask in Hm. cbv zeta in Hm. norm in Hm. rewrite Hm. reflexivity.
  - (* memory reference with opmask *)
    apply andb_true_iff in Ho. destruct Ho as [Hm Hk].
    unfold rop_of. simpl code_view. simpl render_op. norm.
    apply parse_operand_render_mem; try assumption. right. exists k. auto.
  - (* identifier@relocation[+-offset]: the name is kept *)
    pose proof Ho as Ho'. simpl in Ho'. apply andb_true_iff in Ho'. destruct Ho' as [Hn _].
    destruct (sident_head lo n (Some rel) off Hn) as (c & x & Ex & Hc).
    unfold render_op, rop_of. destruct (orb (lo_dollar lo) (negb first)).
    + norm. unfold parse_operand. simpl Ascii.eqb. cbv iota. rewrite !app_nil_l.
      rewrite Ex. norm. rewrite parse_number_ident by assumption. rewrite app_comm_cons, <- Ex.
      rewrite parse_sident_render by (assumption || (apply after_op_follow; assumption)). reflexivity.
    + rewrite app_nil_l. rewrite Ex. norm. rewrite parse_operand_id by assumption. rewrite app_comm_cons, <- Ex.
      rewrite parse_sident_render by (assumption || (apply after_op_follow; assumption)).
      apply with_disp_bare. assumption.
  - (* numeric label  digits b|f *)
    apply andb_true_iff in Ho. destruct Ho as [Hd Hx].
    unfold rop_of. simpl render_op. norm.
    unfold valid_numlabel in Hd. destruct (L dg) as [|c t] eqn:Ed; [discriminate|].
    assert (Hc : is_digit c = true) by (simpl in Hd; apply andb_true_iff in Hd; tauto).
    rewrite <- Ed in Hd.
    unfold parse_operand. norm.
    rewrite digit_not_pct, digit_not_dollar, digit_not_lp, digit_not_star, Hc, orb_true_r by assumption.
    rewrite app_comm_cons, <- Ed.
    rewrite span_app; [|assumption|simpl; apply bf_not_digit; assumption].
    rewrite Ed. simpl negb. rewrite Hx. simpl andb. cbv iota. rewrite <- Ed. rewrite S_L. reflexivity.
Qed.

Lemma render_op_head first lo o : valid_operand o = true ->
  exists c t, render_op first lo o = c :: t /\ is_ophead c = true.
Proof.
  intro Ho.
  assert (Hmem : forall d b i sc, valid_paren_mem d b i sc = true ->
            exists c t, render_mem lo d b i sc = c :: t /\ is_ophead c = true).
  { intros d b i sc Hm. unfold render_mem. destruct (lo_star (lo_k lo)).
    - eexists; eexists; split; reflexivity.
    - rewrite app_nil_l. unfold valid_paren_mem in Hm. repeat rewrite andb_true_iff in Hm. destruct Hm as (_ & _ & _ & Hd & _).
      destruct d as [|z|n|n rel off].
      + eexists; eexists; split; reflexivity.
      + destruct (render_Z_head lo z) as (c & t & Ez & Hc). rewrite Ez. norm. eexists; eexists; split; [reflexivity|].
        destruct Hc as [[-> _]|[Hc _]]; [reflexivity|auto using digit_ophead].
      + simpl in Hd. destruct (ident_head n Hd) as (c & t & En & Hc). rewrite En. norm.
        eexists; eexists; split; [reflexivity|auto using idfirst_ophead].
      + simpl in Hd. apply andb_true_iff in Hd. destruct Hd as [Hn _].
        destruct (sident_head lo n (Some rel) off Hn) as (c & x & Ex & Hc). rewrite Ex. norm.
        eexists; eexists; split; [reflexivity|auto using idfirst_ophead]. }
  destruct o as [n|z|n|d b i sc|sg d b i sc|x|n k zz|d b i sc k|n rel off|dg x]; simpl in Ho.
  - eexists; eexists; split; reflexivity.
  - eexists; eexists; split; reflexivity.
  - unfold render_op. destruct (orb (lo_dollar lo) (negb first)).
    + eexists; eexists; split; reflexivity.
    + destruct (ident_head n Ho) as (c & t & En & Hc). exists c, t. split; [assumption|auto using idfirst_ophead].
  - destruct d as [|z|n|n rel off]; try (destruct b, i; apply Hmem; exact Ho).
    destruct b, i; try (apply Hmem; exact Ho).
    simpl render_op. destruct (render_Z_head lo z) as (c & t & Ez & Hc). exists c, t. split; [assumption|].
    destruct Hc as [[-> _]|[Hc _]]; [reflexivity|auto using digit_ophead].
  - eexists; eexists; split; reflexivity.
  - destruct x; eexists; eexists; split; reflexivity.
  - eexists; eexists; split; reflexivity.
  - apply andb_true_iff in Ho. destruct Ho as [Hm _]. destruct (Hmem d b i sc Hm) as (c & t & E & Hc).
    simpl render_op. rewrite E. norm. eexists; eexists; split; [reflexivity|assumption].
  - unfold render_op. destruct (orb (lo_dollar lo) (negb first)).
    + eexists; eexists; split; reflexivity.
    + simpl in Ho. apply andb_true_iff in Ho. destruct Ho as [Hn _].
      destruct (sident_head lo n (Some rel) off Hn) as (c & x & Ex & Hc). rewrite app_nil_l. rewrite Ex.
      eexists; eexists; split; [reflexivity|auto using idfirst_ophead].
  - apply andb_true_iff in Ho. destruct Ho as [Hd _]. unfold valid_numlabel in Hd.
    simpl render_op. destruct (L dg) as [|c t]; [discriminate|]. simpl in Hd. apply andb_true_iff in Hd.
    norm. eexists; eexists; split; [reflexivity|]. apply digit_ophead. tauto.
Qed.
