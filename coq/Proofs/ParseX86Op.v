(* C09 -- token-level lemmas: each operand kind, rendered with any layout, is parsed back. *)
From Coq Require Import String Ascii List Bool NArith ZArith Lia.
From OV Require Import Model.ParseX86 Model.SubLangX86 Proofs.ParseX86Lex.
Import ListNotations.
Local Open Scope char_scope.
Local Arguments L : simpl never.
Local Arguments S_ : simpl never.

Ltac norm := repeat first [rewrite <- app_assoc | rewrite <- app_comm_cons].
Tactic Notation "norm" "in" hyp(H) := repeat first [rewrite <- app_assoc in H | rewrite <- app_comm_cons in H].

Lemma skipL w r : blanks w = true -> stops is_ws r -> skip (L w ++ r) = r.
Proof. intros. apply skip_app; assumption. Qed.

Lemma brk_head_L w r : blanks w = true -> brk_head r -> brk_head (L w ++ r).
Proof. intros. apply brk_head_ws_app; assumption. Qed.

(* ---------------------------------------------------------------- registers *)
Lemma parse_reg_render n r : valid_reg n = true -> brk_head r ->
  parse_reg ("%" :: L n ++ r) = Some (n, r).
Proof.
  intros Hn Hr. unfold parse_reg. simpl hd_eqb. simpl tl. unfold valid_reg in Hn.
  destruct (L n) as [|c t] eqn:E; [discriminate|].
  rewrite span_app by (auto using brk_stops_alnum).
  rewrite <- E. rewrite S_L. reflexivity.
Qed.

(* ---------------------------------------------------------------- identifiers *)
Lemma parse_ident_render n r : valid_ident n = true -> brk_head r ->
  parse_ident (L n ++ r) = Some (n, r).
Proof.
  intros Hn Hr. unfold parse_ident. unfold valid_ident in Hn.
  destruct (L n) as [|c t] eqn:E; [discriminate|].
  apply andb_true_iff in Hn. destruct Hn as [Hc Ht].
  rewrite <- app_comm_cons. cbv iota beta. rewrite Hc. rewrite span_app by (auto using brk_stops_idrest).
  rewrite <- E. rewrite S_L. reflexivity.
Qed.

Lemma ident_head n : valid_ident n = true -> exists c t, L n = c :: t /\ is_idfirst c = true.
Proof.
  unfold valid_ident. destruct (L n) as [|c t]; [discriminate|].
  intro H. apply andb_true_iff in H. exists c, t. tauto.
Qed.

(* ---------------------------------------------------------------- parenthesised part *)
Lemma scale_cases sc : valid_scale sc = true -> sc = 1%Z \/ sc = 2%Z \/ sc = 4%Z \/ sc = 8%Z.
Proof.
  unfold valid_scale. intro H.
  repeat (apply orb_true_iff in H; destruct H as [H|H]); apply Z.eqb_eq in H; auto.
Qed.

Lemma scale_digits sc w r : valid_scale sc = true -> blanks w = true ->
  span is_digit (render_scale sc ++ L w ++ ")" :: r) = (render_scale sc, L w ++ ")" :: r)
  /\ scale_of (render_scale sc) = Some sc /\ render_scale sc <> [] /\ stops is_ws (render_scale sc ++ L w ++ ")" :: r).
Proof.
  intros H Hw.
  assert (stops is_digit (L w ++ ")" :: r)) as Hs.
  { apply brk_stops_digit. apply brk_head_L; [assumption|reflexivity]. }
  destruct (scale_cases sc H) as [E|[E|[E|E]]]; subst sc;
    (split; [apply span_app; [reflexivity|assumption]|]); (split; [reflexivity|]); (split; [discriminate|reflexivity]).
Qed.

Lemma parse_paren_render lo b i sc r :
  valid_oplay lo = true -> opt_reg b = true -> opt_reg i = true -> valid_scale sc = true ->
  (i = None -> sc = 1%Z) -> (b = None -> i = None -> False) ->
  parse_paren (render_paren lo b i sc ++ r) = Some (b, i, Some sc, r).
Proof.
  intros Hlo Hb Hi Hsc Hsc1 Hbi.
  unfold valid_oplay in Hlo. repeat rewrite andb_true_iff in Hlo.
  destruct Hlo as (Hwd & Hwlp & Hwb & Hwc1 & Hwi & Hwc2 & Hws).
  unfold parse_paren, render_paren. simpl hd_eqb. simpl tl.
  (* the index part, shared by both base cases *)
  assert (Hidx : forall bb ri, i = Some ri ->
            paren_after_base bb
              ((("," :: L (w_c1 lo) ++ "%" :: L ri ++ L (w_i lo) ++
                 (if andb (Z.eqb sc 1) (lo_omit1 lo) then [] else "," :: L (w_c2 lo) ++ render_scale sc ++ L (w_s lo)))
                ++ [")"]) ++ r)
            = Some (bb, Some ri, Some sc, r)).
  { intros bb ri Ei. subst i. simpl in Hi.
    unfold paren_after_base. simpl hd_eqb. simpl tl.
    norm.
    rewrite skipL by (assumption || reflexivity).
    norm.
    destruct (andb (Z.eqb sc 1) (lo_omit1 lo)) eqn:Eo.
    - norm. rewrite parse_reg_render by (assumption || (apply brk_head_L; [assumption|reflexivity])).
      rewrite skipL by (assumption || reflexivity). simpl.
      apply andb_true_iff in Eo. destruct Eo as [Eo _]. apply Z.eqb_eq in Eo. subst sc. reflexivity.
    - norm.
      rewrite parse_reg_render by (assumption || (apply brk_head_L; [assumption|reflexivity])).
      rewrite skipL by (assumption || reflexivity). simpl hd_eqb. simpl tl.
      destruct (scale_digits sc (w_s lo) r Hsc Hws) as (Hspan & Hof & Hne & Hst).
      remember (render_scale sc) as rs eqn:Er in *.
      destruct rs as [|x xs]; [contradiction|].
      rewrite skipL by assumption. rewrite Hspan.
      rewrite skipL by (assumption || reflexivity). simpl hd_eqb. simpl tl. cbv iota beta. rewrite Hof. reflexivity. }
  destruct b as [rb|]; simpl in Hb.
  - (* base present *)
    norm.
    rewrite skipL by (assumption || reflexivity). simpl hd_eqb.
    destruct i as [ri|].
    + norm. rewrite parse_reg_render.
      * rewrite skipL by (assumption || reflexivity).
        specialize (Hidx (Some rb) ri eq_refl). norm in Hidx.
        norm. exact Hidx.
      * assumption.
      * apply brk_head_L; [assumption|reflexivity].
    + norm. rewrite parse_reg_render by (assumption || (apply brk_head_L; [assumption|reflexivity])).
      rewrite skipL by (assumption || reflexivity).
      unfold paren_after_base. simpl. rewrite Hsc1 by reflexivity. reflexivity.
  - destruct i as [ri|]; [|exfalso; apply Hbi; reflexivity].
    specialize (Hidx None ri eq_refl).
    norm.
    rewrite skipL by (assumption || reflexivity). simpl hd_eqb.
    norm in Hidx. exact Hidx.
Qed.

(* ---------------------------------------------------------------- what follows an operand *)
Definition sep_start (r : chars) : Prop :=
  match r with [] => True | c :: _ => c = "," \/ c = "#" \/ c = "/" end.
Definition after_op (r : chars) : Prop :=
  exists w r', r = w ++ r' /\ forallb is_ws w = true /\ sep_start r'.

Lemma sep_start_brk r : sep_start r -> brk_head r.
Proof. destruct r; simpl; [auto|]. intros [H|[H|H]]; subst; reflexivity. Qed.
Lemma sep_start_stops_ws r : sep_start r -> stops is_ws r.
Proof. destruct r; simpl; [auto|]. intros [H|[H|H]]; subst; reflexivity. Qed.
Lemma after_op_brk r : after_op r -> brk_head r.
Proof. intros (w & r' & -> & Hw & Hs). apply brk_head_ws_app; auto using sep_start_brk. Qed.
Lemma after_op_skip r : after_op r -> sep_start (skip r).
Proof. intros (w & r' & -> & Hw & Hs). rewrite skip_app; auto using sep_start_stops_ws. Qed.
Lemma after_op_not_lp r : after_op r -> hd_eqb "(" (skip r) = false.
Proof.
  intro H. apply after_op_skip in H. destruct (skip r); simpl in *; [reflexivity|].
  destruct H as [H|[H|H]]; subst; reflexivity.
Qed.
Lemma after_op_delim r : after_op r -> delim r = true.
Proof.
  intros (w & r' & -> & Hw & Hs). destruct w as [|c w]; simpl in *.
  - destruct r'; [reflexivity|]. destruct Hs as [H|[H|H]]; subst; reflexivity.
  - apply andb_true_iff in Hw. destruct Hw as [Hc _]. rewrite Hc. reflexivity.
Qed.

(* ---------------------------------------------------------------- operands *)
Definition rop_of (first : bool) (lo : oplay) (o : operand) : rop :=
  match o with
  | OId n => if orb (lo_dollar lo) (negb first) then RGood o else RBare n
  | _ => RGood o
  end.

Lemma parse_operand_num c l : (c = "-" \/ is_digit c = true) ->
  parse_operand (c :: l) =
  match parse_number (c :: l) with
  | Some (NumOk z, r) =>
      with_disp (Some (DInt z)) (if Ascii.eqb c "-" then None else Some (RGood (OMem (DInt z) None None 1%Z))) r
  | Some (NumBad, r) => with_disp None None r
  | None => None
  end.
Proof.
  intros [H|H]; [subst; reflexivity|].
  unfold parse_operand. rewrite digit_not_pct, digit_not_dollar, digit_not_lp, H, orb_true_r by assumption. reflexivity.
Qed.

Lemma parse_operand_id c l : is_idfirst c = true ->
  parse_operand (c :: l) =
  match parse_ident (c :: l) with
  | Some (n, r) => with_disp (Some (DId n)) (Some (RBare n)) r
  | None => None
  end.
Proof.
  intro H. unfold parse_operand.
  rewrite idfirst_not_pct, idfirst_not_dollar, idfirst_not_lp, idfirst_not_minus, idfirst_not_digit, H by assumption.
  reflexivity.
Qed.

Lemma with_disp_paren lo d bare b i sc r :
  valid_oplay lo = true -> opt_reg b = true -> opt_reg i = true -> valid_scale sc = true ->
  (i = None -> sc = 1%Z) -> (b = None -> i = None -> False) ->
  forall w, forallb is_ws w = true ->
  with_disp (Some d) bare (w ++ render_paren lo b i sc ++ r) = Some (RGood (OMem d b i sc), r).
Proof.
  intros Hlo Hb Hi Hsc H1 H2 w Hw. unfold with_disp.
  rewrite skip_app by (assumption || reflexivity).
  change (hd_eqb "(" (render_paren lo b i sc ++ r)) with true. cbv iota.
  rewrite parse_paren_render by assumption. reflexivity.
Qed.

Lemma parse_operand_render first lo o r :
  valid_operand o = true -> valid_oplay lo = true -> after_op r ->
  parse_operand (render_op first lo o ++ r) = Some (rop_of first lo o, r).
Proof.
  intros Ho Hlo Hr. pose proof (after_op_brk r Hr) as Hbrk.
  destruct o as [n|z|n|d b i sc]; simpl in Ho.
  - (* register *)
    simpl render_op. norm. unfold parse_operand. simpl Ascii.eqb. cbv iota.
    rewrite parse_reg_render by assumption. reflexivity.
  - (* immediate *)
    simpl render_op. norm. unfold parse_operand. simpl Ascii.eqb. cbv iota.
    rewrite parse_number_render by assumption. reflexivity.
  - (* identifier *)
    destruct (ident_head n Ho) as (c & t & En & Hc).
    unfold render_op, rop_of. destruct (orb (lo_dollar lo) (negb first)).
    + norm. unfold parse_operand. simpl Ascii.eqb. cbv iota.
      rewrite En. norm. rewrite parse_number_ident by assumption. rewrite app_comm_cons, <- En.
      rewrite parse_ident_render by assumption. reflexivity.
    + rewrite En. norm. rewrite parse_operand_id by assumption. rewrite app_comm_cons, <- En.
      rewrite parse_ident_render by assumption. unfold with_disp.
      rewrite after_op_not_lp by assumption. reflexivity.
  - (* memory *)
    repeat rewrite andb_true_iff in Ho. destruct Ho as (Hb & Hi & Hsc & Hd & Hsc1 & Habs).
    assert (Hsc1' : i = None -> sc = 1%Z).
    { intro E. subst i. apply Z.eqb_eq. assumption. }
    pose proof Hlo as Hlo'. unfold valid_oplay in Hlo'. repeat rewrite andb_true_iff in Hlo'.
    destruct Hlo' as (Hwd & _).
    assert (Hparen : (b = None -> i = None -> False) ->
              forall d' bare w, forallb is_ws w = true ->
              with_disp (Some d') bare (w ++ render_paren lo b i sc ++ r) = Some (RGood (OMem d' b i sc), r)).
    { intros Hbi d' bare w Hw. apply with_disp_paren; assumption. }
    assert (Hbrk_paren : forall w, blanks w = true -> brk_head (L w ++ render_paren lo b i sc ++ r)).
    { intros w Hw. apply brk_head_L; [assumption|reflexivity]. }
    unfold rop_of.
    destruct d as [|z|n].
    + (* no displacement *)
      assert (Hbi : b = None -> i = None -> False).
      { intros -> ->. discriminate. }
      replace (render_op first lo (OMem DNone b i sc)) with (render_paren lo b i sc) by (destruct b, i; reflexivity).
      change (parse_operand (render_paren lo b i sc ++ r))
        with (with_disp (Some DNone) None ([] ++ render_paren lo b i sc ++ r)).
      apply Hparen; [assumption|reflexivity].
    + (* integer displacement *)
      destruct (render_Z_head lo z) as (c & t & Ez & Hc).
      destruct b as [rb|], i as [ri|];
        try (unfold render_op; rewrite Ez; norm; rewrite parse_operand_num by tauto;
             rewrite app_comm_cons, <- Ez; rewrite parse_number_render by (apply Hbrk_paren; assumption);
             apply Hparen; [intros; discriminate|assumption]).
      (* absolute address *)
      apply Z.leb_le in Habs. destruct Hc as [[_ Hneg]|[Hc _]]; [lia|].
      unfold render_op. rewrite Ez. norm. rewrite parse_operand_num by tauto.
      rewrite app_comm_cons, <- Ez. rewrite parse_number_render by assumption.
      unfold with_disp. rewrite after_op_not_lp by assumption.
      rewrite digit_not_minus by assumption. rewrite Hsc1' by reflexivity. reflexivity.
    + (* label displacement *)
      assert (Hbi : b = None -> i = None -> False).
      { intros -> ->. discriminate. }
      destruct (ident_head n Hd) as (c & t & En & Hc).
      replace (render_op first lo (OMem (DId n) b i sc)) with (L n ++ L (w_d lo) ++ render_paren lo b i sc)
        by (destruct b, i; reflexivity).
      rewrite En. norm. rewrite parse_operand_id by assumption. rewrite app_comm_cons, <- En.
      rewrite parse_ident_render by (assumption || (apply Hbrk_paren; assumption)).
      apply Hparen; assumption.
Qed.

Lemma render_op_head first lo o : valid_operand o = true ->
  exists c t, render_op first lo o = c :: t /\ is_ophead c = true.
Proof.
  intro Ho. destruct o as [n|z|n|d b i sc]; simpl in Ho.
  - eexists; eexists; split; reflexivity.
  - eexists; eexists; split; reflexivity.
  - unfold render_op. destruct (orb (lo_dollar lo) (negb first)).
    + eexists; eexists; split; reflexivity.
    + destruct (ident_head n Ho) as (c & t & En & Hc). exists c, t. split; [assumption|auto using idfirst_ophead].
  - repeat rewrite andb_true_iff in Ho. destruct Ho as (Hb & Hi & Hsc & Hd & Hsc1 & Habs).
    destruct d as [|z|n].
    + exists "(". eexists. split; [destruct b, i; reflexivity|reflexivity].
    + destruct (render_Z_head lo z) as (c & t & Ez & Hc).
      assert (is_ophead c = true) as Hh.
      { destruct Hc as [[-> _]|[Hc _]]; [reflexivity|auto using digit_ophead]. }
      destruct b, i; unfold render_op; rewrite Ez; norm; eexists; eexists; split; try reflexivity; assumption.
    + destruct (ident_head n Hd) as (c & t & En & Hc).
      destruct b, i; unfold render_op; try discriminate; rewrite En; norm;
        eexists; eexists; (split; [reflexivity|auto using idfirst_ophead]).
Qed.
