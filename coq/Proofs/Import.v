(* C20 -- proofs about the file-format model (Model/Import.v), for arbitrary
   number type, snapping function, operand decoder and float parser. *)
From Coq Require Import String Ascii List Bool Arith ZArith Lia.
From OV Require Import Model.PyString Model.ImportPre Model.Import.
Import ListNotations.
Open Scope string_scope.

Section Proofs.
Variable T : Type.
Variable validate : T -> string -> option T.
Variable decode : string -> option pydict.
Variable parse_float : string -> option T.
Variable V : variant.

Notation iform := (iform T).
Notation pdict := (pdict T).
Notation asm_go := (asm_go validate decode parse_float V).
Notation asm_entry := (asm_entry validate decode parse_float).
Notation ibench_step := (ibench_step validate).
Notation ibench_fold := (ibench_fold validate).

(* ------------------------------------------------------------------ assoc lists *)
Lemma assoc_set_same {A} k (v : A) d : assoc k (assoc_set k v d) = Some v.
Proof.
  induction d as [|[k' v'] r IH]; simpl.
  - rewrite String.eqb_refl. reflexivity.
  - destruct (String.eqb k k') eqn:E; simpl; rewrite E; auto.
Qed.
Lemma assoc_set_other {A} k k' (v : A) d : k <> k' -> assoc k' (assoc_set k v d) = assoc k' d.
Proof.
  intro N. induction d as [|[k2 v2] r IH]; simpl.
  - destruct (String.eqb k' k) eqn:E; auto. apply String.eqb_eq in E. congruence.
  - destruct (String.eqb k k2) eqn:E; simpl.
    + apply String.eqb_eq in E. subst k2.
      destruct (String.eqb k' k) eqn:E2; auto. apply String.eqb_eq in E2. congruence.
    + rewrite IH. reflexivity.
Qed.
Lemma keys_assoc_set {A} k (v : A) d k' :
  In k' (map fst (assoc_set k v d)) <-> k' = k \/ In k' (map fst d).
Proof.
  induction d as [|[k2 v2] r IH]; simpl.
  - intuition.
  - destruct (String.eqb k k2) eqn:E; simpl.
    + apply String.eqb_eq in E. subst. intuition.
    + rewrite IH. intuition.
Qed.
Lemma nodup_assoc_set {A} k (v : A) d : NoDup (map fst d) -> NoDup (map fst (assoc_set k v d)).
Proof.
  induction d as [|[k2 v2] r IH]; simpl; intro H.
  - repeat constructor; auto.
  - inversion H; subst. destruct (String.eqb k k2) eqn:E; simpl.
    + constructor; auto.
    + constructor; auto. rewrite keys_assoc_set. intros [X | X]; auto.
      subst. rewrite String.eqb_refl in E. discriminate.
Qed.
Lemma assoc_in {A} k (d : list (string * A)) e : assoc k d = Some e -> In k (map fst d).
Proof.
  induction d as [|[k2 v2] r IH]; simpl; [discriminate|].
  destruct (String.eqb k k2) eqn:E; intro H.
  - apply String.eqb_eq in E. auto.
  - right. auto.
Qed.
Lemma assoc_none {A} k (d : list (string * A)) : assoc k d = None -> ~ In k (map fst d).
Proof.
  induction d as [|[k2 v2] r IH]; simpl; [tauto|].
  destruct (String.eqb k k2) eqn:E; intro H; [discriminate|].
  intros [X | X]; [subst; rewrite String.eqb_refl in E; discriminate | apply IH; auto].
Qed.

(* ------------------------------------------------------------------ asmbench *)
Definition blank (l : string) : bool := String.eqb (strip l) "".

Inductive good_blocks : list string -> Prop :=
| gb_nil : good_blocks []
| gb_cons l0 l1 l2 l3 rest : blank l3 = true -> good_blocks rest -> good_blocks (l0 :: l1 :: l2 :: l3 :: rest).

(* the block at which the import must stop: its fourth line is not blank, or (with the bounds
   check) the file ends inside it *)
Definition malformed_head (bad : list string) : Prop :=
  (exists l0 l1 l2 l3 rest, bad = l0 :: l1 :: l2 :: l3 :: rest /\ blank l3 = false)
  \/ (v_bounds_check V = true /\ 1 <= length bad <= 3).

Lemma asm_prefix good bad : good_blocks good -> malformed_head bad ->
  forall d, asm_go (good ++ bad) d = asm_go good d.
Proof.
  intros G M. induction G as [| l0 l1 l2 l3 rest B G IH]; intro d.
  - simpl. destruct M as [(l0 & l1 & l2 & l3 & rest & -> & B) | (BC & L)].
    + simpl. unfold blank in B. rewrite B. reflexivity.
    + destruct bad as [|a [|b [|c [|x y]]]]; simpl in L; try lia; simpl; rewrite BC; reflexivity.
  - simpl. unfold blank in B. rewrite B. simpl.
    destruct (asm_entry l0 l1 l2) as [[k e]|]; simpl; auto.
Qed.

(* the code as found: a file that ends inside a block never imports anything *)
Lemma asm_truncated_fails good bad : v_bounds_check V = false -> good_blocks good -> 1 <= length bad <= 3 ->
  forall d, exists e, asm_go (good ++ bad) d = Err e.
Proof.
  intros BC G L. induction G as [| l0 l1 l2 l3 rest B G IH]; intro d.
  - simpl. destruct bad as [|a [|b [|c [|x y]]]]; simpl in L; try lia; simpl; rewrite BC; eauto.
  - simpl. unfold blank in B. rewrite B. simpl.
    destruct (asm_entry l0 l1 l2) as [[k e]|]; simpl; eauto.
Qed.

(* entries collected so far are only ever extended/overwritten by later blocks: an import that
   succeeds on good blocks yields exactly one entry per distinct name *)
Lemma asm_nodup lines : forall d d', asm_go lines d = Ok d' -> NoDup (map fst d) -> NoDup (map fst d').
Proof.
  assert (H : forall n lines, length lines <= n -> forall d d', asm_go lines d = Ok d' -> NoDup (map fst d) -> NoDup (map fst d')).
  { induction n; intros ls L d d' E N.
    - destruct ls; simpl in L; try lia. simpl in E. inversion E; subst; auto.
    - destruct ls as [|a [|b [|c [|x y]]]]; simpl in E;
        try (inversion E; subst; auto; fail);
        try (destruct (v_bounds_check V); inversion E; subst; auto; fail).
      destruct (negb _); [inversion E; subst; auto|].
      destruct (asm_entry a b c) as [[k e]|]; simpl in E; [|discriminate].
      eapply IHn in E; eauto. { simpl in L. lia. } apply nodup_assoc_set; auto. }
  intros. eapply H; eauto.
Qed.

(* ------------------------------------------------------------------ ibench *)
Definition kind_eqb (a b : kind) : bool :=
  match a, b with KTP, KTP | KLT, KLT | KNone, KNone => true | _, _ => false end.

(* the value a form ends up with: the snapped measurement of the LAST line of that kind for that
   key, whatever the order and interleaving of the lines *)
Fixpoint final_val (kd : kind) (mode : string) (k : string) (toks : list (itoken T)) (init : option T) : option T :=
  match toks with
  | [] => init
  | t :: r =>
      final_val kd mode k r
        (if andb (String.eqb (t_key t) k) (kind_eqb (t_kind t) kd)
         then match t_meas t with Ok m => validate m mode | Err _ => init end
         else init)
  end.

Definition new_is_blank (t : itoken T) : Prop :=
  forall e, t_new t = Ok e -> f_tp e = None /\ f_lt e = None.

Definition tp_of (o : option iform) : option T := match o with Some e => f_tp e | None => None end.
Definition lt_of (o : option iform) : option T := match o with Some e => f_lt e | None => None end.

Lemma fold_err toks e : fold_left (fun acc t => bind acc (fun d => ibench_step d t)) toks (Err e) = Err e.
Proof. induction toks; simpl; auto. Qed.

Lemma ibench_fold_cons t r d : ibench_fold (t :: r) d =
  match ibench_step d t with Ok d1 => ibench_fold r d1 | Err e => Err e end.
Proof.
  unfold ibench_fold. simpl. destruct (ibench_step d t); auto. apply fold_err.
Qed.

Lemma step_spec d t d1 : new_is_blank t -> ibench_step d t = Ok d1 ->
  exists e', d1 = assoc_set (t_key t) e' d /\
    f_tp e' = (if kind_eqb (t_kind t) KTP then match t_meas t with Ok m => validate m "tp" | Err _ => tp_of (assoc (t_key t) d) end
               else tp_of (assoc (t_key t) d)) /\
    f_lt e' = (if kind_eqb (t_kind t) KLT then match t_meas t with Ok m => validate m "lt" | Err _ => lt_of (assoc (t_key t) d) end
               else lt_of (assoc (t_key t) d)).
Proof.
  intros NB H. unfold ibench_step in H.
  destruct (assoc (t_key t) d) as [e0|] eqn:A.
  - simpl in H. destruct (t_kind t); simpl in *.
    + destruct (t_meas t); simpl in H; inversion H; subst. eexists; split; [reflexivity|]. simpl. auto.
    + destruct (t_meas t); simpl in H; inversion H; subst. eexists; split; [reflexivity|]. simpl. auto.
    + inversion H; subst. eexists; split; [reflexivity|]. auto.
  - destruct (t_new t) as [e0|] eqn:N; simpl in H; [|discriminate].
    destruct (NB e0 N) as [N1 N2].
    destruct (t_kind t); simpl in *.
    + destruct (t_meas t); simpl in H; inversion H; subst. eexists; split; [reflexivity|]. simpl. auto.
    + destruct (t_meas t); simpl in H; inversion H; subst. eexists; split; [reflexivity|]. simpl. auto.
    + inversion H; subst. eexists; split; [reflexivity|]. auto.
Qed.

Lemma ibench_inv toks : (forall t, In t toks -> new_is_blank t) ->
  forall d0 d, ibench_fold toks d0 = Ok d -> NoDup (map fst d0) ->
  NoDup (map fst d) /\
  (forall k, In k (map fst d) <-> In k (map fst d0) \/ exists t, In t toks /\ t_key t = k) /\
  (forall k, tp_of (assoc k d) = final_val KTP "tp" k toks (tp_of (assoc k d0)) /\
             lt_of (assoc k d) = final_val KLT "lt" k toks (lt_of (assoc k d0))).
Proof.
  induction toks as [|t r IH]; intros WF d0 d H N.
  - unfold Import.ibench_fold in H. simpl in H. inversion H; subst. repeat split; auto.
    + intros [X | (t & [] & _)]; auto.
  - rewrite ibench_fold_cons in H. destruct (ibench_step d0 t) as [d1|] eqn:S; [|discriminate].
    destruct (step_spec d0 t d1 (WF t (or_introl eq_refl)) S) as (e' & -> & TP & LT).
    destruct (IH (fun t' I => WF t' (or_intror I)) _ _ H (nodup_assoc_set _ _ _ N)) as (N' & K' & Vl').
    split; [exact N'|]. split.
    + intro k. rewrite K'. rewrite keys_assoc_set. split.
      * intros [[X | X] | (t' & I & E)]; [right; exists t; simpl; auto | auto | right; exists t'; simpl; auto].
      * intros [X | (t' & [I | I] & E)]; [auto | subst; auto | right; eauto].
    + intro k. destruct (Vl' k) as [V1 V2]. rewrite V1, V2. simpl.
      destruct (String.eqb (t_key t) k) eqn:E.
      * apply String.eqb_eq in E. subst k. rewrite assoc_set_same. simpl. rewrite TP, LT.
        split; destruct (t_kind t); simpl; reflexivity.
      * assert (t_key t <> k) by (intro X; subst; rewrite String.eqb_refl in E; discriminate).
        rewrite assoc_set_other by auto. simpl. split; reflexivity.
Qed.

Lemma ibench_merge_gen toks d : (forall t, In t toks -> new_is_blank t) ->
  ibench_fold toks [] = Ok d ->
  NoDup (map fst d) /\
  (forall k, In k (map fst d) <-> exists t, In t toks /\ t_key t = k) /\
  (forall k e, assoc k d = Some e ->
     f_tp e = final_val KTP "tp" k toks None /\ f_lt e = final_val KLT "lt" k toks None).
Proof.
  intros WF H. destruct (ibench_inv toks WF [] d H (NoDup_nil _)) as (N & K & Vl).
  split; [exact N|]. split.
  - intro k. rewrite K. simpl. intuition.
  - intros k e A. destruct (Vl k) as [V1 V2]. rewrite A in V1, V2. simpl in V1, V2. auto.
Qed.

(* tokens produced from real lines create blank entries *)
Lemma token_blank line t : ibench_token decode parse_float V line = Some t -> new_is_blank t.
Proof.
  unfold ibench_token. destruct (orb _ _); [discriminate|]. intro H. inversion H; subst; clear H.
  unfold new_is_blank. simpl. unfold new_entry. intros e.
  destruct (nth_error _ 1); [|discriminate].
  destruct (decode_ops decode s); simpl; [|discriminate]. intro X. inversion X; subst. simpl. auto.
Qed.
Lemma tokens_blank lines t : In t (ibench_tokens decode parse_float V lines) -> new_is_blank t.
Proof.
  induction lines as [|l r IH]; simpl; [tauto|].
  destruct (ibench_token decode parse_float V l) eqn:E; simpl; auto.
  intros [X | X]; auto. subst. eapply token_blank; eauto.
Qed.

(* the two lines of one form, in either order: one entry carrying both values *)
Lemma ibench_two_lines key e0 mt ml k1 k2 :
  f_tp e0 = None -> f_lt e0 = None ->
  ((k1 = KTP /\ k2 = KLT) \/ (k1 = KLT /\ k2 = KTP)) ->
  let mk kd := mktoken key (Ok e0) kd (Ok (match kd with KTP => mt | _ => ml end)) in
  ibench_fold [mk k1; mk k2] [] =
    Ok [(key, mkform (f_mnemonic e0) (f_operands e0) (validate mt "tp") (validate ml "lt"))].
Proof.
  intros A B [[-> ->] | [-> ->]]; unfold Import.ibench_fold, Import.ibench_step, set_tp, set_lt; simpl;
    repeat (rewrite String.eqb_refl; simpl); rewrite ?A, ?B; reflexivity.
Qed.

(* ------------------------------------------------------------------ insertion *)
(* two forms are "the same form" when the (upper-cased) mnemonic and the decoded operands agree *)
Definition same_form (a b : iform) : Prop :=
  py_upper (f_mnemonic a) = py_upper (f_mnemonic b) /\ ops_eqb (f_operands a) (f_operands b) = true.

Lemma up_char_idem c : up_char (up_char c) = up_char c.
Proof. destruct c as [[] [] [] [] [] [] [] []]; reflexivity. Qed.
Lemma py_upper_idem s : py_upper (py_upper s) = py_upper s.
Proof. induction s; simpl; auto. unfold py_upper in *. simpl. rewrite up_char_idem, IHs. reflexivity. Qed.

Lemma pyval_eqb_eq a b : pyval_eqb a b = true <-> a = b.
Proof.
  destruct a as [s|z|x|], b as [s'|z'|x'|]; simpl; split; intro H; try discriminate; try reflexivity.
  - apply String.eqb_eq in H. congruence.
  - inversion H. apply String.eqb_refl.
  - apply Z.eqb_eq in H. congruence.
  - inversion H. apply Z.eqb_refl.
  - apply Bool.eqb_prop in H. congruence.
  - inversion H. destruct x'; reflexivity.
Qed.
Lemma pydict_eqb_eq a : forall b, pydict_eqb a b = true <-> a = b.
Proof.
  induction a as [|[k v] r IH]; destruct b as [|[k' v'] r']; simpl; split; intro H; try discriminate; auto.
  - apply andb_true_iff in H. destruct H as [H1 H]. apply andb_true_iff in H. destruct H as [H2 H3].
    apply String.eqb_eq in H1. apply pyval_eqb_eq in H2. apply IH in H3. congruence.
  - inversion H; subst. rewrite String.eqb_refl. simpl. apply andb_true_iff. split.
    + apply pyval_eqb_eq. reflexivity.
    + apply IH. reflexivity.
Qed.
Lemma ops_eqb_eq a : forall b, ops_eqb a b = true <-> a = b.
Proof.
  induction a as [|x r IH]; destruct b as [|y s]; simpl; split; intro H; try discriminate; auto.
  - apply andb_true_iff in H. destruct H as [H1 H2]. apply pydict_eqb_eq in H1. apply IH in H2. congruence.
  - inversion H; subst. apply andb_true_iff. split; [apply pydict_eqb_eq | apply IH]; reflexivity.
Qed.

Lemma same_form_refl a : same_form a a.
Proof. split; auto. apply ops_eqb_eq. reflexivity. Qed.
Lemma same_form_trans a b c : same_form a b -> same_form b c -> same_form a c.
Proof.
  intros [A1 A2] [B1 B2]. split; [congruence|].
  apply ops_eqb_eq in A2. apply ops_eqb_eq in B2. apply ops_eqb_eq. congruence.
Qed.

Notation set_instruction := (set_instruction (T:=T) V).
Notation matches := (matches (T:=T) V).

(* when does an inserted form replace nothing it should not: either AArch64, or the exact-match repair *)
Definition sound_matching (x86 : bool) : Prop := x86 = false \/ v_exact_match V = true.

(* invariant of the machine-model state during an import *)
Record inv (m : mm T) (seen : list iform) : Prop := {
  inv_sub : forall f, In f (m_forms m) -> In f seen;
  inv_all : forall e, In e seen -> exists f, In f (m_forms m) /\ same_form f e;
  inv_ref : forall k l i, In (k, l) (m_dict m) -> In (RForm i) l ->
            exists g, nth_error (m_forms m) i = Some g /\ py_upper (f_mnemonic g) = py_upper k
}.

Lemma assoc_In {A} k (d : list (string * A)) l : assoc k d = Some l -> In (k, l) d.
Proof.
  induction d as [|[k2 v2] r IH]; simpl; [discriminate|].
  destruct (String.eqb k k2) eqn:E; intro H.
  - apply String.eqb_eq in E. inversion H; subst. auto.
  - auto.
Qed.

Lemma In_list_set {A} i (v : A) l x : In x (list_set i v l) -> x = v \/ In x l.
Proof.
  revert i. induction l as [|y r IH]; intros [|j]; simpl; try tauto.
  - intros [X | X]; auto.
  - intros [X | X]; auto. apply IH in X. tauto.
Qed.
Lemma list_set_nth {A} i (v : A) l g : nth_error l i = Some g -> nth_error (list_set i v l) i = Some v.
Proof. revert i. induction l as [|y r IH]; intros [|j]; simpl; try discriminate; auto. Qed.
Lemma list_set_nth_other {A} i j (v : A) l : i <> j -> nth_error (list_set i v l) j = nth_error l j.
Proof.
  revert i j. induction l as [|y r IH]; intros [|i] [|j] N; simpl; auto; try congruence.
Qed.
Lemma list_set_keeps {A} i (v : A) l g x : nth_error l i = Some g -> In x l -> x = g \/ In x (list_set i v l).
Proof.
  revert i. induction l as [|y r IH]; intros [|j]; simpl; try discriminate.
  - intros E [X | X]; [inversion E; subst; auto | auto].
  - intros E [X | X]; auto. destruct (IH _ E X); auto.
Qed.

Lemma In_dict_append k r d k' l : In (k', l) (dict_append k r d) ->
  In (k', l) d \/ (k' = k /\ exists l0, l = (l0 ++ [r])%list /\ (l0 = [] \/ In (k, l0) d)).
Proof.
  induction d as [|[k2 l2] rest IH]; simpl.
  - intros [X | []]. inversion X; subst. right. split; auto. exists []. auto.
  - destruct (String.eqb k k2) eqn:E; simpl.
    + apply String.eqb_eq in E. subst k2. intros [X | X]; auto.
      inversion X; subst. right. split; auto. exists l2. auto.
    + intros [X | X]; auto. destruct (IH X) as [Y | (-> & l0 & -> & [Z | Z])]; auto.
      * right. split; auto. exists l0. auto.
      * right. split; auto. exists l0. simpl. auto.
Qed.

Lemma set_instruction_inv x86 m seen f : sound_matching x86 -> f_operands f <> [] ->
  inv m seen -> inv (set_instruction x86 m f) (seen ++ [f]).
Proof.
  intros SM NE [I1 I2 I3]. unfold Import.set_instruction.
  destruct (assoc (py_upper (f_mnemonic f)) (m_dict m)) as [cands|] eqn:A.
  2: { simpl. constructor; simpl.
    - intros g G. apply in_app_or in G. apply in_or_app. destruct G as [G | [G | []]]; [left; auto | right; simpl; auto].
    - intros e E. apply in_app_or in E. destruct E as [E | [E | []]].
      + destruct (I2 e E) as (g & G1 & G2). exists g. split; auto. apply in_or_app; auto.
      + subst. exists e. split; [apply in_or_app; right; simpl; auto | apply same_form_refl].
    - intros k l i K R. apply In_dict_append in K. destruct K as [K | (-> & l0 & -> & Z)].
      + destruct (I3 _ _ _ K R) as (g & G1 & G2). exists g. split; auto.
        rewrite nth_error_app1; auto. apply nth_error_Some. congruence.
      + apply in_app_or in R. destruct R as [R | [R | []]].
        * destruct Z as [-> | Z]; [destruct R|]. destruct (I3 _ _ _ Z R) as (g & G1 & G2). exists g. split; auto.
          rewrite nth_error_app1; auto. apply nth_error_Some. congruence.
        * inversion R; subst. exists f. split; auto. rewrite nth_error_app2 by lia. rewrite Nat.sub_diag. reflexivity. }
  destruct (find (matches x86 (m_forms m) (f_operands f)) cands) as [[n|i]|] eqn:F.
  - (* an entry of the shipped model matched: impossible under sound matching with >= 1 operand *)
    exfalso. apply find_some in F. destruct F as [_ F]. unfold Import.matches in F.
    destruct SM as [X | X]; rewrite X in F; simpl in F.
    + apply andb_true_iff in F. destruct F as [_ F]. apply Nat.eqb_eq in F.
      destruct (f_operands f); [congruence | discriminate].
    + rewrite andb_false_r in F. apply andb_true_iff in F. destruct F as [_ F]. apply Nat.eqb_eq in F.
      destruct (f_operands f); [congruence | discriminate].
  - (* an earlier imported form with the same key and equal operands is overwritten *)
    apply find_some in F. destruct F as [R F]. apply assoc_In in A.
    destruct (I3 _ _ _ A R) as (g & G1 & G2). unfold Import.matches in F. rewrite G1 in F.
    assert (OPS : ops_eqb (f_operands g) (f_operands f) = true).
    { destruct SM as [-> | EM].
      - apply andb_true_iff in F. destruct F as [_ F]. apply Nat.eqb_eq in F.
        destruct (f_operands f); [congruence | discriminate].
      - rewrite EM in F. destruct x86; auto.
        apply andb_true_iff in F. destruct F as [_ F]. apply Nat.eqb_eq in F.
        destruct (f_operands f); [congruence | discriminate]. }
    assert (SF : same_form f g).
    { split. - rewrite G2. rewrite py_upper_idem. reflexivity.
      - apply ops_eqb_eq in OPS. apply ops_eqb_eq. congruence. }
    simpl. constructor; simpl.
    + intros h H. apply In_list_set in H. apply in_or_app. destruct H as [-> | H]; [right; simpl; auto | left; auto].
    + intros e E. apply in_app_or in E. destruct E as [E | [E | []]].
      * destruct (I2 e E) as (h & H1 & H2).
        destruct (list_set_keeps i f _ _ _ G1 H1) as [-> | H3].
        -- exists f. split; [eapply nth_error_In; eapply list_set_nth; eauto | eapply same_form_trans; eauto].
        -- exists h. auto.
      * subst. exists e. split; [eapply nth_error_In; eapply list_set_nth; eauto | apply same_form_refl].
    + intros k l j K R'. destruct (I3 _ _ _ K R') as (h & H1 & H2).
      destruct (Nat.eq_dec i j) as [-> | NE'].
      * exists f. split; [eapply list_set_nth; eauto|].
        rewrite G1 in H1. inversion H1; subst h. destruct SF as [S1 _]. congruence.
      * exists h. split; auto. rewrite list_set_nth_other; auto.
  - simpl. constructor; simpl.
    + intros g G. apply in_app_or in G. apply in_or_app. destruct G as [G | [G | []]]; [left; auto | right; simpl; auto].
    + intros e E. apply in_app_or in E. destruct E as [E | [E | []]].
      * destruct (I2 e E) as (g & G1 & G2). exists g. split; auto. apply in_or_app; auto.
      * subst. exists e. split; [apply in_or_app; right; simpl; auto | apply same_form_refl].
    + intros k l i K R. apply In_dict_append in K. destruct K as [K | (-> & l0 & -> & Z)].
      * destruct (I3 _ _ _ K R) as (g & G1 & G2). exists g. split; auto.
        rewrite nth_error_app1; auto. apply nth_error_Some. congruence.
      * apply in_app_or in R. destruct R as [R | [R | []]].
        -- destruct Z as [-> | Z]; [destruct R|]. destruct (I3 _ _ _ Z R) as (g & G1 & G2). exists g. split; auto.
           rewrite nth_error_app1; auto. apply nth_error_Some. congruence.
        -- inversion R; subst. exists f. split; auto. rewrite nth_error_app2 by lia. rewrite Nat.sub_diag. reflexivity.
Qed.

Lemma fold_inv x86 entries : sound_matching x86 -> (forall e, In e entries -> f_operands e <> []) ->
  forall m seen, inv m seen -> inv (fold_left (set_instruction x86) entries m) (seen ++ entries).
Proof.
  intros SM. induction entries as [|e r IH]; intros NE m seen I; simpl.
  - rewrite app_nil_r. auto.
  - replace (seen ++ e :: r)%list with ((seen ++ [e]) ++ r)%list by (rewrite <- app_assoc; reflexivity).
    apply IH; [intros; apply NE; simpl; auto|]. apply set_instruction_inv; auto. apply NE. simpl. auto.
Qed.

Lemma insert_all_appear x86 existing entries : sound_matching x86 ->
  (forall e, In e entries -> f_operands e <> []) ->
  (forall e, In e entries -> exists f, In f (insert_all V x86 existing entries) /\ same_form f e) /\
  (forall f, In f (insert_all V x86 existing entries) -> In f entries).
Proof.
  intros SM NE. unfold insert_all.
  assert (I0 : inv (mkmm (T:=T) [] (map (fun p => (fst p, map RExisting (snd p))) existing)) []).
  { constructor; simpl; try tauto.
    intros k l i K R. exfalso. apply in_map_iff in K. destruct K as ([k0 l0] & E & _). simpl in E. inversion E; subst.
    apply in_map_iff in R. destruct R as (x & X & _). discriminate. }
  destruct (fold_inv x86 entries SM NE _ _ I0) as [J1 J2 _]. simpl in *. split; auto.
Qed.

(* every entry created from a name has at least one operand (str.split never returns []) *)
Lemma split_chr_nonempty sep s : split_chr sep s <> [].
Proof. destruct s; simpl; [discriminate|]. destruct (Ascii.eqb a sep); [discriminate|]. destruct (split_chr sep s); discriminate. Qed.
Lemma map_res_length {A B} (f : A -> res B) l l' : map_res f l = Ok l' -> length l' = length l.
Proof.
  revert l'. induction l as [|x r IH]; simpl; intros l' H.
  - inversion H; reflexivity.
  - destruct (f x); simpl in H; [|discriminate]. destruct (map_res f r); simpl in H; [|discriminate].
    inversion H; subst. simpl. f_equal. apply IH. reflexivity.
Qed.
Lemma new_entry_nonempty name (e : iform) : new_entry T decode name = Ok e -> f_operands e <> [].
Proof.
  unfold new_entry. destruct (nth_error _ 1); [|discriminate].
  unfold decode_ops. destruct (map_res _ _) eqn:M; simpl; [|discriminate].
  intro H. inversion H; subst; simpl. apply map_res_length in M.
  pose proof (split_chr_nonempty "_" s). destruct (split_chr "_" s); [congruence|]. destruct a; simpl in M; [lia|discriminate].
Qed.

End Proofs.
