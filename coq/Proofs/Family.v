(* The bounded family of C02 is complete for its shape, and (finite sweep on the bit-exact binary64
   model, comparison done in exact rationals) the CLI's bottleneck is within 0.15 cycles of the optimum. *)
From Coq Require Import ZArith QArith List Bool String Lia PrimFloat.
From OV Require Import Model.Num Model.Pressure Model.Family.
Import ListNotations.

Lemma words_complete {A} (al : list A) : forall n w,
  List.length w = n -> (forall x, In x w -> In x al) -> In w (words al n).
Proof.
  induction n as [|n IH]; intros w L H.
  - destruct w; [left; reflexivity | discriminate].
  - destruct w as [|a w]; [discriminate|]. cbn [words].
    apply in_concat. exists (map (fun b => b :: w) al). split.
    + apply in_map_iff. exists w. split; [reflexivity|]. apply IH; [simpl in L; lia | intros; apply H; right; assumption].
    + apply in_map_iff. exists a. split; [reflexivity | apply H; left; reflexivity].
Qed.

Lemma words_sound {A} (al : list A) : forall n w, In w (words al n) -> List.length w = n /\ forall x, In x w -> In x al.
Proof.
  induction n as [|n IH]; intros w H.
  - destruct H as [H|[]]. subst. split; [reflexivity | intros x []].
  - cbn [words] in H. apply in_concat in H. destruct H as (l & Hl & Hw).
    apply in_map_iff in Hl. destruct Hl as (w0 & E & Hw0). subst l.
    apply in_map_iff in Hw. destruct Hw as (a & E & Ha). subst w.
    destruct (IH _ Hw0) as (L & I). split; [simpl; lia|]. intros x [Hx|Hx]; [subst; exact Ha | apply I; exact Hx].
Qed.

Definition is_form (f : fam_form) : Prop := In f all_forms.

(* shape of the property's family: forms are single micro-ops of 1 or 2 cycles on a non-empty subset of the 3
   ports (canonically ordered), length 1..3, or length 4 without 2-cycle forms *)
Theorem family_complete : forall w,
  (forall f, In f w -> is_form f) ->
  ((1 <= List.length w <= 3)%nat \/ (List.length w = 4%nat /\ forall f, In f w -> fst f = false)) ->
  In w family.
Proof.
  intros w HF HL. unfold family. rewrite !in_app_iff.
  destruct HL as [HL|[HL H1]].
  - assert (C : List.length w = 1%nat \/ List.length w = 2%nat \/ List.length w = 3%nat) by lia.
    destruct C as [C|[C|C]]; [left | right; left | right; right; left]; apply words_complete; auto.
  - right; right; right. apply words_complete; auto.
    intros f Hf. specialize (HF f Hf). specialize (H1 f Hf). unfold is_form, all_forms in HF.
    apply in_app_iff in HF. destruct HF as [HF|HF]; [exact HF|].
    unfold forms2 in HF. apply in_map_iff in HF. destruct HF as (s & E & _). subst f. discriminate.
Qed.

Lemma family_size : List.length family = 5355%nat.
Proof. vm_compute. reflexivity. Qed.

(* |bottleneck - optimum| <= 0.15, compared exactly *)
Definition near_opt (w : list fam_form) : bool :=
  match cli_bottleneck FNum w with
  | Ok b => let diff := Qminus (f_to_Q b) (Qmake (opt6 w) 6) in
            andb (Qle_bool diff (15 # 100)) (Qle_bool (Qopp (15 # 100)) diff)
  | Err _ => false
  end.

(* never above the uniform bottleneck, never below optimum - 0.01 (the rounding step; 1e-9 absorbs the
   distance between the decimal 1.99 and the double nearest to it) *)
Definition sane (w : list fam_form) : bool :=
  match cli_bottleneck FNum w, uniform_bottleneck FNum w with
  | Ok b, Ok u => andb (PrimFloat.leb b u) (Qle_bool (Qminus (Qmake (opt6 w) 6) ((1 # 100) + (1 # 1000000000))) (f_to_Q b))
  | _, _ => false
  end.

Lemma family_near_opt_sweep : forallb (fun w => andb (near_opt w) (sane w)) family = true.
Proof. vm_compute. reflexivity. Qed.
