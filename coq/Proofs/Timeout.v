(* Lemmas about Model/Timeout.v (the poll loop) *)
From Coq Require Import ZArith List Bool Lia.
From OV Require Import Model.Parallel Model.Timeout Proofs.Parallel.
Import ListNotations.
Open Scope Z_scope.

Section Loop.
  Variables (rule : flag_rule) (clk : nat -> Z) (T : Z) (ws : list worker).

  Definition within (j : nat) : Prop := clk j - clk 0%nat <= T.

  (* what the loop has seen when it is left *)
  Definition poll_post (i fuel : nat) (o : outcome) : Prop :=
    (i <= exit_poll o)%nat /\
    (forall j, (i <= j < exit_poll o)%nat -> within j /\ any_alive ws (clk j) = true) /\
    match how o with
    | ExitAllDone =>
        within (exit_poll o) /\ any_alive ws (clk (exit_poll o)) = false /\ timed_out o = false /\
        killed o = all_false ws /\ joined o = all_true ws /\ shared o = flat_map all_blocks ws
    | ExitDeadline =>
        ~ within (exit_poll o) /\ timed_out o = flag_at rule ws (clk (exit_poll o)) /\
        killed o = map (fun w => alive w (clk (exit_poll o))) ws /\ joined o = all_true ws /\
        shared o = flat_map (fun w => delivered w (clk (exit_poll o))) ws
    | OutOfFuel => exit_poll o = (i + fuel)%nat /\ timed_out o = false
    | _ => False
    end.

  Lemma poll_spec : forall fuel i, poll_post i fuel (poll rule fuel clk T ws i).
  Proof.
    induction fuel as [|f IH]; intros i; simpl.
    - unfold poll_post. simpl. repeat split; intros; lia.
    - destruct (clk i - clk 0%nat <=? T) eqn:E.
      + apply Z.leb_le in E. destruct (any_alive ws (clk i)) eqn:A.
        * specialize (IH (S i)). unfold poll_post in *. destruct IH as (H1 & H2 & H3).
          split; [lia|]. split.
          -- intros j Hj. destruct (Nat.eq_dec j i) as [->|N]; [split; assumption|]. apply H2. lia.
          -- destruct (how (poll rule f clk T ws (S i))); auto. destruct H3. split; auto. lia.
        * unfold poll_post. simpl. repeat split; intros; auto; lia.
      + apply Z.leb_gt in E. unfold poll_post, within. simpl. repeat split; intros; auto; lia.
  Qed.
End Loop.

Lemma clock_lower (clk : nat -> Z) step : ClockOK clk step ->
  forall i, (1 <= i)%nat -> (Z.of_nat i - 1) * step <= clk i - clk 0%nat.
Proof.
  intros (Hs & H1 & Hn). induction i as [|i IH]; intros Hi; [lia|].
  destruct (Nat.eq_dec i 0) as [->|N].
  - simpl. lia.
  - specialize (IH ltac:(lia)). specialize (Hn i ltac:(lia)). nia.
Qed.

Lemma poll_terminates rule clk step T ws : ClockOK clk step ->
  how (poll rule (fuel_for T step) clk T ws 1) <> OutOfFuel.
Proof.
  intros C E. pose proof (poll_spec rule clk T ws (fuel_for T step) 1%nat) as P.
  unfold poll_post in P. rewrite E in P. destruct P as (_ & P & (Ee & _)).
  set (fu := fuel_for T step) in *.
  assert (Hf : (1 <= fu < 1 + fu)%nat) by (unfold fu, fuel_for; lia).
  rewrite Ee in P. destruct (P fu Hf) as [W _]. unfold within in W.
  pose proof (clock_lower clk step C fu ltac:(lia)) as L.
  destruct C as (Hs & _).
  assert (T < (Z.of_nat fu - 1) * step).
  { unfold fu, fuel_for. rewrite Nat2Z.inj_add.
    destruct (Z_lt_le_dec T 0) as [Tn|Tp].
    - assert (0 <= Z.of_nat (Z.to_nat (T / step))) by lia. nia.
    - rewrite Z2Nat.id by (apply Z.div_pos; lia).
      pose proof (Z.mul_succ_div_gt T step Hs). nia. }
  lia.
Qed.

Lemma any_alive_false ws t : any_alive ws t = false -> forall w, In w ws -> alive w t = false.
Proof.
  unfold any_alive. intros H w Hw. destruct (alive w t) eqn:A; auto.
  assert (existsb (fun w => alive w t) ws = true) by (apply existsb_exists; exists w; auto). congruence.
Qed.

Lemma delivered_incl w t : incl (delivered w t) (all_blocks w).
Proof.
  unfold delivered, all_blocks. destruct (alive w t); [|apply incl_refl].
  intros b Hb. apply in_map_iff in Hb. destruct Hb as (x & E & Hx). apply filter_In in Hx.
  apply in_map_iff. exists x. tauto.
Qed.

Lemma flat_map_incl {A B} (f g : A -> list B) l :
  (forall a, incl (f a) (g a)) -> incl (flat_map f l) (flat_map g l).
Proof.
  intros H b Hb. apply in_flat_map in Hb. destruct Hb as (a & Ha & Hb).
  apply in_flat_map. exists a. split; auto. apply H. assumption.
Qed.

Lemma concat_incl {A} (a b : list (list A)) : incl a b -> incl (concat a) (concat b).
Proof.
  intros H x Hx. apply in_concat in Hx. destruct Hx as (l & Hl & Hx). apply in_concat. exists l. auto.
Qed.

(* whatever happens, the shared list only holds blocks that the complete search produces *)
Lemma shared_incl rule clk step T ws :
  incl (shared (run_parallel rule clk step T ws)) (flat_map all_blocks ws).
Proof.
  unfold run_parallel. destruct (T =? -1).
  - destruct (forallb terminates ws); simpl; [apply incl_refl | intros x []].
  - pose proof (poll_spec rule clk T ws (fuel_for T step) 1%nat) as P. unfold poll_post in P.
    destruct P as (_ & _ & P).
    destruct (how (poll rule (fuel_for T step) clk T ws 1)) eqn:E; try contradiction.
    + destruct P as (_ & _ & _ & _ & _ & ->). apply incl_refl.
    + destruct P as (_ & _ & _ & _ & ->). apply flat_map_incl. intros; apply delivered_incl.
    + (* OutOfFuel delivers nothing *)
      clear P. revert E. generalize 1%nat. induction (fuel_for T step) as [|f IH]; intros i; simpl.
      * intros _ x [].
      * destruct (clk i - clk 0%nat <=? T); [destruct (any_alive ws (clk i))|]; simpl; try discriminate. apply IH.
Qed.

(* ------------------------------------------------------------------ the C19 statements *)
Definition AllDoneAt (clk : nat -> Z) (T : Z) (ws : list worker) (i : nat) : Prop :=
  (1 <= i)%nat /\ (forall j, (1 <= j <= i)%nat -> clk j - clk 0%nat <= T) /\ any_alive ws (clk i) = false.

Lemma poll_cases rule clk step T ws : ClockOK clk step ->
  let o := poll rule (fuel_for T step) clk T ws 1 in
  poll_post rule clk T ws 1 (fuel_for T step) o /\ (how o = ExitAllDone \/ how o = ExitDeadline).
Proof.
  intros C o. pose proof (poll_spec rule clk T ws (fuel_for T step) 1%nat) as P. split; [exact P|].
  pose proof (poll_terminates rule clk step T ws C) as N. fold o in N, P.
  unfold poll_post in P. destruct (how o); try tauto; destruct P as (_ & _ & []).
Qed.

Lemma flag_iff_lemma clk step T ws : ClockOK clk step ->
  let o := run_parallel FlagOnExhaustion clk step T ws in
  (timed_out o = true <-> how o = ExitDeadline) /\
  (timed_out o = true <->
     T <> -1 /\ forall i, (1 <= i)%nat -> (forall j, (1 <= j <= i)%nat -> clk j - clk 0%nat <= T) ->
                          any_alive ws (clk i) = true).
Proof.
  intros C. unfold run_parallel. destruct (T =? -1) eqn:ET.
  - apply Z.eqb_eq in ET. destruct (forallb terminates ws); simpl; split; split; try discriminate; try tauto.
  - apply Z.eqb_neq in ET. destruct (poll_cases FlagOnExhaustion clk step T ws C) as (P & K). cbv zeta in *.
    set (o := poll FlagOnExhaustion (fuel_for T step) clk T ws 1) in *. unfold poll_post in P. destruct P as (P1 & P2 & P3).
    destruct K as [K|K]; rewrite K in P3.
    + destruct P3 as (W & A & F & _). rewrite F. split; split; try discriminate; try congruence.
      intros (_ & H). specialize (H (exit_poll o) P1).
      rewrite H in A; [discriminate|]. intros j Hj. destruct (Nat.eq_dec j (exit_poll o)) as [->|N]; [exact W|].
      apply P2. lia.
    + destruct P3 as (W & F & _). rewrite F. split; split; auto.
      intros _. split; auto. intros i Hi Hall.
      assert (i < exit_poll o)%nat.
      { destruct (Nat.lt_ge_cases i (exit_poll o)); auto. exfalso. apply W. apply Hall. lia. }
      apply P2. lia.
Qed.

Lemma complete_lemma rule clk step T ws :
  let o := run_parallel rule clk step T ws in
  (T = -1 -> forallb terminates ws = true ->
     how o = ExitUntimed /\ timed_out o = false /\ shared o = flat_map all_blocks ws /\ killed o = all_false ws) /\
  (T <> -1 -> ClockOK clk step -> (exists i, AllDoneAt clk T ws i) ->
     how o = ExitAllDone /\ timed_out o = false /\ shared o = flat_map all_blocks ws /\ killed o = all_false ws).
Proof.
  unfold run_parallel. split.
  - intros -> F. simpl. rewrite F. simpl. auto.
  - intros N C (i & Hi & Hall & A). apply Z.eqb_neq in N. rewrite N.
    destruct (poll_cases rule clk step T ws C) as (P & K). cbv zeta in *.
    set (o := poll rule (fuel_for T step) clk T ws 1) in *. unfold poll_post in P. destruct P as (P1 & P2 & P3).
    destruct K as [K|K]; rewrite K in P3.
    + destruct P3 as (_ & _ & F & Kd & _ & S). auto.
    + exfalso. destruct P3 as (W & _).
      assert (i < exit_poll o)%nat.
      { destruct (Nat.lt_ge_cases i (exit_poll o)); auto. exfalso. apply W. apply Hall. lia. }
      destruct (P2 i ltac:(lia)) as (_ & A'). congruence.
Qed.

(* the search finishes in time -- with the margin of one poll interval -- then no flag *)
Lemma in_time_lemma rule clk step dmax T ws :
  ClockOK clk step -> T <> -1 ->
  (forall i, clk (S i) <= clk i + dmax) ->
  clk 1%nat - clk 0%nat <= T ->
  (forall w, In w ws -> exists f, w_fin w = Some f /\ f + dmax <= clk 0%nat + T) ->
  let o := run_parallel rule clk step T ws in
  timed_out o = false /\ shared o = flat_map all_blocks ws /\ killed o = all_false ws.
Proof.
  intros C N D H1 Hf. unfold run_parallel. apply Z.eqb_neq in N. rewrite N.
  destruct (poll_cases rule clk step T ws C) as (P & K). cbv zeta in *.
  set (o := poll rule (fuel_for T step) clk T ws 1) in *. unfold poll_post in P. destruct P as (P1 & P2 & P3).
  destruct K as [K|K]; rewrite K in P3.
  - destruct P3 as (_ & _ & F & Kd & _ & S). auto.
  - exfalso. destruct P3 as (W & _). unfold within in W.
    destruct (Nat.eq_dec (exit_poll o) 1) as [E1|E1]; [rewrite E1 in W; lia|].
    destruct (exit_poll o) as [|e] eqn:Ee; [lia|].
    destruct (P2 e ltac:(lia)) as (We & Ae). unfold within in We.
    unfold any_alive in Ae. apply existsb_exists in Ae. destruct Ae as (w & Hw & Aw).
    destruct (Hf w Hw) as (f & Ef & Hle). unfold alive in Aw. rewrite Ef in Aw. apply Z.ltb_lt in Aw.
    specialize (D e). lia.
Qed.

Lemma time_bounded_lemma rule clk step dmax T ws :
  ClockOK clk step -> 0 <= T ->
  (forall i, clk (S i) <= clk i + dmax) ->
  clk (exit_poll (run_parallel rule clk step T ws)) - clk 0%nat <= T + dmax.
Proof.
  intros C HT D. unfold run_parallel. destruct (T =? -1) eqn:N; [apply Z.eqb_eq in N; lia|].
  destruct (poll_cases rule clk step T ws C) as (P & K). cbv zeta in *.
  set (o := poll rule (fuel_for T step) clk T ws 1) in *. unfold poll_post in P. destruct P as (P1 & P2 & P3).
  destruct (Nat.eq_dec (exit_poll o) 1) as [E1|E1].
  - rewrite E1. specialize (D 0%nat). lia.
  - destruct (exit_poll o) as [|e] eqn:Ee; [lia|].
    destruct (P2 e ltac:(lia)) as (We & _). unfold within in We. specialize (D e). lia.
Qed.

Lemma killed_or_joined_lemma rule clk step T ws :
  let o := run_parallel rule clk step T ws in
  how o <> Hangs -> how o <> OutOfFuel ->
  joined o = all_true ws /\
  forall n w, nth_error ws n = Some w ->
     nth_error (killed o) n = Some true \/ (nth_error (killed o) n = Some false /\ terminates w = true).
Proof.
  unfold run_parallel. destruct (T =? -1).
  - destruct (forallb terminates ws) eqn:F; simpl; [|congruence]. intros _ _. split; auto.
    intros n w Hn. right. split.
    + unfold all_false. erewrite map_nth_error; eauto.
    + rewrite forallb_forall in F. apply F. eapply nth_error_In; eauto.
  - pose proof (poll_spec rule clk T ws (fuel_for T step) 1%nat) as P. unfold poll_post in P.
    destruct P as (_ & _ & P). cbv zeta.
    destruct (how (poll rule (fuel_for T step) clk T ws 1)) eqn:E; try contradiction; try congruence; intros _ _.
    + destruct P as (_ & A & _ & Kd & J & _). split; auto. intros n w Hn. right. rewrite Kd. split.
      * unfold all_false. erewrite map_nth_error; eauto.
      * pose proof (any_alive_false ws _ A w (nth_error_In _ _ Hn)) as Aw.
        unfold alive in Aw. unfold terminates. destruct (w_fin w); auto; discriminate.
    + destruct P as (_ & _ & Kd & J & _). split; auto. intros n w Hn. rewrite Kd.
      erewrite map_nth_error; eauto.
      destruct (alive w _) eqn:Aw; auto. right. split; auto.
      unfold alive in Aw. unfold terminates. destruct (w_fin w); auto; discriminate.
Qed.

Lemma timeout_zero_lemma clk step ws : clk 0%nat < clk 1%nat ->
  timed_out (run_parallel FlagOnExhaustion clk step 0 ws) = true /\ how (run_parallel FlagOnExhaustion clk step 0 ws) = ExitDeadline.
Proof.
  intros H. unfold run_parallel. simpl (0 =? -1). cbv iota.
  unfold fuel_for. rewrite Zdiv_0_l. simpl.
  destruct (clk 1%nat - clk 0%nat <=? 0) eqn:E; [apply Z.leb_le in E; lia|]. simpl. auto.
Qed.

(* ------------------------------------------------------------------ the repaired rule: flag only when a worker is killed *)
Lemma existsb_map_id {A} (f : A -> bool) l : existsb (fun b : bool => b) (map f l) = existsb f l.
Proof. induction l; simpl; congruence. Qed.

Lemma existsb_all_false (ws : list worker) : existsb (fun b : bool => b) (all_false ws) = false.
Proof. unfold all_false. induction ws; simpl; auto. Qed.

(* on every exit: timed_out = "some worker was killed" *)
Lemma flag_is_kill_lemma clk step T ws :
  let o := run_parallel FlagOnKill clk step T ws in
  timed_out o = existsb (fun b : bool => b) (killed o).
Proof.
  unfold run_parallel. destruct (T =? -1).
  - destruct (forallb terminates ws); simpl; [rewrite existsb_all_false|]; reflexivity.
  - cbv zeta. generalize 1%nat. induction (fuel_for T step) as [|f IH]; intros i; simpl; [reflexivity|].
    destruct (clk i - clk 0%nat <=? T).
    + destruct (any_alive ws (clk i)); [apply IH|]. simpl. rewrite existsb_all_false. reflexivity.
    + simpl. rewrite existsb_map_id. reflexivity.
Qed.

Lemma map_all_false_inv (f : worker -> bool) ws :
  map f ws = all_false ws -> forall w, In w ws -> f w = false.
Proof.
  unfold all_false. induction ws as [|a r IH]; simpl; intros H w Hw; [contradiction|].
  injection H as H1 H2. destruct Hw as [<-|Hw]; [exact H1|]. apply IH; assumption.
Qed.

Lemma flat_map_ext_in {A B} (f g : A -> list B) l :
  (forall a, In a l -> f a = g a) -> flat_map f l = flat_map g l.
Proof.
  induction l as [|a r IH]; simpl; intros H; auto. rewrite H by auto. rewrite IH; auto.
Qed.

(* whatever the rule: no flag => the shared list is complete; nobody killed => complete *)
Lemma nobody_killed_complete_lemma rule clk step T ws :
  let o := run_parallel rule clk step T ws in
  how o <> Hangs -> how o <> OutOfFuel -> killed o = all_false ws ->
  shared o = flat_map all_blocks ws.
Proof.
  unfold run_parallel. destruct (T =? -1).
  - destruct (forallb terminates ws); simpl; congruence.
  - pose proof (poll_spec rule clk T ws (fuel_for T step) 1%nat) as P. unfold poll_post in P.
    destruct P as (_ & _ & P). cbv zeta.
    destruct (how (poll rule (fuel_for T step) clk T ws 1)) eqn:E; try contradiction; try congruence; intros _ _ K.
    + destruct P as (_ & _ & _ & _ & _ & S). exact S.
    + destruct P as (_ & _ & Kd & _ & S). rewrite S. rewrite Kd in K.
      apply flat_map_ext_in. intros w Hw. unfold delivered.
      rewrite (map_all_false_inv _ ws K w Hw). reflexivity.
Qed.

Lemma no_flag_complete_lemma clk step T ws :
  let o := run_parallel FlagOnKill clk step T ws in
  how o <> Hangs -> how o <> OutOfFuel -> timed_out o = false ->
  killed o = all_false ws /\ shared o = flat_map all_blocks ws.
Proof.
  intros o H1 H2 F.
  assert (K : killed o = all_false ws).
  { subst o. revert H1 H2 F. unfold run_parallel. destruct (T =? -1).
    - destruct (forallb terminates ws); simpl; congruence.
    - pose proof (poll_spec FlagOnKill clk T ws (fuel_for T step) 1%nat) as P. unfold poll_post in P.
      destruct P as (_ & _ & P).
      destruct (how (poll FlagOnKill (fuel_for T step) clk T ws 1)) eqn:E; try contradiction; try congruence; intros _ _ F.
      + destruct P as (_ & _ & _ & Kd & _). exact Kd.
      + destruct P as (_ & Fl & Kd & _). rewrite Kd. rewrite Fl in F. simpl in F.
        unfold all_false. apply map_ext_in. intros w Hw. apply (any_alive_false ws _ F w Hw). }
  split; [exact K|]. apply nobody_killed_complete_lemma; assumption.
Qed.

(* the flag is set exactly when the loop ran into its else: branch AND found a live worker there *)
Lemma flag_on_kill_iff_lemma clk step T ws : ClockOK clk step ->
  let o := run_parallel FlagOnKill clk step T ws in
  timed_out o = true <-> how o = ExitDeadline /\ any_alive ws (clk (exit_poll o)) = true.
Proof.
  intros C. unfold run_parallel. destruct (T =? -1) eqn:ET.
  - destruct (forallb terminates ws); simpl; split; try discriminate; intros [? _]; discriminate.
  - destruct (poll_cases FlagOnKill clk step T ws C) as (P & K). cbv zeta in *.
    set (o := poll FlagOnKill (fuel_for T step) clk T ws 1) in *. unfold poll_post in P. destruct P as (_ & _ & P3).
    destruct K as [K|K]; rewrite K in P3.
    + destruct P3 as (_ & _ & F & _). rewrite F. split; [discriminate|]. intros [? _]. congruence.
    + destruct P3 as (_ & F & _). rewrite F. simpl. split; auto. intros [_ A]. exact A.
Qed.

(* timeout 0 under the repaired rule: the flag only reports workers that were alive *)
Lemma timeout_zero_kill_lemma clk step ws : clk 0%nat < clk 1%nat ->
  timed_out (run_parallel FlagOnKill clk step 0 ws) = any_alive ws (clk 1%nat).
Proof.
  intros H. unfold run_parallel. simpl (0 =? -1). cbv iota.
  unfold fuel_for. rewrite Zdiv_0_l. simpl.
  destruct (clk 1%nat - clk 0%nat <=? 0) eqn:E; [apply Z.leb_le in E; lia|]. simpl. reflexivity.
Qed.

(* ------------------------------------------------------------------ the sequential branch as a state machine *)
Section SequentialProofs.
  Context {A : Type}.
  Variables (clk : nat -> Z) (T : Z).

  (* what the repaired loop has done when it is left: it appended the first k paths, every reading up
     to k was inside the deadline, and either the generators were exhausted (k = all of them) or
     reading k+1 -- made when path k+1 had been yielded -- was beyond the deadline *)
  Definition seq_post (n : nat) (acc rest : list A) (o : @seq_outcome A) : Prop :=
    exists k, (k <= length rest)%nat /\
      s_result o = acc ++ firstn k rest /\
      s_exit o = S (n + k) /\
      (forall j, (1 <= j <= k)%nat -> late clk T (n + j) = false) /\
      ((k = length rest /\ s_how o = SeqExhausted /\ s_flag o = false) \/
       ((k < length rest)%nat /\ s_how o = SeqCut /\ s_flag o = true /\ late clk T (S (n + k)) = true)).

  Lemma seq_iter_spec : forall rest acc n fuel, (length rest < fuel)%nat ->
    seq_post n acc rest (seq_iter SeqDeadlinePerPath fuel clk T (mkst n acc rest)).
  Proof.
    induction rest as [|p r IH]; intros acc n fuel Hf; (destruct fuel as [|f]; [simpl in Hf; lia|]).
    - simpl. exists 0%nat. simpl. rewrite app_nil_r, Nat.add_0_r.
      split; [lia|]. split; [reflexivity|]. split; [reflexivity|]. split; [intros; lia|]. left. auto.
    - cbn [seq_iter]. unfold seq_step. cbn [st_rest st_n st_acc]. destruct (late clk T (S n)) eqn:L.
      + exists 0%nat. simpl. rewrite app_nil_r, Nat.add_0_r.
        split; [lia|]. split; [reflexivity|]. split; [reflexivity|]. split; [intros; lia|]. right.
        repeat split; auto. lia.
      + simpl in Hf. destruct (IH (acc ++ [p]) (S n) f ltac:(lia)) as (k & Hk & Hr & He & Hl & Hc).
        exists (S k). simpl. split; [lia|]. split; [rewrite Hr, <- app_assoc; reflexivity|].
        split; [rewrite He; f_equal; lia|]. split.
        * intros j Hj. destruct (Nat.eq_dec j 1) as [->|N]; [rewrite Nat.add_1_r; exact L|].
          replace (n + j)%nat with (S n + (j - 1))%nat by lia. apply Hl. lia.
        * destruct Hc as [(E & H1 & H2)|(E & H1 & H2 & H3)]; [left|right].
          -- repeat split; auto.
          -- repeat split; auto; [lia|]. replace (n + S k)%nat with (S n + k)%nat by lia. exact H3.
  Qed.

  (* the shipped loop: everything is appended, no reading matters *)
  Lemma seq_iter_shipped : forall rest acc n fuel, (length rest < fuel)%nat ->
    seq_iter SeqIgnoresTimeout fuel clk T (mkst n acc rest) =
    @mkseq A SeqExhausted (S (n + length rest)) false (acc ++ rest).
  Proof.
    induction rest as [|p r IH]; intros acc n fuel Hf; (destruct fuel as [|f]; [simpl in Hf; lia|]).
    - simpl. rewrite app_nil_r, Nat.add_0_r. reflexivity.
    - simpl in *. rewrite IH by lia. rewrite <- app_assoc. simpl. do 2 f_equal. lia.
  Qed.

  Lemma run_sequential_spec (all : list A) :
    seq_post 0 [] all (run_sequential SeqDeadlinePerPath clk T all).
  Proof. unfold run_sequential. apply seq_iter_spec. lia. Qed.

  Lemma firstn_prefix (k : nat) (l : list A) : exists rest, l = firstn k l ++ rest.
  Proof. exists (skipn k l). symmetry. apply firstn_skipn. Qed.

  Lemma firstn_short_neq (k : nat) (l : list A) : (k < length l)%nat -> firstn k l <> l.
  Proof.
    intros H E. assert (length (firstn k l) = length l) by (rewrite E; reflexivity).
    rewrite firstn_length in H0. lia.
  Qed.

  (* never out of fuel, under either rule *)
  Lemma seq_terminates_lemma rule (all : list A) : s_how (run_sequential rule clk T all) <> SeqOutOfFuel.
  Proof.
    destruct rule.
    - unfold run_sequential. rewrite seq_iter_shipped by lia. simpl. discriminate.
    - destruct (run_sequential_spec all) as (k & _ & _ & _ & _ & [(_ & H & _)|(_ & H & _)]); rewrite H; discriminate.
  Qed.

  (* the result is a prefix of the full enumeration, under either rule *)
  Lemma seq_prefix_lemma rule (all : list A) :
    exists rest, all = s_result (run_sequential rule clk T all) ++ rest.
  Proof.
    destruct rule.
    - unfold run_sequential. rewrite seq_iter_shipped by lia. simpl. exists []. rewrite app_nil_r. reflexivity.
    - destruct (run_sequential_spec all) as (k & _ & Hr & _). rewrite Hr. simpl. apply firstn_prefix.
  Qed.

  Lemma seq_incl_lemma rule (all : list A) : incl (s_result (run_sequential rule clk T all)) all.
  Proof.
    destruct (seq_prefix_lemma rule all) as (rest & E). intros x Hx. rewrite E. apply in_or_app. auto.
  Qed.

  (* flag <=> the loop was left through `break` <=> a genuine path is missing from the result *)
  Lemma seq_flag_iff_cut_lemma (all : list A) :
    let o := run_sequential SeqDeadlinePerPath clk T all in
    (s_flag o = true <-> s_how o = SeqCut) /\
    (s_flag o = true <-> s_result o <> all) /\
    (s_flag o = true <-> exists p rest, all = s_result o ++ p :: rest) /\
    (s_flag o = false <-> s_result o = all).
  Proof.
    cbv zeta. destruct (run_sequential_spec all) as (k & Hk & Hr & _ & _ & Hc). simpl in Hr.
    destruct Hc as [(E & H1 & H2)|(E & H1 & H2 & _)]; rewrite H1, H2, Hr.
    - subst k. rewrite firstn_all. repeat split; try discriminate; try congruence; auto.
      intros (p & rest & Ep). assert (length all = length (all ++ p :: rest)) by (rewrite <- Ep; reflexivity).
      rewrite app_length in H. simpl in H. lia.
    - pose proof (firstn_short_neq k all E) as N. repeat split; auto; try congruence; try discriminate.
      + intros _. pose proof (firstn_skipn k all) as S. destruct (skipn k all) as [|p rest] eqn:Es.
        * assert (length (skipn k all) = 0%nat) by (rewrite Es; reflexivity). rewrite skipn_length in H. lia.
        * exists p, rest. symmetry. exact S.
  Qed.

  (* where the cut happens: at the first reading beyond the deadline made on a yielded path *)
  Lemma seq_cut_at_first_late_lemma (all : list A) (i : nat) :
    (1 <= i <= length all)%nat -> late clk T i = true ->
    (forall j, (1 <= j < i)%nat -> late clk T j = false) ->
    let o := run_sequential SeqDeadlinePerPath clk T all in
    s_how o = SeqCut /\ s_flag o = true /\ s_exit o = i /\ s_result o = firstn (i - 1) all.
  Proof.
    intros Hi L Hb. cbv zeta. destruct (run_sequential_spec all) as (k & Hk & Hr & He & Hl & Hc).
    simpl in Hr, He, Hl, Hc.
    assert (Ek : S k = i).
    { destruct (Nat.lt_trichotomy (S k) i) as [Lt|[Eq|Gt]]; auto.
      - exfalso. destruct Hc as [(E & _)|(_ & _ & _ & Lk)]; [lia|]. rewrite Hb in Lk by lia. discriminate.
      - exfalso. rewrite Hl in L by lia. discriminate. }
    destruct Hc as [(E & _)|(E & H1 & H2 & _)]; [lia|]. rewrite H1, H2, He, Hr, <- Ek.
    repeat split; auto. f_equal. lia.
  Qed.

  (* complete and unflagged: untimed, or every path is yielded at a reading inside the deadline *)
  Lemma seq_complete_lemma (all : list A) :
    (T = -1 \/ forall i, (1 <= i <= length all)%nat -> clk i - clk 0%nat <= T) ->
    let o := run_sequential SeqDeadlinePerPath clk T all in
    s_how o = SeqExhausted /\ s_flag o = false /\ s_result o = all /\ s_exit o = S (length all).
  Proof.
    intros H. cbv zeta.
    assert (NL : forall i, (1 <= i <= length all)%nat -> late clk T i = false).
    { intros i Hi. unfold late. destruct H as [->|H]; [reflexivity|].
      specialize (H i Hi). destruct (T <? clk i - clk 0%nat) eqn:E; [apply Z.ltb_lt in E; lia|]. apply andb_false_r. }
    destruct (run_sequential_spec all) as (k & Hk & Hr & He & _ & Hc). simpl in Hr, He, Hc.
    destruct Hc as [(E & H1 & H2)|(E & _ & _ & Lk)].
    - subst k. rewrite firstn_all in Hr. auto.
    - rewrite NL in Lk by lia. discriminate.
  Qed.

  (* "finishes in time" for a clock that does not run backwards: the LAST path is yielded inside the deadline *)
  Lemma seq_in_time_lemma (all : list A) :
    (forall i, clk i <= clk (S i)) -> clk (length all) - clk 0%nat <= T ->
    let o := run_sequential SeqDeadlinePerPath clk T all in
    s_how o = SeqExhausted /\ s_flag o = false /\ s_result o = all.
  Proof.
    intros Mono Hl. cbv zeta.
    assert (M : forall j i, (i <= j)%nat -> clk i <= clk j).
    { induction j as [|j IH]; intros i Hi.
      - assert (i = 0%nat) by lia. subst. lia.
      - destruct (Nat.eq_dec i (S j)) as [->|N]; [lia|]. specialize (IH i ltac:(lia)). specialize (Mono j). lia. }
    destruct (seq_complete_lemma all) as (H1 & H2 & H3 & _).
    - right. intros i Hi. specialize (M (length all) i ltac:(lia)). lia.
    - auto.
  Qed.

  (* the loop is left at most one generator step after the deadline *)
  Lemma seq_time_bounded_lemma (all : list A) dmax :
    0 <= T -> StepsWithin clk dmax ->
    clk (s_exit (run_sequential SeqDeadlinePerPath clk T all)) - clk 0%nat <= T + dmax.
  Proof.
    intros HT D. destruct (run_sequential_spec all) as (k & _ & _ & He & Hl & _). simpl in He, Hl.
    rewrite He. specialize (D k). destruct k as [|k]; [lia|].
    specialize (Hl (S k) ltac:(lia)). unfold late in Hl.
    assert (N : (T =? -1) = false) by (apply Z.eqb_neq; lia). rewrite N in Hl. simpl in Hl.
    apply Z.ltb_ge in Hl. lia.
  Qed.

  (* the shipped loop: complete, never flagged, left when the enumeration is exhausted -- whatever the clock says *)
  Lemma seq_shipped_lemma (all : list A) :
    run_sequential SeqIgnoresTimeout clk T all = @mkseq A SeqExhausted (S (length all)) false all.
  Proof. unfold run_sequential. rewrite seq_iter_shipped by lia. reflexivity. Qed.
End SequentialProofs.
