(* What the functional reading of get_critical_path (Model/CritImpl.cp_model, proved equal to the regenerated code in
   PropsGen/C04gen.v) computes, connected with the certificate of Model/CritPath.v / Proofs/CritCert.v.  Exact rationals.

   MAIN RESULT (cp_model_certificate): whatever the two networkx algorithms return -- they are parameters --, WHENEVER cp_model
   returns normally, the lines it reports with their latency_cp cells pass cert_ok on the graph self.dg: they are a dependency
   chain of the kernel, every cell but the last is the latency of the edge to the next line (the first may carry the load stage
   of its line in addition), the last cell is the latency of its instruction.  Together with Proofs/CritCert.cert_sound this leaves
   exactly one thing to the per-run check: that the cells add up to cp_opt (that dag_longest_path returned a longest path). *)
From Coq Require Import ZArith QArith Lqa List Bool String Lia.
From OV Require Import Model.Num Model.Deps Model.CritPath Proofs.CritPathQ Proofs.CritCert
     Model.PyLcd Model.LcdPost Model.CritImpl Proofs.PyLcdFacts Proofs.LcdPost.
Import ListNotations.
Local Open Scope list_scope.

(* ------------------------------------------------------------------ generic list facts *)
Lemma fold_last_same {A B} (m : A -> bool) (v : A -> B) (vx : B) : forall (es : list A) (d : B),
  (forall y, In y es -> m y = true -> v y = vx) -> ((exists y, In y es /\ m y = true) \/ d = vx) ->
  fold_left (fun acc e => if m e then v e else acc) es d = vx.
Proof.
  induction es as [|e es IH]; intros d Hu H.
  - destruct H as [(y & [] & _)|H]; exact H.
  - cbn [fold_left]. destruct (m e) eqn:E.
    + apply IH; [intros y Hy; apply Hu; right; exact Hy | right; apply Hu; [left; reflexivity | exact E]].
    + apply IH; [intros y Hy; apply Hu; right; exact Hy|]. destruct H as [(y & [<-|Hy] & My)|H]; [congruence | left; exists y; split; assumption | right; exact H].
Qed.

(* ------------------------------------------------------------------ the heap of self.kernel: updates by line number *)
Section Heap.
  Context {I : Type} (ln : I -> Z) (lat lcp : I -> Q) (set_lcp : I -> Q -> I).
  Hypothesis ln_set : forall i v, ln (set_lcp i v) = ln i.
  Hypothesis lat_set : forall i v, lat (set_lcp i v) = lat i.
  Hypothesis lcp_set : forall i v, lcp (set_lcp i v) = v.

  (* latency_cp of the object(s) with line number z becomes g(object) *)
  Definition upd (h : list I) (z : Z) (g : I -> Q) : list I := map (fun i => if Z.eqb (ln i) z then set_lcp i (g i) else i) h.

  Lemma upd_ln h z g : map ln (upd h z g) = map ln h.
  Proof. unfold upd. rewrite map_map. apply map_ext. intros i. destruct (Z.eqb (ln i) z); [apply ln_set | reflexivity]. Qed.
  Lemma upd_lat h z g : map lat (upd h z g) = map lat h.
  Proof. unfold upd. rewrite map_map. apply map_ext. intros i. destruct (Z.eqb (ln i) z); [apply lat_set | reflexivity]. Qed.

  Lemma heap_set_split : forall (h : list I) r i v, nth_error h r = Some i -> py_heap_set h r v = POk (firstn r h ++ v :: skipn (S r) h).
  Proof.
    induction h as [|x h IH]; intros r i v H; [destruct r; discriminate|]. destruct r as [|r]; [reflexivity|].
    cbn [nth_error] in H. cbn [py_heap_set]. rewrite (IH r i v H). reflexivity.
  Qed.

  Lemma upd_id h z g : ~ In z (map ln h) -> upd h z g = h.
  Proof.
    intros H. unfold upd. rewrite <- (map_id h) at 2. apply map_ext_in. intros i Hi.
    destruct (Z.eqb_spec (ln i) z) as [E|E]; [|reflexivity]. exfalso. apply H. rewrite <- E. apply in_map. exact Hi.
  Qed.

  Lemma upd_split : forall h z g r i, NoDup (map ln h) -> nth_error h r = Some i -> ln i = z ->
    upd h z g = firstn r h ++ set_lcp i (g i) :: skipn (S r) h.
  Proof.
    induction h as [|x h IH]; intros z g r i ND H E; [destruct r; discriminate|]. cbn [map] in ND. inversion ND as [|? ? Hnot ND']; subst.
    destruct r as [|r].
    - cbn in H. inversion H; subst x. cbn [firstn skipn app]. unfold upd at 1. cbn [map]. rewrite Z.eqb_refl. f_equal.
      apply (upd_id h (ln i) g Hnot).
    - cbn [nth_error] in H. cbn [firstn skipn app]. unfold upd at 1. cbn [map].
      destruct (Z.eqb_spec (ln x) (ln i)) as [Ex|Ex].
      + exfalso. apply Hnot. rewrite Ex. apply in_map. eapply nth_error_In. exact H.
      + f_equal. exact (IH (ln i) g r i ND' H eq_refl).
  Qed.

  (* self._get_node_by_lineno(z) followed by a store into .latency_cp *)
  Lemma by_line h z r : NoDup (map ln h) -> node_by_lineno ln h z = POk r ->
    exists i, py_deref h r = POk i /\ In i h /\ ln i = z /\ forall g, py_heap_set h r (set_lcp i (g i)) = POk (upd h z g).
  Proof.
    intros ND H. pose proof (node_by_lineno_spec ln h z) as S. rewrite H in S. destruct S as (i & Hn & Hz & _).
    exists i. split; [apply py_deref_some; exact Hn|]. split; [eapply nth_error_In; exact Hn|]. split; [exact Hz|].
    intros g. rewrite (heap_set_split h r i _ Hn), (upd_split h z g r i ND Hn Hz). reflexivity.
  Qed.

  (* latency_cp as a function of the line number *)
  Definition cfun := Z -> Q.
  Definition cset (c : cfun) (z : Z) (v : Q) : cfun := fun z' => if Z.eqb z' z then v else c z'.
  Definition R (h : list I) (c : cfun) : Prop := forall i, In i h -> lcp i = c (ln i).

  Lemma R_upd h c z g v : R h c -> (forall i, In i h -> ln i = z -> g i = v) -> R (upd h z g) (cset c z v).
  Proof.
    intros HR Hg j Hj. unfold upd in Hj. apply in_map_iff in Hj. destruct Hj as (i & <- & Hi). unfold cset.
    destruct (Z.eqb_spec (ln i) z) as [E|E].
    - rewrite ln_set, lcp_set. destruct (Z.eqb_spec (ln i) z); [apply Hg; assumption | contradiction].
    - destruct (Z.eqb_spec (ln i) z); [contradiction | apply HR; exact Hi].
  Qed.

  Lemma upd_In_lat h z g i : In i (upd h z g) -> exists i0, In i0 h /\ ln i = ln i0 /\ lat i = lat i0.
  Proof.
    unfold upd. intros H. apply in_map_iff in H. destruct H as (i0 & <- & Hi). exists i0. split; [exact Hi|].
    destruct (Z.eqb (ln i0) z); [rewrite ln_set, lat_set|]; split; reflexivity.
  Qed.

  (* ---------------------------------------------------------------- the two loops over the path *)
  Variable self_dg : nxg Q.

  Definition zfun (c : cfun) (zs : list Z) : cfun := fold_left (fun c0 z => cset c0 z 0) zs c.

  Lemma zero_loop : forall lp h h' c, NoDup (map ln h) -> R h c ->
    py_for lp h (zero_step QNum ln set_lcp) = POk h' ->
    R h' (zfun c (map node_int lp)) /\ map ln h' = map ln h /\ map lat h' = map lat h /\
    Forall (fun nd => In (node_int nd) (map ln h)) lp.
  Proof.
    induction lp as [|nd lp IH]; intros h h' c ND HR H.
    - inversion H; subst. repeat split; [exact HR | constructor].
    - cbn [py_for] in H. unfold zero_step at 1 in H.
      destruct (node_by_lineno ln h (node_int nd)) as [r|e] eqn:En; [|discriminate]. cbn [pbind] in H.
      destruct (by_line h (node_int nd) r ND En) as (i & Hd & Hi & Hz & Hset). unfold set_cp in H. rewrite Hd in H. cbn [pbind] in H.
      rewrite (Hset (fun _ => nofZ QNum 0)) in H. cbn [pbind] in H.
      assert (ND' : NoDup (map ln (upd h (node_int nd) (fun _ => nofZ QNum 0)))) by (rewrite upd_ln; exact ND).
      assert (HR' : R (upd h (node_int nd) (fun _ => nofZ QNum 0)) (cset c (node_int nd) 0))
        by (apply R_upd; [exact HR | intros; reflexivity]).
      destruct (IH _ _ _ ND' HR' H) as (A & B & C & D). rewrite upd_ln in B, D. rewrite upd_lat in C.
      split; [exact A|]. split; [exact B|]. split; [exact C|]. constructor; [|exact D].
      rewrite <- Hz. apply in_map. exact Hi.
  Qed.

  Fixpoint acc_fun (ws : list (Z * Q)) (c : cfun) : cfun :=
    match ws with [] => c | zw :: r => acc_fun r (cset c (fst zw) (nadd QNum (c (fst zw)) (snd zw))) end.

  Lemma acc_loop : forall pairs h p0 h' p' c, NoDup (map ln h) -> R h c ->
    py_for pairs (h, p0) (acc_step QNum ln lcp set_lcp self_dg) = POk (h', p') ->
    exists ws, Forall2 (fun sd zw => fst zw = node_int (fst sd) /\ nx_edge_latency self_dg (fst sd) (snd sd) = POk (snd zw)) pairs ws /\
      R h' (acc_fun ws c) /\ map ln h' = map ln h /\ map lat h' = map lat h /\
      p' = fold_left (fun a zw => nadd QNum a (snd zw)) ws p0.
  Proof.
    induction pairs as [|[s d] pairs IH]; intros h p0 h' p' c ND HR H.
    - inversion H; subst. exists []. repeat split; [constructor | exact HR].
    - cbn [py_for] in H. unfold acc_step at 1 in H. cbn [fst snd] in H.
      destruct (node_by_lineno ln h (node_int s)) as [r|e] eqn:En; [|discriminate]. cbn [pbind] in H.
      destruct (by_line h (node_int s) r ND En) as (i & Hd & Hi & Hz & Hset). rewrite Hd in H. cbn [pbind] in H.
      destruct (nx_edge_latency self_dg s d) as [w|e] eqn:Ew; [|discriminate]. cbn [pbind] in H.
      rewrite (Hset (fun i0 => nadd QNum (lcp i0) w)) in H. cbn [pbind] in H.
      set (h1 := upd h (node_int s) (fun i0 => nadd QNum (lcp i0) w)) in *.
      assert (ND' : NoDup (map ln h1)) by (unfold h1; rewrite upd_ln; exact ND).
      assert (HR' : R h1 (cset c (node_int s) (nadd QNum (c (node_int s)) w))).
      { apply R_upd; [exact HR|]. intros j Hj Ej. rewrite (HR j Hj), Ej. reflexivity. }
      destruct (IH _ _ _ _ _ ND' HR' H) as (ws & F & A & B & C & D). unfold h1 in B, C. rewrite upd_ln in B. rewrite upd_lat in C.
      exists ((node_int s, w) :: ws). split; [constructor; [split; [reflexivity | exact Ew] | exact F]|].
      split; [exact A|]. split; [exact B|]. split; [exact C | exact D].
  Qed.
End Heap.

(* ------------------------------------------------------------------ cells along a chain pass cert_ok (pure: latency_cp as a function) *)
Section Chain.
  Variable g : list qedge.
  Variable latn : nat -> option Q.
  Variable latf : Z -> Q.

  (* a chain c0 -w0-> c1 -w1-> ... as its first line and its steps *)
  Fixpoint srcs (c0 : Z) (steps : list (Q * Z)) : list (Z * Q) :=
    match steps with [] => [] | wc :: r => (c0, fst wc) :: srcs (snd wc) r end.
  Definition lines (c0 : Z) (steps : list (Q * Z)) : list Z := c0 :: map snd steps.
  Fixpoint linked (c0 : Z) (steps : list (Q * Z)) : Prop :=
    match steps with [] => True | wc :: r => weight g (Z.to_nat c0) (Z.to_nat (snd wc)) = Some (fst wc) /\ linked (snd wc) r end.
  Definition last_line (c0 : Z) (steps : list (Q * Z)) : Z := last (map snd steps) c0.

  Lemma last_default {A} : forall (l : list A) x d d', last (x :: l) d = last (x :: l) d'.
  Proof. induction l as [|y l IH]; intros x d d'; [reflexivity|]. cbn [last] in *. apply (IH y). Qed.
  Lemma last_line_cons c0 wc r : last_line c0 (wc :: r) = last_line (snd wc) r.
  Proof.
    unfold last_line. cbn [map]. destruct (map snd r) as [|x l]; [reflexivity|]. cbn [last]. apply (last_default l x).
  Qed.
  Lemma last_line_in c0 steps : In (last_line c0 steps) (lines c0 steps).
  Proof.
    revert c0. induction steps as [|wc r IH]; intros c0; [left; reflexivity|]. rewrite last_line_cons. right. exact (IH (snd wc)).
  Qed.
  Lemma srcs_keys c0 steps z : In z (map fst (srcs c0 steps)) -> In z (lines c0 steps).
  Proof.
    revert c0. induction steps as [|wc r IH]; intros c0 H; [contradiction|]. cbn [srcs map fst] in H. destruct H as [<-|H]; [left; reflexivity|].
    right. exact (IH (snd wc) H).
  Qed.

  Lemma acc_fun_other : forall ws (c : cfun) z, ~ In z (map fst ws) -> acc_fun ws c z = c z.
  Proof.
    induction ws as [|zw ws IH]; intros c z H; [reflexivity|]. cbn [acc_fun]. rewrite IH by (intros Hin; apply H; right; exact Hin).
    unfold cset. destruct (Z.eqb_spec z (fst zw)) as [E|E]; [|reflexivity]. exfalso. apply H. left. symmetry. exact E.
  Qed.

  Lemma plain_cert : forall steps c0 (c : cfun) (b : bool),
    NoDup (lines c0 steps) -> linked c0 steps ->
    (forall z, In z (map snd steps) -> c z == 0) ->
    (forall w0 c1 r, steps = (w0, c1) :: r ->
       nadd QNum (c c0) w0 == w0 \/ (b = true /\ nadd QNum (c c0) w0 == loadw QNum g (Z.to_nat c0) + w0)) ->
    latn (Z.to_nat (last_line c0 steps)) = Some (latf (last_line c0 steps)) ->
    cert_ok QNum g latn b
      (map (fun z => (Z.to_nat z, cset (acc_fun (srcs c0 steps) c) (last_line c0 steps) (latf (last_line c0 steps)) z)) (lines c0 steps)) = true.
  Proof.
    induction steps as [|[w c1] r IH]; intros c0 c b ND HL HZ HH Hlat.
    - cbn [lines map srcs acc_fun]. unfold last_line in *. cbn [map last] in *. rewrite cert_ok_one, Hlat. unfold cset. rewrite Z.eqb_refl.
      apply neqb_iff. reflexivity.
    - destruct HL as (Hw & HL). cbn [fst snd] in *. rewrite last_line_cons in *. cbn [snd] in *.
      set (c' := cset c c0 (nadd QNum (c c0) w)).
      set (c3 := cset (acc_fun (srcs c0 ((w, c1) :: r)) c) (last_line c1 r) (latf (last_line c1 r))).
      assert (ND1 : NoDup (lines c1 r)) by (inversion ND; assumption).
      assert (Hnot : ~ In c0 (lines c1 r)) by (inversion ND; assumption).
      assert (E0 : c3 c0 = nadd QNum (c c0) w).
      { unfold c3, cset at 1. destruct (Z.eqb_spec c0 (last_line c1 r)) as [E|_]; [exfalso; apply Hnot; rewrite E; apply last_line_in|].
        cbn [srcs acc_fun fst snd]. rewrite acc_fun_other by (intros Hin; apply Hnot; apply srcs_keys; exact Hin).
        unfold cset. rewrite Z.eqb_refl. reflexivity. }
      change (lines c0 ((w, c1) :: r)) with (c0 :: lines c1 r).
      change (map (fun z => (Z.to_nat z, c3 z)) (c0 :: lines c1 r))
        with ((Z.to_nat c0, c3 c0) :: map (fun z => (Z.to_nat z, c3 z)) (lines c1 r)).
      unfold lines at 1. cbn [map]. rewrite cert_ok_cons2, Hw. apply andb_true_iff. split.
      + rewrite E0. destruct (HH w c1 r eq_refl) as [H1|(Hb & H1)].
        * apply orb_true_iff. left. apply neqb_iff. exact H1.
        * apply orb_true_iff. right. rewrite Hb. cbn [andb]. apply neqb_iff. rewrite H1. symmetry. apply cpadd_eq.
      + change ((Z.to_nat c1, c3 c1) :: map (fun z => (Z.to_nat z, c3 z)) (map snd r)) with (map (fun z => (Z.to_nat z, c3 z)) (lines c1 r)).
        unfold c3. cbn [srcs acc_fun fst snd]. fold c'. apply (IH c1 c' false ND1 HL).
        * intros z Hz. unfold c', cset. destruct (Z.eqb_spec z c0) as [E|_]; [exfalso; apply Hnot; rewrite <- E; right; exact Hz|].
          apply HZ. right. exact Hz.
        * intros w1 c2 r' ->. left. assert (Ec : c' c1 == 0).
          { unfold c', cset. destruct (Z.eqb_spec c1 c0) as [E|_]; [exfalso; apply Hnot; rewrite <- E; left; reflexivity|]. apply HZ. left. reflexivity. }
          rewrite cpadd_eq, Ec. lra.
        * exact Hlat.
  Qed.
End Chain.

(* ------------------------------------------------------------------ self.dg (nx container) as the edge list of Model/Deps.v *)
Definition is_load (u : node) : bool := match u with Load _ => true | Line _ => false end.
Definition to_edge (e : node * node * Q) : qedge :=
  ((Z.to_nat (node_int (fst (fst e))), is_load (fst (fst e))), Z.to_nat (node_int (snd (fst e))), snd e).
Definition to_edges (g : nxg Q) : list qedge := map to_edge (nx_edges_data g).
Definition ekey (e : node * node * Q) : node * node := fst e.

Lemma node_eqb_eq a b : node_eqb a b = true -> a = b.
Proof. destruct a, b; cbn; intros H; try discriminate; apply Z.eqb_eq in H; subst; reflexivity. Qed.

Lemma adj_get_in : forall (a : list (node * Q)) v w, adj_get a v = POk w -> In (v, w) a.
Proof.
  induction a as [|[v' w'] a IH]; intros v w H; [discriminate|]. cbn [adj_get] in H. destruct (node_eqb v' v) eqn:E.
  - apply node_eqb_eq in E. inversion H; subst. left. reflexivity.
  - right. apply IH. exact H.
Qed.

Lemma nx_latency_in : forall (g : nxg Q) u v w, nx_edge_latency g u v = POk w -> In (u, v, w) (nx_edges_data g).
Proof.
  induction g as [|[m a] g IH]; intros u v w H; [discriminate|]. cbn [nx_edge_latency] in H. unfold nx_edges_data. cbn [flat_map fst snd].
  apply in_or_app. destruct (node_eqb m u) eqn:E.
  - apply node_eqb_eq in E. subst m. left. apply in_map_iff. exists (v, w). split; [reflexivity | apply adj_get_in; exact H].
  - right. apply IH. exact H.
Qed.

Section Convert.
  Variable self_dg : nxg Q.
  (* one edge per (u, v); every edge ends in an instruction node; line numbers are not negative *)
  Hypothesis G1 : NoDup (map ekey (nx_edges_data self_dg)).
  Hypothesis G2 : forall u v w, In (u, v, w) (nx_edges_data self_dg) -> (exists b, v = Line b /\ (0 <= b)%Z) /\ (0 <= node_int u)%Z.

  Lemma edge_unique u v w w' : In (u, v, w) (nx_edges_data self_dg) -> In (u, v, w') (nx_edges_data self_dg) -> w = w'.
  Proof.
    revert G1. generalize (nx_edges_data self_dg). induction l as [|e l IH]; intros ND H1 H2; [contradiction|].
    cbn [map] in ND. inversion ND as [|? ? Hnot ND']; subst.
    destruct H1 as [->|H1], H2 as [E2|H2].
    - inversion E2. reflexivity.
    - exfalso. apply Hnot. change (ekey (u, v, w)) with (ekey (u, v, w')). apply in_map. exact H2.
    - subst e. exfalso. apply Hnot. change (ekey (u, v, w')) with (ekey (u, v, w)). apply in_map. exact H1.
    - exact (IH ND' H1 H2).
  Qed.

  Lemma has_edge_of w (a b : Z) : has_edge (to_edges self_dg) (Z.to_nat a) (Z.to_nat b) w -> (0 <= a)%Z -> (0 <= b)%Z ->
    In (Line a, Line b, w) (nx_edges_data self_dg).
  Proof.
    intros H Ha Hb. unfold has_edge, to_edges in H. apply in_map_iff in H. destruct H as ([[u v] w'] & E & Hin).
    unfold to_edge in E. cbn [fst snd] in E. inversion E as [[E1 E2 E3 E4]]. subst w'.
    destruct (G2 u v w Hin) as ((b' & -> & Hb') & Hu). cbn [node_int] in *. destruct u as [a'|a']; [|discriminate]. cbn [node_int] in *.
    apply Z2Nat.inj in E1; [|assumption|assumption]. apply Z2Nat.inj in E3; [|assumption|assumption]. subst. exact Hin.
  Qed.

  Lemma weight_of_nx a b w : nx_edge_latency self_dg (Line a) (Line b) = POk w ->
    weight (to_edges self_dg) (Z.to_nat a) (Z.to_nat b) = Some w.
  Proof.
    intros H. apply nx_latency_in in H. destruct (G2 _ _ _ H) as ((b' & Eb & Hb) & Ha). inversion Eb; subst b'. cbn [node_int] in Ha.
    assert (He : has_edge (to_edges self_dg) (Z.to_nat a) (Z.to_nat b) w).
    { unfold has_edge, to_edges. apply in_map_iff. exists (Line a, Line b, w). split; [reflexivity | exact H]. }
    destruct (weight_complete _ _ _ _ He) as (w' & Hw & He'). rewrite Hw. f_equal.
    apply has_edge_of in He'; [|assumption|assumption]. exact (edge_unique _ _ _ _ He' H).
  Qed.

  Lemma loadw_of_nx a w : nx_edge_latency self_dg (Load a) (Line a) = POk w -> loadw QNum (to_edges self_dg) (Z.to_nat a) = w.
  Proof.
    intros H. apply nx_latency_in in H. destruct (G2 _ _ _ H) as ((b' & Eb & Hb) & Ha). inversion Eb; subst b'. cbn [node_int] in Ha.
    assert (Hin : In ((Z.to_nat a, true), Z.to_nat a, w) (to_edges self_dg)).
    { unfold to_edges. apply in_map_iff. exists (Load a, Line a, w). split; [reflexivity | exact H]. }
    assert (Hu : forall w', In ((Z.to_nat a, true), Z.to_nat a, w') (to_edges self_dg) -> w' = w).
    { intros w' H'. unfold to_edges in H'. apply in_map_iff in H'. destruct H' as ([[u v] w''] & E & Hin').
      unfold to_edge in E. cbn [fst snd] in E. inversion E as [[E1 E2 E3 E4]]. subst w''.
      destruct (G2 u v w' Hin') as ((b' & -> & Hb') & Hu). cbn [node_int] in *. destruct u as [a'|a']; [discriminate|]. cbn [node_int] in *.
      apply Z2Nat.inj in E1; [|assumption|assumption]. apply Z2Nat.inj in E3; [|assumption|assumption]. subst.
      exact (edge_unique _ _ _ _ Hin' H). }
    unfold loadw. revert Hin Hu. generalize (n0 QNum). generalize (to_edges self_dg). clear.
    intros es. induction es as [|[[[s isld] t] w0] es IH]; intros d Hin Hu; [contradiction|]. cbn [fold_left].
    assert (G : forall (es : list qedge) d0, d0 = w -> (forall w', In ((Z.to_nat a, true), Z.to_nat a, w') es -> w' = w) ->
                fold_left (fun m (e : qedge) => let '((s, isld), t, w) := e in
                            if andb isld (andb (Nat.eqb s (Z.to_nat a)) (Nat.eqb t (Z.to_nat a))) then w else m) es d0 = w).
    { clear. induction es as [|[[[s isld] t] w0] es IH]; intros d0 Hd Hu; [exact Hd|]. cbn [fold_left]. apply IH.
      - destruct isld; cbn [andb]; [|exact Hd]. destruct (Nat.eqb_spec s (Z.to_nat a)); cbn [andb]; [|exact Hd].
        destruct (Nat.eqb_spec t (Z.to_nat a)); [|exact Hd]. subst. apply Hu. left. reflexivity.
      - intros w' H. apply Hu. right. exact H. }
    destruct Hin as [E|Hin].
    - inversion E; subst. rewrite !Nat.eqb_refl. cbn [andb]. apply G; [reflexivity | intros w' H; apply Hu; right; exact H].
    - apply IH; [exact Hin | intros w' H; apply Hu; right; exact H].
  Qed.
End Convert.

(* ------------------------------------------------------------------ the order of the kernel *)
Fixpoint pos (L : list Z) (z : Z) : nat := match L with [] => 0%nat | x :: r => if Z.eqb x z then 0%nat else S (pos r z) end.
Fixpoint increasing (L cs : list Z) : Prop :=
  match cs with
  | a :: r => match r with b :: _ => (pos L a < pos L b)%nat /\ increasing L r | [] => True end
  | [] => True
  end.

Lemma increasing_all L : forall cs a, increasing L (a :: cs) -> forall b, In b cs -> (pos L a < pos L b)%nat.
Proof.
  induction cs as [|c cs IH]; intros a H b Hb; [contradiction|]. cbn [increasing] in H. destruct H as (H1 & H2).
  destruct Hb as [<-|Hb]; [exact H1|]. specialize (IH c H2 b Hb). lia.
Qed.
Lemma increasing_tail L a cs : increasing L (a :: cs) -> increasing L cs.
Proof. destruct cs; [intros; exact I | cbn [increasing]; tauto]. Qed.
Lemma increasing_nodup L : forall cs, increasing L cs -> NoDup cs.
Proof.
  induction cs as [|a cs IH]; intros H; constructor.
  - intros Hin. pose proof (increasing_all L cs a H a Hin). lia.
  - apply IH. eapply increasing_tail. exact H.
Qed.
Lemma increasing_drop x L : forall cs, increasing (x :: L) cs -> (forall z, In z cs -> z <> x) -> increasing L cs.
Proof.
  induction cs as [|a cs IH]; intros H Hne; [exact I|]. destruct cs as [|b cs]; [exact I|]. cbn [increasing] in H |- *. destruct H as (H1 & H2).
  split; [|apply IH; [exact H2 | intros z Hz; apply Hne; right; exact Hz]].
  cbn [pos] in H1. destruct (Z.eqb_spec x a) as [E|_]; [exfalso; apply (Hne a); [left; reflexivity | symmetry; exact E]|].
  destruct (Z.eqb_spec x b) as [E|_]; [exfalso; apply (Hne b); [right; left; reflexivity | symmetry; exact E]|]. lia.
Qed.

(* the lines of a chain, picked out of the kernel in kernel order, are the chain *)
Lemma filter_increasing : forall L cs, NoDup L -> (forall z, In z cs -> In z L) -> increasing L cs ->
  filter (fun z => existsb (Z.eqb z) cs) L = cs.
Proof.
  induction L as [|x L IH]; intros cs ND Hsub Hinc.
  - destruct cs as [|a cs]; [reflexivity|]. destruct (Hsub a (or_introl eq_refl)).
  - inversion ND as [|? ? Hnot ND']; subst. destruct cs as [|a cs].
    + cbn [filter existsb]. apply (IH [] ND'); [intros z [] | exact I].
    + destruct (Z.eq_dec a x) as [->|Ne].
      * assert (Hx : forall b, In b cs -> b <> x).
        { intros b Hb ->. pose proof (increasing_all _ _ _ Hinc x Hb). lia. }
        cbn [filter existsb]. rewrite Z.eqb_refl. cbn [orb]. f_equal.
        rewrite (filter_ext_in _ (fun z => existsb (Z.eqb z) cs)).
        -- apply IH; [exact ND' | | apply (increasing_drop x); [eapply increasing_tail; exact Hinc | exact Hx]].
           intros z Hz. destruct (Hsub z (or_intror Hz)) as [E|Hin]; [exfalso; apply (Hx z Hz); symmetry; exact E | exact Hin].
        -- intros z Hz. cbn [existsb]. destruct (Z.eqb_spec z x) as [->|_]; [contradiction | reflexivity].
      * assert (Hx : forall b, In b (a :: cs) -> b <> x).
        { intros b [<-|Hb]; [exact Ne|]. intros ->. pose proof (increasing_all _ _ _ Hinc x Hb) as P. cbn [pos] in P.
          rewrite Z.eqb_refl in P. lia. }
        cbn [filter]. assert (E : existsb (Z.eqb x) (a :: cs) = false).
        { destruct (existsb (Z.eqb x) (a :: cs)) eqn:E; [|reflexivity]. apply existsb_exists in E. destruct E as (b & Hb & Eb).
          apply Z.eqb_eq in Eb. subst b. exfalso. exact (Hx x Hb eq_refl). }
        rewrite E. apply IH; [exact ND' | | apply (increasing_drop x); assumption].
        intros z Hz. destruct (Hsub z Hz) as [Ez|Hin]; [exfalso; apply (Hx z Hz); symmetry; exact Ez | exact Hin].
Qed.

(* ------------------------------------------------------------------ small facts used by the main theorem *)
Lemma nodup_map_inj {A B} (f : A -> B) : forall (l : list A) x y, NoDup (map f l) -> In x l -> In y l -> f x = f y -> x = y.
Proof.
  induction l as [|a l IH]; intros x y ND Hx Hy E; [contradiction|]. cbn [map] in ND. inversion ND as [|? ? Hnot ND']; subst.
  destruct Hx as [->|Hx], Hy as [->|Hy]; [reflexivity | | |].
  - exfalso. apply Hnot. rewrite E. apply in_map. exact Hy.
  - exfalso. apply Hnot. rewrite <- E. apply in_map. exact Hx.
  - exact (IH x y ND' Hx Hy E).
Qed.

Lemma filter_idx_nth {A} (p : A -> bool) : forall (h pre : list A),
  map (nth_error (pre ++ h)) (py_filter_idx_from p h (List.length pre)) = map Some (filter p h).
Proof.
  induction h as [|x h IH]; intros pre; [reflexivity|]. cbn [py_filter_idx_from filter].
  specialize (IH (pre ++ [x])). rewrite <- app_assoc, app_length in IH. cbn [app List.length] in IH. rewrite Nat.add_1_r in IH.
  destruct (p x); [|exact IH]. cbn [map]. rewrite IH. f_equal. rewrite nth_error_app2 by lia. rewrite Nat.sub_diag. reflexivity.
Qed.

Lemma filter_map_comm {A B} (f : A -> B) (q : B -> bool) : forall l, filter q (map f l) = map f (filter (fun x => q (f x)) l).
Proof. induction l as [|x l IH]; [reflexivity|]. cbn [map filter]. destruct (q (f x)); [cbn [map]; f_equal|]; exact IH. Qed.

Lemma zfun_notin : forall zs (c : cfun) z, ~ In z zs -> zfun c zs z = c z.
Proof.
  unfold zfun. induction zs as [|x zs IH]; intros c z H; [reflexivity|]. cbn [fold_left]. rewrite IH by (intros Hin; apply H; right; exact Hin).
  unfold cset. destruct (Z.eqb_spec z x) as [E|_]; [exfalso; apply H; left; symmetry; exact E | reflexivity].
Qed.
Lemma zfun_in : forall zs (c : cfun) z, In z zs -> zfun c zs z = 0.
Proof.
  induction zs as [|x zs IH]; intros c z H; [contradiction|]. destruct (in_dec Z.eq_dec z zs) as [Hin|Hnot].
  - unfold zfun in *. cbn [fold_left]. apply IH. exact Hin.
  - destruct H as [->|H]; [|contradiction]. change (zfun c (z :: zs) z) with (zfun (cset c z 0) zs z). rewrite zfun_notin by exact Hnot.
    unfold cset. rewrite Z.eqb_refl. reflexivity.
Qed.

Lemma last_map_f {A B} (f : A -> B) : forall l d, last (map f l) (f d) = f (last l d).
Proof. induction l as [|x l IH]; intros d; [reflexivity|]. cbn [map last]. destruct l; [reflexivity|]. cbn [map] in *. apply (IH d). Qed.

Lemma fix_path_shape lp0 lp : fix_path lp0 = POk lp ->
  (exists z rest, lp = Line z :: rest) \/ (exists n rest, lp = Load n :: Line n :: rest).
Proof.
  unfold fix_path. intros H. destruct (py_last lp0) as [lst|]; [|discriminate]. cbn [pbind] in H.
  set (lp1 := if node_eq_int lst sink then py_drop_last lp0 else lp0) in *.
  destruct (py_nth lp1 0) as [first|] eqn:E; [|discriminate]. cbn [pbind] in H. inversion H as [H1]. clear H.
  unfold py_nth in E. destruct lp1 as [|f rest]; [discriminate|]. cbn in E. inversion E; subst f.
  destruct first as [z|n]; cbn [node_int node_eq_int].
  - rewrite Z.eqb_refl. cbn [negb]. left. exists z, rest. reflexivity.
  - cbn [negb]. right. exists n, rest. reflexivity.
Qed.

(* ------------------------------------------------------------------ MAIN *)
Section Main.
  Context {I : Type} (ln : I -> Z) (lat lcp : I -> Q) (set_lcp : I -> Q -> I).
  Hypothesis ln_set : forall i v, ln (set_lcp i v) = ln i.
  Hypothesis lat_set : forall i v, lat (set_lcp i v) = lat i.
  Hypothesis lcp_set : forall i v, lcp (set_lcp i v) = v.
  Variable self_dg : nxg Q.
  Hypothesis G1 : NoDup (map ekey (nx_edges_data self_dg)).
  Hypothesis G2 : forall u v w, In (u, v, w) (nx_edges_data self_dg) -> (exists b, v = Line b /\ (0 <= b)%Z) /\ (0 <= node_int u)%Z.
  Variable heap : list I.
  Hypothesis ND : NoDup (map ln heap).
  Hypothesis NN : forall i, In i heap -> (0 <= ln i)%Z.
  (* dependency edges point forward in the kernel *)
  Hypothesis G3 : forall a b w, In (Line a, Line b, w) (nx_edges_data self_dg) -> (pos (map ln heap) a < pos (map ln heap) b)%nat.

  (* the kernel as Model/CritPath.v sees it, and the reported cells *)
  Definition kernel_of (h : list I) : list (nat * Q) := combine (map Z.to_nat (map ln h)) (map lat h).
  Definition cells_of (refs : list nat) (h : list I) : list (nat * Q) :=
    map (fun r => match nth_error h r with Some i => (Z.to_nat (ln i), lcp i) | None => (0%nat, 0) end) refs.

  Lemma lookup_kernel : forall (h : list I) i, NoDup (map ln h) -> (forall j, In j h -> (0 <= ln j)%Z) -> In i h ->
    lookup (kernel_of h) (Z.to_nat (ln i)) = Some (lat i).
  Proof.
    induction h as [|x h IH]; intros i NDh Hnn Hi; [contradiction|]. unfold kernel_of. cbn [map combine lookup].
    inversion NDh as [|? ? Hnot NDh']; subst.
    destruct (Nat.eqb_spec (Z.to_nat (ln i)) (Z.to_nat (ln x))) as [E|E].
    - apply Z2Nat.inj in E; [| apply Hnn; exact Hi | apply Hnn; left; reflexivity].
      destruct Hi as [->|Hi]; [reflexivity|]. exfalso. apply Hnot. rewrite <- E. apply in_map. exact Hi.
    - destruct Hi as [->|Hi]; [congruence|]. apply IH; [exact NDh' | intros j Hj; apply Hnn; right; exact Hj | exact Hi].
  Qed.

  Let P (sd : node * node) (zw : Z * Q) : Prop :=
    fst zw = node_int (fst sd) /\ nx_edge_latency self_dg (fst sd) (snd sd) = POk (snd zw).
  Fixpoint nxlinked (c0 : Z) (steps : list (Q * Z)) : Prop :=
    match steps with [] => True | wc :: r => nx_edge_latency self_dg (Line c0) (Line (snd wc)) = POk (fst wc) /\ nxlinked (snd wc) r end.

  Lemma plain_steps : forall rest c0 ws, Forall2 P (py_pairwise (Line c0 :: rest)) ws ->
    exists steps, rest = map Line (map snd steps) /\ ws = srcs c0 steps /\ nxlinked c0 steps.
  Proof.
    induction rest as [|y r IH]; intros c0 ws F.
    - inversion F; subst. exists []. repeat split.
    - change (py_pairwise (Line c0 :: y :: r)) with ((Line c0, y) :: py_pairwise (y :: r)) in F.
      inversion F as [|sd zw l l' HP F']; subst. destruct HP as (E1 & E2). destruct zw as [z w]. cbn [fst snd node_int] in E1, E2. subst z.
      pose proof (nx_latency_in _ _ _ _ E2) as Hin. destruct (G2 _ _ _ Hin) as ((b & -> & _) & _).
      destruct (IH b l' F') as (steps & Er & Ew & Hl). exists ((w, b) :: steps).
      split; [cbn [map snd]; rewrite Er; reflexivity|]. split; [cbn [srcs fst snd]; rewrite <- Ew; reflexivity|].
      cbn [nxlinked fst snd]. split; assumption.
  Qed.

  Lemma nxlinked_linked : forall steps c0, nxlinked c0 steps -> linked (to_edges self_dg) c0 steps.
  Proof.
    induction steps as [|wc r IH]; intros c0 H; [exact Logic.I|]. destruct H as (H1 & H2). split; [apply (weight_of_nx self_dg G1 G2); exact H1 | apply IH; exact H2].
  Qed.
  Lemma nxlinked_increasing : forall steps c0, nxlinked c0 steps -> increasing (map ln heap) (lines c0 steps).
  Proof.
    induction steps as [|wc r IH]; intros c0 H; [exact Logic.I|]. destruct H as (H1 & H2). unfold lines. cbn [map increasing].
    split; [apply (G3 _ _ (fst wc)); apply nx_latency_in; exact H1 | apply (IH (snd wc) H2)].
  Qed.

  Lemma existsb_lines cs z : existsb (fun n => node_eq_int n z) (map Line cs) = existsb (Z.eqb z) cs.
  Proof. induction cs as [|a cs IH]; [reflexivity|]. cbn [map existsb node_eq_int]. rewrite IH, (Z.eqb_sym a z). reflexivity. Qed.

  Definition c_init : cfun := fun z => match find (fun i => Z.eqb (ln i) z) heap with Some i => lcp i | None => 0 end.
  Lemma R_init : R ln lcp heap c_init.
  Proof.
    intros i Hi. unfold c_init. destruct (find (fun j => Z.eqb (ln j) (ln i)) heap) as [j|] eqn:F.
    - apply find_some in F. destruct F as (Hj & E). apply Z.eqb_eq in E. rewrite (nodup_map_inj ln heap j i ND Hj Hi E). reflexivity.
    - pose proof (find_none _ _ F i Hi) as C. cbn in C. rewrite Z.eqb_refl in C. discriminate.
  Qed.

  (* WHENEVER get_critical_path (its functional reading) returns, the reported lines with their latency_cp pass cert_ok on self.dg:
     they are a dependency chain, every cell is the weight of the edge to the next line (the first one may carry the load stage of
     its line in addition), the last cell is the latency of its instruction -- for ANY behaviour of the two networkx algorithms *)
  Theorem cp_model_certificate is_dag longest refs heap' :
    cp_model QNum ln lat lcp set_lcp is_dag longest self_dg heap = POk (refs, heap') ->
    cert_ok QNum (to_edges self_dg) (lookup (kernel_of heap)) true (cells_of refs heap') = true /\
    map ln heap' = map ln heap /\ map lat heap' = map lat heap.
  Proof.
    unfold cp_model. intros H.
    destruct (py_max_key_idx _ (map lat heap)) as [mx|]; [|discriminate]. cbn [pbind] in H.
    destruct (is_dag self_dg); [|discriminate].
    destruct (fix_path (longest _)) as [lp|] eqn:Efix; [|discriminate]. cbn [pbind] in H.
    destruct (py_for lp heap _) as [h1|] eqn:Ez; [|discriminate]. cbn [pbind] in H.
    destruct (py_for (py_pairwise lp) _ _) as [[h2 pl]|] eqn:Ea; [|discriminate]. cbn [pbind fst snd] in H.
    destruct (py_last lp) as [lst|] eqn:El; [|discriminate]. cbn [pbind] in H.
    destruct (node_by_lineno ln h2 (node_int lst)) as [r|] eqn:Er; [|discriminate]. cbn [pbind] in H.
    (* the loops *)
    destruct (zero_loop ln lat lcp set_lcp ln_set lat_set lcp_set lp heap h1 c_init ND R_init Ez) as (R1 & L1 & A1 & In1).
    assert (ND1 : NoDup (map ln h1)) by (rewrite L1; exact ND).
    destruct (acc_loop ln lat lcp set_lcp ln_set lat_set lcp_set self_dg _ _ _ _ _ _ ND1 R1 Ea) as (ws & F & R2 & L2 & A2 & _).
    assert (ND2 : NoDup (map ln h2)) by (rewrite L2; exact ND1).
    destruct (by_line ln set_lcp h2 (node_int lst) r ND2 Er) as (il & Hdl & Hil & Hzl & Hsetl).
    unfold set_cp at 1 in H. rewrite Hdl in H. cbn [pbind] in H. rewrite (Hsetl lat) in H. cbn [pbind] in H.
    set (h3 := upd ln set_lcp h2 (node_int lst) lat) in *.
    assert (L3 : map ln h3 = map ln heap) by (unfold h3; rewrite (upd_ln ln set_lcp ln_set), L2, L1; reflexivity).
    assert (A3 : map lat h3 = map lat heap) by (unfold h3; rewrite (upd_lat ln lat set_lcp lat_set), A2, A1; reflexivity).
    assert (ND3 : NoDup (map ln h3)) by (rewrite L3; exact ND).
    assert (NN3 : forall j, In j h3 -> (0 <= ln j)%Z).
    { intros j Hj. assert (Hin : In (ln j) (map ln heap)) by (rewrite <- L3; apply in_map; exact Hj).
      apply in_map_iff in Hin. destruct Hin as (j0 & <- & Hj0). apply NN. exact Hj0. }
    assert (K3 : kernel_of h3 = kernel_of heap) by (unfold kernel_of; rewrite L3, A3; reflexivity).
    assert (R3 : R ln lcp h3 (cset (acc_fun ws (zfun c_init (map node_int lp))) (node_int lst) (lat il))).
    { unfold h3. apply (R_upd ln lcp set_lcp ln_set lcp_set); [exact R2|]. intros j Hj Ej.
      rewrite (nodup_map_inj ln h2 j il ND2 Hj Hil (eq_trans Ej (eq_sym Hzl))). reflexivity. }
    assert (Hil3 : In (set_lcp il (lat il)) h3).
    { unfold h3, upd. apply in_map_iff. exists il. rewrite Hzl, Z.eqb_refl. split; [reflexivity | exact Hil]. }
    clearbody h3.
    destruct (py_deref h3 r) as [i2|]; [|discriminate]. cbn [pbind] in H.
    destruct (py_deref h3 mx) as [im|] eqn:Edm; [|discriminate]. cbn [pbind] in H.
    destruct (nltb QNum _ (lat im)).
    - (* the single instruction with the greatest latency *)
      unfold set_cp in H. rewrite Edm in H. cbn [pbind] in H.
      unfold py_deref, py_nth in Edm. destruct (nth_error h3 mx) as [im'|] eqn:Em; [|discriminate]. inversion Edm; subst im'.
      assert (Eset : py_heap_set h3 mx (set_lcp im (lat im)) = POk (upd ln set_lcp h3 (ln im) lat))
        by (rewrite (heap_set_split h3 mx im _ Em), (upd_split ln set_lcp h3 (ln im) lat mx im ND3 Em eq_refl); reflexivity).
      rewrite Eset in H. cbn [pbind] in H. inversion H; subst refs heap'. clear H.
      split; [|split; [rewrite (upd_ln ln set_lcp ln_set); exact L3 | rewrite (upd_lat ln lat set_lcp lat_set); exact A3]].
      unfold cells_of. cbn [map]. unfold upd. rewrite (map_nth_error _ _ _ Em). rewrite Z.eqb_refl.
      rewrite ln_set, lcp_set, cert_ok_one, <- K3, (lookup_kernel h3 im ND3 NN3 (nth_error_In _ _ Em)).
      apply neqb_iff. reflexivity.
    - (* the path *)
      rewrite (py_filterM_deref (fun i => existsb (fun n => node_eq_int n (ln i)) lp) h3) in H. cbn [pbind] in H.
      inversion H; subst refs heap'. clear H. split; [|split; [exact L3 | exact A3]].
      set (c3 := cset (acc_fun ws (zfun c_init (map node_int lp))) (node_int lst) (lat il)) in *.
      (* what was reported: the lines of the kernel that lie on the path, with their cells *)
      assert (Ecells : forall cs, (forall z, existsb (fun n => node_eq_int n z) lp = existsb (Z.eqb z) cs) ->
                cells_of (py_filter_idx (fun i => existsb (fun n => node_eq_int n (ln i)) lp) h3) h3 =
                map (fun z => (Z.to_nat z, c3 z)) (filter (fun z => existsb (Z.eqb z) cs) (map ln heap))).
      { intros cs Hcs. unfold cells_of, py_filter_idx.
        rewrite <- (map_map (nth_error h3) (fun o => match o with Some i => (Z.to_nat (ln i), lcp i) | None => (0%nat, 0) end)).
        rewrite (filter_idx_nth _ h3 []). rewrite map_map, <- L3, filter_map_comm, map_map.
        rewrite (filter_ext _ (fun i => existsb (Z.eqb (ln i)) cs)) by (intros i; apply Hcs).
        apply map_ext_in. intros i Hi. apply filter_In in Hi. rewrite (R3 i (proj1 Hi)). reflexivity. }
      assert (Hlatl : lookup (kernel_of heap) (Z.to_nat (node_int lst)) = Some (lat il)).
      { (* the object itself has been replaced by its updated copy: same line, same latency *)
        pose proof (lookup_kernel h3 (set_lcp il (lat il)) ND3 NN3 Hil3) as LK.
        rewrite ln_set, lat_set, Hzl, K3 in LK. exact LK. }
      assert (Hfin : forall c0 steps (c : cfun) (lp' : list node),
                 (forall z, existsb (fun n => node_eq_int n z) lp = existsb (Z.eqb z) (lines c0 steps)) ->
                 (forall z, In z (lines c0 steps) -> In z (map ln heap)) ->
                 nxlinked c0 steps -> node_int lst = last_line c0 steps ->
                 acc_fun ws (zfun c_init (map node_int lp)) = acc_fun (srcs c0 steps) c ->
                 (forall z, In z (map snd steps) -> c z == 0) ->
                 (forall w0 c1 r0, steps = (w0, c1) :: r0 ->
                    nadd QNum (c c0) w0 == w0 \/ nadd QNum (c c0) w0 == loadw QNum (to_edges self_dg) (Z.to_nat c0) + w0) ->
                 cert_ok QNum (to_edges self_dg) (lookup (kernel_of heap)) true
                   (cells_of (py_filter_idx (fun i => existsb (fun n => node_eq_int n (ln i)) lp) h3) h3) = true).
      { intros c0 steps c _ Hex Hsub Hnx Elst Eacc Hzero Hhead.
        rewrite (Ecells (lines c0 steps) Hex).
        rewrite (filter_increasing (map ln heap) (lines c0 steps) ND Hsub (nxlinked_increasing steps c0 Hnx)).
        unfold c3. rewrite Eacc, Elst.
        apply (plain_cert (to_edges self_dg) (lookup (kernel_of heap)) (fun _ => lat il) steps c0 c true).
        - apply (increasing_nodup (map ln heap)). apply nxlinked_increasing. exact Hnx.
        - apply nxlinked_linked. exact Hnx.
        - exact Hzero.
        - intros w0 c1 r0 E. destruct (Hhead w0 c1 r0 E) as [H1|H1]; [left; exact H1 | right; split; [reflexivity | exact H1]].
        - rewrite <- Elst. exact Hlatl. }
      assert (Hsub0 : forall z, In (Line z) lp -> In z (map ln heap)).
      { intros z Hz. rewrite Forall_forall in In1. exact (In1 (Line z) Hz). }
      destruct (fix_path_shape _ _ Efix) as [(c0 & rest & Elp)|(c0 & rest & Elp)]; subst lp.
      + (* the path starts at an instruction *)
        destruct (plain_steps rest c0 ws F) as (steps & -> & -> & Hnx).
        assert (Elst : node_int lst = last_line c0 steps).
        { unfold py_last in El. inversion El. rewrite (last_map_f Line). reflexivity. }
        assert (Eints : map node_int (Line c0 :: map Line (map snd steps)) = lines c0 steps)
          by (unfold lines; cbn [map node_int]; rewrite map_map; cbn [node_int]; rewrite map_id; reflexivity).
        apply (Hfin c0 steps (zfun c_init (map node_int (Line c0 :: map Line (map snd steps)))) []).
        * intros z. apply (existsb_lines (lines c0 steps) z).
        * intros z Hz. apply Hsub0. change (Line c0 :: map Line (map snd steps)) with (map Line (lines c0 steps)). apply in_map. exact Hz.
        * exact Hnx.
        * exact Elst.
        * reflexivity.
        * intros z Hz. rewrite Eints, zfun_in by (right; exact Hz). reflexivity.
        * intros w0 c1 r0 _. left. rewrite Eints, zfun_in by (left; reflexivity). rewrite cpadd_eq. lra.
      + (* the path starts at the load stage of its first instruction *)
        change (py_pairwise (Load c0 :: Line c0 :: rest)) with ((Load c0, Line c0) :: py_pairwise (Line c0 :: rest)) in F.
        inversion F as [|sd zw l l' HP F']; subst. destruct HP as (E1 & E2). destruct zw as [z wl]. cbn [fst snd node_int] in E1, E2. subst z.
        destruct (plain_steps rest c0 l' F') as (steps & -> & -> & Hnx).
        assert (Elst : node_int lst = last_line c0 steps).
        { unfold py_last in El. inversion El. cbn [last]. destruct (map Line (map snd steps)) as [|x l0] eqn:Em.
          - destruct steps; [reflexivity | discriminate].
          - rewrite (last_default l0 x (Load c0) (Line c0)), <- Em, (last_map_f Line). reflexivity. }
        assert (Eints : map node_int (Load c0 :: Line c0 :: map Line (map snd steps)) = c0 :: lines c0 steps)
          by (unfold lines; cbn [map node_int]; rewrite map_map; cbn [node_int]; rewrite map_id; reflexivity).
        set (c := zfun c_init (map node_int (Load c0 :: Line c0 :: map Line (map snd steps)))) in *.
        assert (NDl : NoDup (lines c0 steps)) by (apply (increasing_nodup (map ln heap)); apply nxlinked_increasing; exact Hnx).
        apply (Hfin c0 steps (cset c c0 (nadd QNum (c c0) wl)) []).
        * intros z. cbn [existsb node_eq_int orb]. apply (existsb_lines (lines c0 steps) z).
        * intros z Hz. apply Hsub0. right. change (Line c0 :: map Line (map snd steps)) with (map Line (lines c0 steps)). apply in_map. exact Hz.
        * exact Hnx.
        * exact Elst.
        * reflexivity.
        * intros z Hz. unfold cset. destruct (Z.eqb_spec z c0) as [->|_]; [inversion NDl; contradiction|].
          unfold c. rewrite Eints, zfun_in by (right; right; exact Hz). reflexivity.
        * intros w0 c1 r0 _. right. unfold cset. rewrite Z.eqb_refl. unfold c. rewrite Eints, zfun_in by (left; reflexivity).
          rewrite (loadw_of_nx self_dg G1 G2 c0 wl E2), !cpadd_eq. lra.
  Qed.
End Main.

(* ------------------------------------------------------------------ with Proofs/CritCert.cert_sound: what the reported path is when,
   in addition, the cells add up to cp_opt (the one comparison that is left to the per-run certificate check) *)
Section Longest.
  Context {I : Type} (ln : I -> Z) (lat lcp : I -> Q) (set_lcp : I -> Q -> I).
  Hypothesis ln_set : forall i v, ln (set_lcp i v) = ln i.
  Hypothesis lat_set : forall i v, lat (set_lcp i v) = lat i.
  Hypothesis lcp_set : forall i v, lcp (set_lcp i v) = v.

  Theorem cp_model_longest_chain (self_dg : nxg Q) (heap : list I) is_dag longest refs heap' :
    NoDup (map ekey (nx_edges_data self_dg)) ->
    (forall u v w, In (u, v, w) (nx_edges_data self_dg) -> (exists b, v = Line b /\ (0 <= b)%Z) /\ (0 <= node_int u)%Z) ->
    NoDup (map ln heap) -> (forall i, In i heap -> (0 <= ln i)%Z) ->
    (forall a b w, In (Line a, Line b, w) (nx_edges_data self_dg) -> (pos (map ln heap) a < pos (map ln heap) b)%nat) ->
    nonneg_edges (to_edges self_dg) -> forward_ok (to_edges self_dg) [] (kernel_of ln lat heap) ->
    cp_model QNum ln lat lcp set_lcp is_dag longest self_dg heap = POk (refs, heap') ->
    cert_value QNum (cells_of ln lcp refs heap') == cp_opt QNum (to_edges self_dg) (kernel_of ln lat heap) ->
    let g := to_edges self_dg in let k := kernel_of ln lat heap in let cells := cells_of ln lcp refs heap' in
    cells_spec g (lookup k) true cells /\
    exists e l, chain g (map fst cells) e /\ In (last_of (map fst cells), l) k /\
      clen g (map fst cells) e l == cells_sum cells /\
      clen g (map fst cells) e l == cp_opt QNum g k /\
      longest_chain g k (map fst cells) e l.
  Proof.
    intros G1 G2 ND NN G3 Hw FO H Hsum. cbv zeta.
    destruct (cp_model_certificate ln lat lcp set_lcp ln_set lat_set lcp_set self_dg G1 G2 heap ND NN G3 is_dag longest refs heap' H) as (Hc & _ & _).
    apply (cp_certificate_sound_lookup (to_edges self_dg) (kernel_of ln lat heap) (cells_of ln lcp refs heap') Hw FO).
    unfold cp_certificate. rewrite Hc. cbn [andb]. apply neqb_iff. exact Hsum.
  Qed.
End Longest.
