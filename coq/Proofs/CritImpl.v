(* What the functional reading of get_critical_path (Model/CritImpl.cp_model, proved equal to the regenerated code in
   PropsGen/C04gen.v) computes, connected with the certificate of Model/CritPath.v / Proofs/CritCert.v.  Exact rationals.

   MAIN RESULT (cp_model_certificate): whatever the two networkx algorithms return -- they are parameters --, WHENEVER cp_model
   returns normally, the lines it reports with their latency_cp cells pass cert_ok on the graph self.dg: they are a dependency
   chain of the kernel, every cell but the last is the latency of the edge to the next line (the first may carry the load stage
   of its line in addition), the last cell is the latency of its instruction.  Together with Proofs/CritCert.cert_sound this leaves
   exactly one thing to the per-run check: that the cells add up to cp_opt (that dag_longest_path returned a longest path). *)
From Coq Require Import ZArith QArith Lqa List Bool String Lia.
From OV Require Import Model.Num Model.Deps Model.CritPath Proofs.CritPathQ Proofs.CritCert
     Model.PyLcd Model.LcdPost Model.CritImpl Proofs.PyLcdFacts Proofs.LcdPost.
Import ListNotations.
Local Open Scope list_scope.

(* ------------------------------------------------------------------ generic list facts *)
Lemma fold_last_same {A B} (m : A -> bool) (v : A -> B) (vx : B) : forall (es : list A) (d : B),
  (forall y, In y es -> m y = true -> v y = vx) -> ((exists y, In y es /\ m y = true) \/ d = vx) ->
  fold_left (fun acc e => if m e then v e else acc) es d = vx.
Proof.
  induction es as [|e es IH]; intros d Hu H.
  - destruct H as [(y & [] & _)|H]; exact H.
  - cbn [fold_left]. destruct (m e) eqn:E.
    + apply IH; [intros y Hy; apply Hu; right; exact Hy | right; apply Hu; [left; reflexivity | exact E]].
    + apply IH; [intros y Hy; apply Hu; right; exact Hy|]. destruct H as [(y & [<-|Hy] & My)|H]; [congruence | left; exists y; split; assumption | right; exact H].
Qed.

(* ------------------------------------------------------------------ the heap of self.kernel: updates by line number *)
Section Heap.
  Context {I : Type} (ln : I -> Z) (lat lcp : I -> Q) (set_lcp : I -> Q -> I).
  Hypothesis ln_set : forall i v, ln (set_lcp i v) = ln i.
  Hypothesis lat_set : forall i v, lat (set_lcp i v) = lat i.
  Hypothesis lcp_set : forall i v, lcp (set_lcp i v) = v.

  (* latency_cp of the object(s) with line number z becomes g(object) *)
  Definition upd (h : list I) (z : Z) (g : I -> Q) : list I := map (fun i => if Z.eqb (ln i) z then set_lcp i (g i) else i) h.

  Lemma upd_ln h z g : map ln (upd h z g) = map ln h.
  Proof. unfold upd. rewrite map_map. apply map_ext. intros i. destruct (Z.eqb (ln i) z); [apply ln_set | reflexivity]. Qed.
  Lemma upd_lat h z g : map lat (upd h z g) = map lat h.
  Proof. unfold upd. rewrite map_map. apply map_ext. intros i. destruct (Z.eqb (ln i) z); [apply lat_set | reflexivity]. Qed.

  Lemma heap_set_split : forall (h : list I) r i v, nth_error h r = Some i -> py_heap_set h r v = POk (firstn r h ++ v :: skipn (S r) h).
  Proof.
    induction h as [|x h IH]; intros r i v H; [destruct r; discriminate|]. destruct r as [|r]; [reflexivity|].
    cbn [nth_error] in H. cbn [py_heap_set]. rewrite (IH r i v H). reflexivity.
  Qed.

  Lemma upd_id h z g : ~ In z (map ln h) -> upd h z g = h.
  Proof.
    intros H. unfold upd. rewrite <- (map_id h) at 2. apply map_ext_in. intros i Hi.
    destruct (Z.eqb_spec (ln i) z) as [E|E]; [|reflexivity]. exfalso. apply H. rewrite <- E. apply in_map. exact Hi.
  Qed.

  Lemma upd_split : forall h z g r i, NoDup (map ln h) -> nth_error h r = Some i -> ln i = z ->
    upd h z g = firstn r h ++ set_lcp i (g i) :: skipn (S r) h.
  Proof.
    induction h as [|x h IH]; intros z g r i ND H E; [destruct r; discriminate|]. cbn [map] in ND. inversion ND as [|? ? Hnot ND']; subst.
    destruct r as [|r].
    - cbn in H. inversion H; subst x. cbn [firstn skipn app]. unfold upd at 1. cbn [map]. rewrite Z.eqb_refl. f_equal.
      apply (upd_id h (ln i) g Hnot).
    - cbn [nth_error] in H. cbn [firstn skipn app]. unfold upd at 1. cbn [map].
      destruct (Z.eqb_spec (ln x) (ln i)) as [Ex|Ex].
      + exfalso. apply Hnot. rewrite Ex. apply in_map. eapply nth_error_In. exact H.
      + f_equal. exact (IH (ln i) g r i ND' H eq_refl).
  Qed.

  (* self._get_node_by_lineno(z) followed by a store into .latency_cp *)
  Lemma by_line h z r : NoDup (map ln h) -> node_by_lineno ln h z = POk r ->
    exists i, py_deref h r = POk i /\ In i h /\ ln i = z /\ forall g, py_heap_set h r (set_lcp i (g i)) = POk (upd h z g).
  Proof.
    intros ND H. pose proof (node_by_lineno_spec ln h z) as S. rewrite H in S. destruct S as (i & Hn & Hz & _).
    exists i. split; [apply py_deref_some; exact Hn|]. split; [eapply nth_error_In; exact Hn|]. split; [exact Hz|].
    intros g. rewrite (heap_set_split h r i _ Hn), (upd_split h z g r i ND Hn Hz). reflexivity.
  Qed.

  (* latency_cp as a function of the line number *)
  Definition cfun := Z -> Q.
  Definition cset (c : cfun) (z : Z) (v : Q) : cfun := fun z' => if Z.eqb z' z then v else c z'.
  Definition R (h : list I) (c : cfun) : Prop := forall i, In i h -> lcp i = c (ln i).

  Lemma R_upd h c z g v : R h c -> (forall i, In i h -> ln i = z -> g i = v) -> R (upd h z g) (cset c z v).
  Proof.
    intros HR Hg j Hj. unfold upd in Hj. apply in_map_iff in Hj. destruct Hj as (i & <- & Hi). unfold cset.
    destruct (Z.eqb_spec (ln i) z) as [E|E].
    - rewrite ln_set, lcp_set. destruct (Z.eqb_spec (ln i) z); [apply Hg; assumption | contradiction].
    - destruct (Z.eqb_spec (ln i) z); [contradiction | apply HR; exact Hi].
  Qed.

  Lemma upd_In_lat h z g i : In i (upd h z g) -> exists i0, In i0 h /\ ln i = ln i0 /\ lat i = lat i0.
  Proof.
    unfold upd. intros H. apply in_map_iff in H. destruct H as (i0 & <- & Hi). exists i0. split; [exact Hi|].
    destruct (Z.eqb (ln i0) z); [rewrite ln_set, lat_set|]; split; reflexivity.
  Qed.

  (* ---------------------------------------------------------------- the two loops over the path *)
  Variable self_dg : nxg Q.

  Definition zfun (c : cfun) (zs : list Z) : cfun := fold_left (fun c0 z => cset c0 z 0) zs c.

  Lemma zero_loop : forall lp h h' c, NoDup (map ln h) -> R h c ->
    py_for lp h (zero_step QNum ln set_lcp) = POk h' ->
    R h' (zfun c (map node_int lp)) /\ map ln h' = map ln h /\ map lat h' = map lat h /\
    Forall (fun nd => In (node_int nd) (map ln h)) lp.
  Proof.
    induction lp as [|nd lp IH]; intros h h' c ND HR H.
    - inversion H; subst. repeat split; [exact HR | constructor].
    - cbn [py_for] in H. unfold zero_step at 1 in H.
      destruct (node_by_lineno ln h (node_int nd)) as [r|e] eqn:En; [|discriminate]. cbn [pbind] in H.
      destruct (by_line h (node_int nd) r ND En) as (i & Hd & Hi & Hz & Hset). unfold set_cp in H. rewrite Hd in H. cbn [pbind] in H.
      rewrite (Hset (fun _ => nofZ QNum 0)) in H. cbn [pbind] in H.
      assert (ND' : NoDup (map ln (upd h (node_int nd) (fun _ => nofZ QNum 0)))) by (rewrite upd_ln; exact ND).
      assert (HR' : R (upd h (node_int nd) (fun _ => nofZ QNum 0)) (cset c (node_int nd) 0))
        by (apply R_upd; [exact HR | intros; reflexivity]).
      destruct (IH _ _ _ ND' HR' H) as (A & B & C & D). rewrite upd_ln in B, D. rewrite upd_lat in C.
      split; [exact A|]. split; [exact B|]. split; [exact C|]. constructor; [|exact D].
      rewrite <- Hz. apply in_map. exact Hi.
  Qed.

  Fixpoint acc_fun (ws : list (Z * Q)) (c : cfun) : cfun :=
    match ws with [] => c | zw :: r => acc_fun r (cset c (fst zw) (nadd QNum (c (fst zw)) (snd zw))) end.

  Lemma acc_loop : forall pairs h p0 h' p' c, NoDup (map ln h) -> R h c ->
    py_for pairs (h, p0) (acc_step QNum ln lcp set_lcp self_dg) = POk (h', p') ->
    exists ws, Forall2 (fun sd zw => fst zw = node_int (fst sd) /\ nx_edge_latency self_dg (fst sd) (snd sd) = POk (snd zw)) pairs ws /\
      R h' (acc_fun ws c) /\ map ln h' = map ln h /\ map lat h' = map lat h /\
      p' = fold_left (fun a zw => nadd QNum a (snd zw)) ws p0.
  Proof.
    induction pairs as [|[s d] pairs IH]; intros h p0 h' p' c ND HR H.
    - inversion H; subst. exists []. repeat split; [constructor | exact HR].
    - cbn [py_for] in H. unfold acc_step at 1 in H. cbn [fst snd] in H.
      destruct (node_by_lineno ln h (node_int s)) as [r|e] eqn:En; [|discriminate]. cbn [pbind] in H.
      destruct (by_line h (node_int s) r ND En) as (i & Hd & Hi & Hz & Hset). rewrite Hd in H. cbn [pbind] in H.
      destruct (nx_edge_latency self_dg s d) as [w|e] eqn:Ew; [|discriminate]. cbn [pbind] in H.
      rewrite (Hset (fun i0 => nadd QNum (lcp i0) w)) in H. cbn [pbind] in H.
      set (h1 := upd h (node_int s) (fun i0 => nadd QNum (lcp i0) w)) in *.
      assert (ND' : NoDup (map ln h1)) by (unfold h1; rewrite upd_ln; exact ND).
      assert (HR' : R h1 (cset c (node_int s) (nadd QNum (c (node_int s)) w))).
      { apply R_upd; [exact HR|]. intros j Hj Ej. rewrite (HR j Hj), Ej. reflexivity. }
      destruct (IH _ _ _ _ _ ND' HR' H) as (ws & F & A & B & C & D). unfold h1 in B, C. rewrite upd_ln in B. rewrite upd_lat in C.
      exists ((node_int s, w) :: ws). split; [constructor; [split; [reflexivity | exact Ew] | exact F]|].
      split; [exact A|]. split; [exact B|]. split; [exact C | exact D].
  Qed.
End Heap.

(* ------------------------------------------------------------------ cells along a chain pass cert_ok (pure: latency_cp as a function) *)
Section Chain.
  Variable g : list qedge.
  Variable latn : nat -> option Q.
  Variable latf : Z -> Q.

  (* a chain c0 -w0-> c1 -w1-> ... as its first line and its steps *)
  Fixpoint srcs (c0 : Z) (steps : list (Q * Z)) : list (Z * Q) :=
    match steps with [] => [] | wc :: r => (c0, fst wc) :: srcs (snd wc) r end.
  Definition lines (c0 : Z) (steps : list (Q * Z)) : list Z := c0 :: map snd steps.
  Fixpoint linked (c0 : Z) (steps : list (Q * Z)) : Prop :=
    match steps with [] => True | wc :: r => weight g (Z.to_nat c0) (Z.to_nat (snd wc)) = Some (fst wc) /\ linked (snd wc) r end.
  Definition last_line (c0 : Z) (steps : list (Q * Z)) : Z := last (map snd steps) c0.

  Lemma last_default {A} : forall (l : list A) x d d', last (x :: l) d = last (x :: l) d'.
  Proof. induction l as [|y l IH]; intros x d d'; [reflexivity|]. cbn [last] in *. apply (IH y). Qed.
  Lemma last_line_cons c0 wc r : last_line c0 (wc :: r) = last_line (snd wc) r.
  Proof.
    unfold last_line. cbn [map]. destruct (map snd r) as [|x l]; [reflexivity|]. cbn [last]. apply (last_default l x).
  Qed.
  Lemma last_line_in c0 steps : In (last_line c0 steps) (lines c0 steps).
  Proof.
    revert c0. induction steps as [|wc r IH]; intros c0; [left; reflexivity|]. rewrite last_line_cons. right. exact (IH (snd wc)).
  Qed.
  Lemma srcs_keys c0 steps z : In z (map fst (srcs c0 steps)) -> In z (lines c0 steps).
  Proof.
    revert c0. induction steps as [|wc r IH]; intros c0 H; [contradiction|]. cbn [srcs map fst] in H. destruct H as [<-|H]; [left; reflexivity|].
    right. exact (IH (snd wc) H).
  Qed.

  Lemma acc_fun_other : forall ws (c : cfun) z, ~ In z (map fst ws) -> acc_fun ws c z = c z.
  Proof.
    induction ws as [|zw ws IH]; intros c z H; [reflexivity|]. cbn [acc_fun]. rewrite IH by (intros Hin; apply H; right; exact Hin).
    unfold cset. destruct (Z.eqb_spec z (fst zw)) as [E|E]; [|reflexivity]. exfalso. apply H. left. symmetry. exact E.
  Qed.

  Lemma plain_cert : forall steps c0 (c : cfun) (b : bool),
    NoDup (lines c0 steps) -> linked c0 steps ->
    (forall z, In z (map snd steps) -> c z == 0) ->
    (forall w0 c1 r, steps = (w0, c1) :: r ->
       nadd QNum (c c0) w0 == w0 \/ (b = true /\ nadd QNum (c c0) w0 == loadw QNum g (Z.to_nat c0) + w0)) ->
    latn (Z.to_nat (last_line c0 steps)) = Some (latf (last_line c0 steps)) ->
    cert_ok QNum g latn b
      (map (fun z => (Z.to_nat z, cset (acc_fun (srcs c0 steps) c) (last_line c0 steps) (latf (last_line c0 steps)) z)) (lines c0 steps)) = true.
  Proof.
    induction steps as [|[w c1] r IH]; intros c0 c b ND HL HZ HH Hlat.
    - cbn [lines map srcs acc_fun]. unfold last_line in *. cbn [map last] in *. rewrite cert_ok_one, Hlat. unfold cset. rewrite Z.eqb_refl.
      apply neqb_iff. reflexivity.
    - destruct HL as (Hw & HL). cbn [fst snd] in *. rewrite last_line_cons in *. cbn [snd] in *.
      set (c' := cset c c0 (nadd QNum (c c0) w)).
      set (c3 := cset (acc_fun (srcs c0 ((w, c1) :: r)) c) (last_line c1 r) (latf (last_line c1 r))).
      assert (ND1 : NoDup (lines c1 r)) by (inversion ND; assumption).
      assert (Hnot : ~ In c0 (lines c1 r)) by (inversion ND; assumption).
      assert (E0 : c3 c0 = nadd QNum (c c0) w).
      { unfold c3, cset at 1. destruct (Z.eqb_spec c0 (last_line c1 r)) as [E|_]; [exfalso; apply Hnot; rewrite E; apply last_line_in|].
        cbn [srcs acc_fun fst snd]. rewrite acc_fun_other by (intros Hin; apply Hnot; apply srcs_keys; exact Hin).
        unfold cset. rewrite Z.eqb_refl. reflexivity. }
      change (lines c0 ((w, c1) :: r)) with (c0 :: lines c1 r).
      change (map (fun z => (Z.to_nat z, c3 z)) (c0 :: lines c1 r))
        with ((Z.to_nat c0, c3 c0) :: map (fun z => (Z.to_nat z, c3 z)) (lines c1 r)).
      unfold lines at 1. cbn [map]. rewrite cert_ok_cons2, Hw. apply andb_true_iff. split.
      + rewrite E0. destruct (HH w c1 r eq_refl) as [H1|(Hb & H1)].
        * apply orb_true_iff. left. apply neqb_iff. exact H1.
        * apply orb_true_iff. right. rewrite Hb. cbn [andb]. apply neqb_iff. rewrite H1. symmetry. apply cpadd_eq.
      + change ((Z.to_nat c1, c3 c1) :: map (fun z => (Z.to_nat z, c3 z)) (map snd r)) with (map (fun z => (Z.to_nat z, c3 z)) (lines c1 r)).
        unfold c3. cbn [srcs acc_fun fst snd]. fold c'. apply (IH c1 c' false ND1 HL).
        * intros z Hz. unfold c', cset. destruct (Z.eqb_spec z c0) as [E|_]; [exfalso; apply Hnot; rewrite <- E; right; exact Hz|].
          apply HZ. right. exact Hz.
        * intros w1 c2 r' ->. left. assert (Ec : c' c1 == 0).
          { unfold c', cset. destruct (Z.eqb_spec c1 c0) as [E|_]; [exfalso; apply Hnot; rewrite <- E; left; reflexivity|]. apply HZ. left. reflexivity. }
          rewrite cpadd_eq, Ec. lra.
        * exact Hlat.
  Qed.
End Chain.

(* ------------------------------------------------------------------ self.dg (nx container) as the edge list of Model/Deps.v *)
Definition is_load (u : node) : bool := match u with Load _ => true | Line _ => false end.
Definition to_edge (e : node * node * Q) : qedge :=
  ((Z.to_nat (node_int (fst (fst e))), is_load (fst (fst e))), Z.to_nat (node_int (snd (fst e))), snd e).
Definition to_edges (g : nxg Q) : list qedge := map to_edge (nx_edges_data g).
Definition ekey (e : node * node * Q) : node * node := fst e.

Lemma node_eqb_eq a b : node_eqb a b = true -> a = b.
Proof. destruct a, b; cbn; intros H; try discriminate; apply Z.eqb_eq in H; subst; reflexivity. Qed.

Lemma adj_get_in : forall (a : list (node * Q)) v w, adj_get a v = POk w -> In (v, w) a.
Proof.
  induction a as [|[v' w'] a IH]; intros v w H; [discriminate|]. cbn [adj_get] in H. destruct (node_eqb v' v) eqn:E.
  - apply node_eqb_eq in E. inversion H; subst. left. reflexivity.
  - right. apply IH. exact H.
Qed.

Lemma nx_latency_in : forall (g : nxg Q) u v w, nx_edge_latency g u v = POk w -> In (u, v, w) (nx_edges_data g).
Proof.
  induction g as [|[m a] g IH]; intros u v w H; [discriminate|]. cbn [nx_edge_latency] in H. unfold nx_edges_data. cbn [flat_map fst snd].
  apply in_or_app. destruct (node_eqb m u) eqn:E.
  - apply node_eqb_eq in E. subst m. left. apply in_map_iff. exists (v, w). split; [reflexivity | apply adj_get_in; exact H].
  - right. apply IH. exact H.
Qed.

Section Convert.
  Variable self_dg : nxg Q.
  (* one edge per (u, v); every edge ends in an instruction node; line numbers are not negative *)
  Hypothesis G1 : NoDup (map ekey (nx_edges_data self_dg)).
  Hypothesis G2 : forall u v w, In (u, v, w) (nx_edges_data self_dg) -> (exists b, v = Line b /\ (0 <= b)%Z) /\ (0 <= node_int u)%Z.

  Lemma edge_unique u v w w' : In (u, v, w) (nx_edges_data self_dg) -> In (u, v, w') (nx_edges_data self_dg) -> w = w'.
  Proof.
    revert G1. generalize (nx_edges_data self_dg). induction l as [|e l IH]; intros ND H1 H2; [contradiction|].
    cbn [map] in ND. inversion ND as [|? ? Hnot ND']; subst.
    destruct H1 as [->|H1], H2 as [E2|H2].
    - inversion E2. reflexivity.
    - exfalso. apply Hnot. change (ekey (u, v, w)) with (ekey (u, v, w')). apply in_map. exact H2.
    - subst e. exfalso. apply Hnot. change (ekey (u, v, w')) with (ekey (u, v, w)). apply in_map. exact H1.
    - exact (IH ND' H1 H2).
  Qed.

  Lemma has_edge_of u v w (a b : Z) : has_edge (to_edges self_dg) (Z.to_nat a) (Z.to_nat b) w -> (0 <= a)%Z -> (0 <= b)%Z ->
    In (Line a, Line b, w) (nx_edges_data self_dg).
  Proof.
    clear u v. intros H Ha Hb. unfold has_edge, to_edges in H. apply in_map_iff in H. destruct H as ([[u v] w'] & E & Hin).
    unfold to_edge in E. cbn [fst snd] in E. inversion E as [[E1 E2 E3 E4]]. subst w'.
    destruct (G2 u v w Hin) as ((b' & -> & Hb') & Hu). cbn [node_int] in *. destruct u as [a'|a']; [|discriminate]. cbn [node_int] in *.
    apply Z2Nat.inj in E1; [|assumption|assumption]. apply Z2Nat.inj in E3; [|assumption|assumption]. subst. exact Hin.
  Qed.

  Lemma weight_of_nx a b w : nx_edge_latency self_dg (Line a) (Line b) = POk w ->
    weight (to_edges self_dg) (Z.to_nat a) (Z.to_nat b) = Some w.
  Proof.
    intros H. apply nx_latency_in in H. destruct (G2 _ _ _ H) as ((b' & Eb & Hb) & Ha). inversion Eb; subst b'. cbn [node_int] in Ha.
    assert (He : has_edge (to_edges self_dg) (Z.to_nat a) (Z.to_nat b) w).
    { unfold has_edge, to_edges. apply in_map_iff. exists (Line a, Line b, w). split; [reflexivity | exact H]. }
    destruct (weight_complete _ _ _ _ He) as (w' & Hw & He'). rewrite Hw. f_equal.
    apply (has_edge_of (Line a) (Line b)) in He'; [|assumption|assumption]. exact (edge_unique _ _ _ _ He' H).
  Qed.

  Lemma loadw_of_nx a w : nx_edge_latency self_dg (Load a) (Line a) = POk w -> loadw QNum (to_edges self_dg) (Z.to_nat a) = w.
  Proof.
    intros H. apply nx_latency_in in H. destruct (G2 _ _ _ H) as ((b' & Eb & Hb) & Ha). inversion Eb; subst b'. cbn [node_int] in Ha.
    assert (Hin : In ((Z.to_nat a, true), Z.to_nat a, w) (to_edges self_dg)).
    { unfold to_edges. apply in_map_iff. exists (Load a, Line a, w). split; [reflexivity | exact H]. }
    assert (Hu : forall w', In ((Z.to_nat a, true), Z.to_nat a, w') (to_edges self_dg) -> w' = w).
    { intros w' H'. unfold to_edges in H'. apply in_map_iff in H'. destruct H' as ([[u v] w''] & E & Hin').
      unfold to_edge in E. cbn [fst snd] in E. inversion E as [[E1 E2 E3 E4]]. subst w''.
      destruct (G2 u v w' Hin') as ((b' & -> & Hb') & Hu). cbn [node_int] in *. destruct u as [a'|a']; [discriminate|]. cbn [node_int] in *.
      apply Z2Nat.inj in E1; [|assumption|assumption]. apply Z2Nat.inj in E3; [|assumption|assumption]. subst.
      exact (edge_unique _ _ _ _ Hin' H). }
    unfold loadw. revert Hin Hu. generalize (n0 QNum). generalize (to_edges self_dg). clear.
    intros es. induction es as [|[[[s isld] t] w0] es IH]; intros d Hin Hu; [contradiction|]. cbn [fold_left].
    assert (G : forall (es : list qedge) d0, d0 = w -> (forall w', In ((Z.to_nat a, true), Z.to_nat a, w') es -> w' = w) ->
                fold_left (fun m (e : qedge) => let '((s, isld), t, w) := e in
                            if andb isld (andb (Nat.eqb s (Z.to_nat a)) (Nat.eqb t (Z.to_nat a))) then w else m) es d0 = w).
    { clear. induction es as [|[[[s isld] t] w0] es IH]; intros d0 Hd Hu; [exact Hd|]. cbn [fold_left]. apply IH.
      - destruct isld; cbn [andb]; [|exact Hd]. destruct (Nat.eqb_spec s (Z.to_nat a)); cbn [andb]; [|exact Hd].
        destruct (Nat.eqb_spec t (Z.to_nat a)); [|exact Hd]. subst. apply Hu. left. reflexivity.
      - intros w' H. apply Hu. right. exact H. }
    destruct Hin as [E|Hin].
    - inversion E; subst. rewrite !Nat.eqb_refl. cbn [andb]. apply G; [reflexivity | intros w' H; apply Hu; right; exact H].
    - apply IH; [exact Hin | intros w' H; apply Hu; right; exact H].
  Qed.
End Convert.
