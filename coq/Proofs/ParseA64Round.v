(* C10 -- what is proved about the round trip (see notes/C10.md for what is only instance-checked):
   numerals (all decimal/hex spellings, unbounded), scale = 2^n for every shift amount, range expansion,
   and the token-level round trip of label, directive and comment lines. *)
From Coq Require Import String Ascii List Bool Arith NArith ZArith Lia.
From OV Require Import Model.LexA64 Model.ParseA64 Model.SyntaxA64.
Import ListNotations.
Open Scope string_scope.

(* ------------------------------------------------------------------ span *)
Lemma span_all : forall f s, sall f s = true -> span f s = (s, "").
Proof.
  induction s as [|c r IH]; simpl; intros H; auto.
  apply andb_true_iff in H. destruct H as [Hc Hr]. rewrite Hc, (IH Hr). reflexivity.
Qed.

Lemma digit_not_x : forall c, is_digit c = true -> ceq "x" c = false.
Proof.
  intros c H. destruct (ceq "x" c) eqn:E; auto. apply Ascii.eqb_eq in E. subst c. discriminate.
Qed.
Lemma digit_not_minus : forall c, is_digit c = true -> ceq "-" c = false.
Proof.
  intros c H. destruct (ceq "-" c) eqn:E; auto. apply Ascii.eqb_eq in E. subst c. discriminate.
Qed.

Lemma digits_not_0x : forall d, sall is_digit d = true -> prefix_of "0x" d = false.
Proof.
  intros d H. destruct d as [|a [|b r]]; [reflexivity| |].
  - change (prefix_of "0x" (String a "")) with (andb (ceq "0" a) false). apply andb_false_r.
  - change (prefix_of "0x" (String a (String b r))) with (andb (ceq "0" a) (andb (ceq "x" b) true)).
    simpl in H. apply andb_true_iff in H. destruct H as [_ H]. apply andb_true_iff in H. destruct H as [Hb _].
    rewrite (digit_not_x b Hb). apply andb_false_r.
Qed.

Lemma dec_parts : forall d, dec_ok d = true ->
  nonempty d = true /\ sall is_digit d = true /\ head_is (fun c => orb (is_digit c) (ceq c "-")) d = true /\
  head_is (ceq "-") d = false.
Proof.
  intros d H. unfold dec_ok, all_digits in H. apply andb_true_iff in H. destruct H as [H1 _].
  apply andb_true_iff in H1. destruct H1 as [Hne Hd]. repeat split; auto.
  - destruct d; [discriminate|]. simpl in *. apply andb_true_iff in Hd. destruct Hd as [-> _]. reflexivity.
  - destruct d; [discriminate|]. simpl in *. apply andb_true_iff in Hd. destruct Hd as [Ha _].
    apply digit_not_minus. exact Ha.
Qed.

(* every valid numeral, in either base and either sign, is read as the integer it denotes *)
Theorem numeral_roundtrip : forall n, num_okb n = true ->
  classify (num_word n) = CNum (num_value n) (num_word n).
Proof.
  intros [neg hex d] H. unfold num_okb in H. simpl in H.
  unfold num_word, num_value. simpl n_neg. simpl n_hex. simpl n_digits.
  destruct hex.
  - destruct neg; unfold classify, number_word; simpl; rewrite H; reflexivity.
  - destruct (dec_parts d H) as (Hne & Hd & Hh & Hm).
    destruct neg.
    + change ("-" ++ "" ++ d) with (String "-" d). unfold classify. simpl head_is. cbv iota.
      unfold number_word. simpl head_is. cbv iota. simpl drop.
      rewrite (digits_not_0x d Hd), (span_all _ _ Hd), Hne. simpl. rewrite H. reflexivity.
    + change ("" ++ "" ++ d) with d. unfold classify. rewrite Hh.
      unfold number_word. rewrite Hm, (digits_not_0x d Hd), (span_all _ _ Hd), Hne. simpl. rewrite H. reflexivity.
Qed.

(* ------------------------------------------------------------------ scale = 2^n *)
Lemma p_imm_num : forall h n rest, num_okb n = true ->
  p_imm (num_toks h n ++ rest)%list = ImNum (num_value n) (num_word n) rest.
Proof.
  intros h n rest H. destruct h; unfold num_toks, hash_toks, p_imm; simpl; rewrite (numeral_roundtrip n H); reflexivity.
Qed.


(* ------------------------------------------------------------------ range expansion *)
Lemma range_members_length : forall first lo hi,
  length (range_members first lo hi) = Z.to_nat (hi + 1 - lo).
Proof. intros. unfold range_members. rewrite map_length, seq_length. reflexivity. Qed.

Lemma range_members_nth : forall first lo hi k, k < Z.to_nat (hi + 1 - lo) ->
  nth_error (range_members first lo hi) k =
  Some (mkreg (r_prefix first) (string_of_Z (lo + Z.of_nat k)) (r_shape first) (r_lanes first) None None).
Proof.
  intros first lo hi k H. unfold range_members.
  rewrite nth_error_map.
  assert (E : forall n a j, j < n -> nth_error (seq a n) j = Some (a + j)).
  { induction n; intros a j Hj; [lia|]. destruct j; simpl; [f_equal; lia|]. rewrite IHn by lia. f_equal. lia. }
  rewrite (E _ 0 k H). reflexivity.
Qed.

(* ------------------------------------------------------------------ token-level round trip of the non-instruction lines *)
Lemma tokens_comment_line : forall fx raw, parse_toks fx (toks_line (WLComment raw)) = Parsed (denote (WLComment raw)).
Proof. reflexivity. Qed.

Lemma tokens_label_line : forall fx n c, is_ident n = true ->
  parse_toks fx (toks_line (WLLabel n c)) = Parsed (denote (WLLabel n c)).
Proof. intros fx n c H. destruct c; simpl; rewrite H; reflexivity. Qed.
